(* C10FullProofs.v — cropMP4 as a whole (crop_mp4_file of C10FileModel.v): findEndTime composed into cropToTime, the hypotheses
   "the end time lies inside every track" DERIVED from the tool succeeding, sizeWithoutMdat computed from the cropped tables. *)
From V.lib Require Import Base.
From V.c09 Require Import C09Model C09Spec C09BaseProofs C09SttsProofs C09CttsProofs C09TimeProofs C09TrakProofs.
From V.c10 Require Import C10Model C10FileModel C10RlProofs C10EndProofs C10LayoutProofs C10TermProofs C10OutProofs
  C10E2EProofs C10CropProofs.

(* every stts delta positive: deltas_positive of C09Spec without its exception (a single zero-duration last sample) *)
Definition deltas_strict (tb : tables) : bool :=
  deltas_positive (t_stts_count tb) (t_stts_delta tb) && negb (last (t_stts_delta tb) 0 =? 0).

(* ---------- GetSampleNrAtTime returning a sample number: the time lies inside the track ---------- *)
Lemma k_of_le tb t : consistent tb = true -> k_of tb t <= nsamples tb /\ nsamples tb + 1 < 4294967296.
Proof.
  intros H. destruct (stts_facts tb H) as [_ [_ [_ [_ LD]]]]. unfold k_of.
  destruct (consistent_parts tb H) as [B _]. unfold is_u32 in B.
  pose proof (lenN_filter_le (fun s => s <? t) (starts (durs tb) 0)) as Hf. rewrite lenN_starts in Hf. lia.
Qed.

(* a track without samples: GetSampleNrAtTime never returns a sample number *)
Lemma sum_zero_all : forall cs, sumN cs = 0 -> Forall (fun c => c = 0) cs.
Proof. induction cs as [|c t IH]; intros H; [constructor|]. cbn [sumN] in H. constructor; [lia|apply IH; lia]. Qed.

Lemma sat_loop_zero : forall cs ds t accN, Forall (fun c => c = 0) cs ->
  sample_at_time_loop cs ds t 0 accN = Panic \/ exists a, sample_at_time_loop cs ds t 0 accN = Ok (None, 0, a).
Proof.
  induction cs as [|c cs IH]; intros ds t accN H; [right; exists accN; reflexivity|].
  inversion H as [|? ? Hc Ht]; subst. destruct ds as [|d ds]; [left; reflexivity|].
  cbn [sample_at_time_loop]. rewrite N.mul_0_l, N.mul_0_r, N.add_0_r. change (u64 0) with 0.
  destruct (t <? 0) eqn:E; [lia|]. apply IH. exact Ht.
Qed.

Lemma sat_empty_track tb t nr : consistent tb = true -> nsamples tb = 0 ->
  stts_get_sample_nr_at_time (t_stts_count tb) (t_stts_delta tb) t = Ok nr -> False.
Proof.
  intros H HN Hr. destruct (stts_facts tb H) as [L [S _]]. rewrite HN in S.
  pose proof (sum_zero_all _ S) as Hz. unfold stts_get_sample_nr_at_time in Hr.
  destruct (sat_loop_zero (t_stts_count tb) (t_stts_delta tb) t 0 Hz) as [E|[a E]]; rewrite E in Hr; [discriminate|].
  cbn [rbind] in Hr.
  destruct (idx_m1 (t_stts_delta tb) (lenN (t_stts_count tb))) as [dl| | |]; try discriminate. cbn [rbind] in Hr.
  destruct (negb (dl =? 0)); [discriminate|].
  destruct (idx_m1 (t_stts_count tb) (lenN (t_stts_count tb))) as [cl| | |] eqn:Ec; try discriminate. cbn [rbind] in Hr.
  unfold idx_m1 in Ec. destruct (lenN (t_stts_count tb) =? 0); [discriminate|]. unfold idx in Ec.
  destruct (nthN (t_stts_count tb) (lenN (t_stts_count tb) - 1)) as [x|] eqn:En; [|discriminate]. injection Ec as <-.
  apply nthN_In in En. rewrite Forall_forall in Hz. rewrite (Hz x En) in Hr. cbn in Hr. discriminate.
Qed.

Lemma sat_inv tb : consistent tb = true -> deltas_strict tb = true -> forall t nr,
  stts_get_sample_nr_at_time (t_stts_count tb) (t_stts_delta tb) t = Ok nr ->
  1 <= nsamples tb /\ t < sumN (durs tb) /\ nr = 1 + k_of tb t /\ S_sample_at_time tb t = Some nr.
Proof.
  intros H Hd t nr Hr.
  assert (HN : 1 <= nsamples tb).
  { destruct (N.eq_dec (nsamples tb) 0) as [E|]; [|lia]. exfalso. exact (sat_empty_track tb t nr H E Hr). }
  split; [exact HN|].
  unfold deltas_strict in Hd. apply andb_prop in Hd. destruct Hd as [Hp Hl].
  destruct (stts_facts tb H) as [L _].
  rewrite (sample_at_time_correct tb H Hp HN t) in Hr.
  unfold S_sample_at_time in *. destruct (t <? sumN (durs tb)) eqn:E.
  - injection Hr as <-. split; [lia|]. split; reflexivity.
  - pose proof (last_expand_nonzero (t_stts_count tb) (t_stts_delta tb) L Hp ltac:(lia)) as G. fold (durs tb) in G.
    destruct (last (durs tb) 1 =? 0) eqn:E0; [lia|]. cbn [andb] in Hr. discriminate.
Qed.

Lemma find_trak_end_inv tb ts et ets r : consistent tb = true -> deltas_strict tb = true ->
  find_trak_end tb ts et ets = Ok r ->
  exists tet, (if negb (ts =? u32 ets) then div_go (u64 (et * ts)) ets else Ok et) = Ok tet /\
              tet < sumN (durs tb) /\ 1 <= k_of tb tet.
Proof.
  intros H Hd Hr. unfold find_trak_end in Hr.
  destruct (if negb (ts =? u32 ets) then div_go (u64 (et * ts)) ets else Ok et) as [tet| | |] eqn:Et; try discriminate.
  cbn [rbind] in Hr.
  destruct (stts_get_sample_nr_at_time (t_stts_count tb) (t_stts_delta tb) tet) as [nr| | |] eqn:En; try discriminate.
  cbn [rbind] in Hr. destruct (sat_inv tb H Hd tet nr En) as [_ [A [B _]]].
  exists tet. split; [reflexivity|]. split; [exact A|].
  destruct (k_of_le tb tet H) as [K1 K2]. subst nr. rewrite sub32_small in Hr by lia.
  destruct (1 + k_of tb tet - 1 =? 0) eqn:E0; [discriminate|]. lia.
Qed.

(* ---------- the input: what is assumed of every track ---------- *)
Definition trak_wf (file : list N) (t : trak_in) : Prop :=
  static_ok file (mkTS (ti_id t) (ti_tb t) 0 0 1 []) /\ deltas_strict (ti_tb t) = true /\ ti_ts t < 4294967296.

Lemma trak_ends_from_pre file : forall traks seen et ets ts0, Forall (trak_wf file) traks ->
  trak_ends_from seen traks et ets = Ok ts0 -> Forall (trak_pre file et ets) traks.
Proof.
  induction traks as [|t r IH]; intros seen et ets ts0 Hwf H; [constructor|].
  inversion Hwf as [|? ? [Hst [Hd Hts]] Hwf']; subst. cbn [trak_ends_from] in H.
  destruct (existsb (N.eqb (ti_id t)) seen); [discriminate|].
  destruct (find_trak_end (ti_tb t) (ti_ts t) et ets) as [e| | |] eqn:Ee; try discriminate. cbn [rbind] in H.
  destruct (trak_ends_from (ti_id t :: seen) r et ets) as [r'| | |] eqn:Er; try discriminate.
  constructor; [|eapply IH; eauto].
  pose proof Hst as [Hc _]. cbn [ts_tb] in Hc.
  destruct (find_trak_end_inv (ti_tb t) (ti_ts t) et ets e Hc Hd Ee) as [tet [A [B C]]].
  unfold trak_pre. split; [exact Hst|]. split.
  - unfold deltas_strict in Hd. apply andb_prop in Hd. tauto.
  - exists tet. unfold track_tet. split; [exact A|]. split; assumption.
Qed.

Lemma trak_ends_pre file : forall traks et ets ts0, Forall (trak_wf file) traks -> trak_ends traks et ets = Ok ts0 ->
  Forall (trak_pre file et ets) traks.
Proof. intros traks. exact (trak_ends_from_pre file traks []). Qed.

(* ---------- sizeWithoutMdat: updateChunkOffsets does not resize a box ---------- *)
Lemma shift_stco_len d : forall l l', shift_stco d l = Ok l' -> lenN l' = lenN l.
Proof.
  induction l as [|o t IH]; intros l' H; cbn [shift_stco] in H; [injection H as <-; reflexivity|].
  destruct (4294967296 <=? u64 (o + d)); [discriminate|].
  destruct (shift_stco d t) as [t'| | |] eqn:E; try discriminate. cbn [rbind] in H. injection H as <-.
  rewrite !lenN_cons, (IH t' eq_refl). reflexivity.
Qed.

Lemma shift_track_size d tb tb' : shift_track d tb = Ok tb' -> stbl_var_size tb' = stbl_var_size tb.
Proof.
  unfold shift_track. intros H. destruct (t_stco tb) as [l|] eqn:Es.
  - destruct (shift_stco d l) as [l'| | |] eqn:E; try discriminate. cbn [rbind] in H. injection H as <-.
    unfold stbl_var_size, set_offsets. cbn [t_stts_count t_ctts t_stsc t_stsz t_stco t_co64 t_stss t_sdtp]. rewrite Es.
    cbn [opt_size]. unfold stco_box_size. rewrite (shift_stco_len d l l' E). reflexivity.
  - destruct (t_co64 tb) as [l|] eqn:Ec; [|discriminate]. injection H as <-.
    unfold stbl_var_size, set_offsets. cbn [t_stts_count t_ctts t_stsc t_stsz t_stco t_co64 t_stss t_sdtp]. rewrite Es, Ec.
    cbn [opt_size]. unfold co64_box_size, shift_co64. rewrite lenN_map. reflexivity.
Qed.

Lemma shift_tracks_size d : forall tbs tbs', shift_tracks d tbs = Ok tbs' ->
  map stbl_var_size tbs' = map stbl_var_size tbs.
Proof.
  induction tbs as [|tb t IH]; intros tbs' H; cbn [shift_tracks] in H; [injection H as <-; reflexivity|].
  destruct (shift_track d tb) as [tb'| | |] eqn:E; try discriminate. cbn [rbind] in H.
  destruct (shift_tracks d t) as [t'| | |] eqn:E2; try discriminate. cbn [rbind] in H. injection H as <-.
  cbn [map]. rewrite (shift_track_size d tb tb' E), (IH t' eq_refl). reflexivity.
Qed.

(* crop_to_time_sz is crop_to_time at the size it computes, and that size is the one of the tables it returns *)
Lemma crop_to_time_sz_ok traks et ets rest shifted ranges ks swm :
  crop_to_time_sz traks et ets rest = Ok (shifted, ranges, ks, swm) ->
  crop_to_time traks et ets swm = Ok (shifted, ranges, ks) /\ swm = size_without_mdat rest shifted.
Proof.
  unfold crop_to_time_sz, crop_to_time. intros H.
  destruct (trak_ends traks et ets) as [ts0| | |]; try discriminate. cbn [rbind] in *.
  destruct (fill_loop (fill_fuel ts0) ts0 [] 0 0) as [[[ts' rg] first]| | |]; try discriminate. cbn [rbind] in *.
  destruct (crop_all ts') as [cropped| | |]; try discriminate. cbn [rbind] in *.
  destruct (update_chunk_offsets (size_without_mdat rest cropped) first cropped) as [sh| | |] eqn:Eu; try discriminate.
  cbn [rbind] in H. injection H as <- <- <- <-. rewrite Eu. cbn [rbind]. split; [reflexivity|].
  unfold size_without_mdat. unfold update_chunk_offsets, update_chunk_offsets_h in Eu.
  rewrite (shift_tracks_size _ cropped sh Eu). reflexivity.
Qed.

(* ---------- the reference track ---------- *)
Lemma find_some_in {A} (f : A -> bool) l x : find f l = Some x -> In x l /\ f x = true.
Proof. apply find_some. Qed.

(* the track chosen is the FIRST track with handler "vide" if there is one, else the FIRST with handler "soun" *)
Definition ref_choice (hs : list trak_h) (ref : trak_in) : Prop :=
  exists before h after, hs = before ++ h :: after /\ th_trak h = ref /\
    ((th_handler h = 0 /\ Forall (fun x => th_handler x <> 0) before) \/
     (th_handler h = 1 /\ Forall (fun x => th_handler x <> 0) hs /\ Forall (fun x => th_handler x <> 1) before)).

Lemma find_split {A} (f : A -> bool) : forall l x, find f l = Some x ->
  exists before after, l = before ++ x :: after /\ f x = true /\ Forall (fun y => f y = false) before.
Proof.
  induction l as [|a t IH]; intros x H; [discriminate|]. cbn [find] in H. destruct (f a) eqn:E.
  - injection H as <-. exists [], t. split; [reflexivity|]. split; [exact E|constructor].
  - destruct (IH x H) as [b [af [-> [Hx Hb]]]]. exists (a :: b), af. split; [reflexivity|]. split; [exact Hx|].
    constructor; assumption.
Qed.

Lemma find_none_all {A} (f : A -> bool) : forall l, find f l = None -> Forall (fun y => f y = false) l.
Proof.
  induction l as [|a t IH]; intros H; [constructor|]. cbn [find] in H. destruct (f a) eqn:E; [discriminate|].
  constructor; [exact E|apply IH, H].
Qed.

Lemma find_sync_trak_choice hs ref : find_sync_trak hs = Some ref -> ref_choice hs ref /\ In ref (map th_trak hs).
Proof.
  unfold find_sync_trak. intros H.
  assert (Hneq : forall v l, Forall (fun y : trak_h => (th_handler y =? v) = false) l -> Forall (fun x => th_handler x <> v) l).
  { intros v l. apply Forall_impl. intros a Ha. lia. }
  destruct (find (fun t => th_handler t =? 0) hs) as [h|] eqn:E0.
  - injection H as <-. destruct (find_split _ hs h E0) as [b [a [-> [Hh Hb]]]].
    split; [|apply in_map; apply in_or_app; right; left; reflexivity].
    exists b, h, a. split; [reflexivity|]. split; [reflexivity|]. left. split; [lia|apply Hneq, Hb].
  - destruct (find (fun t => th_handler t =? 1) hs) as [h|] eqn:E1; [|discriminate]. injection H as <-.
    pose proof (find_none_all _ hs E0) as Hn0.
    destruct (find_split _ hs h E1) as [b [a [Eh [Hh Hb]]]].
    split; [|rewrite Eh; apply in_map; apply in_or_app; right; left; reflexivity].
    exists b, h, a. split; [exact Eh|]. split; [reflexivity|]. right. split; [lia|]. split; [apply Hneq, Hn0|apply Hneq, Hb].
Qed.

(* ---------- findEndTime returning a time: which time ---------- *)
Definition sync_sample (tb : tables) (j : N) : bool :=
  match t_stss tb with Some l => S_is_sync l j | None => true end.

(* T is the start of the first sync sample that starts at or after r (both in the track's own units); that sample is not
   sample 1 (findEndTime refuses to crop to nothing) *)
Definition first_sync_from (tb : tables) (r T : N) : Prop :=
  exists j, 2 <= j <= nsamples tb /\ S_decode_time tb j = Some T /\ r <= T /\ sync_sample tb j = true /\
    forall j' s', 1 <= j' < j -> S_decode_time tb j' = Some s' -> r <= s' -> sync_sample tb j' = false.

Lemma starts_ge ds : forall acc j s, nthN (starts ds acc) j = Some s -> acc <= s.
Proof.
  induction ds as [|d t IH]; intros acc j s H; cbn [starts nthN] in H; [discriminate|].
  destruct (j =? 0); [injection H as <-; lia|]. apply IH in H. lia.
Qed.

(* start times never decrease: the samples starting before r are the first (number of starts < r) ones *)
Lemma starts_lt_iff r ds : forall acc j s, nthN (starts ds acc) j = Some s ->
  (s < r <-> j < lenN (filter (fun x => x <? r) (starts ds acc))).
Proof.
  induction ds as [|d t IH]; intros acc j s H; [discriminate|].
  cbn [starts nthN filter] in *. destruct (acc <? r) eqn:E.
  - rewrite lenN_cons. destruct (j =? 0) eqn:Ej.
    + injection H as <-. lia.
    + specialize (IH _ _ _ H). lia.
  - pose proof (cnt_lt_starts_ge r t (acc + d) ltac:(lia)) as Z. unfold cnt_lt in Z. rewrite Z.
    destruct (j =? 0) eqn:Ej; [injection H as <-; lia|]. apply starts_ge in H. lia.
Qed.

Lemma starts_last_total l : forall acc t d, l <> [] -> nthN (starts l acc) (lenN l - 1) = Some t ->
  nthN l (lenN l - 1) = Some d -> t + d = acc + sumN l.
Proof.
  induction l as [|x r IH]; intros acc t d Hne Ht Hd; [congruence|].
  destruct r as [|y r'].
  - cbn in Ht, Hd. injection Ht as <-. injection Hd as <-. cbn [sumN]. lia.
  - rewrite lenN_cons in Ht, Hd. cbn [starts] in Ht. cbn [sumN].
    replace (1 + lenN (y :: r') - 1) with (lenN (y :: r') - 1 + 1) in Ht, Hd by (rewrite lenN_cons; lia).
    rewrite nthN_S in Ht, Hd.
    pose proof (IH (acc + x) t d ltac:(discriminate) Ht Hd) as Q. cbn [sumN] in Q. lia.
Qed.

Lemma decode_time_lt_iff tb r j s : S_decode_time tb j = Some s -> (s < r <-> j <= k_of tb r).
Proof.
  unfold S_decode_time, k_of. destruct (j =? 0) eqn:E; [discriminate|]. intros H.
  pose proof (starts_lt_iff r (durs tb) 0 (j - 1) s H). lia.
Qed.

Lemma find_end_time_inv tb ts ms et : consistent tb = true -> deltas_strict tb = true ->
  find_end_time tb ts ms = Ok et ->
  u64 (ms * ts) / 1000 < sumN (durs tb) /\
  (first_sync_from tb (u64 (ms * ts) / 1000) et \/ (t_stss tb = None /\ et = sumN (durs tb))).
Proof.
  intros H Hd Hr. set (r := u64 (ms * ts) / 1000) in *.
  pose proof Hd as Hd'. unfold deltas_strict in Hd'. apply andb_prop in Hd'. destruct Hd' as [Hp _].
  destruct (stts_get_sample_nr_at_time (t_stts_count tb) (t_stts_delta tb) r) as [lastNr| | |] eqn:En;
    try (unfold find_end_time in Hr; fold r in Hr; rewrite En in Hr; discriminate).
  destruct (sat_inv tb H Hd r lastNr En) as [HN [Hlt [Hk Hsat]]]. split; [exact Hlt|].
  destruct (k_of_le tb r H) as [K1 K2].
  destruct (stts_facts tb H) as [_ [_ [_ [_ LD]]]].
  destruct (t_stss tb) as [l|] eqn:Hl.
  - destruct (end_time_stss tb l H Hp Hl ts ms lastNr Hlt Hsat) as [[j [t [A [B [C [D [E F]]]]]]]|[[_ F]|[_ [_ F]]]];
      try (rewrite F in Hr; discriminate).
    rewrite F in Hr. injection Hr as <-. left. exists j. split; [exact B|]. split; [exact E|].
    pose proof (decode_time_lt_iff tb r j t E) as I.
    split; [lia|]. unfold sync_sample. rewrite Hl. split; [exact C|].
    intros j' s' Hj' Hs' Hrs. apply D. pose proof (decode_time_lt_iff tb r j' s' Hs'). lia.
  - assert (H2 : 2 <= lastNr).
    { unfold find_end_time in Hr. fold r in Hr. rewrite En in Hr. cbn [rbind] in Hr. rewrite Hl in Hr. cbn [rbind] in Hr.
      rewrite sub32_small in Hr by lia. destruct (lastNr - 1 =? 0) eqn:E0; [discriminate|]. lia. }
    destruct (end_time_nostss tb H Hp Hl ts ms lastNr Hlt Hsat H2) as [t [d [A [B [C F]]]]].
    rewrite F in Hr. injection Hr as <-.
    destruct (N.le_gt_cases lastNr (nsamples tb)) as [Le|Gt].
    + left. exists lastNr. split; [lia|]. split; [apply C, Le|].
      pose proof (decode_time_lt_iff tb r lastNr (t + d) (C Le)) as I. split; [lia|].
      unfold sync_sample. rewrite Hl. split; [reflexivity|].
      intros j' s' Hj' Hs' Hrs. pose proof (decode_time_lt_iff tb r j' s' Hs'). lia.
    + right. split; [reflexivity|]. assert (EN : lastNr - 1 = nsamples tb) by lia.
      unfold S_decode_time, S_dur in A, B. destruct (lastNr - 1 =? 0) eqn:E0; [discriminate|].
      rewrite EN, <- LD in A, B.
      assert (Hne : durs tb <> []) by (intros Z; rewrite Z, lenN_nil in LD; lia).
      pose proof (starts_last_total (durs tb) 0 t d Hne A B). lia.
Qed.

(* ---------- cropMP4 ---------- *)
(* what holds of one track t of the input and its tables tb2 in the output: with tet = the end time rescaled to the track's
   timescale exactly as findTrakEnds does it (integer division: known finding C10-F7), k = the number of samples of t that
   start before tet, C = the chunk of sample k: track_out (C10CropProofs): tb2 is consistent, holds k samples in C chunks,
   its per-sample lists are the k-prefixes of the input's, every chunk lies inside the new mdat payload, every kept sample
   read through tb2 yields the input's bytes *)
Definition out_track (file outf : list N) (S payload_len et ets : N) (t : trak_in) (tb2 : tables) : Prop :=
  exists tet C, track_tet t et ets = Ok tet /\ tet < sumN (durs (ti_tb t)) /\ 1 <= k_of (ti_tb t) tet <= nsamples (ti_tb t) /\
    S_chunk_of (ti_tb t) (k_of (ti_tb t) tet) = Some C /\
    track_out file outf S mdat_out_hdr payload_len (ti_id t, ti_tb t, k_of (ti_tb t) tet, C) tb2.

Lemma Forall2_and_r {A B} (R : A -> B -> Prop) (P : B -> Prop) : forall la lb,
  Forall2 R la lb -> Forall P lb -> Forall2 (fun a b => R a b /\ P b) la lb.
Proof.
  intros la lb H. induction H as [|a b la lb Hab H IH]; intros HP; [constructor|].
  inversion HP; subst. constructor; [split; assumption|apply IH; assumption].
Qed.

Lemma crop_mp4_file_correct file hs ms rest pre hdr et ets shifted ranges ks swm :
  Forall (trak_wf file) (map th_trak hs) ->
  4611686018427387904 + 2 * total_bytes (map th_trak hs) < 18446744073709551616 ->
  crop_mp4_file hs ms rest = Ok (et, ets, (shifted, ranges, ks, swm)) ->
  lenN pre = rest + sumN (map stbl_var_size shifted) -> lenN hdr = mdat_out_hdr ->
  lenN pre + mdat_out_hdr + 2 * total_bytes (map th_trak hs) < 18446744073709551616 ->
  exists ref, ref_choice hs ref /\ ets = ti_ts ref /\ swm = lenN pre /\
    first_sync_from (ti_tb ref) (u64 (ms * ti_ts ref) / 1000) et /\
    Forall (range_in file) ranges /\
    Forall2 (out_track file (pre ++ hdr ++ out_bytes file ranges) (lenN pre) (lenN (out_bytes file ranges)) et ets)
            (map th_trak hs) shifted.
Proof.
  intros Hwf HB Hrun Hpre Hhdr HB2. unfold crop_mp4_file in Hrun.
  destruct (find_sync_trak hs) as [ref|] eqn:Eref; [|discriminate].
  destruct (find_sync_trak_choice hs ref Eref) as [Hch Hin].
  destruct (find_end_time (ti_tb ref) (ti_ts ref) ms) as [et0| | |] eqn:Eet; try discriminate. cbn [rbind] in Hrun.
  destruct (crop_to_time_sz (map th_trak hs) et0 (ti_ts ref) rest) as [[[[sh rg] ks0] swm0]| | |] eqn:Ecrop; try discriminate.
  cbn [rbind] in Hrun. injection Hrun as <- <- <- <- <- <-.
  destruct (crop_to_time_sz_ok _ _ _ _ _ _ _ _ Ecrop) as [Hct Hswm].
  assert (Eswm : swm0 = lenN pre).
  { rewrite Hswm. unfold size_without_mdat. rewrite <- Hpre. apply u64_small. lia. }
  set (traks := map th_trak hs) in *.
  assert (Hpre' : Forall (trak_pre file et0 (ti_ts ref)) traks).
  { destruct (trak_ends traks et0 (ti_ts ref)) as [ts0| | |] eqn:Ends;
      try (unfold crop_to_time in Hct; rewrite Ends in Hct; discriminate).
    exact (trak_ends_pre file traks et0 (ti_ts ref) ts0 Hwf Ends). }
  exists ref. split; [exact Hch|]. split; [reflexivity|]. split; [exact Eswm|].
  (* the reference track is one of the tracks: its own end time lies inside it *)
  assert (Hrefwf : trak_wf file ref) by (rewrite Forall_forall in Hwf; apply Hwf, Hin).
  destruct Hrefwf as [Hst [Hd Hts]]. pose proof Hst as [Hc _]. cbn [ts_tb] in Hc.
  assert (Hetlt : et0 < sumN (durs (ti_tb ref))).
  { rewrite Forall_forall in Hpre'. destruct (Hpre' ref Hin) as [_ [_ [tet [A [B _]]]]].
    unfold track_tet in A. rewrite (u32_small (ti_ts ref)) in A by lia. rewrite N.eqb_refl in A. cbn [negb] in A.
    injection A as <-. exact B. }
  destruct (find_end_time_inv (ti_tb ref) (ti_ts ref) ms et0 Hc Hd Eet) as [_ [Hfs|[_ Heq]]]; [|lia].
  split; [exact Hfs|].
  rewrite Eswm in Hct.
  destruct (crop_to_time_full file traks et0 (ti_ts ref) (lenN pre) pre hdr sh rg ks0 Hpre' HB eq_refl Hhdr HB2 Hct)
    as [Hrin [ts0 [Hstate [Hcut [_ Hout]]]]].
  split; [exact Hrin|].
  pose proof (Forall2_and_r _ _ _ _ Hstate Hcut) as Hsc.
  apply (proj2 (Forall2_map_l static _ ts0 sh)) in Hout.
  refine (Forall2_compose _ _ _ _ _ traks ts0 sh Hpre' Hsc Hout).
  intros t s tb2 Hp [[Hid [Htb [tet [Htet Hk]]]] [Hk1 Hchk]] Ho. cbv beta in Ho.
  destruct Hp as [_ [_ [tet' [Htet' [Hlt' _]]]]]. rewrite Htet in Htet'. injection Htet' as <-.
  unfold out_track. exists tet, (ts_last_chunk s). split; [exact Htet|]. split; [exact Hlt'|].
  rewrite <- Hk, <- Htb. split; [exact Hk1|]. split; [exact Hchk|].
  unfold static in Ho. rewrite Hid, Htb in Ho. rewrite Htb. exact Ho.
Qed.

(* ---------- the two roundings (known findings C10-F6 and C10-F7), stated as exact guards ---------- *)
(* the property's own definition: the first sync sample starting at or after ms milliseconds, compared exactly *)
Definition first_sync_exact (tb : tables) (ts ms T : N) : Prop :=
  exists j, 2 <= j <= nsamples tb /\ S_decode_time tb j = Some T /\ ms * ts <= T * 1000 /\ sync_sample tb j = true /\
    forall j' s', 1 <= j' < j -> S_decode_time tb j' = Some s' -> ms * ts <= s' * 1000 -> sync_sample tb j' = false.

(* when ms milliseconds are a whole number of track units the floor in findEndTime loses nothing *)
Lemma first_sync_exact_of tb ts ms T : ms * ts < 18446744073709551616 -> (ms * ts) mod 1000 = 0 ->
  first_sync_from tb (u64 (ms * ts) / 1000) T -> first_sync_exact tb ts ms T.
Proof.
  intros Hb Hm [j [A [B [C [D E]]]]]. rewrite u64_small in * by exact Hb.
  assert (Hq : ms * ts = 1000 * (ms * ts / 1000)).
  { pose proof (N.div_mod (ms * ts) 1000 ltac:(lia)). lia. }
  exists j. split; [exact A|]. split; [exact B|]. split; [lia|]. split; [exact D|].
  intros j' s' H1 H2 H3. apply (E j' s' H1 H2). lia.
Qed.

(* without the guard the end time can lie BEFORE the request (C10-F6): 84 ms at timescale 24 are 2.016 units, floored to 2;
   the sample starting at 2 units = 83.3 ms is taken *)
Definition f6_tb : tables :=
  mkTables [4] [1] None (mkStsc [mkEntry 1 4 1] 1 []) (mkStsz 3 4 []) (Some [100]) None None None.
Lemma end_time_before_request :
  exists tb ts ms T, consistent tb = true /\ deltas_strict tb = true /\ find_end_time tb ts ms = Ok T /\
                     T * 1000 < ms * ts.
Proof. exists f6_tb, 24, 84, 2. vm_compute. repeat split. Qed.

(* findTrakEnds: the number of samples starting before the end time, compared exactly across the two timescales *)
Definition k_exact (tb : tables) (ts et ets : N) : N :=
  lenN (filter (fun s => s * ets <? et * ts) (starts (durs tb) 0)).

Lemma filter_ext_N (f g : N -> bool) l : (forall x, f x = g x) -> filter f l = filter g l.
Proof. intros H. induction l as [|a t IH]; [reflexivity|]. cbn [filter]. rewrite H, IH. reflexivity. Qed.

Lemma k_of_exact tb ts et ets : 0 < ets -> et * ts < 18446744073709551616 -> (et * ts) mod ets = 0 ->
  k_of tb (u64 (et * ts) / ets) = k_exact tb ts et ets.
Proof.
  intros H0 Hb Hm. rewrite u64_small by exact Hb. unfold k_of, k_exact. f_equal. apply filter_ext_N. intros s.
  assert (Hq : et * ts = ets * (et * ts / ets)).
  { pose proof (N.div_mod (et * ts) ets ltac:(lia)). lia. }
  set (q := et * ts / ets) in *. rewrite Hq.
  destruct (s <? q) eqn:E1; destruct (s * ets <? ets * q) eqn:E2; try reflexivity; nia.
Qed.

Lemma k_of_same tb ts et : 0 < ts -> k_of tb et = k_exact tb ts et ts.
Proof.
  intros H0. unfold k_of, k_exact. f_equal. apply filter_ext_N. intros s.
  destruct (s <? et) eqn:E1; destruct (s * ts <? et * ts) eqn:E2; try reflexivity; nia.
Qed.

(* without the guard a sample that starts before the end time is dropped (C10-F7): end time 1510/1000 s = 36.24 units at
   timescale 24, floored to 36; the sample starting at 36 starts before the end time but is not kept *)
Definition f7_tb : tables :=
  mkTables [50] [1] None (mkStsc [mkEntry 1 50 1] 1 []) (mkStsz 3 50 []) (Some [100]) None None None.
Lemma k_rounding_refuted :
  exists tb ts et ets k t c, consistent tb = true /\ deltas_strict tb = true /\
    find_trak_end tb ts et ets = Ok (k, t, c) /\ k = 36 /\ k_exact tb ts et ets = 37.
Proof. exists f7_tb, 24, 1510, 1000, 36, 36, (mkChunk 1 1 50). vm_compute. repeat split. Qed.

(* ---------- writeMdat succeeded: what it wrote ---------- *)
Lemma ranges_size_lt : forall rs acc, acc < 18446744073709551616 -> ranges_size rs acc < 18446744073709551616.
Proof.
  induction rs as [|[s e] t IH]; intros acc H; [exact H|]. cbn [ranges_size]. apply IH. unfold u64. apply N.mod_lt. lia.
Qed.

Lemma write_mdat_lazy_inv file zeof startPos large payloadLen rs mb :
  0 < payloadLen -> lenN file < 9223372036854775808 -> Forall (range_in file) rs ->
  ranges_len rs + 8 < 18446744073709551616 ->
  write_mdat file zeof (C08Model.mdat_lazy startPos large payloadLen) rs = Ok mb ->
  ranges_len rs + 8 < 4294967296 /\
  mb = C08Model.be32 (ranges_len rs + 8) ++ C08Model.name_mdat ++ out_bytes file rs.
Proof.
  intros Hp Hf Hall Hb H.
  destruct (N.lt_ge_cases (ranges_len rs + 8) 4294967296) as [Lt|Ge].
  - split; [exact Lt|]. destruct (write_mdat_correct file zeof startPos large payloadLen rs Hp Hf Hall Lt) as [A _].
    rewrite A in H. injection H as <-. reflexivity.
  - exfalso. unfold write_mdat in H. rewrite (ranges_size_sum file rs 0 Hall Hf) in H by lia. rewrite N.add_0_l in H.
    rewrite (u64_small (ranges_len rs + 8)) in H by lia.
    destruct (4294967296 <=? ranges_len rs + 8) eqn:E; [discriminate|lia].
Qed.

(* ---------- writeMdat when the input mdat was decoded into memory (File.Mdat.Data) ---------- *)
(* MdatBox.CopyData then slices m.Data and REFUSES a range that does not start inside the payload *)
Definition range_in_mdat (startPos : N) (large : bool) (payloadLen : N) (r : N * N) : Prop :=
  startPos + C08Spec.hdr_len large <= fst r /\ fst r < startPos + C08Spec.hdr_len large + payloadLen /\
  fst r <= snd r + 1 /\ snd r + 1 <= startPos + C08Spec.hdr_len large + payloadLen.

Lemma range_in_mdat_file file startPos large payloadLen r :
  C08Spec.box_in_file file startPos large payloadLen = true -> range_in_mdat startPos large payloadLen r ->
  range_in file r.
Proof.
  unfold C08Spec.box_in_file, range_in_mdat, range_in. intros Hb [A [B [C D]]].
  assert (C08Spec.hdr_len large = 8 \/ C08Spec.hdr_len large = 16) by (destruct large; cbn; lia). lia.
Qed.

Lemma copy_ranges_mem_ok file zeof startPos large payloadLen :
  C08Spec.box_in_file file startPos large payloadLen = true ->
  forall rs, Forall (range_in_mdat startPos large payloadLen) rs ->
  copy_ranges file zeof (C08Model.mdat_mem file startPos large payloadLen) rs = Ok (out_bytes file rs).
Proof.
  intros Hb. induction rs as [|[s e] t IH]; intros Hall; [reflexivity|].
  inversion Hall as [|? ? H0 Ht]; subst. pose proof H0 as [A [B [C D]]]. cbn [fst snd] in *.
  pose proof Hb as Hb'. unfold C08Spec.box_in_file in Hb'.
  cbn [copy_ranges]. rewrite sub64_range by lia.
  assert (Hs : C08Model.i64n s = Z.of_N s) by (unfold C08Model.i64n; destruct (s <? 9223372036854775808) eqn:E1; [reflexivity|lia]).
  assert (Hn : C08Model.i64n (e + 1 - s) = Z.of_N (e + 1 - s))
    by (unfold C08Model.i64n; destruct (e + 1 - s <? 9223372036854775808) eqn:E1; [reflexivity|lia]).
  rewrite Hs, Hn. unfold C08Model.copy_data.
  change (C08Model.lazyDataSize (C08Model.mdat_mem file startPos large payloadLen)) with 0. cbn [N.ltb N.compare].
  rewrite (C08ReadProofs.mem_slice_ok true file startPos large payloadLen (Z.of_N s) (Z.of_N (e + 1 - s)) Hb).
  - cbn [rbind]. rewrite (IH Ht). cbn [rbind]. rewrite !N2Z.id. reflexivity.
  - unfold C08Spec.valid_range. lia.
  - left. reflexivity.
Qed.

Lemma write_mdat_mem_correct file zeof startPos large payloadLen rs :
  C08Spec.box_in_file file startPos large payloadLen = true ->
  Forall (range_in_mdat startPos large payloadLen) rs -> ranges_len rs + 8 < 4294967296 ->
  write_mdat file zeof (C08Model.mdat_mem file startPos large payloadLen) rs
  = Ok (C08Model.be32 (ranges_len rs + 8) ++ C08Model.name_mdat ++ out_bytes file rs) /\
  lenN (out_bytes file rs) = ranges_len rs.
Proof.
  intros Hb Hall Hlt.
  assert (Hall' : Forall (range_in file) rs).
  { revert Hall. apply Forall_impl. intros r. apply range_in_mdat_file. exact Hb. }
  pose proof Hb as Hb'. unfold C08Spec.box_in_file in Hb'.
  assert (Hf : lenN file < 9223372036854775808) by lia.
  unfold write_mdat.
  rewrite (ranges_size_sum file rs 0 Hall' Hf) by lia. rewrite N.add_0_l.
  rewrite (u64_small (ranges_len rs + 8)) by lia.
  destruct (4294967296 <=? ranges_len rs + 8) eqn:E; [lia|].
  unfold C08Model.encode_header_with_size. cbn [negb andb]. rewrite E. cbn [rbind].
  rewrite (copy_ranges_mem_ok file zeof startPos large payloadLen Hb rs Hall). cbn [rbind].
  rewrite (out_bytes_len file rs Hall'). rewrite N.eqb_refl.
  rewrite (u32_small (ranges_len rs + 8)) by lia. rewrite <- app_assoc. split; reflexivity.
Qed.

(* the two modes differ on an empty range that starts at the end of the payload (a zero-size last chunk): io.CopyN copies
   nothing, the in-memory CopyData returns "invalid range" — a refusal, the property is conditional on success *)
Lemma write_mdat_modes_differ :
  exists file rs, write_mdat file false (C08Model.mdat_lazy 20 false 80) rs
                  = Ok (C08Model.be32 12 ++ C08Model.name_mdat ++ out_bytes file rs) /\
                  write_mdat file false (C08Model.mdat_mem file 20 false 80) rs = Err.
Proof. exists (repeat 7 108), [(104, 107); (108, 107)]. vm_compute. split; reflexivity. Qed.

(* ---------- the whole output file ---------- *)
Lemma crop_to_time_payload_le file traks et ets S sh ranges ks :
  Forall (trak_pre file et ets) traks -> 4611686018427387904 + total_bytes traks < 18446744073709551616 ->
  crop_to_time traks et ets S = Ok (sh, ranges, ks) -> lenN (out_bytes file ranges) <= total_bytes traks.
Proof.
  intros Hpre HB Hrun.
  destruct (trak_ends traks et ets) as [ts0| | |] eqn:Ends;
    try (unfold crop_to_time in Hrun; rewrite Ends in Hrun; discriminate).
  destruct (trak_ends_ok file traks et ets ts0 Hpre Ends) as [Hst _].
  destruct (trak_ends_init traks et ets ts0 Ends) as [Hinit [Htb _]].
  assert (Hpot : pot ts0 = total_bytes traks).
  { rewrite (pot_initial ts0 Hinit). unfold total_bytes. rewrite <- (map_map ts_tb (fun tb => sumN (sizes tb))), Htb, map_map. reflexivity. }
  unfold crop_to_time in Hrun. rewrite Ends in Hrun. cbn [rbind] in Hrun.
  destruct (fill_loop (fill_fuel ts0) ts0 [] 0 0) as [[[ts' rg] first]| | |] eqn:Ef; try discriminate. cbn [rbind] in Hrun.
  destruct (crop_all ts') as [cropped| | |]; try discriminate. cbn [rbind] in Hrun.
  destruct (update_chunk_offsets S first cropped) as [sh'| | |]; try discriminate. cbn [rbind] in Hrun.
  injection Hrun as <- <- <-.
  destruct (layout_ranges file ts0 _ ts' rg first Hst Hinit ltac:(rewrite Hpot; exact HB) Ef) as [_ [_ Hlen]].
  rewrite <- Hpot. exact Hlen.
Qed.

(* the tool keys its per-track state by track id (map[uint32]*trakOut), the model by position; the two agree when the ids
   are distinct, and findTrakEnds (repaired text, /repo 4fe9823) refuses anything else: success implies distinct ids *)
Definition distinct_ids (hs : list trak_h) : Prop := NoDup (map (fun h => ti_id (th_trak h)) hs).

Lemma crop_mp4_file_distinct hs ms rest r : crop_mp4_file hs ms rest = Ok r -> distinct_ids hs.
Proof.
  unfold crop_mp4_file. intros H. destruct (find_sync_trak hs) as [rf|]; [|discriminate].
  destruct (find_end_time (ti_tb rf) (ti_ts rf) ms) as [et0| | |]; try discriminate. cbn [rbind] in H.
  destruct (crop_to_time_sz (map th_trak hs) et0 (ti_ts rf) rest) as [x| | |] eqn:Ec; try discriminate.
  unfold crop_to_time_sz in Ec.
  destruct (trak_ends (map th_trak hs) et0 (ti_ts rf)) as [ts0| | |] eqn:Ends; try discriminate.
  pose proof (trak_ends_distinct _ _ _ _ Ends) as Hn. unfold distinct_ids. rewrite map_map in Hn. exact Hn.
Qed.

(* what is needed of writeMdat on the input mdat m: when it succeeds on ranges inside the file, it wrote a 32-bit header and
   exactly the bytes of the ranges *)
Definition mdat_writes (file : list N) (zeof : bool) (m : C08Model.mdat) (rs : list (N * N)) : Prop :=
  forall mb, write_mdat file zeof m rs = Ok mb ->
    ranges_len rs + 8 < 4294967296 /\ mb = C08Model.be32 (ranges_len rs + 8) ++ C08Model.name_mdat ++ out_bytes file rs.

Lemma crop_end_to_end_gen file zeof m hs ms rest pre et ets shifted ranges ks swm outf :
  Forall (trak_wf file) (map th_trak hs) ->
  4611686018427387904 + 2 * total_bytes (map th_trak hs) < 18446744073709551616 ->
  crop_mp4_file hs ms rest = Ok (et, ets, (shifted, ranges, ks, swm)) ->
  lenN pre = rest + sumN (map stbl_var_size shifted) ->
  lenN pre + mdat_out_hdr + 2 * total_bytes (map th_trak hs) < 18446744073709551616 ->
  (Forall (range_in file) ranges -> ranges_len ranges + 8 < 18446744073709551616 -> mdat_writes file zeof m ranges) ->
  crop_mp4_output file zeof m pre ranges = Ok outf ->
  exists ref hdr, distinct_ids hs /\ ref_choice hs ref /\ ets = ti_ts ref /\ swm = lenN pre /\
    first_sync_from (ti_tb ref) (u64 (ms * ti_ts ref) / 1000) et /\
    outf = pre ++ hdr ++ out_bytes file ranges /\
    hdr = C08Model.be32 (lenN (out_bytes file ranges) + 8) ++ C08Model.name_mdat /\
    lenN (out_bytes file ranges) + 8 < 4294967296 /\
    Forall2 (out_track file outf (lenN pre) (lenN (out_bytes file ranges)) et ets) (map th_trak hs) shifted.
Proof.
  intros Hwf HB Hrun Hpre HB2 Hw Hout.
  set (hdr := C08Model.be32 (lenN (out_bytes file ranges) + 8) ++ C08Model.name_mdat).
  assert (Hh : lenN hdr = mdat_out_hdr) by reflexivity.
  destruct (crop_mp4_file_correct file hs ms rest pre hdr et ets shifted ranges ks swm Hwf HB Hrun Hpre Hh HB2)
    as [ref [A [B [C [D [E F]]]]]].
  (* the payload is at most the sample bytes of the tracks *)
  assert (Hle : lenN (out_bytes file ranges) <= total_bytes (map th_trak hs)).
  { unfold crop_mp4_file in Hrun. destruct (find_sync_trak hs) as [rf|]; [|discriminate].
    destruct (find_end_time (ti_tb rf) (ti_ts rf) ms) as [et0| | |]; try discriminate. cbn [rbind] in Hrun.
    destruct (crop_to_time_sz (map th_trak hs) et0 (ti_ts rf) rest) as [[[[sh rg] ks0] swm0]| | |] eqn:Ecrop; try discriminate.
    cbn [rbind] in Hrun. injection Hrun as <- <- <- <- <- <-.
    destruct (crop_to_time_sz_ok _ _ _ _ _ _ _ _ Ecrop) as [Hct _].
    destruct (trak_ends (map th_trak hs) et0 (ti_ts rf)) as [ts0| | |] eqn:Ends;
      try (unfold crop_to_time in Hct; rewrite Ends in Hct; discriminate).
    pose proof (trak_ends_pre file _ et0 (ti_ts rf) ts0 Hwf Ends) as Hpre'.
    apply (crop_to_time_payload_le file _ et0 (ti_ts rf) swm0 sh rg ks0 Hpre' ltac:(lia) Hct). }
  unfold crop_mp4_output in Hout.
  destruct (write_mdat file zeof m ranges) as [mb| | |] eqn:Ew; try discriminate.
  cbn [rbind] in Hout. injection Hout as <-.
  pose proof (out_bytes_len file ranges E) as Hlen.
  destruct (Hw E ltac:(rewrite <- Hlen; lia) mb Ew) as [Hlt Hmb].
  exists ref, hdr. split; [exact (crop_mp4_file_distinct _ _ _ _ Hrun)|].
  split; [exact A|]. split; [exact B|]. split; [exact C|]. split; [exact D|].
  rewrite Hmb, <- Hlen. split; [unfold hdr; rewrite <- app_assoc; reflexivity|]. split; [reflexivity|]. split; [lia|].
  unfold hdr in F. rewrite <- app_assoc in F. exact F.
Qed.

(* the tool's mode: the input mdat decoded lazily *)
Lemma crop_end_to_end file zeof startPos large payloadLen hs ms rest pre et ets shifted ranges ks swm outf :
  Forall (trak_wf file) (map th_trak hs) ->
  4611686018427387904 + 2 * total_bytes (map th_trak hs) < 18446744073709551616 ->
  0 < payloadLen -> lenN file < 9223372036854775808 ->
  crop_mp4_file hs ms rest = Ok (et, ets, (shifted, ranges, ks, swm)) ->
  lenN pre = rest + sumN (map stbl_var_size shifted) ->
  lenN pre + mdat_out_hdr + 2 * total_bytes (map th_trak hs) < 18446744073709551616 ->
  crop_mp4_output file zeof (C08Model.mdat_lazy startPos large payloadLen) pre ranges = Ok outf ->
  exists ref hdr, distinct_ids hs /\ ref_choice hs ref /\ ets = ti_ts ref /\ swm = lenN pre /\
    first_sync_from (ti_tb ref) (u64 (ms * ti_ts ref) / 1000) et /\
    outf = pre ++ hdr ++ out_bytes file ranges /\
    hdr = C08Model.be32 (lenN (out_bytes file ranges) + 8) ++ C08Model.name_mdat /\
    lenN (out_bytes file ranges) + 8 < 4294967296 /\
    Forall2 (out_track file outf (lenN pre) (lenN (out_bytes file ranges)) et ets) (map th_trak hs) shifted.
Proof.
  intros Hwf HB Hp Hf Hrun Hpre HB2 Hout.
  apply (crop_end_to_end_gen file zeof (C08Model.mdat_lazy startPos large payloadLen) hs ms rest pre et ets shifted ranges ks swm outf Hwf HB Hrun Hpre HB2); [|exact Hout].
  intros Hall Hb mb Ew. exact (write_mdat_lazy_inv file zeof startPos large payloadLen ranges mb Hp Hf Hall Hb Ew).
Qed.

(* the input mdat decoded into memory (File.Mdat.Data): the same, when every byte range starts inside the input's payload *)
Lemma write_mdat_mem_inv file zeof startPos large payloadLen rs :
  C08Spec.box_in_file file startPos large payloadLen = true ->
  Forall (range_in_mdat startPos large payloadLen) rs -> ranges_len rs + 8 < 18446744073709551616 ->
  mdat_writes file zeof (C08Model.mdat_mem file startPos large payloadLen) rs.
Proof.
  intros Hb Hall Hlt mb H.
  destruct (N.lt_ge_cases (ranges_len rs + 8) 4294967296) as [Lt|Ge].
  - split; [exact Lt|]. destruct (write_mdat_mem_correct file zeof startPos large payloadLen rs Hb Hall Lt) as [A _].
    rewrite A in H. injection H as <-. reflexivity.
  - exfalso.
    assert (Hall' : Forall (range_in file) rs).
    { revert Hall. apply Forall_impl. intros r. apply range_in_mdat_file. exact Hb. }
    pose proof Hb as Hb'. unfold C08Spec.box_in_file in Hb'.
    unfold write_mdat in H. rewrite (ranges_size_sum file rs 0 Hall' ltac:(lia)) in H by lia. rewrite N.add_0_l in H.
    rewrite (u64_small (ranges_len rs + 8)) in H by lia.
    destruct (4294967296 <=? ranges_len rs + 8) eqn:E; [discriminate|lia].
Qed.

Lemma crop_end_to_end_mem file zeof startPos large payloadLen hs ms rest pre et ets shifted ranges ks swm outf :
  Forall (trak_wf file) (map th_trak hs) ->
  4611686018427387904 + 2 * total_bytes (map th_trak hs) < 18446744073709551616 ->
  C08Spec.box_in_file file startPos large payloadLen = true ->
  crop_mp4_file hs ms rest = Ok (et, ets, (shifted, ranges, ks, swm)) ->
  Forall (range_in_mdat startPos large payloadLen) ranges ->
  lenN pre = rest + sumN (map stbl_var_size shifted) ->
  lenN pre + mdat_out_hdr + 2 * total_bytes (map th_trak hs) < 18446744073709551616 ->
  crop_mp4_output file zeof (C08Model.mdat_mem file startPos large payloadLen) pre ranges = Ok outf ->
  exists ref hdr, distinct_ids hs /\ ref_choice hs ref /\ ets = ti_ts ref /\ swm = lenN pre /\
    first_sync_from (ti_tb ref) (u64 (ms * ti_ts ref) / 1000) et /\
    outf = pre ++ hdr ++ out_bytes file ranges /\
    hdr = C08Model.be32 (lenN (out_bytes file ranges) + 8) ++ C08Model.name_mdat /\
    lenN (out_bytes file ranges) + 8 < 4294967296 /\
    Forall2 (out_track file outf (lenN pre) (lenN (out_bytes file ranges)) et ets) (map th_trak hs) shifted.
Proof.
  intros Hwf HB Hb Hrun Hin Hpre HB2 Hout.
  apply (crop_end_to_end_gen file zeof (C08Model.mdat_mem file startPos large payloadLen) hs ms rest pre et ets shifted ranges ks swm outf Hwf HB Hrun Hpre HB2); [|exact Hout].
  intros _ Hlt. exact (write_mdat_mem_inv file zeof startPos large payloadLen ranges Hb Hin Hlt).
Qed.

(* ---------- in-memory mode from hypotheses on the INPUT only: every byte range starts at a chunk offset ---------- *)
(* Stco/Co64.GetOffset as fillTrakOutsAndByteRanges calls it *)
Definition tb_off (tb : tables) (c : N) : res N :=
  match t_stco tb with
  | Some l => get_offset l c
  | None => match t_co64 tb with Some l => get_offset l c | None => Panic end
  end.
Definition off_of (tbs : list tables) (s : N) : Prop := exists tb c, In tb tbs /\ tb_off tb c = Ok s.

Lemma pick_min_src : forall ts i best r, pick_min ts i best = Ok r ->
  r = best \/ off_of (map ts_tb ts) (fst (fst r)).
Proof.
  induction ts as [|t rest IH]; intros i best r H; cbn [pick_min] in H; [injection H as <-; left; reflexivity|].
  assert (Hw : forall r0, r0 = best \/ off_of (map ts_tb rest) (fst (fst r0)) ->
                          r0 = best \/ off_of (map ts_tb (t :: rest)) (fst (fst r0))).
  { intros r0 [A|[tb [c [A B]]]]; [left; exact A|right; exists tb, c; split; [right; exact A|exact B]]. }
  destruct (ts_last_chunk t <? ts_next t); [apply Hw, (IH _ _ _ H)|].
  fold (tb_off (ts_tb t) (ts_next t)) in H.
  destruct (tb_off (ts_tb t) (ts_next t)) as [off| | |] eqn:Eo; try discriminate. cbn [rbind] in H.
  destruct (off <? fst (fst best)).
  - destruct (IH _ _ _ H) as [A|A]; [|apply Hw; right; exact A].
    right. subst r. cbn [fst]. exists (ts_tb t), (ts_next t). split; [left; reflexivity|exact Eo].
  - apply Hw, (IH _ _ _ H).
Qed.

Lemma upd_ts_tbs f : (forall t, ts_tb (f t) = ts_tb t) -> forall ts i, map ts_tb (upd_ts ts i f) = map ts_tb ts.
Proof.
  intros Hf. induction ts as [|t r IH]; intros i; [reflexivity|]. cbn [upd_ts]. destruct (i =? 0); cbn [map].
  - rewrite Hf. reflexivity.
  - rewrite IH. reflexivity.
Qed.

Lemma add_range_starts (Q : N -> Prop) rs s e : Forall (fun r => Q (fst r)) rs -> Q s ->
  Forall (fun r => Q (fst r)) (add_range rs s e).
Proof.
  intros H Hs. unfold add_range. destruct rs as [|[s0 e0] t]; [constructor; [exact Hs|constructor]|].
  inversion H as [|? ? H0 Ht]; subst. destruct (u64 (e0 + 1) =? s); constructor; try assumption.
Qed.

Lemma fill_loop_starts tbs : forall fuel ts rs fo cur ts' ranges f', map ts_tb ts = tbs ->
  Forall (fun r => off_of tbs (fst r)) rs -> fill_loop fuel ts rs fo cur = Ok (ts', ranges, f') ->
  Forall (fun r => off_of tbs (fst r)) ranges.
Proof.
  induction fuel as [|fuel IH]; intros ts rs fo cur ts' ranges f' Htb Hrs H; [discriminate|].
  cbn [fill_loop] in H.
  destruct (pick_min ts 0 (4611686018427387904, 0, 0)) as [[[minOff idMin] iMin]| | |] eqn:Ep; try discriminate.
  cbn [rbind] in H. destruct (idMin =? 0) eqn:Eid.
  - injection H as <- <- <-. apply Forall_rev. exact Hrs.
  - assert (HQ : off_of tbs minOff).
    { destruct (pick_min_src _ _ _ _ Ep) as [A|A]; [injection A as _ A _; lia|]. rewrite Htb in A. exact A. }
    destruct (fo =? 0); cbv beta iota in H;
      (destruct (idx ts iMin) as [t| | |]; try discriminate; cbn [rbind] in H;
       destruct (stsc_get_chunk (sc_entries (t_stsc (ts_tb t))) (ts_next t)) as [ch| | |]; try discriminate; cbn [rbind] in H;
       destruct (stsz_get_total_sample_size (t_stsz (ts_tb t)) (ch_start ch)
                   (N.min (sub32 (u32 (ch_start ch + ch_n ch)) 1) (ts_last_sample t))) as [sz| | |]; try discriminate;
       cbn [rbind] in H;
       (refine (IH _ _ _ _ _ _ _ _ _ H);
        [rewrite upd_ts_tbs; [exact Htb|reflexivity]|apply add_range_starts; [exact Hrs|exact HQ]])).
Qed.

Lemma crop_range_starts hs ms rest et ets shifted ranges ks swm :
  crop_mp4_file hs ms rest = Ok (et, ets, (shifted, ranges, ks, swm)) ->
  Forall (fun r => off_of (map ti_tb (map th_trak hs)) (fst r)) ranges.
Proof.
  unfold crop_mp4_file. intros H. destruct (find_sync_trak hs) as [rf|]; [|discriminate].
  destruct (find_end_time (ti_tb rf) (ti_ts rf) ms) as [et0| | |]; try discriminate. cbn [rbind] in H.
  destruct (crop_to_time_sz (map th_trak hs) et0 (ti_ts rf) rest) as [[[[sh rg] ks0] swm0]| | |] eqn:Ec; try discriminate.
  cbn [rbind] in H. injection H as <- <- <- <- <- <-.
  unfold crop_to_time_sz in Ec.
  destruct (trak_ends (map th_trak hs) et0 (ti_ts rf)) as [ts0| | |] eqn:Ends; try discriminate. cbn [rbind] in Ec.
  destruct (trak_ends_init _ _ _ _ Ends) as [_ [Htb _]].
  destruct (fill_loop (fill_fuel ts0) ts0 [] 0 0) as [[[ts' rg'] first]| | |] eqn:Ef; try discriminate. cbn [rbind] in Ec.
  destruct (crop_all ts') as [cropped| | |]; try discriminate. cbn [rbind] in Ec.
  destruct (update_chunk_offsets (size_without_mdat rest cropped) first cropped) as [sh'| | |]; try discriminate.
  cbn [rbind] in Ec. injection Ec as <- <- <- <-.
  exact (fill_loop_starts _ _ ts0 [] 0 0 ts' rg' first Htb (Forall_nil _) Ef).
Qed.

(* static_ok does not depend on the bytes beyond the end of the chunks *)
Lemma trak_wf_mono file file' t : lenN file' <= lenN file -> trak_wf file' t -> trak_wf file t.
Proof.
  intros Hl [[A [B [C [D E]]]] R]. split; [|exact R]. split; [exact A|]. split; [exact B|]. split; [exact C|]. split; [exact D|].
  intros c o cnt H1 H2. specialize (E c o cnt H1 H2). lia.
Qed.

(* every chunk of every track starts inside the input mdat's payload [lo, hi) and ends inside it (the file cut at hi still
   holds every chunk): then so does every byte range *)
Definition chunks_in_payload (file : list N) (lo hi : N) (t : trak_in) : Prop :=
  trak_wf (firstn (N.to_nat hi) file) t /\ forall c o, tb_off (ti_tb t) c = Ok o -> lo <= o < hi.

Lemma lenN_firstn_le {A} (l : list A) n : lenN (firstn (N.to_nat n) l) <= n /\ lenN (firstn (N.to_nat n) l) <= lenN l.
Proof. unfold lenN. rewrite firstn_length. lia. Qed.

Lemma crop_end_to_end_mem_input file zeof startPos large payloadLen hs ms rest pre et ets shifted ranges ks swm outf :
  Forall (chunks_in_payload file (startPos + C08Spec.hdr_len large) (startPos + C08Spec.hdr_len large + payloadLen))
         (map th_trak hs) ->
  4611686018427387904 + 2 * total_bytes (map th_trak hs) < 18446744073709551616 ->
  C08Spec.box_in_file file startPos large payloadLen = true ->
  crop_mp4_file hs ms rest = Ok (et, ets, (shifted, ranges, ks, swm)) ->
  lenN pre = rest + sumN (map stbl_var_size shifted) ->
  lenN pre + mdat_out_hdr + 2 * total_bytes (map th_trak hs) < 18446744073709551616 ->
  crop_mp4_output file zeof (C08Model.mdat_mem file startPos large payloadLen) pre ranges = Ok outf ->
  exists ref hdr, distinct_ids hs /\ ref_choice hs ref /\ ets = ti_ts ref /\ swm = lenN pre /\
    first_sync_from (ti_tb ref) (u64 (ms * ti_ts ref) / 1000) et /\
    outf = pre ++ hdr ++ out_bytes file ranges /\
    hdr = C08Model.be32 (lenN (out_bytes file ranges) + 8) ++ C08Model.name_mdat /\
    lenN (out_bytes file ranges) + 8 < 4294967296 /\
    Forall2 (out_track file outf (lenN pre) (lenN (out_bytes file ranges)) et ets) (map th_trak hs) shifted.
Proof.
  intros Hin HB Hb Hrun Hpre HB2 Hout.
  set (lo := startPos + C08Spec.hdr_len large) in *. set (hi := lo + payloadLen) in *.
  set (file' := firstn (N.to_nat hi) file).
  destruct (lenN_firstn_le file hi) as [L1 L2]. fold file' in L1, L2.
  assert (Hwf' : Forall (trak_wf file') (map th_trak hs)).
  { revert Hin. apply Forall_impl. intros t [A _]. exact A. }
  assert (Hwf : Forall (trak_wf file) (map th_trak hs)).
  { revert Hwf'. apply Forall_impl. intros t. apply trak_wf_mono. exact L2. }
  (* the byte ranges end inside the payload ... *)
  destruct (crop_mp4_file_correct file' hs ms rest pre (repeat 0 8) et ets shifted ranges ks swm Hwf' HB Hrun Hpre eq_refl HB2)
    as [_ [_ [_ [_ [_ [Hr' _]]]]]].
  (* ... and start inside it *)
  pose proof (crop_range_starts hs ms rest et ets shifted ranges ks swm Hrun) as Hs.
  apply (crop_end_to_end_mem file zeof startPos large payloadLen hs ms rest pre et ets shifted ranges ks swm outf
           Hwf HB Hb Hrun); try assumption.
  rewrite Forall_forall in *. intros r Hr. specialize (Hr' r Hr). specialize (Hs r Hr).
  destruct Hs as [tb [c [Htb Ho]]]. apply in_map_iff in Htb. destruct Htb as [t [Et Ht]]. subst tb.
  destruct (Hin t Ht) as [_ Hc]. specialize (Hc c (fst r) Ho).
  unfold range_in in Hr'. unfold range_in_mdat. fold lo. fold hi. lia.
Qed.

(* ---------- cropMP4 including writeUptoMdat's durations ---------- *)
Lemma crop_mp4_all_ok hs mvts tks ms rest et ets x nd tks' :
  crop_mp4_all hs mvts tks ms rest = Ok (et, ets, x, (nd, tks')) ->
  crop_mp4_file hs ms rest = Ok (et, ets, x) /\
  Forall2 (fun old new => tk_dur new = nd /\ nd <= tk_dur old /\ md_dur new = md_dur old /\ elst_le (tk_elst new) (tk_elst old))
          tks tks' /\
  (forall mv, (exists t, In t tks /\ tk_dur t <= mv) -> nd <= mv).
Proof.
  unfold crop_mp4_all. intros H. destruct (crop_mp4_file hs ms rest) as [[[et0 ets0] x0]| | |]; try discriminate.
  cbn [rbind] in H. destruct (write_upto_mdat_durs et0 ets0 mvts tks) as [[nd0 tk0]| | |] eqn:Ed; try discriminate.
  cbn [rbind] in H. injection H as <- <- <- <- <-. split; [reflexivity|].
  exact (header_durations et0 ets0 mvts tks nd0 tk0 Ed).
Qed.
