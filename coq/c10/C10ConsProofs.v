(* C10ConsProofs.v — the cropped tables are consistent again, and expand to the k-prefix of every per-sample list. *)
From V.lib Require Import Base.
From V.c09 Require Import C09Model C09Spec C09BaseProofs C09SttsProofs C09CttsProofs C09StscProofs.
From V.c10 Require Import C10Model C10RlProofs C10CttsProofs C10StscProofs.

(* what the new chunk offsets must satisfy (they are produced by fillTrakOutsAndByteRanges + updateChunkOffsets) *)
Definition new_offsets_ok (tb : tables) (k : N) (offs : list N) : bool :=
  match S_chunk_of tb k with
  | Some C' => (lenN offs =? C')
  | None => false
  end
  && forallb (fun o => o + sumN (firstnN (sizes tb) k) <? 18446744073709551616) offs
  && match t_stco tb with Some _ => forallb is_u32 offs | None => true end.

Lemma map_u32_id l : forallb is_u32 l = true -> map u32 l = l.
Proof.
  induction l as [|x t IH]; intros H; [reflexivity|]. cbn [forallb] in H. apply andb_prop in H. destruct H as [Hx Ht].
  cbn [map]. rewrite (IH Ht). unfold is_u32 in Hx. rewrite u32_small by lia. reflexivity.
Qed.

Lemma update_stco_id l : forallb is_u32 l = true -> update_stco l = Ok l.
Proof.
  induction l as [|x t IH]; intros H; [reflexivity|]. cbn [forallb] in H. apply andb_prop in H. destruct H as [Hx Ht].
  cbn [update_stco]. unfold is_u32 in Hx. destruct (4294967295 <? x) eqn:E; [lia|]. rewrite (IH Ht). reflexivity.
Qed.

Lemma crop_tables_consistent tb : consistent tb = true -> forall k offs, 1 <= k <= nsamples tb ->
  new_offsets_ok tb k offs = true ->
  exists tb', crop_tables tb k offs = Ok tb' /\ consistent tb' = true /\ nsamples tb' = k /\
    durs tb' = firstnN (durs tb) k /\ sizes tb' = firstnN (sizes tb) k /\
    (forall c, t_ctts tb = Some c -> exists c', t_ctts tb' = Some c' /\ ctos_of c' = firstnN (ctos_of c) k) /\
    (forall l, t_stss tb = Some l -> t_stss tb' = Some (filter (fun y => y <=? k) l)) /\
    (forall l, t_sdtp tb = Some l -> t_sdtp tb' = Some (firstnN l k)) /\
    sample_chunks (counts_of tb') 1 = firstnN (sample_chunks (counts_of tb) 1) k /\
    offsets tb' = offs.
Proof.
  intros H k offs Hk Hno.
  destruct (consistent_parts tb H) as [Hn [Hst [Hct [Hsc [Hsz [Hof [Hss Hsd]]]]]]].
  destruct (stts_crop_correct tb H k Hk) as [cs' [ds' [Hcs [Hex [Hl [Hsum [Hc32 Hd32]]]]]]].
  destruct (stsz_crop_correct tb H k Hk) as [z' [Hz [Hzs [Hzn [Hzu [Hzc Hz32]]]]]].
  destruct (stsc_crop_correct tb H k Hk)
    as [b' [C' [Hb [Hch [HcR [Hcc [Hr1 [Hfk [[cnt [Hcnt Hrc]] [Hok' [[e0' [He0 [Hfc0 Hfs0]]] [Hids' [Hnz' Hsing']]]]]]]]]]]]].
  destruct (stsc_crop_sample_chunks tb H k Hk) as [b2 [C2 [Hb2 [Hch2 [Hsc2 Hsum2]]]]].
  rewrite Hb in Hb2. injection Hb2 as <-. rewrite Hch in Hch2. injection Hch2 as <-.
  unfold new_offsets_ok in Hno. rewrite Hch in Hno.
  apply andb_prop in Hno. destruct Hno as [Hno Hno32]. apply andb_prop in Hno. destruct Hno as [Hnolen Hnob].
  assert (Hctts : exists ct', match t_ctts tb with None => Ok None | Some c => do c' <- crop_ctts c k; Ok (Some c') end = Ok ct' /\
            match t_ctts tb, ct' with
            | None, None => True
            | Some c, Some c' => ctos_of c' = firstnN (ctos_of c) k /\ lenN (ct_end c') = lenN (ct_off c') + 1 /\
                                 hd 1 (ct_end c') = 0 /\ sorted_le (ct_end c') = true /\ last (ct_end c') 0 = k
            | _, _ => False
            end).
  { destruct (t_ctts tb) as [c|] eqn:Ec; [|exists None; split; [reflexivity|exact I]].
    destruct (ctts_crop_correct tb c H Ec k Hk) as [c' [Hc' Hrest]]. exists (Some c'). rewrite Hc'. split; [reflexivity|exact Hrest]. }
  destruct Hctts as [ct' [Hct1 Hct2]].
  assert (Hso : match t_stco tb with Some _ => do l <- update_stco offs; Ok (Some l) | None => Ok None end
                = Ok (match t_stco tb with Some _ => Some offs | None => None end)).
  { destruct (t_stco tb); [rewrite (update_stco_id _ Hno32); reflexivity|reflexivity]. }
  unfold crop_tables. rewrite Hcs. cbn [rbind]. rewrite Hct1. cbn [rbind]. rewrite Hb. cbn [rbind]. rewrite Hz. cbn [rbind fst snd].
  rewrite Hso. cbn [rbind].
  eexists. split; [reflexivity|].
  set (tb' := mkTables cs' ds' ct' b' z' _ _ _ _).
  assert (Hsizes : sizes tb' = firstnN (sizes tb) k) by exact Hzs.
  assert (Hstsz_N : lenN (sizes tb) = nsamples tb) by reflexivity.
  assert (HN' : nsamples tb' = k).
  { unfold nsamples. rewrite Hsizes. apply lenN_firstnN. unfold nsamples in Hk. lia. }
  assert (Hoffs : offsets tb' = offs).
  { unfold offsets, tb'. cbn [t_stco t_co64]. unfold offsets_ok in Hof.
    destruct (t_stco tb) as [l|]; [reflexivity|].
    destruct (t_co64 tb) as [l|]; [reflexivity|]. discriminate. }
  assert (HC' : nchunks tb' = C') by (unfold nchunks; rewrite Hoffs; lia).
  assert (Hcounts' : counts_of tb' = chunk_counts (sc_entries b') C') by (unfold counts_of; rewrite HC'; reflexivity).
  split; [|split; [exact HN'|split; [exact Hex|split; [exact Hsizes|]]]].
  - (* consistent *)
    unfold consistent. rewrite HN'.
    assert (G1 : is_u32 (k + 1) = true) by (unfold is_u32 in *; lia). rewrite G1. cbn [andb].
    assert (G2 : stts_ok tb' = true).
    { unfold stts_ok. cbn [t_stts_count t_stts_delta tb']. rewrite HN', Hc32, Hd32.
      repeat (apply andb_true_intro; split); try reflexivity; lia. }
    assert (G3 : ctts_ok tb' = true).
    { unfold ctts_ok. cbn [t_ctts tb']. destruct (t_ctts tb) as [c|], ct' as [c'|]; try contradiction; [|reflexivity].
      destruct Hct2 as [_ [A1 [A2 [A3 A4]]]]. rewrite HN', A3.
      repeat (apply andb_true_intro; split); try reflexivity; lia. }
    assert (G4 : stsc_ok tb' = true).
    { unfold stsc_ok. cbn [t_stsc tb']. rewrite HC', Hcounts', Hok', Hsum2, HN', Hids', Hnz'.
      destruct (sc_entries b') as [|x l]; [discriminate|]. cbn [nthN N.eqb] in He0. injection He0 as ->.
      rewrite Hsing'. unfold stsc_ok in Hsc. apply andb_prop in Hsc. destruct Hsc as [_ Hs32]. rewrite Hs32.
      repeat (apply andb_true_intro; split); try reflexivity; lia. }
    assert (G5 : stsz_ok tb' = true).
    { unfold stsz_ok. cbn [t_stsz tb']. rewrite Hzn, Hzu, Hz32. rewrite Hzu, Hzn in Hzc. rewrite Hzc.
      unfold stsz_ok in Hsz. apply andb_prop in Hsz. destruct Hsz as [Hsz _]. apply andb_prop in Hsz. destruct Hsz as [Hsz _].
      apply andb_prop in Hsz. destruct Hsz as [Hu _]. rewrite Hu.
      repeat (apply andb_true_intro; split); try reflexivity; unfold is_u32 in *; lia. }
    assert (G6 : offsets_ok tb' = true).
    { pose proof Hof as Hof2. unfold offsets_ok in Hof2. apply andb_prop in Hof2. destruct Hof2 as [_ HCb]. unfold is_u32 in HCb.
      unfold offsets_ok. rewrite HC', Hoffs, Hsizes, Hnob.
      unfold tb'. cbn [t_stco t_co64]. unfold offsets_ok in Hof.
      destruct (t_stco tb) as [l|].
      - rewrite Hno32. cbn [andb]. unfold is_u32. lia.
      - destruct (t_co64 tb) as [l|]; [|discriminate]. cbn [andb]. unfold is_u32. lia. }
    assert (G7 : stss_ok tb' = true).
    { unfold stss_ok in *. cbn [t_stss tb']. destruct (t_stss tb) as [l|]; [|reflexivity].
      apply andb_prop in Hss. destruct Hss as [S1 S2]. rewrite HN'.
      destruct (stss_crop_ok l (nsamples tb) k S1 S2 ltac:(lia)) as [A B]. rewrite A, B. reflexivity. }
    assert (G8 : sdtp_ok tb' = true).
    { unfold sdtp_ok in *. cbn [t_sdtp tb']. destruct (t_sdtp tb) as [l|]; [|reflexivity].
      apply andb_prop in Hsd. destruct Hsd as [S1 S2]. rewrite HN'.
      rewrite sdtp_crop_correct by lia. rewrite lenN_firstnN by lia. rewrite (forallb_firstnN _ _ _ S2).
      apply andb_true_intro. split; [lia|reflexivity]. }
    rewrite G2, G3, G4, G5, G6, G7, G8. reflexivity.
  - split; [|split; [|split; [|split]]].
    + intros c Ec. rewrite Ec in Hct2. destruct ct' as [c'|]; [|contradiction]. exists c'. split; [reflexivity|apply Hct2].
    + intros l El. unfold tb'. cbn [t_stss]. rewrite El. f_equal. apply stss_crop_correct.
      unfold stss_ok in Hss. rewrite El in Hss. apply andb_prop in Hss. apply sorted_lt_le. tauto.
    + intros l El. unfold tb'. cbn [t_sdtp]. rewrite El. f_equal. apply sdtp_crop_correct.
      unfold sdtp_ok in Hsd. rewrite El in Hsd. apply andb_prop in Hsd. lia.
    + rewrite Hcounts'. exact Hsc2.
    + exact Hoffs.
Qed.
