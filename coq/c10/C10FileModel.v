(* C10FileModel.v — second model file of C10 (DEFINITIONS ONLY): what cropMP4 of cmd/mp4ff-crop/main.go does around
   crop_to_time (C10Model.v):
   * findEndTime's choice of the reference track (first "vide" track, else first "soun" track, else an error);
   * Size() of the sample-table boxes cropStblChildren changes (mp4/stts.go, ctts.go, stsc.go, stsz.go, stss.go, sdtp.go,
     stco.go, co64.go), so that sizeWithoutMdat of updateChunkOffsets is computed from the CROPPED tables instead of being
     an input of the model;
   * cropMP4 = findEndTime -> cropToTime, with that size. *)
From V.lib Require Import Base.
From V.c08 Require C08Model.
From V.c09 Require Import C09Model.
From V.c10 Require Import C10Model.

(* ---------- findEndTime: the reference track ---------- *)
(* handler type of a track: 0 = "vide", 1 = "soun", anything else = another handler *)
Record trak_h := mkTH { th_handler : N; th_trak : trak_in }.

(* `for _, trak := range moov.Traks { if HandlerType == "vide" { syncTrak = trak; break } }`, then the same for "soun" *)
Definition find_sync_trak (hs : list trak_h) : option trak_in :=
  match find (fun t => th_handler t =? 0) hs with
  | Some t => Some (th_trak t)
  | None => match find (fun t => th_handler t =? 1) hs with
            | Some t => Some (th_trak t)
            | None => None
            end
  end.

(* ---------- Size() of the table boxes ---------- *)
(* boxHeaderSize + 8 + uint64(uint32(len))*8 *)
Definition stts_box_size (cs : list N) : N := 16 + u32 (lenN cs) * 8.
Definition ctts_box_size (c : ctts_box) : N := 16 + u32 (lenN (ct_off c)) * 8.
(* uint64(boxHeaderSize + 8 + nrEntries*12), nrEntries an int *)
Definition stsc_box_size (b : stsc_box) : N := 16 + lenN (sc_entries b) * 12.
(* SampleUniformSize > 0 ? 20 : 20 + uint64(SampleNumber)*4 — the count FIELD, not the length of the slice *)
Definition stsz_box_size (z : stsz_box) : N := if 0 <? sz_uniform z then 20 else 20 + sz_number z * 4.
Definition stss_box_size (l : list N) : N := 16 + u32 (lenN l) * 4.
Definition sdtp_box_size (l : list N) : N := 12 + lenN l.
Definition stco_box_size (l : list N) : N := 16 + u32 (lenN l) * 4.
Definition co64_box_size (l : list N) : N := 16 + u32 (lenN l) * 8.

Definition opt_size {A} (f : A -> N) (o : option A) : N := match o with Some x => f x | None => 0 end.

(* the bytes the eight table boxes of one stbl take in the encoded moov *)
Definition stbl_var_size (tb : tables) : N :=
  stts_box_size (t_stts_count tb) + opt_size ctts_box_size (t_ctts tb) + stsc_box_size (t_stsc tb) +
  stsz_box_size (t_stsz tb) + opt_size stco_box_size (t_stco tb) + opt_size co64_box_size (t_co64 tb) +
  opt_size stss_box_size (t_stss tb) + opt_size sdtp_box_size (t_sdtp tb).

(* `for _, box := range inMP4.Children { if box.Type() != "mdat" { sizeWithoutMdat += box.Size() } }` (uint64):
   container sizes are 8 + the sizes of their children, so the sum is  rest + the table boxes of every track,
   rest = the bytes of everything the crop does not resize (ftyp, free, box headers, mvhd, tkhd, edts, mdhd, hdlr, stsd, ...) *)
Definition size_without_mdat (rest : N) (tbs : list tables) : N := u64 (rest + sumN (map stbl_var_size tbs)).

(* ---------- cropToTime with the size computed: (tables, byte ranges, samples kept, sizeWithoutMdat) ---------- *)
Definition crop_to_time_sz (traks : list trak_in) (endTime endTimescale rest : N)
  : res (list tables * list (N * N) * list N * N) :=
  do ts0 <- trak_ends traks endTime endTimescale;
  do r <- fill_loop (fill_fuel ts0) ts0 [] 0 0;
  let '(ts', ranges, first) := r in
  do cropped <- crop_all ts';
  let swm := size_without_mdat rest cropped in
  do shifted <- update_chunk_offsets swm first cropped;
  Ok (shifted, ranges, map ts_last_sample ts', swm).

(* ---------- cropMP4 ---------- *)
(* result: (endTime, endTimescale, (tables, ranges, samples kept, sizeWithoutMdat)) *)
Definition crop_mp4_file (hs : list trak_h) (ms rest : N)
  : res (N * N * (list tables * list (N * N) * list N * N)) :=
  match find_sync_trak hs with
  | None => Err                                          (* "did not find any video or audio track" *)
  | Some ref =>
    do et <- find_end_time (ti_tb ref) (ti_ts ref) ms;
    do r <- crop_to_time_sz (map th_trak hs) et (ti_ts ref) rest;
    Ok (et, ti_ts ref, r)
  end.

(* ... followed by writeUptoMdat: the duration arithmetic on mvhd / tkhd / elst (write_upto_mdat_durs of C10Model.v: mvhd
   timescale, one (tkhd duration, mdhd duration, edit lists) per track); a refusal there ends cropMP4 before anything of the
   mdat is written.  Result: (endTime, endTimescale, cropToTime's result, (new mvhd duration, new track headers)) *)
Definition crop_mp4_all (hs : list trak_h) (mvTimescale : N) (tks : list hdr_trak) (ms rest : N)
  : res (N * N * (list tables * list (N * N) * list N * N) * (N * list hdr_trak)) :=
  do r <- crop_mp4_file hs ms rest;
  let '(et, ets, x) := r in
  do d <- write_upto_mdat_durs et ets mvTimescale tks;
  Ok (et, ets, x, d).

(* the whole output: the re-encoded non-mdat boxes are `pre` (their ENCODING is not modelled, their length is), followed by
   what writeMdat writes *)
Definition crop_mp4_output (file : list N) (zeof : bool) (m : C08Model.mdat) (pre : list N) (ranges : list (N * N))
  : res (list N) :=
  do mb <- write_mdat file zeof m ranges; Ok (pre ++ mb).
