(* C10StscProofs.v — cropStsc: the chunk structure of the result is that of the first k samples. *)
From V.lib Require Import Base.
From V.c09 Require Import C09Model C09Spec C09BaseProofs C09SttsProofs C09CttsProofs C09StscProofs.
From V.c10 Require Import C10Model C10RlProofs.

(* chunk counts with an explicit end for the last entry *)
Fixpoint cc_upto (es : list stsc_entry) (nxt : N) : list N :=
  match es with
  | [] => []
  | e :: rest =>
    repeat (spc e) (N.to_nat ((match rest with [] => nxt | e' :: _ => first_chunk e' end) - first_chunk e))
           ++ cc_upto rest nxt
  end.

Lemma cc_upto_eq es C : chunk_counts es C = cc_upto es (C + 1).
Proof. induction es as [|e rest IH]; [reflexivity|]. cbn [chunk_counts cc_upto]. rewrite IH. reflexivity. Qed.

Lemma cc_upto_app pre e post nxt :
  cc_upto (pre ++ e :: post) nxt = cc_upto pre (first_chunk e) ++ cc_upto (e :: post) nxt.
Proof.
  induction pre as [|p pre IH]; [reflexivity|].
  cbn [app]. cbn [cc_upto]. fold (cc_upto (pre ++ e :: post) nxt). fold (cc_upto pre (first_chunk e)).
  rewrite IH. rewrite <- app_assoc. f_equal. destruct pre; reflexivity.
Qed.

Lemma nthN_split {A} (l : list A) i x : nthN l i = Some x -> exists pre post, l = pre ++ x :: post /\ lenN pre = i.
Proof.
  revert i; induction l as [|y t IH]; intros i H; [discriminate|]. cbn [nthN] in H. destruct (i =? 0) eqn:E.
  - injection H as ->. exists [], t. split; [reflexivity|]. rewrite lenN_nil. lia.
  - destruct (IH (i - 1) H) as [pre [post [Hl Hn]]]. exists (y :: pre), post. split; [rewrite Hl; reflexivity|].
    rewrite lenN_cons. lia.
Qed.

(* entries_ok only links neighbours: the prefix before an entry can be kept when the entry keeps its
   first chunk and first sample *)
Lemma entries_ok_replace pre : forall e post C e' tail' C',
  entries_ok (pre ++ e :: post) C = true -> first_chunk e' = first_chunk e -> first_sample e' = first_sample e ->
  entries_ok (e' :: tail') C' = true -> entries_ok (pre ++ e' :: tail') C' = true.
Proof.
  induction pre as [|p pre IH]; intros e post C e' tail' C' Hok Hfc Hfs Hnew; [exact Hnew|].
  cbn [app] in *. 
  assert (Hrest : entries_ok (pre ++ e' :: tail') C' = true) by (apply (IH e post C); [apply (entries_ok_tail _ _ _ Hok)|assumption..]).
  destruct pre as [|p2 pre'].
  - cbn [app] in *. destruct (entries_ok_head _ _ _ _ Hok) as [A [B D]].
    change (entries_ok (p :: e' :: tail') C') with
        ((1 <=? spc p) && ((first_chunk p <? first_chunk e') && (first_sample e' =? first_sample p + (first_chunk e' - first_chunk p) * spc p) && entries_ok (e' :: tail') C')).
    apply andb_true_intro. split; [lia|]. apply andb_true_intro. split; [apply andb_true_intro; split; lia|exact Hnew].
  - cbn [app] in *. destruct (entries_ok_head _ _ _ _ Hok) as [A [B D]].
    change (entries_ok (p :: p2 :: pre' ++ e' :: tail') C') with
        ((1 <=? spc p) && ((first_chunk p <? first_chunk p2) && (first_sample p2 =? first_sample p + (first_chunk p2 - first_chunk p) * spc p) && entries_ok (p2 :: pre' ++ e' :: tail') C')).
    apply andb_true_intro. split; [lia|]. apply andb_true_intro. split; [apply andb_true_intro; split; lia|exact Hrest].
Qed.

Lemma hd_fc_app pre e post e0 : nthN (pre ++ e :: post) 0 = Some e0 -> forall e' tail', first_chunk e' = first_chunk e ->
  first_sample e' = first_sample e ->
  exists e0', nthN (pre ++ e' :: tail') 0 = Some e0' /\ first_chunk e0' = first_chunk e0 /\ first_sample e0' = first_sample e0.
Proof.
  intros H e' tail' Hfc Hfs. destruct pre as [|p pre]; cbn [app nthN N.eqb] in *.
  - injection H as <-. eauto.
  - injection H as <-. eauto.
Qed.

(* length of the counts contributed by the entries before e *)
Lemma cc_upto_len pre : forall e post C, entries_ok (pre ++ e :: post) C = true ->
  lenN (cc_upto pre (first_chunk e)) + first_chunk (hd e pre) = first_chunk e.
Proof.
  induction pre as [|p pre IH]; intros e post C Hok; [cbn; lia|].
  cbn [app] in Hok. cbn [cc_upto hd]. rewrite lenN_app, lenN_repeat.
  specialize (IH e post C (entries_ok_tail _ _ _ Hok)).
  destruct pre as [|p2 pre'].
  - cbn [app hd cc_upto] in *. destruct (entries_ok_head _ _ _ _ Hok) as [_ [B _]]. rewrite lenN_nil. lia.
  - cbn [app hd] in *. destruct (entries_ok_head _ _ _ _ Hok) as [_ [B _]]. lia.
Qed.

Lemma repeat_snoc {A} (x : A) n : repeat x n ++ [x] = repeat x (S n).
Proof. induction n as [|n IH]; [reflexivity|]. cbn [repeat app]. rewrite IH. reflexivity. Qed.

(* per-sample chunk numbers of a truncated count list *)
Lemma sample_chunks_app l1 l2 c0 : sample_chunks (l1 ++ l2) c0 = sample_chunks l1 c0 ++ sample_chunks l2 (c0 + lenN l1).
Proof.
  revert c0; induction l1 as [|x t IH]; intros c0.
  - cbn [app sample_chunks]. rewrite lenN_nil, N.add_0_r. reflexivity.
  - cbn [app sample_chunks]. rewrite IH, <- app_assoc, lenN_cons. do 3 f_equal. lia.
Qed.

Lemma sample_chunks_prefix A x B r c0 : r <= x ->
  sample_chunks (A ++ [r]) c0 = firstnN (sample_chunks (A ++ x :: B) c0) (sumN A + r).
Proof.
  intros Hr. rewrite !sample_chunks_app. cbn [sample_chunks]. rewrite app_nil_r.
  rewrite firstnN_app_r by (rewrite lenN_sample_chunks; lia). rewrite lenN_sample_chunks. f_equal.
  replace (sumN A + r - sumN A) with r by lia.
  rewrite firstnN_app_l by (rewrite lenN_repeat; lia). rewrite firstnN_repeat by lia. reflexivity.
Qed.

Lemma psum_firstnN l k : psum l k = sumN (firstnN l k).
Proof. reflexivity. Qed.

Lemma firstnN_nth_split {A} (l : list A) k x : nthN l k = Some x ->
  exists B, l = firstnN l k ++ x :: B.
Proof.
  intros H. destruct (nthN_split l k x H) as [pre [post [Hl Hn]]]. exists post.
  rewrite Hl at 2. rewrite Hl, <- Hn. rewrite firstnN_app_l by lia. rewrite firstnN_all by lia. reflexivity.
Qed.

Lemma set_last_spc_cons p t v : t <> [] -> set_last_spc (p :: t) v = p :: set_last_spc t v.
Proof. destruct t; [congruence|reflexivity]. Qed.

Lemma set_last_spc_app pre e v : set_last_spc (pre ++ [e]) v = pre ++ [mkEntry (first_chunk e) v (first_sample e)].
Proof.
  induction pre as [|p pre IH]; [reflexivity|]. cbn [app].
  rewrite set_last_spc_cons by (destruct pre; discriminate). rewrite IH. reflexivity.
Qed.

Lemma firstnN_snoc_split {A} (pre : list A) x post : firstnN (pre ++ x :: post) (lenN pre + 1) = pre ++ [x].
Proof.
  replace (pre ++ x :: post) with ((pre ++ [x]) ++ post) by (rewrite <- app_assoc; reflexivity).
  rewrite firstnN_app_l by (rewrite lenN_app, lenN_cons, lenN_nil; lia).
  apply firstnN_all. rewrite lenN_app, lenN_cons, lenN_nil. lia.
Qed.

Lemma forallb_firstnN {A} (f : A -> bool) l k : forallb f l = true -> forallb f (firstnN l k) = true.
Proof.
  intros H. rewrite forallb_forall in *. intros x Hx. apply H. unfold firstnN in Hx. eapply In_firstn_local; eauto.
Qed.

(* quotient of x+1 from the quotient of x *)
Lemma div_succ x b q r0 : 1 <= b -> x = b * q + r0 -> r0 < b ->
  (r0 + 1 < b -> (x + 1) / b = q) /\ (r0 + 1 = b -> (x + 1) / b = q + 1).
Proof.
  intros Hb Hx Hr. split; intros H.
  - symmetry. apply (N.div_unique (x + 1) b q (r0 + 1)); lia.
  - symmetry. apply (N.div_unique (x + 1) b (q + 1) 0); lia.
Qed.

Lemma stsc_crop_correct tb : consistent tb = true -> forall k, 1 <= k <= nsamples tb ->
  exists b' C', crop_stsc (t_stsc tb) k = Ok b' /\ S_chunk_of tb k = Some C' /\ 1 <= C' <= nchunks tb /\
    chunk_counts (sc_entries b') C' = firstnN (counts_of tb) (C' - 1) ++ [k + 1 - S_first_in_chunk tb C'] /\
    1 <= k + 1 - S_first_in_chunk tb C' /\ S_first_in_chunk tb C' <= k /\
    (exists cnt, nthN (counts_of tb) (C' - 1) = Some cnt /\ k + 1 - S_first_in_chunk tb C' <= cnt) /\
    entries_ok (sc_entries b') C' = true /\
    (exists e0', nthN (sc_entries b') 0 = Some e0' /\ first_chunk e0' = 1 /\ first_sample e0' = 1) /\
    (if sc_single b' =? 0 then lenN (sc_ids b') =? lenN (sc_entries b') else lenN (sc_ids b') =? 0) = true /\
    forallb (fun x => negb (x =? 0)) (sc_ids b') = true /\ sc_single b' = sc_single (t_stsc tb).
Proof.
  intros H k Hk.
  destruct (stsc_facts tb H) as [e0 [H0 [Hc0 [Hs0 [Hok [Hsum [HN [HC [Hlen Hel]]]]]]]]].
  destruct (consistent_parts tb H) as [_ [_ [_ [Hsc _]]]]. unfold stsc_ok in Hsc.
  apply andb_prop in Hsc. destruct Hsc as [Hsc Hsu32]. apply andb_prop in Hsc. destruct Hsc as [Hsc Hidnz].
  apply andb_prop in Hsc. destruct Hsc as [_ Hids].
  destruct (find_entry_for_sample_ok (sc_entries (t_stsc tb)) (nchunks tb) k 0 e0 Hok Hel H0 ltac:(lia))
    as [i [e [Hf [_ [He [Hke Hnx]]]]]].
  remember ((k - first_sample e) / spc e) as q eqn:Eq.
  destruct (sample_in_entry tb H i e k He ltac:(lia) Hnx q Eq) as [Hq [Hch [Hfic Hb]]].
  destruct (entries_ok_at _ _ Hok i e He) as [Sp [Nx _]].
  destruct (chunk_in_entry tb H i e (first_chunk e + q) He ltac:(lia)) as [HcR [_ [A [_ Bd]]]].
  destruct (nthN_split _ _ _ He) as [pre [post [Hes Hpre]]].
  pose proof (nthN_Some_lt _ _ _ He) as Hilt.
  destruct (entries_sorted _ _ Hok 0 i e0 e ltac:(lia) H0 He) as [Hfs1 Hfc1].
  (* remainder *)
  pose proof (N.div_mod (k - first_sample e) (spc e) ltac:(lia)) as Hdm. rewrite <- Eq in Hdm.
  pose proof (N.mod_lt (k - first_sample e) (spc e) ltac:(lia)) as Hml.
  remember ((k - first_sample e) mod spc e) as r0 eqn:Er0.
  destruct (div_succ (k - first_sample e) (spc e) q r0 Sp Hdm Hml) as [Dlt Deq].
  (* the counts *)
  set (Apre := cc_upto pre (first_chunk e)).
  assert (HlenA : lenN Apre = first_chunk e - 1).
  { rewrite Hes in Hok. pose proof (cc_upto_len pre e post (nchunks tb) Hok) as G. fold Apre in G.
    assert (first_chunk (hd e pre) = 1).
    { rewrite Hes in H0. destruct pre as [|p pre']; cbn [app nthN N.eqb hd] in *; injection H0 as <-; exact Hc0. }
    lia. }
  set (nx := match post with [] => nchunks tb + 1 | e' :: _ => first_chunk e' end).
  assert (Hnxeq : next_chunk (sc_entries (t_stsc tb)) (nchunks tb) i = nx).
  { unfold next_chunk, nx. rewrite Hes, <- Hpre. replace (lenN pre + 1) with (lenN (pre ++ [e])) by (rewrite lenN_app, lenN_cons, lenN_nil; lia).
    replace (pre ++ e :: post) with ((pre ++ [e]) ++ post) by (rewrite <- app_assoc; reflexivity).
    rewrite nthN_app. destruct (lenN (pre ++ [e]) <? lenN (pre ++ [e])) eqn:E; [lia|]. rewrite N.sub_diag.
    destruct post; reflexivity. }
  rewrite Hnxeq in *.
  assert (Hcounts : counts_of tb = Apre ++ repeat (spc e) (N.to_nat (nx - first_chunk e)) ++ cc_upto post (nchunks tb + 1)).
  { unfold counts_of. rewrite cc_upto_eq, Hes, cc_upto_app. reflexivity. }
  assert (Hfirst : firstnN (counts_of tb) (first_chunk e + q - 1) = Apre ++ repeat (spc e) (N.to_nat q)).
  { rewrite Hcounts. rewrite firstnN_app_r by lia. f_equal. rewrite HlenA.
    replace (first_chunk e + q - 1 - (first_chunk e - 1)) with q by lia.
    rewrite firstnN_app_l by (rewrite lenN_repeat; lia). apply firstnN_repeat. lia. }
  assert (Hr : k + 1 - S_first_in_chunk tb (first_chunk e + q) = r0 + 1) by (rewrite Hfic; lia).
  (* the model up to the case split *)
  assert (Hes1 : slice_to (sc_entries (t_stsc tb)) (i + 1) = Ok (pre ++ [e])).
  { rewrite slice_to_ok by (pose proof (nthN_Some_lt _ _ _ He); lia). rewrite Hes, <- Hpre, firstnN_snoc_split. reflexivity. }
  set (ids1 := if 0 <? lenN (sc_ids (t_stsc tb)) then firstnN (sc_ids (t_stsc tb)) (i + 1) else sc_ids (t_stsc tb)).
  assert (Hids1 : (if 0 <? lenN (sc_ids (t_stsc tb)) then slice_to (sc_ids (t_stsc tb)) (i + 1) else Ok (sc_ids (t_stsc tb))) = Ok ids1).
  { unfold ids1. destruct (0 <? lenN (sc_ids (t_stsc tb))) eqn:E; [|reflexivity].
    apply slice_to_ok. pose proof (nthN_Some_lt _ _ _ He). destruct (sc_single (t_stsc tb) =? 0); lia. }
  assert (Hids1len : (if sc_single (t_stsc tb) =? 0 then lenN ids1 =? i + 1 else lenN ids1 =? 0) = true).
  { unfold ids1. pose proof (nthN_Some_lt _ _ _ He). destruct (sc_single (t_stsc tb) =? 0) eqn:Es.
    - destruct (0 <? lenN (sc_ids (t_stsc tb))) eqn:E; [|lia]. rewrite lenN_firstnN by lia. lia.
    - destruct (0 <? lenN (sc_ids (t_stsc tb))) eqn:E; lia. }
  assert (Hids1nz : forallb (fun x => negb (x =? 0)) ids1 = true).
  { unfold ids1. destruct (0 <? lenN (sc_ids (t_stsc tb))); [apply forallb_firstnN|]; exact Hidnz. }
  assert (Hhd : forall e' tail', first_chunk e' = first_chunk e -> first_sample e' = first_sample e ->
            exists e0', nthN (pre ++ e' :: tail') 0 = Some e0' /\ first_chunk e0' = 1 /\ first_sample e0' = 1).
  { intros e' tail' F1 F2. rewrite Hes in H0. destruct (hd_fc_app pre e post e0 H0 e' tail' F1 F2) as [x [X1 [X2 X3]]].
    exists x. split; [exact X1|]. split; lia. }
  unfold crop_stsc. rewrite Hf. cbn [rbind]. rewrite (idx_Some _ _ _ He). cbn [rbind]. rewrite Hes1. cbn [rbind].
  rewrite Hids1. cbn [rbind].
  rewrite (sub32_small k) by lia. rewrite (u32_small (k - first_sample e + 1)) by lia.
  unfold div_go. destruct (spc e =? 0) eqn:Es0; [lia|]. cbn [rbind].
  rewrite Hes in Hok.
  remember ((k - first_sample e + 1) / spc e) as nch eqn:Enc.
  assert (Hcnt : exists cnt, nthN (counts_of tb) (first_chunk e + q - 1) = Some cnt /\
                             k + 1 - S_first_in_chunk tb (first_chunk e + q) <= cnt)
    by (exists (spc e); split; [exact A|lia]).
  destruct (N.lt_ge_cases (r0 + 1) (spc e)) as [Hlt|Hge].
  - (* a remainder is left in the last chunk *)
    assert (Hn : nch = q) by (apply Dlt; exact Hlt). rewrite Hn.
    rewrite (u32_small (q * spc e)) by lia. rewrite sub32_small by lia.
    replace (k - first_sample e + 1 - q * spc e) with (r0 + 1) by lia.
    destruct (0 <? r0 + 1) eqn:E1; [|lia].
    destruct (q =? 0) eqn:Eq0.
    + (* the cut is inside the first chunk of the entry: the entry is shortened *)
      assert (Hq0 : q = 0) by lia.
      eexists. exists (first_chunk e + q). split; [reflexivity|]. cbn [sc_entries sc_single sc_ids].
      rewrite set_last_spc_app.
      split; [exact Hch|]. split; [exact HcR|]. split.
      { rewrite cc_upto_eq, cc_upto_app. cbn [first_chunk cc_upto spc]. fold Apre. rewrite Hfirst, Hr.
        replace (N.to_nat (first_chunk e + q + 1 - first_chunk e)) with 1%nat by lia.
        replace (N.to_nat q) with 0%nat by lia. cbn [repeat app].
        rewrite !app_nil_r. reflexivity. }
      split; [lia|]. split; [lia|]. split; [exact Hcnt|]. split.
      { apply (entries_ok_replace pre e post (nchunks tb)); try assumption; try reflexivity.
        cbn [entries_ok spc first_chunk]. apply andb_true_intro. split; lia. }
      split; [apply Hhd; reflexivity|]. split.
      { rewrite lenN_app, lenN_cons, (@lenN_nil stsc_entry). destruct (sc_single (t_stsc tb) =? 0); lia. }
      split; [exact Hids1nz|reflexivity].
    + (* whole chunks stay in the entry, the remainder becomes a new entry *)
      assert (Hsd : exists sdid, stsc_get_sample_description_id (mkStsc (pre ++ [e]) (sc_single (t_stsc tb)) ids1) (first_chunk e) = Ok sdid /\
                     (if sc_single (t_stsc tb) =? 0 then negb (sdid =? 0) else sdid =? sc_single (t_stsc tb)) = true).
      { unfold stsc_get_sample_description_id. cbn [sc_single sc_entries sc_ids].
        destruct (sc_single (t_stsc tb) =? 0) eqn:Es; cbn [negb].
        - assert (Hok1 : entries_ok (pre ++ [e]) (first_chunk e) = true).
          { apply (entries_ok_replace pre e post (nchunks tb)); try assumption; try reflexivity.
            cbn [entries_ok]. apply andb_true_intro. split; lia. }
          destruct (Hhd e [] eq_refl eq_refl) as [e0' [X1 [X2 X3]]].
          destruct (find_entry_for_chunk_ok (pre ++ [e]) (first_chunk e) (first_chunk e) e0' Hok1) as [i' [e' [Y1 [Y2 _]]]];
            [rewrite lenN_app, lenN_cons, (@lenN_nil stsc_entry); lia|exact X1|lia|].
          rewrite (u32_small (first_chunk e)) by lia. rewrite Y1. cbn [rbind].
          pose proof (nthN_Some_lt _ _ _ Y2) as Y3. rewrite lenN_app, lenN_cons, (@lenN_nil stsc_entry) in Y3.
          destruct (nthN_lt_Some ids1 i') as [x Hx]; [lia|]. exists x. split; [apply idx_Some, Hx|].
          rewrite forallb_forall in Hids1nz. apply Hids1nz.
          clear - Hx. revert i' Hx. induction ids1 as [|y t IH]; intros i' Hx; [discriminate|].
          cbn [nthN] in Hx. destruct (i' =? 0); [injection Hx as ->; left; reflexivity|right; eapply IH; eauto].
        - exists (sc_single (t_stsc tb)). split; [reflexivity|]. lia. }
      destruct Hsd as [sdid [Hsd1 Hsd2]]. rewrite Hsd1. cbn [rbind].
      (* AddEntry refuses description id 0 since cb02a8f: the id handed over here is never 0 *)
      assert (Hsd0 : (sdid =? 0) = false).
      { revert Hsd2. destruct (sc_single (t_stsc tb) =? 0) eqn:EsA; intros Hsd2; lia. }
      unfold stsc_add_entry. rewrite Hsd0. cbn [sc_entries sc_single sc_ids]. rewrite rev_unit.
      rewrite (u32_small (first_chunk e + q)) by lia. rewrite sub32_small by lia.
      replace (first_chunk e + q - first_chunk e) with q by lia.
      rewrite (u32_small (q * spc e)) by lia. rewrite (u32_small (first_sample e + q * spc e)) by lia.
      set (enew := mkEntry (first_chunk e + q) (r0 + 1) (first_sample e + q * spc e)).
      match goal with |- context [let '(single, ids) := ?X in _] => destruct X as [single' ids'] eqn:Eids end.
      eexists. exists (first_chunk e + q). split; [reflexivity|]. cbn [sc_entries sc_single sc_ids].
      rewrite <- app_assoc. cbn [app].
      split; [exact Hch|]. split; [exact HcR|]. split.
      { rewrite cc_upto_eq, cc_upto_app. cbn [cc_upto]. fold Apre. rewrite Hfirst, Hr. unfold enew. cbn [first_chunk spc].
        replace (N.to_nat (first_chunk e + q - first_chunk e)) with (N.to_nat q) by lia.
        replace (N.to_nat (first_chunk e + q + 1 - (first_chunk e + q))) with 1%nat by lia. cbn [repeat].
        rewrite app_nil_r, <- app_assoc. reflexivity. }
      split; [lia|]. split; [lia|]. split; [exact Hcnt|]. split.
      { apply (entries_ok_replace pre e post (nchunks tb)); try assumption; try reflexivity.
        unfold enew. cbn [entries_ok spc first_chunk first_sample].
        apply andb_true_intro. split; [lia|]. apply andb_true_intro. split; [apply andb_true_intro; split; lia|].
        apply andb_true_intro. split; lia. }
      split; [apply Hhd; reflexivity|].
      rewrite lenN_app, !lenN_cons, (@lenN_nil stsc_entry).
      destruct (sc_single (t_stsc tb) =? 0) eqn:Es; cbn [negb] in *.
      * destruct (sdid =? sc_single (t_stsc tb)) eqn:Ess; [lia|]. cbn [negb] in Eids. injection Eids as <- <-.
        rewrite Es. split; [rewrite lenN_app, lenN_cons, (@lenN_nil N); lia|].
        split; [|reflexivity]. rewrite forallb_app, Hids1nz. cbn [forallb]. rewrite Hsd2. reflexivity.
      * rewrite Hsd2 in Eids. cbn [negb] in Eids. injection Eids as <- <-. rewrite Es.
        split; [lia|]. split; [exact Hids1nz|reflexivity].
  - (* the cut is at a chunk boundary *)
    assert (Hr0 : r0 + 1 = spc e) by lia.
    assert (Hn : nch = q + 1) by (apply Deq; exact Hr0). rewrite Hn.
    rewrite (u32_small ((q + 1) * spc e)) by lia. rewrite sub32_small by lia.
    replace (k - first_sample e + 1 - (q + 1) * spc e) with 0 by lia. cbn [N.ltb N.compare].
    eexists. exists (first_chunk e + q). split; [reflexivity|]. cbn [sc_entries sc_single sc_ids].
    split; [exact Hch|]. split; [exact HcR|]. split.
    { rewrite cc_upto_eq, cc_upto_app. cbn [cc_upto]. fold Apre. rewrite Hfirst, Hr, Hr0.
      replace (N.to_nat (first_chunk e + q + 1 - first_chunk e)) with (S (N.to_nat q)) by lia.
      rewrite app_nil_r, <- app_assoc, repeat_snoc. reflexivity. }
    split; [lia|]. split; [lia|]. split; [exact Hcnt|]. split.
    { apply (entries_ok_replace pre e post (nchunks tb)); try assumption; try reflexivity.
      cbn [entries_ok]. apply andb_true_intro. split; lia. }
    split; [apply Hhd; reflexivity|]. split.
    { rewrite lenN_app, lenN_cons, (@lenN_nil stsc_entry). destruct (sc_single (t_stsc tb) =? 0); lia. }
    split; [exact Hids1nz|reflexivity].
Qed.

(* the chunk number of every kept sample is unchanged *)
Lemma stsc_crop_sample_chunks tb : consistent tb = true -> forall k, 1 <= k <= nsamples tb ->
  exists b' C', crop_stsc (t_stsc tb) k = Ok b' /\ S_chunk_of tb k = Some C' /\
    sample_chunks (chunk_counts (sc_entries b') C') 1 = firstnN (sample_chunks (counts_of tb) 1) k /\
    sumN (chunk_counts (sc_entries b') C') = k.
Proof.
  intros H k Hk.
  destruct (stsc_crop_correct tb H k Hk) as [b' [C' [Hc [Hch [HcR [Hcc [Hr1 [Hfk [[cnt [Hcnt Hrc]] _]]]]]]]]].
  exists b', C'. split; [exact Hc|]. split; [exact Hch|].
  destruct (firstnN_nth_split _ _ _ Hcnt) as [B HB].
  assert (Hps : sumN (firstnN (counts_of tb) (C' - 1)) + 1 = S_first_in_chunk tb C').
  { unfold S_first_in_chunk. fold (psum (counts_of tb) (C' - 1)). rewrite psum_firstnN. lia. }
  rewrite Hcc. split.
  - rewrite HB at 2. rewrite (sample_chunks_prefix _ cnt B _ 1 Hrc). f_equal. lia.
  - rewrite sumN_app. cbn [sumN]. lia.
Qed.
