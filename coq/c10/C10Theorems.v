(* C10Theorems.v — the property theorems of C10 and nothing else.  Each is closed by `exact <lemma>` and followed by
   Print Assumptions.  Shape: for ALL tables with `consistent tb = true` (C09Spec) and every k in 1..N the model of
   the crop routine (C10Model.v) returns tables whose expansion is the k-prefix of the input's expansion. *)
From V.lib Require Import Base.
From V.c09 Require Import C09Model C09Spec C09Theorems.
From V.c10 Require Import C10Model C10RlProofs C10CttsProofs C10StscProofs C10ConsProofs C10EndProofs C10LayoutProofs
  C10TermProofs C10OutProofs C10E2EProofs C10C09Proofs C10CropProofs C10FileModel C10FullProofs C10SizeProofs.

(* the hypotheses are satisfiable: C09's 7-sample example table with a cut inside a run, a chunk and a ctts entry *)
Example ex_crop : consistent ex_tb = true /\
  crop_stts (t_stts_count ex_tb) (t_stts_delta ex_tb) 5 = Ok ([3; 1; 1], [10; 20; 5]) /\
  crop_stsc (t_stsc ex_tb) 5 = Ok (mkStsc [mkEntry 1 2 1; mkEntry 3 1 5] 0 [1; 2]).
Proof. vm_compute. repeat split. Qed.

(* cropStts: durations of the result = the first k durations *)
Theorem C10_stts : forall tb, consistent tb = true -> forall k, 1 <= k <= nsamples tb ->
  exists cs' ds', crop_stts (t_stts_count tb) (t_stts_delta tb) k = Ok (cs', ds') /\
    expand_rl cs' ds' = firstnN (durs tb) k /\
    lenN cs' = lenN ds' /\ sumN cs' = k /\ forallb is_u32 cs' = true /\ forallb is_u32 ds' = true.
Proof. exact stts_crop_correct. Qed.
Print Assumptions C10_stts.

(* cropCtts: composition offsets of the result = the first k offsets; the cumulative table stays well formed *)
Theorem C10_ctts : forall tb c, consistent tb = true -> t_ctts tb = Some c -> forall k, 1 <= k <= nsamples tb ->
  exists c', crop_ctts c k = Ok c' /\ ctos_of c' = firstnN (ctos_of c) k /\
             lenN (ct_end c') = lenN (ct_off c') + 1 /\ hd 1 (ct_end c') = 0 /\ sorted_le (ct_end c') = true /\
             last (ct_end c') 0 = k.
Proof. exact ctts_crop_correct. Qed.
Print Assumptions C10_ctts.

(* cropStsz *)
Theorem C10_stsz : forall tb, consistent tb = true -> forall k, 1 <= k <= nsamples tb ->
  exists z', crop_stsz (t_stsz tb) k = Ok z' /\ sizes_of z' = firstnN (sizes tb) k /\
             sz_number z' = k /\ sz_uniform z' = sz_uniform (t_stsz tb) /\
             (if sz_uniform z' =? 0 then sz_number z' =? lenN (sz_sizes z') else lenN (sz_sizes z') =? 0) = true /\
             forallb is_u32 (sz_sizes z') = true.
Proof. exact stsz_crop_correct. Qed.
Print Assumptions C10_stsz.

(* cropSdtp *)
Theorem C10_sdtp : forall (l : list N) k, k <= lenN l -> crop_sdtp l k = firstnN l k.
Proof. exact sdtp_crop_correct. Qed.
Print Assumptions C10_sdtp.

(* cropStss: the kept sync sample numbers are exactly those <= k *)
Theorem C10_stss : forall l k, sorted_le l = true -> crop_stss l k = filter (fun y => y <=? k) l.
Proof. exact stss_crop_correct. Qed.
Print Assumptions C10_stss.

(* cropStsc (repaired text): over C' = chunk_of k chunks, the per-chunk sample counts are those of the input with the
   last chunk truncated at k; the entries stay well formed (strictly increasing first chunks, cached first sample
   numbers follow the recurrence), the description-id slice keeps the length of the entries *)
Theorem C10_stsc : forall tb, consistent tb = true -> forall k, 1 <= k <= nsamples tb ->
  exists b' C', crop_stsc (t_stsc tb) k = Ok b' /\ S_chunk_of tb k = Some C' /\ 1 <= C' <= nchunks tb /\
    chunk_counts (sc_entries b') C' = firstnN (counts_of tb) (C' - 1) ++ [k + 1 - S_first_in_chunk tb C'] /\
    1 <= k + 1 - S_first_in_chunk tb C' /\ S_first_in_chunk tb C' <= k /\
    (exists cnt, nthN (counts_of tb) (C' - 1) = Some cnt /\ k + 1 - S_first_in_chunk tb C' <= cnt) /\
    entries_ok (sc_entries b') C' = true /\
    (exists e0', nthN (sc_entries b') 0 = Some e0' /\ first_chunk e0' = 1 /\ first_sample e0' = 1) /\
    (if sc_single b' =? 0 then lenN (sc_ids b') =? lenN (sc_entries b') else lenN (sc_ids b') =? 0) = true /\
    forallb (fun x => negb (x =? 0)) (sc_ids b') = true /\ sc_single b' = sc_single (t_stsc tb).
Proof. exact stsc_crop_correct. Qed.
Print Assumptions C10_stsc.

(* ... hence every kept sample stays in the chunk it was in, and the chunks hold exactly k samples *)
Theorem C10_stsc_sample_chunks : forall tb, consistent tb = true -> forall k, 1 <= k <= nsamples tb ->
  exists b' C', crop_stsc (t_stsc tb) k = Ok b' /\ S_chunk_of tb k = Some C' /\
    sample_chunks (chunk_counts (sc_entries b') C') 1 = firstnN (sample_chunks (counts_of tb) 1) k /\
    sumN (chunk_counts (sc_entries b') C') = k.
Proof. exact stsc_crop_sample_chunks. Qed.
Print Assumptions C10_stsc_sample_chunks.

(* cropStblChildren on one track: the cropped tables are consistent again (so the output is decodable and every C09
   theorem applies to it) and every per-sample list of the result is the k-prefix of the input's:
   durations, sizes, composition offsets, sync samples, sdtp entries, chunk membership *)
Example ex_new_offsets : new_offsets_ok ex_tb 5 [40; 50; 60] = true.
Proof. vm_compute. reflexivity. Qed.
Theorem C10_cropped_consistent : forall tb, consistent tb = true -> forall k offs, 1 <= k <= nsamples tb ->
  new_offsets_ok tb k offs = true ->
  exists tb', crop_tables tb k offs = Ok tb' /\ consistent tb' = true /\ nsamples tb' = k /\
    durs tb' = firstnN (durs tb) k /\ sizes tb' = firstnN (sizes tb) k /\
    (forall c, t_ctts tb = Some c -> exists c', t_ctts tb' = Some c' /\ ctos_of c' = firstnN (ctos_of c) k) /\
    (forall l, t_stss tb = Some l -> t_stss tb' = Some (filter (fun y => y <=? k) l)) /\
    (forall l, t_sdtp tb = Some l -> t_sdtp tb' = Some (firstnN l k)) /\
    sample_chunks (counts_of tb') 1 = firstnN (sample_chunks (counts_of tb) 1) k /\
    offsets tb' = offs.
Proof. exact crop_tables_consistent. Qed.
Print Assumptions C10_cropped_consistent.

(* findTrakEnds: k = |{ i | decode_time i < track end time }|, the track end is the end of sample k and the last chunk
   is the chunk of sample k (needs the stts deltas positive, as C09_sample_at_time) *)
Theorem C10_k : forall tb, consistent tb = true ->
  deltas_positive (t_stts_count tb) (t_stts_delta tb) = true -> forall ts et ets tet,
  (if negb (ts =? u32 ets) then div_go (u64 (et * ts)) ets else Ok et) = Ok tet ->
  tet < sumN (durs tb) ->
  1 <= lenN (filter (fun s => s <? tet) (starts (durs tb) 0)) ->
  exists k t d c cnt, k = lenN (filter (fun s => s <? tet) (starts (durs tb) 0)) /\ k <= nsamples tb /\
    S_decode_time tb k = Some t /\ S_dur tb k = Some d /\ S_chunk_of tb k = Some c /\ S_chunk_count tb c = Some cnt /\
    find_trak_end tb ts et ets = Ok (k, t + d, mkChunk c (S_first_in_chunk tb c) cnt).
Proof. exact trak_end_correct. Qed.
Print Assumptions C10_k.

(* findEndTime with an stss box: the end time is the start (decode time) of the first sync sample j at or after the
   first sample that starts at or after the request (lastNr, characterised by C09_sample_at_time); an error when there is
   no such sync sample, or when it is sample 1 (nothing would be left) *)
Theorem C10_end_time_spec : forall tb l, consistent tb = true ->
  deltas_positive (t_stts_count tb) (t_stts_delta tb) = true -> t_stss tb = Some l ->
  forall ts ms lastNr, u64 (ms * ts) / 1000 < sumN (durs tb) ->
  S_sample_at_time tb (u64 (ms * ts) / 1000) = Some lastNr ->
  (exists j t, lastNr <= j /\ 2 <= j <= nsamples tb /\ S_is_sync l j = true /\
               (forall j', lastNr <= j' < j -> S_is_sync l j' = false) /\
               S_decode_time tb j = Some t /\ find_end_time tb ts ms = Ok t) \/
  ((forall j', lastNr <= j' -> S_is_sync l j' = false) /\ find_end_time tb ts ms = Err) \/
  (lastNr = 1 /\ S_is_sync l 1 = true /\ find_end_time tb ts ms = Err).
Proof. exact end_time_stss. Qed.
Print Assumptions C10_end_time_spec.

(* findEndTime without stss (repaired text, 16b42be): the end time is the start of the first sample starting at or
   after the request (the end of the track when there is none) *)
Theorem C10_end_time_nostss : forall tb, consistent tb = true ->
  deltas_positive (t_stts_count tb) (t_stts_delta tb) = true -> t_stss tb = None ->
  forall ts ms lastNr, u64 (ms * ts) / 1000 < sumN (durs tb) ->
  S_sample_at_time tb (u64 (ms * ts) / 1000) = Some lastNr -> 2 <= lastNr ->
  exists t d, S_decode_time tb (lastNr - 1) = Some t /\ S_dur tb (lastNr - 1) = Some d /\
              (lastNr <= nsamples tb -> S_decode_time tb lastNr = Some (t + d)) /\
              find_end_time tb ts ms = Ok (t + d).
Proof. exact end_time_nostss. Qed.
Print Assumptions C10_end_time_nostss.

(* the pinned text (f87a9e4) kept the sample found: the end time was the END of the first sample at/after the request,
   and a request inside the last sample indexed past the stts table *)
Definition ns_tb : tables :=
  mkTables [4] [10] None (mkStsc [mkEntry 1 4 1] 1 []) (mkStsz 3 4 []) (Some [100]) None None None.
Theorem C10_end_time_nostss_refuted :
  consistent ns_tb = true /\ S_sample_at_time ns_tb 15 = Some 3 /\ S_decode_time ns_tb 3 = Some 20 /\
  find_end_time_pinned ns_tb 1000 15 = Ok 30 /\ find_end_time ns_tb 1000 15 = Ok 20 /\
  find_end_time_pinned ns_tb 1000 35 = Panic /\ find_end_time ns_tb 1000 35 = Ok 40.
Proof. vm_compute. repeat split. Qed.
Print Assumptions C10_end_time_nostss_refuted.

(* the pinned cropStsc: a second entry with the same first chunk (cut inside the first chunk of a run), and the id of a
   dropped entry for the split entry when the ids vary *)
Definition cs_box : stsc_box := mkStsc [mkEntry 1 4 1; mkEntry 2 3 5; mkEntry 4 1 11] 0 [2; 1; 3].
Theorem C10_stsc_pinned_refuted :
  crop_stsc_pinned cs_box 2 = Ok (mkStsc [mkEntry 1 4 1; mkEntry 1 2 1] 0 [2; 1; 3; 2]) /\
  crop_stsc cs_box 2 = Ok (mkStsc [mkEntry 1 2 1] 0 [2]) /\
  crop_stsc_pinned cs_box 9 = Ok (mkStsc [mkEntry 1 4 1; mkEntry 2 3 5; mkEntry 3 2 8] 0 [2; 1; 3; 1]) /\
  crop_stsc cs_box 9 = Ok (mkStsc [mkEntry 1 4 1; mkEntry 2 3 5; mkEntry 3 2 8] 0 [2; 1; 1]).
Proof. vm_compute. repeat split. Qed.
Print Assumptions C10_stsc_pinned_refuted.

(* fillTrakOutsAndByteRanges, any number of tracks with arbitrary chunk interleaving: when the loop ends, every track
   has received one new offset per kept chunk, and the new mdat payload (concatenation of the byte ranges, merged or not)
   holds at (new offset - firstOffset) exactly the bytes the input file holds at the old chunk offset, for the kept
   (possibly truncated) size of the chunk.  Hypotheses (static_ok): consistent tables, non-zero track ids, chunk offsets
   in [1, 2^62), chunks inside the file; 2^62 + total sample bytes < 2^64. *)
Theorem C10_layout : forall file ts0 fuel ts' ranges first',
  Forall (static_ok file) ts0 -> Forall (fun t => ts_next t = 1 /\ ts_offsets t = []) ts0 ->
  4611686018427387904 + pot ts0 < 18446744073709551616 ->
  fill_loop fuel ts0 [] 0 0 = Ok (ts', ranges, first') ->
  map static ts' = map static ts0 /\
  Forall (fun t => static_ok file t /\ ts_next t = ts_last_chunk t + 1 /\ lenN (ts_offsets t) = ts_last_chunk t /\
                   forall c, 1 <= c <= ts_last_chunk t ->
                             exists no, nthN (ts_offsets t) (c - 1) = Some no /\
                                        chunk_placed file (out_bytes file ranges) first' t c no) ts'.
Proof. exact layout_correct. Qed.
Print Assumptions C10_layout.

(* ... hence every kept sample n <= k_t of every track: sub out (new_offset n) (size n) = sub in (old_offset n) (size n) *)
Theorem C10_layout_samples : forall file out first t c no n, static_ok file t ->
  chunk_placed file out first t c no -> S_chunk_of (ts_tb t) n = Some c -> 1 <= n <= ts_last_sample t ->
  n <= nsamples (ts_tb t) ->
  exists off sz, S_offset_of (ts_tb t) n = Some off /\ S_size (ts_tb t) n = Some sz /\
    sublist out (no - first + S_total_size (ts_tb t) (S_first_in_chunk (ts_tb t) c) (n - 1)) sz = sublist file off sz.
Proof. exact sample_placed. Qed.
Print Assumptions C10_layout_samples.

(* fillTrakOutsAndByteRanges terminates: on tracks satisfying static_ok the model loop, given one unit of fuel per kept
   chunk plus one (fill_fuel = 1 + sum of lastChunk.ChunkNr), returns a result — never OutOfFuel, never Err/Panic.
   static_okb is the computable form of static_ok; the two-track example satisfies every hypothesis of C10_layout_total. *)
Definition ex_file : list N := repeat 7 400.
Definition ex_ts0 : list trak_state :=
  [mkTS 1 ex_tb 5 3 1 [];
   mkTS 2 (mkTables [4] [10] None (mkStsc [mkEntry 1 2 1] 1 []) (mkStsz 3 4 []) None (Some [150; 250]) None None) 3 2 1 []].
Example ex_static : forallb (static_okb ex_file) ex_ts0 = true /\
  (4611686018427387904 + pot ex_ts0 <? 18446744073709551616) = true /\
  fill_loop (fill_fuel ex_ts0) ex_ts0 [] 0 0 =
    Ok ([mkTS 1 ex_tb 5 3 4 [100; 115; 131]; mkTS 2 (ts_tb (nth 1 ex_ts0 (mkTS 0 ex_tb 0 0 0 []))) 3 2 3 [109; 128]],
        [(100, 108); (150, 155); (200, 212); (250, 252); (300, 307)], 100).
Proof. vm_compute. repeat split. Qed.

Theorem C10_static_okb : forall file t, static_okb file t = true -> static_ok file t.
Proof. exact static_okb_ok. Qed.
Print Assumptions C10_static_okb.

Theorem C10_fill_terminates : forall file ts0,
  Forall (static_ok file) ts0 -> Forall (fun t => ts_next t = 1 /\ ts_offsets t = []) ts0 ->
  exists ts' ranges first', fill_loop (fill_fuel ts0) ts0 [] 0 0 = Ok (ts', ranges, first').
Proof. exact fill_terminates. Qed.
Print Assumptions C10_fill_terminates.

(* C10_layout without the hypothesis that the loop returns *)
Theorem C10_layout_total : forall file ts0,
  Forall (static_ok file) ts0 -> Forall (fun t => ts_next t = 1 /\ ts_offsets t = []) ts0 ->
  4611686018427387904 + pot ts0 < 18446744073709551616 ->
  exists ts' ranges first', fill_loop (fill_fuel ts0) ts0 [] 0 0 = Ok (ts', ranges, first') /\
  map static ts' = map static ts0 /\
  Forall (fun t => static_ok file t /\ ts_next t = ts_last_chunk t + 1 /\ lenN (ts_offsets t) = ts_last_chunk t /\
                   forall c, 1 <= c <= ts_last_chunk t ->
                             exists no, nthN (ts_offsets t) (c - 1) = Some no /\
                                        chunk_placed file (out_bytes file ranges) first' t c no) ts'.
Proof. exact layout_total. Qed.
Print Assumptions C10_layout_total.

(* ... the byte ranges handed to writeMdat lie in the input file, firstOffset < 2^62, and the new payload is not longer
   than the sample bytes of the tracks *)
Theorem C10_layout_ranges : forall file ts0 fuel ts' ranges first',
  Forall (static_ok file) ts0 -> Forall (fun t => ts_next t = 1 /\ ts_offsets t = []) ts0 ->
  4611686018427387904 + pot ts0 < 18446744073709551616 ->
  fill_loop fuel ts0 [] 0 0 = Ok (ts', ranges, first') ->
  Forall (range_in file) ranges /\ first' < 4611686018427387904 /\ lenN (out_bytes file ranges) <= pot ts0.
Proof. exact layout_ranges. Qed.
Print Assumptions C10_layout_ranges.

(* writeUptoMdat, the duration arithmetic (property text: "header durations do not exceed the originals"): whenever it
   succeeds, every tkhd duration is the new duration and does not exceed the original one, mdhd durations are untouched,
   every edit-list segment duration is <= the original, and the new mvhd duration does not exceed ANY bound that some
   original tkhd duration respects — in particular the original mvhd duration of a conforming file (mvhd duration >= the
   longest track).  No hypothesis on the numbers (64-bit wrap of endTime*timescale included). *)
Example ex_hdr : write_upto_mdat_durs 1500 1000 600 [(3000, 7, None); (4000, 9, Some [[3000; 10]; [5]])]
                 = Ok (900, [(900, 7, None); (900, 9, Some [[3000; 10]; [5]])]) /\
                 write_upto_mdat_durs 1500 1000 600 [(899, 7, None)] = Err.
Proof. vm_compute. split; reflexivity. Qed.
Theorem C10_header_durations : forall et ets mvts tks nd tks',
  write_upto_mdat_durs et ets mvts tks = Ok (nd, tks') ->
  Forall2 (fun old new => tk_dur new = nd /\ nd <= tk_dur old /\ md_dur new = md_dur old /\ elst_le (tk_elst new) (tk_elst old))
          tks tks' /\
  (forall mv, (exists t, In t tks /\ tk_dur t <= mv) -> nd <= mv).
Proof. exact header_durations. Qed.
Print Assumptions C10_header_durations.

(* without that guard the mvhd part of the property text is false of the code (known finding C10-F9): the original mvhd
   duration is never looked at *)
Theorem C10_mvhd_duration_refuted :
  exists et ets mvts mv tks nd tks', write_upto_mdat_durs et ets mvts tks = Ok (nd, tks') /\ mv < nd /\
    Forall (fun t => mv < tk_dur t) tks.
Proof. exact mvhd_duration_refuted. Qed.
Print Assumptions C10_mvhd_duration_refuted.

(* writeMdat on a lazily decoded input mdat (the tool's mode), ranges inside the file, fewer than 2^32-8 bytes in all:
   it succeeds and writes the 8-byte header (size, "mdat") followed by exactly the bytes of the ranges, in order
   (C08's model of MdatBox.CopyData / io.CopyN, any short-read behaviour of the reader at EOF) *)
Example ex_write_mdat : write_mdat ex_file false (C08Model.mdat_lazy 20 true 300) [(100, 103); (200, 200)]
                        = Ok [0; 0; 0; 13; 109; 100; 97; 116; 7; 7; 7; 7; 7].
Proof. vm_compute. reflexivity. Qed.
Theorem C10_write_mdat : forall file zeof startPos large payloadLen rs,
  0 < payloadLen -> lenN file < 9223372036854775808 -> Forall (range_in file) rs ->
  ranges_len rs + 8 < 4294967296 ->
  write_mdat file zeof (C08Model.mdat_lazy startPos large payloadLen) rs
  = Ok (C08Model.be32 (ranges_len rs + 8) ++ C08Model.name_mdat ++ out_bytes file rs) /\
  lenN (C08Model.be32 (ranges_len rs + 8) ++ C08Model.name_mdat) = mdat_out_hdr /\
  lenN (out_bytes file rs) = ranges_len rs.
Proof. exact write_mdat_correct. Qed.
Print Assumptions C10_write_mdat.

(* END TO END (fillTrakOutsAndByteRanges -> cropStblChildren -> updateChunkOffsets -> the output file), any number of
   tracks, stco or co64, arbitrary interleaving.  The output file is  pre ++ hdr ++ (concatenated byte ranges)  where pre
   stands for the S bytes of the re-encoded non-mdat boxes (their encoding is not modelled: ANY S bytes) and hdr for the
   mdat header; h is the header size updateChunkOffsets assumes (the Go text: 8), which must be the length of hdr.
   For every track, whenever cropStblChildren and updateChunkOffsets succeed on it (they refuse an stco offset >= 2^32 —
   repaired text 864f0da):
   * the cropped tables are consistent (every C09 theorem applies), the output has k samples in lastChunk chunks;
   * every new chunk offset o satisfies  S + h <= o  and  o + (bytes of the kept part of the chunk) <= S + h + |payload|
     ("chunk offsets point inside the new mdat");
   * every kept sample n <= k, located through the OUTPUT's tables (S_offset_of / S_size of C09Spec on the cropped and
     shifted tables), has the size it had in the input and the output file holds there exactly the input's bytes.
   cut_ok: k within 1..N and lastChunk = the chunk of sample k (what findTrakEnds returns: C10_k). *)
Example ex_cut : Forall cut_ok ex_ts0.
Proof. repeat constructor; vm_compute; try reflexivity; intros H; discriminate H. Qed.
Theorem C10_samples_end_to_end : forall file ts0 S h pre hdr,
  Forall (static_ok file) ts0 -> Forall (fun t => ts_next t = 1 /\ ts_offsets t = []) ts0 -> Forall cut_ok ts0 ->
  4611686018427387904 + 2 * pot ts0 < 18446744073709551616 ->
  lenN pre = S -> lenN hdr = h -> S + h + pot ts0 < 18446744073709551616 ->
  exists ts' ranges first', fill_loop (fill_fuel ts0) ts0 [] 0 0 = Ok (ts', ranges, first') /\
    map static ts' = map static ts0 /\ Forall (range_in file) ranges /\
    Forall (fun t => forall tb' tb2, crop_tables (ts_tb t) (ts_last_sample t) (ts_offsets t) = Ok tb' ->
      shift_track (shift_delta h S first') tb' = Ok tb2 ->
      consistent tb' = true /\ nsamples tb2 = ts_last_sample t /\ nchunks tb2 = ts_last_chunk t /\
      (forall c, 1 <= c <= ts_last_chunk t ->
         exists o, S_chunk_offset tb2 c = Some o /\ S + h <= o /\
                   o + csize (ts_tb t) (ts_last_sample t) c <= S + h + lenN (out_bytes file ranges)) /\
      (forall n, 1 <= n <= ts_last_sample t ->
         exists off off' sz, S_offset_of (ts_tb t) n = Some off /\ S_size (ts_tb t) n = Some sz /\
                             S_offset_of tb2 n = Some off' /\ S_size tb2 n = Some sz /\
                             sublist (pre ++ hdr ++ out_bytes file ranges) off' sz = sublist file off sz)) ts'.
Proof. exact samples_end_to_end. Qed.
Print Assumptions C10_samples_end_to_end.

(* cropStblChildren / updateChunkOffsets over all tracks succeed exactly when they succeed track by track *)
Theorem C10_update_chunk_offsets_tracks : forall h S first tbs tbs',
  update_chunk_offsets_h h S first tbs = Ok tbs' ->
  Forall2 (fun a b => shift_track (shift_delta h S first) a = Ok b) tbs tbs'.
Proof. exact (fun h S first => shift_tracks_Forall2 (shift_delta h S first)). Qed.
Print Assumptions C10_update_chunk_offsets_tracks.

Theorem C10_crop_all_tracks : forall ts tbs, crop_all ts = Ok tbs ->
  Forall2 (fun t b => crop_tables (ts_tb t) (ts_last_sample t) (ts_offsets t) = Ok b) ts tbs.
Proof. exact crop_all_Forall2. Qed.
Print Assumptions C10_crop_all_tracks.

(* the header size assumed by updateChunkOffsets (h) and the header written by writeMdat must agree: with the size of the
   INPUT's 16-byte largesize mdat header in the shift and the 8-byte header writeMdat always writes (C10_write_mdat),
   sample 1 of the output is read 8 bytes too far *)
Theorem C10_offsets_input_header_refuted :
  exists ts' ranges tb' tb8 tb16 pre hdr,
    fill_loop (fill_fuel [mkTS 1 wx_tb 5 3 1 []]) [mkTS 1 wx_tb 5 3 1 []] [] 0 0 = Ok (ts', ranges, 100) /\
    lenN pre = 50 /\ lenN hdr = 8 /\
    crop_all ts' = Ok [tb'] /\
    update_chunk_offsets_h 8 50 100 [tb'] = Ok [tb8] /\ update_chunk_offsets_h 16 50 100 [tb'] = Ok [tb16] /\
    S_offset_of wx_tb 1 = Some 100 /\ S_offset_of tb8 1 = Some 58 /\ S_offset_of tb16 1 = Some 66 /\
    sublist (pre ++ hdr ++ out_bytes wx_file ranges) 58 4 = sublist wx_file 100 4 /\
    sublist (pre ++ hdr ++ out_bytes wx_file ranges) 66 4 <> sublist wx_file 100 4.
Proof. exact wrong_header_refuted. Qed.
Print Assumptions C10_offsets_input_header_refuted.

(* the pinned updateChunkOffsets (f87a9e4) stored uint32(offset + delta): an stco offset that moves past 2^32 wrapped
   (known_findings C10-F8, witness replayed on cropMP4 with a virtual 4 GiB file); the repaired text refuses it *)
Theorem C10_stco_wrap_refuted :
  shift_stco_pinned (shift_delta 8 8556 36) [36; 4294960036] = [8564; 1268] /\
  shift_stco (shift_delta 8 8556 36) [36; 4294960036] = Err /\
  shift_co64 (shift_delta 8 8564 44) [44; 4294960044] = [8572; 4294968572].
Proof. vm_compute. repeat split. Qed.
Print Assumptions C10_stco_wrap_refuted.

(* ... and the OUTPUT is readable through the C09 model: the shifted tables are consistent (every C09 theorem applies to
   the output file) and TrakBox.GetRangesForSampleInterval(n, n) on them (C09's trak_get_ranges, C09_byte_ranges) returns
   exactly one range, which holds the input's bytes of sample n *)
Theorem C10_output_readable : forall file ts0 S h pre hdr,
  Forall (static_ok file) ts0 -> Forall (fun t => ts_next t = 1 /\ ts_offsets t = []) ts0 -> Forall cut_ok ts0 ->
  4611686018427387904 + 2 * pot ts0 < 18446744073709551616 ->
  lenN pre = S -> lenN hdr = h -> S + h + 2 * pot ts0 < 18446744073709551616 ->
  exists ts' ranges first', fill_loop (fill_fuel ts0) ts0 [] 0 0 = Ok (ts', ranges, first') /\
    map static ts' = map static ts0 /\
    Forall (fun t => forall tb' tb2, crop_tables (ts_tb t) (ts_last_sample t) (ts_offsets t) = Ok tb' ->
      shift_track (shift_delta h S first') tb' = Ok tb2 ->
      consistent tb2 = true /\
      (forall n, 1 <= n <= ts_last_sample t ->
         exists off off' sz, S_offset_of (ts_tb t) n = Some off /\ S_size (ts_tb t) n = Some sz /\
                             trak_get_ranges tb2 n n = Ok [mkRange off' sz] /\
                             sublist (pre ++ hdr ++ out_bytes file ranges) off' sz = sublist file off sz)) ts'.
Proof. exact output_readable. Qed.
Print Assumptions C10_output_readable.

(* THE COMPOSED PROPERTY, about crop_to_time itself = findTrakEnds -> fillTrakOutsAndByteRanges -> cropStblChildren ->
   updateChunkOffsets (the function the `virt` correspondence ties to cropMP4 on every run).  Input: any number of tracks
   satisfying trak_pre (static_ok; stts deltas positive; the rescaled end time tet lies inside the track and at least one
   sample starts before it).  Whenever crop_to_time succeeds, with the output file = S arbitrary bytes ++ 8-byte mdat
   header ++ the byte ranges: for every track, k = the number of samples starting before tet (k_of), and track_out:
   the output tables are consistent, hold k samples in chunk_of(k) chunks, their per-sample lists (durations, sizes,
   composition offsets, sync samples, sdtp, chunk membership) are the k-prefixes of the input's (prefix_lists), every chunk
   offset lies inside the new mdat payload, and every kept sample read through the output tables (S_offset_of, S_size and
   C09's trak_get_ranges) yields the input's bytes. *)
Definition ex_traks : list trak_in :=
  [mkTI 1 1000 ex_tb;
   mkTI 2 500 (mkTables [4] [10] None (mkStsc [mkEntry 1 2 1] 1 []) (mkStsz 3 4 []) None (Some [150; 250]) None None)].
Example ex_trak_pre : Forall (trak_pre ex_file 52 1000) ex_traks /\
  exists sh rg, crop_to_time ex_traks 52 1000 60 = Ok (sh, rg, [5; 3]).
Proof.
  split.
  - constructor; [|constructor; [|constructor]].
    + split; [apply static_okb_ok; vm_compute; reflexivity|]. split; [vm_compute; reflexivity|].
      exists 52. split; [vm_compute; reflexivity|]. split; [vm_compute; reflexivity|]. vm_compute. intros H; discriminate H.
    + split; [apply static_okb_ok; vm_compute; reflexivity|]. split; [vm_compute; reflexivity|].
      exists 26. split; [vm_compute; reflexivity|]. split; [vm_compute; reflexivity|]. vm_compute. intros H; discriminate H.
  - eexists. eexists. vm_compute. reflexivity.
Qed.
Theorem C10_crop_to_time : forall file traks et ets S pre hdr shifted ranges ks,
  Forall (trak_pre file et ets) traks ->
  4611686018427387904 + 2 * total_bytes traks < 18446744073709551616 ->
  lenN pre = S -> lenN hdr = mdat_out_hdr -> S + mdat_out_hdr + 2 * total_bytes traks < 18446744073709551616 ->
  crop_to_time traks et ets S = Ok (shifted, ranges, ks) ->
  Forall (range_in file) ranges /\
  exists ts0, Forall2 (state_of et ets) traks ts0 /\ Forall cut_ok ts0 /\ ks = map ts_last_sample ts0 /\
    Forall2 (track_out file (pre ++ hdr ++ out_bytes file ranges) S mdat_out_hdr (lenN (out_bytes file ranges)))
            (map static ts0) shifted.
Proof. exact crop_to_time_full. Qed.
Print Assumptions C10_crop_to_time.

(* ================================================================================================================
   SECOND ROUND: cropMP4 as a whole (crop_mp4_file / crop_mp4_output of C10FileModel.v)
   ================================================================================================================ *)

(* C10_layout / C10_layout_total assume NOTHING about the order of the chunk offsets: static_ok only asks every chunk to lie
   inside the file at an offset in [1, 2^62).  The loop always takes the smallest next offset over the tracks, writes the
   chunks in the order it takes them and never merges two ranges unless the second starts right after the first.  A layout
   with offsets DEcreasing inside a track (300, 120, 100, 103), chunks of two tracks sharing bytes (100..105 / 104..105 /
   105..106 / 103..106), a zero-size chunk (120, sample of size 0) and adjacent chunks satisfies every hypothesis; the
   overlapping bytes are simply copied twice. *)
Definition wild_t1 : tables :=
  mkTables [4] [10] None (mkStsc [mkEntry 1 1 1] 1 []) (mkStsz 0 4 [5; 0; 6; 4]) (Some [300; 120; 100; 103]) None None None.
Definition wild_t2 : tables :=
  mkTables [3] [10] None (mkStsc [mkEntry 1 1 1] 1 []) (mkStsz 2 3 []) None (Some [105; 104; 305]) None None.
Definition wild_ts0 : list trak_state := [mkTS 1 wild_t1 4 4 1 []; mkTS 2 wild_t2 3 3 1 []].
Example ex_wild_layout : forallb (static_okb ex_file) wild_ts0 = true /\
  (4611686018427387904 + pot wild_ts0 <? 18446744073709551616) = true /\
  exists ts', fill_loop (fill_fuel wild_ts0) wild_ts0 [] 0 0 =
    Ok (ts', [(105, 106); (104, 105); (300, 304); (120, 119); (100, 105); (103, 106); (305, 306)], 105) /\
    map ts_offsets ts' = [[109; 114; 114; 120]; [105; 107; 124]].
Proof. split; [vm_compute; reflexivity|]. split; [vm_compute; reflexivity|]. eexists. vm_compute. split; reflexivity. Qed.

(* ... so C10_layout_total applies to it as it stands: every chunk of both tracks is placed, the shared bytes twice *)
Theorem C10_layout_any_order : exists ts' ranges first',
  fill_loop (fill_fuel wild_ts0) wild_ts0 [] 0 0 = Ok (ts', ranges, first') /\
  Forall (fun t => lenN (ts_offsets t) = ts_last_chunk t /\
                   forall c, 1 <= c <= ts_last_chunk t ->
                             exists no, nthN (ts_offsets t) (c - 1) = Some no /\
                                        chunk_placed ex_file (out_bytes ex_file ranges) first' t c no) ts'.
Proof.
  destruct ex_wild_layout as [Hs [Hb _]].
  assert (Hst : Forall (static_ok ex_file) wild_ts0).
  { apply Forall_forall. intros t Ht. apply static_okb_ok. rewrite forallb_forall in Hs. apply Hs, Ht. }
  destruct (layout_total ex_file wild_ts0 Hst) as [ts' [ranges [first' [Hrun [_ Hall]]]]].
  - repeat constructor.
  - apply N.ltb_lt. exact Hb.
  - exists ts', ranges, first'. split; [exact Hrun|]. revert Hall. apply Forall_impl. intros t [_ [_ [A B]]]. split; assumption.
Qed.
Print Assumptions C10_layout_any_order.

(* findEndTime chooses the FIRST track whose handler is "vide", else the FIRST whose handler is "soun" *)
Theorem C10_reference_track : forall hs ref, find_sync_trak hs = Some ref -> ref_choice hs ref /\ In ref (map th_trak hs).
Proof. exact find_sync_trak_choice. Qed.
Print Assumptions C10_reference_track.

(* findEndTime succeeded: the end time is the start of the first sync sample (every sample when there is no stss) that starts
   at or after r = floor(ms * timescale / 1000) — except, without stss, when no sample starts at or after r: then it is the end
   of the track (cropMP4 as a whole then fails: C10_crop_end_to_end has no such case) *)
Theorem C10_end_time_inv : forall tb ts ms et, consistent tb = true -> deltas_strict tb = true ->
  find_end_time tb ts ms = Ok et ->
  u64 (ms * ts) / 1000 < sumN (durs tb) /\
  (first_sync_from tb (u64 (ms * ts) / 1000) et \/ (t_stss tb = None /\ et = sumN (durs tb))).
Proof. exact find_end_time_inv. Qed.
Print Assumptions C10_end_time_inv.

(* C10-F6, the exact guard: when ms milliseconds are a whole number of track units the end time is the property's own
   (exact comparison start/timescale >= ms/1000); without the guard it can lie before the request *)
Theorem C10_end_time_exact : forall tb ts ms T, ms * ts < 18446744073709551616 -> (ms * ts) mod 1000 = 0 ->
  first_sync_from tb (u64 (ms * ts) / 1000) T -> first_sync_exact tb ts ms T.
Proof. exact first_sync_exact_of. Qed.
Print Assumptions C10_end_time_exact.
Theorem C10_end_time_exact_refuted :
  exists tb ts ms T, consistent tb = true /\ deltas_strict tb = true /\ find_end_time tb ts ms = Ok T /\ T * 1000 < ms * ts.
Proof. exact end_time_before_request. Qed.
Print Assumptions C10_end_time_exact_refuted.

(* C10-F7, the exact guard: k_t counts the samples starting before floor(T * timescale_t / timescale_ref); that is the exact
   count (start/timescale_t < T/timescale_ref) when the timescales are equal or the rescaled end time is a whole number *)
Theorem C10_k_exact : forall tb ts et ets, 0 < ets -> et * ts < 18446744073709551616 -> (et * ts) mod ets = 0 ->
  k_of tb (u64 (et * ts) / ets) = k_exact tb ts et ets.
Proof. exact k_of_exact. Qed.
Print Assumptions C10_k_exact.
Theorem C10_k_same_timescale : forall tb ts et, 0 < ts -> k_of tb et = k_exact tb ts et ts.
Proof. exact k_of_same. Qed.
Print Assumptions C10_k_same_timescale.
Theorem C10_k_exact_refuted :
  exists tb ts et ets k t c, consistent tb = true /\ deltas_strict tb = true /\
    find_trak_end tb ts et ets = Ok (k, t, c) /\ k = 36 /\ k_exact tb ts et ets = 37.
Proof. exact k_rounding_refuted. Qed.
Print Assumptions C10_k_exact_refuted.

(* the sizes of the table boxes (C10FileModel) are C01's Size() of the same boxes *)
Theorem C10_table_sizes_c01 :
  (forall v f es, C01Model.size_leaf (C01Model.LStts v f es) = stts_box_size (map fst es)) /\
  (forall v f ends offs zoffs, lenN zoffs = lenN offs ->
     C01Model.size_leaf (C01Model.LCtts v f ends offs) = ctts_box_size (mkCtts ends zoffs)) /\
  (forall v f es single ids ents, lenN ents = lenN es ->
     C01Model.size_leaf (C01Model.LStsc v f es single ids) = stsc_box_size (mkStsc ents single ids)) /\
  (forall v f uni num ss, C01Model.size_leaf (C01Model.LStsz v f uni num ss) = stsz_box_size (mkStsz uni num ss)) /\
  (forall v f es, C01Model.size_leaf (C01Model.LSdtp v f es) = sdtp_box_size es) /\
  (forall name v f items, C01Model.size_leaf (C01Model.LTab name 4 v f items) = stco_box_size items) /\
  (forall name v f items, C01Model.size_leaf (C01Model.LTab name 4 v f items) = stss_box_size items) /\
  (forall name v f items, C01Model.size_leaf (C01Model.LTab name 8 v f items) = co64_box_size items).
Proof.
  exact (conj stts_size_c01 (conj ctts_size_c01 (conj stsc_size_c01 (conj stsz_size_c01 (conj sdtp_size_c01
         (conj stco_size_c01 (conj stss_size_c01 co64_size_c01))))))).
Qed.
Print Assumptions C10_table_sizes_c01.

(* updateChunkOffsets computes sizeWithoutMdat from the CROPPED tables; shifting the offsets resizes nothing, so the size used
   is the size of the tables written *)
Theorem C10_size_without_mdat : forall traks et ets rest shifted ranges ks swm,
  crop_to_time_sz traks et ets rest = Ok (shifted, ranges, ks, swm) ->
  crop_to_time traks et ets swm = Ok (shifted, ranges, ks) /\ swm = size_without_mdat rest shifted.
Proof. exact crop_to_time_sz_ok. Qed.
Print Assumptions C10_size_without_mdat.

(* writeMdat succeeded (lazy mode, the tool's): fewer than 2^32-8 bytes, and exactly header ++ bytes of the ranges *)
Theorem C10_write_mdat_inv : forall file zeof startPos large payloadLen rs mb,
  0 < payloadLen -> lenN file < 9223372036854775808 -> Forall (range_in file) rs ->
  ranges_len rs + 8 < 18446744073709551616 ->
  write_mdat file zeof (C08Model.mdat_lazy startPos large payloadLen) rs = Ok mb ->
  ranges_len rs + 8 < 4294967296 /\
  mb = C08Model.be32 (ranges_len rs + 8) ++ C08Model.name_mdat ++ out_bytes file rs.
Proof. exact write_mdat_lazy_inv. Qed.
Print Assumptions C10_write_mdat_inv.

(* writeMdat when the input mdat was decoded into memory (File.Mdat.Data; C08's mem_slice model of CopyData): the same
   bytes, for ranges that start INSIDE the input mdat's payload; the two modes differ on an empty range at the very end of
   the payload (lazy: nothing copied; in memory: "invalid range", a refusal) *)
Example ex_write_mdat_mem :
  C08Spec.box_in_file ex_file 20 true 300 = true /\ Forall (range_in_mdat 20 true 300) [(100, 103); (200, 200)] /\
  write_mdat ex_file false (C08Model.mdat_mem ex_file 20 true 300) [(100, 103); (200, 200)]
  = Ok [0; 0; 0; 13; 109; 100; 97; 116; 7; 7; 7; 7; 7].
Proof.
  split; [vm_compute; reflexivity|]. split; [|vm_compute; reflexivity].
  repeat constructor; cbn; lia.
Qed.
Theorem C10_write_mdat_mem : forall file zeof startPos large payloadLen rs,
  C08Spec.box_in_file file startPos large payloadLen = true ->
  Forall (range_in_mdat startPos large payloadLen) rs -> ranges_len rs + 8 < 4294967296 ->
  write_mdat file zeof (C08Model.mdat_mem file startPos large payloadLen) rs
  = Ok (C08Model.be32 (ranges_len rs + 8) ++ C08Model.name_mdat ++ out_bytes file rs) /\
  lenN (out_bytes file rs) = ranges_len rs.
Proof. exact write_mdat_mem_correct. Qed.
Print Assumptions C10_write_mdat_mem.
Theorem C10_write_mdat_modes_differ :
  exists file rs, write_mdat file false (C08Model.mdat_lazy 20 false 80) rs
                  = Ok (C08Model.be32 12 ++ C08Model.name_mdat ++ out_bytes file rs) /\
                  write_mdat file false (C08Model.mdat_mem file 20 false 80) rs = Err.
Proof. exact write_mdat_modes_differ. Qed.
Print Assumptions C10_write_mdat_modes_differ.

(* THE PROPERTY, END TO END, about cropMP4 = findEndTime -> findTrakEnds -> fillTrakOutsAndByteRanges -> cropStblChildren ->
   updateChunkOffsets (sizeWithoutMdat from the cropped tables) -> [non-mdat boxes] -> writeMdat.
   Input: any number of tracks with handler types; trak_wf per track = static_ok (consistent tables, track id <> 0, chunk
   offsets in [1,2^62) in ANY order, chunks inside the file), every stts delta positive, 32-bit timescale (a track without
   samples makes the tool fail: C10_empty_track); distinct track ids (the domain on which the positional model mirrors the tool's map keyed by track id); ms = the requested duration; rest = the bytes of the non-mdat boxes other than the eight table boxes.
   NOTHING is assumed about the end time: that it lies inside every track follows from the tool succeeding.
   Whenever crop_mp4_file succeeds and writeMdat (lazy input mdat) succeeds, with pre = the encoded non-mdat boxes
   (any bytes of the length Size() gives them: rest + the table boxes of the OUTPUT tables):
   * the track ids are pairwise distinct (the tool keys its per-track state by track id, the model by position; findTrakEnds,
     repaired text /repo 4fe9823, refuses a repeated id: finding C10-F10);
   * the reference track is the first "vide" track, else the first "soun" track; endTimescale is its timescale;
   * T = et is the start of the first sync sample of the reference track starting at or after floor(ms*timescale/1000)
     (C10-F6: exact under C10_end_time_exact's guard), and that sample is not sample 1;
   * the output file is  pre ++ (32-bit size, "mdat") ++ the byte ranges, under 4 GiB of payload, and sizeWithoutMdat = |pre|;
   * for every track t (out_track): tet = the end time rescaled as findTrakEnds does (C10-F7: exact under C10_k_exact's
     guard) lies inside the track, k_t = number of samples of t starting before tet is >= 1, and the output tables are
     consistent, hold k_t samples, every per-sample list is the k_t-prefix of the input's, every chunk offset o has
     |pre| + 8 <= o and o + kept chunk bytes <= |pre| + 8 + payload ("chunk offsets point inside the new mdat" of the real
     layout), and every kept sample read through the OUTPUT tables yields the input's bytes. *)
Definition e2e_hs : list trak_h :=
  [mkTH 1 (mkTI 2 500 (mkTables [4] [10] None (mkStsc [mkEntry 1 2 1] 1 []) (mkStsz 3 4 []) None (Some [150; 250]) None None));
   mkTH 0 (mkTI 1 1000 ex_tb)].
Definition e2e_run_ok : bool :=
  match crop_mp4_file e2e_hs 45 60 with
  | Ok (et, ets, (sh, rg, ks, swm)) =>
    (et =? 50) && (ets =? 1000) && (swm =? 364) && (60 + sumN (map stbl_var_size sh) =? 364) &&
    (match ks with [3; 4] => true | _ => false end) && (match map stbl_var_size sh with [116; 188] => true | _ => false end)
  | _ => false
  end.
Example ex_e2e : Forall (trak_wf ex_file) (map th_trak e2e_hs) /\ distinct_ids e2e_hs /\ e2e_run_ok = true.
Proof.
  split.
  - constructor; [|constructor; [|constructor]].
    + split; [apply static_okb_ok; vm_compute; reflexivity|]. split; vm_compute; reflexivity.
    + split; [apply static_okb_ok; vm_compute; reflexivity|]. split; vm_compute; reflexivity.
  - split.
    { unfold distinct_ids. cbn. constructor; [intros [H|[]]; discriminate H|]. constructor; [intros []|constructor]. }
    vm_compute. reflexivity.
Qed.
Theorem C10_crop_end_to_end :
  forall file zeof startPos large payloadLen hs ms rest pre et ets shifted ranges ks swm outf,
  Forall (trak_wf file) (map th_trak hs) ->
  4611686018427387904 + 2 * total_bytes (map th_trak hs) < 18446744073709551616 ->
  0 < payloadLen -> lenN file < 9223372036854775808 ->
  crop_mp4_file hs ms rest = Ok (et, ets, (shifted, ranges, ks, swm)) ->
  lenN pre = rest + sumN (map stbl_var_size shifted) ->
  lenN pre + mdat_out_hdr + 2 * total_bytes (map th_trak hs) < 18446744073709551616 ->
  crop_mp4_output file zeof (C08Model.mdat_lazy startPos large payloadLen) pre ranges = Ok outf ->
  exists ref hdr, distinct_ids hs /\ ref_choice hs ref /\ ets = ti_ts ref /\ swm = lenN pre /\
    first_sync_from (ti_tb ref) (u64 (ms * ti_ts ref) / 1000) et /\
    outf = pre ++ hdr ++ out_bytes file ranges /\
    hdr = C08Model.be32 (lenN (out_bytes file ranges) + 8) ++ C08Model.name_mdat /\
    lenN (out_bytes file ranges) + 8 < 4294967296 /\
    Forall2 (out_track file outf (lenN pre) (lenN (out_bytes file ranges)) et ets) (map th_trak hs) shifted.
Proof. exact crop_end_to_end. Qed.
Print Assumptions C10_crop_end_to_end.

(* ... and with the input mdat decoded into memory (File.Mdat.Data, MdatBox.CopyData's slice branch = C08's mem_slice): the
   same conclusion when every byte range starts inside the input mdat's payload (range_in_mdat; CopyData refuses others) *)
Theorem C10_crop_end_to_end_mem :
  forall file zeof startPos large payloadLen hs ms rest pre et ets shifted ranges ks swm outf,
  Forall (trak_wf file) (map th_trak hs) ->
  4611686018427387904 + 2 * total_bytes (map th_trak hs) < 18446744073709551616 ->
  C08Spec.box_in_file file startPos large payloadLen = true ->
  crop_mp4_file hs ms rest = Ok (et, ets, (shifted, ranges, ks, swm)) ->
  Forall (range_in_mdat startPos large payloadLen) ranges ->
  lenN pre = rest + sumN (map stbl_var_size shifted) ->
  lenN pre + mdat_out_hdr + 2 * total_bytes (map th_trak hs) < 18446744073709551616 ->
  crop_mp4_output file zeof (C08Model.mdat_mem file startPos large payloadLen) pre ranges = Ok outf ->
  exists ref hdr, distinct_ids hs /\ ref_choice hs ref /\ ets = ti_ts ref /\ swm = lenN pre /\
    first_sync_from (ti_tb ref) (u64 (ms * ti_ts ref) / 1000) et /\
    outf = pre ++ hdr ++ out_bytes file ranges /\
    hdr = C08Model.be32 (lenN (out_bytes file ranges) + 8) ++ C08Model.name_mdat /\
    lenN (out_bytes file ranges) + 8 < 4294967296 /\
    Forall2 (out_track file outf (lenN pre) (lenN (out_bytes file ranges)) et ets) (map th_trak hs) shifted.
Proof. exact crop_end_to_end_mem. Qed.
Print Assumptions C10_crop_end_to_end_mem.

(* a track without samples: GetSampleNrAtTime never returns a sample number, so findEndTime / findTrakEnds (hence the tool)
   fail on it; this is why C10_crop_end_to_end needs no "at least one sample" hypothesis *)
Theorem C10_empty_track : forall tb t nr, consistent tb = true -> nsamples tb = 0 ->
  stts_get_sample_nr_at_time (t_stts_count tb) (t_stts_delta tb) t = Ok nr -> False.
Proof. exact sat_empty_track. Qed.
Print Assumptions C10_empty_track.

(* every byte range handed to writeMdat starts at a chunk offset of some track (ranges are only ever extended at their end) *)
Theorem C10_range_starts : forall hs ms rest et ets shifted ranges ks swm,
  crop_mp4_file hs ms rest = Ok (et, ets, (shifted, ranges, ks, swm)) ->
  Forall (fun r => off_of (map ti_tb (map th_trak hs)) (fst r)) ranges.
Proof. exact crop_range_starts. Qed.
Print Assumptions C10_range_starts.

(* the in-memory mode with hypotheses on the INPUT only: every chunk of every track starts inside the input mdat's payload
   and ends inside it (chunks_in_payload: trak_wf on the file cut at the end of the payload + every chunk offset in
   [payload start, payload end)) *)
Example ex_chunks_in_payload : C08Spec.box_in_file ex_file 92 false 300 = true /\
  Forall (chunks_in_payload ex_file (92 + C08Spec.hdr_len false) (92 + C08Spec.hdr_len false + 300)) (map th_trak e2e_hs).
Proof.
  split; [vm_compute; reflexivity|].
  assert (Hoff : forall l c o, get_offset l c = Ok o -> In o l).
  { intros l c o H. unfold get_offset in H. destruct ((c =? 0) || (lenN l <? c)); [discriminate|].
    unfold idx_m1 in H. destruct (c =? 0); [discriminate|]. unfold idx in H.
    destruct (nthN l (c - 1)) eqn:E; [|discriminate]. injection H as <-. exact (nthN_In _ _ _ E). }
  constructor; [|constructor; [|constructor]].
  - split.
    + split; [apply static_okb_ok; vm_compute; reflexivity|]. split; vm_compute; reflexivity.
    + intros c o H. apply Hoff in H. cbn in H. destruct H as [<-|[<-|[]]]; cbn; lia.
  - split.
    + split; [apply static_okb_ok; vm_compute; reflexivity|]. split; vm_compute; reflexivity.
    + intros c o H. apply Hoff in H. cbn in H. destruct H as [<-|[<-|[<-|[]]]]; cbn; lia.
Qed.
Theorem C10_crop_end_to_end_mem_input :
  forall file zeof startPos large payloadLen hs ms rest pre et ets shifted ranges ks swm outf,
  Forall (chunks_in_payload file (startPos + C08Spec.hdr_len large) (startPos + C08Spec.hdr_len large + payloadLen))
         (map th_trak hs) ->
  4611686018427387904 + 2 * total_bytes (map th_trak hs) < 18446744073709551616 ->
  C08Spec.box_in_file file startPos large payloadLen = true ->
  crop_mp4_file hs ms rest = Ok (et, ets, (shifted, ranges, ks, swm)) ->
  lenN pre = rest + sumN (map stbl_var_size shifted) ->
  lenN pre + mdat_out_hdr + 2 * total_bytes (map th_trak hs) < 18446744073709551616 ->
  crop_mp4_output file zeof (C08Model.mdat_mem file startPos large payloadLen) pre ranges = Ok outf ->
  exists ref hdr, distinct_ids hs /\ ref_choice hs ref /\ ets = ti_ts ref /\ swm = lenN pre /\
    first_sync_from (ti_tb ref) (u64 (ms * ti_ts ref) / 1000) et /\
    outf = pre ++ hdr ++ out_bytes file ranges /\
    hdr = C08Model.be32 (lenN (out_bytes file ranges) + 8) ++ C08Model.name_mdat /\
    lenN (out_bytes file ranges) + 8 < 4294967296 /\
    Forall2 (out_track file outf (lenN pre) (lenN (out_bytes file ranges)) et ets) (map th_trak hs) shifted.
Proof. exact crop_end_to_end_mem_input. Qed.
Print Assumptions C10_crop_end_to_end_mem_input.

(* cropMP4 including writeUptoMdat (crop_mp4_all): it succeeds only if crop_mp4_file does, with the same result, and the header
   durations do not exceed the originals (as C10_header_durations; mvhd under the conforming-input guard, known C10-F9) *)
Theorem C10_crop_mp4_durations : forall hs mvts tks ms rest et ets x nd tks',
  crop_mp4_all hs mvts tks ms rest = Ok (et, ets, x, (nd, tks')) ->
  crop_mp4_file hs ms rest = Ok (et, ets, x) /\
  Forall2 (fun old new => tk_dur new = nd /\ nd <= tk_dur old /\ md_dur new = md_dur old /\ elst_le (tk_elst new) (tk_elst old))
          tks tks' /\
  (forall mv, (exists t, In t tks /\ tk_dur t <= mv) -> nd <= mv).
Proof. exact crop_mp4_all_ok. Qed.
Print Assumptions C10_crop_mp4_durations.

(* C10-F10 (fixed, /repo 4fe9823): the pinned findTrakEnds let two tracks with the same track ID share one per-track state; the
   repaired text refuses them, so success implies pairwise distinct ids *)
Theorem C10_success_distinct_ids : forall hs ms rest r, crop_mp4_file hs ms rest = Ok r -> distinct_ids hs.
Proof. exact crop_mp4_file_distinct. Qed.
Print Assumptions C10_success_distinct_ids.
Example ex_dup_ids_refused :
  crop_mp4_file [mkTH 1 (mkTI 1 500 (ti_tb (th_trak (nth 0 e2e_hs (mkTH 0 (mkTI 0 0 ex_tb)))))); mkTH 0 (mkTI 1 1000 ex_tb)] 45 60 = Err.
Proof. vm_compute. reflexivity. Qed.
