(* C03EncHistModel.v — Encode (io.Writer) and EncodeSW (SliceWriter) of the aggregates as STATE TRANSFORMERS, one Gallina function per
   Go text (DEFINITIONS ONLY):
     mp4/moof.go          MoofBox.Encode / EncodeSW            hmoof_w / hmoof_sw     (the data-offset test, header, children)
     mp4/traf.go          TrafBox.Encode / EncodeSW            htraf_w / htraf_sw     (EncodeContainer / EncodeContainerSW)
     mp4/mdat.go          MdatBox.Encode / EncodeSW            hmdat_w / hmdat_sw     (Size() sets LargeSize; header; data)
     mp4/fragment.go      Fragment.Encode / EncodeSW           hfrag_w / hfrag_sw     (OptimizeTfhdTrun, SetTrunDataOffsets, children)
     mp4/mediasegment.go  MediaSegment.Encode / EncodeSW       hseg_w / hseg_sw       (f.EncOptimize = s.EncOptimize)
     mp4/file.go          File.Encode / EncodeSW               hfile_w / hfile_sw     (seg.EncOptimize; segment / box-tree mode)
   over the aggregate states of C02 (coq/c02/C02AggModel.v, imported read-only: records, Size() formulas, and the functions that
   exist ONCE in Go and are called by both texts: TrafBox.OptimizeTfhdTrun = optimize_moof, Fragment.SetTrunDataOffsets =
   aset_offsets, MdatBox.Size = md_size_touch; tfhd / tfdt / trun / mfhd Encode call their own EncodeSW: tc_enc; opaque boxes are
   agreeing leaves: one byte string for both methods).
   Histories: any interleaving of Encode, EncodeSW, Size, Info and ARBITRARY state changes in between (AddFullSample, switching the
   optimisation on or off, ...).  A panic ends a history. *)
From V.lib Require Import Base.
From V.c05 Require Import C05Model C05FragModel C05CodecModel.
From V.c02 Require Import C02AggModel.
Open Scope N_scope.

(* ------------------------------------------------------------------ traf: EncodeContainer(t, w) / EncodeContainerSW(t, sw) *)
Definition htraf_w (t : atraf) : res (list N) :=
  do hd <- enc_hdr TY_TRAF (atraf_size t);                     (* EncodeHeader(c, w) *)
  do cs <- enc_list tc_enc t;                                  (* for _, b := range c.GetChildren() { b.Encode(w) } *)
  Ok (hd ++ concat cs).
Definition htraf_sw (t : atraf) : res (list N) :=
  do hd <- enc_hdr TY_TRAF (atraf_size t);                     (* EncodeHeaderSW(c, sw) *)
  do cs <- enc_list tc_enc t;                                  (* for _, c := range b.GetChildren() { c.EncodeSW(sw) } *)
  Ok (hd ++ concat cs).

(* ------------------------------------------------------------------ moof *)
Definition hmc_w (c : mchild) : res (list N) :=
  match c with McMfhd s => Ok (enc_mfhd s) | McTraf t => htraf_w t | McOther o => enc_obox o end.
Definition hmc_sw (c : mchild) : res (list N) :=
  match c with McMfhd s => Ok (enc_mfhd s) | McTraf t => htraf_sw t | McOther o => enc_obox o end.

(* MoofBox.Encode *)
Definition hmoof_w (m : amoof) : res (list N) :=
  if existsb doff_unset (amoof_truns m) then Err               (* trun.HasDataOffset() && trun.DataOffset == 0 *)
  else
    do hd <- enc_hdr TY_MOOF (amoof_size m);
    do cs <- enc_list hmc_w m;
    Ok (hd ++ concat cs).
(* MoofBox.EncodeSW *)
Definition hmoof_sw (m : amoof) : res (list N) :=
  if existsb doff_unset (amoof_truns m) then Err
  else
    do hd <- enc_hdr TY_MOOF (amoof_size m);
    do cs <- enc_list hmc_sw m;
    Ok (hd ++ concat cs).

(* ------------------------------------------------------------------ mdat *)
(* MdatBox.Encode: EncodeHeaderWithSize("mdat", m.Size(), m.LargeSize, w); DataParts or Data *)
Definition hmdat_w (m : mdat) : mdat * res (list N) :=
  let m' := md_size_touch m in
  (m', do hd <- enc_hdr_large TY_MDAT (md_size m') (md_large m'); Ok (hd ++ md_written m')).
(* MdatBox.EncodeSW: EncodeHeaderWithSizeSW; sw.WriteBytes; return sw.AccError() (the writer is large enough) *)
Definition hmdat_sw (m : mdat) : mdat * res (list N) :=
  let m' := md_size_touch m in
  (m', do hd <- enc_hdr_large TY_MDAT (md_size m') (md_large m'); Ok (hd ++ md_written m')).

(* ------------------------------------------------------------------ Fragment *)
(* the loop over f.Children = pre ++ [moof] ++ mid ++ [mdat] ++ post, with the state the mdat's Encode leaves *)
Definition hfrag_children (moof_enc : amoof -> res (list N)) (mdat_enc : mdat -> mdat * res (list N))
           (fr : afrag) (m2 : amoof) (md2 : mdat) : afrag * res (list (list N)) :=
  let fr2 := af_set fr (Some m2) (Some md2) in
  match enc_list enc_obox (af_pre fr) with
  | Ok b1 =>
      match moof_enc m2 with
      | Ok b2 =>
          match enc_list enc_obox (af_mid fr) with
          | Ok b3 =>
              let '(md3, r4) := mdat_enc md2 in
              let fr3 := af_set fr (Some m2) (Some md3) in
              match r4 with
              | Ok b4 =>
                  match enc_list enc_obox (af_post fr) with
                  | Ok b5 => (fr3, Ok (b1 ++ [b2] ++ b3 ++ [b4] ++ b5))
                  | _ => (fr3, Err)
                  end
              | _ => (fr3, Err)
              end
          | _ => (fr2, Err)
          end
      | _ => (fr2, Err)
      end
  | _ => (fr2, Err)
  end.

(* Fragment.Encode *)
Definition hfrag_w (fr : afrag) : afrag * res (list (list N)) :=
  match af_moof fr with
  | None => (fr, Err)                                          (* moof not set in fragment *)
  | Some m =>
      match (if af_opt fr then optimize_moof m else Ok m) with (* traf.OptimizeTfhdTrun() *)
      | Ok m1 =>
          match af_mdat fr with
          | None => (af_set fr (Some m1) None, Err)            (* mdat not set in fragment *)
          | Some md =>
              let '(m2, md2) := aset_offsets m1 md in          (* f.SetTrunDataOffsets() *)
              hfrag_children hmoof_w hmdat_w fr m2 md2         (* for _, b := range f.Children { b.Encode(w) } *)
          end
      | Panic => (fr, Panic)
      | _ => (fr, Err)
      end
  end.
(* Fragment.EncodeSW *)
Definition hfrag_sw (fr : afrag) : afrag * res (list (list N)) :=
  match af_moof fr with
  | None => (fr, Err)
  | Some m =>
      match (if af_opt fr then optimize_moof m else Ok m) with
      | Ok m1 =>
          match af_mdat fr with
          | None => (af_set fr (Some m1) None, Err)
          | Some md =>
              let '(m2, md2) := aset_offsets m1 md in
              hfrag_children hmoof_sw hmdat_sw fr m2 md2       (* for _, c := range f.Children { c.EncodeSW(sw) } *)
          end
      | Panic => (fr, Panic)
      | _ => (fr, Err)
      end
  end.

(* a realistic one-path change: EncodeSW sets the data offsets only while one is still unset ("already set: nothing to do") - after
   an addition between two encodings the offsets written by the second EncodeSW are the stale ones of the first *)
Definition hfrag_sw_stale (fr : afrag) : afrag * res (list (list N)) :=
  match af_moof fr with
  | None => (fr, Err)
  | Some m =>
      match (if af_opt fr then optimize_moof m else Ok m) with
      | Ok m1 =>
          match af_mdat fr with
          | None => (af_set fr (Some m1) None, Err)
          | Some md =>
              let '(m2, md2) := if existsb doff_unset (amoof_truns m1) then aset_offsets m1 md else (m1, md) in
              hfrag_children hmoof_sw hmdat_sw fr m2 md2
          end
      | Panic => (fr, Panic)
      | _ => (fr, Err)
      end
  end.

(* ------------------------------------------------------------------ MediaSegment *)
(* MediaSegment.Encode *)
Definition hseg_w (s : aseg) : aseg * res (list (list N)) :=
  match enc_list enc_obox (opt_list (sg_styp s) ++ sg_sidxs s) with
  | Ok b1 =>
      let '(fs', r) := enc_seq (fun f => hfrag_w (af_set_opt f (sg_opt s))) (sg_frags s) in   (* f.EncOptimize = s.EncOptimize; f.Encode(w) *)
      (aseg_with_frags s fs', match r with Ok b2 => Ok (b1 ++ b2) | e => e end)
  | _ => (s, Err)
  end.
(* MediaSegment.EncodeSW *)
Definition hseg_sw (s : aseg) : aseg * res (list (list N)) :=
  match enc_list enc_obox (opt_list (sg_styp s) ++ sg_sidxs s) with
  | Ok b1 =>
      let '(fs', r) := enc_seq (fun f => hfrag_sw (af_set_opt f (sg_opt s))) (sg_frags s) in
      (aseg_with_frags s fs', match r with Ok b2 => Ok (b1 ++ b2) | e => e end)
  | _ => (s, Err)
  end.

(* ------------------------------------------------------------------ File *)
Definition hfc_w (c : fchild) : fchild * res (list (list N)) :=
  match c with
  | FcMoof m => (c, do b <- hmoof_w m; Ok [b])
  | FcMdat md => let '(md', r) := hmdat_w md in (FcMdat md', do b <- r; Ok [b])
  | FcOther o => (c, do b <- enc_obox o; Ok [b])
  end.
Definition hfc_sw (c : fchild) : fchild * res (list (list N)) :=
  match c with
  | FcMoof m => (c, do b <- hmoof_sw m; Ok [b])
  | FcMdat md => let '(md', r) := hmdat_sw md in (FcMdat md', do b <- r; Ok [b])
  | FcOther o => (c, do b <- enc_obox o; Ok [b])
  end.

(* File.Encode *)
Definition hfile_w (f : afile) : afile * res (list (list N)) :=
  if fl_fragmented f && negb (fl_mode f =? 0) && negb (fl_mode f =? 1) then (f, Err)   (* unknown FragEncMode *)
  else if afile_seg_mode f then
    match enc_list enc_obox (match fl_init f with Some i => i | None => [] end ++ fl_sidxs f) with
    | Ok b1 =>
        let '(ss', r) := enc_seq (fun s => hseg_w (if fl_opt f then aseg_set_opt s true else s)) (fl_segs f) in
        let f' := afile_with f ss' (fl_children f) in
        match r with
        | Ok b2 =>
            match enc_list enc_obox (opt_list (fl_mfra f)) with
            | Ok b3 => (f', Ok (b1 ++ b2 ++ b3))
            | _ => (f', Err)
            end
        | Panic => (f', Panic)
        | _ => (f', Err)
        end
    | _ => (f, Err)
    end
  else
    let '(cs', r) := enc_seq hfc_w (fl_children f) in (afile_with f (fl_segs f) cs', r).
(* File.EncodeSW *)
Definition hfile_sw (f : afile) : afile * res (list (list N)) :=
  if fl_fragmented f && negb (fl_mode f =? 0) && negb (fl_mode f =? 1) then (f, Err)
  else if afile_seg_mode f then
    match enc_list enc_obox (match fl_init f with Some i => i | None => [] end ++ fl_sidxs f) with
    | Ok b1 =>
        let '(ss', r) := enc_seq (fun s => hseg_sw (if fl_opt f then aseg_set_opt s true else s)) (fl_segs f) in
        let f' := afile_with f ss' (fl_children f) in
        match r with
        | Ok b2 =>
            match enc_list enc_obox (opt_list (fl_mfra f)) with
            | Ok b3 => (f', Ok (b1 ++ b2 ++ b3))
            | _ => (f', Err)
            end
        | Panic => (f', Panic)
        | _ => (f', Err)
        end
    | _ => (f, Err)
    end
  else
    let '(cs', r) := enc_seq hfc_sw (fl_children f) in (afile_with f (fl_segs f) cs', r).

(* ------------------------------------------------------------------ histories *)
Inductive hop (S : Type) := HEncode | HEncodeSW | HSize | HInfo | HApply (g : S -> S).
Arguments HEncode {S}. Arguments HEncodeSW {S}. Arguments HSize {S}. Arguments HInfo {S}. Arguments HApply {S} g.

Record hagg (S : Type) := mkHagg {
  ha_w : S -> S * res (list (list N));          (* Encode *)
  ha_sw : S -> S * res (list (list N));         (* EncodeSW *)
  ha_touch : S -> S; ha_size : S -> N;          (* Size(): the state afterwards (LargeSize), the value *)
  ha_info : S -> S }.
Arguments ha_w {S}. Arguments ha_sw {S}. Arguments ha_touch {S}. Arguments ha_size {S}. Arguments ha_info {S}.

Definition hstep {S} (a : hagg S) (s : S) (o : hop S) : S * aout :=
  match o with
  | HEncode => let '(s', r) := ha_w a s in (s', out_of r)
  | HEncodeSW => let '(s', r) := ha_sw a s in (s', out_of r)
  | HSize => (ha_touch a s, OutSize (ha_size a s))
  | HInfo => (ha_info a s, OutInfo)
  | HApply g => (g s, OutInfo)
  end.

Fixpoint run_hhist {S} (a : hagg S) (s : S) (ops : list (hop S)) : list aout * S :=
  match ops with
  | [] => ([], s)
  | o :: rest =>
      let '(s', out) := hstep a s o in
      match out with
      | OutPanic => ([OutPanic], s')
      | _ => let '(outs, s'') := run_hhist a s' rest in (out :: outs, s'')
      end
  end.

Definition hfrag_agg : hagg afrag := mkHagg afrag hfrag_w hfrag_sw afrag_touch afrag_size afrag_touch.
Definition hseg_agg : hagg aseg := mkHagg aseg hseg_w hseg_sw aseg_touch aseg_size aseg_touch.
Definition hfile_agg : hagg afile := mkHagg afile hfile_w hfile_sw afile_touch afile_size afile_info.
Definition hfrag_agg_stale : hagg afrag := mkHagg afrag hfrag_w hfrag_sw_stale afrag_touch afrag_size afrag_touch.

(* two histories that differ only in WHICH encoder is called at each encoding step *)
Definition hop_erase {S} (o : hop S) : hop S := match o with HEncodeSW => HEncode | o => o end.
Definition same_history {S} (h1 h2 : list (hop S)) : Prop := map hop_erase h1 = map hop_erase h2.

(* the operations of the C02 histories *)
Definition hop_of_aop {S} (o : aop) : hop S :=
  match o with OpSize => HSize | OpInfo => HInfo | OpEncode => HEncode | OpEncodeSW => HEncodeSW end.

(* observation for the refuted variant: the data offset of the first trun of the fragment *)
Definition first_doff (fr : afrag) : option Z :=
  match af_moof fr with
  | Some m => match amoof_truns m with r :: _ => Some (tr_doff r) | [] => None end
  | None => None
  end.
