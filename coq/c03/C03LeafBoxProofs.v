(* C03LeafBoxProofs.v — DecodeBox and DecodeBoxSR on one trun / senc / mdat box with a compact header whose size field is
   8 + the number of body bytes present, followed by ANY bytes: both reject, or both accept with the same decoded value,
   the same Size() and the same number of bytes consumed, and the SliceReader carries no accumulated error. *)
From V.lib Require Import Base.
From V.c04 Require Import C04Model C04ReaderProofs C04ContainerProofs.
From V.c03 Require Import C03Model C03Spec C03CanonProofs C03LeafModel C03LeafProofs.
Open Scope Z_scope.

Lemma read_box_body_canon nm body pre post cst :
  zlen (pre ++ body ++ post) < two63 -> (lenN body < 4294967288)%N ->
  exists cst', read_box_body (mkH nm (8 + lenN body) 8) (mkI (pre ++ body ++ post) (lenN pre) cst)
               = (Ok body, mkI (pre ++ body ++ post) (lenN pre + lenN body) cst').
Proof.
  intros Hall Hl. unfold read_box_body. cbn [hsize hlen].
  destruct (8 =? 8 + lenN body)%N eqn:E0.
  - apply N.eqb_eq in E0. assert (H0 : lenN body = 0%N) by lia.
    assert (body = []) by (destruct body; [reflexivity|unfold lenN in H0; cbn [length] in H0; lia]). subst body.
    exists cst. cbn [app]. replace (lenN pre + lenN (@nil N))%N with (lenN pre) by (unfold lenN; cbn [length]; lia). reflexivity.
  - assert (Eb : subu64 (8 + lenN body) 8 = lenN body).
    { unfold subu64. rewrite (N.mod_small 8) by lia.
      replace (8 + lenN body + 18446744073709551616 - 8)%N with (lenN body + 1 * 18446744073709551616)%N by lia.
      rewrite N.mod_add by lia. rewrite N.mod_small; lia. }
    rewrite Eb. unfold int_of_u64. rewrite w64_id by (unfold two63; lia). rewrite <- zlen_lenN.
    rewrite read_limited_mid by exact Hall. rewrite Z.eqb_refl. eexists. reflexivity.
Qed.

Definition framed (nm body post : list N) : list N := be4 (8 + lenN body) ++ nm ++ body ++ post.

Definition boxes_agree (bs : list N) (n : N) : Prop :=
  match leafbox_r bs with
  | Ok (v, k) => leafbox_sr bs = Ok (v, Z.of_N k, false) /\ k = n
  | Err => leafbox_sr bs = Err
  | _ => False
  end.

Section FRAMED.
Variables (nm body post : list N).
Hypothesis Hn : length nm = 4%nat.
Hypothesis Hl : (lenN body < 4294967288)%N.
Hypothesis Hs : zlen (framed nm body post) < two63.

Let h : hdr := mkH nm (8 + lenN body) 8.
Let pre : list N := be4 (8 + lenN body) ++ nm.

Lemma framed_pre : framed nm body post = pre ++ body ++ post.
Proof. unfold framed, pre. rewrite <- app_assoc. reflexivity. Qed.

Lemma zlen_pre : zlen pre = 8.
Proof. unfold pre. rewrite zlen_app. unfold zlen. rewrite Hn. reflexivity. Qed.
Lemma lenN_pre : lenN pre = 8%N.
Proof. pose proof zlen_pre as H. rewrite zlen_lenN in H. lia. Qed.

Lemma hdr_r_framed : exists c, decode_header (inew (framed nm body post)) = (Ok (HHdr h), mkI (pre ++ body ++ post) (lenN pre) c).
Proof.
  pose proof (hdr_r_canon [] nm (8 + lenN body)%N (body ++ post) cost0 Hn ltac:(lia)) as HR.
  cbn [app] in HR. change (lenN (@nil N)) with 0%N in HR. unfold inew, framed. rewrite HR.
  exists (allocn 8 cost0). rewrite lenN_pre, <- framed_pre. reflexivity.
Qed.

Lemma hdr_sr_framed :
  decode_header_sr (snew (framed nm body post)) = (Ok h, mkS (mkR (pre ++ body ++ post) (zlen pre) false) cost0).
Proof.
  pose proof (hdr_sr_canon [] nm (8 + lenN body)%N (body ++ post) cost0 Hn ltac:(lia)) as HR.
  cbn [app] in HR. change (zlen (@nil N)) with 0 in HR. unfold snew, rnew, framed. rewrite HR by exact Hs.
  rewrite zlen_pre, <- framed_pre. reflexivity.
Qed.

Lemma maxsize_framed :
  (addu64 (u64z (nr_remaining (mkR (pre ++ body ++ post) (zlen pre) false))) 8 <? 8 + lenN body)%N = false.
Proof.
  apply (maxsize_ok body post); try lia.
  - rewrite <- framed_pre. exact Hs.
  - pose proof (zlen_nonneg pre). lia.
  - rewrite !zlen_app. lia.
Qed.

Lemma Hs' : zlen (pre ++ body ++ post) < two63.
Proof. rewrite <- framed_pre. exact Hs. Qed.

Lemma end_pos : Z.of_N (lenN pre + lenN body) = zlen pre + zlen body.
Proof. rewrite !zlen_lenN. lia. Qed.

Lemma trun_box_agree : nm = name_trun -> boxes_agree (framed nm body post) (8 + lenN body).
Proof.
  intros Enm. unfold boxes_agree, leafbox_r, leafbox_sr.
  destruct hdr_r_framed as [c HR]. rewrite HR, hdr_sr_framed. cbn [sr].
  change (hname h) with nm. change (hsize h) with (8 + lenN body)%N. change (hlen h) with 8%N.
  rewrite maxsize_framed. cbn [andb]. rewrite Enm. change (eqb_name name_trun name_trun) with true. cbv iota.
  unfold trun_r.
  destruct (read_box_body_canon nm body pre post c Hs' Hl) as [c' HB]. fold h in HB. rewrite HB. cbn [rbind ipos].
  pose proof (trun_pair_agree h body pre post eq_refl Hs') as HA. unfold agree_at in HA.
  destruct (trun_body_r h body) as [t| | |]; try contradiction.
  - rewrite HA. cbn [rbind rpos rerr]. rewrite end_pos, lenN_pre. split; reflexivity.
  - rewrite HA. reflexivity.
Qed.

Lemma senc_box_agree : nm = name_senc -> boxes_agree (framed nm body post) (8 + lenN body).
Proof.
  intros Enm. unfold boxes_agree, leafbox_r, leafbox_sr.
  destruct hdr_r_framed as [c HR]. rewrite HR, hdr_sr_framed. cbn [sr].
  change (hname h) with nm. change (hsize h) with (8 + lenN body)%N. change (hlen h) with 8%N.
  rewrite maxsize_framed. cbn [andb]. rewrite Enm.
  change (eqb_name name_senc name_trun) with false. change (eqb_name name_senc name_senc) with true. cbv iota.

  pose proof (senc_pair_agree h body pre post (or_introl eq_refl) eq_refl ltac:(cbn [hsize h]; lia) Hs') as HA. unfold agree_at, senc_after_body_r in HA.
  unfold senc_r. destruct (hsize h <? 16)%N.
  - rewrite HA. reflexivity.
  - destruct (read_box_body_canon nm body pre post c Hs' Hl) as [c' HB]. fold h in HB. rewrite HB. cbn [rbind ipos].
    destruct (senc_body_r h body) as [v| | |]; cbn [rbind] in *; try contradiction.
    + rewrite HA. cbn [rbind rpos rerr]. rewrite end_pos, lenN_pre. split; reflexivity.
    + rewrite HA. reflexivity.
Qed.

Lemma mdat_box_agree : nm = name_mdat -> boxes_agree (framed nm body post) (8 + lenN body).
Proof.
  intros Enm. unfold boxes_agree, leafbox_r, leafbox_sr.
  destruct hdr_r_framed as [c HR]. rewrite HR, hdr_sr_framed. cbn [sr].
  change (hname h) with nm. change (hsize h) with (8 + lenN body)%N. change (hlen h) with 8%N.
  rewrite maxsize_framed. cbn [andb]. rewrite Enm.
  change (eqb_name name_mdat name_trun) with false. change (eqb_name name_mdat name_senc) with false.
  change (eqb_name name_mdat name_mdat) with true. cbv iota.
  unfold mdat_r.
  destruct (read_box_body_canon nm body pre post c Hs' Hl) as [c' HB]. fold h in HB. rewrite HB. cbn [rbind ipos].
  pose proof (mdat_pair_agree h body pre post (or_introl eq_refl) eq_refl ltac:(cbn [hsize h]; lia) Hs') as HA. unfold agree_at in HA.
  rewrite HA. cbn [rbind rpos rerr]. rewrite end_pos, lenN_pre. split; reflexivity.
Qed.
End FRAMED.

Theorem leaf_boxes_agree : forall nm body post,
  nm = name_trun \/ nm = name_senc \/ nm = name_mdat ->
  (lenN body < 4294967288)%N -> zlen (framed nm body post) < two63 ->
  boxes_agree (framed nm body post) (8 + lenN body).
Proof.
  intros nm body post [E|[E|E]] Hl Hs.
  - apply trun_box_agree; try assumption. subst nm. reflexivity.
  - apply senc_box_agree; try assumption. subst nm. reflexivity.
  - apply mdat_box_agree; try assumption. subst nm. reflexivity.
Qed.
