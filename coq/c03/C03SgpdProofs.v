(* C03SgpdProofs.v — the sgpd pair: DecodeSgpdSR (C03SgpdModel.sgpd_prog: header fields, the entry loop, the entry decoders behind the
   table sgeDecoders except alst) is a LOCAL extended reader program, for every entry count; hence the delegation theorem applies. *)
From V.lib Require Import Base.
From V.c04 Require Import C04Model.
From V.c03 Require Import C03Model C03LeafModel C03CanonProofs C03DelegateProofs C03DelegateExtProofs C03SgpdModel.
Open Scope N_scope.

Lemma sg_ret_local {A} (e : sgentry) (k : sgentry -> xprog A) : (forall e', local_xprog (k e')) -> local_xprog (sg_ret e k).
Proof.
  intros Hk. unfold sg_ret. cbn [local_xprog local_xop]. split; [reflexivity|]. intros er. destruct (sg_vBool er); [exact I|apply Hk].
Qed.

Lemma sg_entry_local {A} gt len (k : sgentry -> xprog A) : (forall e, local_xprog (k e)) -> local_xprog (sg_entry_prog gt len k).
Proof.
  intros Hk. unfold sg_entry_prog.
  destruct (sg_name_eqb gt name_seig).
  { unfold seig_prog. cbn [local_xprog local_xop].
    split; [reflexivity|]. intros _. split; [reflexivity|]. intros b2. split; [reflexivity|]. intros ip.
    split; [reflexivity|]. intros iv. split; [reflexivity|]. intros kid.
    destruct ((vN ip =? 1) && (vN iv =? 0))%bool.
    - cbn [local_xprog local_xop]. split; [reflexivity|]. intros n. split; [reflexivity|]. intros civ.
      destruct (negb _); [exact I|apply sg_ret_local; exact Hk].
    - destruct (negb _); [exact I|apply sg_ret_local; exact Hk]. }
  destruct (sg_name_eqb gt name_roll).
  { unfold roll_prog. cbn [local_xprog local_xop]. split; [reflexivity|]. intros d. apply sg_ret_local; exact Hk. }
  destruct (sg_name_eqb gt name_rap).
  { unfold rap_prog. cbn [local_xprog local_xop]. split; [reflexivity|]. intros d. apply sg_ret_local; exact Hk. }
  destruct (sg_name_eqb gt name_alst); [exact I|].
  unfold unknown_prog. cbn [local_xprog local_xop]. split; [reflexivity|]. intros d. apply sg_ret_local; exact Hk.
Qed.

Lemma iter_pos_local {S A} (body : S -> (S -> xprog A) -> xprog A) :
  (forall st k, (forall st', local_xprog (k st')) -> local_xprog (body st k)) ->
  forall p st k, (forall st', local_xprog (k st')) -> local_xprog (iter_pos p body st k).
Proof.
  intros Hb. induction p as [q IH|q IH|]; intros st k Hk; cbn [iter_pos].
  - apply Hb. intros st'. apply IH. intros st''. apply IH. exact Hk.
  - apply IH. intros st'. apply IH. exact Hk.
  - apply Hb. exact Hk.
Qed.

Lemma iter_N_local {S A} (body : S -> (S -> xprog A) -> xprog A) :
  (forall st k, (forall st', local_xprog (k st')) -> local_xprog (body st k)) ->
  forall n st k, (forall st', local_xprog (k st')) -> local_xprog (iter_N n body st k).
Proof. intros Hb [|p] st k Hk; cbn [iter_N]; [apply Hk|apply iter_pos_local; assumption]. Qed.

(* iter_N n is n-fold iteration: with a body that only counts, the continuation is reached with the count increased by n *)
Lemma iter_pos_counts {A} : forall p (st : N) (k : N -> xprog A), iter_pos p (fun s k' => k' (s + 1)) st k = k (st + Npos p).
Proof.
  induction p as [q IH|q IH|]; intros st k; cbn [iter_pos].
  - rewrite IH, IH. f_equal. lia.
  - rewrite IH, IH. f_equal. lia.
  - reflexivity.
Qed.
Lemma iter_N_counts {A} : forall n (st : N) (k : N -> xprog A), iter_N n (fun s k' => k' (s + 1)) st k = k (st + n).
Proof. intros [|p] st k; cbn [iter_N]; [f_equal; lia|apply iter_pos_counts]. Qed.

Lemma sgpd_body_local version deflen gt st k : (forall st', local_xprog (k st')) -> local_xprog (sgpd_body version deflen gt st k).
Proof.
  intros Hk. unfold sgpd_body.
  assert (Hb : forall dl lens', local_xprog
      (if dl =? 0 then XFail
       else sg_entry_prog gt dl (fun e => if negb (sg_entry_size e =? dl) then XFail else k (lens', e :: snd st)))).
  { intros dl lens'. destruct (dl =? 0); [exact I|]. apply sg_entry_local. intros e. destruct (negb _); [exact I|]. apply Hk. }
  destruct ((1 <=? version) && (deflen =? 0))%bool.
  - cbn [local_xprog local_xop]. split; [reflexivity|]. intros v. apply Hb.
  - apply Hb.
Qed.

Lemma sgpd_prog_local : local_xprog sgpd_prog.
Proof.
  unfold sgpd_prog. cbn [local_xprog local_xop]. split; [reflexivity|]. intros vf. split; [reflexivity|]. intros gt.
  assert (Hr : forall deflen defidx, local_xprog
     (XOp RU32 (fun cnt => iter_N (vN cnt) (sgpd_body (vN vf / 16777216) deflen (sg_vB gt)) ([], [])
        (fun st => XRet (mkSgpd (vN vf / 16777216) (N.land (vN vf) flags_mask) (sg_vB gt) deflen defidx (rev (fst st)) (rev (snd st))))))).
  { intros deflen defidx. cbn [local_xprog local_xop]. split; [reflexivity|]. intros cnt. apply iter_N_local.
    - intros st k Hk. apply sgpd_body_local. exact Hk.
    - intros st'. exact I. }
  destruct (1 <=? vN vf / 16777216).
  - cbn [local_xprog local_xop]. split; [reflexivity|]. intros dl. destruct (2 <=? vN vf / 16777216).
    + cbn [local_xprog local_xop]. split; [reflexivity|]. intros di. apply Hr.
    + apply Hr.
  - apply Hr.
Qed.

(* The pair.  Reader path: readBoxBody, then DecodeSgpdSR on a private reader over the body, returning what it returns; SR path:
   DecodeSgpdSR on the caller's reader, the body sitting anywhere in the caller's buffer.  Whenever the private run accepts (value a, no
   accumulated error), the SR path accepts with the same value, stops exactly where the private run stopped, and leaves no error. *)
Theorem sgpd_pair_agree : forall body a s',
  run_xprog 0 sgpd_prog (rnew body) = Ok (a, s') -> rerr s' = false ->
  forall pre post, (zlen (pre ++ body ++ post) < 2305843009213693952)%Z ->
    xprog_body_r false true sgpd_prog body = Ok a /\
    xprog_sr false true sgpd_prog (mkR (pre ++ body ++ post) (zlen pre) false)
    = Ok (a, mkR (pre ++ body ++ post) (zlen pre + rpos s')%Z false).
Proof.
  intros body a s' E He pre post Hs.
  assert (Hb : (zlen body < two62)%Z).
  { rewrite !zlen_app in Hs. pose proof (zlen_nonneg pre). pose proof (zlen_nonneg post). unfold two62. lia. }
  destruct (xprog_pair_agree sgpdv sgpd_prog false true body a s' sgpd_prog_local Hb E He pre post ltac:(unfold two62; lia)) as [_ H].
  exact (H eq_refl).
Qed.

(* the conclusion in terms of the reader-path decoder alone: what the reader path accepts, the SR path accepts *)
Theorem sgpd_reader_accepts_sr_accepts : forall body a,
  xprog_body_r false true sgpd_prog body = Ok a ->
  forall pre post, (zlen (pre ++ body ++ post) < 2305843009213693952)%Z ->
    exists p', xprog_sr false true sgpd_prog (mkR (pre ++ body ++ post) (zlen pre) false)
               = Ok (a, mkR (pre ++ body ++ post) p' false).
Proof.
  intros body a E pre post Hs. unfold xprog_body_r in E.
  destruct (run_xprog 0 sgpd_prog (rnew body)) as [[a' s']| | |] eqn:Er; cbn [rbind] in E; try discriminate.
  destruct (rerr s') eqn:He; cbn [andb] in E; [discriminate|]. inversion E; subst a'.
  exists (zlen pre + rpos s')%Z. exact (proj2 (sgpd_pair_agree body a s' Er He pre post Hs)).
Qed.

(* non-vacuity: a version-1 seig sgpd (DefaultLength 20, one entry) and a version-1 roll sgpd with per-entry lengths (two entries) *)
Definition ex_sgpd_seig : list N :=
  [1;0;0;0; 115;101;105;103; 0;0;0;20; 0;0;0;1; 0;0;1;8; 1;2;3;4;5;6;7;8;9;10;11;12;13;14;15;16].
Definition ex_sgpd_roll : list N :=
  [1;0;0;0; 114;111;108;108; 0;0;0;0; 0;0;0;2; 0;0;0;2; 255;255; 0;0;0;2; 0;5].
Lemma ex_sgpd_seig_runs : exists a s', run_xprog 0 sgpd_prog (rnew ex_sgpd_seig) = Ok (a, s') /\ rerr s' = false /\
  rpos s' = 36%Z /\ length (sg_entries a) = 1%nat /\ sgpd_size a = 8 + lenN ex_sgpd_seig.
Proof. eexists. eexists. split; [vm_compute; reflexivity|]. vm_compute. repeat split; reflexivity. Qed.
Lemma ex_sgpd_roll_runs : exists a s', run_xprog 0 sgpd_prog (rnew ex_sgpd_roll) = Ok (a, s') /\ rerr s' = false /\
  sg_entries a = [SgRoll (-1); SgRoll 5] /\ sg_lens a = [2; 2] /\ sgpd_size a = 8 + lenN ex_sgpd_roll.
Proof. eexists. eexists. split; [vm_compute; reflexivity|]. vm_compute. repeat split; reflexivity. Qed.
