(* C03LeafProofs.v — the two decoders of each separately written leaf pair (trun, senc, mdat) agree:
   on the same box body they both fail or both return the same value, the SliceReader decoder consuming exactly the body,
   wherever the body sits in the caller's buffer.  The guard is the compact 8-byte header (the canonical form: every
   encoder of these boxes except mdat writes it); for the 16-byte header trun and senc really differ (witnesses below). *)
From V.lib Require Import Base.
From V.c04 Require Import C04Model C04ReaderProofs C04ContainerProofs.
From V.c03 Require Import C03Model C03Spec C03CanonProofs C03LeafModel.
Open Scope Z_scope.

(* ---------------------------------------------------------------- a private reader over the body vs the body inside a buffer *)
Definition fr (pre post : list N) (s : rstate) : rstate := mkR (pre ++ rbuf s ++ post) (zlen pre + rpos s) (rerr s).

Lemma gslice_frame pre b post lo hi : 0 <= lo -> lo <= hi -> hi <= zlen b ->
  gslice (pre ++ b ++ post) (zlen pre + lo) (zlen pre + hi) = gslice b lo hi.
Proof.
  intros H1 H2 H3. unfold gslice. rewrite !zlen_app.
  pose proof (zlen_nonneg pre). pose proof (zlen_nonneg post).
  replace ((0 <=? zlen pre + lo) && (zlen pre + lo <=? zlen pre + hi) && (zlen pre + hi <=? zlen pre + (zlen b + zlen post)))%bool
    with true by lia.
  replace ((0 <=? lo) && (lo <=? hi) && (hi <=? zlen b))%bool with true by lia.
  f_equal. replace (zlen pre + hi - (zlen pre + lo)) with (hi - lo) by lia.
  replace (Z.to_nat (zlen pre + lo)) with (length pre + Z.to_nat lo)%nat by (unfold zlen; lia).
  rewrite skipn_app. rewrite skipn_all2 by lia. cbn [app].
  replace (length pre + Z.to_nat lo - length pre)%nat with (Z.to_nat lo) by lia.
  rewrite skipn_app. replace (Z.to_nat lo - length b)%nat with 0%nat by (unfold zlen in *; lia). cbn [skipn].
  rewrite firstn_app. rewrite skipn_length.
  replace (Z.to_nat (hi - lo) - (length b - Z.to_nat lo))%nat with 0%nat by (unfold zlen in *; lia).
  cbn [firstn]. apply app_nil_r.
Qed.

Lemma read_fixed_in k s : rerr s = false -> 0 <= rpos s -> 0 <= k -> rpos s + k <= rlen s ->
  exists v, read_fixed k s = Ok (v, with_pos s (rpos s + k)) /\
            forall pre post, read_fixed k (fr pre post s) = Ok (v, fr pre post (with_pos s (rpos s + k))).
Proof.
  intros He Hp Hk Hl. unfold read_fixed. rewrite He.
  replace (rpos s >? rlen s - k) with false by lia.
  destruct (gslice_ok (rbuf s) (rpos s) (rpos s + k)) as [l Hg]; try (unfold rlen in *; lia).
  exists (be l 0). split; [rewrite Hg; reflexivity|].
  intros pre post. unfold fr, rlen, with_pos. cbn [rerr rpos rbuf]. rewrite He. rewrite !zlen_app.
  pose proof (zlen_nonneg post). unfold rlen in Hl.
  replace (zlen pre + rpos s >? zlen pre + (zlen (rbuf s) + zlen post) - k) with false by lia.
  replace (zlen pre + rpos s + k) with (zlen pre + (rpos s + k)) by lia.
  rewrite gslice_frame by lia. rewrite Hg. cbn [rbind]. reflexivity.
Qed.

Lemma read_bytes_in n s : rerr s = false -> 0 <= rpos s -> 0 <= n -> rpos s + n <= rlen s ->
  exists l, gslice (rbuf s) (rpos s) (rpos s + n) = Ok l /\
            read_bytes n s = Ok (l, with_pos s (rpos s + n)) /\
            forall pre post, read_bytes n (fr pre post s) = Ok (l, fr pre post (with_pos s (rpos s + n))).
Proof.
  intros He Hp Hn Hl. unfold read_bytes. rewrite He. replace (n <? 0) with false by lia.
  replace (rpos s >? rlen s - n) with false by lia.
  destruct (gslice_ok (rbuf s) (rpos s) (rpos s + n)) as [l Hg]; try (unfold rlen in *; lia).
  exists l. split; [exact Hg|]. split; [rewrite Hg; reflexivity|].
  intros pre post. unfold fr, rlen, with_pos. cbn [rerr rpos rbuf]. rewrite He. rewrite !zlen_app.
  pose proof (zlen_nonneg post). unfold rlen in Hl.
  replace (zlen pre + rpos s >? zlen pre + (zlen (rbuf s) + zlen post) - n) with false by lia.
  replace (zlen pre + rpos s + n) with (zlen pre + (rpos s + n)) by lia.
  rewrite gslice_frame by lia. rewrite Hg. cbn [rbind]. reflexivity.
Qed.

(* a read guarded by a flag: `if t.HasX() { x = s.ReadUint32() }` *)
Lemma cond_read_in (c : bool) (d : N) s : rerr s = false -> 0 <= rpos s -> rpos s + (if c then 4 else 0) <= rlen s ->
  exists v s1, (if c then read_fixed 4 s else Ok (d, s)) = Ok (v, s1) /\ rerr s1 = false /\ rbuf s1 = rbuf s /\
               rpos s1 = rpos s + (if c then 4 else 0) /\
               forall pre post, (if c then read_fixed 4 (fr pre post s) else Ok (d, fr pre post s)) = Ok (v, fr pre post s1).
Proof.
  intros He Hp Hl. destruct c.
  - destruct (read_fixed_in 4 s He Hp ltac:(lia) Hl) as [v [E1 E2]].
    exists v, (with_pos s (rpos s + 4)). split; [exact E1|]. split; [exact He|]. split; [reflexivity|]. split; [reflexivity|]. exact E2.
  - exists d, s. split; [reflexivity|]. split; [exact He|]. split; [reflexivity|]. split; [lia|]. reflexivity.
Qed.

Definition zbps (fl : N) : Z := Z.of_N (trun_bps fl).

Lemma zbps_eq fl : zbps fl = (if hasf fl 256 then 4 else 0) + (if hasf fl 512 then 4 else 0) + (if hasf fl 1024 then 4 else 0) + (if hasf fl 2048 then 4 else 0).
Proof. unfold zbps, trun_bps. destruct (hasf fl 256), (hasf fl 512), (hasf fl 1024), (hasf fl 2048); reflexivity. Qed.

(* ---------------------------------------------------------------- trun: the two sample loops *)
Lemma trun_samples_agree : forall n first fl fsf s,
  rerr s = false -> 0 <= rpos s -> rpos s + Z.of_nat n * zbps fl <= rlen s ->
  exists l s', trun_samples_r n first fl fsf s = Ok (l, s') /\ rerr s' = false /\ rbuf s' = rbuf s /\
               rpos s' = rpos s + Z.of_nat n * zbps fl /\ length l = n /\
               forall pre post, trun_samples_sr n first fl fsf (fr pre post s) = Ok (l, fr pre post s').
Proof.
  induction n as [|n IH]; intros first fl fsf s He Hp Hl.
  - exists [], s. cbn [trun_samples_r trun_samples_sr]. split; [reflexivity|]. split; [exact He|]. split; [reflexivity|].
    split; [lia|]. split; [reflexivity|]. reflexivity.
  - rewrite zbps_eq in Hl. cbn [trun_samples_r trun_samples_sr].
    assert (Hb := zbps_eq fl).
    destruct (cond_read_in (hasf fl 256) 0%N s He Hp) as [dur [s1 [E1 [He1 [Hb1 [Hp1 F1]]]]]].
    { destruct (hasf fl 256), (hasf fl 512), (hasf fl 1024), (hasf fl 2048); lia. }
    rewrite E1. cbn [rbind].
    destruct (cond_read_in (hasf fl 512) 0%N s1 He1 ltac:(destruct (hasf fl 256); lia)) as [size [s2 [E2 [He2 [Hb2 [Hp2 F2]]]]]].
    { unfold rlen in *. rewrite Hb1, Hp1. destruct (hasf fl 256), (hasf fl 512), (hasf fl 1024), (hasf fl 2048); lia. }
    rewrite E2. cbn [rbind].
    destruct (cond_read_in (hasf fl 1024) (if hasf fl 4 && first then fsf else 0)%N s2 He2 ltac:(destruct (hasf fl 256), (hasf fl 512); lia))
      as [flags [s3 [E3 [He3 [Hb3 [Hp3 F3]]]]]].
    { unfold rlen in *. rewrite Hb2, Hb1, Hp2, Hp1. destruct (hasf fl 256), (hasf fl 512), (hasf fl 1024), (hasf fl 2048); lia. }
    rewrite E3. cbn [rbind].
    destruct (cond_read_in (hasf fl 2048) 0%N s3 He3 ltac:(destruct (hasf fl 256), (hasf fl 512), (hasf fl 1024); lia))
      as [cto [s4 [E4 [He4 [Hb4 [Hp4 F4]]]]]].
    { unfold rlen in *. rewrite Hb3, Hb2, Hb1, Hp3, Hp2, Hp1. destruct (hasf fl 256), (hasf fl 512), (hasf fl 1024), (hasf fl 2048); lia. }
    rewrite E4. cbn [rbind].
    assert (Hp4' : rpos s4 = rpos s + zbps fl) by (rewrite Hp4, Hp3, Hp2, Hp1, Hb; lia).
    destruct (IH false fl fsf s4 He4) as [rest [s5 [E5 [He5 [Hb5 [Hp5 [Hn5 F5]]]]]]].
    { rewrite Hp4'. pose proof (N2Z.is_nonneg (trun_bps fl)). unfold zbps in *. lia. }
    { unfold rlen in *. rewrite Hb4, Hb3, Hb2, Hb1, Hp4'. rewrite <- Hb in Hl. lia. }
    rewrite E5. cbn [rbind].
    eexists _, s5. split; [reflexivity|]. split; [exact He5|]. split; [congruence|].
    split; [rewrite Hp5, Hp4'; lia|]. split; [cbn [length]; congruence|].
    intros pre post. rewrite F1. cbn [rbind]. rewrite F2. cbn [rbind]. rewrite F3. cbn [rbind]. rewrite F4. cbn [rbind].
    rewrite F5. cbn [rbind]. reflexivity.
Qed.

(* what "the two decoders agree on this body" means: the reader-path result r1 against the SliceReader-path result r2
   obtained on the buffer buf in which the body ends at position e *)
Definition agree_at {A} (r1 : res A) (r2 : res (A * rstate)) (buf : list N) (e : Z) : Prop :=
  match r1 with
  | Ok v => r2 = Ok (v, mkR buf e false)
  | Err => r2 = Err
  | _ => False
  end.

Lemma expected_ge16 fl cnt : (16 <= trun_expected fl cnt)%N.
Proof. unfold trun_expected. lia. Qed.

Lemma Inv_fr pre post s : Inv s -> zlen (pre ++ rbuf s ++ post) < two63 -> Inv (fr pre post s).
Proof.
  intros [H1 H2] H3. unfold Inv, fr, rlen in *. cbn [rbuf rpos]. rewrite !zlen_app in *.
  pose proof (zlen_nonneg pre). pose proof (zlen_nonneg post). lia.
Qed.

(* ---------------------------------------------------------------- trun *)
Theorem trun_pair_agree : forall h body pre post,
  hsize h = (8 + lenN body)%N -> zlen (pre ++ body ++ post) < two63 ->
  agree_at (trun_body_r h body) (trun_sr h (mkR (pre ++ body ++ post) (zlen pre) false))
           (pre ++ body ++ post) (zlen pre + zlen body).
Proof.
  intros h body pre post Hsz Hs.
  assert (Hfr0 : mkR (pre ++ body ++ post) (zlen pre) false = fr pre post (rnew body)).
  { unfold fr, rnew. cbn [rbuf rpos rerr]. f_equal. lia. }
  rewrite Hfr0. clear Hfr0.
  assert (HI0 : Inv (rnew body)).
  { unfold Inv, rnew, rlen. cbn [rpos rbuf]. rewrite !zlen_app in Hs. pose proof (zlen_nonneg pre). pose proof (zlen_nonneg post).
    pose proof (zlen_nonneg body). lia. }
  destruct (Z_lt_le_dec (zlen body) 8) as [Hshort|Hlong].
  - (* fewer than 8 body bytes: whatever the two readers deliver, expectedSize >= 16 > hdr.Size *)
    unfold trun_body_r, trun_sr, agree_at.
    destruct (read_fixed_spec 4 (rnew body) HI0 ltac:(lia)) as [vf [s1 [E1 [I1 _]]]]. rewrite E1. cbn [rbind].
    destruct (read_fixed_spec 4 s1 I1 ltac:(lia)) as [cnt [s2 [E2 _]]]. rewrite E2. cbn [rbind].
    assert (HIf : Inv (fr pre post (rnew body))) by (apply Inv_fr; [exact HI0|exact Hs]).
    destruct (read_fixed_spec 4 _ HIf ltac:(lia)) as [vf' [t1 [F1 [J1 _]]]]. rewrite F1. cbn [rbind].
    destruct (read_fixed_spec 4 t1 J1 ltac:(lia)) as [cnt' [t2 [F2 _]]]. rewrite F2. cbn [rbind].
    pose proof (expected_ge16 (N.land vf flags_mask) cnt). pose proof (expected_ge16 (N.land vf' flags_mask) cnt').
    rewrite zlen_lenN in Hshort.
    replace (hsize h =? trun_expected (N.land vf flags_mask) cnt)%N with false by lia.
    replace (hsize h =? trun_expected (N.land vf' flags_mask) cnt')%N with false by lia.
    reflexivity.
  - unfold trun_body_r, trun_sr, agree_at.
    assert (L0 : rlen (rnew body) = zlen body) by reflexivity.
    destruct (read_fixed_in 4 (rnew body) eq_refl ltac:(cbn; lia) ltac:(lia) ltac:(rewrite L0; cbn [rnew rpos]; lia)) as [vf [E1 F1]].
    rewrite E1, F1. cbn [rbind].
    set (s1 := with_pos (rnew body) (rpos (rnew body) + 4)).
    assert (P1 : rpos s1 = 4) by reflexivity. assert (B1 : rbuf s1 = body) by reflexivity. assert (R1 : rerr s1 = false) by reflexivity.
    destruct (read_fixed_in 4 s1 R1 ltac:(lia) ltac:(lia) ltac:(unfold rlen; rewrite B1, P1; lia)) as [cnt [E2 F2]].
    rewrite E2, F2. cbn [rbind].
    set (s2 := with_pos s1 (rpos s1 + 4)).
    assert (P2 : rpos s2 = 8) by reflexivity. assert (B2 : rbuf s2 = body) by reflexivity. assert (R2 : rerr s2 = false) by reflexivity.
    set (fl := N.land vf flags_mask).
    destruct (hsize h =? trun_expected fl cnt)%N eqn:Esz; cbn [negb]; [|reflexivity].
    destruct ((1024 <? cnt)%N && trun_no_sample_fields fl); [reflexivity|].
    apply N.eqb_eq in Esz.
    (* the body holds exactly what the remaining reads need *)
    assert (Hneed : zlen body = 8 + (if hasf fl 1 then 4 else 0) + (if hasf fl 4 then 4 else 0) + Z.of_N cnt * zbps fl).
    { rewrite zlen_lenN. unfold trun_expected in Esz. unfold zbps.
      destruct (hasf fl 1), (hasf fl 4); lia. }
    pose proof (N2Z.is_nonneg (trun_bps fl)) as Hbnn. fold (zbps fl) in Hbnn.
    assert (Hcb : 0 <= Z.of_N cnt * zbps fl) by (apply Z.mul_nonneg_nonneg; lia).
    destruct (cond_read_in (hasf fl 1) 0%N s2 R2 ltac:(lia)) as [doff [s3 [E3 [R3 [B3 [P3 F3]]]]]].
    { unfold rlen. rewrite B2, P2. destruct (hasf fl 1), (hasf fl 4); lia. }
    rewrite E3, F3. cbn [rbind].
    destruct (cond_read_in (hasf fl 4) 0%N s3 R3 ltac:(destruct (hasf fl 1); lia)) as [fsf [s4 [E4 [R4 [B4 [P4 F4]]]]]].
    { unfold rlen. rewrite B3, B2, P3, P2. destruct (hasf fl 1), (hasf fl 4); lia. }
    rewrite E4, F4. cbn [rbind].
    destruct (trun_samples_agree (N.to_nat cnt) true fl fsf s4 R4 ltac:(destruct (hasf fl 1), (hasf fl 4); lia))
      as [l [s5 [E5 [R5 [B5 [P5 [_ F5]]]]]]].
    { unfold rlen. rewrite B4, B3, B2, P4, P3, P2, N_nat_Z. lia. }
    rewrite E5, F5. cbn [rbind].
    replace (rerr (fr pre post s5)) with false by (unfold fr; cbn [rerr]; congruence).
    f_equal. f_equal. unfold fr. rewrite B5, B4, B3, B2, R5. f_equal.
    rewrite P5, P4, P3, P2, N_nat_Z. lia.
Qed.

(* ---------------------------------------------------------------- senc *)
Lemma gslice_len b lo hi l : gslice b lo hi = Ok l -> zlen l = hi - lo.
Proof.
  unfold gslice. destruct ((0 <=? lo) && (lo <=? hi) && (hi <=? zlen b))%bool eqn:E; [|discriminate].
  intros H. inversion H. unfold zlen in *. rewrite firstn_length, skipn_length. lia.
Qed.

Lemma gslice_full b : gslice b 0 (zlen b) = Ok b.
Proof.
  unfold gslice. pose proof (zlen_nonneg b).
  replace ((0 <=? 0) && (0 <=? zlen b) && (zlen b <=? zlen b))%bool with true by lia.
  f_equal. cbn [Z.to_nat skipn]. rewrite Z.sub_0_r. unfold zlen. rewrite Nat2Z.id. apply firstn_all.
Qed.

Lemma read_fixed_in2 k s : rerr s = false -> 0 <= rpos s -> 0 <= k -> rpos s + k <= rlen s ->
  exists l, gslice (rbuf s) (rpos s) (rpos s + k) = Ok l /\
            forall pre post, read_fixed k (fr pre post s) = Ok (be l 0, fr pre post (with_pos s (rpos s + k))).
Proof.
  intros He Hp Hk Hl.
  destruct (gslice_ok (rbuf s) (rpos s) (rpos s + k)) as [l Hg]; try (unfold rlen in *; lia).
  exists l. split; [exact Hg|].
  destruct (read_fixed_in k s He Hp Hk Hl) as [v [E1 E2]].
  unfold read_fixed in E1. rewrite He in E1. replace (rpos s >? rlen s - k) with false in E1 by lia.
  rewrite Hg in E1. cbn [rbind] in E1. inversion E1. subst v. exact E2.
Qed.

(* DecodeSenc after readBoxBody, with its leading `hdr.Size < 16` test *)
Definition senc_after_body_r (h : hdr) (body : list N) : res senc :=
  if (hsize h <? 16)%N then Err else do v <- senc_body_r h body; Ok (senc_fix v).

Theorem senc_pair_agree : forall h body pre post,
  (hlen h = 8 \/ hlen h = 16)%N -> hsize h = (hlen h + lenN body)%N -> (hsize h < 9223372036854775808)%N ->
  zlen (pre ++ body ++ post) < two63 ->
  agree_at (senc_after_body_r h body) (senc_sr h (mkR (pre ++ body ++ post) (zlen pre) false))
           (pre ++ body ++ post) (zlen pre + zlen body).
Proof.
  intros h body pre post Hhl Hsz H63 Hs.
  assert (Hfr0 : mkR (pre ++ body ++ post) (zlen pre) false = fr pre post (rnew body)).
  { unfold fr, rnew. cbn [rbuf rpos rerr]. f_equal. lia. }
  rewrite Hfr0. clear Hfr0.
  unfold senc_after_body_r, senc_sr, agree_at.
  destruct (hsize h <? 16)%N eqn:E16; [reflexivity|].
  assert (Hbig : zlen body < two63).
  { rewrite !zlen_app in Hs. pose proof (zlen_nonneg pre). pose proof (zlen_nonneg post). lia. }
  pose proof (zlen_nonneg body) as Hnn.
  assert (Hpl : w64 (payload_len h - 8) = zlen body - 8).
  { unfold payload_len, int_of_u64. rewrite Hsz. rewrite zlen_lenN in *.
    rewrite (w64_id (Z.of_N (hlen h + lenN body))) by (unfold two63 in *; lia).
    rewrite (w64_id (Z.of_N (hlen h + lenN body) - Z.of_N (hlen h))) by (unfold two63 in *; lia).
    rewrite w64_id by (unfold two63 in *; lia). lia. }
  rewrite Hpl.
  assert (HI0 : Inv (rnew body)) by (unfold Inv, rnew, rlen; cbn [rpos rbuf]; lia).
  destruct (Z_lt_le_dec (zlen body) 8) as [Hshort|Hb8].
  - (* fewer than 8 body bytes (only behind a 16-byte header): len(data) < 8 on one path, nrDataBytes < 0 on the other *)
    unfold senc_body_r. replace (zlen body <? 8) with true by lia.
    assert (HIf : Inv (fr pre post (rnew body))) by (apply Inv_fr; [exact HI0|exact Hs]).
    destruct (read_fixed_spec 4 _ HIf ltac:(lia)) as [vf [t1 [F1 [J1 _]]]]. rewrite F1. cbn [rbind].
    destruct (0 <? vf / 16777216)%N; [reflexivity|].
    destruct (read_fixed_spec 4 t1 J1 ltac:(lia)) as [cnt [t2 [F2 _]]]. rewrite F2. cbn [rbind].
    replace (zlen body - 8 <? 0) with true by lia. reflexivity.
  - unfold senc_body_r. replace (zlen body <? 8) with false by lia.
    destruct (read_fixed_in2 4 (rnew body) eq_refl ltac:(cbn; lia) ltac:(lia) ltac:(unfold rlen, rnew; cbn [rpos rbuf]; lia)) as [l1 [G1 F1]].
    cbn [rnew rbuf rpos] in G1. change (0 + 4) with 4 in G1. rewrite G1, F1. cbn [rbind].
    destruct (0 <? be l1 0 / 16777216)%N; [reflexivity|].
    set (s1 := with_pos (rnew body) (rpos (rnew body) + 4)).
    assert (P1 : rpos s1 = 4) by reflexivity. assert (B1 : rbuf s1 = body) by reflexivity. assert (R1 : rerr s1 = false) by reflexivity.
    destruct (read_fixed_in2 4 s1 R1 ltac:(lia) ltac:(lia) ltac:(unfold rlen; rewrite B1, P1; lia)) as [l2 [G2 F2]].
    rewrite B1, P1 in G2. change (4 + 4) with 8 in G2. rewrite G2, F2. cbn [rbind].
    set (s2 := with_pos s1 (rpos s1 + 4)).
    assert (P2 : rpos s2 = 8) by reflexivity. assert (B2 : rbuf s2 = body) by reflexivity. assert (R2 : rerr s2 = false) by reflexivity.
    replace (zlen body - 8 <? 0) with false by lia.
    (* the raw payload: data[8:] on one side, ReadBytes(payloadLen - 8) on the other *)
    destruct (read_bytes_in (zlen body - 8) s2 R2 ltac:(lia) ltac:(lia) ltac:(unfold rlen; rewrite B2, P2; lia)) as [raw [G3 [_ F3]]].
    rewrite B2, P2 in G3. replace (8 + (zlen body - 8)) with (zlen body) in G3 by lia. rewrite G3. cbn [rbind].
    pose proof (gslice_len _ _ _ _ G3) as Hrl.
    (* the two sub-sample size tests are the same test *)
    assert (Hchk : (u64z (zlen body - 8) <? 2 * be l2 0)%N = (zlen raw <? 2 * Z.of_N (be l2 0))).
    { rewrite Hrl. unfold u64z, two64. rewrite Z.mod_small by (unfold two63 in *; lia). lia. }
    rewrite Hchk.
    destruct (hasf (N.land (be l1 0) flags_mask) 2 && (zlen raw <? 2 * Z.of_N (be l2 0)))%bool; [reflexivity|].
    rewrite F3. cbn [rbind]. unfold fr at 1. cbn [rerr]. unfold with_pos at 1. cbn [rerr].
    f_equal. f_equal. subst s2 s1. unfold fr, with_pos, rnew. cbn [rbuf rpos rerr].
    replace (zlen pre + (0 + 4 + 4 + (zlen body - 8))) with (zlen pre + zlen body) by lia. reflexivity.
Qed.

(* ---------------------------------------------------------------- mdat: compact or 16-byte header, LargeSize on both paths *)
Theorem mdat_pair_agree : forall h body pre post,
  (hlen h = 8 \/ hlen h = 16)%N -> hsize h = (hlen h + lenN body)%N -> (hsize h < 9223372036854775808)%N ->
  zlen (pre ++ body ++ post) < two63 ->
  agree_at (Ok (mkMdat body (8 <? hlen h)%N)) (mdat_sr h (mkR (pre ++ body ++ post) (zlen pre) false))
           (pre ++ body ++ post) (zlen pre + zlen body).
Proof.
  intros h body pre post Hhl Hsz H63 Hs.
  assert (Hfr0 : mkR (pre ++ body ++ post) (zlen pre) false = fr pre post (rnew body)).
  { unfold fr, rnew. cbn [rbuf rpos rerr]. f_equal. lia. }
  rewrite Hfr0. clear Hfr0. unfold agree_at, mdat_sr.
  assert (Hbig : zlen body < two63).
  { rewrite !zlen_app in Hs. pose proof (zlen_nonneg pre). pose proof (zlen_nonneg post). lia. }
  pose proof (zlen_nonneg body) as Hnn.
  assert (Hpl : payload_len h = zlen body).
  { unfold payload_len, int_of_u64. rewrite Hsz. rewrite zlen_lenN in *.
    rewrite (w64_id (Z.of_N (hlen h + lenN body))) by (unfold two63 in *; lia).
    rewrite w64_id by (unfold two63 in *; lia). lia. }
  rewrite Hpl.
  destruct (read_bytes_in (zlen body) (rnew body) eq_refl ltac:(cbn; lia) Hnn ltac:(unfold rlen, rnew; cbn [rpos rbuf]; lia)) as [l [G [_ F]]].
  cbn [rnew rbuf rpos] in G. change (0 + zlen body) with (zlen body) in G. rewrite gslice_full in G. inversion G. subst l.
  rewrite F. cbn [rbind]. unfold fr, with_pos, rnew. cbn [rbuf rpos rerr]. reflexivity.
Qed.

(* ---------------------------------------------------------------- the compact-header guard is exact *)
(* trun behind a 16-byte header (size 24: version/flags 0x000100, sample_count 2 and NO sample bytes): expectedSize(2) = 24 =
   hdr.Size holds, DecodeTrun reads two durations past the end of its private body reader (zeros, error not consulted) and
   accepts; DecodeTrunSR reads them from the caller's reader: error at the end of the buffer, or the following bytes. *)
Definition trun_large_hdr : hdr := mkH name_trun 24 16.
Definition trun_large_body : list N := [0;0;1;0; 0;0;0;2]%N.
Lemma trun_large_header_differs :
  trun_body_r trun_large_hdr trun_large_body = Ok (mkTrun 0 256 0 0 [mkTS 0 0 0 0; mkTS 0 0 0 0]) /\
  trun_sr trun_large_hdr (rnew trun_large_body) = Err /\
  (exists t s, trun_sr trun_large_hdr (rnew (trun_large_body ++ [0;0;0;7; 0;0;0;9]%N)) = Ok (t, s) /\
               tr_samples t = [mkTS 0 7 0 0; mkTS 0 9 0 0]).
Proof. split; [vm_compute; reflexivity|]. split; [vm_compute; reflexivity|]. eexists _, _. vm_compute. split; reflexivity. Qed.

(* senc behind a 16-byte header (size 25, flags 2, sample_count 1, one raw byte): at the pinned text DecodeSenc tested
   len(rawData) = 1 < 2 and rejected while DecodeSencSR tested hdr.Size - 16 = 9 >= 2 and accepted; since b8f1424 both reject *)
Definition senc_large_hdr : hdr := mkH name_senc 25 16.
Definition senc_large_body : list N := [0;0;0;2; 0;0;0;1; 170]%N.
Lemma senc_large_header_agrees :
  senc_after_body_r senc_large_hdr senc_large_body = Err /\ senc_sr senc_large_hdr (rnew senc_large_body) = Err.
Proof. split; vm_compute; reflexivity. Qed.
