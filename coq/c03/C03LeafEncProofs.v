(* C03LeafEncProofs.v — the encoder pairs that are written twice (mdat, stsd, visual sample entry): Encode(w) and EncodeSW(sw)
   produce the same bytes or both fail, given children that do; so these boxes are agreeing leaves / nodes of C03_box_encode_agree. *)
From V.lib Require Import Base.
From V.c04 Require Import C04Model.
From V.c03 Require Import C03Model C03Proofs C03LeafModel.
Open Scope N_scope.

Lemma mdat_enc_agree m : mdat_enc_w m = mdat_enc_sw m.
Proof. reflexivity. Qed.

Lemma stsd_enc_agree version flags count size kids : agree_list kids = true ->
  stsd_enc_w version flags count size kids = stsd_enc_sw version flags count size kids.
Proof. intros H. unfold stsd_enc_w, stsd_enc_sw. rewrite (enc_list_agree _ H). reflexivity. Qed.

Lemma vse_enc_agree name v size kids : agree_list kids = true ->
  vse_enc_w name v size kids = vse_enc_sw name v size kids.
Proof. intros H. unfold vse_enc_w, vse_enc_sw. rewrite (enc_list_agree _ H). reflexivity. Qed.

(* as leaves of the container / file encode theorems *)
Lemma bytes_eqb_refl : forall a,
  (fix eq (x y : list N) : bool :=
     match x, y with [], [] => true | p :: x', q :: y' => (p =? q) && eq x' y' | _, _ => false end) a a = true.
Proof. induction a as [|x t IH]; [reflexivity|]. rewrite N.eqb_refl. exact IH. Qed.

Lemma agree_leaf_same (r : res (list N)) : r <> Panic -> r <> OutOfFuel -> agree (ELeaf r r) = true.
Proof.
  intros H1 H2. destruct r as [l| | |]; try contradiction; [|reflexivity]. cbn [agree]. apply bytes_eqb_refl.
Qed.

Lemma enc_header_w_np nm size : enc_header_w nm size <> Panic /\ enc_header_w nm size <> OutOfFuel.
Proof. unfold enc_header_w. destruct (4294967296 <=? size); split; discriminate. Qed.

Lemma mdat_leaf_agrees m : agree (ELeaf (mdat_enc_w m) (mdat_enc_sw m)) = true.
Proof.
  change (agree (ELeaf (mdat_enc_w m) (mdat_enc_w m)) = true). apply agree_leaf_same; unfold mdat_enc_w, enc_header_size_w;
    destruct (negb (md_large m || (max_normal_payload <? lenN (md_data m))) && (4294967296 <=? mdatv_size m));
    try discriminate; destruct (negb (md_large m || (max_normal_payload <? lenN (md_data m)))); discriminate.
Qed.

Lemma enc_list_np : forall kids, agree_list kids = true -> enc_list enc_w kids <> Panic /\ enc_list enc_w kids <> OutOfFuel.
Proof.
  assert (A : forall b, agree b = true -> enc_w b <> Panic /\ enc_w b <> OutOfFuel).
  { fix IH 1. intros [w sw|nm size kids] H.
    - cbn [enc_w]. cbn [agree] in H. destruct w, sw; try discriminate; split; discriminate.
    - cbn [enc_w]. destruct (enc_header_w_np nm size) as [H1 H2].
      destruct (enc_header_w nm size); try contradiction; cbn [rbind]; [|split; discriminate].
      cbn [agree] in H.
      assert (K : forall l, (fix all (l : list ebox) : bool := match l with [] => true | k :: r => agree k && all r end) l = true ->
                  (fix go (l : list ebox) : res (list N) := match l with [] => Ok [] | k :: r => do a <- enc_w k; do t <- go r; Ok (a ++ t) end) l <> Panic /\
                  (fix go (l : list ebox) : res (list N) := match l with [] => Ok [] | k :: r => do a <- enc_w k; do t <- go r; Ok (a ++ t) end) l <> OutOfFuel).
      { induction l as [|k r IHr]; intros Hl; [split; discriminate|].
        apply andb_prop in Hl. destruct Hl as [Hk Hr]. destruct (IH k Hk) as [P1 P2]. destruct (IHr Hr) as [Q1 Q2].
        destruct (enc_w k); try contradiction; cbn [rbind]; [|split; discriminate].
        match goal with |- context [rbind ?g _] => destruct g end; try contradiction; cbn [rbind]; split; discriminate. }
      destruct (K kids H) as [K1 K2].
      match goal with |- context [rbind ?g _] => destruct g end; try contradiction; cbn [rbind]; split; discriminate. }
  induction kids as [|k r IH]; intros H; [split; discriminate|].
  cbn [agree_list forallb] in H. apply andb_prop in H. destruct H as [Hk Hr].
  destruct (A k Hk) as [P1 P2]. destruct (IH Hr) as [Q1 Q2]. cbn [enc_list].
  destruct (enc_w k); try contradiction; cbn [rbind]; [|split; discriminate].
  destruct (enc_list enc_w r); try contradiction; cbn [rbind]; split; discriminate.
Qed.

Lemma stsd_leaf_agrees version flags count size kids : agree_list kids = true ->
  agree (ELeaf (stsd_enc_w version flags count size kids) (stsd_enc_sw version flags count size kids)) = true.
Proof.
  intros H. rewrite <- (stsd_enc_agree _ _ _ _ _ H). destruct (enc_list_np kids H) as [K1 K2].
  destruct (enc_header_w_np name_stsd size) as [H1 H2].
  apply agree_leaf_same; unfold stsd_enc_w; destruct (enc_header_w name_stsd size); try contradiction; cbn [rbind]; try discriminate;
    destruct (enc_list enc_w kids); try contradiction; cbn [rbind]; discriminate.
Qed.

Lemma vse_leaf_agrees name v size kids : agree_list kids = true ->
  agree (ELeaf (vse_enc_w name v size kids) (vse_enc_sw name v size kids)) = true.
Proof.
  intros H. rewrite <- (vse_enc_agree _ _ _ _ H). destruct (enc_list_np kids H) as [K1 K2].
  destruct (enc_header_w_np name size) as [H1 H2].
  apply agree_leaf_same; unfold vse_enc_w; destruct (enc_header_w name size); try contradiction; cbn [rbind]; try discriminate;
    destruct (enc_list enc_w kids); try contradiction; cbn [rbind]; discriminate.
Qed.
