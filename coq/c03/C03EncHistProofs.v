(* C03EncHistProofs.v — encode histories: Encode and EncodeSW of Fragment / MediaSegment / File (each modelled from its own Go text) are
   the same state transformer with the same output; hence every history gives the same outputs and the same final state whichever
   encoder is called at each step, with arbitrary state changes in between; both refine the C02 aggregate model, so the C02 history
   theorems hold for either text; the stale-offset variant of EncodeSW is refuted by a two-encode history with an addition in between. *)
From V.lib Require Import Base.
From V.c05 Require Import C05Model C05FragModel C05CodecModel.
From V.c02 Require Import C02AggModel C02AggExamples C02AggFragProofs C02AggFileProofs.
From V.c03 Require Import C03EncHistModel.
Open Scope N_scope.

Lemma enc_list_ext {A} (f g : A -> res (list N)) : (forall x, f x = g x) -> forall l, C02AggModel.enc_list f l = C02AggModel.enc_list g l.
Proof. intros H. induction l as [|x t IH]; [reflexivity|]. cbn [C02AggModel.enc_list]. rewrite H, IH. reflexivity. Qed.

Lemma enc_seq_ext {A} (f g : A -> A * res (list (list N))) : (forall x, f x = g x) -> forall l, enc_seq f l = enc_seq g l.
Proof. intros H. induction l as [|x t IH]; [reflexivity|]. cbn [enc_seq]. rewrite H, IH. reflexivity. Qed.

(* ---------------------------------------------------------------- box level *)
Lemma htraf_w_c02 t : htraf_w t = atraf_enc t.
Proof. reflexivity. Qed.
Lemma htraf_sw_c02 t : htraf_sw t = atraf_enc t.
Proof. reflexivity. Qed.

Lemma hmc_w_c02 c : hmc_w c = mc_enc c.
Proof. destruct c; reflexivity. Qed.
Lemma hmc_sw_c02 c : hmc_sw c = mc_enc c.
Proof. destruct c; reflexivity. Qed.

Lemma hmoof_w_c02 m : hmoof_w m = amoof_enc m.
Proof. unfold hmoof_w, amoof_enc. rewrite (enc_list_ext hmc_w mc_enc hmc_w_c02). reflexivity. Qed.
Lemma hmoof_sw_c02 m : hmoof_sw m = amoof_enc m.
Proof. unfold hmoof_sw, amoof_enc. rewrite (enc_list_ext hmc_sw mc_enc hmc_sw_c02). reflexivity. Qed.

Lemma hmdat_w_c02 m : hmdat_w m = amd_enc m.
Proof. reflexivity. Qed.
Lemma hmdat_sw_c02 m : hmdat_sw m = amd_enc m.
Proof. reflexivity. Qed.

(* ---------------------------------------------------------------- Fragment *)
Lemma hfrag_children_ext me1 me2 de1 de2 fr m md :
  (forall x, me1 x = me2 x) -> (forall x, de1 x = de2 x) -> hfrag_children me1 de1 fr m md = hfrag_children me2 de2 fr m md.
Proof. intros H1 H2. unfold hfrag_children. rewrite H1, H2. reflexivity. Qed.

Lemma hfrag_w_c02 fr : hfrag_w fr = afrag_encode fr.
Proof. reflexivity. Qed.
Lemma hfrag_sw_c02 fr : hfrag_sw fr = afrag_encode fr.
Proof. reflexivity. Qed.

(* ---------------------------------------------------------------- MediaSegment, File *)
Lemma hseg_w_c02 s : hseg_w s = aseg_encode s.
Proof.
  unfold hseg_w, aseg_encode, enc_frags.
  rewrite (enc_seq_ext (fun f => hfrag_w (af_set_opt f (C02AggModel.sg_opt s))) (fun f => afrag_encode (af_set_opt f (C02AggModel.sg_opt s)))
             (fun f => hfrag_w_c02 _)). reflexivity.
Qed.
Lemma hseg_sw_c02 s : hseg_sw s = aseg_encode s.
Proof.
  unfold hseg_sw, aseg_encode, enc_frags.
  rewrite (enc_seq_ext (fun f => hfrag_sw (af_set_opt f (C02AggModel.sg_opt s))) (fun f => afrag_encode (af_set_opt f (C02AggModel.sg_opt s)))
             (fun f => hfrag_sw_c02 _)). reflexivity.
Qed.

Lemma hfc_w_c02 c : hfc_w c = fc_encode c.
Proof. destruct c; cbn [hfc_w fc_encode]; rewrite ?hmoof_w_c02, ?hmdat_w_c02; reflexivity. Qed.
Lemma hfc_sw_c02 c : hfc_sw c = fc_encode c.
Proof. destruct c; cbn [hfc_sw fc_encode]; rewrite ?hmoof_sw_c02, ?hmdat_sw_c02; reflexivity. Qed.

Lemma hfile_w_c02 f : hfile_w f = afile_encode f.
Proof.
  unfold hfile_w, afile_encode, enc_segs, enc_children.
  rewrite (enc_seq_ext (fun s => hseg_w (if fl_opt f then aseg_set_opt s true else s)) (fun s => aseg_encode (if fl_opt f then aseg_set_opt s true else s))
             (fun s => hseg_w_c02 _)).
  rewrite (enc_seq_ext hfc_w fc_encode hfc_w_c02). reflexivity.
Qed.
Lemma hfile_sw_c02 f : hfile_sw f = afile_encode f.
Proof.
  unfold hfile_sw, afile_encode, enc_segs, enc_children.
  rewrite (enc_seq_ext (fun s => hseg_sw (if fl_opt f then aseg_set_opt s true else s)) (fun s => aseg_encode (if fl_opt f then aseg_set_opt s true else s))
             (fun s => hseg_sw_c02 _)).
  rewrite (enc_seq_ext hfc_sw fc_encode hfc_sw_c02). reflexivity.
Qed.

(* state AND output after Encode equal state and output after EncodeSW *)
Theorem encode_pair_agree :
  (forall fr, hfrag_w fr = hfrag_sw fr) /\ (forall s, hseg_w s = hseg_sw s) /\ (forall f, hfile_w f = hfile_sw f) /\
  (forall m, hmoof_w m = hmoof_sw m) /\ (forall m, hmdat_w m = hmdat_sw m).
Proof.
  split; [intros fr; transitivity (afrag_encode fr); [apply hfrag_w_c02|symmetry; apply hfrag_sw_c02]|].
  split; [intros x; transitivity (aseg_encode x); [apply hseg_w_c02|symmetry; apply hseg_sw_c02]|].
  split; [intros f; transitivity (afile_encode f); [apply hfile_w_c02|symmetry; apply hfile_sw_c02]|].
  split; [intros m; transitivity (amoof_enc m); [apply hmoof_w_c02|symmetry; apply hmoof_sw_c02]|].
  intros; reflexivity.
Qed.

(* ---------------------------------------------------------------- histories *)
Lemma hstep_erase {S} (a : hagg S) : (forall s, ha_w a s = ha_sw a s) ->
  forall s o1 o2, hop_erase o1 = hop_erase o2 -> hstep a s o1 = hstep a s o2.
Proof.
  intros H s o1 o2 E.
  destruct o1, o2; cbn [hop_erase] in E; try discriminate E; cbn [hstep]; rewrite ?H; try reflexivity.
  inversion E. reflexivity.
Qed.

Theorem history_agree {S} (a : hagg S) : (forall s, ha_w a s = ha_sw a s) ->
  forall h1 h2 s, same_history h1 h2 -> run_hhist a s h1 = run_hhist a s h2.
Proof.
  intros H. unfold same_history. induction h1 as [|o1 r1 IH]; intros h2 s E.
  - destruct h2; [reflexivity|discriminate E].
  - destruct h2 as [|o2 r2]; [discriminate E|]. cbn [map] in E. inversion E as [[E1 E2]].
    cbn [run_hhist]. rewrite (hstep_erase a H s o1 o2 E1).
    destruct (hstep a s o2) as [s' out]. rewrite (IH r2 s' E2). reflexivity.
Qed.

Theorem encode_history_agree :
  (forall h1 h2 (f : afile), same_history h1 h2 -> run_hhist hfile_agg f h1 = run_hhist hfile_agg f h2) /\
  (forall h1 h2 (s : aseg), same_history h1 h2 -> run_hhist hseg_agg s h1 = run_hhist hseg_agg s h2) /\
  (forall h1 h2 (fr : afrag), same_history h1 h2 -> run_hhist hfrag_agg fr h1 = run_hhist hfrag_agg fr h2).
Proof.
  destruct encode_pair_agree as [Hf [Hs [Hl _]]].
  split; [|split]; intros h1 h2 x E; apply history_agree; assumption.
Qed.

(* the histories of C02 (Size / Info / Encode / EncodeSW over ONE model of the encoders) are histories of this model: the C02 theorems
   (C02_history_file: after a successful encoding every later Size / Info / Encode / EncodeSW answers with the same boxes and their
   total length, ...) hold whichever of the two texts runs at each step *)
Lemma hstep_c02 {S} (a : hagg S) (step : S -> aop -> S * aout) :
  (forall s o, hstep a s (hop_of_aop o) = step s o) ->
  forall ops s, run_hhist a s (map hop_of_aop ops) = run_hist step s ops.
Proof.
  intros H. induction ops as [|o r IH]; intros s; [reflexivity|].
  cbn [map run_hhist run_hist]. rewrite H. destruct (step s o) as [s' out]. rewrite IH. reflexivity.
Qed.

Lemma hfile_step_c02 s o : hstep hfile_agg s (hop_of_aop o) = afile_step s o.
Proof. destruct o; cbn [hop_of_aop hstep afile_step hfile_agg ha_w ha_sw ha_touch ha_size ha_info]; rewrite ?hfile_w_c02, ?hfile_sw_c02; reflexivity. Qed.
Lemma hseg_step_c02 s o : hstep hseg_agg s (hop_of_aop o) = aseg_step s o.
Proof. destruct o; cbn [hop_of_aop hstep aseg_step hseg_agg ha_w ha_sw ha_touch ha_size ha_info]; rewrite ?hseg_w_c02, ?hseg_sw_c02; reflexivity. Qed.
Lemma hfrag_step_c02 s o : hstep hfrag_agg s (hop_of_aop o) = afrag_step s o.
Proof. destruct o; reflexivity. Qed.

Theorem history_refines_c02 :
  (forall ops f, run_hhist hfile_agg f (map hop_of_aop ops) = run_hist afile_step f ops) /\
  (forall ops s, run_hhist hseg_agg s (map hop_of_aop ops) = run_hist aseg_step s ops) /\
  (forall ops fr, run_hhist hfrag_agg fr (map hop_of_aop ops) = run_hist afrag_step fr ops).
Proof.
  split; [|split]; apply hstep_c02; [exact hfile_step_c02|exact hseg_step_c02|exact hfrag_step_c02].
Qed.

(* C02_history_file for the two-text model: once an Encode OR an EncodeSW has succeeded on a well-formed File, every later Size /
   Info / Encode / EncodeSW - in any order, through either text - answers with the same boxes and their total length *)
Theorem encode_history_settles : forall f ops1 o ops2 f1 f2 boxes,
  snd (run_hhist hfile_agg f (map hop_of_aop ops1)) = f1 -> ~ In OutPanic (fst (run_hhist hfile_agg f (map hop_of_aop ops1))) ->
  (o = OpEncode \/ o = OpEncodeSW) -> hstep hfile_agg f1 (hop_of_aop o) = (f2, OutBytes boxes) -> afile_wf f1 = true ->
  run_hhist hfile_agg f (map hop_of_aop (ops1 ++ o :: ops2)) =
    (fst (run_hhist hfile_agg f (map hop_of_aop ops1)) ++ OutBytes boxes :: map (expected boxes (lenN (concat boxes))) ops2, f2).
Proof.
  intros f ops1 o ops2 f1 f2 boxes. destruct history_refines_c02 as [H _]. rewrite !H, hfile_step_c02.
  exact (history_after_encode afile_step afile_wf file_settles f ops1 o ops2 f1 f2 boxes).
Qed.


(* ---------------------------------------------------------------- the stale-offset variant *)
(* one traf, one trun with two samples; between the two encodings a third sample is added (AddFullSample: trun.Samples, mdat.Data) *)
Definition add_third (fr : afrag) : afrag :=
  match af_moof fr, af_mdat fr with
  | Some m, Some md =>
      af_set fr (Some (map_truns_moof (fun r => mkTrun (tr_version r) (tr_flags r) (tr_doff r) (tr_fsf r)
                                                   (tr_samples r ++ [ex_sample 16842752 1024 4 0]) (tr_won r)) m))
                (Some (mkMdat (md_data md ++ [6; 7; 8; 9]) (md_parts md) (md_lazy md) (md_large md)))
  | _, _ => fr
  end.

Definition stale_hist_sw : list (hop afrag) := [HEncodeSW; HApply add_third; HEncodeSW].
Definition stale_hist_w : list (hop afrag) := [HEncode; HApply add_third; HEncode].

Lemma stale_same : same_history stale_hist_sw stale_hist_w.
Proof. reflexivity. Qed.

Lemma stale_offset_refuted :
  same_history stale_hist_sw stale_hist_w /\
  first_doff (snd (run_hhist hfrag_agg (ex_frag false) stale_hist_sw)) = Some 149%Z /\
  first_doff (snd (run_hhist hfrag_agg (ex_frag false) stale_hist_w)) = Some 149%Z /\
  first_doff (snd (run_hhist hfrag_agg_stale (ex_frag false) stale_hist_w)) = Some 149%Z /\
  first_doff (snd (run_hhist hfrag_agg_stale (ex_frag false) stale_hist_sw)) = Some 133%Z.
Proof. split; [reflexivity|]. repeat split; vm_compute; reflexivity. Qed.
