(* C03VseProofs.v — DecodeVisualSampleEntry (readBoxBody, then the SR decoder on a private reader over the body) vs
   DecodeVisualSampleEntrySR (on the caller's reader) on canonical sample entries: 78 fixed bytes with a compressor-name
   length <= 31, then canonical children.  Both accept with the same value; Size() = 8 + len payload. *)
From V.lib Require Import Base.
From V.c04 Require Import C04Model C04ReaderProofs C04ContainerProofs.
From V.c03 Require Import C03Model C03Spec C03CanonProofs C03LeafModel C03LeafProofs C03LeafBoxProofs C03StsdProofs.
Open Scope Z_scope.

(* ---------------------------------------------------------------- in-bounds steps: private reader and the same bytes in a buffer *)
Lemma skip_in n s : rerr s = false -> 0 <= rpos s -> 0 <= n -> rpos s + n <= rlen s -> rlen s < two63 ->
  skip_bytes n s = with_pos s (rpos s + n) /\
  forall pre post, zlen (pre ++ rbuf s ++ post) < two63 ->
    skip_bytes n (fr pre post s) = fr pre post (with_pos s (rpos s + n)).
Proof.
  intros He Hp Hn Hl Hb. split.
  - unfold skip_bytes. rewrite He. rewrite w64_id by (unfold two63 in *; lia).
    replace (rpos s + n >? rlen s) with false by lia. reflexivity.
  - intros pre post Hs. unfold skip_bytes, fr, rlen, with_pos. cbn [rerr rpos rbuf]. rewrite He.
    rewrite !zlen_app in *. pose proof (zlen_nonneg pre). pose proof (zlen_nonneg post). unfold rlen in *.
    rewrite w64_id by (unfold two63 in *; lia).
    replace (zlen pre + rpos s + n >? zlen pre + (zlen (rbuf s) + zlen post)) with false by lia.
    f_equal. lia.
Qed.

Lemma rstr_in n s : rerr s = false -> 0 <= rpos s -> 0 <= n -> rpos s + n <= rlen s -> rlen s < two63 ->
  exists v, read_fixed_string n s = Ok (v, with_pos s (rpos s + n)) /\
  forall pre post, zlen (pre ++ rbuf s ++ post) < two63 ->
    read_fixed_string n (fr pre post s) = Ok (v, fr pre post (with_pos s (rpos s + n))).
Proof.
  intros He Hp Hn Hl Hb.
  destruct (gslice_ok (rbuf s) (rpos s) (rpos s + n)) as [l Hg]; try (unfold rlen in *; lia).
  exists l. split.
  - unfold read_fixed_string. rewrite He. rewrite !w64_id by (unfold two63 in *; lia).
    replace (rpos s >? rlen s - n) with false by lia. rewrite Hg. reflexivity.
  - intros pre post Hs. unfold read_fixed_string, fr, rlen, with_pos. cbn [rerr rpos rbuf]. rewrite He.
    rewrite !zlen_app in *. pose proof (zlen_nonneg pre). pose proof (zlen_nonneg post). unfold rlen in *.
    rewrite !w64_id by (unfold two63 in *; lia).
    replace (zlen pre + rpos s >? zlen pre + (zlen (rbuf s) + zlen post) - n) with false by lia.
    replace (zlen pre + rpos s + n) with (zlen pre + (rpos s + n)) by lia.
    rewrite gslice_frame by lia. rewrite Hg. reflexivity.
Qed.

(* the state of the private reader over p at position q *)
Definition at_ (p : list N) (q : Z) : rstate := mkR p q false.

Lemma skip_at p q n : 0 <= q -> 0 <= n -> q + n <= zlen p -> zlen p < two63 ->
  skip_bytes n (at_ p q) = at_ p (q + n) /\
  forall pre post, zlen (pre ++ p ++ post) < two63 -> skip_bytes n (fr pre post (at_ p q)) = fr pre post (at_ p (q + n)).
Proof. intros. apply (skip_in n (at_ p q)); try assumption; reflexivity. Qed.

Lemma rfix_at p q k : 0 <= q -> 0 <= k -> q + k <= zlen p ->
  exists l, gslice p q (q + k) = Ok l /\ read_fixed k (at_ p q) = Ok (be l 0, at_ p (q + k)) /\
  forall pre post, read_fixed k (fr pre post (at_ p q)) = Ok (be l 0, fr pre post (at_ p (q + k))).
Proof.
  intros Hq Hk Hl.
  destruct (read_fixed_in2 k (at_ p q) eq_refl Hq Hk Hl) as [l [G F]]. exists l. split; [exact G|]. split; [|exact F].
  unfold read_fixed, at_. cbn [rerr rpos rbuf rlen]. unfold rlen. cbn [rbuf]. replace (q >? zlen p - k) with false by lia.
  cbn [at_ rbuf rpos] in G. rewrite G. reflexivity.
Qed.

Lemma rstr_at p q n : 0 <= q -> 0 <= n -> q + n <= zlen p -> zlen p < two63 ->
  exists v, read_fixed_string n (at_ p q) = Ok (v, at_ p (q + n)) /\
  forall pre post, zlen (pre ++ p ++ post) < two63 -> read_fixed_string n (fr pre post (at_ p q)) = Ok (v, fr pre post (at_ p (q + n))).
Proof. intros. apply (rstr_in n (at_ p q)); try assumption; reflexivity. Qed.

(* ---------------------------------------------------------------- the 78 fixed bytes *)
Lemma vse_fixed_agree p cnl : 78 <= zlen p -> zlen p < two63 -> gslice p 42 43 = Ok [cnl] -> (cnl <= 31)%N ->
  exists v, vs_kids v = [] /\ vse_fixed (at_ p 0) = Ok (v, at_ p 78) /\
  forall pre post, zlen (pre ++ p ++ post) < two63 -> vse_fixed (fr pre post (at_ p 0)) = Ok (v, fr pre post (at_ p 78)).
Proof.
  intros Hlen Hb Hc Hc31. unfold vse_fixed.
  destruct (skip_at p 0 6) as [S1 S1f]; try lia.
  destruct (rfix_at p (0 + 6) 2) as [l1 [_ [R1 R1f]]]; try lia.
  destruct (skip_at p (0 + 6 + 2) 4) as [S2 S2f]; try lia.
  destruct (skip_at p (0 + 6 + 2 + 4) 12) as [S3 S3f]; try lia.
  destruct (rfix_at p (0 + 6 + 2 + 4 + 12) 2) as [l2 [_ [R2 R2f]]]; try lia.
  destruct (rfix_at p (0 + 6 + 2 + 4 + 12 + 2) 2) as [l3 [_ [R3 R3f]]]; try lia.
  destruct (rfix_at p (0 + 6 + 2 + 4 + 12 + 2 + 2) 4) as [l4 [_ [R4 R4f]]]; try lia.
  destruct (rfix_at p (0 + 6 + 2 + 4 + 12 + 2 + 2 + 4) 4) as [l5 [_ [R5 R5f]]]; try lia.
  destruct (rfix_at p (0 + 6 + 2 + 4 + 12 + 2 + 2 + 4 + 4) 4) as [l6 [_ [R6 R6f]]]; try lia.
  destruct (rfix_at p (0 + 6 + 2 + 4 + 12 + 2 + 2 + 4 + 4 + 4) 2) as [l7 [_ [R7 R7f]]]; try lia.
  destruct (rfix_at p (0 + 6 + 2 + 4 + 12 + 2 + 2 + 4 + 4 + 4 + 2) 1) as [l8 [G8 [R8 R8f]]]; try lia.
  change (0 + 6 + 2 + 4 + 12 + 2 + 2 + 4 + 4 + 4 + 2) with 42 in G8. change (42 + 1) with 43 in G8.
  rewrite Hc in G8. inversion G8. subst l8.
  assert (Hbe : be [cnl] 0 = cnl) by (cbn [be]; lia). rewrite Hbe in R8, R8f.
  assert (Hcz : 0 <= Z.of_N cnl <= 31) by lia.
  destruct (rstr_at p (0 + 6 + 2 + 4 + 12 + 2 + 2 + 4 + 4 + 4 + 2 + 1) (Z.of_N cnl)) as [nm [T1 T1f]]; try lia.
  destruct (skip_at p (0 + 6 + 2 + 4 + 12 + 2 + 2 + 4 + 4 + 4 + 2 + 1 + Z.of_N cnl) (Z.of_N (31 - cnl))) as [S4 S4f]; try lia.
  destruct (skip_at p (0 + 6 + 2 + 4 + 12 + 2 + 2 + 4 + 4 + 4 + 2 + 1 + Z.of_N cnl + Z.of_N (31 - cnl)) 2) as [S5 S5f]; try lia.
  destruct (rfix_at p (0 + 6 + 2 + 4 + 12 + 2 + 2 + 4 + 4 + 4 + 2 + 1 + Z.of_N cnl + Z.of_N (31 - cnl) + 2) 2) as [l9 [_ [R9 R9f]]]; try lia.
  assert (Hend : 0 + 6 + 2 + 4 + 12 + 2 + 2 + 4 + 4 + 4 + 2 + 1 + Z.of_N cnl + Z.of_N (31 - cnl) + 2 + 2 = 78) by lia.
  rewrite Hend in R9, R9f.
  eexists. split; [|split].
  2:{ rewrite S1, R1. cbn [rbind]. rewrite S2, S3, R2. cbn [rbind]. rewrite R3. cbn [rbind]. rewrite R4. cbn [rbind]. rewrite R5. cbn [rbind].
      rewrite R6. cbn [rbind]. rewrite R7. cbn [rbind]. rewrite R8. cbn [rbind].
      replace (31 <? cnl)%N with false by lia. rewrite T1. cbn [rbind]. rewrite S4, S5, R9. cbn [rbind]. reflexivity. }
  - reflexivity.
  - intros pre post Hs.
    rewrite (S1f pre post Hs), R1f. cbn [rbind]. rewrite (S2f pre post Hs), (S3f pre post Hs), R2f. cbn [rbind].
    rewrite R3f. cbn [rbind]. rewrite R4f. cbn [rbind]. rewrite R5f. cbn [rbind].
    rewrite R6f. cbn [rbind]. rewrite R7f. cbn [rbind]. rewrite R8f. cbn [rbind].
    replace (31 <? cnl)%N with false by lia. rewrite (T1f pre post Hs). cbn [rbind].
    rewrite (S4f pre post Hs), (S5f pre post Hs), R9f. cbn [rbind]. reflexivity.
Qed.

(* ---------------------------------------------------------------- the child loop on canonical children *)
Section VSE.
Variable ld : leafdec.
Hypothesis LD : leaf_ok ld.

Lemma vse_kids_canon : forall kids, Forall (cwf ld) kids -> (lenN (cencs kids) < 4294967296)%N ->
  forall fuel pos endPos acc pre post cst,
    zlen (pre ++ cencs kids ++ post) < two63 -> (pos + lenN (cencs kids) < 18446744073709551616)%N ->
    endPos = (pos + lenN (cencs kids))%N ->
    zlen (cencs kids ++ post) + 1 < Z.of_nat fuel ->
    exists cst', vse_kids ld fuel pos endPos acc (sr_at (pre ++ cencs kids ++ post) (zlen pre) cst)
                 = (Ok (rev acc ++ map erase kids), sr_at (pre ++ cencs kids ++ post) (zlen pre + zlen (cencs kids)) cst').
Proof.
  induction kids as [|k rest IH]; intros HW Hl fuel pos endPos acc pre post cst Hs Hp He Hf.
  - destruct fuel as [|f]; [cbn in Hf; pose proof (zlen_nonneg post); lia|].
    subst endPos. cbn [vse_kids cencs map]. replace (pos <? pos + lenN (@nil N))%N with false by (unfold lenN; cbn [length]; lia).
    exists cst. replace (zlen pre + zlen (@nil N)) with (zlen pre) by (unfold zlen; cbn [length]; lia).
    rewrite app_nil_r. reflexivity.
  - pose proof (Forall_inv HW) as HWk. pose proof (Forall_inv_tail HW) as HWr.
    pose proof (cenc_len_ge8 ld k HWk) as Hk8.
    destruct fuel as [|f]; [pose proof (zlen_nonneg (cencs (k :: rest) ++ post)); lia|].
    cbn [vse_kids]. cbn [cencs] in *. rewrite lenN_app in *. subst endPos.
    replace (pos <? pos + (lenN (cenc k) + lenN (cencs rest)))%N with true by lia.
    assert (Hfk : fits k) by (unfold fits; lia).
    assert (Ebuf : pre ++ (cenc k ++ cencs rest) ++ post = pre ++ cenc k ++ (cencs rest ++ post)) by (rewrite <- app_assoc; reflexivity).
    rewrite Ebuf in *.
    destruct (dec_box_sr ld f pos (sr_at (pre ++ cenc k ++ cencs rest ++ post) (zlen pre) cst)) as [rb s1] eqn:Eb.
    destruct (sr_loops ld LD f) as [HB _].
    assert (HI : Inv (sr (sr_at (pre ++ cenc k ++ cencs rest ++ post) (zlen pre) cst))).
    { unfold Inv, sr_at, rlen. cbn [sr rbuf rpos]. rewrite !zlen_app in *. pose proof (zlen_nonneg pre).
      pose proof (zlen_nonneg (cenc k)). pose proof (zlen_nonneg (cencs rest)). pose proof (zlen_nonneg post). lia. }
    destruct (HB pos _ HI) as [rb' [s1' [Eb' [_ [NF _]]]]]. rewrite Eb in Eb'.
    apply pair_equal_spec in Eb'. destruct Eb' as [Er Es]. subst rb' s1'.
    assert (Hno : rb <> OutOfFuel).
    { apply NF. unfold rem, sr_at, rlen. cbn [sr rbuf rpos]. rewrite <- app_assoc in Hf. rewrite !zlen_app in *. lia. }
    destruct (box_canon_sr_all ld k HWk Hfk f pos pre (cencs rest ++ post) cst rb s1) as [Ho|[Ho Hs1]];
      try exact Eb; try lia; try exact Hs; try contradiction.
    subst rb. rewrite (tsize_erase ld k HWk Hfk).
    assert (Hpos' : addu64 pos (lenN (cenc k)) = (pos + lenN (cenc k))%N) by (unfold addu64; rewrite N.mod_small; lia).
    rewrite Hpos'.
    destruct s1 as [r1 c1]. cbn [sr] in Hs1. subst r1.
    assert (Ebuf2 : pre ++ cenc k ++ cencs rest ++ post = (pre ++ cenc k) ++ cencs rest ++ post) by (rewrite <- app_assoc; reflexivity).
    change {| sr := mkR (pre ++ cenc k ++ cencs rest ++ post) (zlen pre + zlen (cenc k)) false; scost := c1 |}
      with (sr_at (pre ++ cenc k ++ cencs rest ++ post) (zlen pre + zlen (cenc k)) c1).
    rewrite Ebuf2. replace (zlen pre + zlen (cenc k)) with (zlen (pre ++ cenc k)) by apply zlen_app.
    destruct (IH HWr ltac:(lia) f (pos + lenN (cenc k))%N (pos + (lenN (cenc k) + lenN (cencs rest)))%N (erase k :: acc) (pre ++ cenc k) post c1)
      as [c' E']; try lia.
    { rewrite <- Ebuf2. exact Hs. }
    { rewrite <- app_assoc in Hf. rewrite zlen_app in Hf. rewrite (zlen_lenN (cenc k)) in Hf. lia. }
    exists c'. rewrite E'. cbn [rev map]. rewrite <- app_assoc. cbn [app]. f_equal. f_equal. rewrite !zlen_app. lia.
Qed.

Variables (nm a b : list N) (cnl : N) (kids : list ctree).
Hypothesis Ha : length a = 42%nat.
Hypothesis Hb : length b = 35%nat.
Hypothesis Hc31 : (cnl <= 31)%N.
Hypothesis HW : Forall (cwf ld) kids.
Let fx : list N := a ++ [cnl] ++ b.
Let p : list N := fx ++ cencs kids.
Hypothesis Hfit : (lenN p < 4294967288)%N.
Let h : hdr := mkH nm (8 + lenN p) 8.

Lemma zlen_fx : zlen fx = 78.
Proof. unfold fx. rewrite !zlen_app. unfold zlen. rewrite Ha, Hb. reflexivity. Qed.
Lemma lenN_p78 : lenN p = (78 + lenN (cencs kids))%N.
Proof. unfold p. rewrite lenN_app. pose proof zlen_fx as H. rewrite zlen_lenN in H. lia. Qed.

Lemma gs42 : gslice p 42 43 = Ok [cnl].
Proof.
  unfold p, fx. pose proof (gslice_mid a [cnl] (b ++ cencs kids)) as G.
  replace (zlen a) with 42 in G by (unfold zlen; rewrite Ha; reflexivity). change (42 + zlen [cnl]) with 43 in G.
  rewrite <- G. f_equal. rewrite <- !app_assoc. reflexivity.
Qed.

Theorem vse_pair_agree_canonical : forall pre post cst cst2 fuel,
  zlen (pre ++ p ++ post) < two63 -> zlen (p ++ post) + 1 < Z.of_nat fuel ->
  exists v, vs_kids v = map erase kids /\ vse_size v = (8 + lenN p)%N /\
    fst (vse_sr ld fuel h 0 (mkS (mkR (pre ++ p ++ post) (zlen pre) false) cst)) = Ok v /\
    fst (vse_r ld fuel h 0 (mkI (pre ++ p ++ post) (lenN pre) cst2)) = Ok v.
Proof.
  intros pre post cst cst2 fuel Hs Hf.
  pose proof lenN_p78 as HL. pose proof zlen_fx as Hfx.
  assert (Hpb : zlen p < two63).
  { rewrite !zlen_app in Hs. pose proof (zlen_nonneg pre). pose proof (zlen_nonneg post). lia. }
  assert (Hp78 : 78 <= zlen p) by (rewrite zlen_lenN; lia).
  destruct (vse_fixed_agree p cnl Hp78 Hpb gs42 Hc31) as [v0 [K0 [F0 Ff]]].
  set (v := mkVse (vs_dri v0) (vs_width v0) (vs_height v0) (vs_hres v0) (vs_vres v0) (vs_frames v0) (vs_cname v0) (map erase kids)).
  exists v. split; [reflexivity|]. split.
  { unfold vse_size, v. cbn [vs_kids]. rewrite (sum_sizes_erase ld) by (exact HW || lia). lia. }
  assert (Hend : addu64 (addu64 0 (hlen h)) (u64z (payload_len h)) = (86 + lenN (cencs kids))%N).
  { unfold h. cbn [hlen]. rewrite payload_len_canon by lia. unfold u64z, two64. rewrite Z.mod_small by lia.
    rewrite N2Z.id. unfold addu64. rewrite !N.mod_small by lia. lia. }
  split.
  - (* the caller's reader *)
    unfold vse_sr. cbn [sr scost].
    assert (Hfr0 : mkR (pre ++ p ++ post) (zlen pre) false = fr pre post (at_ p 0)).
    { unfold fr, at_. cbn [rbuf rpos rerr]. f_equal. lia. }
    rewrite Hfr0, (Ff pre post Hs). rewrite Hend. change (addu64 0 86) with 86%N.
    assert (Est : {| sr := fr pre post (at_ p 78); scost := cst |} = sr_at ((pre ++ fx) ++ cencs kids ++ post) (zlen (pre ++ fx)) cst).
    { unfold sr_at, fr, at_, p. cbn [rbuf rpos rerr]. f_equal. f_equal; [rewrite <- !app_assoc; reflexivity|rewrite zlen_app; lia]. }
    rewrite Est.
    destruct (vse_kids_canon kids HW ltac:(lia) fuel 86%N (86 + lenN (cencs kids))%N [] (pre ++ fx) post cst) as [c' E']; try lia.
    { replace ((pre ++ fx) ++ cencs kids ++ post) with (pre ++ p ++ post) by (unfold p; rewrite <- !app_assoc; reflexivity). exact Hs. }
    { unfold p in Hf. rewrite <- app_assoc in Hf. rewrite zlen_app in Hf. lia. }
    rewrite E'. reflexivity.
  - (* the reader path: the body, then the same decoder on a private reader *)
    unfold vse_r. destruct (read_box_body_canon nm p pre post cst2 Hs Hfit) as [c2 HB]. fold h in HB. rewrite HB. cbn [fst].
    unfold vse_sr. cbn [sr scost icost]. change (rnew p) with (at_ p 0). rewrite F0. rewrite Hend. change (addu64 0 86) with 86%N.
    assert (Est : {| sr := at_ p 78; scost := c2 |} = sr_at (fx ++ cencs kids ++ []) (zlen fx) c2).
    { unfold sr_at, at_, p. rewrite app_nil_r. rewrite Hfx. reflexivity. }
    rewrite Est.
    destruct (vse_kids_canon kids HW ltac:(lia) fuel 86%N (86 + lenN (cencs kids))%N [] fx [] c2) as [c' E']; try lia.
    { rewrite app_nil_r. fold p. exact Hpb. }
    { rewrite app_nil_r. unfold p in Hf. rewrite <- app_assoc in Hf. rewrite !zlen_app in Hf. pose proof (zlen_nonneg post). lia. }
    rewrite E'. reflexivity.
Qed.
End VSE.
