(* C03DelegateProofs.v — soundness of the delegation pattern used by the ~125 reader-path decoders that read the box body and
   hand a private FixedSliceReader over it to their SR twin: for every SR decoder that only uses position-relative reads
   (local_prog), a run over the private body reader that ends without accumulated error returns the same value as the run on
   the caller's reader in which the body sits anywhere, and that run stops at the same relative position without error.
   (The decoders that used RemainingBytes / LookAhead past the box - colr, dac3/dec3, meta: findings C03-F3..F5 - are exactly
   the non-local ones.) *)
From V.lib Require Import Base.
From V.c04 Require Import C04Model C04ReaderProofs C04ContainerProofs.
From V.c03 Require Import C03Model C03Spec C03CanonProofs C03LeafModel C03LeafProofs C03LeafBoxProofs C03StsdProofs C03VseProofs.
Open Scope Z_scope.

Lemma read_fixed_noerr k s v s1 : Inv s -> 0 <= k -> read_fixed k s = Ok (v, s1) -> rerr s1 = false ->
  Inv s1 /\ rbuf s1 = rbuf s /\ forall pre post, read_fixed k (fr pre post s) = Ok (v, fr pre post s1).
Proof.
  intros [[HI1 HI2] HI3] Hk E He. unfold read_fixed in E. destruct (rerr s) eqn:Ee.
  { inversion E; subst. congruence. }
  destruct (rpos s >? rlen s - k) eqn:Eb.
  { inversion E; subst. cbn in He. discriminate. }
  destruct (read_fixed_in k s Ee HI1 Hk ltac:(lia)) as [v' [E1 F1]].
  unfold read_fixed in E1. rewrite Ee, Eb in E1. rewrite E1 in E. inversion E; subst v' s1.
  split; [|split; [reflexivity|exact F1]]. unfold Inv, with_pos, rlen in *. cbn [rpos rbuf]. lia.
Qed.

Lemma read_bytes_noerr n s v s1 : Inv s -> read_bytes n s = Ok (v, s1) -> rerr s1 = false ->
  Inv s1 /\ rbuf s1 = rbuf s /\ forall pre post, read_bytes n (fr pre post s) = Ok (v, fr pre post s1).
Proof.
  intros [[HI1 HI2] HI3] E He. unfold read_bytes in E. destruct (n <? 0) eqn:En.
  { inversion E; subst. cbn in He. discriminate. }
  destruct (rerr s) eqn:Ee.
  { inversion E; subst. congruence. }
  destruct (rpos s >? rlen s - n) eqn:Eb.
  { inversion E; subst. cbn in He. discriminate. }
  destruct (read_bytes_in n s Ee HI1 ltac:(lia) ltac:(lia)) as [l [_ [E1 F1]]].
  unfold read_bytes in E1. rewrite En, Ee, Eb in E1. rewrite E1 in E. inversion E; subst l s1.
  split; [|split; [reflexivity|exact F1]]. unfold Inv, with_pos, rlen in *. cbn [rpos rbuf]. lia.
Qed.

Definition two62 : Z := 4611686018427387904.

Lemma read_str_noerr n s v s1 : Inv s -> 0 <= n < two62 -> read_fixed_string n s = Ok (v, s1) -> rerr s1 = false ->
  Inv s1 /\ rbuf s1 = rbuf s /\ forall pre post, zlen (pre ++ rbuf s ++ post) < two63 -> read_fixed_string n (fr pre post s) = Ok (v, fr pre post s1).
Proof.
  intros [[HI1 HI2] HI3] Hn E He. pose proof E as E0. unfold read_fixed_string in E. destruct (rerr s) eqn:Ee.
  { inversion E; subst. congruence. }
  destruct (Z_lt_le_dec (rlen s) (rpos s + n)) as [Hout|Hin].
  - rewrite (w64_id (rlen s - n)) in E by (unfold two63, two62 in *; lia).
    replace (rpos s >? rlen s - n) with true in E by lia. inversion E; subst. cbn in He. discriminate.
  - destruct (rstr_in n s Ee HI1 ltac:(lia) Hin HI3) as [v' [E1 F1]]. rewrite E1 in E0. inversion E0; subst v' s1.
    split; [|split; [reflexivity|exact F1]]. unfold Inv, with_pos, rlen in *. cbn [rpos rbuf]. lia.
Qed.

Lemma skip_noerr n s : Inv s -> rlen s < two62 -> 0 <= n < two62 -> rerr (skip_bytes n s) = false ->
  Inv (skip_bytes n s) /\ rbuf (skip_bytes n s) = rbuf s /\
  forall pre post, zlen (pre ++ rbuf s ++ post) < two63 -> skip_bytes n (fr pre post s) = fr pre post (skip_bytes n s).
Proof.
  intros [[HI1 HI2] HI3] H62 Hn He. unfold skip_bytes in He |- *. destruct (rerr s) eqn:Ee; [congruence|].
  destruct (Z_lt_le_dec (rlen s) (rpos s + n)) as [Hout|Hin].
  - rewrite w64_id in * by (unfold two63, two62 in *; lia). replace (rpos s + n >? rlen s) with true in * by lia. cbn in He. discriminate.
  - destruct (skip_in n s Ee HI1 ltac:(lia) Hin HI3) as [E1 F1]. unfold skip_bytes in E1. rewrite Ee in E1. rewrite E1.
    split; [unfold Inv, with_pos, rlen in *; cbn [rpos rbuf]; lia|]. split; [reflexivity|].
    intros pre post Hs. specialize (F1 pre post Hs). unfold skip_bytes in F1. exact F1.
Qed.

(* ---------------------------------------------------------------- one operation *)
Lemma rstep_frame o s v s1 : local_op o = true -> Inv s -> rlen s < two62 -> rstep s o = Ok (v, s1) -> rerr s1 = false ->
  Inv s1 /\ rbuf s1 = rbuf s /\
  forall pre post, zlen (pre ++ rbuf s ++ post) < two63 -> rstep (fr pre post s) o = Ok (v, fr pre post s1).
Proof.
  intros Hl HI H62 E He.
  assert (RF : forall k (w : N -> rval), 0 <= k -> (do r <- read_fixed k s; Ok (w (fst r), snd r)) = Ok (v, s1) ->
               Inv s1 /\ rbuf s1 = rbuf s /\
               forall pre post, zlen (pre ++ rbuf s ++ post) < two63 ->
                 (do r <- read_fixed k (fr pre post s); Ok (w (fst r), snd r)) = Ok (v, fr pre post s1)).
  { intros k w Hk E'. destruct (read_fixed k s) as [[x s2]| | |] eqn:Er; cbn [rbind fst snd] in E'; try discriminate.
    inversion E'; subst v s1. destruct (read_fixed_noerr k s x s2 HI Hk Er He) as [I1 [B1 F1]].
    split; [exact I1|]. split; [exact B1|]. intros pre post _. rewrite F1. reflexivity. }
  destruct o; cbn [local_op] in Hl; try discriminate; cbn [rstep] in E |- *.
  - exact (RF 1 VN ltac:(lia) E).
  - exact (RF 2 VN ltac:(lia) E).
  - exact (RF 2 (fun x => VZ (to_signed 16 x)) ltac:(lia) E).
  - exact (RF 3 VN ltac:(lia) E).
  - exact (RF 4 VN ltac:(lia) E).
  - exact (RF 4 (fun x => VZ (to_signed 32 x)) ltac:(lia) E).
  - exact (RF 8 VN ltac:(lia) E).
  - exact (RF 8 (fun x => VZ (to_signed 64 x)) ltac:(lia) E).
  - (* RFixedStr *)
    apply andb_prop in Hl. destruct Hl as [Hn1 Hn2].
    destruct (read_fixed_string n s) as [[x s2]| | |] eqn:Er; cbn [rbind fst snd] in E; try discriminate.
    inversion E; subst v s1. destruct (read_str_noerr n s x s2 HI ltac:(unfold two62; lia) Er He) as [I1 [B1 F1]].
    split; [exact I1|]. split; [exact B1|]. intros pre post Hs. rewrite (F1 pre post Hs). reflexivity.
  - (* RBytes *)
    destruct (read_bytes n s) as [[x s2]| | |] eqn:Er; cbn [rbind fst snd] in E; try discriminate.
    inversion E; subst v s1. destruct (read_bytes_noerr n s x s2 HI Er He) as [I1 [B1 F1]].
    split; [exact I1|]. split; [exact B1|]. intros pre post _. rewrite F1. reflexivity.
  - (* RSkip *)
    apply andb_prop in Hl. destruct Hl as [Hn1 Hn2]. inversion E; subst v s1.
    destruct (skip_noerr n s HI H62 ltac:(unfold two62; lia) He) as [I1 [B1 F1]].
    split; [exact I1|]. split; [exact B1|]. intros pre post Hs. rewrite (F1 pre post Hs). reflexivity.
  - (* RAccError *)
    inversion E; subst v s1. split; [exact HI|]. split; [reflexivity|]. intros pre post _. reflexivity.
Qed.

(* the accumulated error is sticky *)
Lemma rstep_err_sticky o s v s1 : local_op o = true -> rstep s o = Ok (v, s1) -> rerr s = true -> rerr s1 = true.
Proof.
  intros Hl E He.
  assert (RF : forall k (w : N -> rval), (do r <- read_fixed k s; Ok (w (fst r), snd r)) = Ok (v, s1) -> rerr s1 = true).
  { intros k w E'. unfold read_fixed in E'. rewrite He in E'. cbn [rbind fst snd] in E'. inversion E'; subst. exact He. }
  destruct o; cbn [local_op] in Hl; try discriminate; cbn [rstep] in E.
  - exact (RF 1 VN E).
  - exact (RF 2 VN E).
  - exact (RF 2 (fun x => VZ (to_signed 16 x)) E).
  - exact (RF 3 VN E).
  - exact (RF 4 VN E).
  - exact (RF 4 (fun x => VZ (to_signed 32 x)) E).
  - exact (RF 8 VN E).
  - exact (RF 8 (fun x => VZ (to_signed 64 x)) E).
  - unfold read_fixed_string in E. rewrite He in E. cbn [rbind fst snd] in E. inversion E; subst. exact He.
  - unfold read_bytes in E. destruct (n <? 0); [cbn [rbind fst snd] in E; inversion E; subst; reflexivity|].
    rewrite He in E. cbn [rbind fst snd] in E. inversion E; subst. exact He.
  - inversion E; subst. unfold skip_bytes. rewrite He. exact He.
  - inversion E; subst. exact He.
Qed.

Lemma run_err_sticky {A} : forall (p : sprog A) s a s', local_prog p -> run_sprog p s = Ok (a, s') -> rerr s = true -> rerr s' = true.
Proof.
  induction p as [a0| |o k IH]; intros s a s' Hl E He; cbn [run_sprog] in E.
  - inversion E; subst. exact He.
  - discriminate.
  - destruct Hl as [Ho Hk]. destruct (rstep s o) as [[v s1]| | |] eqn:Er; cbn [rbind] in E; try discriminate.
    apply (IH v s1 a s' (Hk v) E). apply (rstep_err_sticky o s v s1 Ho Er He).
Qed.

(* ---------------------------------------------------------------- the delegation pattern *)
Theorem delegate_sound_at : forall A (p : sprog A), local_prog p -> forall s a s', Inv s -> rlen s < two62 ->
  run_sprog p s = Ok (a, s') -> rerr s' = false ->
  rbuf s' = rbuf s /\
  forall pre post, zlen (pre ++ rbuf s ++ post) < two63 ->
    run_sprog p (fr pre post s) = Ok (a, fr pre post s').
Proof.
  induction p as [a0| |o k IH]; intros Hl s a s' HI H62 E He; cbn [run_sprog] in E |- *.
  - inversion E; subst. split; reflexivity.
  - discriminate.
  - destruct Hl as [Ho Hk]. destruct (rstep s o) as [[v s1]| | |] eqn:Er; cbn [rbind] in E; try discriminate.
    assert (He1 : rerr s1 = false).
    { destruct (rerr s1) eqn:X; [|reflexivity]. rewrite (run_err_sticky (k v) s1 a s' (Hk v) E X) in He. discriminate. }
    destruct (rstep_frame o s v s1 Ho HI H62 Er He1) as [I1 [B1 F1]].
    assert (H62' : rlen s1 < two62) by (unfold rlen in *; rewrite B1; exact H62).
    destruct (IH v (Hk v) s1 a s' I1 H62' E He) as [B2 F2].
    split; [congruence|]. intros pre post Hs. cbn [run_sprog]. rewrite (F1 pre post Hs). cbn [rbind].
    apply F2. rewrite B1. exact Hs.
Qed.

(* reader path: readBoxBody delivered `body`, the SR decoder runs on NewFixedSliceReader(body) and ends without error;
   SR path: the same decoder on the caller's reader positioned at the body *)
Theorem delegate_sound : forall A (p : sprog A) body a s', local_prog p -> zlen body < two62 ->
  run_sprog p (rnew body) = Ok (a, s') -> rerr s' = false ->
  forall pre post, zlen (pre ++ body ++ post) < two63 ->
    run_sprog p (mkR (pre ++ body ++ post) (zlen pre) false)
    = Ok (a, mkR (pre ++ body ++ post) (zlen pre + rpos s') false).
Proof.
  intros A p body a s' Hl Hb E He pre post Hs.
  assert (HI : Inv (rnew body)).
  { unfold Inv, rnew, rlen. cbn [rpos rbuf]. pose proof (zlen_nonneg body). unfold two62, two63 in *. lia. }
  destruct (delegate_sound_at A p Hl (rnew body) a s' HI Hb E He) as [B F].
  assert (Hfr0 : mkR (pre ++ body ++ post) (zlen pre) false = fr pre post (rnew body)).
  { unfold fr, rnew. cbn [rbuf rpos rerr]. f_equal. lia. }
  rewrite Hfr0, (F pre post Hs). unfold fr. rewrite B, He. reflexivity.
Qed.

(* ---------------------------------------------------------------- reader programs: the pair in the form the decoders use it *)
Theorem prog_pair_agree : forall A (p : sprog A) (consult : bool) body a s', local_prog p -> zlen body < two62 ->
  run_sprog p (rnew body) = Ok (a, s') -> rerr s' = false ->
  forall pre post, zlen (pre ++ body ++ post) < two63 ->
    prog_body_r consult p body = Ok a /\
    prog_sr p (mkR (pre ++ body ++ post) (zlen pre) false) = Ok (a, mkR (pre ++ body ++ post) (zlen pre + rpos s') false).
Proof.
  intros A p consult body a s' Hl Hb E He pre post Hs. split.
  - unfold prog_body_r. rewrite E. cbn [rbind]. rewrite He, andb_false_r. reflexivity.
  - unfold prog_sr. rewrite (delegate_sound A p body a s' Hl Hb E He pre post Hs). cbn [rbind rerr]. reflexivity.
Qed.

Lemma mfhd_local : local_prog mfhd_prog_sr.
Proof. split; [reflexivity|]. intros v. split; [reflexivity|]. intros w. exact I. Qed.

Lemma tfdt_local : local_prog tfdt_prog_sr.
Proof.
  split; [reflexivity|]. intros v. destruct (vN v / 16777216 =? 0)%N; (split; [reflexivity|]); intros w; exact I.
Qed.

Lemma opt_read_local present o k : local_op o = true -> (forall x, local_prog (k x)) -> local_prog (opt_read present o k).
Proof. intros Ho Hk. unfold opt_read. destruct present; [split; [exact Ho|intros v; apply Hk]|apply Hk]. Qed.

Lemma tfhd_local : local_prog tfhd_prog.
Proof.
  split; [reflexivity|]. intros vf. split; [reflexivity|]. intros tid.
  apply opt_read_local; [reflexivity|]. intros bdo. apply opt_read_local; [reflexivity|]. intros sdi.
  apply opt_read_local; [reflexivity|]. intros dur. apply opt_read_local; [reflexivity|]. intros dsz.
  apply opt_read_local; [reflexivity|]. intros dfl. exact I.
Qed.

(* mfhd: the two separately written decoders agree on every body of at least 8 bytes (shorter bodies: DecodeMfhd returns a box with
   zeros because it does not consult its reader's error, DecodeMfhdSR fails or reads on; such a box is never reproduced) *)
Theorem mfhd_pair_agree : forall body pre post, 8 <= zlen body < two62 -> zlen (pre ++ body ++ post) < two63 ->
  exists a, prog_body_r false mfhd_prog_r body = Ok a /\
            prog_sr mfhd_prog_sr (mkR (pre ++ body ++ post) (zlen pre) false) = Ok (a, mkR (pre ++ body ++ post) (zlen pre + 8) false).
Proof.
  intros body pre post Hb Hs.
  assert (L0 : rlen (rnew body) = zlen body) by reflexivity.
  destruct (read_fixed_in 4 (rnew body) eq_refl ltac:(cbn; lia) ltac:(lia) ltac:(rewrite L0; cbn [rnew rpos]; lia)) as [v1 [E1 _]].
  set (s1 := with_pos (rnew body) (rpos (rnew body) + 4)) in *.
  destruct (read_fixed_in 4 s1 eq_refl ltac:(cbn; lia) ltac:(lia) ltac:(unfold rlen; cbn; lia)) as [v2 [E2 _]].
  set (s2 := with_pos s1 (rpos s1 + 4)) in *.
  assert (E : run_sprog mfhd_prog_sr (rnew body) = Ok ([v1 / 16777216; N.land v1 flags_mask; v2]%N, s2)).
  { unfold mfhd_prog_sr. cbn [run_sprog rstep]. rewrite E1. cbn [rbind fst snd]. rewrite E2. cbn [rbind fst snd vN]. reflexivity. }
  eexists. change mfhd_prog_r with mfhd_prog_sr.
  apply (prog_pair_agree _ mfhd_prog_sr false body _ s2 mfhd_local ltac:(lia) E eq_refl pre post Hs).
Qed.
