(* C03StsdProofs.v — the separately written pair DecodeStsd / DecodeStsdSR on canonical stsd payloads
   (version/flags, entry count, canonical sample entries): both accept, with the same decoded value, and consume exactly
   the payload.  The sample entries are decoded by any leaf decoder pair satisfying the C04 leaf contract. *)
From V.lib Require Import Base.
From V.c04 Require Import C04Model C04ReaderProofs C04ContainerProofs.
From V.c03 Require Import C03Model C03Spec C03CanonProofs C03LeafModel.
Open Scope Z_scope.

Lemma read_full_mid4 pre x post cst : length x = 4%nat ->
  read_full 4 (mkI (pre ++ x ++ post) (lenN pre) cst) = (RFOk x, mkI (pre ++ x ++ post) (lenN pre + 4) cst).
Proof.
  intros Hx. unfold read_full, iavail. cbn [ibuf ipos icost].
  assert (A : (lenN (pre ++ x ++ post) - lenN pre = 4 + lenN post)%N) by (rewrite !lenN_app; unfold lenN; rewrite Hx; lia).
  rewrite A. replace (4 + lenN post =? 0)%N with false by lia. replace (4 + lenN post <? 4)%N with false by lia.
  f_equal. f_equal. unfold lenN. rewrite Nat2N.id. change (N.to_nat 4) with 4%nat. rewrite <- Hx. apply firstn_skipn_mid.
Qed.

Lemma all_canon_sr ld : forall kids, Forall (fun c => cwf ld c -> fits c -> box_canon_sr ld c) kids.
Proof. induction kids as [|k r IH]; constructor; [intros; apply box_canon_sr_all; assumption|exact IH]. Qed.
Lemma all_canon_r ld : forall kids, Forall (fun c => cwf ld c -> fits c -> box_canon_r ld c) kids.
Proof. induction kids as [|k r IH]; constructor; [intros; apply box_canon_r_all; assumption|exact IH]. Qed.

Lemma sum_sizes_erase ld : forall kids acc, Forall (cwf ld) kids -> (acc + lenN (cencs kids) < 4294967296)%N ->
  sum_sizes (map erase kids) acc = (acc + lenN (cencs kids))%N.
Proof.
  induction kids as [|k r IH]; intros acc HW Hl.
  - cbn [map sum_sizes cencs]. unfold lenN. cbn [length]. lia.
  - inversion HW; subst. cbn [map sum_sizes cencs] in *. rewrite lenN_app in *.
    rewrite (tsize_erase ld k) by (assumption || unfold fits; lia).
    unfold addu64. rewrite N.mod_small by lia. rewrite IH by (assumption || lia). lia.
Qed.

Section STSD.
Variable ld : leafdec.
Hypothesis LD : leaf_ok ld.
Variables (nm : list N) (vf cnt : N) (kids : list ctree).
Hypothesis Hvf : (vf < 4294967296)%N.
Hypothesis Hcnt : lenN kids = cnt.
Hypothesis HW : Forall (cwf ld) kids.
Let p : list N := be4 vf ++ be4 cnt ++ cencs kids.
Hypothesis Hfit : (lenN p < 4294967288)%N.
Let h : hdr := mkH nm (8 + lenN p) 8.

Lemma lenN_p : lenN p = (8 + lenN (cencs kids))%N.
Proof. unfold p. rewrite !lenN_app. assert (lenN (be4 vf) = 4%N) by reflexivity. assert (lenN (be4 cnt) = 4%N) by reflexivity. lia. Qed.

Lemma cnt32 : (cnt < 4294967296)%N.
Proof.
  pose proof lenN_p. assert (lenN kids <= lenN (cencs kids))%N; [|lia].
  clear - HW. induction HW as [|k r Hk Hr IH]; [unfold lenN; cbn; lia|].
  cbn [cencs]. rewrite lenN_app, lenN_cons. pose proof (cenc_len_ge8 ld k Hk). lia.
Qed.

Definition stsd_val : stsd := mkStsd (vf / 16777216) (N.land vf flags_mask) cnt (map erase kids).

Lemma finish_ok : stsd_finish vf cnt (map erase kids) = Ok stsd_val.
Proof.
  unfold stsd_finish, stsd_val. assert (E : lenN (map erase kids) = cnt) by (unfold lenN in *; rewrite map_length; exact Hcnt).
  rewrite E. rewrite N.eqb_refl. cbn [negb]. rewrite N.mod_small by exact cnt32. rewrite N.eqb_refl. reflexivity.
Qed.

Lemma stsd_size_val : stsd_size stsd_val = (8 + lenN p)%N.
Proof.
  unfold stsd_size, stsd_val. cbn [sd_kids]. pose proof lenN_p.
  rewrite (sum_sizes_erase ld) by (exact HW || lia). unfold addu64. rewrite N.mod_small by lia. lia.
Qed.

(* DecodeStsdSR on the payload, wherever it sits in the caller's buffer *)
Lemma stsd_sr_canon pre post cst fuel : zlen (pre ++ p ++ post) < two63 ->
  zlen (pre ++ p ++ post) - zlen pre < Z.of_nat fuel ->
  exists cst', stsd_sr ld fuel h 0 (mkS (mkR (pre ++ p ++ post) (zlen pre) false) cst)
               = (Ok stsd_val, mkS (mkR (pre ++ p ++ post) (zlen pre + zlen p) false) cst').
Proof.
  intros Hs Hfuel. unfold stsd_sr. cbn [sr scost].
  assert (E1 : pre ++ p ++ post = pre ++ be4 vf ++ (be4 cnt ++ cencs kids ++ post)) by (unfold p; rewrite <- !app_assoc; reflexivity).
  rewrite E1. rewrite (read_fixed_mid 4 pre (be4 vf) _ eq_refl) by (rewrite <- E1; exact Hs).
  rewrite be_be4 by exact Hvf.
  assert (E2 : pre ++ be4 vf ++ be4 cnt ++ cencs kids ++ post = (pre ++ be4 vf) ++ be4 cnt ++ (cencs kids ++ post)) by (rewrite <- !app_assoc; reflexivity).
  rewrite E2. replace (zlen pre + 4) with (zlen (pre ++ be4 vf)) by (rewrite zlen_app; reflexivity).
  rewrite (read_fixed_mid 4 (pre ++ be4 vf) (be4 cnt) _ eq_refl) by (rewrite <- E2, <- E1; exact Hs).
  rewrite be_be4 by exact cnt32. cbn [rpos].
  assert (E3 : (pre ++ be4 vf) ++ be4 cnt ++ cencs kids ++ post = ((pre ++ be4 vf) ++ be4 cnt) ++ cencs kids ++ post) by (rewrite <- !app_assoc; reflexivity).
  set (pre' := (pre ++ be4 vf) ++ be4 cnt).
  assert (Hp' : zlen (pre ++ be4 vf) + 4 = zlen pre') by (unfold pre'; rewrite (zlen_app _ (be4 cnt)); reflexivity).
  assert (Hp8 : zlen pre' = zlen pre + 8) by (unfold pre'; rewrite !zlen_app; change (zlen (be4 vf)) with 4; change (zlen (be4 cnt)) with 4; lia).
  rewrite E3, Hp'. fold pre'.
  pose proof lenN_p as HLp.
  destruct (children_sr ld fuel (addu64 0 16) (addu64 0 16) (addu64 0 (hsize h)) (zlen pre') []
              {| sr := mkR (pre' ++ cencs kids ++ post) (zlen pre') false; scost := cst |}) as [rk sk] eqn:Ek.
  assert (Hbuf : pre' ++ cencs kids ++ post = pre ++ p ++ post) by (unfold pre'; rewrite <- E3, <- E2, <- E1; reflexivity).
  (* enough fuel *)
  destruct (sr_loops ld LD fuel) as [_ HK].
  assert (HI : Inv (sr {| sr := mkR (pre' ++ cencs kids ++ post) (zlen pre') false; scost := cst |})).
  { unfold Inv, rlen. cbn [sr rbuf rpos]. rewrite Hbuf. rewrite !zlen_app in *. pose proof (zlen_nonneg pre). pose proof (zlen_nonneg post).
    pose proof (zlen_nonneg p). rewrite (zlen_lenN p) in *. lia. }
  destruct (HK (addu64 0 16) (addu64 0 16) (addu64 0 (hsize h)) (zlen pre') [] _ HI) as [rk' [sk' [Ek' [_ [NF _]]]]].
  rewrite Ek in Ek'. apply pair_equal_spec in Ek'. destruct Ek' as [Er Es]. subst rk' sk'.
  assert (Hno : rk <> OutOfFuel).
  { apply NF. unfold rem, rlen. cbn [sr rbuf rpos]. rewrite Hbuf. lia. }
  change (addu64 0 16) with 16%N in Ek. change (hsize h) with (8 + lenN p)%N in Ek.
  assert (Ha : addu64 0 (8 + lenN p) = (16 + lenN (cencs kids))%N) by (unfold addu64; rewrite N.mod_small; lia).
  rewrite Ha in Ek.
  destruct (kids_canon_sr ld kids (all_canon_sr ld kids) HW fuel 16%N 16%N (16 + lenN (cencs kids))%N (zlen pre') [] pre' post cst rk sk)
    as [Ho|[Ho Hsk]]; try exact Ek; try lia; try reflexivity; try (rewrite Hbuf; exact Hs);
    try (pose proof (zlen_nonneg pre'); lia); try (change (16 - 16)%N with 0%N; lia); try contradiction.
  subst rk. cbn [rev app]. destruct sk as [rs cs]. cbn [sr] in Hsk. subst rs. cbn [sr rerr]. rewrite finish_ok.
  exists cs. rewrite Hbuf. f_equal. f_equal. f_equal. rewrite Hp8. rewrite (zlen_lenN p), HLp, (zlen_lenN (cencs kids)). lia.
Qed.

(* DecodeStsd on the payload at any position of the io.Reader *)
Lemma stsd_r_canon pre post cst fuel : zlen (pre ++ p ++ post) < two63 ->
  zlen (pre ++ p ++ post) - zlen pre < Z.of_nat fuel ->
  exists cst', stsd_r ld fuel h 0 (mkI (pre ++ p ++ post) (lenN pre) cst)
               = (Ok stsd_val, mkI (pre ++ p ++ post) (lenN pre + lenN p) cst').
Proof.
  intros Hs Hfuel. unfold stsd_r.
  assert (E1 : pre ++ p ++ post = pre ++ be4 vf ++ (be4 cnt ++ cencs kids ++ post)) by (unfold p; rewrite <- !app_assoc; reflexivity).
  rewrite E1. rewrite read_full_mid4 by reflexivity.
  assert (E2 : pre ++ be4 vf ++ be4 cnt ++ cencs kids ++ post = (pre ++ be4 vf) ++ be4 cnt ++ (cencs kids ++ post)) by (rewrite <- !app_assoc; reflexivity).
  rewrite E2. replace (lenN pre + 4)%N with (lenN (pre ++ be4 vf)) by (rewrite lenN_app; reflexivity).
  rewrite read_full_mid4 by reflexivity.
  rewrite !be_be4 by (exact Hvf || exact cnt32).
  assert (E3 : (pre ++ be4 vf) ++ be4 cnt ++ cencs kids ++ post = ((pre ++ be4 vf) ++ be4 cnt) ++ cencs kids ++ post) by (rewrite <- !app_assoc; reflexivity).
  set (pre' := (pre ++ be4 vf) ++ be4 cnt).
  assert (Hp' : (lenN (pre ++ be4 vf) + 4 = lenN pre')%N) by (unfold pre'; rewrite (lenN_app _ (be4 cnt)); reflexivity).
  assert (Hp8 : (lenN pre' = lenN pre + 8)%N) by (unfold pre'; rewrite !lenN_app; assert (lenN (be4 vf) = 4%N) by reflexivity; assert (lenN (be4 cnt) = 4%N) by reflexivity; lia).
  rewrite E3, Hp'. fold pre'.
  pose proof lenN_p as HLp.
  assert (Hbuf : pre' ++ cencs kids ++ post = pre ++ p ++ post) by (unfold pre'; rewrite <- E3, <- E2, <- E1; reflexivity).
  destruct (children_r ld fuel (addu64 0 16) (addu64 0 (hsize h)) [] (mkI (pre' ++ cencs kids ++ post) (lenN pre') cst)) as [rk sk] eqn:Ek.
  destruct (r_loops ld LD fuel) as [_ HK].
  assert (HI : IInv (mkI (pre' ++ cencs kids ++ post) (lenN pre') cst)).
  { unfold IInv, ip, il. cbn [ibuf ipos]. rewrite Hbuf, Hp8. rewrite <- !zlen_lenN. rewrite !zlen_app in *.
    pose proof (zlen_nonneg post). rewrite (zlen_lenN p) in *. rewrite (zlen_lenN pre) in *. lia. }
  destruct (HK (addu64 0 16) (addu64 0 (hsize h)) [] _ HI) as [rk' [sk' [Ek' [_ [NF _]]]]].
  rewrite Ek in Ek'. apply pair_equal_spec in Ek'. destruct Ek' as [Er Es]. subst rk' sk'.
  assert (Hno : rk <> OutOfFuel).
  { apply NF. unfold irem, ip, il. cbn [ibuf ipos]. rewrite Hbuf, Hp8. rewrite <- !zlen_lenN. rewrite (zlen_lenN pre) in *. lia. }
  change (addu64 0 16) with 16%N in Ek. change (hsize h) with (8 + lenN p)%N in Ek.
  assert (Ha : addu64 0 (8 + lenN p) = (16 + lenN (cencs kids))%N) by (unfold addu64; rewrite N.mod_small; lia).
  rewrite Ha in Ek.
  destruct (kids_canon_r ld kids (all_canon_r ld kids) HW fuel 16%N (16 + lenN (cencs kids))%N [] pre' post cst rk sk)
    as [Ho|[Ho [Hb Hp]]]; try exact Ek; try lia; try reflexivity; try (rewrite Hbuf; exact Hs); try contradiction.
  subst rk. cbn [rev app]. rewrite finish_ok. destruct sk as [bk pk ck]. cbn [ibuf ipos] in Hb, Hp. subst bk pk.
  exists ck. rewrite Hbuf. f_equal. f_equal. lia.
Qed.

(* the pair: same value, both consume exactly the payload; Size() = 8 + len payload *)
Theorem stsd_pair_agree_canonical : forall pre post cst cst2 fuel,
  zlen (pre ++ p ++ post) < two63 -> zlen (pre ++ p ++ post) - zlen pre < Z.of_nat fuel ->
  fst (stsd_sr ld fuel h 0 (mkS (mkR (pre ++ p ++ post) (zlen pre) false) cst)) = Ok stsd_val /\
  fst (stsd_r ld fuel h 0 (mkI (pre ++ p ++ post) (lenN pre) cst2)) = Ok stsd_val /\
  stsd_size stsd_val = (8 + lenN p)%N.
Proof.
  intros pre post cst cst2 fuel Hs Hf.
  destruct (stsd_sr_canon pre post cst fuel Hs Hf) as [c1 E1]. destruct (stsd_r_canon pre post cst2 fuel Hs Hf) as [c2 E2].
  rewrite E1, E2. split; [reflexivity|]. split; [reflexivity|]. exact stsd_size_val.
Qed.
End STSD.
