(* C03SgpdModel.v — the sgpd pair (DEFINITIONS ONLY), mp4/sgpd.go + mp4/samplegroupentries.go of /repo:
     DecodeSgpd   readBoxBody; sr := bits.NewFixedSliceReader(data); return DecodeSgpdSR(hdr, startPos, sr)   (delegating)
     DecodeSgpdSR version/flags word, GroupingType (4 bytes), DefaultLength (v >= 1), DefaultGroupDescriptionIndex (v >= 2), entryCount,
                  `for i := uint32(0); i < entryCount; i++` { descriptionLength (read when v >= 1 and DefaultLength == 0; 0 is an error);
                  decodeSampleGroupEntry(GroupingType, descriptionLength, sr) - a lookup in the table sgeDecoders (seig roll "rap " alst, else
                  the unknown entry) -; entry.Size() != descriptionLength is an error }; return b, sr.AccError()
   The source-fact extractor cannot see through the table sgeDecoders, which is why sgpd was "explored".  Here the SR decoder is written as ONE
   extended reader program (xprog of C03LeafModel.v), the table lookup being a test on the grouping type just read; the entry decoders
   DecodeSeigSampleGroupEntry, DecodeRollSampleGroupEntry, DecodeRapSampleGroupEntry, DecodeUnknownSampleGroupEntry are transcribed with
   their own length tests and their own `return e, sr.AccError()`.
   NOT MODELLED: DecodeAlstSampleGroupEntry.  It calls sr.NrRemainingBytes(), which is NOT position-relative (the caller's reader has more
   bytes left than the private one): the program answers XFail for the grouping type "alst" and the correspondence does not compare such inputs;
   a run that returns a value therefore never went through that branch.
   The loop runs entryCount times (iter_N: recursion on the binary count, no fuel, no out-of-fuel case). *)
From V.lib Require Import Base.
From V.c04 Require Import C04Model.
From V.c03 Require Import C03Model C03LeafModel.
Open Scope N_scope.

Inductive sgentry :=
| SgSeig (crypt skip isprot ivsize : N) (kid civ : list N)   (* SeigSampleGroupEntry; the reserved byte is dropped *)
| SgRoll (dist : Z)                                          (* RollSampleGroupEntry.RollDistance int16 *)
| SgRap (known num : N)                                      (* RapSampleGroupEntry *)
| SgUnknown (data : list N).                                 (* UnknownSampleGroupEntry.Data (Name = the grouping type) *)

(* SampleGroupEntry.Size() *)
Definition sg_entry_size (e : sgentry) : N :=
  match e with
  | SgSeig _ _ ip iv _ civ => if (ip =? 1) && (iv =? 0) then 20 + (1 + lenN civ) else 20
  | SgRoll _ => 2
  | SgRap _ _ => 1
  | SgUnknown d => lenN d
  end.

Record sgpdv := mkSgpd { sg_version : N; sg_flags : N; sg_gt : list N; sg_deflen : N; sg_defidx : N;
                         sg_lens : list N; sg_entries : list sgentry }.

Definition sg_vB (v : rval) : list N := match v with VBytes x => x | _ => [] end.
Definition sg_vZ (v : rval) : Z := match v with VZ x => x | _ => 0%Z end.
Definition sg_vBool (v : rval) : bool := match v with VBool x => x | _ => false end.

Definition sg_name_eqb (a b : list N) : bool := if list_eq_dec N.eq_dec a b then true else false.
Definition name_seig : list N := [115; 101; 105; 103].
Definition name_roll : list N := [114; 111; 108; 108].
Definition name_rap : list N := [114; 97; 112; 32].
Definition name_alst : list N := [97; 108; 115; 116].

(* `return e, sr.AccError()` of an entry decoder; the caller returns on a non-nil error *)
Definition sg_ret {A} (e : sgentry) (k : sgentry -> xprog A) : xprog A :=
  XOp RAccError (fun er => if sg_vBool er then XFail else k e).

(* DecodeSeigSampleGroupEntry: reserved, crypt/skip, IsProtected, PerSampleIVSize, KID = ReadBytes(16),
   `if IsProtected == 1 && PerSampleIVSize == 0 { n := int(ReadUint8()); ConstantIV = ReadBytes(n) }`, `if length != uint32(s.Size())` error *)
Definition seig_prog {A} (len : N) (k : sgentry -> xprog A) : xprog A :=
  XOp RU8 (fun _ => XOp RU8 (fun b2 => XOp RU8 (fun ip => XOp RU8 (fun iv => XOp (RBytes 16) (fun kid =>
    let fin (civ : list N) :=
      let e := SgSeig (vN b2 / 16) (N.land (vN b2) 15) (vN ip) (vN iv) (sg_vB kid) civ in
      if negb (len =? sg_entry_size e mod 4294967296) then XFail else sg_ret e k in
    if (vN ip =? 1) && (vN iv =? 0)
    then XOp RU8 (fun n => XOp (RBytes (Z.of_N (vN n))) (fun civ => fin (sg_vB civ)))
    else fin []))))).

(* DecodeRollSampleGroupEntry: RollDistance = ReadInt16() *)
Definition roll_prog {A} (len : N) (k : sgentry -> xprog A) : xprog A :=
  XOp RI16 (fun d => sg_ret (SgRoll (sg_vZ d)) k).

(* DecodeRapSampleGroupEntry: one byte, NumLeadingSamplesKnown = byt >> 7, NumLeadingSamples = byt & 0x7f *)
Definition rap_prog {A} (len : N) (k : sgentry -> xprog A) : xprog A :=
  XOp RU8 (fun b => sg_ret (SgRap (vN b / 128) (N.land (vN b) 127)) k).

(* DecodeUnknownSampleGroupEntry: Data = ReadBytes(int(length)) *)
Definition unknown_prog {A} (len : N) (k : sgentry -> xprog A) : xprog A :=
  XOp (RBytes (Z.of_N len)) (fun d => sg_ret (SgUnknown (sg_vB d)) k).

(* decodeSampleGroupEntry: `decode, ok := sgeDecoders[name]; if ok { return decode(...) }; return DecodeUnknownSampleGroupEntry(...)` *)
Definition sg_entry_prog {A} (gt : list N) (len : N) (k : sgentry -> xprog A) : xprog A :=
  if sg_name_eqb gt name_seig then seig_prog len k
  else if sg_name_eqb gt name_roll then roll_prog len k
  else if sg_name_eqb gt name_rap then rap_prog len k
  else if sg_name_eqb gt name_alst then XFail          (* not modelled: see the header of this file *)
  else unknown_prog len k.

(* `for i := uint32(0); i < entryCount; i++ { body }`: exactly entryCount iterations of a body in continuation form.  The recursion is on the
   BINARY count (the shape of Pos.iter), so that the extracted program builds nothing for iterations that are never reached (an entry count
   of 2^32-1 in front of a short body fails at the first missing entry, as the Go loop does: every entry decoder returns sr.AccError()). *)
Fixpoint iter_pos {S A} (p : positive) (body : S -> (S -> xprog A) -> xprog A) (st : S) (k : S -> xprog A) : xprog A :=
  match p with
  | xH => body st k
  | xO q => iter_pos q body st (fun st' => iter_pos q body st' k)
  | xI q => body st (fun st' => iter_pos q body st' (fun st'' => iter_pos q body st'' k))
  end.
Definition iter_N {S A} (n : N) (body : S -> (S -> xprog A) -> xprog A) (st : S) (k : S -> xprog A) : xprog A :=
  match n with N0 => k st | Npos p => iter_pos p body st k end.

(* one iteration of the loop of DecodeSgpdSR; state = DescriptionLengths and SampleGroupEntries so far, in reverse *)
Definition sgpd_body (version deflen : N) (gt : list N) (st : list N * list sgentry)
                     (k : list N * list sgentry -> xprog sgpdv) : xprog sgpdv :=
  let body (dl : N) (lens' : list N) :=
    if dl =? 0 then XFail
    else sg_entry_prog gt dl (fun e => if negb (sg_entry_size e =? dl) then XFail else k (lens', e :: snd st)) in
  if (1 <=? version) && (deflen =? 0)
  then XOp RU32 (fun v => body (vN v) (vN v :: fst st))
  else body deflen (fst st).

(* DecodeSgpdSR up to its last statement (`return b, sr.AccError()` is the flag `strict` of xprog_sr / xprog_body_r) *)
Definition sgpd_prog : xprog sgpdv :=
  XOp RU32 (fun vf =>
    let version := vN vf / 16777216 in
    let flags := N.land (vN vf) flags_mask in
    XOp (RFixedStr 4) (fun gt =>
      let rest (deflen defidx : N) :=
        XOp RU32 (fun cnt =>
          iter_N (vN cnt) (sgpd_body version deflen (sg_vB gt)) ([], [])
            (fun st => XRet (mkSgpd version flags (sg_vB gt) deflen defidx (rev (fst st)) (rev (snd st))))) in
      if 1 <=? version then
        XOp RU32 (fun dl => if 2 <=? version then XOp RU32 (fun di => rest (vN dl) (vN di)) else rest (vN dl) 0)
      else rest 0 0)).

(* SgpdBox.Size(): 8 + 4 + 4 + 4 (+ 4 for v >= 1, + 4 for v >= 2); for v >= 1: uint64(entryCount * int(DefaultLength)) when
   DefaultLength != 0, else the sum over DescriptionLengths of uint64(4 + descLen) (a uint32 sum) *)
Definition sgpd_size (v : sgpdv) : N :=
  let base := 20 + (if 1 <=? sg_version v then 4 else 0) + (if 2 <=? sg_version v then 4 else 0) in
  if 1 <=? sg_version v then
    (if negb (sg_deflen v =? 0) then (base + (lenN (sg_entries v) * sg_deflen v) mod 18446744073709551616) mod 18446744073709551616
     else fold_left (fun acc dl => (acc + (4 + dl) mod 4294967296) mod 18446744073709551616) (sg_lens v) base)
  else base.

(* ------------------------------------------------------------------ one box through DecodeBox / DecodeBoxSR (correspondence, G lines) *)
Definition name_sgpd : list N := [115; 103; 112; 100].

Definition sgpdbox_r (bs : list N) : res (sgpdv * N) :=
  match decode_header (inew bs) with
  | (Ok (HHdr h), s1) =>
      if eqb_name (hname h) name_sgpd then
        (let '(rb, s2) := read_box_body h s1 in do data <- rb; do v <- xprog_body_r false true sgpd_prog data; Ok (v, ipos s2))
      else Err
  | (Ok HEof, _) => Err
  | (Err, _) => Err | (Panic, _) => Panic | (OutOfFuel, _) => OutOfFuel
  end.
Definition sgpdbox_sr (bs : list N) : res (sgpdv * Z * bool) :=
  match decode_header_sr (snew bs) with
  | (Ok h, s1) =>
      let maxSize := addu64 (u64z (nr_remaining (sr s1))) (hlen h) in
      if (maxSize <? hsize h) then Err
      else if eqb_name (hname h) name_sgpd then (do (v, r2) <- xprog_sr false true sgpd_prog (sr s1); Ok (v, rpos r2, rerr r2))
      else Err
  | (Err, _) => Err | (Panic, _) => Panic | (OutOfFuel, _) => OutOfFuel
  end.
