(* C03XEntryProofs.v — evte and stpp (C03PfxModel.xentry_sr / xentry_r): a prefix that is a LOCAL extended reader program (C03_delegate_sound_ext),
   then child boxes while bytes of the payload remain.  On every canonical payload - bytes fx on which the private run of the prefix
   ends without error, exactly behind fx, then canonical children - both decoders accept with the same value. *)
From V.lib Require Import Base.
From V.c04 Require Import C04Model C04ReaderProofs C04ContainerProofs.
From V.c03 Require Import C03Model C03Spec C03Proofs C03CanonProofs C03LeafModel C03LeafProofs C03LeafBoxProofs C03StsdProofs C03VseProofs C03DelegateProofs C03DelegateExtProofs C03PfxModel C03PfxProofs.
Open Scope Z_scope.

Section XE.
Variable ld : leafdec.
Hypothesis LD : leaf_ok ld.

Lemma rel_kids_canon : forall kids, Forall (cwf ld) kids -> (lenN (cencs kids) < 4294967296)%N ->
  forall fuel plen initPos pos acc pre post cst,
    zlen (pre ++ cencs kids ++ post) < two63 -> (pos + lenN (cencs kids) < 18446744073709551616)%N ->
    plen - (zlen pre - initPos) = zlen (cencs kids) ->
    zlen (cencs kids ++ post) + 1 < Z.of_nat fuel ->
    exists cst', rel_kids ld fuel plen initPos pos acc (sr_at (pre ++ cencs kids ++ post) (zlen pre) cst)
                 = (Ok (rev acc ++ map erase kids), sr_at (pre ++ cencs kids ++ post) (zlen pre + zlen (cencs kids)) cst').
Proof.
  induction kids as [|k rest IH]; intros HW Hl fuel plen initPos pos acc pre post cst Hs Hp He Hf.
  - destruct fuel as [|f]; [cbn in Hf; pose proof (zlen_nonneg post); lia|].
    cbn [rel_kids cencs map]. unfold sr_at at 1. cbn [sr rpos]. cbn [cencs] in He. change (zlen (@nil N)) with 0 in He.
    replace (plen - (zlen pre - initPos) <=? 0) with true by lia.
    exists cst. change (zlen (@nil N)) with 0. rewrite Z.add_0_r, app_nil_r. reflexivity.
  - pose proof (Forall_inv HW) as HWk. pose proof (Forall_inv_tail HW) as HWr.
    pose proof (cenc_len_ge8 ld k HWk) as Hk8.
    destruct fuel as [|f]; [pose proof (zlen_nonneg (cencs (k :: rest) ++ post)); lia|].
    cbn [rel_kids]. cbn [cencs] in *. rewrite lenN_app in *. rewrite zlen_app in He.
    unfold sr_at at 1. cbn [sr rpos]. rewrite (zlen_lenN (cenc k)) in He. pose proof (zlen_nonneg (cencs rest)).
    replace (plen - (zlen pre - initPos) <=? 0) with false by lia.
    assert (Hfk : fits k) by (unfold fits; lia).
    assert (Ebuf : pre ++ (cenc k ++ cencs rest) ++ post = pre ++ cenc k ++ (cencs rest ++ post)) by (rewrite <- app_assoc; reflexivity).
    rewrite Ebuf in *.
    change {| sr := mkR (pre ++ cenc k ++ cencs rest ++ post) (zlen pre) false; scost := cst |}
      with (sr_at (pre ++ cenc k ++ cencs rest ++ post) (zlen pre) cst).
    destruct (dec_box_sr ld f pos (sr_at (pre ++ cenc k ++ cencs rest ++ post) (zlen pre) cst)) as [rb s1] eqn:Eb.
    destruct (sr_loops ld LD f) as [HB _].
    assert (HI : Inv (sr (sr_at (pre ++ cenc k ++ cencs rest ++ post) (zlen pre) cst))).
    { unfold Inv, sr_at, rlen. cbn [sr rbuf rpos]. rewrite !zlen_app in *. pose proof (zlen_nonneg pre).
      pose proof (zlen_nonneg (cenc k)). pose proof (zlen_nonneg post). lia. }
    destruct (HB pos _ HI) as [rb' [s1' [Eb' [_ [NF _]]]]]. rewrite Eb in Eb'.
    apply pair_equal_spec in Eb'. destruct Eb' as [Er Es]. subst rb' s1'.
    assert (Hno : rb <> OutOfFuel).
    { apply NF. unfold rem, sr_at, rlen. cbn [sr rbuf rpos]. rewrite <- app_assoc in Hf. rewrite !zlen_app in *. lia. }
    destruct (box_canon_sr_all ld k HWk Hfk f pos pre (cencs rest ++ post) cst rb s1) as [Ho|[Ho Hs1]];
      try exact Eb; try lia; try exact Hs; try contradiction.
    subst rb. rewrite (tsize_erase ld k HWk Hfk).
    assert (Hpos' : addu64 pos (lenN (cenc k)) = (pos + lenN (cenc k))%N) by (unfold addu64; rewrite N.mod_small; lia).
    rewrite Hpos'.
    destruct s1 as [r1 c1]. cbn [sr] in Hs1. subst r1.
    assert (Ebuf2 : pre ++ cenc k ++ cencs rest ++ post = (pre ++ cenc k) ++ cencs rest ++ post) by (rewrite <- app_assoc; reflexivity).
    change {| sr := mkR (pre ++ cenc k ++ cencs rest ++ post) (zlen pre + zlen (cenc k)) false; scost := c1 |}
      with (sr_at (pre ++ cenc k ++ cencs rest ++ post) (zlen pre + zlen (cenc k)) c1).
    rewrite Ebuf2. replace (zlen pre + zlen (cenc k)) with (zlen (pre ++ cenc k)) by apply zlen_app.
    destruct (IH HWr ltac:(lia) f plen initPos (pos + lenN (cenc k))%N (erase k :: acc) (pre ++ cenc k) post c1)
      as [c' E']; try lia.
    { rewrite <- Ebuf2. exact Hs. }
    { rewrite zlen_app. rewrite (zlen_lenN (cenc k)). lia. }
    { rewrite <- app_assoc in Hf. rewrite zlen_app in Hf. rewrite (zlen_lenN (cenc k)) in Hf. lia. }
    exists c'. rewrite E'. cbn [rev map]. rewrite <- app_assoc. cbn [app]. f_equal. f_equal. rewrite !zlen_app. lia.
Qed.

Context {A : Type}.
Variable p : Z -> xprog A.
Hypothesis Hloc : forall plen, local_xprog (p plen).
Variables (nm fx : list N) (kids : list ctree) (a : A).
Hypothesis HW : Forall (cwf ld) kids.
Let p0 : list N := fx ++ cencs kids.
Hypothesis Hfit : (lenN p0 < 4294967288)%N.
Let h : hdr := mkH nm (8 + lenN p0) 8.
(* the prefix, run on the private reader over the payload, ends without accumulated error exactly behind fx *)
Hypothesis F0 : run_xprog 0 (p (Z.of_N (lenN p0))) (rnew p0) = Ok (a, mkR p0 (zlen fx) false).

Theorem xentry_pair_agree_canonical : forall pre post cst cst2 fuel,
  zlen (pre ++ p0 ++ post) < two62 -> zlen (p0 ++ post) + 1 < Z.of_nat fuel ->
  fst (xentry_sr p ld fuel h 0 (mkS (mkR (pre ++ p0 ++ post) (zlen pre) false) cst)) = Ok (a, map erase kids) /\
  fst (xentry_r p ld fuel h 0 (mkI (pre ++ p0 ++ post) (lenN pre) cst2)) = Ok (a, map erase kids) /\
  sum_sizes (map erase kids) (8 + lenN fx) = (8 + lenN p0)%N.
Proof.
  intros pre post cst cst2 fuel Hs Hf.
  assert (HL : lenN p0 = (lenN fx + lenN (cencs kids))%N) by (unfold p0; apply lenN_app).
  assert (Hs63 : zlen (pre ++ p0 ++ post) < two63) by (unfold two62, two63 in *; lia).
  assert (Hpb : zlen p0 < two62).
  { rewrite !zlen_app in Hs. pose proof (zlen_nonneg pre). pose proof (zlen_nonneg post). lia. }
  assert (Hpl : payload_len h = Z.of_N (lenN p0)) by (unfold h; apply payload_len_canon; lia).
  pose proof (zlen_nonneg fx) as Hfx0.
  assert (Hpos : forall ip, addu64 0 (u64z (Z.of_N (hlen h) + (ip + zlen fx) - ip)) = (8 + lenN fx)%N).
  { intros ip. unfold h. cbn [hlen]. replace (Z.of_N 8 + (ip + zlen fx) - ip) with (8 + zlen fx) by lia.
    unfold u64z, two64. rewrite Z.mod_small by (rewrite zlen_lenN; lia). unfold addu64. rewrite zlen_lenN.
    replace (Z.to_N (8 + Z.of_N (lenN fx))) with (8 + lenN fx)%N by lia. rewrite N.mod_small by lia. lia. }
  split; [|split].
  - unfold xentry_sr. cbn [sr scost rpos]. rewrite Hpl.
    rewrite (delegate_sound_x A (p (Z.of_N (lenN p0))) p0 a (mkR p0 (zlen fx) false) (Hloc _) Hpb F0 eq_refl pre post Hs).
    cbn [rerr rpos]. rewrite Hpos.
    assert (Est : {| sr := mkR (pre ++ p0 ++ post) (zlen pre + zlen fx) false; scost := cst |} = sr_at ((pre ++ fx) ++ cencs kids ++ post) (zlen (pre ++ fx)) cst).
    { unfold sr_at, p0. f_equal. f_equal; [rewrite <- !app_assoc; reflexivity|rewrite zlen_app; lia]. }
    rewrite Est.
    destruct (rel_kids_canon kids HW ltac:(lia) fuel (Z.of_N (lenN p0)) (zlen pre) (8 + lenN fx)%N [] (pre ++ fx) post cst) as [c' E']; try lia.
    { replace ((pre ++ fx) ++ cencs kids ++ post) with (pre ++ p0 ++ post) by (unfold p0; rewrite <- !app_assoc; reflexivity). exact Hs63. }
    { rewrite zlen_app. rewrite HL. rewrite !zlen_lenN. lia. }
    { unfold p0 in Hf. rewrite <- app_assoc in Hf. rewrite zlen_app in Hf. lia. }
    rewrite E'. cbn [sr sr_at rerr fst]. reflexivity.
  - unfold xentry_r. destruct (read_box_body_canon nm p0 pre post cst2 Hs63 Hfit) as [c2 HB]. fold h in HB. rewrite HB. cbn [fst].
    unfold xentry_sr. cbn [sr scost icost rpos rnew]. rewrite Hpl. change (mkR p0 0 false) with (rnew p0). rewrite F0.
    cbn [rerr rpos]. replace (Z.of_N (hlen h) + zlen fx - 0) with (Z.of_N (hlen h) + (0 + zlen fx) - 0) by lia. rewrite Hpos.
    assert (Est : {| sr := mkR p0 (zlen fx) false; scost := c2 |} = sr_at (fx ++ cencs kids ++ []) (zlen fx) c2).
    { unfold sr_at, p0. rewrite app_nil_r. reflexivity. }
    rewrite Est.
    destruct (rel_kids_canon kids HW ltac:(lia) fuel (Z.of_N (lenN p0)) 0 (8 + lenN fx)%N [] fx [] c2) as [c' E']; try lia.
    { rewrite app_nil_r. fold p0. unfold two62, two63 in *. lia. }
    { rewrite HL. rewrite !zlen_lenN. lia. }
    { rewrite app_nil_r. unfold p0 in Hf. rewrite <- app_assoc in Hf. rewrite !zlen_app in Hf. pose proof (zlen_nonneg post). lia. }
    rewrite E'. cbn [sr sr_at rerr fst]. reflexivity.
  - rewrite (sum_sizes_erase ld) by (exact HW || lia). lia.
Qed.
End XE.

(* ---------------------------------------------------------------- the prefixes of evte and stpp are local programs *)
Lemma clampz_int z : is_int (clampz z) = true /\ clampz z < 4611686018427387904.
Proof.
  unfold clampz, is_int, two63.
  destruct ((-2305843009213693952 <? z) && (z <? 2305843009213693952))%bool eqn:E; [|split; [reflexivity|lia]].
  apply andb_prop in E. destruct E as [E1 E2]. split; [|lia].
  apply andb_true_intro. split; lia.
Qed.

Lemma evte_prog_local plen : local_xprog (evte_prog plen).
Proof. split; [reflexivity|]. intros _. split; [reflexivity|]. intros v. exact I. Qed.

Lemma stpp_prog_local plen : local_xprog (stpp_prog plen).
Proof.
  assert (Z : forall z, local_xop (RZStr (clampz z)) = true).
  { intros z. cbn [local_xop]. destruct (clampz_int z) as [H1 H2]. rewrite H1. cbn [andb]. lia. }
  split; [reflexivity|]. intros _. split; [reflexivity|]. intros dri. split; [apply Z|]. intros ns z1.
  destruct ((0 <=? z1) && (z1 <? 4611686018427387904))%bool; [|exact I].
  destruct (0 <? clampz (plen - z1)); [|exact I].
  split; [apply Z|]. intros sl z2.
  destruct ((0 <=? z2) && (z2 <? 4611686018427387904))%bool; [|exact I].
  destruct (0 <? clampz (plen - z2)); [|exact I].
  split; [apply Z|]. intros am. exact I.
Qed.

(* ---------------------------------------------------------------- evte: ANY 8 fixed bytes *)
Lemma evte_prog_run plen p0 : 8 <= zlen p0 -> zlen p0 < two63 ->
  exists dri, run_xprog 0 (evte_prog plen) (rnew p0) = Ok (dri, mkR p0 8 false).
Proof.
  intros Hl Hb. unfold evte_prog. cbn [run_xprog rstep rbind]. change (rnew p0) with (at_ p0 0).
  destruct (skip_at p0 0 6) as [S1 _]; try lia.
  destruct (rfix_at p0 (0 + 6) 2) as [l1 [_ [R1 _]]]; try lia.
  rewrite S1, R1. cbn [rbind fst snd run_xprog]. eexists. reflexivity.
Qed.

Theorem evte_pair_agree_canonical : forall ld, leaf_ok ld -> forall nm fx kids,
  length fx = 8%nat -> Forall (cwf ld) kids -> (lenN (fx ++ cencs kids) < 4294967288)%N ->
  forall pre post cst cst2 fuel,
  zlen (pre ++ (fx ++ cencs kids) ++ post) < two62 -> zlen ((fx ++ cencs kids) ++ post) + 1 < Z.of_nat fuel ->
  exists dri,
    fst (evte_sr ld fuel (mkH nm (8 + lenN (fx ++ cencs kids)) 8) 0 (mkS (mkR (pre ++ (fx ++ cencs kids) ++ post) (zlen pre) false) cst)) = Ok (dri, map erase kids) /\
    fst (evte_r ld fuel (mkH nm (8 + lenN (fx ++ cencs kids)) 8) 0 (mkI (pre ++ (fx ++ cencs kids) ++ post) (lenN pre) cst2)) = Ok (dri, map erase kids) /\
    evte_size (dri, map erase kids) = (8 + lenN (fx ++ cencs kids))%N.
Proof.
  intros ld LD nm fx kids Hfx HW Hfit pre post cst cst2 fuel Hs Hf.
  assert (Hz8 : zlen fx = 8) by (unfold zlen; rewrite Hfx; reflexivity).
  assert (Hl8 : lenN fx = 8%N) by (unfold lenN; rewrite Hfx; reflexivity).
  assert (Hpb : zlen (fx ++ cencs kids) < two63).
  { rewrite !zlen_app in Hs. pose proof (zlen_nonneg pre). pose proof (zlen_nonneg post). rewrite zlen_app. unfold two62, two63 in *. lia. }
  destruct (evte_prog_run (Z.of_N (lenN (fx ++ cencs kids))) (fx ++ cencs kids)) as [dri F0];
    [rewrite zlen_app; pose proof (zlen_nonneg (cencs kids)); lia|exact Hpb|].
  exists dri. rewrite <- Hz8 in F0.
  destruct (xentry_pair_agree_canonical ld LD evte_prog evte_prog_local nm fx kids dri HW Hfit F0 pre post cst cst2 fuel Hs Hf) as [E1 [E2 E3]].
  split; [exact E1|]. split; [exact E2|]. unfold evte_size. cbn [snd]. rewrite Hl8 in E3. exact E3.
Qed.

(* stpp: the fixed part is data dependent (three zero-terminated strings, the last two optional): for every payload fx ++ children on
   which the private run of the prefix ends without error exactly behind fx *)
Theorem stpp_pair_agree_canonical : forall ld, leaf_ok ld -> forall nm fx kids a,
  Forall (cwf ld) kids -> (lenN (fx ++ cencs kids) < 4294967288)%N ->
  run_xprog 0 (stpp_prog (Z.of_N (lenN (fx ++ cencs kids)))) (rnew (fx ++ cencs kids)) = Ok (a, mkR (fx ++ cencs kids) (zlen fx) false) ->
  forall pre post cst cst2 fuel,
  zlen (pre ++ (fx ++ cencs kids) ++ post) < two62 -> zlen ((fx ++ cencs kids) ++ post) + 1 < Z.of_nat fuel ->
  fst (stpp_sr ld fuel (mkH nm (8 + lenN (fx ++ cencs kids)) 8) 0 (mkS (mkR (pre ++ (fx ++ cencs kids) ++ post) (zlen pre) false) cst)) = Ok (a, map erase kids) /\
  fst (stpp_r ld fuel (mkH nm (8 + lenN (fx ++ cencs kids)) 8) 0 (mkI (pre ++ (fx ++ cencs kids) ++ post) (lenN pre) cst2)) = Ok (a, map erase kids) /\
  sum_sizes (map erase kids) (8 + lenN fx) = (8 + lenN (fx ++ cencs kids))%N.
Proof.
  intros ld LD nm fx kids a HW Hfit F0 pre post cst cst2 fuel Hs Hf.
  exact (xentry_pair_agree_canonical ld LD stpp_prog stpp_prog_local nm fx kids a HW Hfit F0 pre post cst cst2 fuel Hs Hf).
Qed.
