(* C03DelegateExtProofs.v — the delegation theorem for the extended reader programs (xprog): zero-terminated strings,
   fixed-length strings with computed counts, positions relative to the decoder's entry position. *)
From V.lib Require Import Base.
From V.c04 Require Import C04Model C04ReaderProofs C04ContainerProofs.
From V.c03 Require Import C03Model C03Spec C03CanonProofs C03LeafModel C03LeafProofs C03LeafBoxProofs C03StsdProofs C03VseProofs C03DelegateProofs.
Open Scope Z_scope.

Lemma gindex_frame pre b post i : 0 <= i < zlen b -> gindex (pre ++ b ++ post) (zlen pre + i) = gindex b i.
Proof.
  intros Hi. unfold gindex. rewrite !zlen_app. pose proof (zlen_nonneg pre). pose proof (zlen_nonneg post).
  replace ((0 <=? zlen pre + i) && (zlen pre + i <? zlen pre + (zlen b + zlen post)))%bool with true by lia.
  replace ((0 <=? i) && (i <? zlen b))%bool with true by lia. f_equal.
  replace (Z.to_nat (zlen pre + i)) with (length pre + Z.to_nat i)%nat by (unfold zlen; lia).
  rewrite app_nth2_plus. apply app_nth1. unfold zlen in Hi. lia.
Qed.

(* a fixed-length string read that leaves no error was inside the buffer *)
Lemma read_str_noerr_x n s v s1 : Inv s -> rlen s < two62 -> is_int n = true -> read_fixed_string n s = Ok (v, s1) -> rerr s1 = false ->
  0 <= n /\ rpos s + n <= rlen s.
Proof.
  intros [[HI1 HI2] HI3] H62 Hn E He. unfold is_int in Hn. unfold read_fixed_string in E.
  destruct (rerr s) eqn:Ee. { inversion E; subst. congruence. }
  destruct (rpos s >? w64 (rlen s - n)) eqn:Eb. { inversion E; subst. cbn in He. discriminate. }
  unfold gslice in E.
  destruct ((0 <=? rpos s) && (rpos s <=? w64 (rpos s + n)) && (w64 (rpos s + n) <=? zlen (rbuf s)))%bool eqn:Eg;
    [|cbn [rbind] in E; discriminate].
  unfold rlen in *. unfold w64, two62, two63, two64 in *.
  assert (Hcases : - 9223372036854775808 <= rpos s + n < 9223372036854775808 \/ 9223372036854775808 <= rpos s + n) by lia.
  destruct Hcases as [Hc|Hc].
  - rewrite (Z.mod_small (rpos s + n + 9223372036854775808)) in Eg by lia. lia.
  - exfalso.
    assert (Hm : (rpos s + n + 9223372036854775808) mod 18446744073709551616 = rpos s + n + 9223372036854775808 - 18446744073709551616).
    { symmetry. apply Z.mod_unique with (q := 1); lia. }
    rewrite Hm in Eg. lia.
Qed.

(* ---------------------------------------------------------------- zero-terminated strings *)
Lemma zloop_frame pre post b start : forall fuel fuel' pos maxPos maxPos' str p,
  0 <= start <= pos -> maxPos <= zlen b -> (fuel <= fuel')%nat -> zlen pre + maxPos <= maxPos' ->
  zloop fuel b start pos maxPos = Ok (Some str, p) ->
  pos < p <= maxPos /\
  zloop fuel' (pre ++ b ++ post) (zlen pre + start) (zlen pre + pos) maxPos' = Ok (Some str, zlen pre + p).
Proof.
  induction fuel as [|f IH]; intros fuel' pos maxPos maxPos' str p Hs Hm Hf Hm' E; [discriminate|].
  destruct fuel' as [|f']; [lia|]. cbn [zloop] in E |- *.
  destruct (pos >=? maxPos) eqn:E1; [inversion E|].
  replace (zlen pre + pos >=? maxPos') with false by lia.
  rewrite gindex_frame by lia.
  destruct (gindex b pos) as [c| | |]; cbn [rbind] in E |- *; try discriminate.
  destruct (c =? 0)%N.
  - rewrite gslice_frame by lia.
    destruct (gslice b start pos) as [l| | |]; cbn [rbind] in E |- *; try discriminate.
    inversion E; subst. split; [lia|]. f_equal. f_equal. lia.
  - destruct (IH f' (pos + 1) maxPos maxPos' str p ltac:(lia) Hm ltac:(lia) Hm' E) as [H1 H2].
    split; [lia|]. replace (zlen pre + pos + 1) with (zlen pre + (pos + 1)) by lia. exact H2.
Qed.

Lemma read_zstr_noerr m s v s1 : Inv s -> rlen s < two62 -> is_int m = true -> m < two62 ->
  read_zstring m s = Ok (v, s1) -> rerr s1 = false ->
  Inv s1 /\ rbuf s1 = rbuf s /\
  forall pre post, zlen (pre ++ rbuf s ++ post) < two62 -> read_zstring m (fr pre post s) = Ok (v, fr pre post s1).
Proof.
  intros [[HI1 HI2] HI3] H62 Hi Hm E He. unfold is_int in Hi. unfold read_zstring in E.
  destruct (rerr s) eqn:Ee. { inversion E; subst. congruence. }
  set (maxPos := if w64 (rpos s + m) >? rlen s then rlen s else w64 (rpos s + m)) in *.
  destruct (zloop (S (length (rbuf s))) (rbuf s) (rpos s) (rpos s) maxPos) as [[[str|] p]| | |] eqn:Ez;
    cbn [rbind] in E; try discriminate.
  2:{ inversion E; subst. cbn in He. discriminate. }
  inversion E; subst v s1. clear E.
  assert (Hmax : maxPos <= rlen s) by (subst maxPos; destruct (w64 (rpos s + m) >? rlen s) eqn:X; lia).
  assert (Hw : w64 (rpos s + m) = rpos s + m) by (apply w64_id; unfold two62, two63 in *; lia).
  destruct (zloop_frame [] [] (rbuf s) (rpos s) (S (length (rbuf s))) (S (length (rbuf s))) (rpos s) maxPos maxPos str p
              ltac:(lia) Hmax ltac:(lia) ltac:(cbn; lia) Ez) as [Hp _].
  split; [unfold Inv, with_pos, rlen in *; cbn [rpos rbuf]; lia|]. split; [reflexivity|].
  intros pre post Hs. unfold read_zstring, fr. cbn [rerr rpos rbuf]. rewrite Ee.
  unfold rlen. cbn [rbuf]. rewrite !zlen_app in *. pose proof (zlen_nonneg pre). pose proof (zlen_nonneg post). unfold rlen in *.
  rewrite (w64_id (zlen pre + rpos s + m)) by (unfold two62, two63 in *; lia).
  set (maxPos' := if zlen pre + rpos s + m >? zlen pre + (zlen (rbuf s) + zlen post) then zlen pre + (zlen (rbuf s) + zlen post)
                  else zlen pre + rpos s + m).
  assert (Hmp : zlen pre + maxPos <= maxPos').
  { subst maxPos maxPos'. rewrite Hw. destruct (rpos s + m >? zlen (rbuf s)) eqn:X;
      destruct (zlen pre + rpos s + m >? zlen pre + (zlen (rbuf s) + zlen post)) eqn:Y; lia. }
  destruct (zloop_frame pre post (rbuf s) (rpos s) (S (length (rbuf s))) (S (length (pre ++ rbuf s ++ post))) (rpos s) maxPos maxPos' str p
              ltac:(lia) Hmax ltac:(rewrite !app_length; lia) Hmp Ez) as [_ Hf].
  rewrite Hf. cbn [rbind]. unfold with_pos. cbn [rbuf rpos rerr]. rewrite Ee. reflexivity.
Qed.

Lemma pzloop_frame pre post b start : forall fuel fuel' pos maxPos str ok p,
  0 <= start <= pos -> (fuel <= fuel')%nat ->
  pzloop fuel b start pos maxPos = Ok (PZ str ok p false) ->
  pos <= p <= zlen b /\
  pzloop fuel' (pre ++ b ++ post) (zlen pre + start) (zlen pre + pos) (zlen pre + maxPos) = Ok (PZ str ok (zlen pre + p) false).
Proof.
  induction fuel as [|f IH]; intros fuel' pos maxPos str ok p Hs Hf E; [discriminate|].
  destruct fuel' as [|f']; [lia|]. cbn [pzloop] in E |- *.
  replace (zlen pre + pos =? zlen pre + maxPos) with (pos =? maxPos) by lia.
  replace (zlen pre + pos >? zlen pre + maxPos) with (pos >? maxPos) by lia.
  destruct (pos =? maxPos) eqn:E1.
  { unfold gslice in E.
    destruct ((0 <=? start) && (start <=? pos) && (pos <=? zlen b))%bool eqn:Eg; cbn [rbind] in E; [|discriminate].
    inversion E; subst. rewrite gslice_frame by lia. unfold gslice. rewrite Eg. cbn [rbind]. split; [lia|reflexivity]. }
  destruct (pos >? maxPos) eqn:E2; [inversion E|].
  unfold gindex in E at 1.
  destruct ((0 <=? pos) && (pos <? zlen b))%bool eqn:Ei; cbn [rbind] in E; [|discriminate].
  rewrite gindex_frame by lia. unfold gindex at 1. rewrite Ei. cbn [rbind].
  destruct (nth (Z.to_nat pos) b 0%N =? 0)%N.
  - unfold gslice in E.
    destruct ((0 <=? start) && (start <=? pos) && (pos <=? zlen b))%bool eqn:Eg; cbn [rbind] in E; [|discriminate].
    inversion E; subst. rewrite gslice_frame by lia. unfold gslice. rewrite Eg. cbn [rbind]. split; [lia|].
    f_equal. f_equal. lia.
  - destruct (IH f' (pos + 1) maxPos str ok p ltac:(lia) ltac:(lia) E) as [H1 H2]. split; [lia|].
    replace (zlen pre + pos + 1) with (zlen pre + (pos + 1)) by lia. exact H2.
Qed.

Lemma read_pzstr_noerr m s v s1 : Inv s -> rlen s < two62 -> is_int m = true -> m < two62 ->
  read_pzstring m s = Ok (v, s1) -> rerr s1 = false ->
  Inv s1 /\ rbuf s1 = rbuf s /\
  forall pre post, zlen (pre ++ rbuf s ++ post) < two62 -> read_pzstring m (fr pre post s) = Ok (v, fr pre post s1).
Proof.
  intros [[HI1 HI2] HI3] H62 Hi Hm E He. unfold is_int in Hi. unfold read_pzstring in E.
  rewrite (w64_id (rpos s + m)) in E by (unfold two62, two63 in *; lia).
  destruct (pzloop (S (S (length (rbuf s)))) (rbuf s) (rpos s) (rpos s) (rpos s + m)) as [[str ok p se]| | |] eqn:Ez;
    cbn [rbind] in E; try discriminate.
  inversion E; subst v s1. clear E. cbn [rerr] in He. apply orb_false_iff in He. destruct He as [Ee Hse]. subst se.
  destruct (pzloop_frame [] [] (rbuf s) (rpos s) (S (S (length (rbuf s)))) (S (S (length (rbuf s)))) (rpos s) (rpos s + m) str ok p
              ltac:(lia) ltac:(lia) Ez) as [Hp _].
  split; [unfold Inv, rlen in *; cbn [rpos rbuf]; lia|]. split; [reflexivity|].
  intros pre post Hs. unfold read_pzstring, fr. cbn [rerr rpos rbuf].
  rewrite !zlen_app in *. pose proof (zlen_nonneg pre). pose proof (zlen_nonneg post). unfold rlen in *.
  rewrite (w64_id (zlen pre + rpos s + m)) by (unfold two62, two63 in *; lia).
  destruct (pzloop_frame pre post (rbuf s) (rpos s) (S (S (length (rbuf s)))) (S (S (length (pre ++ rbuf s ++ post)))) (rpos s) (rpos s + m) str ok p
              ltac:(lia) ltac:(rewrite !app_length; lia) Ez) as [_ Hf].
  replace (zlen pre + rpos s + m) with (zlen pre + (rpos s + m)) by lia.
  rewrite Hf. cbn [rbind]. rewrite Ee. reflexivity.
Qed.

(* ---------------------------------------------------------------- one operation *)
Lemma xstep_frame o s v s1 : local_xop o = true -> Inv s -> rlen s < two62 -> rstep s o = Ok (v, s1) -> rerr s1 = false ->
  Inv s1 /\ rbuf s1 = rbuf s /\
  forall pre post, zlen (pre ++ rbuf s ++ post) < two62 -> rstep (fr pre post s) o = Ok (v, fr pre post s1).
Proof.
  intros Hl HI H62 E He.
  assert (T63 : forall pre post, zlen (pre ++ rbuf s ++ post) < two62 -> zlen (pre ++ rbuf s ++ post) < two63)
    by (intros; unfold two62, two63 in *; lia).
  destruct o as [| | | | | | | |n|m|m|n| | |n|p| | |off dlen|]; cbn [local_xop] in Hl; try discriminate;
    try (match type of E with rstep s ?o = _ => destruct (rstep_frame o s v s1 eq_refl HI H62 E He) as [I1 [B1 F1]] end;
         split; [exact I1|]; split; [exact B1|]; intros pre post Hs; exact (F1 pre post (T63 pre post Hs))).
  - (* RFixedStr, any int count *)
    cbn [rstep] in E |- *.
    destruct (read_fixed_string n s) as [[x s2]| | |] eqn:Er; cbn [rbind fst snd] in E; try discriminate.
    inversion E; subst v s1.
    destruct (read_str_noerr_x n s x s2 HI H62 Hl Er He) as [Hn0 Hn1].
    destruct (read_str_noerr n s x s2 HI ltac:(destruct HI as [[? ?] ?]; unfold two62 in *; lia) Er He) as [I1 [B1 F1]].
    split; [exact I1|]. split; [exact B1|]. intros pre post Hs. rewrite (F1 pre post (T63 pre post Hs)). reflexivity.
  - (* RZStr *)
    apply andb_prop in Hl. destruct Hl as [Hi Hm]. cbn [rstep] in E |- *.
    destruct (read_zstring m s) as [[x s2]| | |] eqn:Er; cbn [rbind fst snd] in E; try discriminate.
    inversion E; subst v s1.
    destruct (read_zstr_noerr m s x s2 HI H62 Hi ltac:(unfold two62; lia) Er He) as [I1 [B1 F1]].
    split; [exact I1|]. split; [exact B1|]. intros pre post Hs. rewrite (F1 pre post Hs). reflexivity.
  - (* RPZStr *)
    apply andb_prop in Hl. destruct Hl as [Hi Hm]. cbn [rstep] in E |- *.
    destruct (read_pzstring m s) as [[[x okz] s2]| | |] eqn:Er; cbn [rbind fst snd] in E; try discriminate.
    inversion E; subst v s1.
    destruct (read_pzstr_noerr m s (x, okz) s2 HI H62 Hi ltac:(unfold two62; lia) Er He) as [I1 [B1 F1]].
    split; [exact I1|]. split; [exact B1|]. intros pre post Hs. rewrite (F1 pre post Hs). reflexivity.
  - (* RSkip *)
    destruct (rstep_frame (RSkip n) s v s1 Hl HI H62 E He) as [I1 [B1 F1]].
    split; [exact I1|]. split; [exact B1|]. intros pre post Hs. exact (F1 pre post (T63 pre post Hs)).
Qed.

Lemma xstep_err_sticky o s v s1 : local_xop o = true -> rstep s o = Ok (v, s1) -> rerr s = true -> rerr s1 = true.
Proof.
  intros Hl E He.
  destruct o as [| | | | | | | |n|m|m|n| | |n|p| | |off dlen|]; cbn [local_xop] in Hl; try discriminate;
    try (match type of E with rstep s ?o = _ => exact (rstep_err_sticky o s v s1 eq_refl E He) end).
  - cbn [rstep] in E. unfold read_fixed_string in E. rewrite He in E. cbn [rbind fst snd] in E. inversion E; subst. exact He.
  - cbn [rstep] in E. unfold read_zstring in E. rewrite He in E. cbn [rbind fst snd] in E. inversion E; subst. exact He.
  - cbn [rstep] in E. unfold read_pzstring in E.
    destruct (pzloop _ _ _ _ _) as [[str ok p se]| | |]; cbn [rbind fst snd] in E; try discriminate.
    inversion E; subst. cbn [rerr]. rewrite He. reflexivity.
  - exact (rstep_err_sticky (RSkip n) s v s1 Hl E He).
Qed.

Lemma run_x_err_sticky {A} : forall (p : xprog A) o s a s', local_xprog p -> run_xprog o p s = Ok (a, s') -> rerr s = true -> rerr s' = true.
Proof.
  induction p as [a0| |op k IH|k IH]; intros o s a s' Hl E He; cbn [run_xprog] in E.
  - inversion E; subst. exact He.
  - discriminate.
  - destruct Hl as [Ho Hk]. destruct (rstep s op) as [[v s1]| | |] eqn:Er; cbn [rbind] in E; try discriminate.
    apply (IH v o s1 a s' (Hk v) E). apply (xstep_err_sticky op s v s1 Ho Er He).
  - apply (IH _ o s a s' (Hl _) E He).
Qed.

(* ---------------------------------------------------------------- the delegation pattern, extended programs *)
Theorem delegate_sound_x_at : forall A (p : xprog A), local_xprog p -> forall o s a s', Inv s -> rlen s < two62 ->
  run_xprog o p s = Ok (a, s') -> rerr s' = false ->
  rbuf s' = rbuf s /\
  forall pre post, zlen (pre ++ rbuf s ++ post) < two62 ->
    run_xprog (zlen pre + o) p (fr pre post s) = Ok (a, fr pre post s').
Proof.
  induction p as [a0| |op k IH|k IH]; intros Hl o s a s' HI H62 E He; cbn [run_xprog] in E |- *.
  - inversion E; subst. split; reflexivity.
  - discriminate.
  - destruct Hl as [Ho Hk]. destruct (rstep s op) as [[v s1]| | |] eqn:Er; cbn [rbind] in E; try discriminate.
    assert (He1 : rerr s1 = false).
    { destruct (rerr s1) eqn:X; [|reflexivity]. rewrite (run_x_err_sticky (k v) o s1 a s' (Hk v) E X) in He. discriminate. }
    destruct (xstep_frame op s v s1 Ho HI H62 Er He1) as [I1 [B1 F1]].
    assert (H62' : rlen s1 < two62) by (unfold rlen in *; rewrite B1; exact H62).
    destruct (IH v (Hk v) o s1 a s' I1 H62' E He) as [B2 F2].
    split; [congruence|]. intros pre post Hs. cbn [run_xprog]. rewrite (F1 pre post Hs). cbn [rbind].
    apply F2. rewrite B1. exact Hs.
  - destruct (IH _ (Hl _) o s a s' HI H62 E He) as [B2 F2]. split; [exact B2|].
    intros pre post Hs. cbn [run_xprog].
    replace (rpos (fr pre post s) - (zlen pre + o)) with (rpos s - o) by (unfold fr; cbn [rpos]; lia).
    apply F2. exact Hs.
Qed.

Theorem delegate_sound_x : forall A (p : xprog A) body a s', local_xprog p -> zlen body < two62 ->
  run_xprog 0 p (rnew body) = Ok (a, s') -> rerr s' = false ->
  forall pre post, zlen (pre ++ body ++ post) < two62 ->
    run_xprog (zlen pre) p (mkR (pre ++ body ++ post) (zlen pre) false)
    = Ok (a, mkR (pre ++ body ++ post) (zlen pre + rpos s') false).
Proof.
  intros A p body a s' Hl Hb E He pre post Hs.
  assert (HI : Inv (rnew body)).
  { unfold Inv, rnew, rlen. cbn [rpos rbuf]. pose proof (zlen_nonneg body). unfold two62, two63 in *. lia. }
  destruct (delegate_sound_x_at A p Hl 0 (rnew body) a s' HI Hb E He) as [B F].
  assert (Hfr0 : mkR (pre ++ body ++ post) (zlen pre) false = fr pre post (rnew body)).
  { unfold fr, rnew. cbn [rbuf rpos rerr]. f_equal. lia. }
  rewrite Hfr0. replace (zlen pre) with (zlen pre + 0) at 1 by lia. rewrite (F pre post Hs). unfold fr. rewrite B, He. reflexivity.
Qed.

(* the pair as the delegating decoders use it: same guard on the header on both paths, the SR decoder's own treatment of the
   accumulated error (strict or not) on both paths (the reader-path decoder returns whatever the SR decoder returned) *)
Theorem xprog_pair_agree : forall A (p : xprog A) (guard strict : bool) body a s', local_xprog p -> zlen body < two62 ->
  run_xprog 0 p (rnew body) = Ok (a, s') -> rerr s' = false ->
  forall pre post, zlen (pre ++ body ++ post) < two62 ->
    (guard = true -> xprog_body_r guard strict p body = Err /\
                     xprog_sr guard strict p (mkR (pre ++ body ++ post) (zlen pre) false) = Err) /\
    (guard = false -> xprog_body_r guard strict p body = Ok a /\
                      xprog_sr guard strict p (mkR (pre ++ body ++ post) (zlen pre) false)
                      = Ok (a, mkR (pre ++ body ++ post) (zlen pre + rpos s') false)).
Proof.
  intros A p guard strict body a s' Hl Hb E He pre post Hs. split; intros Hg; subst guard.
  - split; reflexivity.
  - split.
    + unfold xprog_body_r. rewrite E. cbn [rbind]. rewrite He, andb_false_r. reflexivity.
    + unfold xprog_sr. cbn [rpos]. rewrite (delegate_sound_x A p body a s' Hl Hb E He pre post Hs). cbn [rbind rerr].
      rewrite andb_false_r. reflexivity.
Qed.

(* every program of the first round is an extended program, and local ones stay local *)
Lemma local_op_xop o : local_op o = true -> local_xop o = true.
Proof.
  destruct o; cbn [local_op local_xop]; intros H; try exact H; try discriminate.
  apply andb_prop in H. destruct H as [H1 H2]. unfold is_int, two63. apply andb_true_intro. split; lia.
Qed.

Lemma xprog_of_sprog_local {A} (p : sprog A) : local_prog p -> local_xprog (xprog_of_sprog p).
Proof.
  induction p as [a| |o k IH]; cbn [local_prog local_xprog xprog_of_sprog]; intros H; try exact I.
  destruct H as [Ho Hk]. split; [apply local_op_xop; exact Ho|]. intros v. apply IH. apply Hk.
Qed.

Lemma xprog_of_sprog_run {A} (p : sprog A) : forall o s, run_xprog o (xprog_of_sprog p) s = run_sprog p s.
Proof.
  induction p as [a| |op k IH]; intros o s; cbn [run_xprog run_sprog xprog_of_sprog]; try reflexivity.
  destruct (rstep s op) as [[v s1]| | |]; cbn [rbind]; try reflexivity. apply IH.
Qed.
