(* C03LeafTruncProofs.v — the complement of C03_leaf_boxes_agree: a trun / senc / mdat box whose compact header announces
   MORE body bytes than are present.  DecodeBox fails (readBoxBody); DecodeBoxSR fails for trun and senc (the maxSize test) and,
   for mdat only, returns a box with empty Data and leaves the accumulated error set in the reader (mdat is exempt from the
   maxSize test and DecodeMdatSR does not return the error).  Such a string is not reproduced by either path. *)
From V.lib Require Import Base.
From V.c04 Require Import C04Model C04ReaderProofs C04ContainerProofs.
From V.c03 Require Import C03Model C03Spec C03CanonProofs C03LeafModel C03LeafProofs C03LeafBoxProofs.
Open Scope Z_scope.

Section TRUNC.
Variables (nm rest : list N) (size : N).
Hypothesis Hn : length nm = 4%nat.
Hypothesis Hsz : (8 <= size < 4294967296)%N.
Hypothesis Hshort : (lenN rest + 8 < size)%N.
Let bs : list N := be4 size ++ nm ++ rest.
Hypothesis Hs : zlen bs < two63.
Let h : hdr := mkH nm size 8.
Let pre : list N := be4 size ++ nm.

Lemma t_zlen_pre : zlen pre = 8.
Proof. unfold pre. rewrite zlen_app. unfold zlen. rewrite Hn. reflexivity. Qed.
Lemma t_lenN_pre : lenN pre = 8%N.
Proof. pose proof t_zlen_pre as H. rewrite zlen_lenN in H. lia. Qed.
Lemma t_bs : bs = pre ++ rest.
Proof. unfold bs, pre. rewrite <- app_assoc. reflexivity. Qed.

Lemma t_hdr_r : decode_header (inew bs) = (Ok (HHdr h), mkI (pre ++ rest) (lenN pre) (allocn 8 cost0)).
Proof.
  pose proof (hdr_r_canon [] nm size rest cost0 Hn Hsz) as HR.
  cbn [app] in HR. change (lenN (@nil N)) with 0%N in HR. unfold inew, bs. rewrite HR. rewrite t_lenN_pre, <- t_bs. reflexivity.
Qed.

Lemma t_hdr_sr : decode_header_sr (snew bs) = (Ok h, mkS (mkR (pre ++ rest) (zlen pre) false) cost0).
Proof.
  pose proof (hdr_sr_canon [] nm size rest cost0 Hn Hsz) as HR.
  cbn [app] in HR. change (zlen (@nil N)) with 0 in HR. unfold snew, rnew, bs. rewrite HR by exact Hs.
  rewrite t_zlen_pre, <- t_bs. reflexivity.
Qed.

(* readBoxBody: the LimitReader delivers the bytes that are left, fewer than announced *)
Lemma t_body : exists s', read_box_body h (mkI (pre ++ rest) (lenN pre) (allocn 8 cost0)) = (Err, s').
Proof.
  unfold read_box_body. cbn [hlen hsize h]. replace (8 =? size)%N with false by lia.
  assert (Eb : subu64 size 8 = (size - 8)%N).
  { unfold subu64. rewrite (N.mod_small 8) by lia.
    replace (size + 18446744073709551616 - 8)%N with ((size - 8) + 1 * 18446744073709551616)%N by lia.
    rewrite N.mod_add by lia. rewrite N.mod_small; lia. }
  rewrite Eb. unfold int_of_u64. rewrite w64_id by (unfold two63; lia).
  unfold read_limited. replace (Z.of_N (size - 8) <=? 0) with false by lia.
  unfold iavail. cbn [ibuf ipos icost]. rewrite lenN_app.
  replace (N.min (Z.to_N (Z.of_N (size - 8))) (lenN pre + lenN rest - lenN pre)) with (lenN rest) by lia.
  match goal with |- context [zlen ?d =? _] => assert (Hd : zlen d = Z.of_N (lenN rest)) end.
  { unfold zlen. rewrite firstn_length, skipn_length, app_length. unfold lenN. lia. }
  rewrite Hd. replace (Z.of_N (lenN rest) =? Z.of_N (size - 8)) with false by lia. eexists. reflexivity.
Qed.

Lemma t_maxsize : (addu64 (u64z (nr_remaining (mkR (pre ++ rest) (zlen pre) false))) 8 <? size)%N = true.
Proof.
  unfold nr_remaining, rlen. cbn [rerr rbuf rpos]. rewrite zlen_app. rewrite t_bs, zlen_app in Hs.
  pose proof (zlen_nonneg rest). rewrite t_zlen_pre in *.
  rewrite w64_id by (unfold two63 in *; lia).
  unfold u64z, addu64, two64. rewrite Z.mod_small by (unfold two63 in *; lia).
  rewrite N.mod_small by (rewrite zlen_lenN in *; unfold two63 in *; lia). rewrite zlen_lenN. lia.
Qed.

Lemma trunc_r : nm = name_trun \/ nm = name_senc \/ nm = name_mdat -> leafbox_r bs = Err.
Proof.
  intros Hnm. unfold leafbox_r. rewrite t_hdr_r. change (hname h) with nm. destruct t_body as [s' HB].
  destruct Hnm as [E|[E|E]]; rewrite E.
  - change (eqb_name name_trun name_trun) with true. cbv iota. unfold trun_r. rewrite HB. reflexivity.
  - change (eqb_name name_senc name_trun) with false. change (eqb_name name_senc name_senc) with true. cbv iota.
    unfold senc_r. destruct (hsize h <? 16)%N; [reflexivity|]. rewrite HB. reflexivity.
  - change (eqb_name name_mdat name_trun) with false. change (eqb_name name_mdat name_senc) with false.
    change (eqb_name name_mdat name_mdat) with true. cbv iota. unfold mdat_r. rewrite HB. reflexivity.
Qed.

Lemma trunc_sr_leaf : nm = name_trun \/ nm = name_senc -> leafbox_sr bs = Err.
Proof.
  intros Hnm. unfold leafbox_sr. rewrite t_hdr_sr. cbn [sr]. change (hname h) with nm. change (hsize h) with size. change (hlen h) with 8%N.
  rewrite t_maxsize. destruct Hnm as [E|E]; rewrite E.
  - change (eqb_name name_trun name_mdat) with false. reflexivity.
  - change (eqb_name name_senc name_mdat) with false. reflexivity.
Qed.

Lemma trunc_sr_mdat : nm = name_mdat -> leafbox_sr bs = Ok (LMdat (mkMdat [] false), 8, true).
Proof.
  intros E. unfold leafbox_sr. rewrite t_hdr_sr. cbn [sr]. change (hname h) with nm. change (hsize h) with size. change (hlen h) with 8%N.
  rewrite E. change (eqb_name name_mdat name_mdat) with true. cbn [negb]. rewrite andb_false_r.
  change (eqb_name name_mdat name_trun) with false. change (eqb_name name_mdat name_senc) with false. cbv iota.
  unfold mdat_sr.
  assert (Hpl : payload_len h = Z.of_N (size - 8)).
  { unfold payload_len, int_of_u64. cbn [hsize hlen h]. rewrite (w64_id (Z.of_N size)) by (unfold two63; lia).
    rewrite w64_id by (unfold two63; lia). lia. }
  rewrite Hpl. unfold read_bytes. replace (Z.of_N (size - 8) <? 0) with false by lia. cbn [rerr rpos].
  unfold rlen. cbn [rbuf]. rewrite zlen_app, t_zlen_pre. rewrite (zlen_lenN rest).
  replace (8 >? 8 + Z.of_N (lenN rest) - Z.of_N (size - 8)) with true by lia.
  cbn [rbind with_err rpos rerr rbuf]. reflexivity.
Qed.
End TRUNC.

Theorem leaf_boxes_truncated : forall nm rest size,
  nm = name_trun \/ nm = name_senc \/ nm = name_mdat ->
  (8 <= size < 4294967296)%N -> (lenN rest + 8 < size)%N -> zlen (be4 size ++ nm ++ rest) < two63 ->
  leafbox_r (be4 size ++ nm ++ rest) = Err /\
  (nm <> name_mdat -> leafbox_sr (be4 size ++ nm ++ rest) = Err) /\
  (nm = name_mdat -> leafbox_sr (be4 size ++ nm ++ rest) = Ok (LMdat (mkMdat [] false), 8, true)).
Proof.
  intros nm rest size Hnm Hsz Hshort Hs.
  assert (Hn : length nm = 4%nat) by (destruct Hnm as [E|[E|E]]; subst nm; reflexivity).
  split; [apply trunc_r; assumption|]. split.
  - intros Hne. apply trunc_sr_leaf; try assumption. destruct Hnm as [E|[E|E]]; [left; exact E|right; exact E|contradiction].
  - intros E. apply trunc_sr_mdat; assumption.
Qed.
