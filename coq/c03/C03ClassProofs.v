(* C03ClassProofs.v — the generated source facts (C03Facts.v) against the classification policy (C03FactsDefs.v), the registry
   exported by the running library (C03Registry.v) and the dispatch table of the framing model (C04Model.std_kind). *)
From V.lib Require Import Base.
From V.c04 Require Import C04Model.
From V.c03 Require Import C03Registry C03FactsDefs C03Facts.
From Coq Require Import String.
Open Scope N_scope.

(* every registered box type has exactly one fact line, in the order of the registry (source extractor vs running library) *)
Lemma facts_cover_registry : map df_key c03_decoder_facts = keys_decoders /\ map df_key c03_decoder_facts = keys_decoders_sr.
Proof. split; vm_compute; reflexivity. Qed.

(* every pair is in a class covered by a theorem, or is named in the policy as explored *)
Lemma all_decoders_ok : forallb dec_ok c03_decoder_facts = true.
Proof. vm_compute. reflexivity. Qed.

Lemma all_encoders_ok : forallb enc_ok c03_encoder_facts = true.
Proof. vm_compute. reflexivity. Qed.

(* the framing model's dispatch (std_kind: the instance used in the correspondence) agrees with the source classes *)
Definition kind_matches (f : decfact) : bool :=
  match std_kind (df_key f) with
  | KContBody a => dclass_eqb (df_class f) CContainerBody && Bool.eqb (df_accerr f) a
  | KCont => dclass_eqb (df_class f) CContainerTwin && negb (df_accerr f)
  | KLeaf => negb (dclass_eqb (df_class f) CContainerBody)
  end &&
  (if dclass_eqb (df_class f) CPureTwin || dclass_eqb (df_class f) CRawBody || dclass_eqb (df_class f) CBodyFn
   then match std_kind (df_key f) with KLeaf => true | _ => false end else true).
Lemma kinds_match : forallb kind_matches c03_decoder_facts = true.
Proof. vm_compute. reflexivity. Qed.

Theorem all_pairs_classified :
  (forall k, In k keys_decoders ->
     exists f, In f c03_decoder_facts /\ df_key f = k /\
       match df_class f with
       | CDelegating => df_relative f = true
                        \/ In (df_r f) c03_delegating_nonrelative_proved \/ In (df_r f) c03_delegating_nonrelative_explored
       | CContainerTwin => True
       | CContainerBody => std_kind k = KContBody (df_accerr f)
       | CPureTwin | CRawBody | CBodyFn => std_kind k = KLeaf
       | CSeparate => In (df_r f) c03_separate_proved \/ In (df_r f) c03_separate_explored
       end).
Proof.
  intros k Hk. destruct facts_cover_registry as [Hr _]. rewrite <- Hr in Hk.
  apply in_map_iff in Hk. destruct Hk as [f [Hf Hin]]. exists f. split; [exact Hin|]. split; [exact Hf|].
  pose proof all_decoders_ok as Hok. rewrite forallb_forall in Hok. specialize (Hok f Hin).
  pose proof kinds_match as Hkm. rewrite forallb_forall in Hkm. specialize (Hkm f Hin).
  assert (SM : forall x l, smem x l = true -> In x l).
  { intros x l H. unfold smem in H. apply existsb_exists in H. destruct H as [y [Hy He]]. apply String.eqb_eq in He. subst. exact Hy. }
  unfold dec_ok in Hok. destruct (df_class f) eqn:Ec.
  - apply orb_prop in Hok. destruct Hok as [Hok|Hok]; [|right; right; apply SM; exact Hok].
    apply orb_prop in Hok. destruct Hok as [Hok|Hok]; [left; exact Hok|right; left; apply SM; exact Hok].
  - exact I.
  - unfold kind_matches in Hkm. rewrite Hf in Hkm. rewrite Ec in Hkm. apply andb_prop in Hkm. destruct Hkm as [Hk1 _].
    destruct (std_kind k) as [| |a]; cbn in Hk1; try discriminate.
    apply Bool.eqb_prop in Hk1. rewrite Hk1. reflexivity.
  - unfold kind_matches in Hkm. rewrite Hf in Hkm. rewrite Ec in Hkm. apply andb_prop in Hkm. destruct Hkm as [_ Hk2].
    cbn in Hk2. destruct (std_kind k) as [| |a]; try discriminate. reflexivity.
  - unfold kind_matches in Hkm. rewrite Hf in Hkm. rewrite Ec in Hkm. apply andb_prop in Hkm. destruct Hkm as [_ Hk2].
    cbn in Hk2. destruct (std_kind k) as [| |a]; try discriminate. reflexivity.
  - unfold kind_matches in Hkm. rewrite Hf in Hkm. rewrite Ec in Hkm. apply andb_prop in Hkm. destruct Hkm as [_ Hk2].
    cbn in Hk2. destruct (std_kind k) as [| |a]; try discriminate. reflexivity.
  - apply orb_prop in Hok. destruct Hok as [Hok|Hok]; [left|right]; apply SM; exact Hok.
Qed.

Theorem all_encoders_classified :
  forall f, In f c03_encoder_facts ->
    match ef_class f with
    | EDelegating | EContainer | EHeader => True
    | EPrelude => In (ef_type f) c03_enc_prelude_proved
    | ETwinDeleg => True
    | ETwin => In (ef_type f) c03_enc_twin_proved \/ In (ef_type f) c03_enc_twin_explored
    | ESeparate => In (ef_type f) c03_enc_separate_proved \/ In (ef_type f) c03_enc_separate_explored
    end.
Proof.
  intros f Hin. pose proof all_encoders_ok as Hok. rewrite forallb_forall in Hok. specialize (Hok f Hin).
  assert (SM : forall x l, smem x l = true -> In x l).
  { intros x l H. unfold smem in H. apply existsb_exists in H. destruct H as [y [Hy He]]. apply String.eqb_eq in He. subst. exact Hy. }
  unfold enc_ok in Hok. destruct (ef_class f); try exact I; try (apply SM; exact Hok);
    (apply orb_prop in Hok; destruct Hok as [Hok|Hok]; [left|right]; apply SM; exact Hok).
Qed.

(* Encode with an idempotent prelude that EncodeSW repeats: same final state, same bytes, provided Size() covers what is written *)
Theorem enc_prelude_agree {S} (p : S -> S) (size : S -> N) (out : S -> option (list N)) (cap : N) (s : S) :
  (forall x, p (p x) = p x) ->
  (forall bs, out (p s) = Some bs -> N.of_nat (List.length bs) <= size (p s) /\ N.of_nat (List.length bs) <= cap) ->
  enc_prelude_w p size out s = enc_prelude_sw p cap out s.
Proof.
  intros Hp H. unfold enc_prelude_w, enc_prelude_sw. rewrite Hp. f_equal.
  destruct (out (p s)) as [bs|] eqn:E; [|reflexivity]. destruct (H bs eq_refl) as [H1 H2].
  unfold sw_run. apply N.leb_le in H1. apply N.leb_le in H2. rewrite H1, H2. reflexivity.
Qed.

(* Encode written as a call of EncodeSW produces what EncodeSW produces, provided Size() is at least the number of bytes
   written (and the caller's writer is large enough); the proviso is needed *)
Theorem enc_delegate_agree : forall size cap out,
  (forall bs, out = Some bs -> N.of_nat (List.length bs) <= size /\ N.of_nat (List.length bs) <= cap) ->
  enc_delegating_w size out = enc_direct_sw cap out.
Proof.
  intros size cap [bs|] H; [|reflexivity]. destruct (H bs eq_refl) as [H1 H2].
  unfold enc_delegating_w, enc_direct_sw, sw_run. apply N.leb_le in H1. apply N.leb_le in H2. rewrite H1, H2. reflexivity.
Qed.

Theorem enc_delegate_size_needed : exists size cap out, enc_delegating_w size out <> enc_direct_sw cap out.
Proof. exists 1, 2, (Some [0; 0]). vm_compute. discriminate. Qed.

Theorem confrec_enc_agree : forall hdr isize cap out,
  (forall bs, out = Some bs -> N.of_nat (List.length bs) <= isize /\ N.of_nat (List.length bs) <= cap) ->
  confrec_enc_w hdr isize out = confrec_enc_sw hdr cap out.
Proof.
  intros hdr isize cap out H. unfold confrec_enc_w, confrec_enc_sw. destruct hdr as [h|]; [|reflexivity].
  rewrite (enc_delegate_agree isize cap out H). reflexivity.
Qed.
