(* C03MetaModel.v — mp4/meta.go DecodeMeta (readBoxBody, then the SR decoder on a private reader) / DecodeMetaSR (DEFINITIONS ONLY):
     if hdr.payloadLen() >= 8 { err := sr.LookAhead(4, lookAheadData); if err != nil { return error } }
     QuickTime (the four bytes are "hdlr": the payload starts with a hdlr box): children from startPos+8;
     else versionAndFlags := sr.ReadUint32(), children from startPos+12;  DecodeContainerChildrenSR(hdr, startPos+offset, startPos+hdr.Size, sr);  return &b, nil *)
From V.lib Require Import Base.
From V.c04 Require Import C04Model.
From V.c03 Require Import C03Model C03LeafModel.
Open Scope N_scope.

Definition name_hdlr : list N := [104; 100; 108; 114].
Definition name_meta : list N := [109; 101; 116; 97].
Record metav := mkMeta { mt_qt : bool; mt_version : N; mt_flags : N; mt_kids : list tree }.
(* MetaBox.Size(): 4 + containerSize(children), minus 4 for a QuickTime atom *)
Definition meta_size (v : metav) : N := sum_sizes (mt_kids v) (if mt_qt v then 8 else 12).

Definition meta_sr (ld : leafdec) (fuel : nat) (h : hdr) (startPos : N) (s : sst) : res metav * sst :=
  match (if (8 <=? payload_len h)%Z then look_ahead 4 4 (sr s) else Ok (Some [0; 0; 0; 0])) with
  | Ok None => (Err, s)                                            (* could not look ahead in Meta box *)
  | Ok (Some d) =>
      if eqb_name d name_hdlr then
        match children_sr ld fuel (addu64 startPos 8) (addu64 startPos 8) (addu64 startPos (hsize h)) (rpos (sr s)) [] s with
        | (Ok kids, s2) => (Ok (mkMeta true 0 0 kids), s2)
        | (Err, s2) => (Err, s2) | (Panic, s2) => (Panic, s2) | (OutOfFuel, s2) => (OutOfFuel, s2)
        end
      else
        match read_fixed 4 (sr s) with
        | Ok (vf, r1) =>
            match children_sr ld fuel (addu64 startPos 12) (addu64 startPos 12) (addu64 startPos (hsize h)) (rpos r1) [] (mkS r1 (scost s)) with
            | (Ok kids, s2) => (Ok (mkMeta false (vf / 16777216) (N.land vf flags_mask) kids), s2)
            | (Err, s2) => (Err, s2) | (Panic, s2) => (Panic, s2) | (OutOfFuel, s2) => (OutOfFuel, s2)
            end
        | Err => (Err, s) | Panic => (Panic, s) | OutOfFuel => (OutOfFuel, s)
        end
  | Err => (Err, s) | Panic => (Panic, s) | OutOfFuel => (OutOfFuel, s)
  end.

Definition meta_r (ld : leafdec) (fuel : nat) (h : hdr) (startPos : N) (s : ist) : res metav * ist :=
  let '(rb, s1) := read_box_body h s in
  match rb with
  | Ok data => (fst (meta_sr ld fuel h startPos (mkS (rnew data) (icost s1))), s1)
  | Err => (Err, s1) | Panic => (Panic, s1) | OutOfFuel => (OutOfFuel, s1)
  end.

(* one meta box through DecodeBox / DecodeBoxSR (correspondence, C lines) *)
Definition metabox_r (bs : list N) : res (metav * N) :=
  match decode_header (inew bs) with
  | (Ok (HHdr h), s1) =>
      if eqb_name (hname h) name_meta then
        (let '(r, s2) := meta_r pair_leaves (S (length bs)) h 0 s1 in do v <- r; Ok (v, ipos s2))
      else Err
  | (Ok HEof, _) => Err
  | (Err, _) => Err | (Panic, _) => Panic | (OutOfFuel, _) => OutOfFuel
  end.
Definition metabox_sr (bs : list N) : res (metav * Z * bool) :=
  match decode_header_sr (snew bs) with
  | (Ok h, s1) =>
      let maxSize := addu64 (u64z (nr_remaining (sr s1))) (hlen h) in
      if (maxSize <? hsize h) then Err
      else if eqb_name (hname h) name_meta then
        (let '(r, s2) := meta_sr pair_leaves (S (length bs)) h 0 s1 in do v <- r; Ok (v, rpos (sr s2), rerr (sr s2)))
      else Err
  | (Err, _) => Err | (Panic, _) => Panic | (OutOfFuel, _) => OutOfFuel
  end.
