(* C03PfxModel.v — more separately written / delegating pairs whose payload is FIXED BYTES followed by CHILD BOXES (DEFINITIONS ONLY),
   one Gallina function per Go function:
     mp4/dref.go   DecodeDref (binary.Read x2 on r, DecodeContainerChildren on r, EntryCount test) / DecodeDrefSR          dref_r / dref_sr
     mp4/trep.go   DecodeTrep (readBoxBody, then the SR decoder on a private reader) / DecodeTrepSR                        trep_r / trep_sr
     mp4/wvtt.go   DecodeWvtt (readBoxBody + private reader) / DecodeWvttSR (8 fixed bytes, `for pos < endPos` DecodeBoxSR) wvtt_r / wvtt_sr
     mp4/audiosamplentry.go  DecodeAudioSampleEntry (readBoxBody, 28 fixed bytes on a private reader, then DecodeBox - the READER-path
                   box decoder - on a bytes.Reader over sr.RemainingBytes() until io.EOF) / DecodeAudioSampleEntrySR (28 fixed bytes,
                   `for pos < lastPos` DecodeBoxSR)                                                                         ase_r / ase_sr
   and the encoder pairs DrefBox, TrepBox, WvttBox, AudioSampleEntryBox Encode / EncodeSW: header, fixed bytes, every child.
   dref and trep have the layout of stsd (version/flags word, a second 32-bit word, children from startPos+16): cnt_sr / cnt_r are
   DecodeStsdSR / DecodeStsd with the final test as a parameter (stsd_sr = cnt_sr stsd_finish by definition unfolding).
   startPos is 0 in the correspondence (only differences of positions are used). *)
From V.lib Require Import Base.
From V.c04 Require Import C04Model.
From V.c03 Require Import C03Model C03LeafModel.
Open Scope N_scope.

(* ------------------------------------------------------------------ encoders: header, fixed bytes, children *)
(* X.Encode: EncodeHeader(b, w); the fixed bytes (binary.Write x2, or a scratch FixedSliceWriter whose written part goes to w); every child's Encode(w) *)
Definition pfx_enc_w (nm : list N) (size : N) (fixed : list N) (kids : list ebox) : res (list N) :=
  do hd <- enc_header_w nm size;
  do rest <- enc_list enc_w kids;
  Ok (hd ++ fixed ++ rest).
(* X.EncodeSW: EncodeHeaderSW(b, sw); sw.WriteUintN ...; every child's EncodeSW(sw) *)
Definition pfx_enc_sw (nm : list N) (size : N) (fixed : list N) (kids : list ebox) : res (list N) :=
  do hd <- enc_header_sw nm size;
  do rest <- enc_list enc_sw kids;
  Ok (hd ++ fixed ++ rest).

(* dref: versionAndFlags, EntryCount; trep: versionAndFlags, TrackID *)
Definition word2_fixed (version flags second : N) : list N :=
  be4 ((version * 16777216 + flags) mod 4294967296) ++ be4 (second mod 4294967296).
(* wvtt: 6 zero bytes, DataReferenceIndex *)
Definition wvtt_fixed (dri : N) : list N := repeat 0 6 ++ be2 dri.
(* audio sample entry: 6 zero bytes, DataReferenceIndex, 8 zero bytes, ChannelCount, SampleSize, 4 zero bytes, SampleRate << 16 *)
Definition ase_fixed (dri cc ss srate : N) : list N :=
  repeat 0 6 ++ be2 dri ++ repeat 0 8 ++ be2 cc ++ be2 ss ++ repeat 0 4 ++ be4 ((srate mod 65536) * 65536).

(* ------------------------------------------------------------------ dref / trep: the stsd layout *)
(* acc: the decoder ends `return b, sr.AccError()` (dref; a child such as a truncated mdat can leave the error set) or `return &b, nil` (trep) *)
Definition cnt_sr (fin : N -> N -> list tree -> res stsd) (acc : bool) (ld : leafdec) (fuel : nat) (h : hdr) (startPos : N) (s : sst) : res stsd * sst :=
  match read_fixed 4 (sr s) with
  | Ok (vf, r1) =>
      match read_fixed 4 r1 with
      | Ok (w2, r2) =>
          match children_sr ld fuel (addu64 startPos 16) (addu64 startPos 16) (addu64 startPos (hsize h)) (rpos r2) []
                            (mkS r2 (scost s)) with
          | (Ok kids, s2) => if acc && rerr (sr s2) then (Err, s2) else (fin vf w2 kids, s2)
          | (Err, s2) => (Err, s2) | (Panic, s2) => (Panic, s2) | (OutOfFuel, s2) => (OutOfFuel, s2)
          end
      | Err => (Err, s) | Panic => (Panic, s) | OutOfFuel => (OutOfFuel, s)
      end
  | Err => (Err, s) | Panic => (Panic, s) | OutOfFuel => (OutOfFuel, s)
  end.

Definition cnt_r (fin : N -> N -> list tree -> res stsd) (ld : leafdec) (fuel : nat) (h : hdr) (startPos : N) (s : ist) : res stsd * ist :=
  match read_full 4 s with
  | (RFOk b1, s1) =>
      match read_full 4 s1 with
      | (RFOk b2, s2) =>
          match children_r ld fuel (addu64 startPos 16) (addu64 startPos (hsize h)) [] s2 with
          | (Ok kids, s3) => (fin (be b1 0) (be b2 0) kids, s3)
          | (Err, s3) => (Err, s3) | (Panic, s3) => (Panic, s3) | (OutOfFuel, s3) => (OutOfFuel, s3)
          end
      | (_, s2) => (Err, s2)
      end
  | (_, s1) => (Err, s1)
  end.

(* DecodeDref / DecodeDrefSR: `if entryCount != dref.EntryCount` (uint32, counted by AddChild) *)
Definition dref_finish (vf cnt : N) (kids : list tree) : res stsd :=
  if negb (lenN kids mod 4294967296 =? cnt) then Err
  else Ok (mkStsd (vf / 16777216) (N.land vf flags_mask) (lenN kids mod 4294967296) kids).
Definition dref_sr := cnt_sr dref_finish true.
Definition dref_r := cnt_r dref_finish.

(* DecodeTrepSR: no test; the second word is the TrackID *)
Definition trep_finish (vf tid : N) (kids : list tree) : res stsd :=
  Ok (mkStsd (vf / 16777216) (N.land vf flags_mask) tid kids).
Definition trep_sr := cnt_sr trep_finish false.
(* DecodeTrep: readBoxBody, then DecodeTrepSR on bits.NewFixedSliceReader(data) *)
Definition trep_r (ld : leafdec) (fuel : nat) (h : hdr) (startPos : N) (s : ist) : res stsd * ist :=
  let '(rb, s1) := read_box_body h s in
  match rb with
  | Ok data => (fst (trep_sr ld fuel h startPos (mkS (rnew data) (icost s1))), s1)
  | Err => (Err, s1) | Panic => (Panic, s1) | OutOfFuel => (OutOfFuel, s1)
  end.

(* ------------------------------------------------------------------ fixed bytes, then `for pos < endPos { DecodeBoxSR(pos, sr) }` *)
(* pf: the reads of the fixed part (error-accumulating: a short read gives zeros and sets the reader's error);
   kpos: the constant added to startPos for the first child (header + fixed bytes);
   end_payload: endPos = startPos + uint64(hdr.Hdrlen + hdr.payloadLen()) (wvtt), else startPos + hdr.Size (audio);
   acc: the decoder ends `return b, sr.AccError()` (audio), else `return b, nil` (wvtt) *)
Record fpe (A : Type) := mkFpe { fp_pf : rstate -> res (A * rstate); fp_kpos : N; fp_end_payload : bool; fp_acc : bool }.
Arguments fp_pf {A}. Arguments fp_kpos {A}. Arguments fp_end_payload {A}. Arguments fp_acc {A}.

Definition fpe_sr {A} (e : fpe A) (ld : leafdec) (fuel : nat) (h : hdr) (startPos : N) (s : sst) : res (A * list tree) * sst :=
  match fp_pf e (sr s) with
  | Ok (a, r1) =>
      let pos := addu64 startPos (fp_kpos e) in
      let endPos := if fp_end_payload e then addu64 startPos (u64z (Z.of_N (hlen h) + payload_len h)) else addu64 startPos (hsize h) in
      match vse_kids ld fuel pos endPos [] (mkS r1 (scost s)) with
      | (Ok kids, s2) => if fp_acc e && rerr (sr s2) then (Err, s2) else (Ok (a, kids), s2)
      | (Err, s2) => (Err, s2) | (Panic, s2) => (Panic, s2) | (OutOfFuel, s2) => (OutOfFuel, s2)
      end
  | Err => (Err, s) | Panic => (Panic, s) | OutOfFuel => (OutOfFuel, s)
  end.

(* the delegating reader path: readBoxBody, then the SR decoder on a private reader *)
Definition fpe_deleg_r {A} (e : fpe A) (ld : leafdec) (fuel : nat) (h : hdr) (startPos : N) (s : ist) : res (A * list tree) * ist :=
  let '(rb, s1) := read_box_body h s in
  match rb with
  | Ok data => (fst (fpe_sr e ld fuel h startPos (mkS (rnew data) (icost s1))), s1)
  | Err => (Err, s1) | Panic => (Panic, s1) | OutOfFuel => (OutOfFuel, s1)
  end.

(* wvtt: sr.SkipBytes(6); DataReferenceIndex = sr.ReadUint16() *)
Definition wvtt_pf (r : rstate) : res (N * rstate) :=
  let r0 := skip_bytes 6 r in read_fixed 2 r0.
Definition wvtt_e : fpe N := mkFpe N wvtt_pf 16 true false.
Definition wvtt_sr := fpe_sr wvtt_e.
Definition wvtt_r := fpe_deleg_r wvtt_e.
Definition wvtt_size (v : N * list tree) : N := sum_sizes (snd v) 16.

(* audio sample entry: 28 fixed bytes *)
Record asev := mkAse { as_dri : N; as_cc : N; as_ss : N; as_rate : N }.
Definition ase_pf (r : rstate) : res (asev * rstate) :=
  let r0 := skip_bytes 6 r in
  do (dri, r1) <- read_fixed 2 r0;
  let r2 := skip_bytes 8 r1 in
  do (cc, r3) <- read_fixed 2 r2;
  do (ss, r4) <- read_fixed 2 r3;
  let r5 := skip_bytes 4 r4 in
  do (sr32, r6) <- read_fixed 4 r5;
  Ok (mkAse dri cc ss (sr32 / 65536), r6).                     (* makeUint16FromFixed32 *)
Definition ase_e : fpe asev := mkFpe asev ase_pf 36 false true.
Definition ase_sr := fpe_sr ase_e.
Definition ase_size (v : asev * list tree) : N := sum_sizes (snd v) 36.

(* DecodeAudioSampleEntry: the child loop runs the READER-path DecodeBox on a bytes.Reader over the rest of the body:
   `for { box, err := DecodeBox(pos, restReader); if err == io.EOF { break } else if err != nil { return nil, err };
          a.AddChild(box); pos += box.Size(); if pos == startPos+hdr.Size { break } else if pos > startPos+hdr.Size { return error } }` *)
Fixpoint ase_kids_r (ld : leafdec) (fuel : nat) (pos endPos : N) (acc : list tree) (s : ist) : res (list tree) * ist :=
  match fuel with
  | O => (OutOfFuel, s)
  | S f =>
      match dec_box_r ld f pos s with
      | (Ok BEof, s1) => (Ok (rev acc), s1)
      | (Ok (BBox box), s1) =>
          let pos' := addu64 pos (tsize box) in
          if pos' =? endPos then (Ok (rev (box :: acc)), s1)
          else if endPos <? pos' then (Err, s1)
          else ase_kids_r ld f pos' endPos (box :: acc) s1
      | (Err, s1) => (Err, s1) | (Panic, s1) => (Panic, s1) | (OutOfFuel, s1) => (OutOfFuel, s1)
      end
  end.

Definition ase_r (ld : leafdec) (fuel : nat) (h : hdr) (startPos : N) (s : ist) : res (asev * list tree) * ist :=
  let '(rb, s1) := read_box_body h s in
  match rb with
  | Ok data =>
      match ase_pf (rnew data) with
      | Ok (a, r1) =>
          match remaining_bytes r1 with                           (* remaining := sr.RemainingBytes(); restReader := bytes.NewReader(remaining) *)
          | Ok (rest, _) =>
              match ase_kids_r ld fuel (addu64 startPos 36) (addu64 startPos (hsize h)) [] (mkI rest 0 (icost s1)) with
              | (Ok kids, _) => (Ok (a, kids), s1)                (* return a, nil *)
              | (Err, _) => (Err, s1) | (Panic, _) => (Panic, s1) | (OutOfFuel, _) => (OutOfFuel, s1)
              end
          | Err => (Err, s1) | Panic => (Panic, s1) | OutOfFuel => (OutOfFuel, s1)
          end
      | Err => (Err, s1) | Panic => (Panic, s1) | OutOfFuel => (OutOfFuel, s1)
      end
  | Err => (Err, s1) | Panic => (Panic, s1) | OutOfFuel => (OutOfFuel, s1)
  end.

(* ------------------------------------------------------------------ evte, stpp: a prefix PROGRAM, then children while bytes remain *)
(* mp4/eventmessage.go DecodeEvteSR, mp4/stpp.go DecodeStppSR (both reader-path decoders: readBoxBody + private reader):
     initPos := sr.GetPos(); <prefix reads>; if err := sr.AccError(); err != nil { return nil, err }
     pos := startPos + uint64(hdr.Hdrlen+sr.GetPos()-initPos)
     for { rest := payloadLen - (sr.GetPos() - initPos); if rest <= 0 { break }; box, err := DecodeBoxSR(pos, sr); ...; pos += box.Size() }
     return &b, sr.AccError() *)
Fixpoint rel_kids (ld : leafdec) (fuel : nat) (plen initPos : Z) (pos : N) (acc : list tree) (s : sst) : res (list tree) * sst :=
  match fuel with
  | O => (OutOfFuel, s)
  | S f =>
      if (plen - (rpos (sr s) - initPos) <=? 0)%Z then (Ok (rev acc), s)
      else
        match dec_box_sr ld f pos s with
        | (Ok box, s1) => rel_kids ld f plen initPos (addu64 pos (tsize box)) (box :: acc) s1
        | (Err, s1) => (Err, s1) | (Panic, s1) => (Panic, s1) | (OutOfFuel, s1) => (OutOfFuel, s1)
        end
  end.

Definition xentry_sr {A} (p : Z -> xprog A) (ld : leafdec) (fuel : nat) (h : hdr) (startPos : N) (s : sst) : res (A * list tree) * sst :=
  let initPos := rpos (sr s) in
  match run_xprog initPos (p (payload_len h)) (sr s) with
  | Ok (a, r1) =>
      if rerr r1 then (Err, mkS r1 (scost s))
      else
        let pos := addu64 startPos (u64z (Z.of_N (hlen h) + rpos r1 - initPos)) in
        match rel_kids ld fuel (payload_len h) initPos pos [] (mkS r1 (scost s)) with
        | (Ok kids, s2) => if rerr (sr s2) then (Err, s2) else (Ok (a, kids), s2)
        | (Err, s2) => (Err, s2) | (Panic, s2) => (Panic, s2) | (OutOfFuel, s2) => (OutOfFuel, s2)
        end
  | Err => (Err, s) | Panic => (Panic, s) | OutOfFuel => (OutOfFuel, s)
  end.
Definition xentry_r {A} (p : Z -> xprog A) (ld : leafdec) (fuel : nat) (h : hdr) (startPos : N) (s : ist) : res (A * list tree) * ist :=
  let '(rb, s1) := read_box_body h s in
  match rb with
  | Ok data => (fst (xentry_sr p ld fuel h startPos (mkS (rnew data) (icost s1))), s1)
  | Err => (Err, s1) | Panic => (Panic, s1) | OutOfFuel => (OutOfFuel, s1)
  end.

(* counts handed to the string reads are Go ints computed from hdr.payloadLen(); outside [0, 2^61) (no such buffer exists) the model
   clamps them to 0, so that the programs are local for every header *)
Definition clampz (z : Z) : Z := if ((-2305843009213693952 <? z) && (z <? 2305843009213693952))%bool%Z then z else 0%Z.

(* evte: sr.SkipBytes(6); DataReferenceIndex = sr.ReadUint16() *)
Definition evte_prog (plen : Z) : xprog N :=
  XOp (RSkip 6) (fun _ => XOp RU16 (fun dri => XRet (vN dri))).

(* stpp: SkipBytes(6); ReadUint16; Namespace = ReadZeroTerminatedString(payloadLen - 8);
   `if maxLen := payloadLen - (sr.GetPos() - initPos); maxLen > 0 { SchemaLocation = ReadZeroTerminatedString(maxLen) } else { nrMissingOptionalEndBytes++ }`,
   the same for AuxiliaryMimeTypes.  Value: DataReferenceIndex, the three strings, nrMissingOptionalEndBytes *)
Record stppv := mkStpp { sp_dri : N; sp_ns : list N; sp_sl : list N; sp_am : list N; sp_missing : N }.
Definition vB (v : rval) : list N := match v with VBytes x => x | _ => [] end.
Definition stpp_prog (plen : Z) : xprog stppv :=
  XOp (RSkip 6) (fun _ => XOp RU16 (fun dri => XOp (RZStr (clampz (plen - 8))) (fun ns =>
    XRelPos (fun z1 =>
      if ((0 <=? z1) && (z1 <? 4611686018427387904))%bool%Z then
        (if (0 <? clampz (plen - z1))%Z then
           XOp (RZStr (clampz (plen - z1))) (fun sl =>
             XRelPos (fun z2 =>
               if ((0 <=? z2) && (z2 <? 4611686018427387904))%bool%Z then
                 (if (0 <? clampz (plen - z2))%Z then
                    XOp (RZStr (clampz (plen - z2))) (fun am => XRet (mkStpp (vN dri) (vB ns) (vB sl) (vB am) 0))
                  else XRet (mkStpp (vN dri) (vB ns) (vB sl) [] 1))
               else XFail))
         else
           (* SchemaLocation missing: the position has not moved, so AuxiliaryMimeTypes is missing too *)
           XRet (mkStpp (vN dri) (vB ns) [] [] 2))
      else XFail)))).

Definition evte_sr := xentry_sr evte_prog.
Definition evte_r := xentry_r evte_prog.
Definition stpp_sr := xentry_sr stpp_prog.
Definition stpp_r := xentry_r stpp_prog.
Definition evte_size (v : N * list tree) : N := sum_sizes (snd v) 16.
(* StppBox.Size(): 8 + 8 + len(Namespace)+1 + len(SchemaLocation)+1 + len(AuxiliaryMimeTypes)+1 - nrMissingOptionalEndBytes + children *)
Definition stpp_size (v : stppv * list tree) : N :=
  let a := fst v in
  sum_sizes (snd v) ((16 + lenN (sp_ns a) + 1 + lenN (sp_sl a) + 1 + lenN (sp_am a) + 1 + 18446744073709551616 - sp_missing a) mod 18446744073709551616).

(* ------------------------------------------------------------------ one box through DecodeBox / DecodeBoxSR (correspondence, C lines) *)
Definition name_dref : list N := [100; 114; 101; 102].
Definition name_trep : list N := [116; 114; 101; 112].
Definition name_wvtt : list N := [119; 118; 116; 116].
Definition is_ase_name (nm : list N) : bool :=
  existsb (eqb_name nm) [[109;112;52;97]; [101;110;99;97]; [97;99;45;51]; [101;99;45;51]].

Definition name_evte : list N := [101; 118; 116; 101].
Definition name_stpp : list N := [115; 116; 112; 112].
Inductive pfxval := PCnt (v : stsd) | PWvtt (v : N * list tree) | PAse (v : asev * list tree) | PEvte (v : N * list tree) | PStpp (v : stppv * list tree).
Definition pfxval_size (v : pfxval) : N :=
  match v with PCnt x => stsd_size x | PWvtt x => wvtt_size x | PAse x => ase_size x | PEvte x => evte_size x | PStpp x => stpp_size x end.

Definition pfxbox_r (bs : list N) : res (pfxval * N) :=
  match decode_header (inew bs) with
  | (Ok (HHdr h), s1) =>
      if eqb_name (hname h) name_dref then
        (let '(r, s2) := dref_r pair_leaves (S (length bs)) h 0 s1 in do v <- r; Ok (PCnt v, ipos s2))
      else if eqb_name (hname h) name_trep then
        (let '(r, s2) := trep_r pair_leaves (S (length bs)) h 0 s1 in do v <- r; Ok (PCnt v, ipos s2))
      else if eqb_name (hname h) name_wvtt then
        (let '(r, s2) := wvtt_r pair_leaves (S (length bs)) h 0 s1 in do v <- r; Ok (PWvtt v, ipos s2))
      else if is_ase_name (hname h) then
        (let '(r, s2) := ase_r pair_leaves (S (length bs)) h 0 s1 in do v <- r; Ok (PAse v, ipos s2))
      else if eqb_name (hname h) name_evte then
        (let '(r, s2) := evte_r pair_leaves (S (length bs)) h 0 s1 in do v <- r; Ok (PEvte v, ipos s2))
      else if eqb_name (hname h) name_stpp then
        (let '(r, s2) := stpp_r pair_leaves (S (length bs)) h 0 s1 in do v <- r; Ok (PStpp v, ipos s2))
      else Err
  | (Ok HEof, _) => Err
  | (Err, _) => Err | (Panic, _) => Panic | (OutOfFuel, _) => OutOfFuel
  end.

Definition pfxbox_sr (bs : list N) : res (pfxval * Z * bool) :=
  match decode_header_sr (snew bs) with
  | (Ok h, s1) =>
      let maxSize := addu64 (u64z (nr_remaining (sr s1))) (hlen h) in
      if (maxSize <? hsize h) then Err
      else if eqb_name (hname h) name_dref then
        (let '(r, s2) := dref_sr pair_leaves (S (length bs)) h 0 s1 in do v <- r; Ok (PCnt v, rpos (sr s2), rerr (sr s2)))
      else if eqb_name (hname h) name_trep then
        (let '(r, s2) := trep_sr pair_leaves (S (length bs)) h 0 s1 in do v <- r; Ok (PCnt v, rpos (sr s2), rerr (sr s2)))
      else if eqb_name (hname h) name_wvtt then
        (let '(r, s2) := wvtt_sr pair_leaves (S (length bs)) h 0 s1 in do v <- r; Ok (PWvtt v, rpos (sr s2), rerr (sr s2)))
      else if is_ase_name (hname h) then
        (let '(r, s2) := ase_sr pair_leaves (S (length bs)) h 0 s1 in do v <- r; Ok (PAse v, rpos (sr s2), rerr (sr s2)))
      else if eqb_name (hname h) name_evte then
        (let '(r, s2) := evte_sr pair_leaves (S (length bs)) h 0 s1 in do v <- r; Ok (PEvte v, rpos (sr s2), rerr (sr s2)))
      else if eqb_name (hname h) name_stpp then
        (let '(r, s2) := stpp_sr pair_leaves (S (length bs)) h 0 s1 in do v <- r; Ok (PStpp v, rpos (sr s2), rerr (sr s2)))
      else Err
  | (Err, _) => Err | (Panic, _) => Panic | (OutOfFuel, _) => OutOfFuel
  end.
