(* C03Spec.v — what "the same structure" means for canonical strings, and the contract of canonical leaves. *)
From V.lib Require Import Base.
From V.c04 Require Import C04Model.
From V.c03 Require Import C03Model.
Open Scope N_scope.

(* the tree both decode paths must build for the canonical string of c *)
Fixpoint erase (c : ctree) : tree :=
  match c with
  | CLeaf nm p => Leaf nm (8 + lenN p)
  | CNode nm kids => Node nm (map erase kids)
  | CLarge nm p => Leaf nm (16 + lenN p)
  end.

(* a leaf decoder pair accepts the canonical leaf (nm, payload) wherever it sits in a buffer:
   in a Go-sized buffer (< 2^63 bytes) it consumes exactly the payload, sets no error and reports Size() = 8 + len payload *)
Definition canon_leaf (ld : leafdec) (nm p : list N) : Prop :=
  ld_kind ld nm = KLeaf /\
  (forall pre post cst, (zlen (pre ++ p ++ post) < two63)%Z ->
      exists cst',
        ld_sr ld (mkH nm (8 + lenN p) 8) (mkS (mkR (pre ++ p ++ post) (zlen pre) false) cst)
        = (Ok (8 + lenN p), mkS (mkR (pre ++ p ++ post) (zlen pre + zlen p)%Z false) cst')) /\
  (forall pre post cst, (zlen (pre ++ p ++ post) < two63)%Z ->
      exists cst',
        ld_r ld (mkH nm (8 + lenN p) 8) (mkI (pre ++ p ++ post) (lenN pre) cst)
        = (Ok (8 + lenN p), mkI (pre ++ p ++ post) (lenN pre + lenN p) cst')).

(* the same contract for a leaf behind a 16-byte largesize header: Hdrlen = 16, Size = 16 + len payload, and the decoded
   box reports Size() = 16 + len payload (for mdat: LargeSize carried over from hdr.Hdrlen > 8 on BOTH paths) *)
Definition canon_large (ld : leafdec) (nm p : list N) : Prop :=
  ld_kind ld nm = KLeaf /\
  (forall pre post cst, (zlen (pre ++ p ++ post) < two63)%Z ->
      exists cst',
        ld_sr ld (mkH nm (16 + lenN p) 16) (mkS (mkR (pre ++ p ++ post) (zlen pre) false) cst)
        = (Ok (16 + lenN p), mkS (mkR (pre ++ p ++ post) (zlen pre + zlen p)%Z false) cst')) /\
  (forall pre post cst, (zlen (pre ++ p ++ post) < two63)%Z ->
      exists cst',
        ld_r ld (mkH nm (16 + lenN p) 16) (mkI (pre ++ p ++ post) (lenN pre) cst)
        = (Ok (16 + lenN p), mkI (pre ++ p ++ post) (lenN pre + lenN p) cst')).

Definition is_cont (k : kind) : bool := match k with KLeaf => false | _ => true end.

Fixpoint cwf (ld : leafdec) (c : ctree) : Prop :=
  match c with
  | CLeaf nm p => length nm = 4%nat /\ canon_leaf ld nm p
  | CNode nm kids =>
      length nm = 4%nat /\ is_cont (ld_kind ld nm) = true /\
      (fix all (l : list ctree) : Prop := match l with [] => True | k :: r => cwf ld k /\ all r end) kids
  | CLarge nm p => length nm = 4%nat /\ canon_large ld nm p
  end.
