(* C03Model.v — executable models (DEFINITIONS ONLY) of the separately written pairs
     mp4/container.go  EncodeContainer / EncodeContainerSW (+ EncodeHeader / EncodeHeaderSW)
     mp4/file.go       File.Encode / File.EncodeSW, mediasegment.go, fragment.go, initsegment.go Encode / EncodeSW
     mp4/file.go:DecodeFile loop / mp4/boxsr.go:DecodeFileSR loop (over the C04 box shapes)
   Leaves are opaque and shared: a leaf carries the result of its Encode(w) and of its EncodeSW(sw).
   The two container child loops and the two header decoders are the C04 models (C04Model.v).
   g = false is the pinned text (File.EncodeSW without mfra), g = true the repaired text. *)
From V.lib Require Import Base.
From V.c04 Require Import C04AsmModel.
Open Scope N_scope.

(* ------------------------------------------------------------------ box encoders *)
Inductive ebox :=
| ELeaf (w sw : res (list N))                       (* leaf.Encode(w) / leaf.EncodeSW(sw): bytes or error *)
| ECont (name : list N) (size : N) (kids : list ebox).

Definition be4 (n : N) : list N :=
  [(n / 16777216) mod 256; (n / 65536) mod 256; (n / 256) mod 256; n mod 256].

(* EncodeHeader(b, w): error if Size() >= 1<<32, else size and type *)
Definition enc_header_w (name : list N) (size : N) : res (list N) :=
  if 4294967296 <=? size then Err else Ok (be4 size ++ name).
(* EncodeHeaderSW(b, sw) *)
Definition enc_header_sw (name : list N) (size : N) : res (list N) :=
  if 4294967296 <=? size then Err else Ok (be4 size ++ name).

(* EncodeContainer(c, w): header, then every child's Encode(w), stopping at the first error *)
Fixpoint enc_w (b : ebox) : res (list N) :=
  match b with
  | ELeaf w _ => w
  | ECont nm size kids =>
      do h <- enc_header_w nm size;
      do rest <- (fix go (l : list ebox) : res (list N) :=
                    match l with [] => Ok [] | k :: r => do a <- enc_w k; do t <- go r; Ok (a ++ t) end) kids;
      Ok (h ++ rest)
  end.
(* EncodeContainerSW(c, sw) *)
Fixpoint enc_sw (b : ebox) : res (list N) :=
  match b with
  | ELeaf _ sw => sw
  | ECont nm size kids =>
      do h <- enc_header_sw nm size;
      do rest <- (fix go (l : list ebox) : res (list N) :=
                    match l with [] => Ok [] | k :: r => do a <- enc_sw k; do t <- go r; Ok (a ++ t) end) kids;
      Ok (h ++ rest)
  end.

Fixpoint enc_list (enc : ebox -> res (list N)) (l : list ebox) : res (list N) :=
  match l with [] => Ok [] | k :: r => do a <- enc k; do t <- enc_list enc r; Ok (a ++ t) end.

(* ------------------------------------------------------------------ file level *)
Record efrag := mkEF { ef_moof : bool; ef_mdat : bool; ef_children : list ebox }.
Record eseg := mkES { es_styp : option ebox; es_sidxs : list ebox; es_frags : list efrag }.
Record efile := mkE { e_frag : bool; e_boxtree : bool; e_init : option (list ebox); e_sidxs : list ebox;
                      e_segs : list eseg; e_mfra : option ebox; e_children : list ebox }.

Definition enc_opt (enc : ebox -> res (list N)) (o : option ebox) : res (list N) :=
  match o with Some b => enc b | None => Ok [] end.

(* Fragment.Encode *)
Definition frag_enc_w (fr : efrag) : res (list N) :=
  if negb (ef_moof fr) then Err else if negb (ef_mdat fr) then Err else enc_list enc_w (ef_children fr).
(* Fragment.EncodeSW *)
Definition frag_enc_sw (fr : efrag) : res (list N) :=
  if negb (ef_moof fr) then Err else if negb (ef_mdat fr) then Err else enc_list enc_sw (ef_children fr).

Fixpoint frags_enc (fe : efrag -> res (list N)) (l : list efrag) : res (list N) :=
  match l with [] => Ok [] | k :: r => do a <- fe k; do t <- frags_enc fe r; Ok (a ++ t) end.

(* MediaSegment.Encode *)
Definition seg_enc_w (sg : eseg) : res (list N) :=
  do a <- enc_opt enc_w (es_styp sg); do b <- enc_list enc_w (es_sidxs sg);
  do c <- frags_enc frag_enc_w (es_frags sg); Ok (a ++ b ++ c).
(* MediaSegment.EncodeSW *)
Definition seg_enc_sw (sg : eseg) : res (list N) :=
  do a <- enc_opt enc_sw (es_styp sg); do b <- enc_list enc_sw (es_sidxs sg);
  do c <- frags_enc frag_enc_sw (es_frags sg); Ok (a ++ b ++ c).

Fixpoint segs_enc (se : eseg -> res (list N)) (l : list eseg) : res (list N) :=
  match l with [] => Ok [] | k :: r => do a <- se k; do t <- segs_enc se r; Ok (a ++ t) end.

(* File.Encode *)
Definition file_enc_w (f : efile) : res (list N) :=
  if e_frag f && negb (e_boxtree f) then
    do a <- match e_init f with Some l => enc_list enc_w l | None => Ok [] end;
    do b <- enc_list enc_w (e_sidxs f);
    do c <- segs_enc seg_enc_w (e_segs f);
    do d <- enc_opt enc_w (e_mfra f);
    Ok (a ++ b ++ c ++ d)
  else enc_list enc_w (e_children f).
(* File.EncodeSW: the pinned text has no mfra clause *)
Definition file_enc_sw (g : bool) (f : efile) : res (list N) :=
  if e_frag f && negb (e_boxtree f) then
    do a <- match e_init f with Some l => enc_list enc_sw l | None => Ok [] end;
    do b <- enc_list enc_sw (e_sidxs f);
    do c <- segs_enc seg_enc_sw (e_segs f);
    do d <- (if g then enc_opt enc_sw (e_mfra f) else Ok []);
    Ok (a ++ b ++ c ++ d)
  else enc_list enc_sw (e_children f).

(* the shared-leaf hypothesis: every leaf encodes identically through both methods *)
Fixpoint agree (b : ebox) : bool :=
  match b with
  | ELeaf w sw => match w, sw with
                  | Ok a, Ok b => (fix eq (x y : list N) : bool :=
                                     match x, y with [] , [] => true | p :: x', q :: y' => (p =? q) && eq x' y' | _, _ => false end) a b
                  | Err, Err => true
                  | _, _ => false
                  end
  | ECont _ _ kids => (fix all (l : list ebox) : bool := match l with [] => true | k :: r => agree k && all r end) kids
  end.
Definition agree_list (l : list ebox) : bool := forallb agree l.
Definition agree_file (f : efile) : bool :=
  match e_init f with Some l => agree_list l | None => true end && agree_list (e_sidxs f) &&
  forallb (fun sg => match es_styp sg with Some b => agree b | None => true end && agree_list (es_sidxs sg) &&
                     forallb (fun fr => agree_list (ef_children fr)) (es_frags sg)) (e_segs f) &&
  match e_mfra f with Some b => agree b | None => true end && agree_list (e_children f).

(* ------------------------------------------------------------------ the two file decode loops over shapes *)
(* mp4/file.go DecodeFile, LoopBoxes (repaired text) *)
Fixpoint decode_file_r_loop (o : opts) (f : fstate) (last : btype) (pos : N) (boxes : list (topshape * N)) : res fstate :=
  match boxes with
  | [] => Ok f                                                  (* err == io.EOF: break *)
  | (t, size) :: rest =>
      do _ <-
        match t with
        | TMoov m => if negb (moov_complete m) then Err else Ok tt
        | TMdat p =>
            if f_frag f then (if is_moof last then Ok tt else Err)
            else match f_mdat f with
                 | Some old => if (0 <? old) && (0 <? p) then Err else Ok tt
                 | None => Ok tt
                 end
        | TMoof trafs => moof_senc_pass true f trafs
        | _ => Ok tt
        end;
      do f' <- add_child true o f t size pos;
      decode_file_r_loop o f' (btype_of t) (addu pos size) rest
  end.

(* mp4/boxsr.go DecodeFileSR, LoopBoxes (repaired text) *)
Fixpoint decode_file_sr_loop (o : opts) (f : fstate) (last : btype) (pos : N) (boxes : list (topshape * N)) : res fstate :=
  match boxes with
  | [] => Ok f                                                  (* sr.NrRemainingBytes() == 0: break *)
  | (t, size) :: rest =>
      do _ <-
        match t with
        | TMoov m => if negb (moov_complete m) then Err else Ok tt
        | TMdat p =>
            if f_frag f then (if is_moof last then Ok tt else Err)
            else match f_mdat f with
                 | Some old => if (0 <? old) && (0 <? p) then Err else Ok tt
                 | None => Ok tt
                 end
        | TMoof trafs => moof_senc_pass true f trafs
        | _ => Ok tt
        end;
      do f' <- add_child true o f t size pos;
      decode_file_sr_loop o f' (btype_of t) (addu pos size) rest
  end.

Definition clear_tfra (f : fstate) : fstate :=
  mkF (f_ftyp f) (f_moov f) (f_mdat f) (f_init f) (f_sidxs f) None (f_mfra f) (f_segs f) (f_children f) (f_frag f).

Definition decode_file_r (o : opts) (boxes : list (topshape * N)) : res fstate :=
  do tf <- (if o_ism o then find_and_read_mfra true boxes else Ok None);
  do f <- decode_file_r_loop o (mkF false None None None [] tf false [] [] false) BNone 0 boxes;
  Ok (clear_tfra f).                                            (* f.tfra = nil *)

Definition decode_file_sr (o : opts) (boxes : list (topshape * N)) : res fstate :=
  if o_lazy o then Err else decode_file_sr_loop o f0 BNone 0 boxes.

(* ------------------------------------------------------------------ canonical byte strings *)
(* A canonical string is what the encoders write for a tree: compact 8-byte headers whose size field is
   8 + the body length, or (CLarge) the 16-byte header EncodeHeaderWithSize writes for largeSize = true.
   Leaves carry their payload (opaque to the loops). *)
Inductive ctree :=
| CLeaf (name payload : list N)
| CNode (name : list N) (kids : list ctree)
| CLarge (name payload : list N).   (* a leaf written with the 16-byte largesize header: size field 1, 64-bit size
                                       16 + len payload (mdat with LargeSize set is the one box whose Encode writes it) *)

Definition be8 (n : N) : list N :=
  [(n / 72057594037927936) mod 256; (n / 281474976710656) mod 256; (n / 1099511627776) mod 256; (n / 4294967296) mod 256;
   (n / 16777216) mod 256; (n / 65536) mod 256; (n / 256) mod 256; n mod 256].

Fixpoint cenc (c : ctree) : list N :=
  match c with
  | CLeaf nm p => be4 (8 + lenN p) ++ nm ++ p
  | CNode nm kids =>
      let body := (fix go (l : list ctree) : list N := match l with [] => [] | k :: r => cenc k ++ go r end) kids in
      be4 (8 + lenN body) ++ nm ++ body
  | CLarge nm p => be4 1 ++ nm ++ be8 (16 + lenN p) ++ p
  end.
Fixpoint cencs (l : list ctree) : list N := match l with [] => [] | k :: r => cenc k ++ cencs r end.

(* ------------------------------------------------------------------ the two file loops at byte level *)
(* mp4/boxsr.go DecodeFileSR: `if sr.NrRemainingBytes() == 0 { break }; box, err = DecodeBoxSR(boxStartPos, sr)`;
   mp4/file.go DecodeFile: `box, err = DecodeBox(boxStartPos, r); if err == io.EOF { break }`;
   both: boxStartPos += box.Size().  The per-box assembly (AddChild ...) is the shape model above. *)
From V.c04 Require Import C04Model.

Fixpoint file_boxes_sr (ld : leafdec) (fuel : nat) (pos : N) (acc : list tree) (s : sst) : res (list tree) * sst :=
  match fuel with
  | O => (OutOfFuel, s)
  | S f =>
      if (nr_remaining (sr s) =? 0)%Z then (Ok (rev acc), s)
      else
        match dec_box_sr ld f pos s with
        | (Ok t, s1) => file_boxes_sr ld f (addu64 pos (tsize t)) (t :: acc) s1
        | (Err, s1) => (Err, s1) | (Panic, s1) => (Panic, s1) | (OutOfFuel, s1) => (OutOfFuel, s1)
        end
  end.

Fixpoint file_boxes_r (ld : leafdec) (fuel : nat) (pos : N) (acc : list tree) (s : ist) : res (list tree) * ist :=
  match fuel with
  | O => (OutOfFuel, s)
  | S f =>
      match dec_box_r ld f pos s with
      | (Ok BEof, s1) => (Ok (rev acc), s1)
      | (Ok (BBox t), s1) => file_boxes_r ld f (addu64 pos (tsize t)) (t :: acc) s1
      | (Err, s1) => (Err, s1) | (Panic, s1) => (Panic, s1) | (OutOfFuel, s1) => (OutOfFuel, s1)
      end
  end.

Definition file_sr (ld : leafdec) (bs : list N) : res (list tree) * sst :=
  file_boxes_sr ld (S (S (length bs))) 0 [] (snew bs).
Definition file_r (ld : leafdec) (bs : list N) : res (list tree) * ist :=
  file_boxes_r ld (S (S (length bs))) 0 [] (inew bs).
Open Scope N_scope.
