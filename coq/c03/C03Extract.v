(* Extraction of the C03 models for the correspondence check. ExtrOcamlBasic only. *)
From V.lib Require Import Base.
From V.c04 Require Import C04Model C04AsmModel C04XrefModel.
From V.c02 Require Import C02AggModel.
From V.c03 Require Import C03Model C03LeafModel C03SencPassModel C03EncHistModel C03PfxModel C03MetaModel C03SgpdModel.
Require Import ExtrOcamlBasic.
Separate Extraction
  w64 decode_file_r decode_file_sr file_enc_w file_enc_sw enc_w enc_sw ebox efile eseg efrag
  topshape trafshape sidxshape moovshape opts fstate
  obs_segment f_frag f_init f_mdat f_sidxs f_mfra f_children f_segs
  std_leaves pair_leaves box_r box_sr file_r file_sr tree tsize tname bout ist sst ipos sr rpos rerr
  leafbox_r leafbox_sr leafval leafval_size trun tsample senc mdatv
  entbox_r entbox_sr entval entval_size vse stsd top_leaves
  mdat_enc_w mdat_enc_sw stsd_enc_w stsd_enc_sw vse_enc_w vse_enc_sw
  progbox_r progbox_sr progbox_size
  decode_file_xr decode_file_xsr xtop passres picked_senc se_unparsed
  hfrag_agg hseg_agg hfile_agg hstep hop afile_seg_mode ob_wf aout
  pfxbox_r pfxbox_sr pfxval pfxval_size pfx_enc_w pfx_enc_sw word2_fixed wvtt_fixed ase_fixed
  metabox_r metabox_sr metav meta_size
  sgpdbox_r sgpdbox_sr sgpdv sgentry sgpd_size.
