(* C03Proofs.v — the separately written pairs agree. *)
From V.lib Require Import Base.
From V.c04 Require Import C04AsmModel.
From V.c03 Require Import C03Model.
Open Scope N_scope.

Section ebox_ind2.
  Variable P : ebox -> Prop.
  Hypothesis Hl : forall w sw, P (ELeaf w sw).
  Hypothesis Hc : forall nm size kids, Forall P kids -> P (ECont nm size kids).
  Fixpoint ebox_ind2 (b : ebox) : P b :=
    match b with
    | ELeaf w sw => Hl w sw
    | ECont nm size kids =>
        Hc nm size kids
           ((fix go (l : list ebox) : Forall P l :=
               match l with [] => Forall_nil _ | k :: r => Forall_cons _ (ebox_ind2 k) (go r) end) kids)
    end.
End ebox_ind2.

Lemma bytes_eqb_eq : forall a b,
  (fix eq (x y : list N) : bool :=
     match x, y with [], [] => true | p :: x', q :: y' => (p =? q) && eq x' y' | _, _ => false end) a b = true -> a = b.
Proof.
  induction a as [|p a IH]; destruct b as [|q b]; intros H; try discriminate; [reflexivity|].
  apply andb_prop in H. destruct H as [H1 H2]. apply N.eqb_eq in H1. subst. f_equal. apply IH. exact H2.
Qed.

Lemma enc_agree : forall b, agree b = true -> enc_w b = enc_sw b.
Proof.
  induction b as [w sw|nm size kids IH] using ebox_ind2; intros H.
  - cbn in *. destruct w, sw; try discriminate; try reflexivity. f_equal. apply bytes_eqb_eq. exact H.
  - cbn [agree enc_w enc_sw] in *. unfold enc_header_w, enc_header_sw.
    destruct (4294967296 <=? size); [reflexivity|]. cbn [rbind].
    assert (E : (fix go (l : list ebox) : res (list N) :=
                   match l with [] => Ok [] | k :: r => do a <- enc_w k; do t <- go r; Ok (a ++ t) end) kids
              = (fix go (l : list ebox) : res (list N) :=
                   match l with [] => Ok [] | k :: r => do a <- enc_sw k; do t <- go r; Ok (a ++ t) end) kids).
    { induction IH as [|k r Hk Hr IHr]; [reflexivity|].
      apply andb_prop in H. destruct H as [H1 H2]. rewrite (Hk H1). rewrite (IHr H2). reflexivity. }
    rewrite E. reflexivity.
Qed.

Lemma enc_list_agree : forall l, agree_list l = true -> enc_list enc_w l = enc_list enc_sw l.
Proof.
  induction l as [|k r IH]; intros H; [reflexivity|]. cbn [agree_list forallb] in H.
  apply andb_prop in H. destruct H as [H1 H2]. cbn [enc_list]. rewrite (enc_agree k H1), (IH H2). reflexivity.
Qed.

Lemma frags_agree : forall l, forallb (fun fr => agree_list (ef_children fr)) l = true ->
  frags_enc frag_enc_w l = frags_enc frag_enc_sw l.
Proof.
  induction l as [|k r IH]; intros H; [reflexivity|]. cbn [forallb] in H.
  apply andb_prop in H. destruct H as [H1 H2]. cbn [frags_enc]. rewrite (IH H2).
  unfold frag_enc_w, frag_enc_sw. rewrite (enc_list_agree _ H1). reflexivity.
Qed.

Lemma segs_agree : forall l,
  forallb (fun sg => match es_styp sg with Some b => agree b | None => true end && agree_list (es_sidxs sg) &&
                     forallb (fun fr => agree_list (ef_children fr)) (es_frags sg)) l = true ->
  segs_enc seg_enc_w l = segs_enc seg_enc_sw l.
Proof.
  induction l as [|sg r IH]; intros H; [reflexivity|]. cbn [forallb] in H.
  apply andb_prop in H. destruct H as [H1 H2]. apply andb_prop in H1. destruct H1 as [H1 H3].
  apply andb_prop in H1. destruct H1 as [H0 H1].
  cbn [segs_enc]. rewrite (IH H2). unfold seg_enc_w, seg_enc_sw.
  rewrite (enc_list_agree _ H1), (frags_agree _ H3).
  destruct (es_styp sg) as [b|]; cbn [enc_opt]; [rewrite (enc_agree b H0)|]; reflexivity.
Qed.

Theorem encode_agree : forall f, agree_file f = true -> file_enc_w f = file_enc_sw true f.
Proof.
  intros f H. unfold agree_file in H.
  apply andb_prop in H. destruct H as [H Hc]. apply andb_prop in H. destruct H as [H Hm].
  apply andb_prop in H. destruct H as [H Hs]. apply andb_prop in H. destruct H as [Hi Hx].
  unfold file_enc_w, file_enc_sw. destruct (e_frag f && negb (e_boxtree f)).
  - rewrite (enc_list_agree _ Hx), (segs_agree _ Hs).
    destruct (e_init f) as [l|]; [rewrite (enc_list_agree _ Hi)|];
      (destruct (e_mfra f) as [b|]; cbn [enc_opt]; [rewrite (enc_agree b Hm)|]; reflexivity).
  - apply enc_list_agree. exact Hc.
Qed.

Theorem box_encode_agree : forall b, agree b = true -> enc_w b = enc_sw b.
Proof. exact enc_agree. Qed.

(* the pinned File.EncodeSW drops the mfra box in segment mode *)
Definition mfra_file : efile :=
  mkE true false None [] [] (Some (ELeaf (Ok [0;0;0;8;109;102;114;97]) (Ok [0;0;0;8;109;102;114;97]))) [].
Theorem encode_sw_mfra_refuted :
  agree_file mfra_file = true /\ file_enc_w mfra_file = Ok [0;0;0;8;109;102;114;97] /\
  file_enc_sw false mfra_file = Ok [] /\ file_enc_sw true mfra_file = file_enc_w mfra_file.
Proof. repeat split; vm_compute; reflexivity. Qed.

(* ---- the two file decode loops *)
Lemma rbind_ext {A B} (r : res A) (k1 k2 : A -> res B) : (forall a, k1 a = k2 a) -> rbind r k1 = rbind r k2.
Proof. intros H. destruct r; cbn; auto. Qed.

Lemma loops_agree : forall boxes o f last pos,
  decode_file_sr_loop o f last pos boxes = decode_file_r_loop o f last pos boxes.
Proof.
  induction boxes as [|[t size] rest IH]; intros; [reflexivity|].
  cbn [decode_file_sr_loop decode_file_r_loop].
  apply rbind_ext. intros _. apply rbind_ext. intros f'. apply IH.
Qed.

Lemma ssin_tfra o f pos f' : start_segment_if_needed true o f pos = Ok f' -> f_tfra f' = f_tfra f.
Proof.
  unfold start_segment_if_needed. destruct (seg_start_raw true o f pos); cbn [rbind]; try discriminate.
  match goal with |- context [if ?c then _ else _] => destruct c end; intros H; inversion H; reflexivity.
Qed.

Lemma add_child_tfra o f t size pos f' : add_child true o f t size pos = Ok f' -> f_tfra f' = f_tfra f.
Proof.
  unfold add_child. intros H.
  destruct t; cbn [rbind] in H.
  - inversion H; reflexivity.
  - destruct (moov_stts true m) as [[[|p]|]| | |]; cbn [rbind] in H; try discriminate; inversion H; reflexivity.
  - inversion H; reflexivity.
  - destruct (f_segs f); cbn [rbind] in H; inversion H; reflexivity.
  - destruct (start_segment_if_needed true o f pos) as [f1| | |] eqn:E; cbn [rbind] in H; try discriminate.
    apply ssin_tfra in E. destruct (f_segs f1) as [|sg r]; [discriminate|].
    destruct (sg_frags sg); cbn [rbind] in H; inversion H; cbn; exact E.
  - destruct (start_segment_if_needed true o (set_segs f (f_segs f) true) pos) as [f1| | |] eqn:E; cbn [rbind] in H; try discriminate.
    apply ssin_tfra in E. destruct (f_segs f1) as [|sg r]; [discriminate|].
    destruct (sg_frags sg) as [|fr frs]; [|destruct (fr_moof fr)]; cbn [rbind] in H; inversion H; cbn; exact E.
  - destruct (negb (f_frag f)).
    + destruct (f_mdat f) as [[|p]|]; cbn [rbind] in H; inversion H; reflexivity.
    + destruct (f_segs f) as [|sg r]; [discriminate|]. destruct (sg_frags sg); [discriminate|].
      cbn [rbind] in H. inversion H; reflexivity.
  - inversion H; reflexivity.
  - inversion H; reflexivity.
Qed.

Lemma loop_tfra : forall boxes o f last pos f',
  decode_file_r_loop o f last pos boxes = Ok f' -> f_tfra f' = f_tfra f.
Proof.
  induction boxes as [|[t size] rest IH]; intros o f last pos f' H.
  - inversion H; reflexivity.
  - cbn [decode_file_r_loop] in H.
    match type of H with rbind ?pre _ = _ => destruct pre; cbn [rbind] in H; try discriminate end.
    destruct (add_child true o f t size pos) as [f1| | |] eqn:E; cbn [rbind] in H; try discriminate.
    apply IH in H. rewrite H. eapply add_child_tfra. exact E.
Qed.

Lemma clear_tfra_id f : f_tfra f = None -> clear_tfra f = f.
Proof. destruct f; cbn. intros ->. reflexivity. Qed.

(* same options (no ISM flag, no lazy mode: DecodeFileSR supports neither): the same File, i.e. the same
   grouping into init / segments / fragments, the same StartPos everywhere *)
Theorem file_agree : forall o boxes, o_ism o = false -> o_lazy o = false ->
  decode_file_sr o boxes = decode_file_r o boxes.
Proof.
  intros o boxes Hi Hl. unfold decode_file_sr, decode_file_r. rewrite Hi, Hl. cbn [rbind].
  rewrite loops_agree. change (mkF false None None None [] None false [] [] false) with f0.
  destruct (decode_file_r_loop o f0 BNone 0 boxes) as [f| | |] eqn:E; cbn [rbind]; try reflexivity.
  apply loop_tfra in E. rewrite clear_tfra_id; [reflexivity|exact E].
Qed.
