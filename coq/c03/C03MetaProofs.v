(* C03MetaProofs.v — DecodeMeta / DecodeMetaSR on canonical meta boxes: the ISO form (version/flags word, canonical children, the four bytes
   the decoder looks at - the size field of the first child - not spelling "hdlr") and the QuickTime form (canonical children, the first one
   named hdlr).  Both decoders accept with the same value; LookAhead sees the same four bytes on the private and on the caller's reader. *)
From V.lib Require Import Base.
From V.c04 Require Import C04Model C04ReaderProofs C04ContainerProofs.
From V.c03 Require Import C03Model C03Spec C03Proofs C03CanonProofs C03LeafModel C03LeafProofs C03LeafBoxProofs C03StsdProofs C03MetaModel.
Open Scope Z_scope.

(* LookAhead(4, 4 bytes) in the middle of a buffer: a and b are the first two words at the reader's position *)
Lemma look_ahead_mid pre a b rest : length a = 4%nat -> length b = 4%nat -> zlen (pre ++ a ++ b ++ rest) < two63 ->
  look_ahead 4 4 (mkR (pre ++ a ++ b ++ rest) (zlen pre) false) = Ok (Some b).
Proof.
  intros Ha Hb Hs. unfold look_ahead, rlen. cbn [rpos rbuf].
  assert (Za : zlen a = 4) by (unfold zlen; rewrite Ha; reflexivity).
  assert (Zb : zlen b = 4) by (unfold zlen; rewrite Hb; reflexivity).
  pose proof (zlen_nonneg pre). pose proof (zlen_nonneg rest).
  rewrite !zlen_app in *. rewrite Za, Zb in *.
  change (Z.of_N 4) with 4.
  rewrite (w64_id (zlen pre + 4)) by (unfold two63 in *; lia).
  rewrite (w64_id (zlen pre + 4 + 4)) by (unfold two63 in *; lia).
  replace (zlen pre + 4 + 4 >? zlen pre + (4 + (4 + zlen rest))) with false by lia.
  assert (E : pre ++ a ++ b ++ rest = (pre ++ a) ++ (b ++ rest) ++ []) by (rewrite app_nil_r, <- !app_assoc; reflexivity).
  pose proof (gslice_mid (pre ++ a) (b ++ rest) []) as G. rewrite <- E in G.
  rewrite !zlen_app in G. rewrite Za, Zb in G. change (zlen (@nil N)) with 0 in G.
  replace (zlen pre + 4 + (4 + zlen rest)) with (zlen pre + (4 + (4 + zlen rest))) in G by lia.
  rewrite G. cbn [rbind]. f_equal. f_equal.
  change (N.to_nat 4) with 4%nat. rewrite <- Hb. rewrite firstn_app, Nat.sub_diag, firstn_all. cbn [firstn]. rewrite app_nil_r. reflexivity.
Qed.

Section META.
Variable ld : leafdec.
Hypothesis LD : leaf_ok ld.
Variables (nm : list N) (kids : list ctree).
Hypothesis HW : Forall (cwf ld) kids.

(* ------------------------------------------------------------ children at the reader's position, from file position k0 *)
Lemma meta_kids_sr (k0 : N) (plen : N) pre' post cst fuel :
  zlen (pre' ++ cencs kids ++ post) < two63 -> zlen (pre' ++ cencs kids ++ post) - zlen pre' + 1 < Z.of_nat fuel ->
  (lenN (cencs kids) < 4294967296)%N -> (k0 <= 16)%N -> plen = (k0 + lenN (cencs kids))%N ->
  exists cst', children_sr ld fuel k0 k0 plen (zlen pre') [] {| sr := mkR (pre' ++ cencs kids ++ post) (zlen pre') false; scost := cst |}
               = (Ok (map erase kids), mkS (mkR (pre' ++ cencs kids ++ post) (zlen pre' + zlen (cencs kids)) false) cst').
Proof.
  intros Hs Hfuel Hl Hk Hp. subst plen.
  destruct (children_sr ld fuel k0 k0 (k0 + lenN (cencs kids))%N (zlen pre') []
              {| sr := mkR (pre' ++ cencs kids ++ post) (zlen pre') false; scost := cst |}) as [rk sk] eqn:Ek.
  destruct (sr_loops ld LD fuel) as [_ HK].
  assert (HI : Inv (sr {| sr := mkR (pre' ++ cencs kids ++ post) (zlen pre') false; scost := cst |})).
  { unfold Inv, rlen. cbn [sr rbuf rpos]. rewrite !zlen_app in *. pose proof (zlen_nonneg pre'). pose proof (zlen_nonneg post).
    pose proof (zlen_nonneg (cencs kids)). lia. }
  destruct (HK k0 k0 (k0 + lenN (cencs kids))%N (zlen pre') [] _ HI) as [rk' [sk' [Ek' [_ [NF _]]]]].
  rewrite Ek in Ek'. apply pair_equal_spec in Ek'. destruct Ek' as [Er Es]. subst rk' sk'.
  assert (Hno : rk <> OutOfFuel).
  { apply NF. unfold rem, rlen. cbn [sr rbuf rpos]. lia. }
  destruct (kids_canon_sr ld kids (all_canon_sr ld kids) HW fuel k0 k0 (k0 + lenN (cencs kids))%N (zlen pre') [] pre' post cst rk sk)
    as [Ho|[Ho Hsk]]; try exact Ek; try lia; try reflexivity; try exact Hs;
    try (pose proof (zlen_nonneg pre'); lia); try (rewrite N.sub_diag; lia); try contradiction.
  subst rk. cbn [rev app]. destruct sk as [rs cs]. cbn [sr] in Hsk. subst rs. exists cs. reflexivity.
Qed.

Lemma kids_pos_8 : (0 < lenN (cencs kids))%N -> (8 <= lenN (cencs kids))%N.
Proof.
  destruct kids as [|k r]; [unfold lenN; cbn; lia|]. intros _. pose proof (Forall_inv HW) as Hk.
  cbn [cencs]. rewrite lenN_app. pose proof (cenc_len_ge8 ld k Hk). lia.
Qed.

(* ------------------------------------------------------------ ISO form *)
Section ISO.
Variable vf : N.
Hypothesis Hvf : (vf < 4294967296)%N.
Let p : list N := be4 vf ++ cencs kids.
Hypothesis Hfit : (lenN p < 4294967288)%N.
(* the four bytes at offset 4 of the payload (the size field of the first child) are not "hdlr" *)
Hypothesis Hnq : eqb_name (firstn 4 (cencs kids)) name_hdlr = false.
Let h : hdr := mkH nm (8 + lenN p) 8.
Let v : metav := mkMeta false (vf / 16777216) (N.land vf flags_mask) (map erase kids).

Lemma lenN_piso : lenN p = (4 + lenN (cencs kids))%N.
Proof. unfold p. rewrite lenN_app. assert (lenN (be4 vf) = 4%N) by reflexivity. lia. Qed.

Lemma kids_first_word : (8 <= lenN (cencs kids))%N ->
  exists b rest, length b = 4%nat /\ cencs kids = b ++ rest /\ firstn 4 (cencs kids) = b.
Proof.
  intros H8. exists (firstn 4 (cencs kids)), (skipn 4 (cencs kids)). split; [|split].
  - rewrite firstn_length. unfold lenN in H8. lia.
  - symmetry. apply firstn_skipn.
  - reflexivity.
Qed.

Lemma meta_iso_sr_canon pre post cst fuel : zlen (pre ++ p ++ post) < two63 ->
  zlen (pre ++ p ++ post) - zlen pre < Z.of_nat fuel ->
  fst (meta_sr ld fuel h 0 (mkS (mkR (pre ++ p ++ post) (zlen pre) false) cst)) = Ok v.
Proof.
  intros Hs Hfuel. unfold meta_sr. cbn [sr scost]. pose proof lenN_piso as HLp.
  assert (Hpl : payload_len h = Z.of_N (lenN p)) by (unfold h; apply payload_len_canon; lia).
  rewrite Hpl.
  assert (E1 : pre ++ p ++ post = pre ++ be4 vf ++ (cencs kids ++ post)) by (unfold p; rewrite <- !app_assoc; reflexivity).
  assert (LA : (if 8 <=? Z.of_N (lenN p) then look_ahead 4 4 (mkR (pre ++ p ++ post) (zlen pre) false) else Ok (Some [0; 0; 0; 0]%N))
               = Ok (Some (if 8 <=? Z.of_N (lenN p) then firstn 4 (cencs kids) else [0; 0; 0; 0]%N))).
  { destruct (8 <=? Z.of_N (lenN p)) eqn:E8; [|reflexivity].
    destruct kids_first_word as [b [rest [Hb [Eb Fb]]]]; [apply kids_pos_8; lia|].
    rewrite Fb.
    assert (E1b : pre ++ p ++ post = pre ++ be4 vf ++ b ++ (rest ++ post)).
    { rewrite E1. rewrite Eb at 1. rewrite <- !app_assoc. reflexivity. }
    rewrite E1b. apply look_ahead_mid; [reflexivity|exact Hb|]. rewrite <- E1b. exact Hs. }
  rewrite LA.
  assert (Hq : eqb_name (if 8 <=? Z.of_N (lenN p) then firstn 4 (cencs kids) else [0; 0; 0; 0]%N) name_hdlr = false).
  { destruct (8 <=? Z.of_N (lenN p)); [exact Hnq|reflexivity]. }
  rewrite Hq.
  rewrite E1. rewrite (read_fixed_mid 4 pre (be4 vf) _ eq_refl) by (rewrite <- E1; exact Hs).
  rewrite be_be4 by exact Hvf. cbn [rpos].
  assert (E2 : pre ++ be4 vf ++ cencs kids ++ post = (pre ++ be4 vf) ++ cencs kids ++ post) by (rewrite <- !app_assoc; reflexivity).
  rewrite E2. replace (zlen pre + 4) with (zlen (pre ++ be4 vf)) by (rewrite zlen_app; reflexivity).
  change (addu64 0 12) with 12%N.
  assert (Ha : addu64 0 (hsize h) = (12 + lenN (cencs kids))%N) by (unfold h; cbn [hsize]; unfold addu64; rewrite N.mod_small; lia).
  rewrite Ha.
  destruct (meta_kids_sr 12 (12 + lenN (cencs kids))%N (pre ++ be4 vf) post cst fuel) as [c' E']; try lia; try reflexivity.
  { rewrite <- E2, <- E1. exact Hs. }
  { rewrite <- E2, <- E1. rewrite (zlen_app pre (be4 vf)). change (zlen (be4 vf)) with 4. lia. }
  rewrite E'. reflexivity.
Qed.
End ISO.

(* ------------------------------------------------------------ QuickTime form: the payload IS the children, the first one named hdlr *)
Section QT.
Hypothesis Hfit : (lenN (cencs kids) < 4294967288)%N.
Hypothesis Hq : eqb_name (firstn 4 (skipn 4 (cencs kids))) name_hdlr = true.
Let h : hdr := mkH nm (8 + lenN (cencs kids)) 8.
Let v : metav := mkMeta true 0 0 (map erase kids).

Lemma qt_len8 : (8 <= lenN (cencs kids))%N.
Proof.
  destruct kids as [|k r]; [cbn in Hq; discriminate|]. inversion HW; subst.
  cbn [cencs]. rewrite lenN_app. pose proof (cenc_len_ge8 ld k ltac:(assumption)). lia.
Qed.

Lemma meta_qt_sr_canon pre post cst fuel : zlen (pre ++ cencs kids ++ post) < two63 ->
  zlen (pre ++ cencs kids ++ post) - zlen pre + 1 < Z.of_nat fuel ->
  fst (meta_sr ld fuel h 0 (mkS (mkR (pre ++ cencs kids ++ post) (zlen pre) false) cst)) = Ok v.
Proof.
  intros Hs Hfuel. unfold meta_sr. cbn [sr scost]. pose proof qt_len8 as H8.
  assert (Hpl : payload_len h = Z.of_N (lenN (cencs kids))) by (unfold h; apply payload_len_canon; lia).
  rewrite Hpl. replace (8 <=? Z.of_N (lenN (cencs kids))) with true by lia.
  set (a := firstn 4 (cencs kids)). set (b := firstn 4 (skipn 4 (cencs kids))). set (rest := skipn 4 (skipn 4 (cencs kids))).
  assert (Ea : cencs kids = a ++ b ++ rest).
  { unfold a, b, rest. rewrite (firstn_skipn 4 (skipn 4 (cencs kids))). symmetry. apply firstn_skipn. }
  assert (La : length a = 4%nat) by (unfold a; rewrite firstn_length; unfold lenN in H8; lia).
  assert (Lb : length b = 4%nat) by (unfold b; rewrite firstn_length, skipn_length; unfold lenN in H8; lia).
  assert (LA : look_ahead 4 4 (mkR (pre ++ cencs kids ++ post) (zlen pre) false) = Ok (Some b)).
  { assert (Eb : pre ++ cencs kids ++ post = pre ++ a ++ b ++ (rest ++ post)).
    { rewrite Ea at 1. rewrite <- !app_assoc. reflexivity. }
    rewrite Eb. apply look_ahead_mid; [exact La|exact Lb|]. rewrite <- Eb. exact Hs. }
  rewrite LA. fold b in Hq. rewrite Hq.
  change (addu64 0 8) with 8%N.
  assert (Ha : addu64 0 (hsize h) = (8 + lenN (cencs kids))%N) by (unfold h; cbn [hsize]; unfold addu64; rewrite N.mod_small; lia).
  rewrite Ha. cbn [rpos].
  destruct (meta_kids_sr 8 (8 + lenN (cencs kids))%N pre post cst fuel) as [c' E']; try lia; try reflexivity; try assumption.
  rewrite E'. reflexivity.
Qed.
End QT.
End META.

(* ---------------------------------------------------------------- the pair *)
Theorem meta_pair_agree_canonical : forall ld, leaf_ok ld -> forall nm kids, Forall (cwf ld) kids ->
  (forall vf, (vf < 4294967296)%N -> (lenN (be4 vf ++ cencs kids) < 4294967288)%N ->
     eqb_name (firstn 4 (cencs kids)) name_hdlr = false ->
     forall pre post cst cst2 fuel,
     zlen (pre ++ (be4 vf ++ cencs kids) ++ post) < two63 -> zlen (pre ++ (be4 vf ++ cencs kids) ++ post) - zlen pre < Z.of_nat fuel ->
     let v := mkMeta false (vf / 16777216) (N.land vf flags_mask) (map erase kids) in
     let h := mkH nm (8 + lenN (be4 vf ++ cencs kids)) 8 in
     fst (meta_sr ld fuel h 0 (mkS (mkR (pre ++ (be4 vf ++ cencs kids) ++ post) (zlen pre) false) cst)) = Ok v /\
     fst (meta_r ld fuel h 0 (mkI (pre ++ (be4 vf ++ cencs kids) ++ post) (lenN pre) cst2)) = Ok v /\
     meta_size v = (8 + lenN (be4 vf ++ cencs kids))%N) /\
  ((lenN (cencs kids) < 4294967288)%N -> eqb_name (firstn 4 (skipn 4 (cencs kids))) name_hdlr = true ->
     forall pre post cst cst2 fuel,
     zlen (pre ++ cencs kids ++ post) < two63 -> zlen (pre ++ cencs kids ++ post) - zlen pre + 1 < Z.of_nat fuel ->
     let v := mkMeta true 0 0 (map erase kids) in
     let h := mkH nm (8 + lenN (cencs kids)) 8 in
     fst (meta_sr ld fuel h 0 (mkS (mkR (pre ++ cencs kids ++ post) (zlen pre) false) cst)) = Ok v /\
     fst (meta_r ld fuel h 0 (mkI (pre ++ cencs kids ++ post) (lenN pre) cst2)) = Ok v /\
     meta_size v = (8 + lenN (cencs kids))%N).
Proof.
  intros ld LD nm kids HW. split.
  - intros vf Hvf Hfit Hnq pre post cst cst2 fuel Hs Hf v h. subst v h.
    assert (HLp : lenN (be4 vf ++ cencs kids) = (4 + lenN (cencs kids))%N) by (rewrite lenN_app; assert (lenN (be4 vf) = 4%N) by reflexivity; lia).
    split; [exact (meta_iso_sr_canon ld LD nm kids HW vf Hvf Hfit Hnq pre post cst fuel Hs Hf)|]. split.
    + unfold meta_r. destruct (read_box_body_canon nm (be4 vf ++ cencs kids) pre post cst2 Hs Hfit) as [c2 HB]. rewrite HB. cbn [fst].
      assert (Hpb : zlen ([] ++ (be4 vf ++ cencs kids) ++ []) < two63).
      { rewrite app_nil_r. cbn [app]. rewrite !zlen_app in Hs. pose proof (zlen_nonneg pre). pose proof (zlen_nonneg post). rewrite zlen_app. lia. }
      pose proof (meta_iso_sr_canon ld LD nm kids HW vf Hvf Hfit Hnq [] [] c2 fuel Hpb) as E.
      cbn [app] in E. rewrite app_nil_r in E. change (zlen (@nil N)) with 0 in E. unfold rnew. cbn [icost]. apply E.
      rewrite !zlen_app in *. pose proof (zlen_nonneg post). pose proof (zlen_nonneg pre). lia.
    + unfold meta_size. cbn [mt_kids mt_qt]. rewrite (sum_sizes_erase ld) by (exact HW || lia). lia.
  - intros Hfit Hq pre post cst cst2 fuel Hs Hf v h. subst v h.
    split; [exact (meta_qt_sr_canon ld LD nm kids HW Hfit Hq pre post cst fuel Hs Hf)|]. split.
    + unfold meta_r. destruct (read_box_body_canon nm (cencs kids) pre post cst2 Hs Hfit) as [c2 HB]. rewrite HB. cbn [fst].
      assert (Hpb : zlen ([] ++ cencs kids ++ []) < two63).
      { rewrite app_nil_r. cbn [app]. rewrite !zlen_app in Hs. pose proof (zlen_nonneg pre). pose proof (zlen_nonneg post). lia. }
      pose proof (meta_qt_sr_canon ld LD nm kids HW Hfit Hq [] [] c2 fuel Hpb) as E.
      cbn [app] in E. rewrite app_nil_r in E. change (zlen (@nil N)) with 0 in E. unfold rnew. cbn [icost]. apply E.
      rewrite !zlen_app in *. pose proof (zlen_nonneg post). pose proof (zlen_nonneg pre). lia.
    + unfold meta_size. cbn [mt_kids mt_qt]. rewrite (sum_sizes_erase ld) by (exact HW || lia). lia.
Qed.
