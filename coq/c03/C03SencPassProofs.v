(* C03SencPassProofs.v — the second senc pass of the two file loops: the two transcriptions agree, the pass visits EVERY traf
   (each on its own), a pass that stops at a clear traf on one path only is a different function. *)
From V.lib Require Import Base.
From V.c04 Require Import C04AsmModel C04AllocModel C04XrefModel.
From V.c03 Require Import C03Model C03Proofs C03SencPassModel.
Open Scope N_scope.

Lemma traf_bodies_agree fm s tr : traf_body_sr fm s tr = traf_body_r fm s tr.
Proof. reflexivity. Qed.

Lemma moof_passes_agree fm s : forall trafs, moof_pass_sr fm s trafs = moof_pass_r fm s trafs.
Proof.
  induction trafs as [|tr rest IH]; [reflexivity|].
  cbn [moof_pass_sr moof_pass_r]. rewrite traf_bodies_agree, IH. reflexivity.
Qed.

Lemma xloops_agree : forall boxes o f fm last pos acc,
  decode_file_xsr_loop o f fm last pos boxes acc = decode_file_xr_loop o f fm last pos boxes acc.
Proof.
  induction boxes as [|b rest IH]; intros; [reflexivity|].
  cbn [decode_file_xsr_loop decode_file_xr_loop].
  rewrite moof_passes_agree.
  apply rbind_ext. intros r. apply rbind_ext. intros f'. apply IH.
Qed.

Lemma xloop_tfra : forall boxes o f fm last pos acc f' l,
  decode_file_xr_loop o f fm last pos boxes acc = Ok (f', l) -> f_tfra f' = f_tfra f.
Proof.
  induction boxes as [|b rest IH]; intros o f fm last pos acc f' l H.
  - inversion H; reflexivity.
  - cbn [decode_file_xr_loop] in H.
    match type of H with rbind ?pre _ = _ => destruct pre; cbn [rbind] in H; try discriminate end.
    destruct (add_child true o f (xb_shape b) (xb_size b) pos) as [f1| | |] eqn:E; cbn [rbind] in H; try discriminate.
    apply IH in H. rewrite H. eapply add_child_tfra. exact E.
Qed.

(* the two file loops, with the senc pass transcribed from each text: the same File and the same state of every traf's senc *)
Theorem file_agree_senc : forall o boxes, o_ism o = false -> o_lazy o = false ->
  decode_file_xsr o boxes = decode_file_xr o boxes.
Proof.
  intros o boxes Hi Hl. unfold decode_file_xsr, decode_file_xr. rewrite Hi, Hl. cbn [rbind].
  rewrite xloops_agree. change (mkF false None None None [] None false [] [] false) with f0.
  destruct (decode_file_xr_loop o f0 None BNone 0 boxes []) as [[f l]| | |] eqn:E; cbn [rbind fst snd]; try reflexivity.
  apply xloop_tfra in E. rewrite clear_tfra_id; [reflexivity|exact E].
Qed.

(* ---------------------------------------------------------------- the pass against its specification *)
Lemma traf_body_spec fm s tr : traf_body_r fm s tr = traf_spec fm s tr.
Proof.
  unfold traf_body_r, traf_spec. destruct (contains_senc tr) as [ok parsed].
  destruct (ok && negb parsed); cbn [negb]; [|reflexivity].
  destruct fm as [m|]; cbn [rbind]; [|reflexivity].
  destruct (xt_tfhd tr) as [tid|]; cbn [rbind]; [|reflexivity].
  destruct (moov_find m tid) as [[[|] [iv|]]|]; reflexivity.
Qed.

(* every traf is visited, each judged on its own: the pass succeeds with l iff l lists, in order, the result of every traf *)
Theorem senc_pass_all_trafs fm s : forall trafs l,
  moof_pass_r fm s trafs = Ok l <-> Forall2 (fun tr r => traf_spec fm s tr = Ok r) trafs l.
Proof.
  induction trafs as [|tr rest IH]; intros l.
  - cbn [moof_pass_r]. split; intros H; [inversion H; constructor|inversion H; reflexivity].
  - cbn [moof_pass_r]. rewrite traf_body_spec. split.
    + intros H. destruct (traf_spec fm s tr) as [r| | |] eqn:E; cbn [rbind] in H; try discriminate.
      destruct (moof_pass_r fm s rest) as [rs| | |] eqn:E2; cbn [rbind] in H; try discriminate.
      inversion H; subst. constructor; [exact E|]. apply IH. reflexivity.
    + intros H. inversion H as [|tr' r rest' rs H1 H2]; subst. rewrite H1. cbn [rbind].
      apply IH in H2. rewrite H2. reflexivity.
Qed.

(* and it fails iff some traf fails after all the earlier ones passed (first error in moof order) *)
Theorem senc_pass_first_error fm s : forall trafs,
  moof_pass_r fm s trafs = Err <->
  exists pre tr post rs, trafs = pre ++ tr :: post /\ Forall2 (fun t r => traf_spec fm s t = Ok r) pre rs /\ traf_spec fm s tr = Err.
Proof.
  induction trafs as [|tr rest IH].
  - cbn [moof_pass_r]. split; [discriminate|]. intros [pre [t [post [rs [H _]]]]]. destruct pre; discriminate.
  - cbn [moof_pass_r]. rewrite traf_body_spec. split.
    + intros H. destruct (traf_spec fm s tr) as [r| | |] eqn:E; cbn [rbind] in H; try discriminate.
      * destruct (moof_pass_r fm s rest) as [rs| | |] eqn:E2; cbn [rbind] in H; try discriminate.
        destruct (proj1 IH eq_refl) as [pre [t [post [rs [H1 [H2 H3]]]]]].
        exists (tr :: pre), t, post, (r :: rs). split; [rewrite H1; reflexivity|]. split; [constructor; assumption|exact H3].
      * exists [], tr, rest, []. split; [reflexivity|]. split; [constructor|exact E].
    + intros [pre [t [post [rs [H1 [H2 H3]]]]]]. destruct pre as [|p pre].
      * cbn in H1. inversion H1; subst. rewrite H3. reflexivity.
      * cbn in H1. inversion H1; subst. inversion H2 as [|? r ? rs' Hp Hr]; subst. rewrite Hp. cbn [rbind].
        assert (moof_pass_r fm s (pre ++ t :: post) = Err) as ->; [|reflexivity].
        apply IH. exists pre, t, post, rs'. split; [reflexivity|]. split; assumption.
Qed.

(* ---------------------------------------------------------------- `break` for `continue` on one path *)
(* moov: track 1 clear (avc1), track 2 encrypted (encv, tenc IV size 8); moof at 0 with traf(track 1){senc: 1 sample, 8 bytes},
   traf(track 2){senc: 1 sample, 8-byte IV}.  The reader path parses the second traf's senc, the changed SR path leaves it unparsed. *)
Definition brk_moov : moovctx := [(Some 1, EAV false None); (Some 2, EAV true (Some 8))].
Definition brk_trafs : list xtraf :=
  [ mkXT (Some 1) None None None [mkSenc false 100 0 1 [1;2;3;4;5;6;7;8]];
    mkXT (Some 2) None None None [mkSenc false 200 0 1 [1;2;3;4;5;6;7;8]] ].

Lemma senc_pass_break_differs :
  moof_pass_r (Some brk_moov) 0 brk_trafs = Ok [None; Some (1, 0, 8)] /\
  moof_pass_sr (Some brk_moov) 0 brk_trafs = Ok [None; Some (1, 0, 8)] /\
  moof_pass_sr_break (Some brk_moov) 0 brk_trafs = Ok [None; None].
Proof. split; [|split]; vm_compute; reflexivity. Qed.
