(* C03SencPassModel.v — the per-moof second senc pass of the two FILE loops (DEFINITIONS ONLY), each transcribed from its own Go text:
     mp4/file.go   DecodeFile,   LoopBoxes, case "moof"   ->  traf_body_r  / moof_pass_r  / decode_file_xr
     mp4/boxsr.go  DecodeFileSR, LoopBoxes, case "moof"   ->  traf_body_sr / moof_pass_sr / decode_file_xsr
   The functions both texts CALL (TrafBox.ContainsSencBox, MoovBox.IsEncrypted / GetSinf, TrafBox.ParseReadSenc,
   SencBox.ParseReadBox) exist once in Go and are the C04 models (C04XrefModel.contains_senc / moov_find /
   parse_read_senc_x, C04AllocModel.senc_parse), imported read-only.  The per-box assembly (File.AddChild ...) is
   C04AsmModel.add_child as in C03Model.decode_file_r_loop / decode_file_sr_loop.

   A top-level box is its C04 shape + size, and what the pass dereferences: for a moov the tracks (tkhd id, first sample
   entry clear / encrypted, tenc IV size), for a moof the trafs (tfhd id, saio offsets, sbgp / sgpd, the senc-like children with
   what the first phase kept).  Result of a file decode: the assembled File AND, per moof in file order, per traf in moof
   order, what ParseReadSenc left in the picked senc (None: it did not run) - so that a pass that stops early on ONE path
   is a different result. *)
From V.lib Require Import Base.
From V.c04 Require Import C04AsmModel C04AllocModel C04XrefModel.
From V.c03 Require Import C03Model.
Open Scope N_scope.

Definition passres := option (N * N * N).      (* len(IVs), len(SubSamples), perSampleIVSize handed to ParseReadBox *)

Record xtop := mkXTop { xb_shape : topshape; xb_size : N; xb_moov : moovctx; xb_trafs : list xtraf }.

(* ------------------------------------------------------------------ mp4/file.go *)
(* the body of `for _, traf := range moof.Trafs { if ok, parsed := traf.ContainsSencBox(); ok && !parsed { ... } }` *)
Definition traf_body_r (fmoov : option moovctx) (moofStart : N) (traf : xtraf) : res passres :=
  let '(ok, parsed) := contains_senc traf in
  if ok && negb parsed then
    (* isEncrypted := true; defaultIVSize := byte(0) *)
    do st <- match fmoov with
             | Some moov =>                                            (* if f.Moov != nil *)
                 match xt_tfhd traf with
                 | None => Err                                         (* traf box without tfhd *)
                 | Some trackID =>
                     (* isEncrypted = f.Moov.IsEncrypted(trackID); sinf := f.Moov.GetSinf(trackID);
                        if sinf != nil && sinf.Schi != nil && sinf.Schi.Tenc != nil { defaultIVSize = ...DefaultPerSampleIVSize } *)
                     let isEncrypted := match moov_find moov trackID with Some (enc, _) => enc | None => false end in
                     let defaultIVSize := match moov_find moov trackID with Some (_, Some iv) => iv | _ => 0 end in
                     Ok (isEncrypted, defaultIVSize)
                 end
             | None => Ok (true, 0)
             end;
    let '(isEncrypted, defaultIVSize) := st in
    if isEncrypted then                                                (* Don't do if encryption boxes still remain, but are not *)
      do x <- parse_read_senc_x traf defaultIVSize moofStart;          (* err = traf.ParseReadSenc(defaultIVSize, moof.StartPos) *)
      Ok (Some x)
    else Ok None
  else Ok None.

Fixpoint moof_pass_r (fmoov : option moovctx) (moofStart : N) (trafs : list xtraf) : res (list passres) :=
  match trafs with
  | [] => Ok []
  | traf :: rest =>
      do r <- traf_body_r fmoov moofStart traf;
      do rs <- moof_pass_r fmoov moofStart rest;
      Ok (r :: rs)
  end.

(* DecodeFile, LoopBoxes: fm is what f.Moov holds (nil before the first moov), acc the pass results so far (reversed) *)
Fixpoint decode_file_xr_loop (o : opts) (f : fstate) (fm : option moovctx) (last : btype) (pos : N) (boxes : list xtop)
         (acc : list (list passres)) : res (fstate * list (list passres)) :=
  match boxes with
  | [] => Ok (f, rev acc)                                       (* err == io.EOF: break *)
  | b :: rest =>
      let t := xb_shape b in
      let size := xb_size b in
      do r <-
        match t with
        | TMoov m => if negb (moov_complete m) then Err else Ok None
        | TMdat p =>
            if f_frag f then (if is_moof last then Ok None else Err)
            else match f_mdat f with
                 | Some old => if (0 <? old) && (0 <? p) then Err else Ok None
                 | None => Ok None
                 end
        | TMoof _ => do l <- moof_pass_r fm pos (xb_trafs b); Ok (Some l)
        | _ => Ok None
        end;
      do f' <- add_child true o f t size pos;
      let fm' := match t with TMoov _ => Some (xb_moov b) | _ => fm end in    (* File.AddChild: f.Moov = box *)
      decode_file_xr_loop o f' fm' (btype_of t) (addu pos size) rest (match r with Some l => l :: acc | None => acc end)
  end.

Definition topsizes (boxes : list xtop) : list (topshape * N) := map (fun b => (xb_shape b, xb_size b)) boxes.

Definition decode_file_xr (o : opts) (boxes : list xtop) : res (fstate * list (list passres)) :=
  do tf <- (if o_ism o then find_and_read_mfra true (topsizes boxes) else Ok None);
  do fr <- decode_file_xr_loop o (mkF false None None None [] tf false [] [] false) None BNone 0 boxes [];
  Ok (clear_tfra (fst fr), snd fr).                             (* f.tfra = nil *)

(* ------------------------------------------------------------------ mp4/boxsr.go *)
Definition traf_body_sr (fmoov : option moovctx) (moofStart : N) (traf : xtraf) : res passres :=
  let '(ok, parsed) := contains_senc traf in
  if ok && negb parsed then
    do st <- match fmoov with
             | Some moov =>
                 match xt_tfhd traf with
                 | None => Err
                 | Some trackID =>
                     let isEncrypted := match moov_find moov trackID with Some (enc, _) => enc | None => false end in
                     let defaultIVSize := match moov_find moov trackID with Some (_, Some iv) => iv | _ => 0 end in
                     Ok (isEncrypted, defaultIVSize)
                 end
             | None => Ok (true, 0)
             end;
    let '(isEncrypted, defaultIVSize) := st in
    if isEncrypted then
      do x <- parse_read_senc_x traf defaultIVSize moofStart;
      Ok (Some x)
    else Ok None
  else Ok None.

Fixpoint moof_pass_sr (fmoov : option moovctx) (moofStart : N) (trafs : list xtraf) : res (list passres) :=
  match trafs with
  | [] => Ok []
  | traf :: rest =>
      do r <- traf_body_sr fmoov moofStart traf;
      do rs <- moof_pass_sr fmoov moofStart rest;
      Ok (r :: rs)
  end.

Fixpoint decode_file_xsr_loop (o : opts) (f : fstate) (fm : option moovctx) (last : btype) (pos : N) (boxes : list xtop)
         (acc : list (list passres)) : res (fstate * list (list passres)) :=
  match boxes with
  | [] => Ok (f, rev acc)                                       (* sr.NrRemainingBytes() == 0: break *)
  | b :: rest =>
      let t := xb_shape b in
      let size := xb_size b in
      do r <-
        match t with
        | TMoov m => if negb (moov_complete m) then Err else Ok None
        | TMdat p =>
            if f_frag f then (if is_moof last then Ok None else Err)
            else match f_mdat f with
                 | Some old => if (0 <? old) && (0 <? p) then Err else Ok None
                 | None => Ok None
                 end
        | TMoof _ => do l <- moof_pass_sr fm pos (xb_trafs b); Ok (Some l)
        | _ => Ok None
        end;
      do f' <- add_child true o f t size pos;
      let fm' := match t with TMoov _ => Some (xb_moov b) | _ => fm end in
      decode_file_xsr_loop o f' fm' (btype_of t) (addu pos size) rest (match r with Some l => l :: acc | None => acc end)
  end.

Definition decode_file_xsr (o : opts) (boxes : list xtop) : res (fstate * list (list passres)) :=
  if o_lazy o then Err else decode_file_xsr_loop o f0 None BNone 0 boxes [].

(* ------------------------------------------------------------------ a realistic one-path change, for the refuted variant *)
(* the SR loop body restructured with early exits, `break` where `continue` was meant: a traf whose track is clear ends the loop,
   the trafs after it keep their unparsed senc *)
Fixpoint moof_pass_sr_break (fmoov : option moovctx) (moofStart : N) (trafs : list xtraf) : res (list passres) :=
  match trafs with
  | [] => Ok []
  | traf :: rest =>
      do r <- traf_body_sr fmoov moofStart traf;
      let '(ok, parsed) := contains_senc traf in
      match r with
      | None => if ok && negb parsed then Ok (None :: map (fun _ => None) rest)     (* break *)
                else do rs <- moof_pass_sr_break fmoov moofStart rest; Ok (r :: rs)
      | Some _ => do rs <- moof_pass_sr_break fmoov moofStart rest; Ok (r :: rs)
      end
  end.

(* the specification of the pass: every traf is visited, each on its own *)
Definition traf_spec (fmoov : option moovctx) (moofStart : N) (traf : xtraf) : res passres :=
  let '(ok, parsed) := contains_senc traf in
  if negb (ok && negb parsed) then Ok None
  else
    match fmoov with
    | None => do x <- parse_read_senc_x traf 0 moofStart; Ok (Some x)
    | Some moov =>
        match xt_tfhd traf with
        | None => Err
        | Some tid =>
            match moov_find moov tid with
            | Some (true, tenc) => do x <- parse_read_senc_x traf (match tenc with Some iv => iv | None => 0 end) moofStart; Ok (Some x)
            | _ => Ok None
            end
        end
    end.
