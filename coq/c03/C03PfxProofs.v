(* C03PfxProofs.v — the pairs of C03PfxModel.v.
   Encoders: header, fixed bytes, children: Encode = EncodeSW given agreeing children (DrefBox, TrepBox, WvttBox, AudioSampleEntryBox).
   Decoders on canonical payloads (fixed bytes, then canonical children decoded by ANY leaf pair satisfying the leaf contract):
   the counted layout (dref, trep) for every final test that accepts the payload; the fixed-prefix entries with the
   `for pos < endPos` child loop (wvtt; the SR decoder of the audio sample entries). *)
From V.lib Require Import Base.
From V.c04 Require Import C04Model C04ReaderProofs C04ContainerProofs.
From V.c03 Require Import C03Model C03Spec C03Proofs C03CanonProofs C03LeafModel C03LeafProofs C03LeafBoxProofs C03LeafEncProofs C03StsdProofs C03VseProofs C03PfxModel.
Open Scope Z_scope.

(* ---------------------------------------------------------------- encoders *)
Lemma pfx_enc_agree nm size fixed kids : agree_list kids = true ->
  pfx_enc_w nm size fixed kids = pfx_enc_sw nm size fixed kids.
Proof. intros H. unfold pfx_enc_w, pfx_enc_sw. rewrite (enc_list_agree _ H). reflexivity. Qed.

Lemma pfx_leaf_agrees nm size fixed kids : agree_list kids = true ->
  agree (ELeaf (pfx_enc_w nm size fixed kids) (pfx_enc_sw nm size fixed kids)) = true.
Proof.
  intros H. rewrite <- (pfx_enc_agree _ _ _ _ H). destruct (enc_list_np kids H) as [K1 K2].
  destruct (enc_header_w_np nm size) as [H1 H2].
  apply agree_leaf_same; unfold pfx_enc_w; destruct (enc_header_w nm size); try contradiction; cbn [rbind]; try discriminate;
    destruct (enc_list enc_w kids); try contradiction; cbn [rbind]; discriminate.
Qed.

(* ---------------------------------------------------------------- the counted layout: dref, trep *)
Section CNT.
Variable ld : leafdec.
Hypothesis LD : leaf_ok ld.
Variable fin : N -> N -> list tree -> res stsd.
Variable acc : bool.
Variables (nm : list N) (vf w2 : N) (kids : list ctree) (v : stsd).
Hypothesis Hvf : (vf < 4294967296)%N.
Hypothesis Hw2 : (w2 < 4294967296)%N.
Hypothesis HW : Forall (cwf ld) kids.
Hypothesis Hfin : fin vf w2 (map erase kids) = Ok v.
Let p : list N := be4 vf ++ be4 w2 ++ cencs kids.
Hypothesis Hfit : (lenN p < 4294967288)%N.
Let h : hdr := mkH nm (8 + lenN p) 8.

Lemma lenN_pc : lenN p = (8 + lenN (cencs kids))%N.
Proof. unfold p. rewrite !lenN_app. assert (lenN (be4 vf) = 4%N) by reflexivity. assert (lenN (be4 w2) = 4%N) by reflexivity. lia. Qed.

Lemma cnt_sr_canon pre post cst fuel : zlen (pre ++ p ++ post) < two63 ->
  zlen (pre ++ p ++ post) - zlen pre < Z.of_nat fuel ->
  exists cst', cnt_sr fin acc ld fuel h 0 (mkS (mkR (pre ++ p ++ post) (zlen pre) false) cst)
               = (Ok v, mkS (mkR (pre ++ p ++ post) (zlen pre + zlen p) false) cst').
Proof.
  intros Hs Hfuel. unfold cnt_sr. cbn [sr scost].
  assert (E1 : pre ++ p ++ post = pre ++ be4 vf ++ (be4 w2 ++ cencs kids ++ post)) by (unfold p; rewrite <- !app_assoc; reflexivity).
  rewrite E1. rewrite (read_fixed_mid 4 pre (be4 vf) _ eq_refl) by (rewrite <- E1; exact Hs).
  rewrite be_be4 by exact Hvf.
  assert (E2 : pre ++ be4 vf ++ be4 w2 ++ cencs kids ++ post = (pre ++ be4 vf) ++ be4 w2 ++ (cencs kids ++ post)) by (rewrite <- !app_assoc; reflexivity).
  rewrite E2. replace (zlen pre + 4) with (zlen (pre ++ be4 vf)) by (rewrite zlen_app; reflexivity).
  rewrite (read_fixed_mid 4 (pre ++ be4 vf) (be4 w2) _ eq_refl) by (rewrite <- E2, <- E1; exact Hs).
  rewrite be_be4 by exact Hw2. cbn [rpos].
  assert (E3 : (pre ++ be4 vf) ++ be4 w2 ++ cencs kids ++ post = ((pre ++ be4 vf) ++ be4 w2) ++ cencs kids ++ post) by (rewrite <- !app_assoc; reflexivity).
  set (pre' := (pre ++ be4 vf) ++ be4 w2).
  assert (Hp' : zlen (pre ++ be4 vf) + 4 = zlen pre') by (unfold pre'; rewrite (zlen_app _ (be4 w2)); reflexivity).
  assert (Hp8 : zlen pre' = zlen pre + 8) by (unfold pre'; rewrite !zlen_app; change (zlen (be4 vf)) with 4; change (zlen (be4 w2)) with 4; lia).
  rewrite E3, Hp'. fold pre'.
  pose proof lenN_pc as HLp.
  destruct (children_sr ld fuel (addu64 0 16) (addu64 0 16) (addu64 0 (hsize h)) (zlen pre') []
              {| sr := mkR (pre' ++ cencs kids ++ post) (zlen pre') false; scost := cst |}) as [rk sk] eqn:Ek.
  assert (Hbuf : pre' ++ cencs kids ++ post = pre ++ p ++ post) by (unfold pre'; rewrite <- E3, <- E2, <- E1; reflexivity).
  destruct (sr_loops ld LD fuel) as [_ HK].
  assert (HI : Inv (sr {| sr := mkR (pre' ++ cencs kids ++ post) (zlen pre') false; scost := cst |})).
  { unfold Inv, rlen. cbn [sr rbuf rpos]. rewrite Hbuf. rewrite !zlen_app in *. pose proof (zlen_nonneg pre). pose proof (zlen_nonneg post).
    pose proof (zlen_nonneg p). rewrite (zlen_lenN p) in *. lia. }
  destruct (HK (addu64 0 16) (addu64 0 16) (addu64 0 (hsize h)) (zlen pre') [] _ HI) as [rk' [sk' [Ek' [_ [NF _]]]]].
  rewrite Ek in Ek'. apply pair_equal_spec in Ek'. destruct Ek' as [Er Es]. subst rk' sk'.
  assert (Hno : rk <> OutOfFuel).
  { apply NF. unfold rem, rlen. cbn [sr rbuf rpos]. rewrite Hbuf. lia. }
  change (addu64 0 16) with 16%N in Ek. change (hsize h) with (8 + lenN p)%N in Ek.
  assert (Ha : addu64 0 (8 + lenN p) = (16 + lenN (cencs kids))%N) by (unfold addu64; rewrite N.mod_small; lia).
  rewrite Ha in Ek.
  destruct (kids_canon_sr ld kids (all_canon_sr ld kids) HW fuel 16%N 16%N (16 + lenN (cencs kids))%N (zlen pre') [] pre' post cst rk sk)
    as [Ho|[Ho Hsk]]; try exact Ek; try lia; try reflexivity; try (rewrite Hbuf; exact Hs);
    try (pose proof (zlen_nonneg pre'); lia); try (change (16 - 16)%N with 0%N; lia); try contradiction.
  subst rk. cbn [rev app]. destruct sk as [rs cs]. cbn [sr] in Hsk. subst rs. cbn [sr rerr]. rewrite andb_false_r. rewrite Hfin.
  exists cs. rewrite Hbuf. f_equal. f_equal. f_equal. rewrite Hp8. rewrite (zlen_lenN p), HLp, (zlen_lenN (cencs kids)). lia.
Qed.

Lemma cnt_r_canon pre post cst fuel : zlen (pre ++ p ++ post) < two63 ->
  zlen (pre ++ p ++ post) - zlen pre < Z.of_nat fuel ->
  exists cst', cnt_r fin ld fuel h 0 (mkI (pre ++ p ++ post) (lenN pre) cst)
               = (Ok v, mkI (pre ++ p ++ post) (lenN pre + lenN p) cst').
Proof.
  intros Hs Hfuel. unfold cnt_r.
  assert (E1 : pre ++ p ++ post = pre ++ be4 vf ++ (be4 w2 ++ cencs kids ++ post)) by (unfold p; rewrite <- !app_assoc; reflexivity).
  rewrite E1. rewrite read_full_mid4 by reflexivity.
  assert (E2 : pre ++ be4 vf ++ be4 w2 ++ cencs kids ++ post = (pre ++ be4 vf) ++ be4 w2 ++ (cencs kids ++ post)) by (rewrite <- !app_assoc; reflexivity).
  rewrite E2. replace (lenN pre + 4)%N with (lenN (pre ++ be4 vf)) by (rewrite lenN_app; reflexivity).
  rewrite read_full_mid4 by reflexivity.
  rewrite !be_be4 by (exact Hvf || exact Hw2).
  assert (E3 : (pre ++ be4 vf) ++ be4 w2 ++ cencs kids ++ post = ((pre ++ be4 vf) ++ be4 w2) ++ cencs kids ++ post) by (rewrite <- !app_assoc; reflexivity).
  set (pre' := (pre ++ be4 vf) ++ be4 w2).
  assert (Hp' : (lenN (pre ++ be4 vf) + 4 = lenN pre')%N) by (unfold pre'; rewrite (lenN_app _ (be4 w2)); reflexivity).
  assert (Hp8 : (lenN pre' = lenN pre + 8)%N) by (unfold pre'; rewrite !lenN_app; assert (lenN (be4 vf) = 4%N) by reflexivity; assert (lenN (be4 w2) = 4%N) by reflexivity; lia).
  rewrite E3, Hp'. fold pre'.
  pose proof lenN_pc as HLp.
  assert (Hbuf : pre' ++ cencs kids ++ post = pre ++ p ++ post) by (unfold pre'; rewrite <- E3, <- E2, <- E1; reflexivity).
  destruct (children_r ld fuel (addu64 0 16) (addu64 0 (hsize h)) [] (mkI (pre' ++ cencs kids ++ post) (lenN pre') cst)) as [rk sk] eqn:Ek.
  destruct (r_loops ld LD fuel) as [_ HK].
  assert (HI : IInv (mkI (pre' ++ cencs kids ++ post) (lenN pre') cst)).
  { unfold IInv, ip, il. cbn [ibuf ipos]. rewrite Hbuf, Hp8. rewrite <- !zlen_lenN. rewrite !zlen_app in *.
    pose proof (zlen_nonneg post). rewrite (zlen_lenN p) in *. rewrite (zlen_lenN pre) in *. lia. }
  destruct (HK (addu64 0 16) (addu64 0 (hsize h)) [] _ HI) as [rk' [sk' [Ek' [_ [NF _]]]]].
  rewrite Ek in Ek'. apply pair_equal_spec in Ek'. destruct Ek' as [Er Es]. subst rk' sk'.
  assert (Hno : rk <> OutOfFuel).
  { apply NF. unfold irem, ip, il. cbn [ibuf ipos]. rewrite Hbuf, Hp8. rewrite <- !zlen_lenN. rewrite (zlen_lenN pre) in *. lia. }
  change (addu64 0 16) with 16%N in Ek. change (hsize h) with (8 + lenN p)%N in Ek.
  assert (Ha : addu64 0 (8 + lenN p) = (16 + lenN (cencs kids))%N) by (unfold addu64; rewrite N.mod_small; lia).
  rewrite Ha in Ek.
  destruct (kids_canon_r ld kids (all_canon_r ld kids) HW fuel 16%N (16 + lenN (cencs kids))%N [] pre' post cst rk sk)
    as [Ho|[Ho [Hb Hp]]]; try exact Ek; try lia; try reflexivity; try (rewrite Hbuf; exact Hs); try contradiction.
  subst rk. cbn [rev app]. rewrite Hfin. destruct sk as [bk pk ck]. cbn [ibuf ipos] in Hb, Hp. subst bk pk.
  exists ck. rewrite Hbuf. f_equal. f_equal. lia.
Qed.

(* the delegating reader path (trep): readBoxBody, then the SR decoder on a private reader over the payload *)
Lemma cnt_deleg_r_canon pre post cst fuel : zlen (pre ++ p ++ post) < two63 -> zlen p < Z.of_nat fuel ->
  fst (let '(rb, s1) := read_box_body h (mkI (pre ++ p ++ post) (lenN pre) cst) in
       match rb with
       | Ok data => (fst (cnt_sr fin acc ld fuel h 0 (mkS (rnew data) (icost s1))), s1)
       | Err => (Err, s1) | Panic => (Panic, s1) | OutOfFuel => (OutOfFuel, s1)
       end) = Ok v.
Proof.
  intros Hs Hf. destruct (read_box_body_canon nm p pre post cst Hs Hfit) as [c2 HB]. fold h in HB. rewrite HB. cbn [fst].
  assert (Hpb : zlen ([] ++ p ++ []) < two63).
  { rewrite app_nil_r. cbn [app]. rewrite !zlen_app in Hs. pose proof (zlen_nonneg pre). pose proof (zlen_nonneg post). lia. }
  destruct (cnt_sr_canon [] [] c2 fuel Hpb) as [c' E'].
  { rewrite app_nil_r. cbn [app]. change (zlen (@nil N)) with 0. lia. }
  cbn [app] in E'. rewrite app_nil_r in E'. change (zlen (@nil N)) with 0 in E'. unfold rnew. cbn [icost]. rewrite E'. reflexivity.
Qed.
End CNT.

(* ---------------------------------------------------------------- fixed bytes, then the `for pos < endPos` child loop *)
Section FPE.
Variable ld : leafdec.
Hypothesis LD : leaf_ok ld.
Context {A : Type}.
Variable e : fpe A.
Variables (nm fx : list N) (kids : list ctree) (a : A).
Hypothesis HW : Forall (cwf ld) kids.
Let p : list N := fx ++ cencs kids.
Hypothesis Hfit : (lenN p < 4294967288)%N.
Let h : hdr := mkH nm (8 + lenN p) 8.
(* the fixed part: on the private reader over the payload and on the same bytes anywhere in a buffer it delivers a and stops behind fx *)
Hypothesis F0 : fp_pf e (at_ p 0) = Ok (a, at_ p (zlen fx)).
Hypothesis Ff : forall pre post, zlen (pre ++ p ++ post) < two63 -> fp_pf e (fr pre post (at_ p 0)) = Ok (a, fr pre post (at_ p (zlen fx))).
Hypothesis Hk : fp_kpos e = (8 + lenN fx)%N.

Lemma fpe_end : (if fp_end_payload e then addu64 0 (u64z (Z.of_N (hlen h) + payload_len h)) else addu64 0 (hsize h)) = (8 + lenN fx + lenN (cencs kids))%N.
Proof.
  assert (HL : lenN p = (lenN fx + lenN (cencs kids))%N) by (unfold p; apply lenN_app).
  destruct (fp_end_payload e).
  - unfold h. cbn [hlen]. rewrite payload_len_canon by lia. unfold u64z, two64. rewrite Z.mod_small by lia.
    unfold addu64. replace (Z.to_N (8 + Z.of_N (lenN p))) with (8 + lenN p)%N by lia. rewrite N.mod_small by lia. lia.
  - unfold h. cbn [hsize]. unfold addu64. rewrite N.mod_small by lia. lia.
Qed.

Theorem fpe_pair_agree_canonical : forall pre post cst cst2 fuel,
  zlen (pre ++ p ++ post) < two63 -> zlen (p ++ post) + 1 < Z.of_nat fuel ->
  fst (fpe_sr e ld fuel h 0 (mkS (mkR (pre ++ p ++ post) (zlen pre) false) cst)) = Ok (a, map erase kids) /\
  fst (fpe_deleg_r e ld fuel h 0 (mkI (pre ++ p ++ post) (lenN pre) cst2)) = Ok (a, map erase kids) /\
  sum_sizes (map erase kids) (8 + lenN fx) = (8 + lenN p)%N.
Proof.
  intros pre post cst cst2 fuel Hs Hf.
  assert (HL : lenN p = (lenN fx + lenN (cencs kids))%N) by (unfold p; apply lenN_app).
  assert (Hpb : zlen p < two63).
  { rewrite !zlen_app in Hs. pose proof (zlen_nonneg pre). pose proof (zlen_nonneg post). lia. }
  pose proof fpe_end as Hend.
  assert (Hpos : addu64 0 (fp_kpos e) = (8 + lenN fx)%N) by (rewrite Hk; unfold addu64; rewrite N.mod_small; lia).
  split; [|split].
  - unfold fpe_sr. cbn [sr scost].
    assert (Hfr0 : mkR (pre ++ p ++ post) (zlen pre) false = fr pre post (at_ p 0)).
    { unfold fr, at_. cbn [rbuf rpos rerr]. f_equal. lia. }
    rewrite Hfr0, (Ff pre post Hs). rewrite Hend, Hpos.
    assert (Est : {| sr := fr pre post (at_ p (zlen fx)); scost := cst |} = sr_at ((pre ++ fx) ++ cencs kids ++ post) (zlen (pre ++ fx)) cst).
    { unfold sr_at, fr, at_, p. cbn [rbuf rpos rerr]. f_equal. f_equal; [rewrite <- !app_assoc; reflexivity|rewrite zlen_app; lia]. }
    rewrite Est.
    destruct (vse_kids_canon ld LD kids HW ltac:(lia) fuel (8 + lenN fx)%N (8 + lenN fx + lenN (cencs kids))%N [] (pre ++ fx) post cst) as [c' E']; try lia.
    { replace ((pre ++ fx) ++ cencs kids ++ post) with (pre ++ p ++ post) by (unfold p; rewrite <- !app_assoc; reflexivity). exact Hs. }
    { unfold p in Hf. rewrite <- app_assoc in Hf. rewrite zlen_app in Hf. pose proof (zlen_nonneg fx). lia. }
    rewrite E'. cbn [sr sr_at rerr]. rewrite andb_false_r. reflexivity.
  - unfold fpe_deleg_r. destruct (read_box_body_canon nm p pre post cst2 Hs Hfit) as [c2 HB]. fold h in HB. rewrite HB. cbn [fst].
    unfold fpe_sr. cbn [sr scost icost]. change (rnew p) with (at_ p 0). rewrite F0. rewrite Hend, Hpos.
    assert (Est : {| sr := at_ p (zlen fx); scost := c2 |} = sr_at (fx ++ cencs kids ++ []) (zlen fx) c2).
    { unfold sr_at, at_, p. rewrite app_nil_r. reflexivity. }
    rewrite Est.
    destruct (vse_kids_canon ld LD kids HW ltac:(lia) fuel (8 + lenN fx)%N (8 + lenN fx + lenN (cencs kids))%N [] fx [] c2) as [c' E']; try lia.
    { rewrite app_nil_r. fold p. exact Hpb. }
    { rewrite app_nil_r. unfold p in Hf. rewrite <- app_assoc in Hf. rewrite !zlen_app in Hf. pose proof (zlen_nonneg post). pose proof (zlen_nonneg fx). lia. }
    rewrite E'. cbn [sr sr_at rerr]. rewrite andb_false_r. reflexivity.
  - rewrite (sum_sizes_erase ld) by (exact HW || lia). lia.
Qed.
End FPE.
