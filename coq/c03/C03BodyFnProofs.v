(* C03BodyFnProofs.v — two more classes of decoder pairs found by the source-fact extractor.

   BODY-FUNCTION pairs (avcC, hvcC, av1C, dac3, dec3 ...): the reader-path decoder is
       data, err := readBoxBody(r, hdr); if err != nil { return nil, err }; REST(data)
   and the SliceReader-path decoder is REST applied to sr.ReadBytes(hdr.payloadLen()) - bound to a local first (then
   `if sr.AccError() != nil { return nil, sr.AccError() }` may follow) or used in place -, REST not touching the reader: both are the SAME
   pure function F of the body bytes.  Whenever the body is present (what readBoxBody delivers: exactly payloadLen bytes), the SR decoder
   on the caller's reader, the body anywhere in the buffer and anything after it, returns F(body), stands at the end of the body
   and has accumulated no error.

   CONTAINER TWINS whose SR decoder ends `return b, sr.AccError()` (edts, sinf, stbl): on a canonical box - at ANY position of the caller's
   buffer, so at any nesting depth - the reader has no accumulated error after the children, so the extra test never fires and the
   decoder is the KCont decoder of C03_decode_agree_canonical. *)
From V.lib Require Import Base.
From V.c04 Require Import C04Model.
From V.c03 Require Import C03Model C03Spec C03CanonProofs.
Open Scope Z_scope.

Section BodyFn.
Context {A : Type}.
Variable F : list N -> res A.          (* REST: the pure function of the body both decoders apply (Err: it returns an error) *)

(* reader path: readBoxBody delivered `body`; REST(body) *)
Definition bodyfn_r (body : list N) : res A := F body.

(* SliceReader path: data := sr.ReadBytes(n) with n = hdr.payloadLen(); [if sr.AccError() != nil { return nil, sr.AccError() };] REST(data) *)
Definition bodyfn_sr (check_acc : bool) (n : Z) (s : rstate) : res (A * rstate) :=
  match read_bytes n s with
  | Ok (data, s1) => if check_acc && rerr s1 then Err else match F data with Ok a => Ok (a, s1) | Err => Err | Panic => Panic | OutOfFuel => OutOfFuel end
  | Err => Err | Panic => Panic | OutOfFuel => OutOfFuel
  end.

Theorem bodyfn_pair_agree : forall check_acc body pre post, zlen (pre ++ body ++ post) < two63 ->
  bodyfn_sr check_acc (zlen body) (mkR (pre ++ body ++ post) (zlen pre) false)
  = match bodyfn_r body with
    | Ok a => Ok (a, mkR (pre ++ body ++ post) (zlen pre + zlen body) false)
    | Err => Err | Panic => Panic | OutOfFuel => OutOfFuel
    end.
Proof.
  intros c body pre post Hs. unfold bodyfn_sr, bodyfn_r. rewrite read_bytes_mid by exact Hs.
  cbn [rerr]. rewrite andb_false_r. destruct (F body); reflexivity.
Qed.

(* the test of the accumulated error is needed only when the body is NOT there: then the variant with the test fails, the variant
   without it applies REST to the empty slice ReadBytes returns *)
Theorem bodyfn_short : forall check_acc n buf pos, 0 <= pos -> zlen buf - pos < n -> zlen buf < two63 ->
  bodyfn_sr check_acc n (mkR buf pos false) =
  if check_acc then Err else match F [] with Ok a => Ok (a, mkR buf pos true) | Err => Err | Panic => Panic | OutOfFuel => OutOfFuel end.
Proof.
  intros c n buf pos Hp Hn Hs. unfold bodyfn_sr, read_bytes. cbn [rerr rpos]. unfold rlen. cbn [rbuf].
  destruct (n <? 0) eqn:En.
  - unfold with_err. cbn [rbuf rpos rerr]. rewrite andb_true_r. destruct c; [reflexivity|]. destruct (F []); reflexivity.
  - replace (pos >? zlen buf - n) with true by lia. unfold with_err. cbn [rbuf rpos rerr]. rewrite andb_true_r.
    destruct c; [reflexivity|]. destruct (F []); reflexivity.
Qed.
End BodyFn.

(* ---------------------------------------------------------------- container twins with sr.AccError() *)
Section TwinAcc.
Variable ld : leafdec.

(* DecodeXxxSR of a twin whose last statement is `return b, sr.AccError()`: the KCont decoder, then the test *)
Definition twin_accerr_sr (fuel : nat) (sp : N) (s : sst) : res tree * sst :=
  match dec_box_sr ld fuel sp s with
  | (Ok t, s') => if rerr (sr s') then (Err, s') else (Ok t, s')
  | x => x
  end.

Theorem twin_accerr_canonical : forall c, cwf ld c -> fits c ->
  forall fuel sp pre post cst, zlen (pre ++ cenc c ++ post) < two63 -> (sp + lenN (cenc c) < 18446744073709551616)%N ->
    twin_accerr_sr fuel sp (sr_at (pre ++ cenc c ++ post) (zlen pre) cst) = dec_box_sr ld fuel sp (sr_at (pre ++ cenc c ++ post) (zlen pre) cst) /\
    (fst (dec_box_sr ld fuel sp (sr_at (pre ++ cenc c ++ post) (zlen pre) cst)) = OutOfFuel \/
     (fst (dec_box_sr ld fuel sp (sr_at (pre ++ cenc c ++ post) (zlen pre) cst)) = Ok (erase c) /\
      rerr (sr (snd (dec_box_sr ld fuel sp (sr_at (pre ++ cenc c ++ post) (zlen pre) cst)))) = false)).
Proof.
  intros c Hw Hf fuel sp pre post cst Hs Hsp. unfold twin_accerr_sr.
  destruct (dec_box_sr ld fuel sp (sr_at (pre ++ cenc c ++ post) (zlen pre) cst)) as [r s'] eqn:E.
  destruct (box_canon_sr_all ld c Hw Hf fuel sp pre post cst r s' Hs Hsp E) as [Ho|[Ho Hst]].
  - subst r. split; [reflexivity|]. left. reflexivity.
  - subst r. cbn [fst snd]. rewrite Hst. cbn [rerr]. split; [reflexivity|]. right. split; reflexivity.
Qed.
End TwinAcc.
