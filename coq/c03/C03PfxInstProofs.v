(* C03PfxInstProofs.v — the instances of C03PfxProofs.v: dref, trep, wvtt, and the audio sample entries (whose reader-path decoder has its
   own child loop over the READER-path box decoder). *)
From V.lib Require Import Base.
From V.c04 Require Import C04Model C04ReaderProofs C04ContainerProofs.
From V.c03 Require Import C03Model C03Spec C03Proofs C03CanonProofs C03LeafModel C03LeafProofs C03LeafBoxProofs C03StsdProofs C03VseProofs C03PfxModel C03PfxProofs.
Open Scope Z_scope.

Lemma kids_le_bytes ld : forall kids, Forall (cwf ld) kids -> (lenN kids <= lenN (cencs kids))%N.
Proof.
  intros kids HW. induction HW as [|k r Hk Hr IH]; [unfold lenN; cbn; lia|].
  cbn [cencs]. rewrite lenN_app, lenN_cons. pose proof (cenc_len_ge8 ld k Hk). lia.
Qed.

(* ---------------------------------------------------------------- dref *)
Theorem dref_pair_agree_canonical : forall ld, leaf_ok ld -> forall nm vf kids,
  (vf < 4294967296)%N -> Forall (cwf ld) kids ->
  (lenN (be4 vf ++ be4 (lenN kids) ++ cencs kids) < 4294967288)%N ->
  forall pre post cst cst2 fuel,
  zlen (pre ++ (be4 vf ++ be4 (lenN kids) ++ cencs kids) ++ post) < two63 ->
  zlen (pre ++ (be4 vf ++ be4 (lenN kids) ++ cencs kids) ++ post) - zlen pre < Z.of_nat fuel ->
  let v := mkStsd (vf / 16777216) (N.land vf flags_mask) (lenN kids) (map erase kids) in
  let h := mkH nm (8 + lenN (be4 vf ++ be4 (lenN kids) ++ cencs kids)) 8 in
  fst (dref_sr ld fuel h 0 (mkS (mkR (pre ++ (be4 vf ++ be4 (lenN kids) ++ cencs kids) ++ post) (zlen pre) false) cst)) = Ok v /\
  fst (dref_r ld fuel h 0 (mkI (pre ++ (be4 vf ++ be4 (lenN kids) ++ cencs kids) ++ post) (lenN pre) cst2)) = Ok v /\
  stsd_size v = (8 + lenN (be4 vf ++ be4 (lenN kids) ++ cencs kids))%N.
Proof.
  intros ld LD nm vf kids Hvf HW Hfit pre post cst cst2 fuel Hs Hf v h.
  assert (HLp : lenN (be4 vf ++ be4 (lenN kids) ++ cencs kids) = (8 + lenN (cencs kids))%N).
  { rewrite !lenN_app. assert (lenN (be4 vf) = 4%N) by reflexivity. assert (lenN (be4 (lenN kids)) = 4%N) by reflexivity. lia. }
  pose proof (kids_le_bytes ld kids HW) as Hle.
  assert (Hc32 : (lenN kids < 4294967296)%N) by lia.
  assert (Hfin : dref_finish vf (lenN kids) (map erase kids) = Ok v).
  { unfold dref_finish, v. assert (E : lenN (map erase kids) = lenN kids) by (unfold lenN; rewrite map_length; reflexivity).
    rewrite E. rewrite N.mod_small by exact Hc32. rewrite N.eqb_refl. reflexivity. }
  destruct (cnt_sr_canon ld LD dref_finish true nm vf (lenN kids) kids v Hvf Hc32 HW Hfin Hfit pre post cst fuel Hs Hf) as [c1 E1].
  destruct (cnt_r_canon ld LD dref_finish nm vf (lenN kids) kids v Hvf Hc32 HW Hfin Hfit pre post cst2 fuel Hs Hf) as [c2 E2].
  unfold dref_sr, dref_r, h. rewrite E1, E2. split; [reflexivity|]. split; [reflexivity|].
  unfold stsd_size, v. cbn [sd_kids]. rewrite (sum_sizes_erase ld) by (exact HW || lia). unfold addu64. rewrite N.mod_small by lia. lia.
Qed.

(* ---------------------------------------------------------------- trep *)
Theorem trep_pair_agree_canonical : forall ld, leaf_ok ld -> forall nm vf tid kids,
  (vf < 4294967296)%N -> (tid < 4294967296)%N -> Forall (cwf ld) kids ->
  (lenN (be4 vf ++ be4 tid ++ cencs kids) < 4294967288)%N ->
  forall pre post cst cst2 fuel,
  zlen (pre ++ (be4 vf ++ be4 tid ++ cencs kids) ++ post) < two63 ->
  zlen (pre ++ (be4 vf ++ be4 tid ++ cencs kids) ++ post) - zlen pre < Z.of_nat fuel ->
  let v := mkStsd (vf / 16777216) (N.land vf flags_mask) tid (map erase kids) in
  let h := mkH nm (8 + lenN (be4 vf ++ be4 tid ++ cencs kids)) 8 in
  fst (trep_sr ld fuel h 0 (mkS (mkR (pre ++ (be4 vf ++ be4 tid ++ cencs kids) ++ post) (zlen pre) false) cst)) = Ok v /\
  fst (trep_r ld fuel h 0 (mkI (pre ++ (be4 vf ++ be4 tid ++ cencs kids) ++ post) (lenN pre) cst2)) = Ok v /\
  stsd_size v = (8 + lenN (be4 vf ++ be4 tid ++ cencs kids))%N.
Proof.
  intros ld LD nm vf tid kids Hvf Htid HW Hfit pre post cst cst2 fuel Hs Hf v h.
  assert (HLp : lenN (be4 vf ++ be4 tid ++ cencs kids) = (8 + lenN (cencs kids))%N).
  { rewrite !lenN_app. assert (lenN (be4 vf) = 4%N) by reflexivity. assert (lenN (be4 tid) = 4%N) by reflexivity. lia. }
  assert (Hfin : trep_finish vf tid (map erase kids) = Ok v) by reflexivity.
  destruct (cnt_sr_canon ld LD trep_finish false nm vf tid kids v Hvf Htid HW Hfin Hfit pre post cst fuel Hs Hf) as [c1 E1].
  assert (Hf2 : zlen (be4 vf ++ be4 tid ++ cencs kids) < Z.of_nat fuel).
  { rewrite !zlen_app in *. pose proof (zlen_nonneg post). lia. }
  pose proof (cnt_deleg_r_canon ld LD trep_finish false nm vf tid kids v Hvf Htid HW Hfin Hfit pre post cst2 fuel Hs Hf2) as E2.
  unfold trep_sr, trep_r, h. rewrite E1. split; [reflexivity|]. split; [exact E2|].
  unfold stsd_size, v. cbn [sd_kids]. rewrite (sum_sizes_erase ld) by (exact HW || lia). unfold addu64. rewrite N.mod_small by lia. lia.
Qed.

(* ---------------------------------------------------------------- the fixed parts of wvtt (8 bytes) and of the audio sample entries (28) *)
Lemma wvtt_pf_agree p : 8 <= zlen p -> zlen p < two63 ->
  exists dri, wvtt_pf (at_ p 0) = Ok (dri, at_ p 8) /\
  forall pre post, zlen (pre ++ p ++ post) < two63 -> wvtt_pf (fr pre post (at_ p 0)) = Ok (dri, fr pre post (at_ p 8)).
Proof.
  intros Hlen Hb. unfold wvtt_pf.
  destruct (skip_at p 0 6) as [S1 S1f]; try lia.
  destruct (rfix_at p (0 + 6) 2) as [l1 [_ [R1 R1f]]]; try lia.
  exists (be l1 0). split.
  - rewrite S1, R1. reflexivity.
  - intros pre post Hs. rewrite (S1f pre post Hs), R1f. reflexivity.
Qed.

Lemma ase_pf_agree p : 28 <= zlen p -> zlen p < two63 ->
  exists a, ase_pf (at_ p 0) = Ok (a, at_ p 28) /\
  forall pre post, zlen (pre ++ p ++ post) < two63 -> ase_pf (fr pre post (at_ p 0)) = Ok (a, fr pre post (at_ p 28)).
Proof.
  intros Hlen Hb. unfold ase_pf.
  destruct (skip_at p 0 6) as [S1 S1f]; try lia.
  destruct (rfix_at p (0 + 6) 2) as [l1 [_ [R1 R1f]]]; try lia.
  destruct (skip_at p (0 + 6 + 2) 8) as [S2 S2f]; try lia.
  destruct (rfix_at p (0 + 6 + 2 + 8) 2) as [l2 [_ [R2 R2f]]]; try lia.
  destruct (rfix_at p (0 + 6 + 2 + 8 + 2) 2) as [l3 [_ [R3 R3f]]]; try lia.
  destruct (skip_at p (0 + 6 + 2 + 8 + 2 + 2) 4) as [S3 S3f]; try lia.
  destruct (rfix_at p (0 + 6 + 2 + 8 + 2 + 2 + 4) 4) as [l4 [_ [R4 R4f]]]; try lia.
  eexists. split.
  - rewrite S1, R1. cbn [rbind]. rewrite S2, R2. cbn [rbind]. rewrite R3. cbn [rbind]. rewrite S3, R4. cbn [rbind]. reflexivity.
  - intros pre post Hs. rewrite (S1f pre post Hs), R1f. cbn [rbind]. rewrite (S2f pre post Hs), R2f. cbn [rbind]. rewrite R3f. cbn [rbind].
    rewrite (S3f pre post Hs), R4f. cbn [rbind]. reflexivity.
Qed.

(* wvtt: DecodeWvtt (readBoxBody + private reader) and DecodeWvttSR on every canonical payload: 8 fixed bytes, canonical children *)
Theorem wvtt_pair_agree_canonical : forall ld, leaf_ok ld -> forall nm fx kids,
  length fx = 8%nat -> Forall (cwf ld) kids -> (lenN (fx ++ cencs kids) < 4294967288)%N ->
  forall pre post cst cst2 fuel,
  zlen (pre ++ (fx ++ cencs kids) ++ post) < two63 -> zlen ((fx ++ cencs kids) ++ post) + 1 < Z.of_nat fuel ->
  exists dri,
    fst (wvtt_sr ld fuel (mkH nm (8 + lenN (fx ++ cencs kids)) 8) 0 (mkS (mkR (pre ++ (fx ++ cencs kids) ++ post) (zlen pre) false) cst)) = Ok (dri, map erase kids) /\
    fst (wvtt_r ld fuel (mkH nm (8 + lenN (fx ++ cencs kids)) 8) 0 (mkI (pre ++ (fx ++ cencs kids) ++ post) (lenN pre) cst2)) = Ok (dri, map erase kids) /\
    wvtt_size (dri, map erase kids) = (8 + lenN (fx ++ cencs kids))%N.
Proof.
  intros ld LD nm fx kids Hfx HW Hfit pre post cst cst2 fuel Hs Hf.
  assert (Hz8 : zlen fx = 8) by (unfold zlen; rewrite Hfx; reflexivity).
  assert (Hl8 : lenN fx = 8%N) by (unfold lenN; rewrite Hfx; reflexivity).
  assert (Hpb : zlen (fx ++ cencs kids) < two63).
  { rewrite !zlen_app in Hs. pose proof (zlen_nonneg pre). pose proof (zlen_nonneg post). rewrite zlen_app. lia. }
  destruct (wvtt_pf_agree (fx ++ cencs kids)) as [dri [F0 Ff]]; [rewrite zlen_app; pose proof (zlen_nonneg (cencs kids)); lia|exact Hpb|].
  exists dri.
  destruct (fpe_pair_agree_canonical ld LD wvtt_e nm fx kids dri HW Hfit) with (pre := pre) (post := post) (cst := cst) (cst2 := cst2) (fuel := fuel)
    as [E1 [E2 E3]]; try assumption.
  { rewrite Hz8. exact F0. }
  { rewrite Hz8. exact Ff. }
  { cbn [wvtt_e fp_kpos]. rewrite Hl8. reflexivity. }
  split; [exact E1|]. split; [exact E2|]. unfold wvtt_size. cbn [snd]. rewrite Hl8 in E3. exact E3.
Qed.

(* ---------------------------------------------------------------- audio sample entry: the reader path's own child loop *)
Section ASE.
Variable ld : leafdec.
Hypothesis LD : leaf_ok ld.

Lemma ase_kids_r_canon : forall kids, Forall (cwf ld) kids -> (lenN (cencs kids) < 4294967296)%N ->
  forall fuel pos endPos acc pre cst,
    zlen (pre ++ cencs kids) < two63 -> (pos + lenN (cencs kids) < 18446744073709551616)%N ->
    endPos = (pos + lenN (cencs kids))%N ->
    zlen (cencs kids) + 1 < Z.of_nat fuel ->
    fst (ase_kids_r ld fuel pos endPos acc (mkI (pre ++ cencs kids) (lenN pre) cst)) = Ok (rev acc ++ map erase kids).
Proof.
  induction kids as [|k rest IH]; intros HW Hl fuel pos endPos acc pre cst Hs Hp He Hf.
  - destruct fuel as [|[|f]]; [cbn in Hf; unfold zlen in Hf; cbn in Hf; lia|cbn in Hf; unfold zlen in Hf; cbn in Hf; lia|].
    cbn [ase_kids_r cencs dec_box_r]. rewrite app_nil_r.
    unfold decode_header, read_full, iavail. cbn [icharge ibuf ipos icost].
    rewrite N.sub_diag, N.eqb_refl. cbn [fst map]. rewrite app_nil_r. reflexivity.
  - pose proof (Forall_inv HW) as HWk. pose proof (Forall_inv_tail HW) as HWr.
    pose proof (cenc_len_ge8 ld k HWk) as Hk8.
    destruct fuel as [|f]; [pose proof (zlen_nonneg (cencs (k :: rest))); lia|].
    cbn [ase_kids_r]. cbn [cencs] in *. rewrite lenN_app in *. rewrite zlen_app in Hf.
    assert (Hfk : fits k) by (unfold fits; lia).
    destruct (dec_box_r ld f pos (mkI (pre ++ cenc k ++ cencs rest) (lenN pre) cst)) as [rb s1] eqn:Eb.
    destruct (r_loops ld LD f) as [HB _].
    assert (HI : IInv (mkI (pre ++ cenc k ++ cencs rest) (lenN pre) cst)).
    { unfold IInv, ip, il. cbn [ibuf ipos]. rewrite <- !zlen_lenN. rewrite !zlen_app in *. pose proof (zlen_nonneg (cenc k)).
      pose proof (zlen_nonneg (cencs rest)). lia. }
    destruct (HB pos _ HI) as [rb' [s1' [Eb' [_ [NF _]]]]]. rewrite Eb in Eb'.
    apply pair_equal_spec in Eb'. destruct Eb' as [Er Es]. subst rb' s1'.
    assert (Hno : rb <> OutOfFuel).
    { apply NF. unfold irem, ip, il. cbn [ibuf ipos]. rewrite <- !zlen_lenN. rewrite !zlen_app in *. lia. }
    assert (Ebuf : pre ++ cenc k ++ cencs rest = pre ++ cenc k ++ (cencs rest ++ [])) by (rewrite app_nil_r; reflexivity).
    assert (Eb2 : dec_box_r ld f pos (mkI (pre ++ cenc k ++ (cencs rest ++ [])) (lenN pre) cst) = (rb, s1))
      by (rewrite <- Ebuf; exact Eb).
    destruct (box_canon_r_all ld k HWk Hfk f pos pre (cencs rest ++ []) cst rb s1) as [Ho|[Ho [Hb1 Hp1]]];
      try exact Eb2; try lia.
    { rewrite <- Ebuf. exact Hs. }
    { contradiction. }
    subst rb. rewrite (tsize_erase ld k HWk Hfk).
    assert (Hpos' : addu64 pos (lenN (cenc k)) = (pos + lenN (cenc k))%N) by (unfold addu64; rewrite N.mod_small; lia).
    rewrite Hpos'. subst endPos.
    destruct rest as [|k2 rest2].
    + cbn [cencs] in *. replace (lenN (@nil N)) with 0%N in * by reflexivity.
      replace (pos + lenN (cenc k) =? pos + (lenN (cenc k) + 0))%N with true by (symmetry; apply N.eqb_eq; lia).
      cbn [fst rev map]. reflexivity.
    + pose proof (Forall_inv HWr) as HWk2. pose proof (cenc_len_ge8 ld k2 HWk2) as Hk28.
      assert (Hr8 : (8 <= lenN (cencs (k2 :: rest2)))%N) by (cbn [cencs]; rewrite lenN_app; lia).
      replace (pos + lenN (cenc k) =? pos + (lenN (cenc k) + lenN (cencs (k2 :: rest2))))%N with false by (symmetry; apply N.eqb_neq; lia).
      replace (pos + (lenN (cenc k) + lenN (cencs (k2 :: rest2))) <? pos + lenN (cenc k))%N with false by lia.
      destruct s1 as [b1 p1 c1]. cbn [ibuf ipos] in Hb1, Hp1. subst b1 p1. rewrite <- Ebuf.
      assert (Ebuf2 : pre ++ cenc k ++ cencs (k2 :: rest2) = (pre ++ cenc k) ++ cencs (k2 :: rest2)) by (rewrite <- app_assoc; reflexivity).
      rewrite Ebuf2. replace (lenN pre + lenN (cenc k))%N with (lenN (pre ++ cenc k)) by apply lenN_app.
      rewrite (IH HWr ltac:(lia) f (pos + lenN (cenc k))%N (pos + (lenN (cenc k) + lenN (cencs (k2 :: rest2))))%N (erase k :: acc) (pre ++ cenc k) c1); try lia.
      * cbn [rev map]. rewrite <- app_assoc. reflexivity.
      * rewrite <- Ebuf2. exact Hs.
      * rewrite (zlen_lenN (cenc k)) in Hf. lia.
Qed.

(* DecodeAudioSampleEntry and DecodeAudioSampleEntrySR on every canonical payload: 28 fixed bytes, canonical children *)
Theorem ase_pair_agree_canonical : forall nm fx kids,
  length fx = 28%nat -> Forall (cwf ld) kids -> (lenN (fx ++ cencs kids) < 4294967288)%N ->
  forall pre post cst cst2 fuel,
  zlen (pre ++ (fx ++ cencs kids) ++ post) < two63 -> zlen ((fx ++ cencs kids) ++ post) + 1 < Z.of_nat fuel ->
  exists a,
    fst (ase_sr ld fuel (mkH nm (8 + lenN (fx ++ cencs kids)) 8) 0 (mkS (mkR (pre ++ (fx ++ cencs kids) ++ post) (zlen pre) false) cst)) = Ok (a, map erase kids) /\
    fst (ase_r ld fuel (mkH nm (8 + lenN (fx ++ cencs kids)) 8) 0 (mkI (pre ++ (fx ++ cencs kids) ++ post) (lenN pre) cst2)) = Ok (a, map erase kids) /\
    ase_size (a, map erase kids) = (8 + lenN (fx ++ cencs kids))%N.
Proof.
  intros nm fx kids Hfx HW Hfit pre post cst cst2 fuel Hs Hf.
  set (p := fx ++ cencs kids) in *.
  assert (Hz : zlen fx = 28) by (unfold zlen; rewrite Hfx; reflexivity).
  assert (Hl : lenN fx = 28%N) by (unfold lenN; rewrite Hfx; reflexivity).
  assert (HL : lenN p = (28 + lenN (cencs kids))%N) by (unfold p; rewrite lenN_app; lia).
  assert (Hpb : zlen p < two63).
  { rewrite !zlen_app in Hs. pose proof (zlen_nonneg pre). pose proof (zlen_nonneg post). lia. }
  destruct (ase_pf_agree p) as [a [F0 Ff]]; [unfold p; rewrite zlen_app; pose proof (zlen_nonneg (cencs kids)); lia|exact Hpb|].
  exists a.
  destruct (fpe_pair_agree_canonical ld LD ase_e nm fx kids a HW Hfit) with (pre := pre) (post := post) (cst := cst) (cst2 := cst2) (fuel := fuel)
    as [E1 [_ E3]]; try assumption.
  { rewrite Hz. exact F0. }
  { rewrite Hz. exact Ff. }
  { cbn [ase_e fp_kpos]. rewrite Hl. reflexivity. }
  split; [exact E1|]. split.
  - unfold ase_r. destruct (read_box_body_canon nm p pre post cst2 Hs Hfit) as [c2 HB]. rewrite HB.
    change (rnew p) with (at_ p 0). rewrite F0.
    assert (ER : remaining_bytes (at_ p 28) = Ok (cencs kids, at_ p (zlen p))).
    { unfold remaining_bytes, at_, rlen. cbn [rerr rbuf rpos].
      pose proof (gslice_mid fx (cencs kids) []) as G. rewrite app_nil_r in G. rewrite Hz in G. fold p in G.
      replace (28 + zlen (cencs kids)) with (zlen p) in G by (unfold p; rewrite zlen_app; lia). rewrite G. reflexivity. }
    rewrite ER.
    assert (E0 : mkI (cencs kids) 0 (icost (mkI (pre ++ p ++ post) (lenN pre + lenN p) c2)) = mkI ([] ++ cencs kids) (lenN (@nil N)) c2) by reflexivity.
    rewrite E0.
    assert (Hend : addu64 0 (hsize (mkH nm (8 + lenN p) 8)) = (36 + lenN (cencs kids))%N) by (cbn [hsize]; unfold addu64; rewrite N.mod_small; lia).
    rewrite Hend. change (addu64 0 36) with 36%N.
    pose proof (ase_kids_r_canon kids HW ltac:(lia) fuel 36%N (36 + lenN (cencs kids))%N [] [] c2) as EK.
    destruct (ase_kids_r ld fuel 36 (36 + lenN (cencs kids)) [] (mkI ([] ++ cencs kids) (lenN (@nil N)) c2)) as [rk sk] eqn:Ek.
    cbn [fst] in EK. rewrite EK; [reflexivity| | |reflexivity|].
    + cbn [app]. rewrite zlen_lenN. unfold two63. lia.
    + lia.
    + unfold p in Hf. rewrite <- app_assoc in Hf. rewrite !zlen_app in Hf. pose proof (zlen_nonneg post). pose proof (zlen_nonneg fx). lia.
  - unfold ase_size. cbn [snd]. rewrite Hl in E3. exact E3.
Qed.
End ASE.
