(* C03LeafModel.v — executable models (DEFINITIONS ONLY) of the separately written LEAF decoder pairs the property names:
     mp4/trun.go   DecodeTrun  (io.Reader: readBoxBody, then a private FixedSliceReader over the body; returns t, nil)
                   DecodeTrunSR (the caller's SliceReader; returns t, sr.AccError())
     mp4/senc.go   DecodeSenc  (readBoxBody, then binary.BigEndian on data[0:4], data[4:8], data[8:])
                   DecodeSencSR (ReadUint32 x2, ReadBytes(payloadLen-8); returns sr.AccError())
     mp4/mdat.go   DecodeMdat  (readBoxBody) / DecodeMdatSR (ReadBytes(payloadLen), error NOT returned); lazy mode excluded
     mp4/visualsampleentry.go  DecodeVisualSampleEntry (readBoxBody, then the SR decoder on a private reader) /
                   DecodeVisualSampleEntrySR (78 fixed bytes, then `for pos < endPos { DecodeBoxSR }` on the caller's reader)
     mp4/stsd.go   DecodeStsd (binary.Read x2 on r, DecodeContainerChildren on r) /
                   DecodeStsdSR (ReadUint32 x2, DecodeContainerChildrenSR)
   Each decoder is transcribed from its own Go text; nothing is derived from its twin.  The FixedSliceReader operations,
   readBoxBody, the two box headers and the two child loops are the C04 models.
   A leaf decoder on the SliceReader path returns  res (value * reader state): the state after an error is not modelled
   (every caller returns the error). *)
From V.lib Require Import Base.
From V.c04 Require Import C04Model.
Open Scope N_scope.

Definition flags_mask : N := 16777215.                       (* flagsMask = 0x00ffffff *)
Definition hasf (fl m : N) : bool := negb (N.land fl m =? 0).  (* fl & m != 0 *)

(* ------------------------------------------------------------------ trun *)
Record tsample := mkTS { ts_flags : N; ts_dur : N; ts_size : N; ts_cto : Z }.
Record trun := mkTrun { tr_version : N; tr_flags : N; tr_data_offset : Z; tr_first_flags : N; tr_samples : list tsample }.

(* bytesPerSample of expectedSize *)
Definition trun_bps (fl : N) : N :=
  (if hasf fl 256 then 4 else 0) + (if hasf fl 512 then 4 else 0) + (if hasf fl 1024 then 4 else 0) + (if hasf fl 2048 then 4 else 0).
(* (t *TrunBox) expectedSize(sampleCount uint32) uint64: 16 + 4 + 4 + uint64(sampleCount) * bytesPerSample < 2^37: no wrap *)
Definition trun_expected (fl cnt : N) : N :=
  16 + (if hasf fl 1 then 4 else 0) + (if hasf fl 4 then 4 else 0) + cnt * trun_bps fl.
Definition trun_no_sample_fields (fl : N) : bool :=
  negb (hasf fl 256) && negb (hasf fl 512) && negb (hasf fl 1024) && negb (hasf fl 2048).
(* TrunBox.Size() = expectedSize(uint32(len(Samples))) *)
Definition trun_size (t : trun) : N := trun_expected (tr_flags t) (lenN (tr_samples t) mod 4294967296).

(* DecodeTrun: the sample loop over the private reader s *)
Fixpoint trun_samples_r (n : nat) (first : bool) (fl fsf : N) (s : rstate) : res (list tsample * rstate) :=
  match n with
  | O => Ok ([], s)
  | S n' =>
      do (dur, s1) <- (if hasf fl 256 then read_fixed 4 s else Ok (0, s));
      do (size, s2) <- (if hasf fl 512 then read_fixed 4 s1 else Ok (0, s1));
      do (flags, s3) <- (if hasf fl 1024 then read_fixed 4 s2
                          else Ok ((if hasf fl 4 && first then fsf else 0), s2));
      do (cto, s4) <- (if hasf fl 2048 then read_fixed 4 s3 else Ok (0, s3));
      do (rest, s5) <- trun_samples_r n' false fl fsf s4;
      Ok (mkTS flags dur size (to_signed 32 cto) :: rest, s5)
  end.

(* DecodeTrun after readBoxBody: `s := bits.NewFixedSliceReader(data)` ... `return t, nil` (s.AccError() is not consulted) *)
Definition trun_body_r (h : hdr) (data : list N) : res trun :=
  let s := rnew data in
  do (vf, s1) <- read_fixed 4 s;
  do (cnt, s2) <- read_fixed 4 s1;
  let fl := N.land vf flags_mask in
  if negb (hsize h =? trun_expected fl cnt) then Err
  else if (1024 <? cnt) && trun_no_sample_fields fl then Err
  else
    do (doff, s3) <- (if hasf fl 1 then read_fixed 4 s2 else Ok (0, s2));
    do (fsf, s4) <- (if hasf fl 4 then read_fixed 4 s3 else Ok (0, s3));
    do (samples, _) <- trun_samples_r (N.to_nat cnt) true fl fsf s4;
    Ok (mkTrun (vf / 16777216) fl (to_signed 32 doff) fsf samples).

Definition trun_r (h : hdr) (s : ist) : res trun * ist :=
  let '(rb, s1) := read_box_body h s in
  (do data <- rb; trun_body_r h data, s1).

(* DecodeTrunSR: the sample loop over the caller's reader *)
Fixpoint trun_samples_sr (n : nat) (first : bool) (fl fsf : N) (sr : rstate) : res (list tsample * rstate) :=
  match n with
  | O => Ok ([], sr)
  | S n' =>
      do (dur, sr1) <- (if hasf fl 256 then read_fixed 4 sr else Ok (0, sr));
      do (size, sr2) <- (if hasf fl 512 then read_fixed 4 sr1 else Ok (0, sr1));
      do (flags, sr3) <- (if hasf fl 1024 then read_fixed 4 sr2
                           else Ok ((if hasf fl 4 && first then fsf else 0), sr2));
      do (cto, sr4) <- (if hasf fl 2048 then read_fixed 4 sr3 else Ok (0, sr3));
      do (rest, sr5) <- trun_samples_sr n' false fl fsf sr4;
      Ok (mkTS flags dur size (to_signed 32 cto) :: rest, sr5)
  end.

Definition trun_sr (h : hdr) (sr : rstate) : res (trun * rstate) :=
  do (vf, sr1) <- read_fixed 4 sr;
  do (cnt, sr2) <- read_fixed 4 sr1;
  let fl := N.land vf flags_mask in
  if negb (hsize h =? trun_expected fl cnt) then Err
  else if (1024 <? cnt) && trun_no_sample_fields fl then Err
  else
    do (doff, sr3) <- (if hasf fl 1 then read_fixed 4 sr2 else Ok (0, sr2));
    do (fsf, sr4) <- (if hasf fl 4 then read_fixed 4 sr3 else Ok (0, sr3));
    do (samples, sr5) <- trun_samples_sr (N.to_nat cnt) true fl fsf sr4;
    if rerr sr5 then Err                                              (* return t, sr.AccError() *)
    else Ok (mkTrun (vf / 16777216) fl (to_signed 32 doff) fsf samples, sr5).

(* ------------------------------------------------------------------ senc *)
Record senc := mkSenc { se_version : N; se_flags : N; se_count : N; se_raw : list N; se_read_size : N; se_unparsed : bool }.

(* readBoxSize: hdr.Size - uint64(hdr.Hdrlen) + boxHeaderSize (uint64) *)
Definition senc_read_size (h : hdr) : N := addu64 (subu64 (hsize h) (hlen h)) 8.
(* SencBox.Size(): readBoxSize if > 0 (always, for a decoded box: calcSize is not reached unless it wrapped to 0) *)
Definition senc_size (v : senc) : N := if 0 <? se_read_size v then se_read_size v else 16.

(* DecodeSenc after the `hdr.Size < 16` test and readBoxBody *)
Definition senc_body_r (h : hdr) (data : list N) : res senc :=
  if (zlen data <? 8)%Z then Err
  else
    do b03 <- gslice data 0 4;
    let vf := be b03 0 in
    let version := vf / 16777216 in
    let flags := N.land vf flags_mask in
    if 0 <? version then Err
    else
      do b47 <- gslice data 4 8;
      let cnt := be b47 0 in
      do raw <- gslice data 8 (zlen data);
      if hasf flags 2 && (zlen raw <? 2 * Z.of_N cnt)%Z then Err      (* len(rawData) < 2*int(sampleCount) *)
      else Ok (mkSenc version flags cnt raw (senc_read_size h) true).  (* readButNotParsed stays true unless count or raw is empty *)

Definition senc_fix (v : senc) : senc :=
  if (se_count v =? 0) || (lenN (se_raw v) =? 0)
  then mkSenc (se_version v) (se_flags v) (se_count v) (se_raw v) (se_read_size v) false else v.

Definition senc_r (h : hdr) (s : ist) : res senc * ist :=
  if hsize h <? 16 then (Err, s)
  else
    let '(rb, s1) := read_box_body h s in
    (do data <- rb; do v <- senc_body_r h data; Ok (senc_fix v), s1).

(* DecodeSencSR *)
Definition senc_sr (h : hdr) (sr : rstate) : res (senc * rstate) :=
  if hsize h <? 16 then Err
  else
    do (vf, sr1) <- read_fixed 4 sr;
    let version := vf / 16777216 in
    if 0 <? version then Err
    else
      let flags := N.land vf flags_mask in
      do (cnt, sr2) <- read_fixed 4 sr1;
      if hasf flags 2 && (subu64 (hsize h) 16 <? 2 * cnt) then Err    (* (hdr.Size - 16) < 2*uint64(sampleCount) *)
      else
        do (raw, sr3) <- read_bytes (w64 (payload_len h - 8)) sr2;
        if rerr sr3 then Err                                          (* return &senc, sr.AccError() *)
        else Ok (senc_fix (mkSenc version flags cnt raw (senc_read_size h) true), sr3).

(* ------------------------------------------------------------------ mdat (DecModeNormal) *)
Record mdatv := mkMdat { md_data : list N; md_large : bool }.
Definition mdatv_size (v : mdatv) : N := mdat_size (lenN (md_data v)) (md_large v).

(* DecodeMdat *)
Definition mdat_r (h : hdr) (s : ist) : res mdatv * ist :=
  let '(rb, s1) := read_box_body h s in
  (do data <- rb; Ok (mkMdat data (8 <? hlen h)), s1).
(* DecodeMdatSR: `return &MdatBox{startPos, sr.ReadBytes(hdr.payloadLen()), nil, 0, largeSize}, nil` *)
Definition mdat_sr (h : hdr) (sr : rstate) : res (mdatv * rstate) :=
  do (d, sr1) <- read_bytes (payload_len h) sr;
  Ok (mkMdat d (8 <? hlen h), sr1).

(* ------------------------------------------------------------------ one leaf box through DecodeBox / DecodeBoxSR *)
Definition name_trun : list N := [116; 114; 117; 110].
Definition name_senc : list N := [115; 101; 110; 99].

Inductive leafval := LTrun (t : trun) | LSenc (v : senc) | LMdat (m : mdatv).
Definition leafval_size (v : leafval) : N :=
  match v with LTrun t => trun_size t | LSenc s => senc_size s | LMdat m => mdatv_size m end.

(* DecodeBox(0, r) when the box type is trun / senc / mdat: result and number of bytes consumed *)
Definition leafbox_r (bs : list N) : res (leafval * N) :=
  match decode_header (inew bs) with
  | (Ok (HHdr h), s1) =>
      if eqb_name (hname h) name_trun then
        (let '(r, s2) := trun_r h s1 in do t <- r; Ok (LTrun t, ipos s2))
      else if eqb_name (hname h) name_senc then
        (let '(r, s2) := senc_r h s1 in do t <- r; Ok (LSenc t, ipos s2))
      else if eqb_name (hname h) name_mdat then
        (let '(r, s2) := mdat_r h s1 in do t <- r; Ok (LMdat t, ipos s2))
      else Err
  | (Ok HEof, _) => Err
  | (Err, _) => Err | (Panic, _) => Panic | (OutOfFuel, _) => OutOfFuel
  end.

(* DecodeBoxSR(0, sr): header, `maxSize < hdr.Size && name != "mdat"` test, dispatch; result, position, AccError *)
Definition leafbox_sr (bs : list N) : res (leafval * Z * bool) :=
  match decode_header_sr (snew bs) with
  | (Ok h, s1) =>
      let maxSize := addu64 (u64z (nr_remaining (sr s1))) (hlen h) in
      if (maxSize <? hsize h) && negb (eqb_name (hname h) name_mdat) then Err
      else if eqb_name (hname h) name_trun then
        (do (t, r2) <- trun_sr h (sr s1); Ok (LTrun t, rpos r2, rerr r2))
      else if eqb_name (hname h) name_senc then
        (do (t, r2) <- senc_sr h (sr s1); Ok (LSenc t, rpos r2, rerr r2))
      else if eqb_name (hname h) name_mdat then
        (do (t, r2) <- mdat_sr h (sr s1); Ok (LMdat t, rpos r2, rerr r2))
      else Err
  | (Err, _) => Err | (Panic, _) => Panic | (OutOfFuel, _) => OutOfFuel
  end.

(* ------------------------------------------------------------------ the leaf pairs as the leaf decoders of the C04 box loops *)
(* DecodeBox / DecodeBoxSR dispatch: trun, senc and mdat go to the pair models above (the loops only need Size() of the decoded
   box), every other leaf type to the C04 standard leaves.  Model costs are not charged on the SliceReader path. *)
Definition wrap_r {A} (size : A -> N) (p : res A * ist) : res N * ist := (do v <- fst p; Ok (size v), snd p).
Definition wrap_sr {A} (size : A -> N) (r : res (A * rstate)) (s : sst) : res N * sst :=
  match r with
  | Ok (v, r') => (Ok (size v), mkS r' (scost s))
  | Err => (Err, s) | Panic => (Panic, s) | OutOfFuel => (OutOfFuel, s)
  end.

Definition pair_r (h : hdr) (s : ist) : res N * ist :=
  if eqb_name (hname h) name_trun then wrap_r trun_size (trun_r h s)
  else if eqb_name (hname h) name_senc then wrap_r senc_size (senc_r h s)
  else if eqb_name (hname h) name_mdat then wrap_r mdatv_size (mdat_r h s)
  else std_r h s.
Definition pair_sr (h : hdr) (s : sst) : res N * sst :=
  if eqb_name (hname h) name_trun then wrap_sr trun_size (trun_sr h (sr s)) s
  else if eqb_name (hname h) name_senc then wrap_sr senc_size (senc_sr h (sr s)) s
  else if eqb_name (hname h) name_mdat then wrap_sr mdatv_size (mdat_sr h (sr s)) s
  else std_sr h s.
Definition pair_leaves : leafdec := mkLD std_kind pair_r pair_sr.
