(* C03LeafModel.v — executable models (DEFINITIONS ONLY) of the separately written LEAF decoder pairs the property names:
     mp4/trun.go   DecodeTrun  (io.Reader: readBoxBody, then a private FixedSliceReader over the body; returns t, nil)
                   DecodeTrunSR (the caller's SliceReader; returns t, sr.AccError())
     mp4/senc.go   DecodeSenc  (readBoxBody, then binary.BigEndian on data[0:4], data[4:8], data[8:])
                   DecodeSencSR (ReadUint32 x2, ReadBytes(payloadLen-8); returns sr.AccError())
     mp4/mdat.go   DecodeMdat  (readBoxBody) / DecodeMdatSR (ReadBytes(payloadLen), error NOT returned); lazy mode excluded
     mp4/visualsampleentry.go  DecodeVisualSampleEntry (readBoxBody, then the SR decoder on a private reader) /
                   DecodeVisualSampleEntrySR (78 fixed bytes, then `for pos < endPos { DecodeBoxSR }` on the caller's reader)
     mp4/stsd.go   DecodeStsd (binary.Read x2 on r, DecodeContainerChildren on r) /
                   DecodeStsdSR (ReadUint32 x2, DecodeContainerChildrenSR)
   Each decoder is transcribed from its own Go text; nothing is derived from its twin.  The FixedSliceReader operations,
   readBoxBody, the two box headers and the two child loops are the C04 models.
   A leaf decoder on the SliceReader path returns  res (value * reader state): the state after an error is not modelled
   (every caller returns the error). *)
From V.lib Require Import Base.
From V.c04 Require Import C04Model.
Open Scope N_scope.

Definition flags_mask : N := 16777215.                       (* flagsMask = 0x00ffffff *)
Definition hasf (fl m : N) : bool := negb (N.land fl m =? 0).  (* fl & m != 0 *)

(* ------------------------------------------------------------------ trun *)
Record tsample := mkTS { ts_flags : N; ts_dur : N; ts_size : N; ts_cto : Z }.
Record trun := mkTrun { tr_version : N; tr_flags : N; tr_data_offset : Z; tr_first_flags : N; tr_samples : list tsample }.

(* bytesPerSample of expectedSize *)
Definition trun_bps (fl : N) : N :=
  (if hasf fl 256 then 4 else 0) + (if hasf fl 512 then 4 else 0) + (if hasf fl 1024 then 4 else 0) + (if hasf fl 2048 then 4 else 0).
(* (t *TrunBox) expectedSize(sampleCount uint32) uint64: 16 + 4 + 4 + uint64(sampleCount) * bytesPerSample < 2^37: no wrap *)
Definition trun_expected (fl cnt : N) : N :=
  16 + (if hasf fl 1 then 4 else 0) + (if hasf fl 4 then 4 else 0) + cnt * trun_bps fl.
Definition trun_no_sample_fields (fl : N) : bool :=
  negb (hasf fl 256) && negb (hasf fl 512) && negb (hasf fl 1024) && negb (hasf fl 2048).
(* TrunBox.Size() = expectedSize(uint32(len(Samples))) *)
Definition trun_size (t : trun) : N := trun_expected (tr_flags t) (lenN (tr_samples t) mod 4294967296).

(* DecodeTrun: the sample loop over the private reader s *)
Fixpoint trun_samples_r (n : nat) (first : bool) (fl fsf : N) (s : rstate) : res (list tsample * rstate) :=
  match n with
  | O => Ok ([], s)
  | S n' =>
      do (dur, s1) <- (if hasf fl 256 then read_fixed 4 s else Ok (0, s));
      do (size, s2) <- (if hasf fl 512 then read_fixed 4 s1 else Ok (0, s1));
      do (flags, s3) <- (if hasf fl 1024 then read_fixed 4 s2
                          else Ok ((if hasf fl 4 && first then fsf else 0), s2));
      do (cto, s4) <- (if hasf fl 2048 then read_fixed 4 s3 else Ok (0, s3));
      do (rest, s5) <- trun_samples_r n' false fl fsf s4;
      Ok (mkTS flags dur size (to_signed 32 cto) :: rest, s5)
  end.

(* DecodeTrun after readBoxBody: `s := bits.NewFixedSliceReader(data)` ... `return t, nil` (s.AccError() is not consulted) *)
Definition trun_body_r (h : hdr) (data : list N) : res trun :=
  let s := rnew data in
  do (vf, s1) <- read_fixed 4 s;
  do (cnt, s2) <- read_fixed 4 s1;
  let fl := N.land vf flags_mask in
  if negb (hsize h =? trun_expected fl cnt) then Err
  else if (1024 <? cnt) && trun_no_sample_fields fl then Err
  else
    do (doff, s3) <- (if hasf fl 1 then read_fixed 4 s2 else Ok (0, s2));
    do (fsf, s4) <- (if hasf fl 4 then read_fixed 4 s3 else Ok (0, s3));
    do (samples, _) <- trun_samples_r (N.to_nat cnt) true fl fsf s4;
    Ok (mkTrun (vf / 16777216) fl (to_signed 32 doff) fsf samples).

Definition trun_r (h : hdr) (s : ist) : res trun * ist :=
  let '(rb, s1) := read_box_body h s in
  (do data <- rb; trun_body_r h data, s1).

(* DecodeTrunSR: the sample loop over the caller's reader *)
Fixpoint trun_samples_sr (n : nat) (first : bool) (fl fsf : N) (sr : rstate) : res (list tsample * rstate) :=
  match n with
  | O => Ok ([], sr)
  | S n' =>
      do (dur, sr1) <- (if hasf fl 256 then read_fixed 4 sr else Ok (0, sr));
      do (size, sr2) <- (if hasf fl 512 then read_fixed 4 sr1 else Ok (0, sr1));
      do (flags, sr3) <- (if hasf fl 1024 then read_fixed 4 sr2
                           else Ok ((if hasf fl 4 && first then fsf else 0), sr2));
      do (cto, sr4) <- (if hasf fl 2048 then read_fixed 4 sr3 else Ok (0, sr3));
      do (rest, sr5) <- trun_samples_sr n' false fl fsf sr4;
      Ok (mkTS flags dur size (to_signed 32 cto) :: rest, sr5)
  end.

Definition trun_sr (h : hdr) (sr : rstate) : res (trun * rstate) :=
  do (vf, sr1) <- read_fixed 4 sr;
  do (cnt, sr2) <- read_fixed 4 sr1;
  let fl := N.land vf flags_mask in
  if negb (hsize h =? trun_expected fl cnt) then Err
  else if (1024 <? cnt) && trun_no_sample_fields fl then Err
  else
    do (doff, sr3) <- (if hasf fl 1 then read_fixed 4 sr2 else Ok (0, sr2));
    do (fsf, sr4) <- (if hasf fl 4 then read_fixed 4 sr3 else Ok (0, sr3));
    do (samples, sr5) <- trun_samples_sr (N.to_nat cnt) true fl fsf sr4;
    if rerr sr5 then Err                                              (* return t, sr.AccError() *)
    else Ok (mkTrun (vf / 16777216) fl (to_signed 32 doff) fsf samples, sr5).

(* ------------------------------------------------------------------ senc *)
Record senc := mkSenc { se_version : N; se_flags : N; se_count : N; se_raw : list N; se_read_size : N; se_unparsed : bool }.

(* readBoxSize: hdr.Size - uint64(hdr.Hdrlen) + boxHeaderSize (uint64) *)
Definition senc_read_size (h : hdr) : N := addu64 (subu64 (hsize h) (hlen h)) 8.
(* SencBox.Size(): readBoxSize if > 0 (always, for a decoded box: calcSize is not reached unless it wrapped to 0) *)
Definition senc_size (v : senc) : N := if 0 <? se_read_size v then se_read_size v else 16.

(* DecodeSenc after the `hdr.Size < 16` test and readBoxBody *)
Definition senc_body_r (h : hdr) (data : list N) : res senc :=
  if (zlen data <? 8)%Z then Err
  else
    do b03 <- gslice data 0 4;
    let vf := be b03 0 in
    let version := vf / 16777216 in
    let flags := N.land vf flags_mask in
    if 0 <? version then Err
    else
      do b47 <- gslice data 4 8;
      let cnt := be b47 0 in
      do raw <- gslice data 8 (zlen data);
      if hasf flags 2 && (zlen raw <? 2 * Z.of_N cnt)%Z then Err      (* len(rawData) < 2*int(sampleCount) *)
      else Ok (mkSenc version flags cnt raw (senc_read_size h) true).  (* readButNotParsed stays true unless count or raw is empty *)

Definition senc_fix (v : senc) : senc :=
  if (se_count v =? 0) || (lenN (se_raw v) =? 0)
  then mkSenc (se_version v) (se_flags v) (se_count v) (se_raw v) (se_read_size v) false else v.

Definition senc_r (h : hdr) (s : ist) : res senc * ist :=
  if hsize h <? 16 then (Err, s)
  else
    let '(rb, s1) := read_box_body h s in
    (do data <- rb; do v <- senc_body_r h data; Ok (senc_fix v), s1).

(* DecodeSencSR (text of b8f1424: the sub-sample test uses the bytes after the fields, nrDataBytes = payloadLen() - 8,
   and a negative nrDataBytes is an error; the pinned text tested hdr.Size - 16, which is 8 too many behind a 16-byte header) *)
Definition senc_sr (h : hdr) (sr : rstate) : res (senc * rstate) :=
  if hsize h <? 16 then Err
  else
    do (vf, sr1) <- read_fixed 4 sr;
    let version := vf / 16777216 in
    if 0 <? version then Err
    else
      let flags := N.land vf flags_mask in
      do (cnt, sr2) <- read_fixed 4 sr1;
      let nr := w64 (payload_len h - 8) in                            (* nrDataBytes := hdr.payloadLen() - 8 *)
      if (nr <? 0)%Z then Err
      else if hasf flags 2 && (u64z nr <? 2 * cnt) then Err           (* uint64(nrDataBytes) < 2*uint64(sampleCount) *)
      else
        do (raw, sr3) <- read_bytes (w64 (payload_len h - 8)) sr2;
        if rerr sr3 then Err                                          (* return &senc, sr.AccError() *)
        else Ok (senc_fix (mkSenc version flags cnt raw (senc_read_size h) true), sr3).

(* ------------------------------------------------------------------ mdat (DecModeNormal) *)
Record mdatv := mkMdat { md_data : list N; md_large : bool }.
Definition mdatv_size (v : mdatv) : N := mdat_size (lenN (md_data v)) (md_large v).

(* DecodeMdat *)
Definition mdat_r (h : hdr) (s : ist) : res mdatv * ist :=
  let '(rb, s1) := read_box_body h s in
  (do data <- rb; Ok (mkMdat data (8 <? hlen h)), s1).
(* DecodeMdatSR: `return &MdatBox{startPos, sr.ReadBytes(hdr.payloadLen()), nil, 0, largeSize}, nil` *)
Definition mdat_sr (h : hdr) (sr : rstate) : res (mdatv * rstate) :=
  do (d, sr1) <- read_bytes (payload_len h) sr;
  Ok (mkMdat d (8 <? hlen h), sr1).

(* ------------------------------------------------------------------ one leaf box through DecodeBox / DecodeBoxSR *)
Definition name_trun : list N := [116; 114; 117; 110].
Definition name_senc : list N := [115; 101; 110; 99].

Inductive leafval := LTrun (t : trun) | LSenc (v : senc) | LMdat (m : mdatv).
Definition leafval_size (v : leafval) : N :=
  match v with LTrun t => trun_size t | LSenc s => senc_size s | LMdat m => mdatv_size m end.

(* DecodeBox(0, r) when the box type is trun / senc / mdat: result and number of bytes consumed *)
Definition leafbox_r (bs : list N) : res (leafval * N) :=
  match decode_header (inew bs) with
  | (Ok (HHdr h), s1) =>
      if eqb_name (hname h) name_trun then
        (let '(r, s2) := trun_r h s1 in do t <- r; Ok (LTrun t, ipos s2))
      else if eqb_name (hname h) name_senc then
        (let '(r, s2) := senc_r h s1 in do t <- r; Ok (LSenc t, ipos s2))
      else if eqb_name (hname h) name_mdat then
        (let '(r, s2) := mdat_r h s1 in do t <- r; Ok (LMdat t, ipos s2))
      else Err
  | (Ok HEof, _) => Err
  | (Err, _) => Err | (Panic, _) => Panic | (OutOfFuel, _) => OutOfFuel
  end.

(* DecodeBoxSR(0, sr): header, `maxSize < hdr.Size && name != "mdat"` test, dispatch; result, position, AccError *)
Definition leafbox_sr (bs : list N) : res (leafval * Z * bool) :=
  match decode_header_sr (snew bs) with
  | (Ok h, s1) =>
      let maxSize := addu64 (u64z (nr_remaining (sr s1))) (hlen h) in
      if (maxSize <? hsize h) && negb (eqb_name (hname h) name_mdat) then Err
      else if eqb_name (hname h) name_trun then
        (do (t, r2) <- trun_sr h (sr s1); Ok (LTrun t, rpos r2, rerr r2))
      else if eqb_name (hname h) name_senc then
        (do (t, r2) <- senc_sr h (sr s1); Ok (LSenc t, rpos r2, rerr r2))
      else if eqb_name (hname h) name_mdat then
        (do (t, r2) <- mdat_sr h (sr s1); Ok (LMdat t, rpos r2, rerr r2))
      else Err
  | (Err, _) => Err | (Panic, _) => Panic | (OutOfFuel, _) => OutOfFuel
  end.

(* ------------------------------------------------------------------ the leaf pairs as the leaf decoders of the C04 box loops *)
(* DecodeBox / DecodeBoxSR dispatch: trun, senc and mdat go to the pair models above (the loops only need Size() of the decoded
   box), every other leaf type to the C04 standard leaves.  Model costs are not charged on the SliceReader path. *)
Definition wrap_r {A} (size : A -> N) (p : res A * ist) : res N * ist := (do v <- fst p; Ok (size v), snd p).
Definition wrap_sr {A} (size : A -> N) (r : res (A * rstate)) (s : sst) : res N * sst :=
  match r with
  | Ok (v, r') => (Ok (size v), mkS r' (scost s))
  | Err => (Err, s) | Panic => (Panic, s) | OutOfFuel => (OutOfFuel, s)
  end.

Definition pair_r (h : hdr) (s : ist) : res N * ist :=
  if eqb_name (hname h) name_trun then wrap_r trun_size (trun_r h s)
  else if eqb_name (hname h) name_senc then wrap_r senc_size (senc_r h s)
  else if eqb_name (hname h) name_mdat then wrap_r mdatv_size (mdat_r h s)
  else std_r h s.
Definition pair_sr (h : hdr) (s : sst) : res N * sst :=
  if eqb_name (hname h) name_trun then wrap_sr trun_size (trun_sr h (sr s)) s
  else if eqb_name (hname h) name_senc then wrap_sr senc_size (senc_sr h (sr s)) s
  else if eqb_name (hname h) name_mdat then wrap_sr mdatv_size (mdat_sr h (sr s)) s
  else std_sr h s.
Definition pair_leaves : leafdec := mkLD std_kind pair_r pair_sr.

(* ------------------------------------------------------------------ visual sample entry (avc1, avc3, hvc1, hev1, encv, av01, vp08, vp09) *)
(* children are decoded by DecodeBoxSR on both paths (the reader path first copies the body into a private reader) *)
Record vse := mkVse { vs_dri : N; vs_width : N; vs_height : N; vs_hres : N; vs_vres : N; vs_frames : N;
                      vs_cname : list N; vs_kids : list tree }.

Fixpoint sum_sizes (l : list tree) (acc : N) : N :=
  match l with [] => acc | c :: r => sum_sizes r (addu64 acc (tsize c)) end.
(* VisualSampleEntryBox.Size(): boxHeaderSize + 78 + the children's Size() (uint64) *)
Definition vse_size (v : vse) : N := sum_sizes (vs_kids v) 86.

(* the 78 fixed bytes *)
Definition vse_fixed (r : rstate) : res (vse * rstate) :=
  let r0 := skip_bytes 6 r in                                   (* sr.SkipBytes(6) *)
  do (dri, r1) <- read_fixed 2 r0;                              (* DataReferenceIndex = sr.ReadUint16() *)
  let r2 := skip_bytes 12 (skip_bytes 4 r1) in
  do (w, r3) <- read_fixed 2 r2;
  do (hh, r4) <- read_fixed 2 r3;
  do (hres, r5) <- read_fixed 4 r4;
  do (vres, r6) <- read_fixed 4 r5;
  do (_, r7) <- read_fixed 4 r6;                                (* reserved *)
  do (fc, r8) <- read_fixed 2 r7;
  do (cnl, r9) <- read_fixed 1 r8;                              (* compressorNameLength := sr.ReadUint8() *)
  if 31 <? cnl then Err
  else
    do (cname, r10) <- read_fixed_string (Z.of_N cnl) r9;
    let r11 := skip_bytes 2 (skip_bytes (Z.of_N (31 - cnl)) r10) in
    do (_, r12) <- read_fixed 2 r11;                            (* pre_defined *)
    Ok (mkVse dri w hh hres vres fc cname [], r12).

(* `for pos < endPos { box, err := DecodeBoxSR(pos, sr); ...; b.AddChild(box); pos += box.Size() }` *)
Fixpoint vse_kids (ld : leafdec) (fuel : nat) (pos endPos : N) (acc : list tree) (s : sst) : res (list tree) * sst :=
  match fuel with
  | O => (OutOfFuel, s)
  | S f =>
      if pos <? endPos then
        match dec_box_sr ld f pos s with
        | (Ok box, s1) => vse_kids ld f (addu64 pos (tsize box)) endPos (box :: acc) s1
        | (Err, s1) => (Err, s1) | (Panic, s1) => (Panic, s1) | (OutOfFuel, s1) => (OutOfFuel, s1)
        end
      else (Ok (rev acc), s)
  end.

(* DecodeVisualSampleEntrySR(hdr, startPos, sr) *)
Definition vse_sr (ld : leafdec) (fuel : nat) (h : hdr) (startPos : N) (s : sst) : res vse * sst :=
  match vse_fixed (sr s) with
  | Ok (fx, r1) =>
      let pos := addu64 startPos 86 in
      let endPos := addu64 (addu64 startPos (hlen h)) (u64z (payload_len h)) in   (* startPos + uint64(Hdrlen) + uint64(payloadLen()) *)
      match vse_kids ld fuel pos endPos [] (mkS r1 (scost s)) with
      | (Ok kids, s2) =>
          if rerr (sr s2) then (Err, s2)                                          (* return &b, sr.AccError() *)
          else (Ok (mkVse (vs_dri fx) (vs_width fx) (vs_height fx) (vs_hres fx) (vs_vres fx) (vs_frames fx) (vs_cname fx) kids), s2)
      | (Err, s2) => (Err, s2) | (Panic, s2) => (Panic, s2) | (OutOfFuel, s2) => (OutOfFuel, s2)
      end
  | Err => (Err, s) | Panic => (Panic, s) | OutOfFuel => (OutOfFuel, s)
  end.

(* DecodeVisualSampleEntry(hdr, startPos, r): readBoxBody, then the SR decoder on bits.NewFixedSliceReader(data) *)
Definition vse_r (ld : leafdec) (fuel : nat) (h : hdr) (startPos : N) (s : ist) : res vse * ist :=
  let '(rb, s1) := read_box_body h s in
  match rb with
  | Ok data => (fst (vse_sr ld fuel h startPos (mkS (rnew data) (icost s1))), s1)
  | Err => (Err, s1) | Panic => (Panic, s1) | OutOfFuel => (OutOfFuel, s1)
  end.

(* ------------------------------------------------------------------ stsd *)
Record stsd := mkStsd { sd_version : N; sd_flags : N; sd_count : N; sd_kids : list tree }.
(* StsdBox.Size() = containerSize(s.Children) + 8 *)
Definition stsd_size (v : stsd) : N := addu64 (sum_sizes (sd_kids v) 8) 8.

Definition stsd_finish (vf cnt : N) (kids : list tree) : res stsd :=
  if negb (lenN kids =? cnt) then Err                                  (* len(children) != int(sampleCount) *)
  else if negb (lenN kids mod 4294967296 =? cnt) then Err              (* stsd.SampleCount (uint32, counted by AddChild) != sampleCount *)
  else Ok (mkStsd (vf / 16777216) (N.land vf flags_mask) (lenN kids mod 4294967296) kids).

(* DecodeStsdSR: ReadUint32 x2, DecodeContainerChildrenSR(hdr, startPos+16, startPos+hdr.Size, sr) *)
Definition stsd_sr (ld : leafdec) (fuel : nat) (h : hdr) (startPos : N) (s : sst) : res stsd * sst :=
  match read_fixed 4 (sr s) with
  | Ok (vf, r1) =>
      match read_fixed 4 r1 with
      | Ok (cnt, r2) =>
          match children_sr ld fuel (addu64 startPos 16) (addu64 startPos 16) (addu64 startPos (hsize h)) (rpos r2) []
                            (mkS r2 (scost s)) with
          | (Ok kids, s2) => if rerr (sr s2) then (Err, s2) else (stsd_finish vf cnt kids, s2)   (* return &stsd, sr.AccError() *)
          | (Err, s2) => (Err, s2) | (Panic, s2) => (Panic, s2) | (OutOfFuel, s2) => (OutOfFuel, s2)
          end
      | Err => (Err, s) | Panic => (Panic, s) | OutOfFuel => (OutOfFuel, s)
      end
  | Err => (Err, s) | Panic => (Panic, s) | OutOfFuel => (OutOfFuel, s)
  end.

(* DecodeStsd: binary.Read(r, BigEndian, &uint32) x2 (io.ReadFull of 4 bytes), DecodeContainerChildren(hdr, startPos+16, startPos+hdr.Size, r) *)
Definition stsd_r (ld : leafdec) (fuel : nat) (h : hdr) (startPos : N) (s : ist) : res stsd * ist :=
  match read_full 4 s with
  | (RFOk b1, s1) =>
      match read_full 4 s1 with
      | (RFOk b2, s2) =>
          match children_r ld fuel (addu64 startPos 16) (addu64 startPos (hsize h)) [] s2 with
          | (Ok kids, s3) => (stsd_finish (be b1 0) (be b2 0) kids, s3)
          | (Err, s3) => (Err, s3) | (Panic, s3) => (Panic, s3) | (OutOfFuel, s3) => (OutOfFuel, s3)
          end
      | (_, s2) => (Err, s2)
      end
  | (_, s1) => (Err, s1)
  end.

(* ------------------------------------------------------------------ the dispatch tower: stsd over sample entries over the pair leaves *)
Definition is_vse_name (nm : list N) : bool :=
  existsb (eqb_name nm)
    [[97;118;99;49]; [97;118;99;51]; [104;118;99;49]; [104;101;118;49]; [101;110;99;118]; [97;118;48;49]; [118;112;48;56]; [118;112;48;57]].
Definition name_stsd : list N := [115; 116; 115; 100].
Definition name_avc1 : list N := [97; 118; 99; 49].

(* children of a sample entry: pair_leaves; startPos 0: only differences of positions are used (no uint64 wrap below 2^63) *)
Definition entry_r (h : hdr) (s : ist) : res N * ist :=
  if is_vse_name (hname h) then wrap_r vse_size (vse_r pair_leaves (S (length (ibuf s))) h 0 s)
  else pair_r h s.
Definition entry_sr (h : hdr) (s : sst) : res N * sst :=
  if is_vse_name (hname h) then
    (let '(r, s2) := vse_sr pair_leaves (S (length (rbuf (sr s)))) h 0 s in (do v <- r; Ok (vse_size v), mkS (sr s2) (scost s)))
  else pair_sr h s.
Definition entry_leaves : leafdec := mkLD std_kind entry_r entry_sr.

Definition top_r (h : hdr) (s : ist) : res N * ist :=
  if eqb_name (hname h) name_stsd then wrap_r stsd_size (stsd_r entry_leaves (S (length (ibuf s))) h 0 s)
  else entry_r h s.
Definition top_sr (h : hdr) (s : sst) : res N * sst :=
  if eqb_name (hname h) name_stsd then
    (let '(r, s2) := stsd_sr entry_leaves (S (length (rbuf (sr s)))) h 0 s in (do v <- r; Ok (stsd_size v), mkS (sr s2) (scost s)))
  else entry_sr h s.
Definition top_leaves : leafdec := mkLD std_kind top_r top_sr.

(* one stsd / sample entry box through DecodeBox / DecodeBoxSR with its decoded fields (correspondence) *)
Inductive entval := EVse (v : vse) | EStsd (v : stsd).
Definition entval_size (v : entval) : N := match v with EVse x => vse_size x | EStsd x => stsd_size x end.

Definition entbox_r (bs : list N) : res (entval * N) :=
  match decode_header (inew bs) with
  | (Ok (HHdr h), s1) =>
      if eqb_name (hname h) name_stsd then
        (let '(r, s2) := stsd_r entry_leaves (S (length bs)) h 0 s1 in do v <- r; Ok (EStsd v, ipos s2))
      else if is_vse_name (hname h) then
        (let '(r, s2) := vse_r pair_leaves (S (length bs)) h 0 s1 in do v <- r; Ok (EVse v, ipos s2))
      else Err
  | (Ok HEof, _) => Err
  | (Err, _) => Err | (Panic, _) => Panic | (OutOfFuel, _) => OutOfFuel
  end.

Definition entbox_sr (bs : list N) : res (entval * Z * bool) :=
  match decode_header_sr (snew bs) with
  | (Ok h, s1) =>
      let maxSize := addu64 (u64z (nr_remaining (sr s1))) (hlen h) in
      if (maxSize <? hsize h) then Err
      else if eqb_name (hname h) name_stsd then
        (let '(r, s2) := stsd_sr entry_leaves (S (length bs)) h 0 s1 in do v <- r; Ok (EStsd v, rpos (sr s2), rerr (sr s2)))
      else if is_vse_name (hname h) then
        (let '(r, s2) := vse_sr pair_leaves (S (length bs)) h 0 s1 in do v <- r; Ok (EVse v, rpos (sr s2), rerr (sr s2)))
      else Err
  | (Err, _) => Err | (Panic, _) => Panic | (OutOfFuel, _) => OutOfFuel
  end.

(* ------------------------------------------------------------------ the ENCODER pairs that are written twice: mdat, stsd, sample entry *)
(* (TrunBox.Encode and SencBox.Encode call their own EncodeSW on a private slice writer: no second text.)
   io.Writer never fails and the slice writer is large enough, as in C03Model.v. *)
From V.c03 Require Import C03Model.

(* EncodeHeaderWithSize(boxType, boxSize, largeSize, w) *)
Definition enc_header_size_w (name : list N) (size : N) (large : bool) : res (list N) :=
  if negb large && (4294967296 <=? size) then Err
  else if negb large then Ok (be4 size ++ name) else Ok (be4 1 ++ name ++ be8 size).
(* EncodeHeaderWithSizeSW(boxType, boxSize, largeSize, sw) *)
Definition enc_header_size_sw (name : list N) (size : N) (large : bool) : res (list N) :=
  if negb large && (4294967296 <=? size) then Err
  else if negb large then Ok (be4 size ++ name) else Ok (be4 1 ++ name ++ be8 size).

(* MdatBox.Encode: EncodeHeaderWithSize("mdat", m.Size(), m.LargeSize, w) - Size() sets LargeSize for a payload above
   maxNormalPayloadSize before the flag is read - then w.Write(m.Data) (DataParts: output-side only, not reachable by decoding) *)
Definition mdat_enc_w (m : mdatv) : res (list N) :=
  let large := md_large m || (max_normal_payload <? lenN (md_data m)) in
  do hd <- enc_header_size_w name_mdat (mdatv_size m) large; Ok (hd ++ md_data m).
(* MdatBox.EncodeSW *)
Definition mdat_enc_sw (m : mdatv) : res (list N) :=
  let large := md_large m || (max_normal_payload <? lenN (md_data m)) in
  do hd <- enc_header_size_sw name_mdat (mdatv_size m) large; Ok (hd ++ md_data m).

(* StsdBox.Encode: EncodeHeader, binary.Write(versionAndFlags), binary.Write(SampleCount), every child's Encode(w);
   size = s.Size(); children as encodable boxes (C03Model.ebox) *)
Definition stsd_enc_w (version flags count size : N) (kids : list ebox) : res (list N) :=
  do hd <- enc_header_w name_stsd size;
  do rest <- enc_list enc_w kids;
  Ok (hd ++ be4 ((version * 16777216 + flags) mod 4294967296) ++ be4 (count mod 4294967296) ++ rest).
(* StsdBox.EncodeSW: EncodeHeaderSW, sw.WriteUint32 x2, every child's EncodeSW(sw) *)
Definition stsd_enc_sw (version flags count size : N) (kids : list ebox) : res (list N) :=
  do hd <- enc_header_sw name_stsd size;
  do rest <- enc_list enc_sw kids;
  Ok (hd ++ be4 ((version * 16777216 + flags) mod 4294967296) ++ be4 (count mod 4294967296) ++ rest).

Definition be2 (n : N) : list N := [(n / 256) mod 256; n mod 256].
(* the 78 bytes both sample-entry encoders write after the header (compressor name of at most 31 bytes: every decoded box) *)
Definition vse_fixed_w (v : vse) : list N :=
  repeat 0 6 ++ be2 (vs_dri v) ++ repeat 0 16 ++ be2 (vs_width v) ++ be2 (vs_height v) ++ be4 (vs_hres v) ++ be4 (vs_vres v)
  ++ repeat 0 4 ++ be2 (vs_frames v) ++ [lenN (vs_cname v) mod 256] ++ vs_cname v
  ++ repeat 0 (N.to_nat ((31 + 256 - lenN (vs_cname v) mod 256) mod 256)) ++ [0; 24] ++ [255; 255].
Definition vse_fixed_sw (v : vse) : list N :=
  repeat 0 6 ++ be2 (vs_dri v) ++ repeat 0 16 ++ be2 (vs_width v) ++ be2 (vs_height v) ++ be4 (vs_hres v) ++ be4 (vs_vres v)
  ++ repeat 0 4 ++ be2 (vs_frames v) ++ [lenN (vs_cname v) mod 256] ++ vs_cname v
  ++ repeat 0 (N.to_nat ((31 + 256 - lenN (vs_cname v) mod 256) mod 256)) ++ [0; 24] ++ [255; 255].
(* VisualSampleEntryBox.Encode: EncodeHeader, the fixed part through a private slice writer over makebuf(b), children Encode(w) *)
Definition vse_enc_w (name : list N) (v : vse) (size : N) (kids : list ebox) : res (list N) :=
  do hd <- enc_header_w name size;
  do rest <- enc_list enc_w kids;
  Ok (hd ++ vse_fixed_w v ++ rest).
(* VisualSampleEntryBox.EncodeSW *)
Definition vse_enc_sw (name : list N) (v : vse) (size : N) (kids : list ebox) : res (list N) :=
  do hd <- enc_header_sw name size;
  do rest <- enc_list enc_sw kids;
  Ok (hd ++ vse_fixed_sw v ++ rest).

(* ------------------------------------------------------------------ the delegation pattern of the other reader-path decoders *)
(* `data, err := readBoxBody(r, hdr); sr := bits.NewFixedSliceReader(data); return DecodeXxxSR(hdr, startPos, sr)`:
   an SR decoder as a decision tree of FixedSliceReader operations (C04Model.rop / rstep), control flow free to depend on
   every value read *)
Inductive sprog (A : Type) : Type :=
| SRet (a : A)                               (* return a, sr.AccError() *)
| SFail                                      (* return nil, fmt.Errorf(...) *)
| SOp (o : rop) (k : rval -> sprog A).
Arguments SRet {A} a.
Arguments SFail {A}.
Arguments SOp {A} o k.

Fixpoint run_sprog {A} (p : sprog A) (s : rstate) : res (A * rstate) :=
  match p with
  | SRet a => Ok (a, s)
  | SFail => Err
  | SOp o k => do (v, s1) <- rstep s o; run_sprog (k v) s1
  end.

(* operations whose effect depends only on the bytes from the current position on (no RemainingBytes, NrRemainingBytes,
   SetPos, GetPos, Length, LookAhead, zero-terminated strings: those see the end or the origin of the slice) *)
Definition local_op (o : rop) : bool :=
  match o with
  | RU8 | RU16 | RI16 | RU24 | RU32 | RI32 | RU64 | RI64 | RAccError => true
  | RFixedStr n => ((0 <=? n) && (n <? 4611686018427387904))%Z     (* a count below 2^62: no int overflow of pos + n *)
  | RBytes n => true
  | RSkip n => ((0 <=? n) && (n <? 4611686018427387904))%Z
  | _ => false
  end.
Fixpoint local_prog {A} (p : sprog A) : Prop :=
  match p with
  | SOp o k => local_op o = true /\ forall v, local_prog (k v)
  | _ => True
  end.

(* ------------------------------------------------------------------ three more fragment-level pairs as reader programs *)
(* mfhd and tfdt are written twice (DecodeMfhd / DecodeTfdt parse the body themselves and return `b, nil`: the private reader's
   error is not consulted); DecodeTfhd reads the body and calls DecodeTfhdSR.  Values: the decoded fields, in order. *)
Definition vN (v : rval) : N := match v with VN x => x | _ => 0 end.

(* DecodeMfhd (after readBoxBody) *)
Definition mfhd_prog_r : sprog (list N) :=
  SOp RU32 (fun vf => SOp RU32 (fun sq => SRet [vN vf / 16777216; N.land (vN vf) flags_mask; vN sq])).
(* DecodeMfhdSR *)
Definition mfhd_prog_sr : sprog (list N) :=
  SOp RU32 (fun vf => SOp RU32 (fun sq => SRet [vN vf / 16777216; N.land (vN vf) flags_mask; vN sq])).

(* DecodeTfdt (after readBoxBody): `if version == 0 { uint64(s.ReadUint32()) } else { s.ReadUint64() }` *)
Definition tfdt_prog_r : sprog (list N) :=
  SOp RU32 (fun vf =>
    if (vN vf / 16777216 =? 0) then SOp RU32 (fun t => SRet [vN vf / 16777216; N.land (vN vf) flags_mask; vN t])
    else SOp RU64 (fun t => SRet [vN vf / 16777216; N.land (vN vf) flags_mask; vN t])).
(* DecodeTfdtSR *)
Definition tfdt_prog_sr : sprog (list N) :=
  SOp RU32 (fun vf =>
    if (vN vf / 16777216 =? 0) then SOp RU32 (fun t => SRet [vN vf / 16777216; N.land (vN vf) flags_mask; vN t])
    else SOp RU64 (fun t => SRet [vN vf / 16777216; N.land (vN vf) flags_mask; vN t])).

(* DecodeTfhdSR (DecodeTfhd delegates to it): optional fields by flag 0x1 (64 bit), 0x2, 0x8, 0x10, 0x20 (32 bit); absent = 0 *)
Definition opt_read (present : bool) (o : rop) (k : N -> sprog (list N)) : sprog (list N) :=
  if present then SOp o (fun v => k (vN v)) else k 0.
Definition tfhd_prog : sprog (list N) :=
  SOp RU32 (fun vf =>
    let fl := N.land (vN vf) flags_mask in
    SOp RU32 (fun tid =>
      opt_read (hasf fl 1) RU64 (fun bdo =>
      opt_read (hasf fl 2) RU32 (fun sdi =>
      opt_read (hasf fl 8) RU32 (fun dur =>
      opt_read (hasf fl 16) RU32 (fun dsz =>
      opt_read (hasf fl 32) RU32 (fun dfl =>
        SRet [vN vf / 16777216; fl; vN tid; bdo; sdi; dur; dsz; dfl]))))))).
Definition tfhd_size (fl : N) : N :=
  16 + (if hasf fl 1 then 8 else 0) + (if hasf fl 2 then 4 else 0) + (if hasf fl 8 then 4 else 0) + (if hasf fl 16 then 4 else 0)
  + (if hasf fl 32 then 4 else 0).

(* reader path: readBoxBody, the program on a private reader; consult = whether its AccError() is returned *)
Definition prog_body_r {A} (consult : bool) (p : sprog A) (data : list N) : res A :=
  do (a, r') <- run_sprog p (rnew data); if consult && rerr r' then Err else Ok a.
Definition prog_r {A} (consult : bool) (p : sprog A) (h : hdr) (s : ist) : res A * ist :=
  let '(rb, s1) := read_box_body h s in (do data <- rb; prog_body_r consult p data, s1).
(* SR path: the program on the caller's reader, `return b, sr.AccError()` *)
Definition prog_sr {A} (p : sprog A) (sr : rstate) : res (A * rstate) :=
  do (a, r') <- run_sprog p sr; if rerr r' then Err else Ok (a, r').

Definition name_mfhd : list N := [109; 102; 104; 100].
Definition name_tfdt : list N := [116; 102; 100; 116].
Definition name_tfhd : list N := [116; 102; 104; 100].

(* Size() of the decoded box: mfhd 16; tfdt 16 / 20 by version; tfhd by flags *)
Definition progbox_size (nm fields : list N) : N :=
  if eqb_name nm name_mfhd then 16
  else if eqb_name nm name_tfdt then (if (nth 0 fields 0 =? 0) then 16 else 20)
  else tfhd_size (nth 1 fields 0).

Definition progbox_r (bs : list N) : res (list N * N) :=
  match decode_header (inew bs) with
  | (Ok (HHdr h), s1) =>
      if eqb_name (hname h) name_mfhd then (let '(r, s2) := prog_r false mfhd_prog_r h s1 in do t <- r; Ok (t, ipos s2))
      else if eqb_name (hname h) name_tfdt then (let '(r, s2) := prog_r false tfdt_prog_r h s1 in do t <- r; Ok (t, ipos s2))
      else if eqb_name (hname h) name_tfhd then (let '(r, s2) := prog_r true tfhd_prog h s1 in do t <- r; Ok (t, ipos s2))
      else Err
  | (Ok HEof, _) => Err
  | (Err, _) => Err | (Panic, _) => Panic | (OutOfFuel, _) => OutOfFuel
  end.
Definition progbox_sr (bs : list N) : res (list N * Z * bool) :=
  match decode_header_sr (snew bs) with
  | (Ok h, s1) =>
      let maxSize := addu64 (u64z (nr_remaining (sr s1))) (hlen h) in
      if (maxSize <? hsize h) then Err
      else if eqb_name (hname h) name_mfhd then (do (t, r2) <- prog_sr mfhd_prog_sr (sr s1); Ok (t, rpos r2, rerr r2))
      else if eqb_name (hname h) name_tfdt then (do (t, r2) <- prog_sr tfdt_prog_sr (sr s1); Ok (t, rpos r2, rerr r2))
      else if eqb_name (hname h) name_tfhd then (do (t, r2) <- prog_sr tfhd_prog (sr s1); Ok (t, rpos r2, rerr r2))
      else Err
  | (Err, _) => Err | (Panic, _) => Panic | (OutOfFuel, _) => OutOfFuel
  end.

(* ------------------------------------------------------------------ extended reader programs (second round) *)
(* The SR decoders of the delegating pairs found by the source-fact extractor (harness/c03/srcfacts.go) also use
   ReadZeroTerminatedString / ReadPossiblyZeroTerminatedString, ReadFixedLengthString with computed counts, and the idiom
   `initPos := sr.GetPos()` (first statement) ... `sr.GetPos() - initPos`.  XRelPos is that idiom: the position relative to
   where the decoder started (origin = the reader position at entry: 0 on the private body reader, the offset of the body
   on the caller's reader). *)
Inductive xprog (A : Type) : Type :=
| XRet (a : A)
| XFail
| XOp (o : rop) (k : rval -> xprog A)
| XRelPos (k : Z -> xprog A).
Arguments XRet {A} a.
Arguments XFail {A}.
Arguments XOp {A} o k.
Arguments XRelPos {A} k.

Fixpoint run_xprog {A} (origin : Z) (p : xprog A) (s : rstate) : res (A * rstate) :=
  match p with
  | XRet a => Ok (a, s)
  | XFail => Err
  | XOp o k => do (v, s1) <- rstep s o; run_xprog origin (k v) s1
  | XRelPos k => run_xprog origin (k (rpos s - origin)%Z) s
  end.

(* counts are Go ints (is_int); a fixed-length string needs no further bound (a run that ends without error read it inside the
   body); the zero-terminated reads compute pos + maxLen: below 2^62 so that the sum does not wrap on the larger buffer;
   SkipBytes with a negative count moves backwards, possibly before the body: excluded *)
Definition local_xop (o : rop) : bool :=
  match o with
  | RU8 | RU16 | RI16 | RU24 | RU32 | RI32 | RU64 | RI64 | RAccError => true
  | RFixedStr n => is_int n
  | RBytes n => true
  | RSkip n => ((0 <=? n) && (n <? 4611686018427387904))%Z
  | RZStr m => (is_int m && (m <? 4611686018427387904))%Z
  | RPZStr m => (is_int m && (m <? 4611686018427387904))%Z
  | _ => false
  end.
Fixpoint local_xprog {A} (p : xprog A) : Prop :=
  match p with
  | XOp o k => local_xop o = true /\ forall v, local_xprog (k v)
  | XRelPos k => forall z, local_xprog (k z)   (* convention: k z = XFail for z outside [0, 2^62): never an offset into a body *)
  | _ => True
  end.

Fixpoint xprog_of_sprog {A} (p : sprog A) : xprog A :=
  match p with
  | SRet a => XRet a
  | SFail => XFail
  | SOp o k => XOp o (fun v => xprog_of_sprog (k v))
  end.

(* the pair in the form the decoders use it: an optional test on the header alone (`if hdr.Size != 20 { return nil, err }`),
   repeated at the start of the SR decoder; reader path: readBoxBody, the program on a private reader, whatever it returns;
   `strict`: the decoder ends with `return b, sr.AccError()` (true) or `return b, nil` (false) *)
Definition xprog_body_r {A} (guard strict : bool) (p : xprog A) (data : list N) : res A :=
  if guard then Err else
  do (a, r') <- run_xprog 0 p (rnew data); if strict && rerr r' then Err else Ok a.
Definition xprog_sr {A} (guard strict : bool) (p : xprog A) (sr : rstate) : res (A * rstate) :=
  if guard then Err else
  do (a, r') <- run_xprog (rpos sr) p sr; if strict && rerr r' then Err else Ok (a, r').
