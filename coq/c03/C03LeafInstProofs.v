(* C03LeafInstProofs.v — the leaf pair models as the leaf decoders of the box loops: they satisfy the C04 leaf contract
   (never panic, stay inside the buffer), and every payload the reader-path decoder accepts is a canonical leaf, so that
   C03_decode_agree_canonical / C03_file_boxes_agree hold with trun, senc and mdat decoded by the pair models. *)
From V.lib Require Import Base.
From V.c04 Require Import C04Model C04ReaderProofs C04ContainerProofs.
From V.c03 Require Import C03Model C03Spec C03CanonProofs C03LeafModel C03LeafProofs C03LeafBoxProofs.
Open Scope Z_scope.

(* ---------------------------------------------------------------- totality of the reads (no bound on the buffer length) *)
Definition WInv (s : rstate) : Prop := 0 <= rpos s <= rlen s.

Lemma read_fixed_w k s : WInv s -> 0 <= k ->
  exists v s', read_fixed k s = Ok (v, s') /\ WInv s' /\ rbuf s' = rbuf s /\ rpos s <= rpos s'.
Proof.
  intros HI Hk. unfold read_fixed. destruct (rerr s).
  { eexists _, _. split; [reflexivity|]. repeat split; try apply HI; lia. }
  destruct (rpos s >? rlen s - k) eqn:E.
  { eexists _, _. split; [reflexivity|]. cbn. repeat split; try apply HI; lia. }
  destruct HI as [HI1 HI2].
  destruct (gslice_ok (rbuf s) (rpos s) (rpos s + k)) as [l Hl]; try (unfold rlen in *; lia).
  rewrite Hl. cbn [rbind]. eexists _, _. split; [reflexivity|].
  unfold WInv, with_pos, rlen in *. cbn. repeat split; lia.
Qed.

Lemma cond_read_w (c : bool) (d : N) s : WInv s ->
  exists v s', (if c then read_fixed 4 s else Ok (d, s)) = Ok (v, s') /\ WInv s' /\ rbuf s' = rbuf s /\ rpos s <= rpos s'.
Proof.
  intros HI. destruct c; [apply read_fixed_w; [exact HI|lia]|].
  exists d, s. split; [reflexivity|]. split; [exact HI|]. split; [reflexivity|lia].
Qed.

Lemma trun_samples_r_w : forall n first fl fsf s, WInv s ->
  exists l s', trun_samples_r n first fl fsf s = Ok (l, s') /\ WInv s' /\ rbuf s' = rbuf s /\ rpos s <= rpos s' /\ length l = n.
Proof.
  induction n as [|n IH]; intros first fl fsf s HI.
  - exists [], s. split; [reflexivity|]. split; [exact HI|]. split; [reflexivity|]. split; [lia|reflexivity].
  - cbn [trun_samples_r].
    destruct (cond_read_w (hasf fl 256) 0%N s HI) as [v1 [s1 [E1 [I1 [B1 P1]]]]]. rewrite E1. cbn [rbind].
    destruct (cond_read_w (hasf fl 512) 0%N s1 I1) as [v2 [s2 [E2 [I2 [B2 P2]]]]]. rewrite E2. cbn [rbind].
    destruct (cond_read_w (hasf fl 1024) (if hasf fl 4 && first then fsf else 0)%N s2 I2) as [v3 [s3 [E3 [I3 [B3 P3]]]]]. rewrite E3. cbn [rbind].
    destruct (cond_read_w (hasf fl 2048) 0%N s3 I3) as [v4 [s4 [E4 [I4 [B4 P4]]]]]. rewrite E4. cbn [rbind].
    destruct (IH false fl fsf s4 I4) as [l [s5 [E5 [I5 [B5 [P5 L5]]]]]]. rewrite E5. cbn [rbind].
    eexists _, _. split; [reflexivity|]. split; [exact I5|]. split; [congruence|]. split; [lia|]. cbn [length]. congruence.
Qed.

Lemma trun_samples_sr_w : forall n first fl fsf s, WInv s ->
  exists l s', trun_samples_sr n first fl fsf s = Ok (l, s') /\ WInv s' /\ rbuf s' = rbuf s /\ rpos s <= rpos s' /\ length l = n.
Proof.
  induction n as [|n IH]; intros first fl fsf s HI.
  - exists [], s. split; [reflexivity|]. split; [exact HI|]. split; [reflexivity|]. split; [lia|reflexivity].
  - cbn [trun_samples_sr].
    destruct (cond_read_w (hasf fl 256) 0%N s HI) as [v1 [s1 [E1 [I1 [B1 P1]]]]]. rewrite E1. cbn [rbind].
    destruct (cond_read_w (hasf fl 512) 0%N s1 I1) as [v2 [s2 [E2 [I2 [B2 P2]]]]]. rewrite E2. cbn [rbind].
    destruct (cond_read_w (hasf fl 1024) (if hasf fl 4 && first then fsf else 0)%N s2 I2) as [v3 [s3 [E3 [I3 [B3 P3]]]]]. rewrite E3. cbn [rbind].
    destruct (cond_read_w (hasf fl 2048) 0%N s3 I3) as [v4 [s4 [E4 [I4 [B4 P4]]]]]. rewrite E4. cbn [rbind].
    destruct (IH false fl fsf s4 I4) as [l [s5 [E5 [I5 [B5 [P5 L5]]]]]]. rewrite E5. cbn [rbind].
    eexists _, _. split; [reflexivity|]. split; [exact I5|]. split; [congruence|]. split; [lia|]. cbn [length]. congruence.
Qed.

(* a SliceReader-path leaf decoder step: a value and a state inside the same buffer, not before s; or an error *)
Definition okstep {A} (s : rstate) (r : res (A * rstate)) : Prop :=
  match r with
  | Ok (_, s') => WInv s' /\ rbuf s' = rbuf s /\ rpos s <= rpos s'
  | Err => True
  | _ => False
  end.

Lemma trun_sr_w h s : WInv s -> okstep s (trun_sr h s).
Proof.
  intros HI. unfold trun_sr.
  destruct (read_fixed_w 4 s HI ltac:(lia)) as [vf [s1 [E1 [I1 [B1 P1]]]]]. rewrite E1. cbn [rbind].
  destruct (read_fixed_w 4 s1 I1 ltac:(lia)) as [cnt [s2 [E2 [I2 [B2 P2]]]]]. rewrite E2. cbn [rbind].
  destruct (negb (hsize h =? trun_expected (N.land vf flags_mask) cnt)%N); [exact I|].
  destruct ((1024 <? cnt)%N && trun_no_sample_fields (N.land vf flags_mask)); [exact I|].
  destruct (cond_read_w (hasf (N.land vf flags_mask) 1) 0%N s2 I2) as [v3 [s3 [E3 [I3 [B3 P3]]]]]. rewrite E3. cbn [rbind].
  destruct (cond_read_w (hasf (N.land vf flags_mask) 4) 0%N s3 I3) as [v4 [s4 [E4 [I4 [B4 P4]]]]]. rewrite E4. cbn [rbind].
  destruct (trun_samples_sr_w (N.to_nat cnt) true (N.land vf flags_mask) v4 s4 I4) as [l [s5 [E5 [I5 [B5 [P5 _]]]]]]. rewrite E5. cbn [rbind].
  destruct (rerr s5); [exact I|]. cbn [okstep]. split; [exact I5|]. split; [congruence|lia].
Qed.

Lemma WInv_rnew data : WInv (rnew data).
Proof. unfold WInv, rnew, rlen. cbn [rpos rbuf]. pose proof (zlen_nonneg data). lia. Qed.

Lemma trun_body_r_np h data : np (trun_body_r h data).
Proof.
  unfold trun_body_r.
  destruct (read_fixed_w 4 (rnew data) (WInv_rnew data) ltac:(lia)) as [vf [s1 [E1 [I1 [B1 P1]]]]]. rewrite E1. cbn [rbind].
  destruct (read_fixed_w 4 s1 I1 ltac:(lia)) as [cnt [s2 [E2 [I2 [B2 P2]]]]]. rewrite E2. cbn [rbind].
  destruct (negb (hsize h =? trun_expected (N.land vf flags_mask) cnt)%N); [exact I|].
  destruct ((1024 <? cnt)%N && trun_no_sample_fields (N.land vf flags_mask)); [exact I|].
  destruct (cond_read_w (hasf (N.land vf flags_mask) 1) 0%N s2 I2) as [v3 [s3 [E3 [I3 [B3 P3]]]]]. rewrite E3. cbn [rbind].
  destruct (cond_read_w (hasf (N.land vf flags_mask) 4) 0%N s3 I3) as [v4 [s4 [E4 [I4 [B4 P4]]]]]. rewrite E4. cbn [rbind].
  destruct (trun_samples_r_w (N.to_nat cnt) true (N.land vf flags_mask) v4 s4 I4) as [l [s5 [E5 _]]]. rewrite E5. cbn [rbind]. exact I.
Qed.

Lemma Inv_W s : Inv s -> WInv s.
Proof. intros [H _]. exact H. Qed.

Lemma senc_sr_w h s : Inv s -> okstep s (senc_sr h s).
Proof.
  intros HI. unfold senc_sr. destruct (hsize h <? 16)%N; [exact I|].
  destruct (read_fixed_spec 4 s HI ltac:(lia)) as [vf [s1 [E1 [I1 [B1 [P1 _]]]]]]. rewrite E1. cbn [rbind].
  destruct (0 <? vf / 16777216)%N; [exact I|].
  destruct (read_fixed_spec 4 s1 I1 ltac:(lia)) as [cnt [s2 [E2 [I2 [B2 [P2 _]]]]]]. rewrite E2. cbn [rbind].
  destruct (w64 (payload_len h - 8) <? 0); [exact I|].
  destruct (hasf (N.land vf flags_mask) 2 && (u64z (w64 (payload_len h - 8)) <? 2 * cnt)%N); [exact I|].
  destruct (read_bytes_spec (w64 (payload_len h - 8)) s2 I2) as [raw [s3 [E3 [I3 [B3 P3]]]]]. rewrite E3. cbn [rbind].
  destruct (rerr s3); [exact I|]. cbn [okstep]. split; [apply Inv_W; exact I3|]. split; [congruence|lia].
Qed.

Lemma senc_body_r_np h data : np (senc_body_r h data).
Proof.
  unfold senc_body_r. destruct (zlen data <? 8) eqn:E8; [exact I|].
  destruct (gslice_ok data 0 4) as [l1 G1]; try lia. rewrite G1. cbn [rbind].
  destruct (0 <? be l1 0 / 16777216)%N; [exact I|].
  destruct (gslice_ok data 4 8) as [l2 G2]; try lia. rewrite G2. cbn [rbind].
  destruct (gslice_ok data 8 (zlen data)) as [l3 G3]; try lia. rewrite G3. cbn [rbind].
  destruct (hasf (N.land (be l1 0) flags_mask) 2 && (zlen l3 <? 2 * Z.of_N (be l2 0))); exact I.
Qed.

Lemma mdat_sr_w h s : Inv s -> okstep s (mdat_sr h s).
Proof.
  intros HI. unfold mdat_sr.
  destruct (read_bytes_spec (payload_len h) s HI) as [d [s1 [E [I1 [B1 P1]]]]]. rewrite E. cbn [rbind okstep].
  split; [apply Inv_W; exact I1|]. split; [congruence|lia].
Qed.

(* ---------------------------------------------------------------- readBoxBody on every reader state *)
Lemma read_box_body_spec h s : (ipos s <= lenN (ibuf s))%N ->
  exists rb s', read_box_body h s = (rb, s') /\ np rb /\ ibuf s' = ibuf s /\
    (ipos s <= ipos s' <= lenN (ibuf s))%N /\ T (icost s') <= T (icost s) + (Z.of_N (ipos s') - Z.of_N (ipos s)).
Proof.
  intros HI. unfold read_box_body.
  destruct (hlen h =? hsize h)%N.
  { eexists _, _. split; [reflexivity|]. cbn. repeat split; try lia. }
  unfold read_limited.
  destruct (int_of_u64 (subu64 (hsize h) (hlen h)) <=? 0) eqn:En.
  { destruct (zlen (@nil N) =? int_of_u64 (subu64 (hsize h) (hlen h))); eexists _, _; (split; [reflexivity|]); cbn; repeat split; try lia. }
  set (k := N.min (Z.to_N (int_of_u64 (subu64 (hsize h) (hlen h)))) (iavail s)).
  assert (Hk : (k <= lenN (ibuf s) - ipos s)%N) by (subst k; unfold iavail; lia).
  match goal with |- context [zlen ?d =? ?x] => destruct (zlen d =? x) end;
    eexists _, _; (split; [reflexivity|]); cbn [np ibuf ipos icost]; rewrite ?T_alloc; repeat split; try exact I; try lia.
Qed.

(* ---------------------------------------------------------------- the leaf contract *)
Lemma wrap_sr_ok {A} (size : A -> N) (r : res (A * rstate)) s : Inv (sr s) -> okstep (sr s) r ->
  exists r' s', wrap_sr size r s = (r', s') /\ np r' /\ Inv (sr s') /\ rbuf (sr s') = rbuf (sr s) /\
    rpos (sr s) <= rpos (sr s') /\ T (scost s') <= T (scost s) + (rpos (sr s') - rpos (sr s)) + 1.
Proof.
  intros HI Hok. unfold wrap_sr. destruct r as [[v r']| | |]; cbn [okstep] in Hok; try contradiction.
  - destruct Hok as [W [B P]]. eexists _, _. split; [reflexivity|]. cbn [np sr scost].
    split; [exact I|]. split; [|split; [exact B|split; [exact P|lia]]].
    unfold Inv, WInv, rlen in *. rewrite B in W |- *. destruct HI. lia.
  - eexists _, _. split; [reflexivity|]. cbn [np]. split; [exact I|]. split; [exact HI|]. split; [reflexivity|]. lia.
Qed.

Lemma wrap_r_ok {A} (size : A -> N) (f : list N -> res A) h s : (forall d, np (f d)) -> (ipos s <= lenN (ibuf s))%N ->
  exists r s', wrap_r size (let '(rb, s1) := read_box_body h s in (do data <- rb; f data, s1)) = (r, s') /\ np r /\ ibuf s' = ibuf s /\
    (ipos s <= ipos s' <= lenN (ibuf s))%N /\ T (icost s') <= T (icost s) + (Z.of_N (ipos s') - Z.of_N (ipos s)) + 1.
Proof.
  intros Hf HI. destruct (read_box_body_spec h s HI) as [rb [s1 [E [NP [B [P C]]]]]]. rewrite E. unfold wrap_r. cbn [fst snd].
  eexists _, _. split; [reflexivity|]. split; [|split; [exact B|split; [exact P|lia]]].
  destruct rb as [d| | |]; cbn [rbind np] in *; try contradiction; try exact I.
  specialize (Hf d). destruct (f d); cbn [rbind np] in *; try contradiction; exact I.
Qed.

Theorem pair_leaves_ok : leaf_ok pair_leaves.
Proof.
  constructor.
  - intros h s HI. cbn [ld_sr pair_leaves]. unfold pair_sr.
    destruct (eqb_name (hname h) name_trun); [apply wrap_sr_ok; [exact HI|apply trun_sr_w, Inv_W, HI]|].
    destruct (eqb_name (hname h) name_senc); [apply wrap_sr_ok; [exact HI|apply senc_sr_w, HI]|].
    destruct (eqb_name (hname h) name_mdat); [apply wrap_sr_ok; [exact HI|apply mdat_sr_w, HI]|].
    apply (leaf_sr_ok std_leaves std_leaves_ok). exact HI.
  - intros h s HI. cbn [ld_r pair_leaves]. unfold pair_r.
    destruct (eqb_name (hname h) name_trun); [apply (wrap_r_ok trun_size (trun_body_r h)); [apply trun_body_r_np|exact HI]|].
    destruct (eqb_name (hname h) name_senc).
    { unfold senc_r. destruct (hsize h <? 16)%N.
      - eexists _, _. split; [reflexivity|]. cbn. repeat split; lia.
      - apply (wrap_r_ok senc_size (fun d => do v <- senc_body_r h d; Ok (senc_fix v))); [|exact HI].
        intros d. pose proof (senc_body_r_np h d) as H. destruct (senc_body_r h d); cbn [rbind np] in *; try contradiction; exact I. }
    destruct (eqb_name (hname h) name_mdat).
    { apply (wrap_r_ok mdatv_size (fun d => Ok (mkMdat d (8 <? hlen h)%N))); [intros; exact I|exact HI]. }
    apply (leaf_r_ok std_leaves std_leaves_ok). exact HI.
Qed.

(* ---------------------------------------------------------------- accepted payloads are canonical leaves *)
Lemma trun_size_of_body h p t : (hsize h < 4294967296)%N -> trun_body_r h p = Ok t -> trun_size t = hsize h.
Proof.
  intros H32. unfold trun_body_r.
  destruct (read_fixed_w 4 (rnew p) (WInv_rnew p) ltac:(lia)) as [vf [s1 [E1 [I1 [B1 P1]]]]]. rewrite E1. cbn [rbind].
  destruct (read_fixed_w 4 s1 I1 ltac:(lia)) as [cnt [s2 [E2 [I2 [B2 P2]]]]]. rewrite E2. cbn [rbind].
  set (fl := N.land vf flags_mask).
  destruct (hsize h =? trun_expected fl cnt)%N eqn:Esz; cbn [negb]; [|discriminate].
  destruct ((1024 <? cnt)%N && trun_no_sample_fields fl) eqn:Ebig; [discriminate|].
  destruct (cond_read_w (hasf fl 1) 0%N s2 I2) as [v3 [s3 [E3 [I3 [B3 P3]]]]]. rewrite E3. cbn [rbind].
  destruct (cond_read_w (hasf fl 4) 0%N s3 I3) as [v4 [s4 [E4 [I4 [B4 P4]]]]]. rewrite E4. cbn [rbind].
  destruct (trun_samples_r_w (N.to_nat cnt) true fl v4 s4 I4) as [l [s5 [E5 [_ [_ [_ L5]]]]]]. rewrite E5. cbn [rbind].
  intros H. inversion H. subst t. unfold trun_size. cbn [tr_flags tr_samples].
  apply N.eqb_eq in Esz. rewrite Esz.
  assert (Hc : (cnt < 4294967296)%N).
  { unfold trun_expected, trun_bps, trun_no_sample_fields in *.
    destruct (hasf fl 256), (hasf fl 512), (hasf fl 1024), (hasf fl 2048), (hasf fl 1), (hasf fl 4); cbn [negb andb] in *; lia. }
  unfold lenN. rewrite L5, N2Nat.id. rewrite N.mod_small by exact Hc. reflexivity.
Qed.

Lemma pair_canon_trun p t : (lenN p < 4294967288)%N ->
  trun_body_r (mkH name_trun (8 + lenN p) 8) p = Ok t -> canon_leaf pair_leaves name_trun p.
Proof.
  intros Hl Ht. set (h := mkH name_trun (8 + lenN p) 8) in *.
  assert (Hsz : trun_size t = (8 + lenN p)%N) by (apply (trun_size_of_body h p t); [cbn [hsize h]; lia|exact Ht]).
  split; [reflexivity|]. split.
  - intros pre post cst Hall. cbn [ld_sr pair_leaves]. unfold pair_sr. fold h. change (eqb_name (hname h) name_trun) with true. cbv iota.
    cbn [sr]. pose proof (trun_pair_agree h p pre post eq_refl Hall) as HA. unfold agree_at in HA. rewrite Ht in HA. rewrite HA.
    unfold wrap_sr. cbn [scost]. rewrite Hsz. eexists. reflexivity.
  - intros pre post cst Hall. cbn [ld_r pair_leaves]. unfold pair_r. fold h. change (eqb_name (hname h) name_trun) with true. cbv iota.
    unfold trun_r. destruct (read_box_body_canon name_trun p pre post cst Hall Hl) as [c' HB]. fold h in HB. rewrite HB.
    unfold wrap_r. cbn [fst snd rbind]. rewrite Ht. cbn [rbind]. rewrite Hsz. eexists. reflexivity.
Qed.

Lemma senc_size_of_body h p v : hlen h = 8%N -> (16 <= hsize h < 4294967296)%N -> senc_after_body_r h p = Ok v -> senc_size v = hsize h.
Proof.
  intros Hhl H32. unfold senc_after_body_r. replace (hsize h <? 16)%N with false by lia.
  destruct (senc_body_r h p) as [w| | |] eqn:Eb; cbn [rbind]; try discriminate.
  intros H. inversion H. subst v.
  assert (Hrs : se_read_size w = hsize h).
  { unfold senc_body_r in Eb. destruct (zlen p <? 8); [discriminate|].
    destruct (gslice p 0 4); cbn [rbind] in Eb; try discriminate.
    destruct (0 <? be a 0 / 16777216)%N; [discriminate|].
    destruct (gslice p 4 8); cbn [rbind] in Eb; try discriminate.
    destruct (gslice p 8 (zlen p)); cbn [rbind] in Eb; try discriminate.
    destruct (hasf (N.land (be a 0) flags_mask) 2 && (zlen a1 <? 2 * Z.of_N (be a0 0))); [discriminate|].
    inversion Eb. cbn [se_read_size]. unfold senc_read_size, subu64, addu64. rewrite Hhl.
    rewrite (N.mod_small 8) by lia.
    replace (hsize h + 18446744073709551616 - 8)%N with ((hsize h - 8) + 1 * 18446744073709551616)%N by lia.
    rewrite N.mod_add by lia. rewrite (N.mod_small (hsize h - 8)) by lia. rewrite N.mod_small by lia. lia. }
  unfold senc_size, senc_fix. destruct ((se_count w =? 0)%N || (lenN (se_raw w) =? 0)%N); cbn [se_read_size]; rewrite Hrs;
    replace (0 <? hsize h)%N with true by lia; reflexivity.
Qed.

Lemma pair_canon_senc p v : (8 <= lenN p < 4294967288)%N ->
  senc_after_body_r (mkH name_senc (8 + lenN p) 8) p = Ok v -> canon_leaf pair_leaves name_senc p.
Proof.
  intros Hl Hv. set (h := mkH name_senc (8 + lenN p) 8) in *.
  assert (Hsz : senc_size v = (8 + lenN p)%N) by (apply (senc_size_of_body h p v); [reflexivity|cbn [hsize h]; lia|exact Hv]).
  split; [reflexivity|]. split.
  - intros pre post cst Hall. cbn [ld_sr pair_leaves]. unfold pair_sr. fold h.
    change (eqb_name (hname h) name_trun) with false. change (eqb_name (hname h) name_senc) with true. cbv iota.
    cbn [sr]. pose proof (senc_pair_agree h p pre post (or_introl eq_refl) eq_refl ltac:(cbn [hsize h]; lia) Hall) as HA.
    unfold agree_at in HA. rewrite Hv in HA. rewrite HA.
    unfold wrap_sr. cbn [scost]. rewrite Hsz. eexists. reflexivity.
  - intros pre post cst Hall. cbn [ld_r pair_leaves]. unfold pair_r. fold h.
    change (eqb_name (hname h) name_trun) with false. change (eqb_name (hname h) name_senc) with true. cbv iota.
    unfold senc_r. unfold senc_after_body_r in Hv. destruct (hsize h <? 16)%N; [discriminate|].
    destruct (read_box_body_canon name_senc p pre post cst Hall ltac:(lia)) as [c' HB]. fold h in HB. rewrite HB.
    unfold wrap_r. cbn [fst snd rbind]. rewrite Hv. cbn [rbind]. rewrite Hsz. eexists. reflexivity.
Qed.

Lemma pair_canon_mdat p : (lenN p <= max_normal_payload)%N -> canon_leaf pair_leaves name_mdat p.
Proof.
  intros Hl. unfold max_normal_payload in Hl. set (h := mkH name_mdat (8 + lenN p) 8).
  assert (Hsz : mdatv_size (mkMdat p false) = (8 + lenN p)%N).
  { unfold mdatv_size, mdat_size. cbn [md_data md_large orb]. unfold max_normal_payload.
    replace (4294967287 <? lenN p)%N with false by lia. unfold addu64. rewrite !N.mod_small by lia. lia. }
  split; [reflexivity|]. split.
  - intros pre post cst Hall. cbn [ld_sr pair_leaves]. unfold pair_sr. fold h.
    change (eqb_name (hname h) name_trun) with false. change (eqb_name (hname h) name_senc) with false.
    change (eqb_name (hname h) name_mdat) with true. cbv iota. cbn [sr].
    pose proof (mdat_pair_agree h p pre post (or_introl eq_refl) eq_refl ltac:(cbn [hsize h]; lia) Hall) as HA. unfold agree_at in HA.
    rewrite HA. unfold wrap_sr. cbn [scost]. change (8 <? hlen h)%N with false. rewrite Hsz. eexists. reflexivity.
  - intros pre post cst Hall. cbn [ld_r pair_leaves]. unfold pair_r. fold h.
    change (eqb_name (hname h) name_trun) with false. change (eqb_name (hname h) name_senc) with false.
    change (eqb_name (hname h) name_mdat) with true. cbv iota.
    unfold mdat_r. destruct (read_box_body_canon name_mdat p pre post cst Hall ltac:(lia)) as [c' HB]. fold h in HB. rewrite HB.
    unfold wrap_r. cbn [fst snd rbind]. change (8 <? hlen h)%N with false. rewrite Hsz. eexists. reflexivity.
Qed.

(* mdat behind the 16-byte header: LargeSize on both paths, Size() = 16 + len *)
Lemma read_box_body_large nm body pre post cst :
  zlen (pre ++ body ++ post) < two63 -> (lenN body < 4294967280)%N ->
  exists cst', read_box_body (mkH nm (16 + lenN body) 16) (mkI (pre ++ body ++ post) (lenN pre) cst)
               = (Ok body, mkI (pre ++ body ++ post) (lenN pre + lenN body) cst').
Proof.
  intros Hall Hl. unfold read_box_body. cbn [hsize hlen].
  destruct (16 =? 16 + lenN body)%N eqn:E0.
  - apply N.eqb_eq in E0. assert (H0 : lenN body = 0%N) by lia.
    assert (body = []) by (destruct body; [reflexivity|unfold lenN in H0; cbn [length] in H0; lia]). subst body.
    exists cst. cbn [app]. replace (lenN pre + lenN (@nil N))%N with (lenN pre) by (unfold lenN; cbn [length]; lia). reflexivity.
  - assert (Eb : subu64 (16 + lenN body) 16 = lenN body).
    { unfold subu64. rewrite (N.mod_small 16) by lia.
      replace (16 + lenN body + 18446744073709551616 - 16)%N with (lenN body + 1 * 18446744073709551616)%N by lia.
      rewrite N.mod_add by lia. rewrite N.mod_small; lia. }
    rewrite Eb. unfold int_of_u64. rewrite w64_id by (unfold two63; lia). rewrite <- zlen_lenN.
    rewrite read_limited_mid by exact Hall. rewrite Z.eqb_refl. eexists. reflexivity.
Qed.

Lemma pair_canon_large_mdat p : (lenN p < 4294967280)%N -> canon_large pair_leaves name_mdat p.
Proof.
  intros Hl. set (h := mkH name_mdat (16 + lenN p) 16).
  assert (Hsz : mdatv_size (mkMdat p true) = (16 + lenN p)%N).
  { unfold mdatv_size, mdat_size. cbn [md_data md_large orb]. unfold addu64. rewrite !N.mod_small by lia. lia. }
  split; [reflexivity|]. split.
  - intros pre post cst Hall. cbn [ld_sr pair_leaves]. unfold pair_sr. fold h.
    change (eqb_name (hname h) name_trun) with false. change (eqb_name (hname h) name_senc) with false.
    change (eqb_name (hname h) name_mdat) with true. cbv iota. cbn [sr].
    pose proof (mdat_pair_agree h p pre post (or_intror eq_refl) eq_refl ltac:(cbn [hsize h]; lia) Hall) as HA. unfold agree_at in HA.
    rewrite HA. unfold wrap_sr. cbn [scost]. change (8 <? hlen h)%N with true. rewrite Hsz. eexists. reflexivity.
  - intros pre post cst Hall. cbn [ld_r pair_leaves]. unfold pair_r. fold h.
    change (eqb_name (hname h) name_trun) with false. change (eqb_name (hname h) name_senc) with false.
    change (eqb_name (hname h) name_mdat) with true. cbv iota.
    unfold mdat_r. destruct (read_box_body_large name_mdat p pre post cst Hall Hl) as [c' HB]. fold h in HB. rewrite HB.
    unfold wrap_r. cbn [fst snd rbind]. change (8 <? hlen h)%N with true. rewrite Hsz. eexists. reflexivity.
Qed.

(* every other leaf type: the C04 standard leaves *)
Lemma pair_canon_std nm p :
  eqb_name nm name_trun = false -> eqb_name nm name_senc = false -> eqb_name nm name_mdat = false ->
  std_canon_ok nm p -> canon_leaf pair_leaves nm p.
Proof.
  intros E1 E2 E3 Hstd. destruct (std_canon_leaf nm p Hstd) as [Hk [Hsr Hr]].
  split; [exact Hk|]. split.
  - intros pre post cst Hall. cbn [ld_sr pair_leaves]. unfold pair_sr. cbn [hname]. rewrite E1, E2, E3. apply Hsr. exact Hall.
  - intros pre post cst Hall. cbn [ld_r pair_leaves]. unfold pair_r. cbn [hname]. rewrite E1, E2, E3. apply Hr. exact Hall.
Qed.

(* ---------------------------------------------------------------- the framing theorems with the pair models as leaves *)
Theorem pair_decode_agree_canonical : forall c, cwf pair_leaves c -> fits c ->
  fst (box_sr pair_leaves (cenc c)) = Ok (erase c) /\ fst (box_r pair_leaves (cenc c)) = Ok (BBox (erase c)).
Proof. intros c Hw Hf. apply decode_agree_canonical; [exact pair_leaves_ok|exact Hw|exact Hf]. Qed.

Theorem pair_file_boxes_agree : forall cs, Forall (cwf pair_leaves) cs -> (lenN (cencs cs) < 4294967296)%N ->
  fst (file_sr pair_leaves (cencs cs)) = Ok (map erase cs) /\ fst (file_r pair_leaves (cencs cs)) = Ok (map erase cs).
Proof. intros cs Hw Hl. apply file_boxes_agree; [exact pair_leaves_ok|exact Hw|exact Hl]. Qed.
