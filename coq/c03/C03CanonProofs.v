(* C03CanonProofs.v — on every canonical byte string both decode paths accept and build the same tree. *)
From V.lib Require Import Base.
From V.c04 Require Import C04Model C04ReaderProofs C04ContainerProofs.
From V.c03 Require Import C03Model C03Spec.
Open Scope Z_scope.

(* ---------------------------------------------------------------- lists and bytes *)
Lemma zlen_app {A} (a b : list A) : zlen (a ++ b) = zlen a + zlen b.
Proof. unfold zlen. rewrite app_length. lia. Qed.
Lemma zlen_lenN {A} (l : list A) : zlen l = Z.of_N (lenN l).
Proof. unfold zlen, lenN. lia. Qed.
Lemma zlen_nonneg {A} (l : list A) : 0 <= zlen l.
Proof. unfold zlen. lia. Qed.

Lemma gslice_mid (pre x post : list N) :
  gslice (pre ++ x ++ post) (zlen pre) (zlen pre + zlen x) = Ok x.
Proof.
  unfold gslice. rewrite !zlen_app.
  pose proof (zlen_nonneg pre). pose proof (zlen_nonneg x). pose proof (zlen_nonneg post).
  replace ((0 <=? zlen pre) && (zlen pre <=? zlen pre + zlen x) && (zlen pre + zlen x <=? zlen pre + (zlen x + zlen post)))%bool
    with true by lia.
  f_equal. replace (zlen pre + zlen x - zlen pre) with (zlen x) by lia. unfold zlen. rewrite !Nat2Z.id.
  rewrite skipn_app, skipn_all, Nat.sub_diag. cbn [skipn app].
  rewrite firstn_app, firstn_all, Nat.sub_diag. cbn [firstn]. apply app_nil_r.
Qed.

Lemma be4_len n : length (be4 n) = 4%nat.
Proof. reflexivity. Qed.

Lemma be_be4 n : (n < 4294967296)%N -> be (be4 n) 0 = n.
Proof. intros H. unfold be4, be. lia. Qed.

Lemma be8_len n : length (be8 n) = 8%nat.
Proof. reflexivity. Qed.

Lemma be_be8 n : (n < 18446744073709551616)%N -> be (be8 n) 0 = n.
Proof. intros H. unfold be8, be. lia. Qed.

(* ---------------------------------------------------------------- SliceReader: header on a canonical layout *)
Lemma read_fixed_mid k pre x post :
  zlen x = k -> zlen (pre ++ x ++ post) < two63 ->
  read_fixed k (mkR (pre ++ x ++ post) (zlen pre) false)
  = Ok (be x 0, mkR (pre ++ x ++ post) (zlen pre + k) false).
Proof.
  intros Hk Hs. unfold read_fixed. cbn [rerr rpos rbuf rlen].
  unfold rlen. cbn [rbuf]. rewrite !zlen_app in *.
  pose proof (zlen_nonneg pre). pose proof (zlen_nonneg post).
  replace (zlen pre >? zlen pre + (zlen x + zlen post) - k) with false by lia.
  rewrite <- Hk. rewrite gslice_mid. cbn [rbind]. reflexivity.
Qed.

Lemma read_fixed_string_mid pre x post :
  zlen (pre ++ x ++ post) < two63 ->
  read_fixed_string (zlen x) (mkR (pre ++ x ++ post) (zlen pre) false)
  = Ok (x, mkR (pre ++ x ++ post) (zlen pre + zlen x) false).
Proof.
  intros Hs. unfold read_fixed_string. cbn [rerr rpos rbuf].
  unfold rlen. cbn [rbuf]. rewrite !zlen_app in *.
  pose proof (zlen_nonneg pre). pose proof (zlen_nonneg post). pose proof (zlen_nonneg x).
  rewrite !w64_id by (unfold two63 in *; lia).
  replace (zlen pre >? zlen pre + (zlen x + zlen post) - zlen x) with false by lia.
  rewrite gslice_mid. cbn [rbind]. reflexivity.
Qed.

Lemma hdr_sr_canon pre nm size rest cst :
  length nm = 4%nat -> (8 <= size < 4294967296)%N -> zlen (pre ++ be4 size ++ nm ++ rest) < two63 ->
  decode_header_sr (mkS (mkR (pre ++ be4 size ++ nm ++ rest) (zlen pre) false) cst)
  = (Ok (mkH nm size 8), mkS (mkR (pre ++ be4 size ++ nm ++ rest) (zlen pre + 8) false) cst).
Proof.
  intros Hn Hsz Hs. unfold decode_header_sr. cbn [sr scost].
  rewrite (read_fixed_mid 4 pre (be4 size) (nm ++ rest) eq_refl Hs).
  rewrite be_be4 by lia.
  assert (Hz : zlen nm = 4) by (unfold zlen; rewrite Hn; reflexivity).
  assert (E : pre ++ be4 size ++ nm ++ rest = (pre ++ be4 size) ++ nm ++ rest) by (rewrite <- app_assoc; reflexivity).
  replace (zlen pre + 4) with (zlen (pre ++ be4 size)) by (rewrite zlen_app; reflexivity).
  rewrite E.
  pose proof (read_fixed_string_mid (pre ++ be4 size) nm rest) as R. rewrite Hz in R.
  rewrite R by (rewrite <- E; exact Hs). clear R.
  replace (size =? 1)%N with false by lia. replace (size =? 0)%N with false by lia.
  replace (size <? 8)%N with false by lia. cbn [rerr].
  rewrite zlen_app. replace (zlen pre + zlen (be4 size) + 4) with (zlen pre + 8) by (unfold zlen; cbn; lia). reflexivity.
Qed.

(* the 16-byte largesize header: size field 1, type, 64-bit size *)
Lemma hdr_sr_canon_large pre nm size rest cst :
  length nm = 4%nat -> (16 <= size < 4294967296)%N -> zlen (pre ++ be4 1 ++ nm ++ be8 size ++ rest) < two63 ->
  decode_header_sr (mkS (mkR (pre ++ be4 1 ++ nm ++ be8 size ++ rest) (zlen pre) false) cst)
  = (Ok (mkH nm size 16), mkS (mkR (pre ++ be4 1 ++ nm ++ be8 size ++ rest) (zlen pre + 16) false) cst).
Proof.
  intros Hn Hsz Hs. unfold decode_header_sr. cbn [sr scost].
  rewrite (read_fixed_mid 4 pre (be4 1) (nm ++ be8 size ++ rest) eq_refl Hs).
  change (be (be4 1) 0) with 1%N.
  assert (Hz : zlen nm = 4) by (unfold zlen; rewrite Hn; reflexivity).
  assert (E : pre ++ be4 1 ++ nm ++ be8 size ++ rest = (pre ++ be4 1) ++ nm ++ (be8 size ++ rest)) by (rewrite <- app_assoc; reflexivity).
  replace (zlen pre + 4) with (zlen (pre ++ be4 1)) by (rewrite zlen_app; reflexivity).
  rewrite E.
  pose proof (read_fixed_string_mid (pre ++ be4 1) nm (be8 size ++ rest)) as R. rewrite Hz in R.
  rewrite R by (rewrite <- E; exact Hs). clear R.
  change (1 =? 1)%N with true. cbv iota.
  assert (E2 : (pre ++ be4 1) ++ nm ++ be8 size ++ rest = ((pre ++ be4 1) ++ nm) ++ be8 size ++ rest) by (rewrite <- !app_assoc; reflexivity).
  replace (zlen (pre ++ be4 1) + 4) with (zlen ((pre ++ be4 1) ++ nm)) by (rewrite (zlen_app _ nm); lia).
  rewrite E2.
  rewrite (read_fixed_mid 8 ((pre ++ be4 1) ++ nm) (be8 size) rest eq_refl) by (rewrite <- E2, <- E; exact Hs).
  rewrite be_be8 by lia.
  replace (size <? 16)%N with false by lia. cbn [rerr].
  rewrite !zlen_app. replace (zlen pre + zlen (be4 1) + zlen nm + 8) with (zlen pre + 16) by (rewrite Hz; unfold zlen; cbn; lia). reflexivity.
Qed.

(* ---------------------------------------------------------------- canonical trees *)
Section ctree_ind2.
  Variable P : ctree -> Prop.
  Hypothesis Hl : forall nm p, P (CLeaf nm p).
  Hypothesis Hc : forall nm kids, Forall P kids -> P (CNode nm kids).
  Hypothesis Hg : forall nm p, P (CLarge nm p).
  Fixpoint ctree_ind2 (c : ctree) : P c :=
    match c with
    | CLeaf nm p => Hl nm p
    | CNode nm kids =>
        Hc nm kids ((fix go (l : list ctree) : Forall P l :=
                       match l with [] => Forall_nil _ | k :: r => Forall_cons _ (ctree_ind2 k) (go r) end) kids)
    | CLarge nm p => Hg nm p
    end.
End ctree_ind2.

Lemma cenc_node nm kids : cenc (CNode nm kids) = be4 (8 + lenN (cencs kids)) ++ nm ++ cencs kids.
Proof. reflexivity. Qed.

Lemma cwf_node ld nm kids :
  cwf ld (CNode nm kids) <-> length nm = 4%nat /\ is_cont (ld_kind ld nm) = true /\ Forall (cwf ld) kids.
Proof.
  cbn [cwf]. split; intros [H1 [H2 H3]]; (split; [exact H1|split; [exact H2|]]).
  - induction kids as [|k r IH]; [constructor|]. destruct H3 as [Hk Hr]. constructor; [exact Hk|apply IH; exact Hr].
  - induction H3 as [|k r Hk Hr IH]; [exact I|]. split; [exact Hk|exact IH].
Qed.

Lemma lenN_cenc_leaf nm p : length nm = 4%nat -> lenN (cenc (CLeaf nm p)) = (8 + lenN p)%N.
Proof. intros H. cbn [cenc]. unfold lenN. rewrite !app_length, H. cbn [be4 length]. lia. Qed.
Lemma lenN_cenc_node nm kids : length nm = 4%nat -> lenN (cenc (CNode nm kids)) = (8 + lenN (cencs kids))%N.
Proof. intros H. rewrite cenc_node. unfold lenN. rewrite !app_length, H. cbn [be4 length]. lia. Qed.

Lemma lenN_cenc_large nm p : length nm = 4%nat -> lenN (cenc (CLarge nm p)) = (16 + lenN p)%N.
Proof. intros H. cbn [cenc]. unfold lenN. rewrite !app_length, H. cbn [be4 be8 length]. lia. Qed.

Lemma cenc_len_ge8 ld c : cwf ld c -> (8 <= lenN (cenc c))%N.
Proof.
  destruct c as [nm p|nm kids|nm p]; cbn [cwf]; intros [H _];
    [rewrite lenN_cenc_leaf by exact H|rewrite lenN_cenc_node by exact H|rewrite lenN_cenc_large by exact H]; lia.
Qed.

Definition fits (c : ctree) : Prop := (lenN (cenc c) < 4294967296)%N.

(* Size() of the decoded tree is the length of the canonical string *)
Lemma tsize_erase ld : forall c, cwf ld c -> fits c -> tsize (erase c) = lenN (cenc c).
Proof.
  induction c as [nm p|nm kids IH|nm p] using ctree_ind2; intros Hw Hf.
  3:{ destruct Hw as [Hn _]. rewrite lenN_cenc_large by exact Hn. reflexivity. }
  - destruct Hw as [Hn _]. rewrite lenN_cenc_leaf by exact Hn. reflexivity.
  - apply cwf_node in Hw. destruct Hw as [Hn [_ Hk]]. unfold fits in Hf. rewrite lenN_cenc_node in * by exact Hn.
    cbn [erase tsize].
    assert (E : forall l, Forall (fun c => cwf ld c -> fits c -> tsize (erase c) = lenN (cenc c)) l -> Forall (cwf ld) l ->
                (lenN (cencs l) < 4294967296)%N ->
                (fix go (l0 : list tree) : N := match l0 with [] => 0%N | c :: r => addu64 (tsize c) (go r) end) (map erase l)
                = lenN (cencs l)).
    { induction l as [|k r IHr]; intros HI HW HL; [reflexivity|].
      inversion HI; subst. inversion HW; subst. cbn [map cencs] in *. rewrite lenN_app in *.
      rewrite IHr by (assumption || lia). rewrite H1 by (assumption || unfold fits; lia).
      unfold addu64. rewrite N.mod_small; lia. }
    rewrite E by (assumption || lia). unfold addu64. rewrite N.mod_small; lia.
Qed.

(* ---------------------------------------------------------------- SliceReader path on canonical strings *)
Section SRC.
Variable ld : leafdec.

Definition sr_at (buf : list N) (p : Z) (cst : cost) : sst := mkS (mkR buf p false) cst.

(* what dec_box_sr must return on a canonical box sitting at [pre] in the buffer, unless fuel runs out *)
Definition box_canon_sr (c : ctree) : Prop :=
  forall fuel sp pre post cst r s',
    zlen (pre ++ cenc c ++ post) < two63 -> (sp + lenN (cenc c) < 18446744073709551616)%N ->
    dec_box_sr ld fuel sp (sr_at (pre ++ cenc c ++ post) (zlen pre) cst) = (r, s') ->
    r = OutOfFuel \/
    (r = Ok (erase c) /\ sr s' = mkR (pre ++ cenc c ++ post) (zlen pre + zlen (cenc c)) false).

Lemma maxsize_ok (body post : list N) pos (buf : list N) size hl :
  zlen buf < two63 -> 0 <= pos -> zlen buf - pos = zlen body + zlen post -> (size = hl + lenN body)%N -> (hl <= 16)%N ->
  (addu64 (u64z (nr_remaining (mkR buf pos false))) hl <? size)%N = false.
Proof.
  intros Hs Hp Hr Hsz Hh. unfold nr_remaining, rlen. cbn [rerr rbuf rpos].
  pose proof (zlen_nonneg body). pose proof (zlen_nonneg post).
  rewrite w64_id by (unfold two63 in *; lia).
  unfold u64z, addu64, two64. rewrite Z.mod_small by (unfold two63 in *; lia).
  rewrite Hr. rewrite N.mod_small by (unfold two63 in *; rewrite !zlen_lenN in *; lia).
  rewrite !zlen_lenN in *. lia.
Qed.

Lemma kids_canon_sr : forall kids,
  Forall (fun c => cwf ld c -> fits c -> box_canon_sr c) kids -> Forall (cwf ld) kids ->
  forall fuel sp0 pos endPos initPos acc pre post cst r s',
    zlen (pre ++ cencs kids ++ post) < two63 ->
    (pos + lenN (cencs kids) < 18446744073709551616)%N -> (lenN (cencs kids) < 4294967296)%N ->
    endPos = (pos + lenN (cencs kids))%N -> (sp0 <= pos)%N -> 0 <= initPos ->
    Z.of_N (pos - sp0) = zlen pre - initPos ->
    children_sr ld fuel sp0 pos endPos initPos acc (sr_at (pre ++ cencs kids ++ post) (zlen pre) cst) = (r, s') ->
    r = OutOfFuel \/
    (r = Ok (rev acc ++ map erase kids) /\ sr s' = mkR (pre ++ cencs kids ++ post) (zlen pre + zlen (cencs kids)) false).
Proof.
  induction kids as [|k rest IHr]; intros HI HW fuel sp0 pos endPos initPos acc pre post cst r s' Hs Hp Hl He Hsp Hi Hrel Hrun.
  - destruct fuel as [|f]; cbn [children_sr] in Hrun; [inversion Hrun; left; reflexivity|].
    assert (He' : endPos = pos) by (rewrite He; cbn [cencs]; unfold lenN; cbn [length]; lia).
    rewrite He' in Hrun. rewrite N.ltb_irrefl, N.eqb_refl in Hrun.
    inversion Hrun; subst r s'. right. cbn [map]. rewrite app_nil_r. split; [reflexivity|].
    cbn [sr sr_at zlen length]. f_equal. unfold zlen. cbn. lia.
  - pose proof (Forall_inv HI) as HIk. pose proof (Forall_inv_tail HI) as HIr.
    pose proof (Forall_inv HW) as HWk. pose proof (Forall_inv_tail HW) as HWr. cbv beta in HIk.
    pose proof (cenc_len_ge8 ld k HWk) as Hk8.
    destruct fuel as [|f]; cbn [children_sr] in Hrun; [inversion Hrun; left; reflexivity|].
    fold (dec_box_sr ld) in Hrun. fold (children_sr ld) in Hrun.
    cbn [cencs] in *. rewrite lenN_app in *.
    replace (endPos <? pos)%N with false in Hrun by lia. replace (pos =? endPos)%N with false in Hrun by lia.
    assert (Hfk : fits k) by (unfold fits; lia).
    destruct (dec_box_sr ld f pos (scharge (tick 1) (sr_at (pre ++ (cenc k ++ cencs rest) ++ post) (zlen pre) cst))) as [rb s1] eqn:Eb.
    assert (Ebuf : pre ++ (cenc k ++ cencs rest) ++ post = pre ++ cenc k ++ (cencs rest ++ post)) by (rewrite <- app_assoc; reflexivity).
    change (scharge (tick 1) (sr_at (pre ++ (cenc k ++ cencs rest) ++ post) (zlen pre) cst))
      with (sr_at (pre ++ (cenc k ++ cencs rest) ++ post) (zlen pre) (tick 1 cst)) in Eb.
    rewrite Ebuf in Eb, Hs.
    destruct (HIk HWk Hfk f pos pre (cencs rest ++ post) (tick 1 cst) rb s1 Hs ltac:(lia) Eb) as [Hoof|[Hok Hs1]].
    { subst rb. inversion Hrun; left; reflexivity. }
    subst rb.
    rewrite (tsize_erase ld k HWk Hfk) in Hrun.
    assert (Hpos' : addu64 pos (lenN (cenc k)) = (pos + lenN (cenc k))%N) by (unfold addu64; rewrite N.mod_small; lia).
    rewrite Hpos' in Hrun.
    cbn [scharge sr] in Hrun. rewrite Hs1 in Hrun. cbn [rpos] in Hrun.
    assert (Hchk : int_of_u64 (subu64 (pos + lenN (cenc k)) sp0) = zlen pre + zlen (cenc k) - initPos).
    { unfold int_of_u64, subu64.
      replace ((pos + lenN (cenc k) + 18446744073709551616 - sp0 mod 18446744073709551616) mod 18446744073709551616)%N
        with (pos + lenN (cenc k) - sp0)%N
        by (rewrite (N.mod_small sp0) by lia;
            replace (pos + lenN (cenc k) + 18446744073709551616 - sp0)%N with ((pos + lenN (cenc k) - sp0) + 1 * 18446744073709551616)%N by lia;
            rewrite N.mod_add by lia; rewrite N.mod_small; lia).
      rewrite !zlen_app in Hs. pose proof (zlen_nonneg (cencs rest ++ post)). pose proof (zlen_nonneg pre).
      rewrite w64_id; rewrite !zlen_lenN in *; unfold two63 in *; lia. }
    rewrite Hchk, Z.eqb_refl in Hrun.
    (* the rest of the loop *)
    destruct s1 as [r1 c1]. cbn [sr] in Hs1. subst r1.
    assert (Ebuf2 : pre ++ cenc k ++ cencs rest ++ post = (pre ++ cenc k) ++ cencs rest ++ post) by (rewrite <- app_assoc; reflexivity).
    change (scharge (allocn 1) {| sr := mkR (pre ++ cenc k ++ cencs rest ++ post) (zlen pre + zlen (cenc k)) false; scost := c1 |})
      with (sr_at (pre ++ cenc k ++ cencs rest ++ post) (zlen pre + zlen (cenc k)) (allocn 1 c1)) in Hrun.
    rewrite Ebuf2 in Hrun. replace (zlen pre + zlen (cenc k)) with (zlen (pre ++ cenc k)) in Hrun by apply zlen_app.
    destruct (IHr HIr HWr f sp0 (pos + lenN (cenc k))%N endPos initPos (erase k :: acc) (pre ++ cenc k) post (allocn 1 c1) r s')
      as [Hoof|[Hok Hs']]; try assumption; try lia.
    { rewrite <- Ebuf2. exact Hs. }
    { rewrite zlen_app. rewrite !zlen_lenN in *. lia. }
    { left; exact Hoof. }
    right. split.
    + rewrite Hok. cbn [rev map]. rewrite <- app_assoc. reflexivity.
    + rewrite Hs'. rewrite Ebuf, Ebuf2. f_equal. rewrite !zlen_app. lia.
Qed.

Lemma box_canon_sr_all : forall c, cwf ld c -> fits c -> box_canon_sr c.
Proof.
  induction c as [nm p|nm kids IH|nm p] using ctree_ind2; intros Hw Hf fuel sp pre post cst r s' Hs Hsp Hrun.
  3:{ (* leaf behind a 16-byte header *)
    destruct Hw as [Hn [Hk [Hsr _]]]. unfold fits in Hf. rewrite lenN_cenc_large in * by exact Hn.
    destruct fuel as [|f]; cbn [dec_box_sr] in Hrun; [apply pair_equal_spec in Hrun; destruct Hrun as [Hr' _]; left; symmetry; exact Hr'|].
    cbn [cenc] in *.
    change (scharge (tick 1) (sr_at (pre ++ (be4 1 ++ nm ++ be8 (16 + lenN p) ++ p) ++ post) (zlen pre) cst))
      with (sr_at (pre ++ (be4 1 ++ nm ++ be8 (16 + lenN p) ++ p) ++ post) (zlen pre) (tick 1 cst)) in Hrun.
    assert (Ebuf : pre ++ (be4 1 ++ nm ++ be8 (16 + lenN p) ++ p) ++ post = pre ++ be4 1 ++ nm ++ be8 (16 + lenN p) ++ (p ++ post))
      by (rewrite <- !app_assoc; reflexivity).
    rewrite Ebuf in Hrun, Hs. unfold sr_at in Hrun.
    rewrite (hdr_sr_canon_large pre nm (16 + lenN p)%N (p ++ post) (tick 1 cst) Hn ltac:(lia) Hs) in Hrun.
    cbn [hname hsize hlen sr] in Hrun.
    assert (Hz4 : zlen nm = 4) by (unfold zlen; rewrite Hn; reflexivity).
    rewrite (maxsize_ok p post) in Hrun; try lia; try (pose proof (zlen_nonneg pre); lia).
    2:{ rewrite !zlen_app. unfold zlen at 2 4. cbn [be4 be8 length]. lia. }
    cbn [andb] in Hrun. rewrite Hk in Hrun.
    assert (Ebuf2 : pre ++ be4 1 ++ nm ++ be8 (16 + lenN p) ++ p ++ post = (pre ++ be4 1 ++ nm ++ be8 (16 + lenN p)) ++ p ++ post)
      by (rewrite <- !app_assoc; reflexivity).
    assert (Hz : zlen pre + 16 = zlen (pre ++ be4 1 ++ nm ++ be8 (16 + lenN p))).
    { rewrite !zlen_app. unfold zlen at 3 5. cbn [be4 be8 length]. lia. }
    rewrite Hz, Ebuf2 in Hrun.
    destruct (Hsr (pre ++ be4 1 ++ nm ++ be8 (16 + lenN p)) post (tick 1 cst)) as [cst' E]; [rewrite <- Ebuf2; exact Hs|]. rewrite E in Hrun.
    apply pair_equal_spec in Hrun; destruct Hrun as [Hr' Hs'']; subst r s'. right. split; [reflexivity|]. cbn [sr].
    assert (P : zlen (pre ++ be4 1 ++ nm ++ be8 (16 + lenN p)) + zlen p = zlen pre + zlen (be4 1 ++ nm ++ be8 (16 + lenN p) ++ p))
      by (rewrite !zlen_app; lia).
    rewrite P, <- Ebuf2, <- Ebuf. reflexivity. }
  - (* leaf *)
    destruct Hw as [Hn [Hk [Hsr _]]]. unfold fits in Hf. rewrite lenN_cenc_leaf in * by exact Hn.
    destruct fuel as [|f]; cbn [dec_box_sr] in Hrun; [apply pair_equal_spec in Hrun; destruct Hrun as [Hr' _]; left; symmetry; exact Hr'|].
    cbn [cenc] in *.
    change (scharge (tick 1) (sr_at (pre ++ (be4 (8 + lenN p) ++ nm ++ p) ++ post) (zlen pre) cst))
      with (sr_at (pre ++ (be4 (8 + lenN p) ++ nm ++ p) ++ post) (zlen pre) (tick 1 cst)) in Hrun.
    assert (Ebuf : pre ++ (be4 (8 + lenN p) ++ nm ++ p) ++ post = pre ++ be4 (8 + lenN p) ++ nm ++ (p ++ post))
      by (rewrite <- !app_assoc; reflexivity).
    rewrite Ebuf in Hrun, Hs. unfold sr_at in Hrun.
    rewrite (hdr_sr_canon pre nm (8 + lenN p)%N (p ++ post) (tick 1 cst) Hn ltac:(lia) Hs) in Hrun.
    cbn [hname hsize hlen sr] in Hrun.
    rewrite (maxsize_ok p post) in Hrun; try lia; try (pose proof (zlen_nonneg pre); lia).
    2:{ rewrite !zlen_app. unfold zlen at 2. cbn [be4 length]. assert (zlen nm = 4) by (unfold zlen; rewrite Hn; reflexivity). lia. }
    cbn [andb] in Hrun. rewrite Hk in Hrun.
    assert (Ebuf2 : pre ++ be4 (8 + lenN p) ++ nm ++ p ++ post = (pre ++ be4 (8 + lenN p) ++ nm) ++ p ++ post)
      by (rewrite <- !app_assoc; reflexivity).
    assert (Hz : zlen pre + 8 = zlen (pre ++ be4 (8 + lenN p) ++ nm)).
    { rewrite !zlen_app. unfold zlen at 3. cbn [be4 length]. assert (zlen nm = 4) by (unfold zlen; rewrite Hn; reflexivity). lia. }
    rewrite Hz, Ebuf2 in Hrun.
    destruct (Hsr (pre ++ be4 (8 + lenN p) ++ nm) post (tick 1 cst)) as [cst' E]; [rewrite <- Ebuf2; exact Hs|]. rewrite E in Hrun.
    apply pair_equal_spec in Hrun; destruct Hrun as [Hr' Hs'']; subst r s'. right. split; [reflexivity|]. cbn [sr].
    assert (P : zlen (pre ++ be4 (8 + lenN p) ++ nm) + zlen p = zlen pre + zlen (be4 (8 + lenN p) ++ nm ++ p))
      by (rewrite !zlen_app; lia).
    rewrite P, <- Ebuf2, <- Ebuf. reflexivity.
  - (* container *)
    apply cwf_node in Hw. destruct Hw as [Hn [Hk Hkids]]. unfold fits in Hf. rewrite lenN_cenc_node in * by exact Hn.
    destruct fuel as [|f]; cbn [dec_box_sr] in Hrun; [apply pair_equal_spec in Hrun; destruct Hrun as [Hr' _]; left; symmetry; exact Hr'|].
    fold (children_sr ld) in Hrun. rewrite cenc_node in *.
    set (body := cencs kids) in *.
    change (scharge (tick 1) (sr_at (pre ++ (be4 (8 + lenN body) ++ nm ++ body) ++ post) (zlen pre) cst))
      with (sr_at (pre ++ (be4 (8 + lenN body) ++ nm ++ body) ++ post) (zlen pre) (tick 1 cst)) in Hrun.
    assert (Ebuf : pre ++ (be4 (8 + lenN body) ++ nm ++ body) ++ post = pre ++ be4 (8 + lenN body) ++ nm ++ (body ++ post))
      by (rewrite <- !app_assoc; reflexivity).
    rewrite Ebuf in Hrun, Hs. unfold sr_at in Hrun.
    rewrite (hdr_sr_canon pre nm (8 + lenN body)%N (body ++ post) (tick 1 cst) Hn ltac:(lia) Hs) in Hrun.
    cbn [hname hsize hlen sr] in Hrun.
    assert (Hz4 : zlen nm = 4) by (unfold zlen; rewrite Hn; reflexivity).
    rewrite (maxsize_ok body post) in Hrun; try lia; try (pose proof (zlen_nonneg pre); lia).
    2:{ rewrite !zlen_app. unfold zlen at 2. cbn [be4 length]. lia. }
    cbn [andb] in Hrun.
    assert (Ebuf2 : pre ++ be4 (8 + lenN body) ++ nm ++ body ++ post = (pre ++ be4 (8 + lenN body) ++ nm) ++ body ++ post)
      by (rewrite <- !app_assoc; reflexivity).
    assert (Hz : zlen pre + 8 = zlen (pre ++ be4 (8 + lenN body) ++ nm)).
    { rewrite !zlen_app. unfold zlen at 3. cbn [be4 length]. lia. }
    assert (Ha8 : addu64 sp 8 = (sp + 8)%N) by (unfold addu64; rewrite N.mod_small; lia).
    assert (Hae : addu64 sp (8 + lenN body) = (sp + 8 + lenN body)%N) by (unfold addu64; rewrite N.mod_small; lia).
    (* the children loop, whatever the container kind *)
    assert (KL : forall cst0 rk sk,
               children_sr ld f (addu64 sp 8) (addu64 sp 8) (addu64 sp (8 + lenN body)) (zlen pre + 8) []
                           (scharge (allocn 8) {| sr := mkR (pre ++ be4 (8 + lenN body) ++ nm ++ body ++ post) (zlen pre + 8) false; scost := cst0 |}) = (rk, sk) ->
               rk = OutOfFuel \/ (rk = Ok (map erase kids) /\
                                  sr sk = mkR (pre ++ be4 (8 + lenN body) ++ nm ++ body ++ post) (zlen pre + 8 + zlen body) false)).
    { intros cst0 rk sk Hk0. subst body.
      change (scharge (allocn 8) {| sr := mkR (pre ++ be4 (8 + lenN (cencs kids)) ++ nm ++ (cencs kids) ++ post) (zlen pre + 8) false; scost := cst0 |})
        with (sr_at (pre ++ be4 (8 + lenN (cencs kids)) ++ nm ++ (cencs kids) ++ post) (zlen pre + 8) (allocn 8 cst0)) in Hk0.
      rewrite Hz, Ebuf2, Ha8, Hae in Hk0.
      destruct (kids_canon_sr kids IH Hkids f (sp + 8)%N (sp + 8)%N (sp + 8 + lenN (cencs kids))%N (zlen (pre ++ be4 (8 + lenN (cencs kids)) ++ nm)) []
                              (pre ++ be4 (8 + lenN (cencs kids)) ++ nm) post (allocn 8 cst0) rk sk) as [Ho|[Ho Hs2]];
        try assumption; try lia; try reflexivity;
        try (rewrite <- Ebuf2; exact Hs);
        try (pose proof (zlen_nonneg (pre ++ be4 (8 + lenN (cencs kids)) ++ nm)); lia);
        try (rewrite N.sub_diag; lia).
      { left; exact Ho. }
      right. split; [exact Ho|]. rewrite Hs2. rewrite Ebuf2, Hz. reflexivity. }
    assert (Fin : mkR (pre ++ be4 (8 + lenN body) ++ nm ++ body ++ post) (zlen pre + 8 + zlen body) false
                  = mkR (pre ++ be4 (8 + lenN body) ++ nm ++ body ++ post) (zlen pre + zlen (be4 (8 + lenN body) ++ nm ++ body)) false).
    { f_equal. rewrite !zlen_app. assert (zlen (be4 (8 + lenN body)) = 4) by reflexivity. lia. }
    destruct (ld_kind ld nm) eqn:Ek; [discriminate| |].
    + match type of Hrun with context [children_sr ld f ?a ?b ?c ?d ?e ?st] => destruct (children_sr ld f a b c d e st) as [rk sk] eqn:Ekk end.
      destruct (KL _ _ _ Ekk) as [Ho|[Ho Hs2]]; subst rk.
      * apply pair_equal_spec in Hrun; destruct Hrun as [Hr' _]; left; symmetry; exact Hr'.
      * apply pair_equal_spec in Hrun; destruct Hrun as [Hr' Hs'']; subst r s'. right. split; [reflexivity|]. rewrite Hs2, Ebuf. exact Fin.
    + match type of Hrun with context [children_sr ld f ?a ?b ?c ?d ?e ?st] => destruct (children_sr ld f a b c d e st) as [rk sk] eqn:Ekk end.
      destruct (KL _ _ _ Ekk) as [Ho|[Ho Hs2]]; subst rk.
      * apply pair_equal_spec in Hrun; destruct Hrun as [Hr' _]; left; symmetry; exact Hr'.
      * rewrite Hs2 in Hrun. cbn [rerr] in Hrun. rewrite andb_false_r in Hrun.
        apply pair_equal_spec in Hrun; destruct Hrun as [Hr' Hs'']; subst r s'. right. split; [reflexivity|]. rewrite Hs2, Ebuf. exact Fin.
Qed.
End SRC.

(* ---------------------------------------------------------------- io.Reader path on canonical strings *)
Lemma firstn_skipn_mid (pre x post : list N) :
  firstn (length x) (skipn (length pre) (pre ++ x ++ post)) = x.
Proof.
  rewrite skipn_app, skipn_all, Nat.sub_diag. cbn [skipn app].
  rewrite firstn_app, firstn_all, Nat.sub_diag. cbn [firstn]. apply app_nil_r.
Qed.

Lemma read_full_mid pre x post cst : length x = 8%nat ->
  read_full 8 (mkI (pre ++ x ++ post) (lenN pre) cst) = (RFOk x, mkI (pre ++ x ++ post) (lenN pre + 8) cst).
Proof.
  intros Hx. unfold read_full, iavail. cbn [ibuf ipos icost].
  assert (A : (lenN (pre ++ x ++ post) - lenN pre = 8 + lenN post)%N) by (rewrite !lenN_app; unfold lenN; rewrite Hx; lia).
  rewrite A. replace (8 + lenN post =? 0)%N with false by lia. replace (8 + lenN post <? 8)%N with false by lia.
  f_equal. f_equal. unfold lenN. rewrite Nat2N.id. change (N.to_nat 8) with 8%nat. rewrite <- Hx. apply firstn_skipn_mid.
Qed.

Lemma hdr_r_canon pre nm size rest cst :
  length nm = 4%nat -> (8 <= size < 4294967296)%N ->
  decode_header (mkI (pre ++ be4 size ++ nm ++ rest) (lenN pre) cst)
  = (Ok (HHdr (mkH nm size 8)), mkI (pre ++ be4 size ++ nm ++ rest) (lenN pre + 8) (allocn 8 cst)).
Proof.
  intros Hn Hsz. unfold decode_header.
  change (icharge (allocn 8) (mkI (pre ++ be4 size ++ nm ++ rest) (lenN pre) cst))
    with (mkI (pre ++ be4 size ++ nm ++ rest) (lenN pre) (allocn 8 cst)).
  assert (E : pre ++ be4 size ++ nm ++ rest = pre ++ (be4 size ++ nm) ++ rest) by (rewrite <- app_assoc; reflexivity).
  rewrite E. rewrite read_full_mid by (rewrite app_length, Hn; reflexivity).
  assert (G1 : gslice (be4 size ++ nm) 0 4 = Ok (be4 size)).
  { pose proof (gslice_mid [] (be4 size) nm) as G. cbn [app] in G. exact G. }
  assert (G2 : gslice (be4 size ++ nm) 4 8 = Ok nm).
  { pose proof (gslice_mid (be4 size) nm []) as G. rewrite app_nil_r in G.
    replace (zlen (be4 size)) with 4 in G by reflexivity.
    replace (4 + zlen nm) with 8 in G by (unfold zlen; rewrite Hn; reflexivity). exact G. }
  rewrite G1, G2. rewrite be_be4 by lia.
  replace (size =? 1)%N with false by lia. replace (size =? 0)%N with false by lia.
  replace (size <? 8)%N with false by lia. reflexivity.
Qed.

Lemma hdr_r_canon_large pre nm size rest cst :
  length nm = 4%nat -> (16 <= size < 4294967296)%N ->
  decode_header (mkI (pre ++ be4 1 ++ nm ++ be8 size ++ rest) (lenN pre) cst)
  = (Ok (HHdr (mkH nm size 16)), mkI (pre ++ be4 1 ++ nm ++ be8 size ++ rest) (lenN pre + 16) (allocn 8 (allocn 8 cst))).
Proof.
  intros Hn Hsz. unfold decode_header.
  change (icharge (allocn 8) (mkI (pre ++ be4 1 ++ nm ++ be8 size ++ rest) (lenN pre) cst))
    with (mkI (pre ++ be4 1 ++ nm ++ be8 size ++ rest) (lenN pre) (allocn 8 cst)).
  assert (E : pre ++ be4 1 ++ nm ++ be8 size ++ rest = pre ++ (be4 1 ++ nm) ++ (be8 size ++ rest)) by (rewrite <- app_assoc; reflexivity).
  rewrite E. rewrite read_full_mid by (rewrite app_length, Hn; reflexivity).
  assert (G1 : gslice (be4 1 ++ nm) 0 4 = Ok (be4 1)).
  { pose proof (gslice_mid [] (be4 1) nm) as G. cbn [app] in G. exact G. }
  assert (G2 : gslice (be4 1 ++ nm) 4 8 = Ok nm).
  { pose proof (gslice_mid (be4 1) nm []) as G. rewrite app_nil_r in G.
    replace (zlen (be4 1)) with 4 in G by reflexivity.
    replace (4 + zlen nm) with 8 in G by (unfold zlen; rewrite Hn; reflexivity). exact G. }
  rewrite G1, G2. change (be (be4 1) 0) with 1%N. change (1 =? 1)%N with true. cbv iota.
  change (icharge (allocn 8) (mkI (pre ++ (be4 1 ++ nm) ++ be8 size ++ rest) (lenN pre + 8) (allocn 8 cst)))
    with (mkI (pre ++ (be4 1 ++ nm) ++ be8 size ++ rest) (lenN pre + 8) (allocn 8 (allocn 8 cst))).
  assert (E2 : pre ++ (be4 1 ++ nm) ++ be8 size ++ rest = (pre ++ be4 1 ++ nm) ++ be8 size ++ rest) by (rewrite <- !app_assoc; reflexivity).
  assert (Hz : (lenN pre + 8 = lenN (pre ++ be4 1 ++ nm))%N).
  { rewrite !lenN_app. assert (lenN (be4 1) = 4%N) by reflexivity. assert (lenN nm = 4%N) by (unfold lenN; rewrite Hn; reflexivity). lia. }
  rewrite E2, Hz. rewrite read_full_mid by reflexivity.
  rewrite be_be8 by lia. replace (size <? 16)%N with false by lia.
  f_equal. f_equal. lia.
Qed.

Lemma read_limited_mid pre x post cst : zlen (pre ++ x ++ post) < two63 ->
  read_limited (zlen x) (mkI (pre ++ x ++ post) (lenN pre) cst)
  = (x, mkI (pre ++ x ++ post) (lenN pre + lenN x) (if zlen x <=? 0 then cst else allocn (lenN x) cst)).
Proof.
  intros Hs. unfold read_limited. destruct (zlen x <=? 0) eqn:E.
  - assert (x = []) by (destruct x; [reflexivity|unfold zlen in E; cbn in E; lia]). subst x.
    cbn [app lenN length]. f_equal. f_equal. unfold lenN. cbn. lia.
  - unfold iavail. cbn [ibuf ipos icost]. rewrite !lenN_app.
    replace (N.min (Z.to_N (zlen x)) (lenN pre + (lenN x + lenN post) - lenN pre)) with (lenN x)
      by (rewrite zlen_lenN; lia).
    unfold lenN. rewrite !Nat2N.id. rewrite firstn_skipn_mid. reflexivity.
Qed.

Section RDC.
Variable ld : leafdec.

Definition box_canon_r (c : ctree) : Prop :=
  forall fuel sp pre post cst r s',
    zlen (pre ++ cenc c ++ post) < two63 -> (sp + lenN (cenc c) < 18446744073709551616)%N ->
    dec_box_r ld fuel sp (mkI (pre ++ cenc c ++ post) (lenN pre) cst) = (r, s') ->
    r = OutOfFuel \/
    (r = Ok (BBox (erase c)) /\ ibuf s' = pre ++ cenc c ++ post /\ ipos s' = (lenN pre + lenN (cenc c))%N).

Lemma kids_canon_r : forall kids,
  Forall (fun c => cwf ld c -> fits c -> box_canon_r c) kids -> Forall (cwf ld) kids ->
  forall fuel pos endPos acc pre post cst r s',
    zlen (pre ++ cencs kids ++ post) < two63 ->
    (pos + lenN (cencs kids) < 18446744073709551616)%N -> (lenN (cencs kids) < 4294967296)%N ->
    endPos = (pos + lenN (cencs kids))%N ->
    children_r ld fuel pos endPos acc (mkI (pre ++ cencs kids ++ post) (lenN pre) cst) = (r, s') ->
    r = OutOfFuel \/
    (r = Ok (rev acc ++ map erase kids) /\ ibuf s' = pre ++ cencs kids ++ post /\
     ipos s' = (lenN pre + lenN (cencs kids))%N).
Proof.
  induction kids as [|k rest IHr]; intros HI HW fuel pos endPos acc pre post cst r s' Hs Hp Hl He Hrun.
  - destruct fuel as [|f]; cbn [children_r] in Hrun; [inversion Hrun; left; reflexivity|].
    assert (He' : endPos = pos) by (rewrite He; cbn [cencs]; unfold lenN; cbn [length]; lia).
    rewrite He', N.eqb_refl in Hrun. inversion Hrun; subst r s'. right. cbn [map cencs ibuf ipos].
    rewrite app_nil_r. repeat split. unfold lenN. cbn [length]. lia.
  - pose proof (Forall_inv HI) as HIk. pose proof (Forall_inv_tail HI) as HIr.
    pose proof (Forall_inv HW) as HWk. pose proof (Forall_inv_tail HW) as HWr. cbv beta in HIk.
    pose proof (cenc_len_ge8 ld k HWk) as Hk8.
    destruct fuel as [|f]; cbn [children_r] in Hrun; [inversion Hrun; left; reflexivity|].
    fold (dec_box_r ld) in Hrun. fold (children_r ld) in Hrun.
    cbn [cencs] in *. rewrite lenN_app in *.
    replace (pos =? endPos)%N with false in Hrun by lia. replace (endPos <? pos)%N with false in Hrun by lia.
    assert (Hfk : fits k) by (unfold fits; lia).
    assert (Ebuf : pre ++ (cenc k ++ cencs rest) ++ post = pre ++ cenc k ++ (cencs rest ++ post)) by (rewrite <- app_assoc; reflexivity).
    change (icharge (tick 1) (mkI (pre ++ (cenc k ++ cencs rest) ++ post) (lenN pre) cst))
      with (mkI (pre ++ (cenc k ++ cencs rest) ++ post) (lenN pre) (tick 1 cst)) in Hrun.
    rewrite Ebuf in Hrun, Hs.
    destruct (dec_box_r ld f pos (mkI (pre ++ cenc k ++ cencs rest ++ post) (lenN pre) (tick 1 cst))) as [rb s1] eqn:Eb.
    destruct (HIk HWk Hfk f pos pre (cencs rest ++ post) (tick 1 cst) rb s1 Hs ltac:(lia) Eb) as [Hoof|[Hok [Hb1 Hp1]]].
    { subst rb. inversion Hrun; left; reflexivity. }
    subst rb. rewrite (tsize_erase ld k HWk Hfk) in Hrun.
    assert (Hpos' : addu64 pos (lenN (cenc k)) = (pos + lenN (cenc k))%N) by (unfold addu64; rewrite N.mod_small; lia).
    rewrite Hpos' in Hrun.
    destruct s1 as [b1 p1 c1]. cbn [ibuf ipos] in Hb1, Hp1. subst b1 p1.
    change (icharge (allocn 1) {| ibuf := pre ++ cenc k ++ cencs rest ++ post; ipos := lenN pre + lenN (cenc k); icost := c1 |})
      with (mkI (pre ++ cenc k ++ cencs rest ++ post) (lenN pre + lenN (cenc k)) (allocn 1 c1)) in Hrun.
    assert (Ebuf2 : pre ++ cenc k ++ cencs rest ++ post = (pre ++ cenc k) ++ cencs rest ++ post) by (rewrite <- app_assoc; reflexivity).
    rewrite Ebuf2 in Hrun. replace (lenN pre + lenN (cenc k))%N with (lenN (pre ++ cenc k)) in Hrun by apply lenN_app.
    destruct (IHr HIr HWr f (pos + lenN (cenc k))%N endPos (erase k :: acc) (pre ++ cenc k) post (allocn 1 c1) r s')
      as [Hoof|[Hok [Hb' Hp']]]; try assumption; try lia.
    { rewrite <- Ebuf2. exact Hs. }
    { left; exact Hoof. }
    right. split; [|split].
    + rewrite Hok. cbn [rev map]. rewrite <- app_assoc. reflexivity.
    + rewrite Hb'. rewrite Ebuf, Ebuf2. reflexivity.
    + rewrite Hp'. rewrite lenN_app. lia.
Qed.

Lemma payload_len_canon nm n : (n < 4294967296)%N -> payload_len (mkH nm (8 + n) 8) = Z.of_N n.
Proof.
  intros H. unfold payload_len, int_of_u64. cbn [hsize hlen].
  rewrite (w64_id (Z.of_N (8 + n))) by (unfold two63; lia). rewrite w64_id by (unfold two63; lia). lia.
Qed.

Lemma box_canon_r_all : forall c, cwf ld c -> fits c -> box_canon_r c.
Proof.
  induction c as [nm p|nm kids IH|nm p] using ctree_ind2; intros Hw Hf fuel sp pre post cst r s' Hs Hsp Hrun.
  3:{ (* leaf behind a 16-byte header *)
    destruct Hw as [Hn [Hk [_ Hr]]]. unfold fits in Hf. rewrite lenN_cenc_large in * by exact Hn.
    destruct fuel as [|f]; cbn [dec_box_r] in Hrun; [apply pair_equal_spec in Hrun; destruct Hrun as [Hr' _]; left; symmetry; exact Hr'|].
    cbn [cenc] in *.
    change (icharge (tick 1) (mkI (pre ++ (be4 1 ++ nm ++ be8 (16 + lenN p) ++ p) ++ post) (lenN pre) cst))
      with (mkI (pre ++ (be4 1 ++ nm ++ be8 (16 + lenN p) ++ p) ++ post) (lenN pre) (tick 1 cst)) in Hrun.
    assert (Ebuf : pre ++ (be4 1 ++ nm ++ be8 (16 + lenN p) ++ p) ++ post = pre ++ be4 1 ++ nm ++ be8 (16 + lenN p) ++ (p ++ post))
      by (rewrite <- !app_assoc; reflexivity).
    rewrite Ebuf in Hrun.
    rewrite (hdr_r_canon_large pre nm (16 + lenN p)%N (p ++ post) (tick 1 cst) Hn ltac:(lia)) in Hrun.
    cbn [hname] in Hrun. rewrite Hk in Hrun.
    assert (Ebuf2 : pre ++ be4 1 ++ nm ++ be8 (16 + lenN p) ++ p ++ post = (pre ++ be4 1 ++ nm ++ be8 (16 + lenN p)) ++ p ++ post)
      by (rewrite <- !app_assoc; reflexivity).
    assert (Hz : (lenN pre + 16 = lenN (pre ++ be4 1 ++ nm ++ be8 (16 + lenN p)))%N).
    { rewrite !lenN_app. assert (lenN (be4 1) = 4%N) by reflexivity. assert (lenN (be8 (16 + lenN p)) = 8%N) by reflexivity.
      assert (lenN nm = 4%N) by (unfold lenN; rewrite Hn; reflexivity). lia. }
    rewrite Hz, Ebuf2 in Hrun.
    destruct (Hr (pre ++ be4 1 ++ nm ++ be8 (16 + lenN p)) post (allocn 8 (allocn 8 (tick 1 cst)))) as [cst' E]; [rewrite <- Ebuf2, <- Ebuf; exact Hs|]. rewrite E in Hrun.
    apply pair_equal_spec in Hrun; destruct Hrun as [Hr' Hs'']; subst r s'. right. split; [reflexivity|]. cbn [ibuf ipos].
    split; [rewrite Ebuf, Ebuf2; reflexivity|]. rewrite <- Hz. lia. }
  - (* leaf *)
    destruct Hw as [Hn [Hk [_ Hr]]]. unfold fits in Hf. rewrite lenN_cenc_leaf in * by exact Hn.
    destruct fuel as [|f]; cbn [dec_box_r] in Hrun; [apply pair_equal_spec in Hrun; destruct Hrun as [Hr' _]; left; symmetry; exact Hr'|].
    cbn [cenc] in *.
    change (icharge (tick 1) (mkI (pre ++ (be4 (8 + lenN p) ++ nm ++ p) ++ post) (lenN pre) cst))
      with (mkI (pre ++ (be4 (8 + lenN p) ++ nm ++ p) ++ post) (lenN pre) (tick 1 cst)) in Hrun.
    assert (Ebuf : pre ++ (be4 (8 + lenN p) ++ nm ++ p) ++ post = pre ++ be4 (8 + lenN p) ++ nm ++ (p ++ post))
      by (rewrite <- !app_assoc; reflexivity).
    rewrite Ebuf in Hrun.
    rewrite (hdr_r_canon pre nm (8 + lenN p)%N (p ++ post) (tick 1 cst) Hn ltac:(lia)) in Hrun.
    cbn [hname] in Hrun. rewrite Hk in Hrun.
    assert (Ebuf2 : pre ++ be4 (8 + lenN p) ++ nm ++ p ++ post = (pre ++ be4 (8 + lenN p) ++ nm) ++ p ++ post)
      by (rewrite <- !app_assoc; reflexivity).
    assert (Hz : (lenN pre + 8 = lenN (pre ++ be4 (8 + lenN p) ++ nm))%N).
    { rewrite !lenN_app. assert (lenN (be4 (8 + lenN p)) = 4%N) by reflexivity. assert (lenN nm = 4%N) by (unfold lenN; rewrite Hn; reflexivity). lia. }
    rewrite Hz, Ebuf2 in Hrun.
    destruct (Hr (pre ++ be4 (8 + lenN p) ++ nm) post (allocn 8 (tick 1 cst))) as [cst' E]; [rewrite <- Ebuf2, <- Ebuf; exact Hs|]. rewrite E in Hrun.
    apply pair_equal_spec in Hrun; destruct Hrun as [Hr' Hs'']; subst r s'. right. split; [reflexivity|]. cbn [ibuf ipos].
    split; [rewrite Ebuf, Ebuf2; reflexivity|]. rewrite <- Hz. lia.
  - (* container *)
    apply cwf_node in Hw. destruct Hw as [Hn [Hk Hkids]]. unfold fits in Hf. rewrite lenN_cenc_node in * by exact Hn.
    destruct fuel as [|f]; cbn [dec_box_r] in Hrun; [apply pair_equal_spec in Hrun; destruct Hrun as [Hr' _]; left; symmetry; exact Hr'|].
    fold (children_r ld) in Hrun. rewrite cenc_node in *.
    change (icharge (tick 1) (mkI (pre ++ (be4 (8 + lenN (cencs kids)) ++ nm ++ cencs kids) ++ post) (lenN pre) cst))
      with (mkI (pre ++ (be4 (8 + lenN (cencs kids)) ++ nm ++ cencs kids) ++ post) (lenN pre) (tick 1 cst)) in Hrun.
    assert (Ebuf : pre ++ (be4 (8 + lenN (cencs kids)) ++ nm ++ cencs kids) ++ post = pre ++ be4 (8 + lenN (cencs kids)) ++ nm ++ (cencs kids ++ post))
      by (rewrite <- !app_assoc; reflexivity).
    rewrite Ebuf in Hrun, Hs.
    rewrite (hdr_r_canon pre nm (8 + lenN (cencs kids))%N (cencs kids ++ post) (tick 1 cst) Hn ltac:(lia)) in Hrun.
    cbn [hname hsize] in Hrun.
    assert (Ebuf2 : pre ++ be4 (8 + lenN (cencs kids)) ++ nm ++ cencs kids ++ post = (pre ++ be4 (8 + lenN (cencs kids)) ++ nm) ++ cencs kids ++ post)
      by (rewrite <- !app_assoc; reflexivity).
    assert (Hz : (lenN pre + 8 = lenN (pre ++ be4 (8 + lenN (cencs kids)) ++ nm))%N).
    { rewrite !lenN_app. assert (lenN (be4 (8 + lenN (cencs kids))) = 4%N) by reflexivity. assert (lenN nm = 4%N) by (unfold lenN; rewrite Hn; reflexivity). lia. }
    assert (Ha8 : addu64 sp 8 = (sp + 8)%N) by (unfold addu64; rewrite N.mod_small; lia).
    assert (Hae : addu64 sp (8 + lenN (cencs kids)) = (sp + 8 + lenN (cencs kids))%N) by (unfold addu64; rewrite N.mod_small; lia).
    rewrite Ha8, Hae in Hrun.
    destruct (ld_kind ld nm) eqn:Ek; [discriminate| |].
    + (* same reader *)
      change (icharge (allocn 8) {| ibuf := pre ++ be4 (8 + lenN (cencs kids)) ++ nm ++ cencs kids ++ post; ipos := lenN pre + 8; icost := allocn 8 (tick 1 cst) |})
        with (mkI (pre ++ be4 (8 + lenN (cencs kids)) ++ nm ++ cencs kids ++ post) (lenN pre + 8) (allocn 8 (allocn 8 (tick 1 cst)))) in Hrun.
      rewrite Hz, Ebuf2 in Hrun.
      match type of Hrun with context [children_r ld f ?a ?b ?c ?st] => destruct (children_r ld f a b c st) as [rk sk] eqn:Ekk end.
      destruct (kids_canon_r kids IH Hkids f (sp + 8)%N (sp + 8 + lenN (cencs kids))%N [] (pre ++ be4 (8 + lenN (cencs kids)) ++ nm) post (allocn 8 (allocn 8 (tick 1 cst))) rk sk)
        as [Ho|[Ho [Hb Hp]]]; try exact Ekk; try lia; try reflexivity.
      { rewrite <- Ebuf2. exact Hs. }
      * subst rk. apply pair_equal_spec in Hrun; destruct Hrun as [Hr' _]; left; symmetry; exact Hr'.
      * subst rk. apply pair_equal_spec in Hrun; destruct Hrun as [Hr' Hs'']; subst r s'. right. split; [reflexivity|].
        split; [rewrite Hb, Ebuf, Ebuf2; reflexivity|]. rewrite Hp, <- Hz. lia.
    + (* body read, then the SliceReader loop *)
      rewrite payload_len_canon in Hrun by lia. rewrite <- zlen_lenN in Hrun.
      rewrite Hz, Ebuf2 in Hrun.
      rewrite read_limited_mid in Hrun by (rewrite <- Ebuf2; exact Hs).
      rewrite Z.eqb_refl in Hrun. cbn [negb ibuf ipos icost] in Hrun.
      match type of Hrun with context [children_sr ld f ?a ?b ?c ?d ?e ?st] => destruct (children_sr ld f a b c d e st) as [rk sk] eqn:Ekk end.
      assert (HIsr : Forall (fun c => cwf ld c -> fits c -> box_canon_sr ld c) kids).
      { clear - kids. induction kids as [|k r IHk]; constructor; [intros; apply box_canon_sr_all; assumption|exact IHk]. }
      assert (En : cencs kids = [] ++ cencs kids ++ []) by (rewrite app_nil_r; reflexivity).
      unfold rnew in Ekk.
      match type of Ekk with children_sr _ _ _ _ _ _ _ {| sr := _; scost := ?c0 |} = _ =>
        assert (Ekk' : children_sr ld f (sp + 8)%N (sp + 8)%N (sp + 8 + lenN (cencs kids))%N 0 []
                         (sr_at ([] ++ cencs kids ++ []) (zlen (@nil N)) c0) = (rk, sk)) by (rewrite <- En; exact Ekk);
        destruct (kids_canon_sr ld kids HIsr Hkids f (sp + 8)%N (sp + 8)%N (sp + 8 + lenN (cencs kids))%N 0 [] [] [] c0 rk sk)
        as [Ho|[Ho Hs2]]; try exact Ekk'; try lia; try reflexivity end.
      { rewrite <- En. rewrite !zlen_app in Hs. rewrite !zlen_lenN in *. lia. }
      { rewrite N.sub_diag. reflexivity. }
      * subst rk. apply pair_equal_spec in Hrun; destruct Hrun as [Hr' _]; left; symmetry; exact Hr'.
      * subst rk. apply pair_equal_spec in Hrun; destruct Hrun as [Hr' Hs'']; subst r s'. right. split; [reflexivity|].
        cbn [ibuf ipos]. split; [rewrite Ebuf, Ebuf2; reflexivity|]. rewrite <- Hz. lia.
Qed.
End RDC.

(* ---------------------------------------------------------------- the theorem *)
Lemma fits_small c : fits c -> small (cenc c) = true.
Proof. unfold fits, small. rewrite zlen_lenN. unfold two63. lia. Qed.

Theorem decode_agree_canonical : forall ld c, leaf_ok ld -> cwf ld c -> fits c ->
  fst (box_sr ld (cenc c)) = Ok (erase c) /\ fst (box_r ld (cenc c)) = Ok (BBox (erase c)).
Proof.
  intros ld c LD Hw Hf. pose proof (fits_small c Hf) as Hsm.
  assert (En : cenc c = [] ++ cenc c ++ []) by (rewrite app_nil_r; reflexivity).
  assert (Hz : zlen ([] ++ cenc c ++ []) < two63) by (rewrite <- En; unfold small in Hsm; lia).
  assert (Hp : (0 + lenN (cenc c) < 18446744073709551616)%N) by (unfold fits in Hf; lia).
  split.
  - destruct (container_total_sr ld LD (cenc c) Hsm) as [r [s' [E [Hr _]]]].
    rewrite E. cbn [fst]. unfold box_sr, snew, rnew in E.
    assert (E' : dec_box_sr ld (S (length (cenc c))) 0 (sr_at ([] ++ cenc c ++ []) (zlen (@nil N)) cost0) = (r, s'))
      by (rewrite <- En; exact E).
    destruct (box_canon_sr_all ld c Hw Hf _ 0%N [] [] cost0 r s' Hz Hp E') as [Ho|[Ho _]]; [|exact Ho].
    subst r. destruct Hr as [Hr|[t Hr]]; discriminate.
  - destruct (container_total_r ld LD (cenc c) Hsm) as [r [s' [E [Hr _]]]].
    rewrite E. cbn [fst]. unfold box_r, inew in E.
    assert (E' : dec_box_r ld (S (length (cenc c))) 0 (mkI ([] ++ cenc c ++ []) (lenN (@nil N)) cost0) = (r, s'))
      by (rewrite <- En; exact E).
    destruct (box_canon_r_all ld c Hw Hf _ 0%N [] [] cost0 r s' Hz Hp E') as [Ho|[Ho _]]; [|exact Ho].
    subst r. destruct Hr as [Hr|[Hr|[t Hr]]]; discriminate.
Qed.

(* in the "for every byte string" form: on a canonical string one path returns t iff the other does *)
Corollary decode_agree_canonical_iff : forall ld bs c t, leaf_ok ld -> cwf ld c -> fits c -> bs = cenc c ->
  (fst (box_r ld bs) = Ok (BBox t) <-> fst (box_sr ld bs) = Ok t).
Proof.
  intros ld bs c t LD Hw Hf ->. destruct (decode_agree_canonical ld c LD Hw Hf) as [H1 H2].
  rewrite H1, H2. split; intros H; inversion H; reflexivity.
Qed.

(* ---------------------------------------------------------------- the concrete leaves are canonical leaves *)
Lemma read_bytes_mid pre x post : zlen (pre ++ x ++ post) < two63 ->
  read_bytes (zlen x) (mkR (pre ++ x ++ post) (zlen pre) false)
  = Ok (x, mkR (pre ++ x ++ post) (zlen pre + zlen x) false).
Proof.
  intros Hs. unfold read_bytes. pose proof (zlen_nonneg x). pose proof (zlen_nonneg pre). pose proof (zlen_nonneg post).
  replace (zlen x <? 0) with false by lia. cbn [rerr rpos rbuf]. unfold rlen. cbn [rbuf]. rewrite !zlen_app in *.
  replace (zlen pre >? zlen pre + (zlen x + zlen post) - zlen x) with false by lia.
  rewrite gslice_mid. reflexivity.
Qed.

Definition std_canon_ok (nm p : list N) : Prop :=
  length nm = 4%nat /\ std_kind nm = KLeaf /\ (lenN p < 4294967288)%N /\
  (eqb_name nm name_mdat = true -> (lenN p <= max_normal_payload)%N).

Lemma std_canon_leaf nm p : std_canon_ok nm p -> canon_leaf std_leaves nm p.
Proof.
  intros [Hn [Hk [Hl Hm]]]. split; [exact Hk|]. split.
  - intros pre post cst Hall. cbn [ld_sr std_leaves]. unfold std_sr. cbn [hname hsize hlen sr scost].
    rewrite payload_len_canon by lia. rewrite <- zlen_lenN. rewrite read_bytes_mid by exact Hall.
    cbn [rerr]. destruct (eqb_name nm name_mdat) eqn:Em.
    + eexists. f_equal. f_equal. unfold mdat_size. specialize (Hm eq_refl).
      replace (8 <? 8)%N with false by reflexivity. replace (max_normal_payload <? lenN p)%N with false by lia.
      cbn [orb]. unfold addu64. rewrite !N.mod_small by (unfold max_normal_payload in *; lia). lia.
    + destruct (eqb_name nm name_free || eqb_name nm name_skip); eexists; [|reflexivity].
      f_equal. f_equal. unfold addu64. rewrite N.mod_small; lia.
  - intros pre post cst Hall. cbn [ld_r std_leaves]. unfold std_r, read_box_body. cbn [hname hsize hlen].
    destruct (8 =? 8 + lenN p)%N eqn:E0.
    + apply N.eqb_eq in E0. assert (H0 : lenN p = 0%N) by lia.
      assert (p = []) by (destruct p; [reflexivity|unfold lenN in H0; cbn [length] in H0; lia]). subst p.
      cbn [app]. replace (lenN pre + lenN (@nil N))%N with (lenN pre) by (unfold lenN; cbn [length]; lia).
      replace (8 + lenN (@nil N))%N with 8%N by reflexivity.
      destruct (eqb_name nm name_mdat); [|destruct (eqb_name nm name_free || eqb_name nm name_skip)]; eexists; reflexivity.
    + assert (Eb : subu64 (8 + lenN p) 8 = lenN p).
      { unfold subu64. rewrite (N.mod_small 8) by lia.
        replace (8 + lenN p + 18446744073709551616 - 8)%N with (lenN p + 1 * 18446744073709551616)%N by lia.
        rewrite N.mod_add by lia. rewrite N.mod_small; lia. }
      rewrite Eb. unfold int_of_u64. rewrite w64_id by (unfold two63; lia). rewrite <- zlen_lenN.
      rewrite read_limited_mid by exact Hall. rewrite Z.eqb_refl.
      destruct (eqb_name nm name_mdat) eqn:Em.
      * eexists. f_equal. f_equal. unfold mdat_size. specialize (Hm eq_refl).
        replace (8 <? 8)%N with false by reflexivity. replace (max_normal_payload <? lenN p)%N with false by lia.
        cbn [orb]. unfold addu64. rewrite !N.mod_small by (unfold max_normal_payload in *; lia). lia.
      * destruct (eqb_name nm name_free || eqb_name nm name_skip); eexists; [|reflexivity].
        f_equal. f_equal. unfold addu64. rewrite N.mod_small; lia.
Qed.

(* mdat (and, on the decode side, unknown boxes) behind a 16-byte largesize header *)
Lemma payload_len_large nm n : (n < 4294967296)%N -> payload_len (mkH nm (16 + n) 16) = Z.of_N n.
Proof.
  intros H. unfold payload_len, int_of_u64. cbn [hsize hlen].
  rewrite (w64_id (Z.of_N (16 + n))) by (unfold two63; lia). rewrite w64_id by (unfold two63; lia). lia.
Qed.

Definition std_large_ok (nm p : list N) : Prop :=
  length nm = 4%nat /\ std_kind nm = KLeaf /\ (eqb_name nm name_free || eqb_name nm name_skip) = false /\
  (lenN p < 4294967280)%N.

Lemma std_canon_large nm p : std_large_ok nm p -> canon_large std_leaves nm p.
Proof.
  intros [Hn [Hk [Hfs Hl]]]. split; [exact Hk|]. split.
  - intros pre post cst Hall. cbn [ld_sr std_leaves]. unfold std_sr. cbn [hname hsize hlen sr scost].
    rewrite payload_len_large by lia. rewrite <- zlen_lenN. rewrite read_bytes_mid by exact Hall.
    cbn [rerr]. rewrite Hfs. destruct (eqb_name nm name_mdat) eqn:Em.
    + eexists. f_equal. f_equal. unfold mdat_size.
      replace (8 <? 16)%N with true by reflexivity. cbn [orb].
      unfold addu64. rewrite !N.mod_small by lia. lia.
    + eexists. reflexivity.
  - intros pre post cst Hall. cbn [ld_r std_leaves]. unfold std_r, read_box_body. cbn [hname hsize hlen].
    rewrite Hfs.
    destruct (16 =? 16 + lenN p)%N eqn:E0.
    + apply N.eqb_eq in E0. assert (H0 : lenN p = 0%N) by lia.
      assert (p = []) by (destruct p; [reflexivity|unfold lenN in H0; cbn [length] in H0; lia]). subst p.
      cbn [app]. replace (lenN pre + lenN (@nil N))%N with (lenN pre) by (unfold lenN; cbn [length]; lia).
      replace (16 + lenN (@nil N))%N with 16%N by reflexivity.
      destruct (eqb_name nm name_mdat); eexists; reflexivity.
    + assert (Eb : subu64 (16 + lenN p) 16 = lenN p).
      { unfold subu64. rewrite (N.mod_small 16) by lia.
        replace (16 + lenN p + 18446744073709551616 - 16)%N with (lenN p + 1 * 18446744073709551616)%N by lia.
        rewrite N.mod_add by lia. rewrite N.mod_small; lia. }
      rewrite Eb. unfold int_of_u64. rewrite w64_id by (unfold two63; lia). rewrite <- zlen_lenN.
      rewrite read_limited_mid by exact Hall. rewrite Z.eqb_refl.
      destruct (eqb_name nm name_mdat) eqn:Em.
      * eexists. f_equal. f_equal. unfold mdat_size.
        replace (8 <? 16)%N with true by reflexivity. cbn [orb].
        unfold addu64. rewrite !N.mod_small by lia. lia.
      * eexists. reflexivity.
Qed.

(* ---------------------------------------------------------------- the two byte-level file loops on canonical files *)
Section FILEC.
Variable ld : leafdec.
Hypothesis LD : leaf_ok ld.

Lemma file_sr_canon : forall cs, Forall (cwf ld) cs -> (lenN (cencs cs) < 4294967296)%N ->
  forall fuel pos acc pre cst r s',
    zlen (pre ++ cencs cs) < two63 -> (pos + lenN (cencs cs) < 18446744073709551616)%N ->
    zlen (cencs cs) + 1 < Z.of_nat fuel ->
    file_boxes_sr ld fuel pos acc (sr_at (pre ++ cencs cs) (zlen pre) cst) = (r, s') ->
    r = Ok (rev acc ++ map erase cs).
Proof.
  induction cs as [|k rest IH]; intros HW Hl fuel pos acc pre cst r s' Hs Hp Hf Hrun.
  - destruct fuel as [|f]; [cbn in Hf; unfold zlen in Hf; cbn in Hf; lia|].
    cbn [file_boxes_sr cencs] in Hrun. rewrite app_nil_r in Hrun.
    unfold nr_remaining, sr_at in Hrun. cbn [sr rerr rbuf rpos rlen] in Hrun. unfold rlen in Hrun. cbn [rbuf] in Hrun.
    rewrite Z.sub_diag in Hrun. change (w64 0) with 0 in Hrun. rewrite Z.eqb_refl in Hrun.
    apply pair_equal_spec in Hrun. destruct Hrun as [Hr _]. subst r. cbn [map]. rewrite app_nil_r. reflexivity.
  - pose proof (Forall_inv HW) as HWk. pose proof (Forall_inv_tail HW) as HWr.
    pose proof (cenc_len_ge8 ld k HWk) as Hk8.
    destruct fuel as [|f]; [pose proof (zlen_nonneg (cencs (k :: rest))); lia|].
    cbn [file_boxes_sr] in Hrun. cbn [cencs] in *. rewrite lenN_app in *. rewrite zlen_app in Hf.
    assert (Hfk : fits k) by (unfold fits; lia).
    (* there are bytes left *)
    assert (Hnr : (nr_remaining (sr (sr_at (pre ++ cenc k ++ cencs rest) (zlen pre) cst)) =? 0) = false).
    { unfold nr_remaining, sr_at, rlen. cbn [sr rerr rbuf rpos]. rewrite !zlen_app in *.
      pose proof (zlen_nonneg (cencs rest)). pose proof (zlen_nonneg pre). pose proof (zlen_nonneg (cenc k)).
      rewrite w64_id by (unfold two63 in *; lia). rewrite (zlen_lenN (cenc k)) in *. lia. }
    rewrite Hnr in Hrun.
    destruct (dec_box_sr ld f pos (sr_at (pre ++ cenc k ++ cencs rest) (zlen pre) cst)) as [rb s1] eqn:Eb.
    (* not out of fuel *)
    destruct (sr_loops ld LD f) as [HB _].
    assert (HI : Inv (sr (sr_at (pre ++ cenc k ++ cencs rest) (zlen pre) cst))).
    { unfold Inv, sr_at, rlen. cbn [sr rbuf rpos]. rewrite !zlen_app in *. pose proof (zlen_nonneg pre).
      pose proof (zlen_nonneg (cenc k)). pose proof (zlen_nonneg (cencs rest)). lia. }
    destruct (HB pos _ HI) as [rb' [s1' [Eb' [_ [NF _]]]]]. rewrite Eb in Eb'.
    apply pair_equal_spec in Eb'. destruct Eb' as [Er Es]. subst rb' s1'.
    assert (Hno : rb <> OutOfFuel).
    { apply NF. unfold rem, sr_at, rlen. cbn [sr rbuf rpos]. rewrite !zlen_app in *. lia. }
    assert (Ebuf : pre ++ cenc k ++ cencs rest = pre ++ cenc k ++ (cencs rest ++ [])) by (rewrite app_nil_r; reflexivity).
    assert (Eb2 : dec_box_sr ld f pos (sr_at (pre ++ cenc k ++ (cencs rest ++ [])) (zlen pre) cst) = (rb, s1))
      by (rewrite <- Ebuf; exact Eb).
    destruct (box_canon_sr_all ld k HWk Hfk f pos pre (cencs rest ++ []) cst rb s1) as [Ho|[Ho Hs1]];
      try exact Eb2; try lia.
    { rewrite <- Ebuf. exact Hs. }
    { contradiction. }
    subst rb. rewrite (tsize_erase ld k HWk Hfk) in Hrun.
    assert (Hpos' : addu64 pos (lenN (cenc k)) = (pos + lenN (cenc k))%N) by (unfold addu64; rewrite N.mod_small; lia).
    rewrite Hpos' in Hrun.
    destruct s1 as [r1 c1]. cbn [sr] in Hs1. subst r1. rewrite <- Ebuf in Hrun.
    assert (Ebuf2 : pre ++ cenc k ++ cencs rest = (pre ++ cenc k) ++ cencs rest) by (rewrite <- app_assoc; reflexivity).
    change {| sr := mkR (pre ++ cenc k ++ cencs rest) (zlen pre + zlen (cenc k)) false; scost := c1 |}
      with (sr_at (pre ++ cenc k ++ cencs rest) (zlen pre + zlen (cenc k)) c1) in Hrun.
    rewrite Ebuf2 in Hrun. replace (zlen pre + zlen (cenc k)) with (zlen (pre ++ cenc k)) in Hrun by apply zlen_app.
    rewrite (IH HWr ltac:(lia) f (pos + lenN (cenc k))%N (erase k :: acc) (pre ++ cenc k) c1 r s'); try assumption; try lia.
    + cbn [rev map]. rewrite <- app_assoc. reflexivity.
    + rewrite <- Ebuf2. exact Hs.
    + rewrite (zlen_lenN (cenc k)) in Hf. lia.
Qed.

Lemma file_r_canon : forall cs, Forall (cwf ld) cs -> (lenN (cencs cs) < 4294967296)%N ->
  forall fuel pos acc pre cst r s',
    zlen (pre ++ cencs cs) < two63 -> (pos + lenN (cencs cs) < 18446744073709551616)%N ->
    zlen (cencs cs) + 1 < Z.of_nat fuel ->
    file_boxes_r ld fuel pos acc (mkI (pre ++ cencs cs) (lenN pre) cst) = (r, s') ->
    r = Ok (rev acc ++ map erase cs).
Proof.
  induction cs as [|k rest IH]; intros HW Hl fuel pos acc pre cst r s' Hs Hp Hf Hrun.
  - destruct fuel as [|[|f]]; [cbn in Hf; unfold zlen in Hf; cbn in Hf; lia|cbn in Hf; unfold zlen in Hf; cbn in Hf; lia|].
    cbn [file_boxes_r cencs dec_box_r] in Hrun. rewrite app_nil_r in Hrun.
    unfold decode_header, read_full, iavail in Hrun. cbn [icharge ibuf ipos icost] in Hrun.
    rewrite N.sub_diag, N.eqb_refl in Hrun.
    apply pair_equal_spec in Hrun. destruct Hrun as [Hr _]. subst r. cbn [map]. rewrite app_nil_r. reflexivity.
  - pose proof (Forall_inv HW) as HWk. pose proof (Forall_inv_tail HW) as HWr.
    pose proof (cenc_len_ge8 ld k HWk) as Hk8.
    destruct fuel as [|f]; [pose proof (zlen_nonneg (cencs (k :: rest))); lia|].
    cbn [file_boxes_r] in Hrun. cbn [cencs] in *. rewrite lenN_app in *. rewrite zlen_app in Hf.
    assert (Hfk : fits k) by (unfold fits; lia).
    destruct (dec_box_r ld f pos (mkI (pre ++ cenc k ++ cencs rest) (lenN pre) cst)) as [rb s1] eqn:Eb.
    destruct (r_loops ld LD f) as [HB _].
    assert (HI : IInv (mkI (pre ++ cenc k ++ cencs rest) (lenN pre) cst)).
    { unfold IInv, ip, il. cbn [ibuf ipos]. rewrite <- !zlen_lenN. rewrite !zlen_app in *. pose proof (zlen_nonneg (cenc k)).
      pose proof (zlen_nonneg (cencs rest)). lia. }
    destruct (HB pos _ HI) as [rb' [s1' [Eb' [_ [NF _]]]]]. rewrite Eb in Eb'.
    apply pair_equal_spec in Eb'. destruct Eb' as [Er Es]. subst rb' s1'.
    assert (Hno : rb <> OutOfFuel).
    { apply NF. unfold irem, ip, il. cbn [ibuf ipos]. rewrite <- !zlen_lenN. rewrite !zlen_app in *. lia. }
    assert (Ebuf : pre ++ cenc k ++ cencs rest = pre ++ cenc k ++ (cencs rest ++ [])) by (rewrite app_nil_r; reflexivity).
    assert (Eb2 : dec_box_r ld f pos (mkI (pre ++ cenc k ++ (cencs rest ++ [])) (lenN pre) cst) = (rb, s1))
      by (rewrite <- Ebuf; exact Eb).
    destruct (box_canon_r_all ld k HWk Hfk f pos pre (cencs rest ++ []) cst rb s1) as [Ho|[Ho [Hb1 Hp1]]];
      try exact Eb2; try lia.
    { rewrite <- Ebuf. exact Hs. }
    { contradiction. }
    subst rb. rewrite (tsize_erase ld k HWk Hfk) in Hrun.
    assert (Hpos' : addu64 pos (lenN (cenc k)) = (pos + lenN (cenc k))%N) by (unfold addu64; rewrite N.mod_small; lia).
    rewrite Hpos' in Hrun.
    destruct s1 as [b1 p1 c1]. cbn [ibuf ipos] in Hb1, Hp1. subst b1 p1. rewrite <- Ebuf in Hrun.
    assert (Ebuf2 : pre ++ cenc k ++ cencs rest = (pre ++ cenc k) ++ cencs rest) by (rewrite <- app_assoc; reflexivity).
    rewrite Ebuf2 in Hrun. replace (lenN pre + lenN (cenc k))%N with (lenN (pre ++ cenc k)) in Hrun by apply lenN_app.
    rewrite (IH HWr ltac:(lia) f (pos + lenN (cenc k))%N (erase k :: acc) (pre ++ cenc k) c1 r s'); try assumption; try lia.
    + cbn [rev map]. rewrite <- app_assoc. reflexivity.
    + rewrite <- Ebuf2. exact Hs.
    + rewrite (zlen_lenN (cenc k)) in Hf. lia.
Qed.

(* a canonical file = the concatenation of canonical top-level boxes: both loops deliver the same box sequence *)
Theorem file_boxes_agree : forall cs, Forall (cwf ld) cs -> (lenN (cencs cs) < 4294967296)%N ->
  fst (file_sr ld (cencs cs)) = Ok (map erase cs) /\ fst (file_r ld (cencs cs)) = Ok (map erase cs).
Proof.
  intros cs HW Hl.
  assert (Hz : zlen ([] ++ cencs cs) < two63) by (cbn [app]; rewrite zlen_lenN; unfold two63; lia).
  assert (Hf : zlen (cencs cs) + 1 < Z.of_nat (S (S (length (cencs cs))))) by (unfold zlen; lia).
  split.
  - unfold file_sr. destruct (file_boxes_sr ld _ 0 [] (snew (cencs cs))) as [r s'] eqn:E. cbn [fst].
    apply (file_sr_canon cs HW Hl _ 0%N [] [] cost0 r s' Hz ltac:(lia) Hf). exact E.
  - unfold file_r. destruct (file_boxes_r ld _ 0 [] (inew (cencs cs))) as [r s'] eqn:E. cbn [fst].
    apply (file_r_canon cs HW Hl _ 0%N [] [] cost0 r s' Hz ltac:(lia) Hf). exact E.
Qed.
End FILEC.
