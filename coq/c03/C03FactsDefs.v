(* C03FactsDefs.v — the vocabulary of the generated source facts (coq/c03/C03Facts.v, regenerated from /repo's sources by
   `harness/c03 srcfacts` on every run of the check) and the HAND-MAINTAINED classification policy they are checked against.
   Definitions only.

   Decoder classes (shapes defined precisely at the top of harness/c03/srcfacts.go):
     CDelegating     the reader-path decoder is [header guards;] readBoxBody; NewFixedSliceReader; return S(hdr, startPos, sr) with S
                     the SR decoder registered under the same key (and S repeats the guards)
     CContainerTwin  (a composite literal of the SR decoder may additionally initialise slice fields with `make([]T, 0, n)`: nil == empty)
                     both decoders start with DecodeContainerChildren / DecodeContainerChildrenSR(hdr, startPos+8, startPos+hdr.Size, ..)
                     and are otherwise the same text up to local names (df_accerr: S ends `return x, sr.AccError()`, R `return x, nil`)
     CContainerBody  the reader-path decoder reads the body itself (io.ReadAll(io.LimitReader(..payloadLen()))), then is the text of S on a
                     private reader (moov, moof; df_accerr as above)
     CPureTwin       neither decoder touches its reader; the two bodies are the same text up to local names (the same function of the header)
     CRawBody        reader path: readBoxBody, then a box built from `data`; SR path: the same box built from
                     sr.ReadBytes(hdr.payloadLen()), returned with sr.AccError() (the opaque leaf std_r / std_sr of the framing model)
     CBodyFn         reader path: readBoxBody, then REST(data); SR path: REST(sr.ReadBytes(hdr.payloadLen())) - bound to a local first (df_accerr:
                     followed by `if sr.AccError() != nil { return nil, sr.AccError() }`) or in place -, REST the same text up to local names,
                     not touching the reader (the tail `x, err := G(..); if err != nil { return nil, err }; return V, nil` may be
                     `return V, err` on the SR side): the same pure function of the body bytes (C03_bodyfn_pair_agree)
     CSeparate       anything else
   df_relative: the SR decoder uses its reader only through position-relative operations (hypothesis local_xprog of
   C03_delegate_sound_ext). *)
From Coq Require Import List String NArith Bool.
Import ListNotations.
Open Scope string_scope.

Inductive dclass := CDelegating | CContainerTwin | CContainerBody | CPureTwin | CRawBody | CBodyFn | CSeparate.
Record decfact := mkdec { df_key : list N; df_r : string; df_s : string; df_class : dclass; df_accerr : bool; df_relative : bool }.

Inductive eclass := EDelegating | EPrelude | EContainer | EHeader | ETwin | ETwinDeleg | ESeparate.
Record encfact := mkenc { ef_type : string; ef_class : eclass }.

Definition dclass_eqb (a b : dclass) : bool :=
  match a, b with
  | CDelegating, CDelegating | CContainerTwin, CContainerTwin | CContainerBody, CContainerBody | CSeparate, CSeparate
  | CPureTwin, CPureTwin | CRawBody, CRawBody | CBodyFn, CBodyFn => true
  | _, _ => false
  end.

Definition smem (x : string) (l : list string) : bool := existsb (String.eqb x) l.

(* ------------------------------------------------------------------ the policy (edit by hand, with the theorem it refers to) *)
(* separately written pairs with their own pair theorem in C03Theorems.v *)
Definition c03_separate_proved : list string :=
  [ "DecodeTrun"   (* C03_trun_pair_agree *)
  ; "DecodeSenc"   (* C03_senc_pair_agree *)
  ; "DecodeMdat"   (* C03_mdat_pair_agree *)
  ; "DecodeStsd"   (* C03_stsd_pair_agree_canonical *)
  ; "DecodeMfhd"   (* C03_mfhd_pair_agree *)
  ; "DecodeTfdt"   (* C03_fragment_progs_local + C03_prog_pair_agree *)
  ; "DecodeDref"   (* C03_counted_pairs_agree_canonical *)
  ; "DecodeAudioSampleEntry" (* mp4a enca ac-3 ec-3: C03_entry_pairs_agree_canonical *) ].
(* separately written pairs that are explored only (both paths run on every harvested / generated box by the search) *)
Definition c03_separate_explored : list string :=
  [ ].
(* delegating pairs whose SR decoder is NOT position-relative, with their own pair theorem *)
Definition c03_delegating_nonrelative_proved : list string :=
  [ "DecodeVisualSampleEntry"  (* C03_vse_pair_agree_canonical *)
  ; "DecodeTrep"               (* C03_counted_pairs_agree_canonical *)
  ; "DecodeWvtt"               (* C03_entry_pairs_agree_canonical *)
  ; "DecodeEvte"; "DecodeStpp" (* C03_xentry_pairs_agree_canonical *)
  ; "DecodeMeta"               (* C03_meta_pair_agree_canonical *) ].
(* delegating pairs whose SR decoder is NOT position-relative (SetPos, GetPos outside differences, LookAhead, children decoded with
   DecodeBoxSR, a decoder table): the delegation shape is still REQUIRED of them; that the SR decoder behaves the same on a private body reader is explored *)
Definition c03_delegating_nonrelative_explored : list string :=
  [ "DecodeEsds"; "DecodeSgpd" ].
(* container twins whose SR decoder additionally returns sr.AccError() (edts sinf stbl): on canonical strings the test never fires
   (C03_twin_accerr_canonical); none is left as explored *)
Definition c03_twin_accerr_explored : list string := [ ].

Definition dec_ok (f : decfact) : bool :=
  match df_class f with
  | CDelegating => df_relative f || smem (df_r f) c03_delegating_nonrelative_proved || smem (df_r f) c03_delegating_nonrelative_explored
  | CContainerTwin => true          (* KCont of the framing model; with df_accerr: C03_twin_accerr_canonical *)
  | CContainerBody => true          (* KContBody accerr of the framing model, both values *)
  | CBodyFn => true                 (* C03_bodyfn_pair_agree *)
  | CPureTwin => true               (* one function of (hdr, startPos), written twice *)
  | CRawBody => true                (* C03_std_canon_leaf: the opaque leaf of the framing model *)
  | CSeparate => smem (df_r f) c03_separate_proved || smem (df_r f) c03_separate_explored
  end.

(* what the classification buys: the theorem that covers the pair *)
Inductive coverage := CovDelegateSound | CovFraming | CovPairTheorem | CovExplored.
Definition dec_coverage (f : decfact) : coverage :=
  match df_class f with
  | CDelegating => if df_relative f then CovDelegateSound
                   else if smem (df_r f) c03_delegating_nonrelative_proved then CovPairTheorem else CovExplored
  | CContainerTwin => CovFraming
  | CContainerBody => CovFraming
  | CPureTwin | CRawBody => CovFraming
  | CBodyFn => CovPairTheorem
  | CSeparate => if smem (df_r f) c03_separate_proved then CovPairTheorem else CovExplored
  end.
Definition count_cov (c : coverage) (l : list decfact) : nat :=
  List.length (filter (fun f => match dec_coverage f, c with
                           | CovDelegateSound, CovDelegateSound | CovFraming, CovFraming | CovPairTheorem, CovPairTheorem
                           | CovExplored, CovExplored => true | _, _ => false end) l).

(* encoders *)
Definition c03_enc_separate_proved : list string :=
  [ "MdatBox" (* C03_mdat_enc_agree *); "StsdBox" (* C03_stsd_enc_agree *); "VisualSampleEntryBox" (* C03_vse_enc_agree *)
  ; "DrefBox"; "TrepBox"; "WvttBox"; "AudioSampleEntryBox"; "MetaBox" (* header, fixed bytes, children: C03_pfx_enc_agree *) ].
Definition c03_enc_twin_proved : list string :=
  [ "File"; "MediaSegment"; "Fragment"; "InitSegment" (* C03_encode_agree: the four are modelled in C03Model.v *)
  ; "MoofBox" (* C03_encode_state_agree: hmoof_w / hmoof_sw of C03EncHistModel.v *) ].
Definition c03_enc_separate_explored : list string :=
  [ ].
(* Encode = `b.m(); <the delegation pattern>` with EncodeSW starting with the same `b.m()`: equal provided m is idempotent
   (C03_enc_prelude_agree); the types whose prelude is known to be idempotent *)
Definition c03_enc_prelude_proved : list string :=
  [ "SencBox" (* setSubSamplesUsedFlag: C02AggSencProofs.senc_setflag_idem, instantiated in C03_enc_prelude_agree *) ].
Definition c03_enc_twin_explored : list string := [ ].

Definition enc_ok (f : encfact) : bool :=
  match ef_class f with
  | EDelegating => true            (* C03_enc_delegate_agree *)
  | EPrelude => smem (ef_type f) c03_enc_prelude_proved
  | ETwinDeleg => true             (* header, then ONE inner Encode / EncodeSW whose Encode has the delegation pattern: C03_confrec_enc_agree *)
  | EContainer => true             (* C03_encode_agree: EncodeContainer = EncodeContainerSW *)
  | EHeader => true                (* EncodeHeader / EncodeHeaderSW only: the header case of C03_encode_agree (no children) *)
  | ETwin => smem (ef_type f) c03_enc_twin_proved || smem (ef_type f) c03_enc_twin_explored
  | ESeparate => smem (ef_type f) c03_enc_separate_proved || smem (ef_type f) c03_enc_separate_explored
  end.

(* ------------------------------------------------------------------ Encode written as a call of EncodeSW *)
(* `sw := bits.NewFixedSliceWriter(int(b.Size())); err := b.EncodeSW(sw); if err != nil { return err }; _, err = w.Write(sw.Bytes())`:
   out = what EncodeSW produces on an unbounded writer; a FixedSliceWriter of capacity cap accumulates an error when more is written *)
Definition sw_run (cap : N) (out : option (list N)) : option (list N) :=
  match out with
  | Some bs => if (N.of_nat (List.length bs) <=? cap)%N then Some bs else None
  | None => None
  end.
Definition enc_delegating_w (size : N) (out : option (list N)) : option (list N) := sw_run size out.
Definition enc_direct_sw (cap : N) (out : option (list N)) : option (list N) := sw_run cap out.

(* ------------------------------------------------------------------ Encode = prelude; delegation pattern, EncodeSW = prelude; body *)
(* p: the prelude on the box state (SencBox.setSubSamplesUsedFlag); size / out: Size() and what the rest of EncodeSW writes, as functions of the state *)
Definition enc_prelude_w {S} (p : S -> S) (size : S -> N) (out : S -> option (list N)) (s : S) : S * option (list N) :=
  let s1 := p s in                      (* b.m() *)
  let s2 := p s1 in                     (* b.EncodeSW(sw) starts with b.m() *)
  (s2, sw_run (size s1) (out s2)).      (* sw := NewFixedSliceWriter(int(b.Size())) was sized BEFORE the second b.m() *)
Definition enc_prelude_sw {S} (p : S -> S) (cap : N) (out : S -> option (list N)) (s : S) : S * option (list N) :=
  let s1 := p s in (s1, sw_run cap (out s1)).

(* ------------------------------------------------------------------ HvcCBox / Av1CBox: header, then the configuration record's own encoder *)
(* Encode: EncodeHeader(b, w); b.DecConfRec.Encode(w) - which is the delegation pattern around DecConfRec.EncodeSW, sized by DecConfRec.Size();
   EncodeSW: EncodeHeaderSW(b, sw); b.DecConfRec.EncodeSW(sw).  hdr: the header bytes (None: size >= 2^32), out: what the record's EncodeSW writes *)
Definition confrec_enc_w (hdr : option (list N)) (isize : N) (out : option (list N)) : option (list N) :=
  match hdr with
  | None => None
  | Some h => match enc_delegating_w isize out with Some bs => Some (h ++ bs)%list | None => None end
  end.
Definition confrec_enc_sw (hdr : option (list N)) (cap : N) (out : option (list N)) : option (list N) :=
  match hdr with
  | None => None
  | Some h => match enc_direct_sw cap out with Some bs => Some (h ++ bs)%list | None => None end
  end.
