(* C03Theorems.v — the property theorems of C03 and nothing else.
   Models: C03Model.v (EncodeContainer / EncodeContainerSW, File/MediaSegment/Fragment/InitSegment Encode / EncodeSW,
   the DecodeFile and DecodeFileSR loops over box shapes), C03Registry.v (generated on every run from the
   hook-exported key sets of the two decoder tables). *)
From V.lib Require Import Base.
From V.c04 Require Import C04AsmModel.
From V.c03 Require Import C03Model C03Registry C03Proofs.

(* Encode to an io.Writer and EncodeSW to a slice writer: identical bytes or both fail, for every container tree and
   every File (init, sidx, segments, fragments, mfra; segment mode and box-tree mode; progressive), given that every
   opaque leaf encodes identically through its own two methods *)
Theorem C03_encode_agree : forall f, agree_file f = true -> file_enc_w f = file_enc_sw true f.
Proof. exact encode_agree. Qed.
Print Assumptions C03_encode_agree.

Theorem C03_box_encode_agree : forall b, agree b = true -> enc_w b = enc_sw b.
Proof. exact box_encode_agree. Qed.
Print Assumptions C03_box_encode_agree.

(* the pinned File.EncodeSW (f87a9e4) drops the mfra box in segment mode; repaired in 33b95e8 *)
Theorem C03_encode_sw_mfra_refuted :
  agree_file mfra_file = true /\ file_enc_w mfra_file = Ok [0;0;0;8;109;102;114;97]%N /\
  file_enc_sw false mfra_file = Ok [] /\ file_enc_sw true mfra_file = file_enc_w mfra_file.
Proof. exact encode_sw_mfra_refuted. Qed.
Print Assumptions C03_encode_sw_mfra_refuted.

(* the two file decode loops build the same File (same init / segment / fragment grouping, same StartPos) for every
   list of top-level box shapes, under the options both support *)
Theorem C03_file_agree : forall o boxes, o_ism o = false -> o_lazy o = false ->
  decode_file_sr o boxes = decode_file_r o boxes.
Proof. exact file_agree. Qed.
Print Assumptions C03_file_agree.

(* the two dispatch tables register the same box types (regenerated from /repo on every run) *)
Theorem C03_registry : keys_decoders = keys_decoders_sr.
Proof. exact registry_equal. Qed.
Print Assumptions C03_registry.

(* ---- non-vacuity ---- *)
Example ex_tree : ebox :=
  ECont [109;111;111;102]%N 24 [ECont [116;114;97;102]%N 8 []; ELeaf (Ok [0;0;0;8;102;114;101;101]%N) (Ok [0;0;0;8;102;114;101;101]%N)].
Example ex_tree_agree : agree ex_tree = true.
Proof. reflexivity. Qed.
Example ex_tree_bytes : enc_w ex_tree = Ok [0;0;0;24;109;111;111;102; 0;0;0;8;116;114;97;102; 0;0;0;8;102;114;101;101]%N.
Proof. vm_compute. reflexivity. Qed.
Example ex_registry_nonempty : (100 <? length keys_decoders)%nat = true.
Proof. vm_compute. reflexivity. Qed.
Example ex_file_agree :
  decode_file_sr (mkO true false false false) [(TStyp, 20); (TMoof [mkTraf true None None [TrunOffset]], 68); (TMdat 4, 12)]
  = Ok (mkF false None None None [] None false
            [mkSeg true 0 [mkFrag (Some [mkTraf true None None [TrunOffset]]) true
                                  [FCMdat; FCMoof [mkTraf true None None [TrunOffset]]] 20] 0]
            [TMdat 4; TMoof [mkTraf true None None [TrunOffset]]; TStyp] true).
Proof. vm_compute. reflexivity. Qed.
