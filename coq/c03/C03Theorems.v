(* C03Theorems.v — the property theorems of C03 and nothing else.
   Models: C03Model.v (EncodeContainer / EncodeContainerSW, File/MediaSegment/Fragment/InitSegment Encode / EncodeSW,
   the DecodeFile and DecodeFileSR loops over box shapes), C03Registry.v (generated on every run from the
   hook-exported key sets of the two decoder tables). *)
From V.lib Require Import Base.
From V.c04 Require Import C04Model C04AsmModel C04ContainerProofs.
From V.c03 Require Import C03Model C03Spec C03Registry C03Proofs C03CanonProofs C03LeafModel C03LeafProofs C03LeafBoxProofs C03LeafInstProofs C03StsdProofs C03VseProofs C03LeafTruncProofs C03LeafEncProofs C03DelegateProofs C03DelegateExtProofs C03FactsDefs C03Facts C03ClassProofs C03SencPassModel C03SencPassProofs C03EncHistModel C03EncHistProofs C03BodyFnProofs C03PfxModel C03PfxProofs C03PfxInstProofs C03XEntryProofs C03MetaModel C03MetaProofs.
From V.c02 Require C02AggModel C02AggExamples C02AggFragProofs C02AggFileProofs C02AggSencModel C02AggSencProofs.
Open Scope N_scope.

(* Encode to an io.Writer and EncodeSW to a slice writer: identical bytes or both fail, for every container tree and
   every File (init, sidx, segments, fragments, mfra; segment mode and box-tree mode; progressive), given that every
   opaque leaf encodes identically through its own two methods *)
Theorem C03_encode_agree : forall f, agree_file f = true -> file_enc_w f = file_enc_sw true f.
Proof. exact encode_agree. Qed.
Print Assumptions C03_encode_agree.

Theorem C03_box_encode_agree : forall b, agree b = true -> enc_w b = enc_sw b.
Proof. exact box_encode_agree. Qed.
Print Assumptions C03_box_encode_agree.

(* the pinned File.EncodeSW (f87a9e4) drops the mfra box in segment mode; repaired in 33b95e8 *)
Theorem C03_encode_sw_mfra_refuted :
  agree_file mfra_file = true /\ file_enc_w mfra_file = Ok [0;0;0;8;109;102;114;97]%N /\
  file_enc_sw false mfra_file = Ok [] /\ file_enc_sw true mfra_file = file_enc_w mfra_file.
Proof. exact encode_sw_mfra_refuted. Qed.
Print Assumptions C03_encode_sw_mfra_refuted.

(* the two file decode loops build the same File (same init / segment / fragment grouping, same StartPos) for every
   list of top-level box shapes, under the options both support *)
Theorem C03_file_agree : forall o boxes, o_ism o = false -> o_lazy o = false ->
  decode_file_sr o boxes = decode_file_r o boxes.
Proof. exact file_agree. Qed.
Print Assumptions C03_file_agree.

(* every canonical byte string (compact headers, size = 8 + body, or - CLarge - the 16-byte largesize header, size field 1 and
   64-bit size 16 + body, which MdatBox.Encode keeps; any nesting of container kinds; opaque leaves whose
   two decoders accept their canonical payload) is accepted by DecodeBox AND by DecodeBoxSR, and both build the same tree
   (same Size() for every box, hence the same start position for everything that follows).
   The two header decoders and the two separately written child loops are the C04 models; fuel = len + 1. *)
Theorem C03_decode_agree_canonical : forall ld c, leaf_ok ld -> cwf ld c -> fits c ->
  fst (box_sr ld (cenc c)) = Ok (erase c) /\ fst (box_r ld (cenc c)) = Ok (BBox (erase c)).
Proof. exact decode_agree_canonical. Qed.
Print Assumptions C03_decode_agree_canonical.

Theorem C03_decode_agree_canonical_iff : forall ld bs c t, leaf_ok ld -> cwf ld c -> fits c -> bs = cenc c ->
  (fst (box_r ld bs) = Ok (BBox t) <-> fst (box_sr ld bs) = Ok t).
Proof. exact decode_agree_canonical_iff. Qed.
Print Assumptions C03_decode_agree_canonical_iff.

(* file level, bytes: a canonical file (concatenation of canonical top-level boxes) yields the same sequence of boxes,
   hence the same start positions, from the DecodeFile loop (until io.EOF) and the DecodeFileSR loop (until no bytes remain);
   together with C03_file_agree (same assembly for the same box sequence) this is the file-level agreement *)
Theorem C03_file_boxes_agree : forall ld, leaf_ok ld -> forall cs, Forall (cwf ld) cs -> (lenN (cencs cs) < 4294967296)%N ->
  fst (file_sr ld (cencs cs)) = Ok (map erase cs) /\ fst (file_r ld (cencs cs)) = Ok (map erase cs).
Proof. exact file_boxes_agree. Qed.
Print Assumptions C03_file_boxes_agree.

(* the leaves of the correspondence (mdat, free/skip, unknown boxes) are canonical leaves *)
Theorem C03_std_canon_leaf : forall nm p, std_canon_ok nm p -> canon_leaf std_leaves nm p.
Proof. exact std_canon_leaf. Qed.
Print Assumptions C03_std_canon_leaf.

(* mdat behind a 16-byte largesize header (payload below 4 GiB) is a canonical large leaf: both DecodeMdat and DecodeMdatSR
   carry hdr.Hdrlen > 8 over into LargeSize, so both report Size() = 16 + len(payload) *)
Theorem C03_std_canon_large : forall nm p, std_large_ok nm p -> canon_large std_leaves nm p.
Proof. exact std_canon_large. Qed.
Print Assumptions C03_std_canon_large.

(* ---- the separately written LEAF decoder pairs (models of both decoders in C03LeafModel.v, each from its own Go text) ----
   agree_at r1 r2 buf e: the reader-path decoder returned r1 on the body; the SliceReader-path decoder, run on the buffer
   buf = pre ++ body ++ post at the body's position, returns the same value and stands at e = end of the body with no
   accumulated error, or both fail.  hsize = 8 + len body is the compact header (readBoxBody delivers exactly that body). *)
Theorem C03_trun_pair_agree : forall h body pre post,
  hsize h = (8 + lenN body)%N -> (zlen (pre ++ body ++ post) < two63)%Z ->
  agree_at (trun_body_r h body) (trun_sr h (mkR (pre ++ body ++ post) (zlen pre) false))
           (pre ++ body ++ post) (zlen pre + zlen body)%Z.
Proof. exact trun_pair_agree. Qed.
Print Assumptions C03_trun_pair_agree.

Theorem C03_senc_pair_agree : forall h body pre post,
  (hlen h = 8 \/ hlen h = 16)%N -> hsize h = (hlen h + lenN body)%N -> (hsize h < 9223372036854775808)%N ->
  (zlen (pre ++ body ++ post) < two63)%Z ->
  agree_at (senc_after_body_r h body) (senc_sr h (mkR (pre ++ body ++ post) (zlen pre) false))
           (pre ++ body ++ post) (zlen pre + zlen body)%Z.
Proof. exact senc_pair_agree. Qed.
Print Assumptions C03_senc_pair_agree.

(* mdat: compact AND 16-byte header; LargeSize = (hdr.Hdrlen > 8) on both paths *)
Theorem C03_mdat_pair_agree : forall h body pre post,
  (hlen h = 8 \/ hlen h = 16)%N -> hsize h = (hlen h + lenN body)%N -> (hsize h < 9223372036854775808)%N ->
  (zlen (pre ++ body ++ post) < two63)%Z ->
  agree_at (Ok (mkMdat body (8 <? hlen h)%N)) (mdat_sr h (mkR (pre ++ body ++ post) (zlen pre) false))
           (pre ++ body ++ post) (zlen pre + zlen body)%Z.
Proof. exact mdat_pair_agree. Qed.
Print Assumptions C03_mdat_pair_agree.

(* whole boxes through DecodeBox / DecodeBoxSR (header, maxSize test, dispatch, leaf decoder): a trun / senc / mdat box with a
   compact header announcing the body that is present, followed by ANY bytes: both reject, or both accept with the same value,
   the same Size(), the same number of bytes consumed, and no accumulated error *)
Theorem C03_leaf_boxes_agree : forall nm body post,
  nm = name_trun \/ nm = name_senc \/ nm = name_mdat ->
  (lenN body < 4294967288)%N -> (zlen (framed nm body post) < two63)%Z ->
  boxes_agree (framed nm body post) (8 + lenN body).
Proof. exact leaf_boxes_agree. Qed.
Print Assumptions C03_leaf_boxes_agree.

(* the complement: the compact header announces MORE body bytes than are present.  DecodeBox fails; DecodeBoxSR fails for trun and
   senc and, for mdat only (exempt from the maxSize test, DecodeMdatSR does not return the error), returns a box with empty Data
   and leaves the accumulated error set.  Neither path reproduces such a string.  Together with C03_leaf_boxes_agree this covers
   EVERY byte string that starts with a valid compact header of one of the three types. *)
Theorem C03_leaf_boxes_truncated : forall nm rest size,
  nm = name_trun \/ nm = name_senc \/ nm = name_mdat ->
  (8 <= size < 4294967296)%N -> (lenN rest + 8 < size)%N -> (zlen (be4 size ++ nm ++ rest) < two63)%Z ->
  leafbox_r (be4 size ++ nm ++ rest) = Err /\
  (nm <> name_mdat -> leafbox_sr (be4 size ++ nm ++ rest) = Err) /\
  (nm = name_mdat -> leafbox_sr (be4 size ++ nm ++ rest) = Ok (LMdat (mkMdat [] false), 8%Z, true)).
Proof. exact leaf_boxes_truncated. Qed.
Print Assumptions C03_leaf_boxes_truncated.

(* the compact-header guard is exact: behind a 16-byte header (never written by TrunBox.Encode, so not a
   canonical string) the two trun decoders differ; witness reproduced on the Go code (T lines) *)
Theorem C03_trun_large_header_differs :
  trun_body_r trun_large_hdr trun_large_body = Ok (mkTrun 0 256 0 0 [mkTS 0 0 0 0; mkTS 0 0 0 0]) /\
  trun_sr trun_large_hdr (rnew trun_large_body) = Err /\
  (exists t s, trun_sr trun_large_hdr (rnew (trun_large_body ++ [0;0;0;7; 0;0;0;9]%N)) = Ok (t, s) /\
               tr_samples t = [mkTS 0 7 0 0; mkTS 0 9 0 0]).
Proof. exact trun_large_header_differs. Qed.
Print Assumptions C03_trun_large_header_differs.

(* the senc pair also differed behind a 16-byte header at the pinned text (DecodeSencSR tested hdr.Size - 16); repaired in
   /repo b8f1424 (another property's finding), the model follows the repaired text: both reject the former witness *)
Theorem C03_senc_large_header_agrees :
  senc_after_body_r senc_large_hdr senc_large_body = Err /\ senc_sr senc_large_hdr (rnew senc_large_body) = Err.
Proof. exact senc_large_header_agrees. Qed.
Print Assumptions C03_senc_large_header_agrees.

(* ---- the leaf hypotheses of the framing theorems, instantiated with the pair models ----
   pair_leaves: DecodeBox / DecodeBoxSR dispatch trun, senc and mdat to the models of their own two decoders (every other leaf
   type to the C04 standard leaves).  It satisfies the leaf contract, and every payload the reader-path decoder accepts is a
   canonical leaf: the SliceReader-path decoder accepts it too, consumes exactly it, and both report Size() = 8 + len. *)
Theorem C03_pair_leaves_ok : leaf_ok pair_leaves.
Proof. exact pair_leaves_ok. Qed.
Print Assumptions C03_pair_leaves_ok.

Theorem C03_pair_canon_trun : forall p t, (lenN p < 4294967288)%N ->
  trun_body_r (mkH name_trun (8 + lenN p) 8) p = Ok t -> canon_leaf pair_leaves name_trun p.
Proof. exact pair_canon_trun. Qed.
Print Assumptions C03_pair_canon_trun.

Theorem C03_pair_canon_senc : forall p v, (8 <= lenN p < 4294967288)%N ->
  senc_after_body_r (mkH name_senc (8 + lenN p) 8) p = Ok v -> canon_leaf pair_leaves name_senc p.
Proof. exact pair_canon_senc. Qed.
Print Assumptions C03_pair_canon_senc.

Theorem C03_pair_canon_mdat : forall p, (lenN p <= max_normal_payload)%N -> canon_leaf pair_leaves name_mdat p.
Proof. exact pair_canon_mdat. Qed.
Print Assumptions C03_pair_canon_mdat.

Theorem C03_pair_canon_large_mdat : forall p, (lenN p < 4294967280)%N -> canon_large pair_leaves name_mdat p.
Proof. exact pair_canon_large_mdat. Qed.
Print Assumptions C03_pair_canon_large_mdat.

(* C03_decode_agree_canonical and C03_file_boxes_agree with no leaf hypothesis left for trun, senc, mdat *)
Theorem C03_pair_decode_agree_canonical : forall c, cwf pair_leaves c -> fits c ->
  fst (box_sr pair_leaves (cenc c)) = Ok (erase c) /\ fst (box_r pair_leaves (cenc c)) = Ok (BBox (erase c)).
Proof. exact pair_decode_agree_canonical. Qed.
Print Assumptions C03_pair_decode_agree_canonical.

Theorem C03_pair_file_boxes_agree : forall cs, Forall (cwf pair_leaves) cs -> (lenN (cencs cs) < 4294967296)%N ->
  fst (file_sr pair_leaves (cencs cs)) = Ok (map erase cs) /\ fst (file_r pair_leaves (cencs cs)) = Ok (map erase cs).
Proof. exact pair_file_boxes_agree. Qed.
Print Assumptions C03_pair_file_boxes_agree.

(* ---- stsd: DecodeStsd (binary.Read x2 on r, DecodeContainerChildren) vs DecodeStsdSR (ReadUint32 x2, DecodeContainerChildrenSR) ----
   on every canonical stsd payload (version/flags, entry count = number of entries, canonical sample entries decoded by ANY leaf
   decoder pair satisfying the leaf contract), wherever it sits in the caller's buffer / reader and whatever follows it: both
   accept, with the same decoded value, and Size() = 8 + len payload.  fuel: any number above the bytes left. *)
Theorem C03_stsd_pair_agree_canonical : forall ld, leaf_ok ld -> forall nm vf cnt kids,
  (vf < 4294967296)%N -> lenN kids = cnt -> Forall (cwf ld) kids ->
  (lenN (be4 vf ++ be4 cnt ++ cencs kids) < 4294967288)%N ->
  forall pre post cst cst2 fuel,
  (zlen (pre ++ (be4 vf ++ be4 cnt ++ cencs kids) ++ post) < two63)%Z ->
  (zlen (pre ++ (be4 vf ++ be4 cnt ++ cencs kids) ++ post) - zlen pre < Z.of_nat fuel)%Z ->
  fst (stsd_sr ld fuel (mkH nm (8 + lenN (be4 vf ++ be4 cnt ++ cencs kids)) 8) 0
         (mkS (mkR (pre ++ (be4 vf ++ be4 cnt ++ cencs kids) ++ post) (zlen pre) false) cst)) = Ok (stsd_val vf cnt kids) /\
  fst (stsd_r ld fuel (mkH nm (8 + lenN (be4 vf ++ be4 cnt ++ cencs kids)) 8) 0
         (mkI (pre ++ (be4 vf ++ be4 cnt ++ cencs kids) ++ post) (lenN pre) cst2)) = Ok (stsd_val vf cnt kids) /\
  stsd_size (stsd_val vf cnt kids) = (8 + lenN (be4 vf ++ be4 cnt ++ cencs kids))%N.
Proof. exact stsd_pair_agree_canonical. Qed.
Print Assumptions C03_stsd_pair_agree_canonical.

(* ---- visual sample entry (avc1, hvc1, ...): DecodeVisualSampleEntry (readBoxBody, then the SR decoder on a private reader over
   the body) vs DecodeVisualSampleEntrySR (on the caller's reader) ----
   on every canonical payload (78 fixed bytes a ++ [cnl] ++ b with compressor-name length cnl <= 31, then canonical children),
   wherever it sits and whatever follows: both accept with the same value v (same fields, same children), Size() = 8 + len *)
Theorem C03_vse_pair_agree_canonical : forall ld, leaf_ok ld -> forall nm a b cnl kids,
  length a = 42%nat -> length b = 35%nat -> (cnl <= 31)%N -> Forall (cwf ld) kids ->
  (lenN ((a ++ [cnl] ++ b) ++ cencs kids) < 4294967288)%N ->
  forall pre post cst cst2 fuel,
  (zlen (pre ++ ((a ++ [cnl] ++ b) ++ cencs kids) ++ post) < two63)%Z ->
  (zlen (((a ++ [cnl] ++ b) ++ cencs kids) ++ post) + 1 < Z.of_nat fuel)%Z ->
  exists v, vs_kids v = map erase kids /\ vse_size v = (8 + lenN ((a ++ [cnl] ++ b) ++ cencs kids))%N /\
    fst (vse_sr ld fuel (mkH nm (8 + lenN ((a ++ [cnl] ++ b) ++ cencs kids)) 8) 0
           (mkS (mkR (pre ++ ((a ++ [cnl] ++ b) ++ cencs kids) ++ post) (zlen pre) false) cst)) = Ok v /\
    fst (vse_r ld fuel (mkH nm (8 + lenN ((a ++ [cnl] ++ b) ++ cencs kids)) 8) 0
           (mkI (pre ++ ((a ++ [cnl] ++ b) ++ cencs kids) ++ post) (lenN pre) cst2)) = Ok v.
Proof. exact vse_pair_agree_canonical. Qed.
Print Assumptions C03_vse_pair_agree_canonical.

(* ---- the encoder pairs that are written twice: MdatBox, StsdBox, VisualSampleEntryBox Encode / EncodeSW (models in
   C03LeafModel.v; TrunBox.Encode and SencBox.Encode call their own EncodeSW) ----
   same bytes or both fail, given children that agree; hence these boxes are agreeing leaves of C03_box_encode_agree /
   C03_encode_agree (the hypothesis `agree` is discharged for them) *)
Theorem C03_mdat_enc_agree : forall m, mdat_enc_w m = mdat_enc_sw m /\ agree (ELeaf (mdat_enc_w m) (mdat_enc_sw m)) = true.
Proof. exact (fun m => conj (mdat_enc_agree m) (mdat_leaf_agrees m)). Qed.
Print Assumptions C03_mdat_enc_agree.

Theorem C03_stsd_enc_agree : forall version flags count size kids, agree_list kids = true ->
  stsd_enc_w version flags count size kids = stsd_enc_sw version flags count size kids /\
  agree (ELeaf (stsd_enc_w version flags count size kids) (stsd_enc_sw version flags count size kids)) = true.
Proof. exact (fun v f c s k H => conj (stsd_enc_agree v f c s k H) (stsd_leaf_agrees v f c s k H)). Qed.
Print Assumptions C03_stsd_enc_agree.

Theorem C03_vse_enc_agree : forall name v size kids, agree_list kids = true ->
  vse_enc_w name v size kids = vse_enc_sw name v size kids /\
  agree (ELeaf (vse_enc_w name v size kids) (vse_enc_sw name v size kids)) = true.
Proof. exact (fun n v s k H => conj (vse_enc_agree n v s k H) (vse_leaf_agrees n v s k H)). Qed.
Print Assumptions C03_vse_enc_agree.

(* ---- the delegation pattern of the remaining reader-path decoders (`data := readBoxBody(r, hdr); return DecodeXxxSR(hdr, pos,
   bits.NewFixedSliceReader(data))`) ----
   for EVERY SR decoder expressible as a decision tree of position-relative FixedSliceReader operations (ReadUintN / ReadIntN,
   ReadBytes, ReadFixedLengthString, SkipBytes, AccError; control flow free to depend on every value read): if its run on the
   private reader over the body ends without accumulated error, its run on the caller's reader, with the body anywhere in the
   buffer and anything after it, returns the same value and stops at the same offset into the body, without error.
   (RemainingBytes, NrRemainingBytes, LookAhead, SetPos ... are not position-relative: the decoders of findings C03-F3..F5 used them.) *)
Theorem C03_delegate_sound : forall A (p : sprog A) body a s', local_prog p -> (zlen body < 4611686018427387904)%Z ->
  run_sprog p (rnew body) = Ok (a, s') -> rerr s' = false ->
  forall pre post, (zlen (pre ++ body ++ post) < two63)%Z ->
    run_sprog p (mkR (pre ++ body ++ post) (zlen pre) false)
    = Ok (a, mkR (pre ++ body ++ post) (zlen pre + rpos s')%Z false).
Proof. exact delegate_sound. Qed.
Print Assumptions C03_delegate_sound.

(* the same in the form the decoders use it: reader path = program on a private reader over the body (AccError consulted or not),
   SR path = program on the caller's reader + AccError; mfhd_prog_r/sr, tfdt_prog_r/sr (written twice in Go) and tfhd_prog are
   local programs tied to DecodeMfhd/SR, DecodeTfdt/SR, DecodeTfhd/SR by the P lines of the correspondence *)
Theorem C03_prog_pair_agree : forall A (p : sprog A) (consult : bool) body a s', local_prog p -> (zlen body < 4611686018427387904)%Z ->
  run_sprog p (rnew body) = Ok (a, s') -> rerr s' = false ->
  forall pre post, (zlen (pre ++ body ++ post) < two63)%Z ->
    prog_body_r consult p body = Ok a /\
    prog_sr p (mkR (pre ++ body ++ post) (zlen pre) false) = Ok (a, mkR (pre ++ body ++ post) (zlen pre + rpos s')%Z false).
Proof. exact prog_pair_agree. Qed.
Print Assumptions C03_prog_pair_agree.

Theorem C03_fragment_progs_local : local_prog mfhd_prog_sr /\ mfhd_prog_r = mfhd_prog_sr /\ local_prog tfdt_prog_sr /\
  tfdt_prog_r = tfdt_prog_sr /\ local_prog tfhd_prog.
Proof. exact (conj mfhd_local (conj eq_refl (conj tfdt_local (conj eq_refl tfhd_local)))). Qed.
Print Assumptions C03_fragment_progs_local.

(* mfhd: DecodeMfhd and DecodeMfhdSR agree on every body of at least 8 bytes (on a shorter one DecodeMfhd returns zeros - it does not
   consult its reader's error - and DecodeMfhdSR fails or reads on; never reproduced) *)
Theorem C03_mfhd_pair_agree : forall body pre post, (8 <= zlen body < 4611686018427387904)%Z -> (zlen (pre ++ body ++ post) < two63)%Z ->
  exists a, prog_body_r false mfhd_prog_r body = Ok a /\
            prog_sr mfhd_prog_sr (mkR (pre ++ body ++ post) (zlen pre) false) = Ok (a, mkR (pre ++ body ++ post) (zlen pre + 8)%Z false).
Proof. exact mfhd_pair_agree. Qed.
Print Assumptions C03_mfhd_pair_agree.

(* the two dispatch tables register the same box types (regenerated from /repo on every run) *)
Theorem C03_registry : keys_decoders = keys_decoders_sr.
Proof. exact registry_equal. Qed.
Print Assumptions C03_registry.


(* ---- second round: every registered pair classified from the sources on every run ----
   The delegation theorem for the operations the delegating SR decoders actually use (harness/c03/srcfacts.go finds them in the
   sources on every run): additionally ReadZeroTerminatedString / ReadPossiblyZeroTerminatedString (count below 2^62),
   ReadFixedLengthString with ANY int count (a run that ends without error read it inside the body), and positions relative to the
   decoder's entry (`initPos := sr.GetPos()` ... `sr.GetPos() - initPos`: XRelPos, origin 0 on the private reader, the offset of the
   body on the caller's reader).  Buffers below 2^61 bytes, so that hdr.payloadLen() < 2^61 (the bound the extractor uses for counts). *)
Theorem C03_delegate_sound_ext : forall A (p : xprog A) body a s', local_xprog p ->
  run_xprog 0 p (rnew body) = Ok (a, s') -> rerr s' = false ->
  forall pre post, (zlen (pre ++ body ++ post) < 2305843009213693952)%Z ->
    run_xprog (zlen pre) p (mkR (pre ++ body ++ post) (zlen pre) false)
    = Ok (a, mkR (pre ++ body ++ post) (zlen pre + rpos s')%Z false).
Proof.
  exact (fun A p body a s' Hl E He pre post Hs =>
    delegate_sound_x A p body a s' Hl
      ltac:(rewrite !zlen_app in Hs; pose proof (zlen_nonneg pre); pose proof (zlen_nonneg post); unfold two62; lia)
      E He pre post ltac:(unfold two62; lia)).
Qed.
Print Assumptions C03_delegate_sound_ext.

(* instantiated ONCE for all delegating pairs: reader path = [the header guard;] readBoxBody, the SR decoder's program on a private
   reader over the body, returning what it returns (strict: it ends with `return b, sr.AccError()`); SR path = [the same guard;] the
   program on the caller's reader.  Whenever the private run ends without accumulated error, both paths fail on the guard or both
   return the same value, the SR path stopping at the end of what the private run read, without error. *)
Theorem C03_delegating_pair_agree : forall A (p : xprog A) (guard strict : bool) body a s', local_xprog p ->
  run_xprog 0 p (rnew body) = Ok (a, s') -> rerr s' = false ->
  forall pre post, (zlen (pre ++ body ++ post) < 2305843009213693952)%Z ->
    (guard = true -> xprog_body_r guard strict p body = Err /\
                     xprog_sr guard strict p (mkR (pre ++ body ++ post) (zlen pre) false) = Err) /\
    (guard = false -> xprog_body_r guard strict p body = Ok a /\
                      xprog_sr guard strict p (mkR (pre ++ body ++ post) (zlen pre) false)
                      = Ok (a, mkR (pre ++ body ++ post) (zlen pre + rpos s')%Z false)).
Proof.
  exact (fun A p guard strict body a s' Hl E He pre post Hs =>
    xprog_pair_agree A p guard strict body a s' Hl
      ltac:(rewrite !zlen_app in Hs; pose proof (zlen_nonneg pre); pose proof (zlen_nonneg post); unfold two62; lia)
      E He pre post ltac:(unfold two62; lia)).
Qed.
Print Assumptions C03_delegating_pair_agree.

(* the programs of the first round are extended programs with the same runs *)
Theorem C03_sprog_embeds : forall A (p : sprog A), (local_prog p -> local_xprog (xprog_of_sprog p)) /\
  forall o s, run_xprog o (xprog_of_sprog p) s = run_sprog p s.
Proof. exact (fun A p => conj (xprog_of_sprog_local p) (xprog_of_sprog_run p)). Qed.
Print Assumptions C03_sprog_embeds.

(* EVERY registered box type (c03_decoder_facts is regenerated from the sources, keys_decoders from the running library, on every
   run) has a pair that is
     - delegating (shape checked by the extractor) with a position-relative SR decoder: C03_delegating_pair_agree applies; or
       delegating and named: DecodeVisualSampleEntry (C03_vse_pair_agree_canonical), DecodeTrep, DecodeWvtt (their pair theorems
       below), DecodeEvte, DecodeStpp (C03_xentry_pairs_agree_canonical), DecodeMeta (C03_meta_pair_agree_canonical) / the explored list
       c03_delegating_nonrelative_explored = esds sgpd;
     - a container twin (same text around DecodeContainerChildren / ...SR; KCont of C03_decode_agree_canonical), also when its SR
       decoder returns sr.AccError() instead of nil (edts sinf stbl: C03_twin_accerr_canonical);
     - moov / moof: the reader path reads the body and runs the text of the SR decoder on it, KContBody with the extracted flag;
     - a pure twin (neither decoder touches its reader, same text: emeb, vtte), a raw-body pair (readBoxBody / ReadBytes(payloadLen)
       + AccError into the same box: free, skip, cdat, styp; the opaque leaf std_r / std_sr of C03_std_canon_leaf) or a body-function
       pair (the same pure function of the body bytes on both paths: avcC hvcC av1C dac3 dec3 mdat; C03_bodyfn_pair_agree);
     - separately written and named: c03_separate_proved = trun senc stsd mfhd tfdt dref, audio sample entry (their pair theorems) or
       c03_separate_explored = (none).
   A reader-path decoder that is rewritten by hand leaves its class and breaks this theorem until it gets a pair model. *)
Theorem C03_all_pairs_classified :
  forall k, In k keys_decoders ->
    exists f, In f c03_decoder_facts /\ df_key f = k /\
      match df_class f with
      | CDelegating => df_relative f = true
                       \/ In (df_r f) c03_delegating_nonrelative_proved \/ In (df_r f) c03_delegating_nonrelative_explored
      | CContainerTwin => True
      | CContainerBody => std_kind k = KContBody (df_accerr f)
      | CPureTwin | CRawBody | CBodyFn => std_kind k = KLeaf
      | CSeparate => In (df_r f) c03_separate_proved \/ In (df_r f) c03_separate_explored
      end.
Proof. exact all_pairs_classified. Qed.
Print Assumptions C03_all_pairs_classified.

Theorem C03_facts_cover_registry : map df_key c03_decoder_facts = keys_decoders /\ map df_key c03_decoder_facts = keys_decoders_sr.
Proof. exact facts_cover_registry. Qed.
Print Assumptions C03_facts_cover_registry.

(* the dispatch table of the framing model used in the correspondence agrees with the classes found in the sources *)
Theorem C03_kinds_match : forallb kind_matches c03_decoder_facts = true.
Proof. exact kinds_match. Qed.
Print Assumptions C03_kinds_match.

(* encoders: every type with Encode and EncodeSW either writes EncodeSW's bytes (76 types: C03_enc_delegate_agree), is
   EncodeContainer / EncodeContainerSW or EncodeHeader / EncodeHeaderSW alone (C03_encode_agree), is the same text twice up to
   Encode <-> EncodeSW (File, MediaSegment, Fragment, InitSegment: C03_encode_agree; Av1CBox HvcCBox MoofBox: explored), or is
   separately written and named (MdatBox StsdBox VisualSampleEntryBox: C03_*_enc_agree; the explored list) *)
Theorem C03_all_encoders_classified :
  forall f, In f c03_encoder_facts ->
    match ef_class f with
    | EDelegating | EContainer | EHeader => True
    | EPrelude => In (ef_type f) c03_enc_prelude_proved
    | ETwinDeleg => True
    | ETwin => In (ef_type f) c03_enc_twin_proved \/ In (ef_type f) c03_enc_twin_explored
    | ESeparate => In (ef_type f) c03_enc_separate_proved \/ In (ef_type f) c03_enc_separate_explored
    end.
Proof. exact all_encoders_classified. Qed.
Print Assumptions C03_all_encoders_classified.

Theorem C03_enc_delegate_agree : forall size cap out,
  (forall bs, out = Some bs -> (N.of_nat (length bs) <= size)%N /\ (N.of_nat (length bs) <= cap)%N) ->
  enc_delegating_w size out = enc_direct_sw cap out.
Proof. exact enc_delegate_agree. Qed.
Print Assumptions C03_enc_delegate_agree.

(* the proviso is needed: a Size() smaller than what EncodeSW writes makes Encode fail where EncodeSW on a larger writer succeeds *)
Theorem C03_enc_delegate_size_needed : exists size cap out, enc_delegating_w size out <> enc_direct_sw cap out.
Proof. exact enc_delegate_size_needed. Qed.
Print Assumptions C03_enc_delegate_size_needed.

(* ---- third round: the per-moof second senc pass INSIDE the two file loops, each transcribed from its own Go text
   (mp4/file.go DecodeFile -> traf_body_r / moof_pass_r / decode_file_xr; mp4/boxsr.go DecodeFileSR -> traf_body_sr / moof_pass_sr /
   decode_file_xsr; the shared callees ContainsSencBox, IsEncrypted / GetSinf, ParseReadSenc, ParseReadBox are the C04 models).
   For every list of top-level boxes (C04 shape + size; a moov carries its tracks - tkhd id, clear / encrypted entry, tenc IV size -,
   a moof its trafs - tfhd id, saio, sbgp / sgpd, senc-like children) the two loops return the same File (grouping, StartPos) AND
   the same state of the picked senc of every traf of every moof, or both fail. *)
Theorem C03_file_agree_senc : forall o boxes, o_ism o = false -> o_lazy o = false ->
  decode_file_xsr o boxes = decode_file_xr o boxes.
Proof. exact file_agree_senc. Qed.
Print Assumptions C03_file_agree_senc.

(* the pass itself: same function on both paths; it visits EVERY traf, each judged on its own (clear track: untouched; encrypted or no
   moov: ParseReadSenc with the tenc / default IV size; no tfhd under a moov: error), and fails exactly at the first failing traf *)
Theorem C03_senc_pass_agree : forall fm start trafs,
  moof_pass_sr fm start trafs = moof_pass_r fm start trafs /\
  (forall l, moof_pass_r fm start trafs = Ok l <-> Forall2 (fun tr r => traf_spec fm start tr = Ok r) trafs l) /\
  (moof_pass_r fm start trafs = Err <->
   exists pre tr post rs, trafs = pre ++ tr :: post /\ Forall2 (fun t r => traf_spec fm start t = Ok r) pre rs /\ traf_spec fm start tr = Err).
Proof. exact (fun fm s trafs => conj (moof_passes_agree fm s trafs) (conj (senc_pass_all_trafs fm s trafs) (senc_pass_first_error fm s trafs))). Qed.
Print Assumptions C03_senc_pass_agree.

(* a `break` where `continue` was meant, on ONE path (a clear traf ends the SR loop): the theorem is false of that text - the traf of
   the encrypted track behind a clear one keeps its unparsed senc on the SR path only *)
Theorem C03_senc_pass_break_differs :
  moof_pass_r (Some brk_moov) 0 brk_trafs = Ok [None; Some (1, 0, 8)] /\
  moof_pass_sr (Some brk_moov) 0 brk_trafs = Ok [None; Some (1, 0, 8)] /\
  moof_pass_sr_break (Some brk_moov) 0 brk_trafs = Ok [None; None].
Proof. exact senc_pass_break_differs. Qed.
Print Assumptions C03_senc_pass_break_differs.

(* ---- third round: encode HISTORIES.  Encode (io.Writer) and EncodeSW (SliceWriter) of MoofBox, MdatBox, Fragment, MediaSegment and File
   as STATE TRANSFORMERS, one model function per Go text (C03EncHistModel.v) over the aggregate states of C02 (tfhd / trun flags and
   defaults, trun data offsets, mdat LargeSize, EncOptimize of fragments and segments; OptimizeTfhdTrun, SetTrunDataOffsets and
   MdatBox.Size exist once in Go and are the C02 models; opaque boxes are agreeing leaves).
   State AND output after Encode equal state and output after EncodeSW, for every state: *)
Theorem C03_encode_state_agree :
  (forall fr, hfrag_w fr = hfrag_sw fr) /\ (forall s, hseg_w s = hseg_sw s) /\ (forall f, hfile_w f = hfile_sw f) /\
  (forall m, hmoof_w m = hmoof_sw m) /\ (forall m, hmdat_w m = hmdat_sw m).
Proof. exact encode_pair_agree. Qed.
Print Assumptions C03_encode_state_agree.

(* hence for EVERY history - any interleaving of Encode, EncodeSW, Size, Info and ARBITRARY state changes in between (HApply g:
   additions of samples, optimisation switched on or off, ...) - on every File / MediaSegment / Fragment: two histories that differ
   only in which encoder is called at each encoding step (Encode then EncodeSW, EncodeSW twice, ...) give the same outcome at every
   step and the same final state *)
Theorem C03_encode_history_agree :
  (forall h1 h2 (f : C02AggModel.afile), same_history h1 h2 -> run_hhist hfile_agg f h1 = run_hhist hfile_agg f h2) /\
  (forall h1 h2 (s : C02AggModel.aseg), same_history h1 h2 -> run_hhist hseg_agg s h1 = run_hhist hseg_agg s h2) /\
  (forall h1 h2 (fr : C02AggModel.afrag), same_history h1 h2 -> run_hhist hfrag_agg fr h1 = run_hhist hfrag_agg fr h2).
Proof. exact encode_history_agree. Qed.
Print Assumptions C03_encode_history_agree.

(* composition with C02: the histories of the C02 aggregate model (one function for both encoders) are histories of the two-text
   model, and C02_history_file holds for it: once an Encode OR an EncodeSW has succeeded on a well-formed File, every later Size /
   Info / Encode / EncodeSW, through either text, answers with the same boxes and their total length *)
Theorem C03_encode_history_c02 :
  (forall ops f, run_hhist hfile_agg f (map hop_of_aop ops) = C02AggModel.run_hist C02AggModel.afile_step f ops) /\
  (forall ops s, run_hhist hseg_agg s (map hop_of_aop ops) = C02AggModel.run_hist C02AggModel.aseg_step s ops) /\
  (forall ops fr, run_hhist hfrag_agg fr (map hop_of_aop ops) = C02AggModel.run_hist C02AggModel.afrag_step fr ops) /\
  (forall f ops1 o ops2 f1 f2 boxes,
     snd (run_hhist hfile_agg f (map hop_of_aop ops1)) = f1 -> ~ In C02AggModel.OutPanic (fst (run_hhist hfile_agg f (map hop_of_aop ops1))) ->
     (o = C02AggModel.OpEncode \/ o = C02AggModel.OpEncodeSW) -> hstep hfile_agg f1 (hop_of_aop o) = (f2, C02AggModel.OutBytes boxes) ->
     C02AggFileProofs.afile_wf f1 = true ->
     run_hhist hfile_agg f (map hop_of_aop (ops1 ++ o :: ops2)) =
       (fst (run_hhist hfile_agg f (map hop_of_aop ops1)) ++ C02AggModel.OutBytes boxes ::
          map (C02AggFragProofs.expected boxes (lenN (concat boxes))) ops2, f2)).
Proof.
  exact (conj (proj1 history_refines_c02) (conj (proj1 (proj2 history_refines_c02)) (conj (proj2 (proj2 history_refines_c02)) encode_history_settles))).
Qed.
Print Assumptions C03_encode_history_c02.

(* a stale trun data offset on ONE encoder: an EncodeSW that sets the offsets only while one is unset agrees with Encode on every single
   encoding of a fresh fragment, and is refuted by EncodeSW, one more sample, EncodeSW (offset 133 kept where 149 is due) *)
Theorem C03_encode_stale_offset_refuted :
  same_history stale_hist_sw stale_hist_w /\
  first_doff (snd (run_hhist hfrag_agg (C02AggExamples.ex_frag false) stale_hist_sw)) = Some 149%Z /\
  first_doff (snd (run_hhist hfrag_agg (C02AggExamples.ex_frag false) stale_hist_w)) = Some 149%Z /\
  first_doff (snd (run_hhist hfrag_agg_stale (C02AggExamples.ex_frag false) stale_hist_w)) = Some 149%Z /\
  first_doff (snd (run_hhist hfrag_agg_stale (C02AggExamples.ex_frag false) stale_hist_sw)) = Some 133%Z.
Proof. exact stale_offset_refuted. Qed.
Print Assumptions C03_encode_stale_offset_refuted.

(* ---- third round: shrinking the explored-only lists ----
   BODY-FUNCTION pairs (class CBodyFn, found by the extractor: avcC hvcC av1C dac3 dec3, and mdat): reader path = readBoxBody, then a pure
   function F of the body; SR path = the same F of sr.ReadBytes(hdr.payloadLen()), with or without a test of the accumulated error
   in between.  With the body present - wherever it sits in the caller's buffer, whatever follows - the SR decoder returns what the
   reader-path decoder returns, stands at the end of the body, and has no accumulated error; with the body cut short the variant WITH
   the test fails (as readBoxBody does), the variant without it hands F the empty slice and leaves the error set. *)
Theorem C03_bodyfn_pair_agree : forall A (F : list N -> res A) check_acc body pre post, (zlen (pre ++ body ++ post) < two63)%Z ->
  bodyfn_sr F check_acc (zlen body) (mkR (pre ++ body ++ post) (zlen pre) false)
  = match bodyfn_r F body with
    | Ok a => Ok (a, mkR (pre ++ body ++ post) (zlen pre + zlen body)%Z false)
    | Err => Err | Panic => Panic | OutOfFuel => OutOfFuel
    end.
Proof. exact (fun A F => bodyfn_pair_agree F). Qed.
Print Assumptions C03_bodyfn_pair_agree.

Theorem C03_bodyfn_short : forall A (F : list N -> res A) check_acc n buf pos, (0 <= pos)%Z -> (zlen buf - pos < n)%Z -> (zlen buf < two63)%Z ->
  bodyfn_sr F check_acc n (mkR buf pos false) =
  if check_acc then Err else match F [] with Ok a => Ok (a, mkR buf pos true) | Err => Err | Panic => Panic | OutOfFuel => OutOfFuel end.
Proof. exact (fun A F => bodyfn_short F). Qed.
Print Assumptions C03_bodyfn_short.

(* container twins whose SR decoder ends `return b, sr.AccError()` (edts sinf stbl): on a canonical box, at ANY position of the
   caller's buffer (so at any nesting depth) and whatever follows, the test never fires: the decoder is the KCont decoder of
   C03_decode_agree_canonical, and the reader is left without accumulated error at the end of the box *)
Theorem C03_twin_accerr_canonical : forall ld c, cwf ld c -> fits c ->
  forall fuel sp pre post cst, (zlen (pre ++ cenc c ++ post) < two63)%Z -> (sp + lenN (cenc c) < 18446744073709551616)%N ->
    twin_accerr_sr ld fuel sp (sr_at (pre ++ cenc c ++ post) (zlen pre) cst) = dec_box_sr ld fuel sp (sr_at (pre ++ cenc c ++ post) (zlen pre) cst) /\
    (fst (dec_box_sr ld fuel sp (sr_at (pre ++ cenc c ++ post) (zlen pre) cst)) = OutOfFuel \/
     (fst (dec_box_sr ld fuel sp (sr_at (pre ++ cenc c ++ post) (zlen pre) cst)) = Ok (erase c) /\
      rerr (sr (snd (dec_box_sr ld fuel sp (sr_at (pre ++ cenc c ++ post) (zlen pre) cst)))) = false)).
Proof. exact twin_accerr_canonical. Qed.
Print Assumptions C03_twin_accerr_canonical.

(* SencBox.Encode = `s.setSubSamplesUsedFlag(); <delegation pattern>` and EncodeSW starts with the same call (class EPrelude): same final
   state and same bytes for EVERY idempotent prelude, provided Size() after the prelude covers what is written; instantiated with the C02
   model of setSubSamplesUsedFlag, which is idempotent (C02AggSencProofs.senc_setflag_idem) *)
Theorem C03_enc_prelude_agree :
  (forall S (p : S -> S) size out cap s, (forall x, p (p x) = p x) ->
     (forall bs, out (p s) = Some bs -> (N.of_nat (length bs) <= size (p s))%N /\ (N.of_nat (length bs) <= cap)%N) ->
     enc_prelude_w p size out s = enc_prelude_sw p cap out s) /\
  (forall size out cap s,
     (forall bs, out (C02AggSencModel.senc_setflag s) = Some bs ->
        (N.of_nat (length bs) <= size (C02AggSencModel.senc_setflag s))%N /\ (N.of_nat (length bs) <= cap)%N) ->
     enc_prelude_w C02AggSencModel.senc_setflag size out s = enc_prelude_sw C02AggSencModel.senc_setflag cap out s).
Proof.
  exact (conj (fun S p size out cap s => enc_prelude_agree p size out cap s)
              (fun size out cap s H => enc_prelude_agree C02AggSencModel.senc_setflag size out cap s C02AggSencProofs.senc_setflag_idem H)).
Qed.
Print Assumptions C03_enc_prelude_agree.

(* ---- more pairs modelled on both sides (C03PfxModel.v): payload = fixed bytes, then child boxes ----
   dref (DecodeDref: binary.Read x2 + DecodeContainerChildren on r + EntryCount test / DecodeDrefSR) and trep (DecodeTrep: readBoxBody, then
   DecodeTrepSR on a private reader / DecodeTrepSR): on every canonical payload - version/flags word, second word (the number of
   children for dref, any TrackID for trep), canonical children decoded by ANY leaf pair satisfying the leaf contract -, wherever it
   sits and whatever follows, both decoders accept with the same value, and Size() = 8 + len payload *)
Theorem C03_counted_pairs_agree_canonical :
  (forall ld, leaf_ok ld -> forall nm vf kids,
     (vf < 4294967296)%N -> Forall (cwf ld) kids -> (lenN (be4 vf ++ be4 (lenN kids) ++ cencs kids) < 4294967288)%N ->
     forall pre post cst cst2 fuel,
     (zlen (pre ++ (be4 vf ++ be4 (lenN kids) ++ cencs kids) ++ post) < two63)%Z ->
     (zlen (pre ++ (be4 vf ++ be4 (lenN kids) ++ cencs kids) ++ post) - zlen pre < Z.of_nat fuel)%Z ->
     let v := mkStsd (vf / 16777216) (N.land vf flags_mask) (lenN kids) (map erase kids) in
     let h := mkH nm (8 + lenN (be4 vf ++ be4 (lenN kids) ++ cencs kids)) 8 in
     fst (dref_sr ld fuel h 0 (mkS (mkR (pre ++ (be4 vf ++ be4 (lenN kids) ++ cencs kids) ++ post) (zlen pre) false) cst)) = Ok v /\
     fst (dref_r ld fuel h 0 (mkI (pre ++ (be4 vf ++ be4 (lenN kids) ++ cencs kids) ++ post) (lenN pre) cst2)) = Ok v /\
     stsd_size v = (8 + lenN (be4 vf ++ be4 (lenN kids) ++ cencs kids))%N) /\
  (forall ld, leaf_ok ld -> forall nm vf tid kids,
     (vf < 4294967296)%N -> (tid < 4294967296)%N -> Forall (cwf ld) kids -> (lenN (be4 vf ++ be4 tid ++ cencs kids) < 4294967288)%N ->
     forall pre post cst cst2 fuel,
     (zlen (pre ++ (be4 vf ++ be4 tid ++ cencs kids) ++ post) < two63)%Z ->
     (zlen (pre ++ (be4 vf ++ be4 tid ++ cencs kids) ++ post) - zlen pre < Z.of_nat fuel)%Z ->
     let v := mkStsd (vf / 16777216) (N.land vf flags_mask) tid (map erase kids) in
     let h := mkH nm (8 + lenN (be4 vf ++ be4 tid ++ cencs kids)) 8 in
     fst (trep_sr ld fuel h 0 (mkS (mkR (pre ++ (be4 vf ++ be4 tid ++ cencs kids) ++ post) (zlen pre) false) cst)) = Ok v /\
     fst (trep_r ld fuel h 0 (mkI (pre ++ (be4 vf ++ be4 tid ++ cencs kids) ++ post) (lenN pre) cst2)) = Ok v /\
     stsd_size v = (8 + lenN (be4 vf ++ be4 tid ++ cencs kids))%N).
Proof. exact (conj dref_pair_agree_canonical trep_pair_agree_canonical). Qed.
Print Assumptions C03_counted_pairs_agree_canonical.

(* wvtt (DecodeWvtt: readBoxBody + private reader / DecodeWvttSR: 8 fixed bytes, `for pos < endPos` DecodeBoxSR) and the audio sample entries
   mp4a enca ac-3 ec-3 (DecodeAudioSampleEntry: readBoxBody, 28 fixed bytes on a private reader, then the READER-path DecodeBox on the rest
   until io.EOF / DecodeAudioSampleEntrySR: 28 fixed bytes, `for pos < lastPos` DecodeBoxSR): on every canonical payload (ANY fixed bytes
   of that length, canonical children) both decoders accept with the same fields and children, Size() = 8 + len payload *)
Theorem C03_entry_pairs_agree_canonical :
  (forall ld, leaf_ok ld -> forall nm fx kids,
     length fx = 8%nat -> Forall (cwf ld) kids -> (lenN (fx ++ cencs kids) < 4294967288)%N ->
     forall pre post cst cst2 fuel,
     (zlen (pre ++ (fx ++ cencs kids) ++ post) < two63)%Z -> (zlen ((fx ++ cencs kids) ++ post) + 1 < Z.of_nat fuel)%Z ->
     exists dri,
       fst (wvtt_sr ld fuel (mkH nm (8 + lenN (fx ++ cencs kids)) 8) 0 (mkS (mkR (pre ++ (fx ++ cencs kids) ++ post) (zlen pre) false) cst)) = Ok (dri, map erase kids) /\
       fst (wvtt_r ld fuel (mkH nm (8 + lenN (fx ++ cencs kids)) 8) 0 (mkI (pre ++ (fx ++ cencs kids) ++ post) (lenN pre) cst2)) = Ok (dri, map erase kids) /\
       wvtt_size (dri, map erase kids) = (8 + lenN (fx ++ cencs kids))%N) /\
  (forall ld, leaf_ok ld -> forall nm fx kids,
     length fx = 28%nat -> Forall (cwf ld) kids -> (lenN (fx ++ cencs kids) < 4294967288)%N ->
     forall pre post cst cst2 fuel,
     (zlen (pre ++ (fx ++ cencs kids) ++ post) < two63)%Z -> (zlen ((fx ++ cencs kids) ++ post) + 1 < Z.of_nat fuel)%Z ->
     exists a,
       fst (ase_sr ld fuel (mkH nm (8 + lenN (fx ++ cencs kids)) 8) 0 (mkS (mkR (pre ++ (fx ++ cencs kids) ++ post) (zlen pre) false) cst)) = Ok (a, map erase kids) /\
       fst (ase_r ld fuel (mkH nm (8 + lenN (fx ++ cencs kids)) 8) 0 (mkI (pre ++ (fx ++ cencs kids) ++ post) (lenN pre) cst2)) = Ok (a, map erase kids) /\
       ase_size (a, map erase kids) = (8 + lenN (fx ++ cencs kids))%N).
Proof. exact (conj wvtt_pair_agree_canonical ase_pair_agree_canonical). Qed.
Print Assumptions C03_entry_pairs_agree_canonical.

(* evte and stpp (both reader-path decoders: readBoxBody + private reader; SR decoders: a prefix, the test of the accumulated error, then
   `for { rest := payloadLen - (sr.GetPos() - initPos); if rest <= 0 { break }; DecodeBoxSR(pos, sr) ... }`, return sr.AccError()).
   The prefix is a LOCAL extended reader program (the hypothesis of C03_delegate_sound_ext; for stpp: two fixed reads, then up to three
   zero-terminated strings whose maximal lengths are computed from payloadLen and the position relative to the entry).
   evte: on EVERY payload of 8 bytes followed by canonical children both decoders accept with the same value;
   stpp: on every payload fx ++ canonical children such that the prefix, run on the private reader over the payload, ends without
   error exactly behind fx (the strings are terminated inside fx), both decoders accept with the same strings and children.
   Buffers below 2^62 bytes. *)
Theorem C03_xentry_pairs_agree_canonical :
  (forall ld, leaf_ok ld -> forall nm fx kids,
     length fx = 8%nat -> Forall (cwf ld) kids -> (lenN (fx ++ cencs kids) < 4294967288)%N ->
     forall pre post cst cst2 fuel,
     (zlen (pre ++ (fx ++ cencs kids) ++ post) < 4611686018427387904)%Z -> (zlen ((fx ++ cencs kids) ++ post) + 1 < Z.of_nat fuel)%Z ->
     exists dri,
       fst (evte_sr ld fuel (mkH nm (8 + lenN (fx ++ cencs kids)) 8) 0 (mkS (mkR (pre ++ (fx ++ cencs kids) ++ post) (zlen pre) false) cst)) = Ok (dri, map erase kids) /\
       fst (evte_r ld fuel (mkH nm (8 + lenN (fx ++ cencs kids)) 8) 0 (mkI (pre ++ (fx ++ cencs kids) ++ post) (lenN pre) cst2)) = Ok (dri, map erase kids) /\
       evte_size (dri, map erase kids) = (8 + lenN (fx ++ cencs kids))%N) /\
  (forall ld, leaf_ok ld -> forall nm fx kids a,
     Forall (cwf ld) kids -> (lenN (fx ++ cencs kids) < 4294967288)%N ->
     run_xprog 0 (stpp_prog (Z.of_N (lenN (fx ++ cencs kids)))) (rnew (fx ++ cencs kids)) = Ok (a, mkR (fx ++ cencs kids) (zlen fx) false) ->
     forall pre post cst cst2 fuel,
     (zlen (pre ++ (fx ++ cencs kids) ++ post) < 4611686018427387904)%Z -> (zlen ((fx ++ cencs kids) ++ post) + 1 < Z.of_nat fuel)%Z ->
     fst (stpp_sr ld fuel (mkH nm (8 + lenN (fx ++ cencs kids)) 8) 0 (mkS (mkR (pre ++ (fx ++ cencs kids) ++ post) (zlen pre) false) cst)) = Ok (a, map erase kids) /\
     fst (stpp_r ld fuel (mkH nm (8 + lenN (fx ++ cencs kids)) 8) 0 (mkI (pre ++ (fx ++ cencs kids) ++ post) (lenN pre) cst2)) = Ok (a, map erase kids) /\
     sum_sizes (map erase kids) (8 + lenN fx) = (8 + lenN (fx ++ cencs kids))%N) /\
  (forall plen, local_xprog (evte_prog plen) /\ local_xprog (stpp_prog plen)).
Proof. exact (conj evte_pair_agree_canonical (conj stpp_pair_agree_canonical (fun plen => conj (evte_prog_local plen) (stpp_prog_local plen)))). Qed.
Print Assumptions C03_xentry_pairs_agree_canonical.

(* meta (DecodeMeta: readBoxBody + private reader / DecodeMetaSR: `sr.LookAhead(4, 4 bytes)` when the payload has 8 bytes or more; "hdlr" there means
   a QuickTime atom - children at once -, anything else the ISO form - version/flags word, then children).  ISO: canonical children whose first
   four bytes (the size field of the first child) do not spell "hdlr"; QuickTime: canonical children, the first one named hdlr.  In both
   forms, wherever the box sits and whatever follows, LookAhead sees the same bytes on both readers and both decoders accept with the same
   value; Size() = 8 + len payload *)
Theorem C03_meta_pair_agree_canonical : forall ld, leaf_ok ld -> forall nm kids, Forall (cwf ld) kids ->
  (forall vf, (vf < 4294967296)%N -> (lenN (be4 vf ++ cencs kids) < 4294967288)%N ->
     eqb_name (firstn 4 (cencs kids)) name_hdlr = false ->
     forall pre post cst cst2 fuel,
     (zlen (pre ++ (be4 vf ++ cencs kids) ++ post) < two63)%Z -> (zlen (pre ++ (be4 vf ++ cencs kids) ++ post) - zlen pre < Z.of_nat fuel)%Z ->
     let v := mkMeta false (vf / 16777216) (N.land vf flags_mask) (map erase kids) in
     let h := mkH nm (8 + lenN (be4 vf ++ cencs kids)) 8 in
     fst (meta_sr ld fuel h 0 (mkS (mkR (pre ++ (be4 vf ++ cencs kids) ++ post) (zlen pre) false) cst)) = Ok v /\
     fst (meta_r ld fuel h 0 (mkI (pre ++ (be4 vf ++ cencs kids) ++ post) (lenN pre) cst2)) = Ok v /\
     meta_size v = (8 + lenN (be4 vf ++ cencs kids))%N) /\
  ((lenN (cencs kids) < 4294967288)%N -> eqb_name (firstn 4 (skipn 4 (cencs kids))) name_hdlr = true ->
     forall pre post cst cst2 fuel,
     (zlen (pre ++ cencs kids ++ post) < two63)%Z -> (zlen (pre ++ cencs kids ++ post) - zlen pre + 1 < Z.of_nat fuel)%Z ->
     let v := mkMeta true 0 0 (map erase kids) in
     let h := mkH nm (8 + lenN (cencs kids)) 8 in
     fst (meta_sr ld fuel h 0 (mkS (mkR (pre ++ cencs kids ++ post) (zlen pre) false) cst)) = Ok v /\
     fst (meta_r ld fuel h 0 (mkI (pre ++ cencs kids ++ post) (lenN pre) cst2)) = Ok v /\
     meta_size v = (8 + lenN (cencs kids))%N).
Proof. exact meta_pair_agree_canonical. Qed.
Print Assumptions C03_meta_pair_agree_canonical.

(* the encoder pairs DrefBox, TrepBox, WvttBox, AudioSampleEntryBox: header, fixed bytes, every child - Encode = EncodeSW given children
   that agree, and the box is then an agreeing leaf of C03_box_encode_agree / C03_encode_agree *)
Theorem C03_pfx_enc_agree : forall nm size fixed kids, agree_list kids = true ->
  pfx_enc_w nm size fixed kids = pfx_enc_sw nm size fixed kids /\
  agree (ELeaf (pfx_enc_w nm size fixed kids) (pfx_enc_sw nm size fixed kids)) = true.
Proof. exact (fun nm s f k H => conj (pfx_enc_agree nm s f k H) (pfx_leaf_agrees nm s f k H)). Qed.
Print Assumptions C03_pfx_enc_agree.

(* HvcCBox / Av1CBox (class ETwinDeleg: the same text twice, a header and ONE inner Encode / EncodeSW of a concrete type whose Encode is
   the delegation pattern - hevc.DecConfRec, av1.CodecConfRec): equal bytes provided the record's Size() covers what its EncodeSW writes *)
Theorem C03_confrec_enc_agree : forall hdr isize cap out,
  (forall bs, out = Some bs -> (N.of_nat (length bs) <= isize)%N /\ (N.of_nat (length bs) <= cap)%N) ->
  confrec_enc_w hdr isize out = confrec_enc_sw hdr cap out.
Proof. exact confrec_enc_agree. Qed.
Print Assumptions C03_confrec_enc_agree.

(* ---- non-vacuity ---- *)
Example ex_tree : ebox :=
  ECont [109;111;111;102]%N 24 [ECont [116;114;97;102]%N 8 []; ELeaf (Ok [0;0;0;8;102;114;101;101]%N) (Ok [0;0;0;8;102;114;101;101]%N)].
Example ex_tree_agree : agree ex_tree = true.
Proof. reflexivity. Qed.
Example ex_tree_bytes : enc_w ex_tree = Ok [0;0;0;24;109;111;111;102; 0;0;0;8;116;114;97;102; 0;0;0;8;102;114;101;101]%N.
Proof. vm_compute. reflexivity. Qed.
Example ex_registry_nonempty : (100 <? length keys_decoders)%nat = true.
Proof. vm_compute. reflexivity. Qed.
Example ex_file_agree :
  decode_file_sr (mkO true false false false) [(TStyp, 20); (TMoof [mkTraf true None None [TrunOffset]], 68); (TMdat 4, 12)]
  = Ok (mkF false None None None [] None false
            [mkSeg true 0 [mkFrag (Some [mkTraf true None None [TrunOffset]]) true
                                  [FCMdat; FCMoof [mkTraf true None None [TrunOffset]]] 20] 0]
            [TMdat 4; TMoof [mkTraf true None None [TrunOffset]]; TStyp] true).
Proof. vm_compute. reflexivity. Qed.

Example ex_ctree : ctree := CNode name_moof [CNode name_traf []; CLeaf name_free [7]%N; CLarge name_mdat [9;8]%N; CLeaf name_mdat [1;2;3]%N].
Example ex_ctree_fits : fits ex_ctree.
Proof. unfold fits. vm_compute. reflexivity. Qed.
Example ex_ctree_wf : cwf std_leaves ex_ctree.
Proof.
  assert (L : forall nm p, length nm = 4%nat -> std_kind nm = KLeaf -> (lenN p < 100)%N -> cwf std_leaves (CLeaf nm p)).
  { intros nm p H1 H2 H3. split; [exact H1|]. apply std_canon_leaf. split; [exact H1|]. split; [exact H2|].
    split; [lia|]. intros _. unfold max_normal_payload. lia. }
  cbn [cwf ex_ctree]. split; [reflexivity|]. split; [reflexivity|].
  split. { split; [reflexivity|]. split; [reflexivity|exact I]. }
  split. { apply L; reflexivity. }
  split. { split; [reflexivity|]. apply std_canon_large. split; [reflexivity|]. split; [reflexivity|]. split; reflexivity. }
  split. { apply L; reflexivity. }
  exact I.
Qed.
Example ex_ctree_bytes : cenc ex_ctree =
  [0;0;0;54;109;111;111;102; 0;0;0;8;116;114;97;102; 0;0;0;9;102;114;101;101;7;
   0;0;0;1;109;100;97;116;0;0;0;0;0;0;0;18;9;8; 0;0;0;11;109;100;97;116;1;2;3]%N.
Proof. vm_compute. reflexivity. Qed.
(* a progressive file: free, mdat behind a largesize header, free: both byte-level file loops give sizes 9, 18, 8 *)
Example ex_large_file : fst (file_sr std_leaves (cencs [CLeaf name_free [7]%N; CLarge name_mdat [9;8]%N; CLeaf name_free []]))
  = Ok [Leaf name_free 9; Leaf name_mdat 18; Leaf name_free 8]
  /\ fst (file_r std_leaves (cencs [CLeaf name_free [7]%N; CLarge name_mdat [9;8]%N; CLeaf name_free []]))
  = Ok [Leaf name_free 9; Leaf name_mdat 18; Leaf name_free 8].
Proof. split; vm_compute; reflexivity. Qed.

(* a trun box (flags 0x301: data offset, duration, size; 2 samples) followed by junk: accepted by both model decoders *)
Example ex_trun_body : list N := [0;0;3;1; 0;0;0;2; 0;0;0;100; 0;0;4;0; 0;0;0;9; 0;0;4;0; 0;0;0;7]%N.
Example ex_trun_box : leafbox_r (framed name_trun ex_trun_body [1;2;3]%N)
  = Ok (LTrun (mkTrun 0 769 100 0 [mkTS 0 1024 9 0; mkTS 0 1024 7 0]), 36).
Proof. vm_compute. reflexivity. Qed.
Example ex_trun_box_sr : leafbox_sr (framed name_trun ex_trun_body [1;2;3]%N)
  = Ok (LTrun (mkTrun 0 769 100 0 [mkTS 0 1024 9 0; mkTS 0 1024 7 0]), 36%Z, false).
Proof. vm_compute. reflexivity. Qed.
Example ex_senc_box : leafbox_r (framed name_senc [0;0;0;2; 0;0;0;1; 0;1; 0;5;0;0;0;9]%N [])
  = Ok (LSenc (mkSenc 0 2 1 [0;1; 0;5;0;0;0;9]%N 24 true), 24).
Proof. vm_compute. reflexivity. Qed.

(* a fragment: moof{traf{trun, senc}} followed by an mdat behind a 16-byte header, leaves decoded by the pair models *)
Example ex_senc_body : list N := [0;0;0;2; 0;0;0;1; 0;1; 0;5;0;0;0;9]%N.
Example ex_frag : list ctree :=
  [CNode name_moof [CNode name_traf [CLeaf name_trun ex_trun_body; CLeaf name_senc ex_senc_body]]; CLarge name_mdat [1;2;3;4]%N].
Example ex_frag_wf : Forall (cwf pair_leaves) ex_frag.
Proof.
  constructor; [|constructor; [|constructor]].
  - cbn [cwf]. split; [reflexivity|]. split; [reflexivity|]. split; [|exact I].
    split; [reflexivity|]. split; [reflexivity|]. split; [|split; [|exact I]].
    + split; [reflexivity|]. eapply pair_canon_trun; [vm_compute; reflexivity|vm_compute; reflexivity].
    + split; [reflexivity|]. eapply pair_canon_senc; [vm_compute; split; [discriminate|reflexivity]|vm_compute; reflexivity].
  - cbn [cwf]. split; [reflexivity|]. apply pair_canon_large_mdat. vm_compute. reflexivity.
Qed.
Example ex_frag_trees : map erase ex_frag = [Node name_moof [Node name_traf [Leaf name_trun 36; Leaf name_senc 24]]; Leaf name_mdat 20].
Proof. vm_compute. reflexivity. Qed.

(* an stsd with two entries (unknown sample entry types carried as opaque canonical leaves) decodes to the same value on both paths *)
Example ex_stsd_kids : list ctree := [CLeaf [122;122;122;122]%N [1;2;3]%N; CLeaf [97;98;99;100]%N []].
Example ex_stsd_wf : Forall (cwf pair_leaves) ex_stsd_kids.
Proof.
  constructor; [|constructor; [|constructor]]; (split; [reflexivity|]); apply pair_canon_std; try reflexivity;
    (split; [reflexivity|]); (split; [reflexivity|]); (split; [vm_compute; reflexivity|]); intros H; discriminate H.
Qed.
Example ex_stsd_val : stsd_val 0 2 ex_stsd_kids = mkStsd 0 0 2 [Leaf [122;122;122;122]%N 11; Leaf [97;98;99;100]%N 8].
Proof. vm_compute. reflexivity. Qed.

(* an avc1 entry: 78 fixed bytes (compressor name "ab"), one child: both model decoders, concretely *)
Example ex_vse_fixed : list N := repeat 0%N 6 ++ [0;1]%N ++ repeat 0%N 16 ++ [1;64; 0;240; 0;72;0;0; 0;72;0;0; 0;0;0;0; 0;1]%N ++ [2]%N
  ++ [97;98]%N ++ repeat 0%N 29 ++ [0;24; 255;255]%N.
Example ex_vse_len : length ex_vse_fixed = 78%nat.
Proof. reflexivity. Qed.
Example ex_vse_box : entbox_sr (be4 (8 + 78 + 9) ++ name_avc1 ++ ex_vse_fixed ++ cenc (CLeaf name_free [5]%N))
  = Ok (EVse (mkVse 1 320 240 4718592 4718592 1 [97;98]%N [Leaf name_free 9]), 95%Z, false).
Proof. vm_compute. reflexivity. Qed.
Example ex_vse_box_r : entbox_r (be4 (8 + 78 + 9) ++ name_avc1 ++ ex_vse_fixed ++ cenc (CLeaf name_free [5]%N))
  = Ok (EVse (mkVse 1 320 240 4718592 4718592 1 [97;98]%N [Leaf name_free 9]), 95%N).
Proof. vm_compute. reflexivity. Qed.

(* MdatBox with LargeSize: the 16-byte header is kept by both encoders *)
Example ex_mdat_enc : mdat_enc_w (mkMdat [9;8]%N true) = Ok [0;0;0;1;109;100;97;116;0;0;0;0;0;0;0;18;9;8]%N
  /\ mdat_enc_sw (mkMdat [9;8]%N true) = Ok [0;0;0;1;109;100;97;116;0;0;0;0;0;0;0;18;9;8]%N.
Proof. split; vm_compute; reflexivity. Qed.

(* a tfdt-like decoder (version/flags, then a 64-bit or 32-bit time depending on the version) is a local program ... *)
Example ex_prog : sprog N :=
  SOp RU32 (fun vf => match vf with
                      | VN x => if (x / 16777216 =? 1)%N then SOp RU64 (fun t => match t with VN y => SRet y | _ => SFail end)
                                else SOp RU32 (fun t => match t with VN y => SRet y | _ => SFail end)
                      | _ => SFail end).
Example ex_prog_local : local_prog ex_prog.
Proof.
  split; [reflexivity|]. intros [x|z|l|l o|r|b0|]; try exact I. destruct (x / 16777216 =? 1)%N; (split; [reflexivity|]); intros [y|z|l|l o|r|b0|]; exact I.
Qed.
Example ex_prog_run : run_sprog ex_prog (rnew [1;0;0;0; 0;0;0;0;0;0;1;0]%N) = Ok (256%N, mkR [1;0;0;0; 0;0;0;0;0;0;1;0]%N 12 false).
Proof. vm_compute. reflexivity. Qed.
(* ... and a decoder built on RemainingBytes (the pinned DecodeColrSR) is not: on the caller's reader it swallows the sibling *)
Example ex_nonlocal : run_sprog (SOp RRemaining (fun v => SRet v)) (rnew [1;2]%N) = Ok (VBytes [1;2]%N, mkR [1;2]%N 2 false)
  /\ run_sprog (SOp RRemaining (fun v => SRet v)) (mkR [9;1;2;7]%N 1 false) = Ok (VBytes [1;2;7]%N, mkR [9;1;2;7]%N 4 false).
Proof. split; vm_compute; reflexivity. Qed.

(* tfhd with base-data-offset, default duration and default flags; tfdt version 1: the private runs end without error *)
Example ex_tfhd_run : run_sprog tfhd_prog (rnew [0;0;0;41; 0;0;0;1; 0;0;0;0;0;0;1;0; 0;0;4;0; 1;1;0;0]%N)
  = Ok ([0; 41; 1; 256; 0; 1024; 0; 16842752]%N, mkR [0;0;0;41; 0;0;0;1; 0;0;0;0;0;0;1;0; 0;0;4;0; 1;1;0;0]%N 24 false).
Proof. vm_compute. reflexivity. Qed.
Example ex_tfdt_run : run_sprog tfdt_prog_sr (rnew [1;0;0;0; 0;0;0;1;0;0;0;0]%N)
  = Ok ([1; 0; 4294967296]%N, mkR [1;0;0;0; 0;0;0;1;0;0;0;0]%N 12 false).
Proof. vm_compute. reflexivity. Qed.

(* a kind-like decoder: version/flags, two zero-terminated strings whose maximal lengths are computed from the payload length and
   the position relative to the entry (clamped outside [0, 2^62), see local_xprog) is a local extended program ... *)
Example ex_xprog (plen : Z) : xprog (list N * list N) :=
  XOp RU32 (fun _ =>
    XOp (RZStr (if ((0 <=? plen) && (plen <? 2305843009213693952))%bool%Z then plen - 5 else 0)%Z) (fun a =>
      XRelPos (fun z => if ((0 <=? z) && (z <? 4611686018427387904))%bool%Z then
        XOp (RZStr (if ((0 <=? plen) && (plen <? 2305843009213693952))%bool%Z then plen - z else 0)%Z) (fun b =>
          match a, b with VBytes x, VBytes y => XRet (x, y) | _, _ => XFail end)
        else XFail))).
Example ex_xprog_local : forall plen, local_xprog (ex_xprog plen).
Proof.
  intros plen. split; [reflexivity|]. intros _. split.
  { cbn [local_xop]. unfold is_int, two63. destruct ((0 <=? plen) && (plen <? 2305843009213693952))%bool%Z eqn:E; lia. }
  intros a z. destruct ((0 <=? z) && (z <? 4611686018427387904))%bool%Z eqn:Ez; [|exact I]. split.
  { cbn [local_xop]. unfold is_int, two63. destruct ((0 <=? plen) && (plen <? 2305843009213693952))%bool%Z eqn:E; lia. }
  intros b. destruct a, b; exact I.
Qed.
Example ex_xprog_run : run_xprog 0 (ex_xprog 10) (rnew [0;0;0;0; 97;98;0; 99;100;0]%N)
  = Ok (([97;98], [99;100])%N, mkR [0;0;0;0; 97;98;0; 99;100;0]%N 10 false).
Proof. vm_compute. reflexivity. Qed.
(* ... the same decoder on the caller's reader, the body at offset 2 and a sibling after it *)
Example ex_xprog_run_framed : run_xprog 2 (ex_xprog 10) (mkR [7;7; 0;0;0;0; 97;98;0; 99;100;0; 5;5;5]%N 2 false)
  = Ok (([97;98], [99;100])%N, mkR [7;7; 0;0;0;0; 97;98;0; 99;100;0; 5;5;5]%N 12 false).
Proof. vm_compute. reflexivity. Qed.
(* the table is not trivially satisfied: at least 60 box types are covered by the delegation theorem, and some are not *)
Example ex_facts_nontrivial : (60 <=? count_cov CovDelegateSound c03_decoder_facts)%nat = true
  /\ (15 <=? count_cov CovFraming c03_decoder_facts)%nat = true /\ (1 <=? count_cov CovExplored c03_decoder_facts)%nat = true
  /\ existsb (fun f => negb (dec_ok (mkdec (df_key f) (df_s f) (df_s f) CSeparate false (df_relative f)))) c03_decoder_facts = true.
Proof. vm_compute. repeat split; reflexivity. Qed.

(* ftyp, moov{trak 1 clear, trak 2 encrypted (tenc IV 8)}, moof{traf 1: unparsed senc, traf 2: unparsed senc}, mdat: one segment, one
   fragment; the clear traf's senc stays as read, the encrypted one's is parsed (1 IV) - by both loops *)
Example ex_file_senc :
  decode_file_xsr (mkO true false false false)
    [mkXTop TFtyp 24 [] []; mkXTop (TMoov (MoovChain 5 0)) 600 brk_moov []; mkXTop (TMoof []) 200 [] brk_trafs; mkXTop (TMdat 8) 16 [] []]
  = Ok (mkF true (Some (MoovChain 5 0)) None (Some [ICFtyp; ICMoov]) [] None false
            [mkSeg false 0 [mkFrag (Some []) true [FCMdat; FCMoof []] 624] 624]
            [TMdat 8; TMoof []; TMoov (MoovChain 5 0); TFtyp] true,
        [[None; Some (1, 0, 8)]]).
Proof. vm_compute. reflexivity. Qed.

(* a segment-mode File with optimisation on: Encode, Size, EncodeSW, Info - three non-trivial outcomes, the same whichever encoder runs *)
Example ex_hist : same_history [HEncode; HSize; HEncodeSW; HInfo] [HEncodeSW; HSize; HEncode; HInfo] (S := C02AggModel.afile).
Proof. reflexivity. Qed.
Example ex_hist_run :
  map (fun o => match o with C02AggModel.OutBytes b => lenN (concat b) | C02AggModel.OutSize n => n | _ => 0 end)
      (fst (run_hhist hfile_agg C02AggExamples.ex_file [HEncode; HSize; HEncodeSW; HInfo])) = [313; 313; 313; 0].
Proof. vm_compute. reflexivity. Qed.

(* a dref with one (unknown-type) entry and an mp4a entry with one child, concretely through both model decoders *)
Example ex_dref_box : pfxbox_sr (be4 28 ++ name_dref ++ be4 0 ++ be4 1 ++ cenc (CLeaf [122;122;122;122]%N [1;2;3;4]%N))
  = Ok (PCnt (mkStsd 0 0 1 [Leaf [122;122;122;122]%N 12]), 28%Z, false)
  /\ pfxbox_r (be4 28 ++ name_dref ++ be4 0 ++ be4 1 ++ cenc (CLeaf [122;122;122;122]%N [1;2;3;4]%N))
  = Ok (PCnt (mkStsd 0 0 1 [Leaf [122;122;122;122]%N 12]), 28%N).
Proof. split; vm_compute; reflexivity. Qed.
Example ex_ase_box : pfxbox_r (be4 45 ++ [109;112;52;97]%N ++ ase_fixed 1 2 16 48000 ++ cenc (CLeaf name_free [5]%N))
  = Ok (PAse (mkAse 1 2 16 48000, [Leaf name_free 9]), 45%N).
Proof. vm_compute. reflexivity. Qed.

(* an stpp payload: namespace "ns", schema location "a", auxiliary mime types "" - the hypothesis of the stpp theorem holds:
   the prefix ends without error behind the 14 fixed bytes *)
Example ex_stpp_fx : list N := [0;0;0;0;0;0; 0;1; 110;115;0; 97;0; 0]%N.
Example ex_stpp_prefix :
  run_xprog 0 (stpp_prog (Z.of_N (lenN (ex_stpp_fx ++ cencs [CLeaf name_free [5]%N])))) (rnew (ex_stpp_fx ++ cencs [CLeaf name_free [5]%N]))
  = Ok (mkStpp 1 [110;115]%N [97]%N [] 0, mkR (ex_stpp_fx ++ cencs [CLeaf name_free [5]%N]) (zlen ex_stpp_fx) false).
Proof. vm_compute. reflexivity. Qed.
Example ex_stpp_box : pfxbox_sr (be4 31 ++ name_stpp ++ ex_stpp_fx ++ cenc (CLeaf name_free [5]%N))
  = Ok (PStpp (mkStpp 1 [110;115]%N [97]%N [] 0, [Leaf name_free 9]), 31%Z, false).
Proof. vm_compute. reflexivity. Qed.

(* a QuickTime meta atom: the payload starts with a box named hdlr (here an opaque canonical leaf of that name) *)
Example ex_meta_qt : metabox_sr (be4 21 ++ name_meta ++ cenc (CLeaf name_hdlr [1;2;3;4;5]%N))
  = Ok (mkMeta true 0 0 [Leaf name_hdlr 13], 21%Z, false).
Proof. vm_compute. reflexivity. Qed.

(* ------------------------------------------------------------------ sgpd (round 4): the SR decoder behind the table sgeDecoders *)
From V.c03 Require Import C03SgpdModel C03SgpdProofs.
(* DecodeSgpd is the delegation pattern; DecodeSgpdSR = sgpd_prog (C03SgpdModel.v: header fields, `for i < entryCount`, the entry decoders
   seig / roll / "rap " / unknown with their own length tests and `return e, sr.AccError()`; alst is NOT in the model, see there) is a local
   reader program for EVERY entry count.  Hence, for every body on which the private run of the reader path accepts: the reader path returns
   that value, and the SR decoder - the body sitting anywhere in the caller's buffer, any bytes before and after it - returns the same value,
   stops exactly at the end of what the private run read, and has no accumulated error.  Third conjunct: in terms of the reader path alone. *)
Theorem C03_sgpd_pair_agree :
  local_xprog sgpd_prog /\
  (forall body a s', run_xprog 0 sgpd_prog (rnew body) = Ok (a, s') -> rerr s' = false ->
     forall pre post, (zlen (pre ++ body ++ post) < 2305843009213693952)%Z ->
       xprog_body_r false true sgpd_prog body = Ok a /\
       xprog_sr false true sgpd_prog (mkR (pre ++ body ++ post) (zlen pre) false)
       = Ok (a, mkR (pre ++ body ++ post) (zlen pre + rpos s')%Z false)) /\
  (forall body a, xprog_body_r false true sgpd_prog body = Ok a ->
     forall pre post, (zlen (pre ++ body ++ post) < 2305843009213693952)%Z ->
       exists p', xprog_sr false true sgpd_prog (mkR (pre ++ body ++ post) (zlen pre) false)
                  = Ok (a, mkR (pre ++ body ++ post) p' false)).
Proof. exact (conj sgpd_prog_local (conj sgpd_pair_agree sgpd_reader_accepts_sr_accepts)). Qed.
Print Assumptions C03_sgpd_pair_agree.

(* the loop combinator of sgpd_prog is n-fold iteration (a body that only counts reaches the continuation with the count increased by n) *)
Theorem C03_sgpd_loop_counts : forall A n (st : N) (k : N -> xprog A), iter_N n (fun s k' => k' (s + 1)) st k = k (st + n).
Proof. exact (@iter_N_counts). Qed.
Print Assumptions C03_sgpd_loop_counts.

(* the hypotheses are satisfiable: a version-1 seig sgpd (DefaultLength 20, one entry: 36 body bytes read, Size() = 8 + 36) and a version-1
   roll sgpd with per-entry lengths (two entries) run to a value without accumulated error *)
Example ex_sgpd_seig_ok : exists a s', run_xprog 0 sgpd_prog (rnew ex_sgpd_seig) = Ok (a, s') /\ rerr s' = false /\
  rpos s' = 36%Z /\ length (sg_entries a) = 1%nat /\ sgpd_size a = 8 + lenN ex_sgpd_seig.
Proof. exact ex_sgpd_seig_runs. Qed.
Example ex_sgpd_roll_ok : exists a s', run_xprog 0 sgpd_prog (rnew ex_sgpd_roll) = Ok (a, s') /\ rerr s' = false /\
  sg_entries a = [SgRoll (-1); SgRoll 5] /\ sg_lens a = [2; 2] /\ sgpd_size a = 8 + lenN ex_sgpd_roll.
Proof. exact ex_sgpd_roll_runs. Qed.
