(* C20Theorems.v -- the property theorems of C20 and nothing else.  Each is closed by `exact <lemma>`
   and followed by Print Assumptions (audited by ./check on every run).
   What these theorems are NOT: a statement about the Go memory model or the race detector.  They are
   the footprint argument (all interleavings, given footprints), the policy on the package-level
   variables extracted from the sources on every run, and the footprint table of the API operations
   (validated against the code by harness/c20: aliasing observed by pointer range, SHA-256 of the
   shared inputs, the race detector). *)
From V.lib Require Import Base.
From Coq Require Import String.
From V.c20 Require Import C20Model C20Facts C20PkgVars C20Reach C20Alias C20AliasAudit C20SchedProofs C20ApiProofs C20FactsProofs C20ReachProofs C20AliasProofs C20LazyProofs.

(* if every op of goroutine t writes only cells of t and reads only cells of t or shared read-only
   locations, then EVERY interleaving is race-free, gives each goroutine its sequential result and
   leaves globals and inputs unchanged *)
Theorem C20_schedule_independence :
  forall (progs : thread -> list op) (s : list event) (h0 : heap),
    (forall t o, In o (progs t) -> respects o /\ local t o = true) ->
    is_interleaving s progs ->
    race_free s /\
    (forall t l, own t l = true -> run_sched s h0 l = run (progs t) h0 l) /\
    (forall l, shared_ro l = true -> run_sched s h0 l = h0 l).
Proof. exact schedule_independence. Qed.
Print Assumptions C20_schedule_independence.

(* the same at every intermediate point: after any prefix of any schedule a goroutine sees what it
   sees after the corresponding prefix of its own program *)
Theorem C20_prefix_independence :
  forall (s1 s2 : list event) (h0 : heap),
    all_local (s1 ++ s2) ->
    forall t l, own t l = true \/ shared_ro l = true -> run_sched s1 h0 l = run (proj t s1) h0 l.
Proof. exact prefix_independence. Qed.
Print Assumptions C20_prefix_independence.

(* package-level variables of bits avc hevc sei aac av1 mp4, regenerated from /repo on every run:
   all writers are initialisers, init, SetBoxDecoder, RemoveBoxDecoder; escapes are the audited ones;
   no sync / atomic / math/rand import; the three registries the table names exist *)
Theorem C20_pkg_vars_ok :
  forallb var_ok c20_pkg_vars = true /\
  forallb imports_ok c20_imports = true /\
  has_var c20_pkg_vars "mp4" "decoders" && has_var c20_pkg_vars "mp4" "decodersSR" &&
  has_var c20_pkg_vars "mp4" "sgeDecoders" = true.
Proof. exact pkg_vars_ok. Qed.
Print Assumptions C20_pkg_vars_ok.

Theorem C20_pkg_vars_writers :
  forall v u, In v c20_pkg_vars -> In u (v_uses v) -> is_write (u_kind u) = true ->
              In (u_fn u) allowed_writers.
Proof. exact pkg_vars_writers. Qed.
Print Assumptions C20_pkg_vars_writers.

(* call-graph facts regenerated from /repo on every run (C20Reach.v): for every operation of the footprint table,
   every package-level variable reachable from the library functions behind it is known, is never changed outside
   init / the registry mutators, and nothing is changed unless the operation is a registry mutator; the Global cells
   of the hand-written table cover what is reachable; every operation of the table has an entry; the only exported
   functions from which ANY change of a package-level variable is reachable are mp4.SetBoxDecoder and
   mp4.RemoveBoxDecoder (and they change the registries only); every reachable package-level value of reference type
   (map, slice, pointer, chan, interface, struct holding one such as sync.Pool / sync.Once) is one of the audited ones *)
Theorem C20_api_reach_ok :
  forallb (reach_entry_ok c20_pkg_vars) c20_api_reach = true /\
  forallb entry_covered c20_api_reach = true /\
  forallb (fun k => existsb (fun e => kind_eqb k (r_kind e)) c20_api_reach) all_kinds = true /\
  forallb xwriter_ok c20_exported_writers = true /\
  forallb (shared_ok c20_pkg_vars) c20_reachable_shared = true.
Proof. exact api_reach_ok. Qed.
Print Assumptions C20_api_reach_ok.

(* the same unfolded, for every operation with all its arguments, every goroutine and every aliasing state: the
   footprint the table gives the operation contains the cell of every package-level variable the current sources let
   it read or change; what it reads is only ever changed by init / SetBoxDecoder / RemoveBoxDecoder; operations other
   than the registry mutators change no package-level variable *)
Theorem C20_api_reach_covers :
  forall (a : api) (t : thread) (st : astate) (e : reach_entry),
    In e c20_api_reach -> r_kind e = kind_of a ->
    (forall v, In v (r_reads e) ->
       mem (Global (global_idx v)) (reads (api_op t st a)) = true /\
       exists p, find_var c20_pkg_vars v = Some p /\
                 forall u, In u (v_uses p) -> is_write (u_kind u) = true -> In (u_fn u) allowed_writers) /\
    (forall v, In v (r_writes e) -> mem (Global (global_idx v)) (writes (api_op t st a)) = true) /\
    (registry_free a = true -> r_writes e = []).
Proof. exact api_reach_covers. Qed.
Print Assumptions C20_api_reach_covers.

(* the hypotheses are satisfiable: the entry of DecodeFile exists and reaches the Reader registry *)
Example C20_api_reach_instance :
  exists e, In e c20_api_reach /\ r_kind e = kind_of (ADecode (SIn 0) 0) /\
            vname_in ("mp4", "decoders")%string (r_reads e) = true /\ r_writes e = [].
Proof. exact api_reach_instance. Qed.

(* aliasing facts regenerated from /repo on every run (C20Alias.v): the SliceReader methods that return views of the
   buffer, the functions with a SliceReader parameter whose result keeps such views (61 decoders), the exported functions
   returning views of a []byte argument and the exported functions writing bytes reachable from an argument are all in
   the audited lists (C20AliasAudit.v); every audited in-place mutator is an in-place operation of the table, every
   audited append is the table's ATouch *)
Theorem C20_alias_facts_ok :
  forallb (fun s => str_in s audited_view_sources) c20_view_sources = true /\
  forallb (fun k => str_in (fst k) audited_sr_keepers) c20_sr_keepers = true /\
  forallb (fun v => str_in v audited_byte_views) c20_byte_views = true /\
  forallb mutator_audited c20_mutators = true /\
  forallb (fun a => class_ok (snd a)) audited_mutators = true.
Proof. exact alias_facts_ok. Qed.
Print Assumptions C20_alias_facts_ok.

(* for all arguments, goroutines and aliasing states: an in-place operation writes the payload location of its operand and
   inplace_ok is exactly ownership of that location; applied to a payload the goroutine does not own it writes a location
   outside the goroutine (for a SliceReader view: the caller's input, findings F1-F9) *)
Theorem C20_inplace_guard_exact :
  forall a t st, kind_inplace (kind_of a) = true ->
    (exists o, mem (pl t st o) (writes (api_op t st a)) = true /\ inplace_ok t st a = own t (pl t st o)) /\
    (inplace_ok t st a = false -> exists l, own t l = false /\ mem l (writes (api_op t st a)) = true).
Proof. exact (fun a t st H => conj (inplace_kinds_guarded a t st H) (inplace_on_input_writes_it a t st H)). Qed.
Print Assumptions C20_inplace_guard_exact.

Example C20_inplace_guard_instance :
  kind_inplace (kind_of (ADecryptWith 2 (SObj 1))) = true /\
  inplace_ok 1 [(2%nat, Input 4)] (ADecryptWith 2 (SObj 1)) = false /\
  inplace_ok 1 [(2%nat, ownp 1 2)] (ADecryptWith 2 (SObj 1)) = true.
Proof. repeat split. Qed.

(* the lazy-mdat path of mp4/mdat.go (DecodeFile with DecModeLazyMdat, then MdatBox.ReadData through a ReadSeeker of the
   goroutine's own over the shared bytes).  After EVERY program prefix p of every goroutine, for every source (a shared
   input included) and all object ids: both operations satisfy the hypothesis of C20_schedule_independence with no guard,
   write no shared input, the bytes read are the goroutine's own, and every in-place operation of the table applied to them
   is allowed by the guard, local and writes no input.  No hypothesis: st_ok is proved as an invariant of the table. *)
Theorem C20_lazy_path_private :
  forall (t : thread) (p : list api) (s : src) (o d : nat),
    let st := final_state t [] p in
    let st1 := api_next t st (ADecodeLazy s o) in
    let st2 := lazy_st t st s o d in
    local t (api_op t st (ADecodeLazy s o)) = true /\
    local t (api_op t st1 (AReadData o s d)) = true /\
    input_ids (writes (api_op t st (ADecodeLazy s o))) = [] /\
    input_ids (writes (api_op t st1 (AReadData o s d))) = [] /\
    own t (pl t st2 d) = true /\
    (forall a, kind_inplace (kind_of a) = true -> api_target a = d ->
               inplace_ok t st2 a = true /\ local t (api_op t st2 a) = true /\
               input_ids (writes (api_op t st2 a)) = []).
Proof. exact lazy_path_private_reachable. Qed.
Print Assumptions C20_lazy_path_private.

(* the other branch of MdatBox.ReadData (mdat in memory: the result is m.Data[a:b:b]): after DecodeFileSR of a shared input
   the bytes read are a view of that input in every state; ReadData itself writes nothing, but every in-place operation on
   its result fails the guard and writes the input (same class as F1-F9) *)
Theorem C20_read_data_in_memory_view :
  forall (t : thread) (st : astate) (i : nat) (s : src) (o d : nat),
    let st2 := api_next t (api_next t st (ADecodeSR (SIn i) o)) (AReadData o s d) in
    pl t st2 d = Input i /\
    input_ids (writes (api_op t (api_next t st (ADecodeSR (SIn i) o)) (AReadData o s d))) = [] /\
    (forall a, kind_inplace (kind_of a) = true -> api_target a = d ->
               inplace_ok t st2 a = false /\ mem (Input i) (writes (api_op t st2 a)) = true).
Proof. exact read_data_in_memory_view. Qed.
Print Assumptions C20_read_data_in_memory_view.

Example C20_lazy_instance :
  pl 2 (final_state 2 [] lazy_ex_prefix) 6 = Input 3 /\
  pl 2 (lazy_st 2 (final_state 2 [] lazy_ex_prefix) (SIn 3) 0 1) 1 = ownp 2 0 /\
  kind_inplace (kind_of (AToByteStream 1)) = true /\ api_target (AToByteStream 1) = 1%nat /\
  prog_safe 2 [] (lazy_ex_prefix ++ [ADecodeLazy (SIn 3) 0; AReadData 0 (SIn 3) 1; AToByteStream 1; ADecryptWith 1 (SIn 7)]) = true /\
  prog_safe 2 [] (lazy_ex_prefix ++ [ADecodeSR (SIn 3) 0; AReadData 0 (SIn 3) 1; AToByteStream 1]) = false /\
  reader_only [ADecodeLazy (SIn 3) 0; AReadData 0 (SIn 3) 1; AToByteStream 1] = true.
Proof. exact lazy_instance. Qed.

(* the footprint table: Reader-path programs, and SliceReader programs whose in-place operations
   only touch payloads the goroutine owns, satisfy the hypothesis of C20_schedule_independence *)
Theorem C20_api_footprints :
  forall (t : thread) (p : list api),
    reader_only p = true \/ prog_safe t [] p = true ->
    forall o, In o (compile t [] p) -> respects o /\ local t o = true.
Proof. exact api_footprints. Qed.
Print Assumptions C20_api_footprints.

Theorem C20_api_schedule_independence :
  forall (progs : thread -> list api) (s : list event) (h0 : heap),
    (forall t, reader_only (progs t) = true \/ prog_safe t [] (progs t) = true) ->
    is_interleaving s (fun t => compile t [] (progs t)) ->
    race_free s /\
    (forall t l, own t l = true -> run_sched s h0 l = run (compile t [] (progs t)) h0 l) /\
    (forall l, shared_ro l = true -> run_sched s h0 l = h0 l).
Proof. exact api_schedule_independence. Qed.
Print Assumptions C20_api_schedule_independence.

(* [DecodeFileSR input; DecryptSegment; Encode] in two goroutines on ONE shared input: a shared input
   is written, the schedule has a race, goroutine 1's output differs from its sequential output, and
   even alone the program changes the caller's input *)
Theorem C20_sr_inplace_refuted :
  exists (p : list api) (s : list event) (h0 : heap),
    forallb registry_free p = true /\
    is_interleaving s (two_threads p) /\
    (exists o, In o (compile 1 [] p) /\ mem (Input 0) (writes o) = true) /\
    ~ race_free s /\
    (exists l, own 1 l = true /\ run_sched s h0 l <> run (compile 1 [] p) h0 l) /\
    run (compile 1 [] p) h0 (Input 0) <> h0 (Input 0).
Proof. exact sr_inplace_refuted. Qed.
Print Assumptions C20_sr_inplace_refuted.

(* likewise EncryptFragment, ConvertSampleToByteStream, ConvertByteStreamToNaluSample, directly or
   through GetFullSamples views; not after Reader-path decoding *)
Theorem C20_sr_inplace_all_mutators :
  forallb (fun m => writes_input 0 (compile 1 [] [ADecodeSR (SIn 0) 0; m 0%nat]) &&
                    writes_input 0 (compile 1 [] [ADecodeSR (SIn 0) 0; ASamples 0 1; m 1%nat]) &&
                    negb (prog_safe 1 [] [ADecodeSR (SIn 0) 0; m 0%nat]) &&
                    negb (writes_input 0 (compile 1 [] [ADecode (SIn 0) 0; ASamples 0 1; m 1%nat])))
          mutators = true.
Proof. exact sr_inplace_all_mutators. Qed.
Print Assumptions C20_sr_inplace_all_mutators.

(* decrypting / encrypting own media with key material taken from a SliceReader-decoded SHARED init segment
   (or from a DecryptInfo shared between goroutines) writes no input according to the table *)
Theorem C20_sr_init_decrypt_safe :
  prog_safe 1 [] init_sr_prog = true /\
  input_ids (flat_map writes (compile 1 [] init_sr_prog)) = [] /\
  pl 1 (final_state 1 [] init_sr_prog) 1 = Input 0 /\
  input_ids (flat_map writes (compile 1 [] [ADecode (SIn 0) 0; ADecryptInit 0 1; ADecodeSR (SIn 1) 2; ADecryptWith 2 (SObj 1)])) = [1%nat].
Proof. exact init_sr_decrypt_safe. Qed.
Print Assumptions C20_sr_init_decrypt_safe.

(* why the property excludes registry modification *)
Theorem C20_registry_write_races : is_interleaving reg_sched reg_progs /\ ~ race_free reg_sched.
Proof. exact registry_write_races. Qed.
Print Assumptions C20_registry_write_races.

(* the hypotheses are satisfiable by a non-trivial instance: three goroutines, 15 events, SliceReader
   views of a shared input and of an own buffer, in-place operations on own payloads *)
Example C20_example_instance :
  (forall t, reader_only (ex_progs t) = true \/ prog_safe t [] (ex_progs t) = true) /\
  is_interleaving ex_sched (fun t => compile t [] (ex_progs t)) /\
  List.length ex_sched = 15%nat /\ race_freeb ex_sched = true /\
  run_sched ex_sched bad_heap (ownp 1 2) <> bad_heap (ownp 1 2) /\
  pl 2 (final_state 2 [] (ex_progs 2)) 3 = Input 0 /\ pl 3 (final_state 3 [] (ex_progs 3)) 3 = ownp 3 1.
Proof. exact (conj ex_safe (conj ex_interleaving ex_nontrivial)). Qed.
