(* C20Alias.v -- GENERATED on every run of ./check C20 by `harness/c20 facts` from the library sources in
   /repo: which functions keep sub-slices of the buffer behind a bits.SliceReader (and in which struct fields),
   which exported functions return views of a []byte argument, and which exported functions write in place
   into bytes reachable from an argument.  Do not edit: overwritten whenever the sources give different facts. *)
From Coq Require Import List String.
From V.c20 Require Import C20Facts.
Import ListNotations.
Open Scope string_scope.

(* methods of the SliceReader implementation whose result is a sub-slice of the reader's buffer *)
Definition c20_view_sources : list string := ["bits.FixedSliceReader.ReadBytes"; "bits.FixedSliceReader.RemainingBytes"].

(* functions with a SliceReader parameter whose result (or another argument) keeps bytes of the reader's buffer;
   second component: struct fields that receive such bytes directly in that function *)
Definition c20_sr_keepers : list (string * string) := [
  ("mp4.DecodeAudioSampleEntrySR", "");
  ("mp4.DecodeAv1CSR", "Av1CBox.CodecConfRec");
  ("mp4.DecodeAvcCSR", "AvcCBox.DecConfRec");
  ("mp4.DecodeBoxSR", "");
  ("mp4.DecodeCdatSR", "CdatBox.Data");
  ("mp4.DecodeColrSR", "ColrBox.ICCProfile,ColrBox.UnknownPayload");
  ("mp4.DecodeContainerChildrenSR", "");
  ("mp4.DecodeDataSR", "DataBox.Data");
  ("mp4.DecodeDecSpecificInfoDescriptor", "DecSpecificInfoDescriptor.DecConfig");
  ("mp4.DecodeDecoderConfigDescriptor", "DecoderConfigDescriptor.DecSpecificInfo,DecoderConfigDescriptor.OtherDescriptors,DecoderConfigDescriptor.UnknownData");
  ("mp4.DecodeDescriptor", "");
  ("mp4.DecodeDinfSR", "");
  ("mp4.DecodeDrefSR", "");
  ("mp4.DecodeESDescriptor", "ESDescriptor.DecConfigDescriptor,ESDescriptor.OtherDescriptors,ESDescriptor.SLConfigDescriptor,ESDescriptor.UnknownData");
  ("mp4.DecodeEdtsSR", "EdtsBox.Children,EdtsBox.Elst");
  ("mp4.DecodeEmibSR", "EmibBox.MessageData");
  ("mp4.DecodeEmsgSR", "EmsgBox.MessageData");
  ("mp4.DecodeEsdsSR", "EsdsBox.ESDescriptor");
  ("mp4.DecodeEvteSR", "");
  ("mp4.DecodeFileSR", "");
  ("mp4.DecodeFreeSR", "FreeBox.notDecoded");
  ("mp4.DecodeFtypSR", "FtypBox.data");
  ("mp4.DecodeGenericContainerBoxSR", "");
  ("mp4.DecodeHvcCSR", "HvcCBox.DecConfRec");
  ("mp4.DecodeIlstSR", "");
  ("mp4.DecodeLudtSR", "");
  ("mp4.DecodeMdatSR", "MdatBox.Data");
  ("mp4.DecodeMdiaSR", "");
  ("mp4.DecodeMetaSR", "");
  ("mp4.DecodeMfraSR", "");
  ("mp4.DecodeMinfSR", "");
  ("mp4.DecodeMoofSR", "");
  ("mp4.DecodeMoovSR", "");
  ("mp4.DecodeMvexSR", "");
  ("mp4.DecodePsshSR", "PsshBox.Data,PsshBox.KIDs");
  ("mp4.DecodeRawDescriptor", "RawDescriptor.data");
  ("mp4.DecodeSLConfigDescriptor", "SLConfigDescriptor.MoreData");
  ("mp4.DecodeSchiSR", "");
  ("mp4.DecodeSeigSampleGroupEntry", "SeigSampleGroupEntry.ConstantIV,SeigSampleGroupEntry.KID");
  ("mp4.DecodeSencSR", "SencBox.rawData");
  ("mp4.DecodeSgpdSR", "SgpdBox.DescriptionLengths,SgpdBox.SampleGroupEntries");
  ("mp4.DecodeSinfSR", "");
  ("mp4.DecodeStblSR", "");
  ("mp4.DecodeStppSR", "");
  ("mp4.DecodeStsdSR", "");
  ("mp4.DecodeStypSR", "StypBox.data");
  ("mp4.DecodeTencSR", "TencBox.DefaultConstantIV,TencBox.DefaultKID");
  ("mp4.DecodeTrafSR", "");
  ("mp4.DecodeTrakSR", "");
  ("mp4.DecodeTrefSR", "");
  ("mp4.DecodeTrepSR", "");
  ("mp4.DecodeUUIDBoxSR", "UUIDBox.Senc,UUIDBox.UnknownPayload,UUIDBox.uuid");
  ("mp4.DecodeUdtaSR", "");
  ("mp4.DecodeUnknownSR", "UnknownBox.notDecoded");
  ("mp4.DecodeUnknownSampleGroupEntry", "UnknownSampleGroupEntry.Data");
  ("mp4.DecodeVisualSampleEntrySR", "");
  ("mp4.DecodeVppCSR", "VppCBox.CodecInitData");
  ("mp4.DecodeVttcSR", "");
  ("mp4.DecodeWvttSR", "");
  ("mp4.SencBox.parseAndFillSamples", "SencBox.IVs");
  ("mp4.decodeSampleGroupEntry", "")
].

(* exported functions whose result (or another argument) keeps a view of a []byte argument *)
Definition c20_byte_views : list string := ["av1.DecodeAV1CodecConfRec"; "avc.ConvertByteStreamToNaluSample"; "avc.ConvertSampleToByteStream"; "avc.DecodeAVCDecConfRec"; "avc.GetFirstAVCVideoNALUFromByteStream"; "avc.GetNalusFromSample"; "avc.GetParameterSets"; "avc.GetParameterSetsFromByteStream"; "bits.NewFixedSliceReader"; "bits.NewFixedSliceWriterFromSlice"; "hevc.DecodeHEVCDecConfRec"; "hevc.GetParameterSets"; "hevc.GetParameterSetsFromByteStream"; "mp4.CreateESDescriptor"; "mp4.CreateEsdsBox"; "mp4.CreateRawDescriptor"; "mp4.CreateSdtpBox"; "mp4.CreateUnknownBox"; "mp4.EncryptFragment"; "mp4.InitProtect"; "mp4.MdatBox.AddSampleDataPart"; "mp4.MdatBox.SetData"; "mp4.NewFreeBox"; "mp4.NewSkipBox"; "mp4.PsshBoxesFromBytes"; "sei.NewSEIData"; "sei.NewUnregisteredSEI"].

(* exported functions that write in place into bytes reachable from an argument (function, argument) *)
Definition c20_mutators : list (string * string) := [
  ("avc.ConvertByteStreamToNaluSample", "stream");
  ("avc.ConvertSampleToByteStream", "sample");
  ("bits.FixedSliceReader.LookAhead", "data");
  ("hevc.ParseSliceHeader", "spsMap");
  ("mp4.CryptSampleCenc", "sample");
  ("mp4.DecryptFragment", "frag");
  ("mp4.DecryptSampleCbcs", "sample");
  ("mp4.DecryptSegment", "seg");
  ("mp4.EncryptFragment", "f");
  ("mp4.EncryptFragment", "iv");
  ("mp4.EncryptSampleCbcs", "sample");
  ("mp4.File.CopySampleData", "workSpace");
  ("mp4.Fragment.AddFullSample", "f");
  ("mp4.Fragment.AddFullSampleToTrack", "f");
  ("mp4.FtypBox.AddCompatibleBrands", "b");
  ("mp4.GetHEVCProtectRanges", "spsMap");
  ("mp4.InitProtect", "iv");
  ("mp4.MdatBox.AddSampleData", "m");
  ("mp4.SaizBox.AddSampleInfo", "b");
  ("mp4.StypBox.AddCompatibleBrands", "b")
].
