(* C20FactsProofs.v -- the policy evaluated on the facts extracted from the current /repo sources. *)
From Coq Require Import List String Bool.
From V.c20 Require Import C20Facts C20PkgVars.
Import ListNotations.
Open Scope string_scope.

Lemma pkg_vars_ok :
  forallb var_ok c20_pkg_vars = true /\
  forallb imports_ok c20_imports = true /\
  has_var c20_pkg_vars "mp4" "decoders" && has_var c20_pkg_vars "mp4" "decodersSR" &&
  has_var c20_pkg_vars "mp4" "sgeDecoders" = true.
Proof. vm_compute. repeat split. Qed.

(* unfolded reading: every use through which a package-level variable can change sits in an
   initialiser, in init, or in SetBoxDecoder / RemoveBoxDecoder *)
Lemma pkg_vars_writers :
  forall v u, In v c20_pkg_vars -> In u (v_uses v) -> is_write (u_kind u) = true ->
              In (u_fn u) allowed_writers.
Proof.
  intros v u Hv Hu Hw. destruct pkg_vars_ok as [H _].
  rewrite forallb_forall in H. specialize (H v Hv). unfold var_ok in H.
  rewrite forallb_forall in H. specialize (H u Hu). unfold use_ok in H. rewrite Hw in H.
  unfold str_in in H. apply existsb_exists in H. destruct H as [x [Hin Hx]].
  apply String.eqb_eq in Hx. subst. exact Hin.
Qed.
