(* C20AliasAudit.v -- DEFINITIONS ONLY, hand-maintained: the audited aliasing facts.  The lists below were reviewed against
   the sources (every SliceReader decoder that keeps sub-slices of the caller's buffer and the fields that hold them; every
   exported function that returns a view of a []byte argument; every exported function that writes bytes reachable from an
   argument, with its class).  C20Alias.v is regenerated from /repo on every run; C20_alias_facts_ok says the regenerated
   facts are inside these lists, so a NEW aliasing decoder, a NEW view or a NEW in-place mutator breaks the theorem and is
   reported by name. *)
From Coq Require Import List String.
From V.c20 Require Import C20Facts.
Import ListNotations.
Open Scope string_scope.

(* FixedSliceReader methods returning s.slice[a:b:b] *)
Definition audited_view_sources : list string :=
  [
    "bits.FixedSliceReader.ReadBytes"; "bits.FixedSliceReader.RemainingBytes"
  ].

(* functions with a SliceReader parameter whose result keeps bytes of the reader's buffer: the leaf decoders storing
   ReadBytes results in byte fields (MdatBox.Data, SencBox.rawData / IVs, TencBox.DefaultKID / DefaultConstantIV,
   FtypBox.data, UnknownBox.notDecoded, descriptors ...) and the container decoders that pass their children on *)
Definition audited_sr_keepers : list string :=
  [
    "mp4.DecodeAudioSampleEntrySR"; "mp4.DecodeAv1CSR"; "mp4.DecodeAvcCSR"; "mp4.DecodeBoxSR";
    "mp4.DecodeCdatSR"; "mp4.DecodeColrSR"; "mp4.DecodeContainerChildrenSR"; "mp4.DecodeDataSR";
    "mp4.DecodeDecSpecificInfoDescriptor"; "mp4.DecodeDecoderConfigDescriptor"; "mp4.DecodeDescriptor";
    "mp4.DecodeDinfSR"; "mp4.DecodeDrefSR"; "mp4.DecodeESDescriptor"; "mp4.DecodeEdtsSR"; "mp4.DecodeEmibSR";
    "mp4.DecodeEmsgSR"; "mp4.DecodeEsdsSR"; "mp4.DecodeEvteSR"; "mp4.DecodeFileSR"; "mp4.DecodeFreeSR";
    "mp4.DecodeFtypSR"; "mp4.DecodeGenericContainerBoxSR"; "mp4.DecodeHvcCSR"; "mp4.DecodeIlstSR";
    "mp4.DecodeLudtSR"; "mp4.DecodeMdatSR"; "mp4.DecodeMdiaSR"; "mp4.DecodeMetaSR"; "mp4.DecodeMfraSR";
    "mp4.DecodeMinfSR"; "mp4.DecodeMoofSR"; "mp4.DecodeMoovSR"; "mp4.DecodeMvexSR"; "mp4.DecodePsshSR";
    "mp4.DecodeRawDescriptor"; "mp4.DecodeSLConfigDescriptor"; "mp4.DecodeSchiSR";
    "mp4.DecodeSeigSampleGroupEntry"; "mp4.DecodeSencSR"; "mp4.DecodeSgpdSR"; "mp4.DecodeSinfSR";
    "mp4.DecodeStblSR"; "mp4.DecodeStppSR"; "mp4.DecodeStsdSR"; "mp4.DecodeStypSR"; "mp4.DecodeTencSR";
    "mp4.DecodeTrafSR"; "mp4.DecodeTrakSR"; "mp4.DecodeTrefSR"; "mp4.DecodeTrepSR"; "mp4.DecodeUUIDBoxSR";
    "mp4.DecodeUdtaSR"; "mp4.DecodeUnknownSR"; "mp4.DecodeUnknownSampleGroupEntry";
    "mp4.DecodeVisualSampleEntrySR"; "mp4.DecodeVppCSR"; "mp4.DecodeVttcSR"; "mp4.DecodeWvttSR";
    "mp4.SencBox.parseAndFillSamples"; "mp4.decodeSampleGroupEntry"
  ].

(* exported functions whose result (or another argument) keeps a view of a []byte argument *)
Definition audited_byte_views : list string :=
  [
    "av1.DecodeAV1CodecConfRec"; "avc.ConvertByteStreamToNaluSample"; "avc.ConvertSampleToByteStream";
    "avc.DecodeAVCDecConfRec"; "avc.GetFirstAVCVideoNALUFromByteStream"; "avc.GetNalusFromSample";
    "avc.GetParameterSets"; "avc.GetParameterSetsFromByteStream"; "bits.NewFixedSliceReader";
    "bits.NewFixedSliceWriterFromSlice"; "hevc.DecodeHEVCDecConfRec"; "hevc.GetParameterSets";
    "hevc.GetParameterSetsFromByteStream"; "mp4.CreateESDescriptor"; "mp4.CreateEsdsBox";
    "mp4.CreateRawDescriptor"; "mp4.CreateSdtpBox"; "mp4.CreateUnknownBox"; "mp4.EncryptFragment";
    "mp4.InitProtect"; "mp4.MdatBox.AddSampleDataPart"; "mp4.MdatBox.SetData"; "mp4.NewFreeBox";
    "mp4.NewSkipBox"; "mp4.PsshBoxesFromBytes"; "sei.NewSEIData"; "sei.NewUnregisteredSEI"
  ].

(* exported functions writing bytes reachable from an argument: (function, argument, class).
   MNone entries: EncryptFragment / InitProtect replace an 8-byte iv by a fresh 16-byte buffer before copy(iv, iv8);
   hevc.ParseSliceHeader / GetHEVCProtectRanges fill slices of the slice header they allocate (the header also receives
   values of the SPS found in spsMap, which the field-insensitive analysis cannot separate). *)
Definition audited_mutators : list (string * string * mclass) :=
  [
    ("avc.ConvertByteStreamToNaluSample", "stream", MInPlace KToNaluSample);
    ("avc.ConvertSampleToByteStream", "sample", MInPlace KToByteStream);
    ("bits.FixedSliceReader.LookAhead", "data", MOutBuf);
    ("hevc.ParseSliceHeader", "spsMap", MNone);
    ("mp4.CryptSampleCenc", "sample", MInPlace KEncryptWith);
    ("mp4.DecryptFragment", "frag", MInPlace KDecryptWith);
    ("mp4.DecryptSampleCbcs", "sample", MInPlace KDecryptWith);
    ("mp4.DecryptSegment", "seg", MInPlace KDecryptWith);
    ("mp4.EncryptFragment", "f", MInPlace KEncryptWith);
    ("mp4.EncryptFragment", "iv", MNone);
    ("mp4.EncryptSampleCbcs", "sample", MInPlace KEncryptWith);
    ("mp4.File.CopySampleData", "workSpace", MOutBuf);
    ("mp4.Fragment.AddFullSample", "f", MAppend KTouch);
    ("mp4.Fragment.AddFullSampleToTrack", "f", MAppend KTouch);
    ("mp4.FtypBox.AddCompatibleBrands", "b", MAppend KTouch);
    ("mp4.GetHEVCProtectRanges", "spsMap", MNone);
    ("mp4.InitProtect", "iv", MNone);
    ("mp4.MdatBox.AddSampleData", "m", MAppend KTouch);
    ("mp4.SaizBox.AddSampleInfo", "b", MAppend KTouch);
    ("mp4.StypBox.AddCompatibleBrands", "b", MAppend KTouch)
  ].
