(* C20Facts.v -- DEFINITIONS ONLY: the shape of the source facts extracted from /repo by
   `harness/c20 facts` (written to C20PkgVars.v on every check run) and the policy they must satisfy. *)
From Coq Require Import List String Bool.
Import ListNotations.
Open Scope string_scope.

Inductive tkind := TBasic | TError | TIface | TMap | TSlice | TPtr | TChan | TFunc | TStruct | TArray | TOther.

(* kinds of non-read uses, see harness/c20/facts.go *)
Inductive ukind :=
| UAssign | UIndexAssign | UFieldAssign | UDerefAssign | UDelete | UAppend | UAddr   (* can change V *)
| UEscape.   (* V (of a type whose contents are reachable through a copy) handed to somebody else *)

Record use := mkuse { u_fn : string; u_kind : ukind }.
Record pkgvar := mkvar { v_pkg : string; v_name : string; v_tkind : tkind; v_mutable : bool; v_uses : list use }.

(* functions that may change package-level state: package initialisation and the two documented
   registry mutators ("This is a global change, so use with care") *)
Definition allowed_writers : list string := ["init"; "<pkg-initializer>"; "SetBoxDecoder"; "RemoveBoxDecoder"].

Definition str_in (s : string) (l : list string) : bool := existsb (String.eqb s) l.

(* hand-audited escapes: the three uuid constants (type UUID = []byte) are passed to
   UUID.Equal (mp4/uuid.go), which only calls bytes.Equal on them *)
Definition audited_escapes : list (string * string * string) :=
  [ ("mp4", "uuidTfxd", "UUIDBox.Size"); ("mp4", "uuidTfxd", "UUIDBox.EncodeSW"); ("mp4", "uuidTfxd", "UUIDBox.SubType");
    ("mp4", "uuidTfrf", "UUIDBox.Size"); ("mp4", "uuidTfrf", "UUIDBox.EncodeSW"); ("mp4", "uuidTfrf", "UUIDBox.SubType");
    ("mp4", "uuidPiffSenc", "UUIDBox.Size"); ("mp4", "uuidPiffSenc", "UUIDBox.EncodeSW"); ("mp4", "uuidPiffSenc", "UUIDBox.SubType") ].

Definition is_write (k : ukind) : bool := match k with UEscape => false | _ => true end.

Definition triple_eqb (a b : string * string * string) : bool :=
  let '(a1, a2, a3) := a in let '(b1, b2, b3) := b in
  String.eqb a1 b1 && String.eqb a2 b2 && String.eqb a3 b3.

Definition use_ok (v : pkgvar) (u : use) : bool :=
  if is_write (u_kind u) then str_in (u_fn u) allowed_writers
  else str_in (u_fn u) allowed_writers ||
       existsb (triple_eqb (v_pkg v, v_name v, u_fn u)) audited_escapes.

Definition var_ok (v : pkgvar) : bool := forallb (use_ok v) (v_uses v).

(* imports that bring shared mutable state or synchronisation into the library *)
Definition denied_imports : list string := ["sync"; "sync/atomic"; "math/rand"; "math/rand/v2"].
Definition imports_ok (e : string * list string) : bool :=
  forallb (fun i => negb (str_in i denied_imports)) (snd e).

(* the variables the footprint table calls gDecoders, gDecodersSR, gSge must exist *)
Definition has_var (vs : list pkgvar) (p n : string) : bool :=
  existsb (fun v => String.eqb (v_pkg v) p && String.eqb (v_name v) n) vs.

(* ------------------------------------------------------------------ reachability facts (C20Reach.v, generated) *)
(* the operations of the footprint table (C20Model.api without its arguments) *)
Inductive api_kind :=
| KDecode | KDecodeSR | KInfo | KEncode | KEncodeSW | KSamples | KEncrypt | KDecrypt | KDecryptInit | KInitProtect
| KDecryptWith | KEncryptWith | KToByteStream | KToNaluSample | KSetBoxDecoder | KRemoveBoxDecoder | KTouch
| KDecodeLazy | KReadData.  (* lazy-mdat branch of mp4/mdat.go: DecodeFile(WithDecodeMode(DecModeLazyMdat)), MdatBox.ReadData *)

Definition all_kinds : list api_kind :=
  [KDecode; KDecodeSR; KInfo; KEncode; KEncodeSW; KSamples; KEncrypt; KDecrypt; KDecryptInit; KInitProtect;
   KDecryptWith; KEncryptWith; KToByteStream; KToNaluSample; KSetBoxDecoder; KRemoveBoxDecoder; KTouch;
   KDecodeLazy; KReadData].

Definition kind_idx (k : api_kind) : nat :=
  match k with
  | KDecode => 0 | KDecodeSR => 1 | KInfo => 2 | KEncode => 3 | KEncodeSW => 4 | KSamples => 5 | KEncrypt => 6
  | KDecrypt => 7 | KDecryptInit => 8 | KInitProtect => 9 | KDecryptWith => 10 | KEncryptWith => 11
  | KToByteStream => 12 | KToNaluSample => 13 | KSetBoxDecoder => 14 | KRemoveBoxDecoder => 15 | KTouch => 16
  | KDecodeLazy => 17 | KReadData => 18
  end.
Definition kind_eqb (a b : api_kind) : bool := Nat.eqb (kind_idx a) (kind_idx b).

(* a package-level variable: (package, name) *)
Definition vname := (string * string)%type.
Definition vname_eqb (a b : vname) : bool := String.eqb (fst a) (fst b) && String.eqb (snd a) (snd b).
Definition vname_in (v : vname) (l : list vname) : bool := existsb (vname_eqb v) l.

(* one operation of the table: the library functions behind it, the package-level variables reachable from them
   through the call graph that can be read (or escape) and those that can be changed *)
Record reach_entry := mkreach { r_kind : api_kind; r_fns : list string; r_reads : list vname; r_writes : list vname }.
(* an exported function from which a change of package-level variables is reachable *)
Record xwriter := mkxw { xw_pkg : string; xw_fn : string; xw_vars : list vname }.
(* a reachable package-level variable of a type whose contents can change through a copy of the value *)
Record shared_var := mkshared { sh_var : vname; sh_tkind : tkind; sh_uses : string; sh_witness : string }.

(* the registry and the two exported functions that may change it (excluded by the property text) *)
Definition registry_vars : list vname := [("mp4", "decoders"); ("mp4", "decodersSR")].
Definition registry_mutators : list string := ["SetBoxDecoder"; "RemoveBoxDecoder"].
Definition kind_is_registry (k : api_kind) : bool :=
  match k with KSetBoxDecoder | KRemoveBoxDecoder => true | _ => false end.

(* hand-audited: the shared package-level values of reference type.  Lookup tables that are only indexed / ranged
   over, the three registries, the three uuid constants (escapes audited above).  A NEW reachable variable of such
   a type (a cache map, a sync.Pool, a scratch slice, a *T singleton ...) is not in this list. *)
Definition audited_shared : list vname :=
  [ ("aac", "FrequencyTable"); ("aac", "ReverseFrequencies");
    ("mp4", "AC3BitrateCodesKbps"); ("mp4", "AC3SampleRates"); ("mp4", "AC3acmodChannelTable");
    ("mp4", "CustomChannelMapLocations"); ("mp4", "EC3ChannelLocationBits"); ("mp4", "PrftFlagsInterpretation");
    ("mp4", "decoders"); ("mp4", "decodersSR"); ("mp4", "sgeDecoders");
    ("mp4", "uuidPiffSenc"); ("mp4", "uuidTfrf"); ("mp4", "uuidTfxd") ].

Fixpoint find_var (vs : list pkgvar) (v : vname) : option pkgvar :=
  match vs with
  | [] => None
  | p :: r => if vname_eqb v (v_pkg p, v_name p) then Some p else find_var r v
  end.

(* a reachable read is fine when the variable is known and every use that can change it sits in an allowed writer *)
Definition read_ok (vs : list pkgvar) (v : vname) : bool :=
  match find_var vs v with Some p => var_ok p | None => false end.

Definition is_nil {A} (l : list A) : bool := match l with [] => true | _ => false end.

Definition reach_entry_ok (vs : list pkgvar) (e : reach_entry) : bool :=
  forallb (read_ok vs) (r_reads e) &&
  (if kind_is_registry (r_kind e) then forallb (fun v => vname_in v registry_vars) (r_writes e)
   else is_nil (r_writes e)).

Definition xwriter_ok (w : xwriter) : bool :=
  String.eqb (xw_pkg w) "mp4" && str_in (xw_fn w) registry_mutators &&
  forallb (fun v => vname_in v registry_vars) (xw_vars w).

(* shared values of reference type: audited, known, never changed outside the allowed writers, and (for everything
   but the registries) not changed by any exported function at all *)
Definition shared_ok (vs : list pkgvar) (s : shared_var) : bool :=
  vname_in (sh_var s) audited_shared && read_ok vs (sh_var s).

(* ------------------------------------------------------------------ aliasing facts (C20Alias.v, generated) *)
(* audit classes of the exported functions the extractor reports as writing bytes reachable from an argument *)
Inductive mclass :=
| MInPlace (k : api_kind)  (* rewrites payload bytes in place: operation k of the table, guarded by inplace_ok; on data decoded
                              through a SliceReader from a shared input this is the recorded finding F1-F9 *)
| MAppend (k : api_kind)   (* grows a byte field by append: operation k of the table (no payload write since ReadBytes clips
                              the capacity), or a field that no SliceReader decoder fills *)
| MOutBuf                  (* fills a scratch / output buffer supplied by the caller for that purpose *)
| MNone.                   (* imprecision of the flow- and field-insensitive extractor, audited: no byte of the caller is written *)

Definition spair_eqb (a b : string * string) : bool := String.eqb (fst a) (fst b) && String.eqb (snd a) (snd b).
