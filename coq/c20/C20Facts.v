(* C20Facts.v -- DEFINITIONS ONLY: the shape of the source facts extracted from /repo by
   `harness/c20 facts` (written to C20PkgVars.v on every check run) and the policy they must satisfy. *)
From Coq Require Import List String Bool.
Import ListNotations.
Open Scope string_scope.

Inductive tkind := TBasic | TError | TIface | TMap | TSlice | TPtr | TChan | TFunc | TStruct | TArray | TOther.

(* kinds of non-read uses, see harness/c20/facts.go *)
Inductive ukind :=
| UAssign | UIndexAssign | UFieldAssign | UDerefAssign | UDelete | UAppend | UAddr   (* can change V *)
| UEscape.   (* V (of a type whose contents are reachable through a copy) handed to somebody else *)

Record use := mkuse { u_fn : string; u_kind : ukind }.
Record pkgvar := mkvar { v_pkg : string; v_name : string; v_tkind : tkind; v_mutable : bool; v_uses : list use }.

(* functions that may change package-level state: package initialisation and the two documented
   registry mutators ("This is a global change, so use with care") *)
Definition allowed_writers : list string := ["init"; "<pkg-initializer>"; "SetBoxDecoder"; "RemoveBoxDecoder"].

Definition str_in (s : string) (l : list string) : bool := existsb (String.eqb s) l.

(* hand-audited escapes: the three uuid constants (type UUID = []byte) are passed to
   UUID.Equal (mp4/uuid.go), which only calls bytes.Equal on them *)
Definition audited_escapes : list (string * string * string) :=
  [ ("mp4", "uuidTfxd", "UUIDBox.Size"); ("mp4", "uuidTfxd", "UUIDBox.EncodeSW"); ("mp4", "uuidTfxd", "UUIDBox.SubType");
    ("mp4", "uuidTfrf", "UUIDBox.Size"); ("mp4", "uuidTfrf", "UUIDBox.EncodeSW"); ("mp4", "uuidTfrf", "UUIDBox.SubType");
    ("mp4", "uuidPiffSenc", "UUIDBox.Size"); ("mp4", "uuidPiffSenc", "UUIDBox.EncodeSW"); ("mp4", "uuidPiffSenc", "UUIDBox.SubType") ].

Definition is_write (k : ukind) : bool := match k with UEscape => false | _ => true end.

Definition triple_eqb (a b : string * string * string) : bool :=
  let '(a1, a2, a3) := a in let '(b1, b2, b3) := b in
  String.eqb a1 b1 && String.eqb a2 b2 && String.eqb a3 b3.

Definition use_ok (v : pkgvar) (u : use) : bool :=
  if is_write (u_kind u) then str_in (u_fn u) allowed_writers
  else str_in (u_fn u) allowed_writers ||
       existsb (triple_eqb (v_pkg v, v_name v, u_fn u)) audited_escapes.

Definition var_ok (v : pkgvar) : bool := forallb (use_ok v) (v_uses v).

(* imports that bring shared mutable state or synchronisation into the library *)
Definition denied_imports : list string := ["sync"; "sync/atomic"; "math/rand"; "math/rand/v2"].
Definition imports_ok (e : string * list string) : bool :=
  forallb (fun i => negb (str_in i denied_imports)) (snd e).

(* the variables the footprint table calls gDecoders, gDecodersSR, gSge must exist *)
Definition has_var (vs : list pkgvar) (p n : string) : bool :=
  existsb (fun v => String.eqb (v_pkg v) p && String.eqb (v_name v) n) vs.
