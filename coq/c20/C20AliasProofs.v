(* C20AliasProofs.v -- the aliasing facts regenerated from /repo are inside the audited lists, and every audited
   in-place mutator is an operation of the footprint table whose payload write is what inplace_ok guards. *)
From V.lib Require Import Base.
From Coq Require Import String.
From V.c20 Require Import C20Model C20Facts C20Alias C20AliasAudit C20ReachProofs C20ApiProofs.
Open Scope string_scope.

(* operations of the table that rewrite the payload of their operand in place *)
Definition kind_inplace (k : api_kind) : bool :=
  match k with
  | KEncrypt | KDecrypt | KDecryptWith | KEncryptWith | KToByteStream | KToNaluSample => true
  | _ => false
  end.

Definition class_ok (c : mclass) : bool :=
  match c with
  | MInPlace k => kind_inplace k
  | MAppend k => kind_eqb k KTouch
  | MOutBuf | MNone => true
  end.

Definition mutator_audited (m : string * string) : bool :=
  existsb (fun a => spair_eqb m (fst a)) audited_mutators.

Lemma alias_facts_ok :
  forallb (fun s => str_in s audited_view_sources) c20_view_sources = true /\
  forallb (fun k => str_in (fst k) audited_sr_keepers) c20_sr_keepers = true /\
  forallb (fun v => str_in v audited_byte_views) c20_byte_views = true /\
  forallb mutator_audited c20_mutators = true /\
  forallb (fun a => class_ok (snd a)) audited_mutators = true.
Proof. vm_compute. repeat split. Qed.

(* for ALL arguments, goroutines and aliasing states: an in-place operation of the table writes the payload location of
   its operand, and the guard inplace_ok is exactly "that location is owned by the goroutine" *)
Lemma inplace_kinds_guarded :
  forall a t st, kind_inplace (kind_of a) = true ->
    exists o, mem (pl t st o) (writes (api_op t st a)) = true /\ inplace_ok t st a = own t (pl t st o).
Proof.
  intros a t st H.
  assert (R : forall l, loc_eqb l l = true).
  { intros [g|i|t' o']; cbn [loc_eqb]; rewrite ?Nat.eqb_refl; reflexivity. }
  destruct a; try discriminate H; eexists; (split; [ | reflexivity ]);
    unfold mem, api_op; cbn [api_fp fst snd aop writes map existsb]; rewrite R, ?orb_true_r; reflexivity.
Qed.

(* so an in-place operation applied to an object whose payload is a shared input writes that input (F1-F9) ... *)
Lemma inplace_on_input_writes_it :
  forall a t st, kind_inplace (kind_of a) = true -> inplace_ok t st a = false ->
    exists l, own t l = false /\ mem l (writes (api_op t st a)) = true.
Proof.
  intros a t st H Hn. destruct (inplace_kinds_guarded a t st H) as [o [Hm Hg]].
  exists (pl t st o). split; [rewrite <- Hg; exact Hn | exact Hm].
Qed.

(* ... whereas the append operations write no payload at all: their footprint is the goroutine's own structure cell *)
Lemma touch_writes_structure_only :
  forall o t st, writes (api_op t st (ATouch o)) = [sloc t o] /\ local t (api_op t st (ATouch o)) = true \/
                 ~ (own t (pl t st o) || shared_ro (pl t st o) = true).
Proof.
  intros o t st. destruct (own t (pl t st o) || shared_ro (pl t st o)) eqn:E.
  - left. split; [reflexivity|]. unfold local, api_op. cbn [api_fp fst snd aop reads writes map forallb].
    rewrite own_sloc, E. reflexivity.
  - right. intro H. discriminate H.
Qed.
