(* C20ReachProofs.v -- the reachability facts regenerated from /repo (C20Reach.v) satisfy the policy, and the
   package-level part of the hand-written footprint table (C20Model.api_fp) covers them: every variable that the
   call graph says an operation can read / change is inside the Global cells the table gives that operation. *)
From V.lib Require Import Base.
From Coq Require Import String.
From V.c20 Require Import C20Model C20Facts C20PkgVars C20Reach C20FactsProofs.
Open Scope string_scope.

Definition kind_of (a : api) : api_kind :=
  match a with
  | ADecode _ _ => KDecode | ADecodeSR _ _ => KDecodeSR | AInfo _ _ => KInfo | AEncode _ _ => KEncode
  | AEncodeSW _ _ => KEncodeSW | ASamples _ _ => KSamples | AEncrypt _ => KEncrypt | ADecrypt _ => KDecrypt
  | ADecryptInit _ _ => KDecryptInit | AInitProtect _ _ => KInitProtect | ADecryptWith _ _ => KDecryptWith
  | AEncryptWith _ _ => KEncryptWith | AToByteStream _ => KToByteStream | AToNaluSample _ => KToNaluSample
  | ASetBoxDecoder => KSetBoxDecoder | ARemoveBoxDecoder => KRemoveBoxDecoder | ATouch _ => KTouch
  | ADecodeLazy _ _ => KDecodeLazy | AReadData _ _ _ => KReadData
  end.

(* which Global cell of the table stands for a package-level variable *)
Definition global_idx (v : vname) : nat :=
  if vname_eqb v ("mp4", "decoders") then 0
  else if vname_eqb v ("mp4", "decodersSR") then 1
  else if vname_eqb v ("mp4", "sgeDecoders") then 2
  else 3.

(* the Global cells the table lets an operation read / write (argument-independent part of api_fp) *)
Definition kind_globals_r (k : api_kind) : list nat :=
  match k with
  | KDecode | KDecodeLazy => [0; 1; 2; 3]
  | KDecodeSR => [1; 2; 3]
  | KInfo | KEncode | KEncodeSW | KSamples | KEncrypt | KDecrypt | KDecryptInit | KInitProtect
  | KDecryptWith | KEncryptWith | KTouch | KReadData => [3]
  | KToByteStream | KToNaluSample => []
  | KSetBoxDecoder | KRemoveBoxDecoder => [0; 1]
  end%nat.
Definition kind_globals_w (k : api_kind) : list nat :=
  match k with KSetBoxDecoder | KRemoveBoxDecoder => [0; 1] | _ => [] end%nat.

Definition nat_in (n : nat) (l : list nat) : bool := existsb (Nat.eqb n) l.

Definition entry_covered (e : reach_entry) : bool :=
  forallb (fun v => nat_in (global_idx v) (kind_globals_r (r_kind e))) (r_reads e) &&
  forallb (fun v => nat_in (global_idx v) (kind_globals_w (r_kind e))) (r_writes e).

(* the derived table is really inside api_fp, for all arguments, threads and aliasing states *)
Lemma kind_globals_r_sound :
  forall a t st g, nat_in g (kind_globals_r (kind_of a)) = true -> mem (Global g) (reads (api_op t st a)) = true.
Proof.
  intros a t st g H. unfold nat_in in H. apply existsb_exists in H. destruct H as [x [Hin Hx]].
  apply Nat.eqb_eq in Hx. subst x.
  destruct a; cbn [kind_of kind_globals_r In] in Hin;
    repeat (destruct Hin as [<- | Hin]; [ | ]); try contradiction;
    unfold mem, api_op; cbn [api_fp fst snd aop reads existsb loc_eqb gDecoders gDecodersSR gSge gTables Nat.eqb];
    rewrite ?orb_true_r; reflexivity.
Qed.

Lemma kind_globals_w_sound :
  forall a t st g, nat_in g (kind_globals_w (kind_of a)) = true -> mem (Global g) (writes (api_op t st a)) = true.
Proof.
  intros a t st g H. unfold nat_in in H. apply existsb_exists in H. destruct H as [x [Hin Hx]].
  apply Nat.eqb_eq in Hx. subst x.
  destruct a; cbn [kind_of kind_globals_w In] in Hin;
    repeat (destruct Hin as [<- | Hin]; [ | ]); try contradiction; reflexivity.
Qed.

(* the policy on the regenerated facts *)
Lemma api_reach_ok :
  forallb (reach_entry_ok c20_pkg_vars) c20_api_reach = true /\
  forallb entry_covered c20_api_reach = true /\
  forallb (fun k => existsb (fun e => kind_eqb k (r_kind e)) c20_api_reach) all_kinds = true /\
  forallb xwriter_ok c20_exported_writers = true /\
  forallb (shared_ok c20_pkg_vars) c20_reachable_shared = true.
Proof. vm_compute. repeat split. Qed.

(* unfolded reading, for ALL operations of the table with all arguments: what the call graph of the current sources
   lets the operation reach is inside its footprint; what it can read is never changed outside init / the registry
   mutators; it changes nothing unless it is a registry mutator *)
Lemma api_reach_covers :
  forall (a : api) (t : thread) (st : astate) (e : reach_entry),
    In e c20_api_reach -> r_kind e = kind_of a ->
    (forall v, In v (r_reads e) ->
       mem (Global (global_idx v)) (reads (api_op t st a)) = true /\
       exists p, find_var c20_pkg_vars v = Some p /\
                 forall u, In u (v_uses p) -> is_write (u_kind u) = true -> In (u_fn u) allowed_writers) /\
    (forall v, In v (r_writes e) -> mem (Global (global_idx v)) (writes (api_op t st a)) = true) /\
    (registry_free a = true -> r_writes e = []).
Proof.
  intros a t st e He Hk.
  destruct api_reach_ok as [H1 [H2 _]].
  rewrite forallb_forall in H1, H2. specialize (H1 e He). specialize (H2 e He).
  unfold reach_entry_ok in H1. apply andb_true_iff in H1. destruct H1 as [Hr Hw].
  unfold entry_covered in H2. apply andb_true_iff in H2. destruct H2 as [Cr Cw].
  rewrite forallb_forall in Hr, Cr, Cw. rewrite Hk in *.
  split; [|split].
  - intros v Hv. split.
    + apply kind_globals_r_sound. apply Cr. exact Hv.
    + specialize (Hr v Hv). unfold read_ok in Hr. destruct (find_var c20_pkg_vars v) as [p|] eqn:E; [|discriminate].
      exists p. split; [reflexivity|]. intros u Hu Hwr.
      unfold var_ok in Hr. rewrite forallb_forall in Hr. specialize (Hr u Hu). unfold use_ok in Hr. rewrite Hwr in Hr.
      unfold str_in in Hr. apply existsb_exists in Hr. destruct Hr as [x [Hin Hx]].
      apply String.eqb_eq in Hx. subst. exact Hin.
  - intros v Hv. apply kind_globals_w_sound. apply Cw. exact Hv.
  - intro Hreg. destruct a; try discriminate Hreg; cbn [kind_of kind_is_registry] in Hw;
      destruct (r_writes e); try reflexivity; discriminate Hw.
Qed.

Lemma api_reach_instance :
  exists e, In e c20_api_reach /\ r_kind e = kind_of (ADecode (SIn 0) 0) /\
            vname_in ("mp4", "decoders") (r_reads e) = true /\ r_writes e = [].
Proof.
  destruct c20_api_reach as [|e r] eqn:E; [discriminate E|].
  exists e. split; [left; reflexivity|]. inversion E. subst. repeat split; vm_compute; reflexivity.
Qed.
