(* Extraction of the C20 footprint table for the correspondence check. ExtrOcamlBasic only. *)
From V.lib Require Import Base.
From V.c20 Require Import C20Model.
Require Import ExtrOcamlBasic.
Separate Extraction
  loc src api astate observe prog_safe reader_only compile final_state pl race_freeb conflictb local
  input_ids writes reads api_target
  (* ocaml/vx.ml refers to coq_N and coq_Z *)
  BinNat.N.add BinInt.Z.add.
