(* C20Reach.v -- GENERATED on every run of ./check C20 by `harness/c20 facts` from the library sources in
   /repo: a call graph over bits avc hevc sei aac av1 mp4 (static calls, interface calls resolved by class
   hierarchy, calls through func values resolved by signature, function values, standard-library callbacks)
   and, for every operation of the footprint table and every exported function, the package-level variables
   reachable from it.  Do not edit: overwritten whenever the sources give different facts. *)
From Coq Require Import List String.
From V.c20 Require Import C20Facts.
Import ListNotations.
Open Scope string_scope.

(* per operation of the table: the library functions behind it, every package-level variable they can read
   (or let escape) and every one they can change, transitively *)
Definition c20_api_reach : list reach_entry := [
  mkreach KDecode ["mp4.DecodeFile"]
    [("bits", "ErrSliceRead"); ("bits", "ErrSliceWrite"); ("avc", "ErrCannotParseAVCExtension"); ("avc", "ErrLengthSize"); ("hevc", "ErrLengthSize"); ("av1", "ErrInvalidMarker"); ("av1", "ErrInvalidVersion"); ("av1", "ErrNonZeroReservedBits"); ("mp4", "decoders"); ("mp4", "decodersSR"); ("mp4", "sgeDecoders"); ("mp4", "uuidPiffSenc"); ("mp4", "uuidTfrf"); ("mp4", "uuidTfxd")]
    [];
  mkreach KDecodeSR ["mp4.DecodeFileSR"]
    [("bits", "ErrSliceRead"); ("bits", "ErrSliceWrite"); ("avc", "ErrCannotParseAVCExtension"); ("avc", "ErrLengthSize"); ("hevc", "ErrLengthSize"); ("av1", "ErrInvalidMarker"); ("av1", "ErrInvalidVersion"); ("av1", "ErrNonZeroReservedBits"); ("mp4", "decodersSR"); ("mp4", "sgeDecoders"); ("mp4", "uuidPiffSenc"); ("mp4", "uuidTfrf"); ("mp4", "uuidTfxd")]
    [];
  mkreach KInfo ["mp4.File.Info"]
    [("bits", "ErrSliceWrite"); ("mp4", "AC3BitrateCodesKbps"); ("mp4", "AC3SampleRates"); ("mp4", "AC3acmodChannelTable"); ("mp4", "CustomChannelMapLocations"); ("mp4", "EC3ChannelLocationBits"); ("mp4", "PrftFlagsInterpretation"); ("mp4", "uuidPiffSenc"); ("mp4", "uuidTfrf"); ("mp4", "uuidTfxd")]
    [];
  mkreach KEncode ["mp4.File.Encode"]
    [("bits", "ErrSliceWrite"); ("mp4", "uuidPiffSenc"); ("mp4", "uuidTfrf"); ("mp4", "uuidTfxd")]
    [];
  mkreach KEncodeSW ["mp4.File.EncodeSW"]
    [("bits", "ErrSliceWrite"); ("mp4", "uuidPiffSenc"); ("mp4", "uuidTfrf"); ("mp4", "uuidTfxd")]
    [];
  mkreach KSamples ["mp4.Fragment.GetFullSamples"]
    [("bits", "ErrSliceWrite")]
    [];
  mkreach KEncrypt ["mp4.InitProtect"; "mp4.EncryptFragment"]
    [("bits", "ErrNotReadSeeker"); ("bits", "ErrSliceWrite"); ("avc", "ErrNoSliceHeader"); ("avc", "ErrNotPPS"); ("avc", "ErrNotSPS"); ("hevc", "ErrNotPPS"); ("mp4", "uuidPiffSenc"); ("mp4", "uuidTfrf"); ("mp4", "uuidTfxd")]
    [];
  mkreach KDecrypt ["mp4.DecryptInit"; "mp4.DecryptSegment"]
    [("bits", "ErrSliceRead"); ("bits", "ErrSliceWrite"); ("mp4", "uuidPiffSenc"); ("mp4", "uuidTfrf"); ("mp4", "uuidTfxd")]
    [];
  mkreach KDecryptInit ["mp4.DecryptInit"]
    [("bits", "ErrSliceWrite")]
    [];
  mkreach KInitProtect ["mp4.InitProtect"]
    [("bits", "ErrNotReadSeeker"); ("bits", "ErrSliceWrite"); ("avc", "ErrNoSliceHeader"); ("avc", "ErrNotPPS"); ("avc", "ErrNotSPS"); ("hevc", "ErrNotPPS")]
    [];
  mkreach KDecryptWith ["mp4.DecryptSegment"]
    [("bits", "ErrSliceRead"); ("bits", "ErrSliceWrite"); ("mp4", "uuidPiffSenc"); ("mp4", "uuidTfrf"); ("mp4", "uuidTfxd")]
    [];
  mkreach KEncryptWith ["mp4.EncryptFragment"]
    [("bits", "ErrNotReadSeeker"); ("bits", "ErrSliceWrite"); ("avc", "ErrNoSliceHeader"); ("hevc", "ErrNotPPS"); ("mp4", "uuidPiffSenc"); ("mp4", "uuidTfrf"); ("mp4", "uuidTfxd")]
    [];
  mkreach KToByteStream ["avc.ConvertSampleToByteStream"]
    []
    [];
  mkreach KToNaluSample ["avc.ConvertByteStreamToNaluSample"]
    []
    [];
  mkreach KSetBoxDecoder ["mp4.SetBoxDecoder"]
    []
    [("mp4", "decoders"); ("mp4", "decodersSR")];
  mkreach KRemoveBoxDecoder ["mp4.RemoveBoxDecoder"]
    []
    [("mp4", "decoders"); ("mp4", "decodersSR")];
  mkreach KTouch ["mp4.FtypBox.AddCompatibleBrands"; "mp4.StypBox.AddCompatibleBrands"; "mp4.MdatBox.AddSampleData"]
    []
    [];
  mkreach KDecodeLazy ["mp4.DecodeFile"; "mp4.WithDecodeMode"; "mp4.DecodeMdatLazily"]
    [("bits", "ErrSliceRead"); ("bits", "ErrSliceWrite"); ("avc", "ErrCannotParseAVCExtension"); ("avc", "ErrLengthSize"); ("hevc", "ErrLengthSize"); ("av1", "ErrInvalidMarker"); ("av1", "ErrInvalidVersion"); ("av1", "ErrNonZeroReservedBits"); ("mp4", "decoders"); ("mp4", "decodersSR"); ("mp4", "sgeDecoders"); ("mp4", "uuidPiffSenc"); ("mp4", "uuidTfrf"); ("mp4", "uuidTfxd")]
    [];
  mkreach KReadData ["mp4.MdatBox.ReadData"; "mp4.MdatBox.CopyData"; "mp4.MdatBox.PayloadAbsoluteOffset"; "mp4.MdatBox.IsLazy"]
    [("bits", "ErrSliceWrite")]
    []
].

(* every EXPORTED function or method from which a change of a package-level variable is reachable *)
Definition c20_exported_writers : list xwriter := [
  mkxw "mp4" "RemoveBoxDecoder" [("mp4", "decoders"); ("mp4", "decodersSR")];
  mkxw "mp4" "SetBoxDecoder" [("mp4", "decoders"); ("mp4", "decodersSR")]
].

(* every package-level variable whose contents can be changed through a copy of its value (map, slice, pointer,
   chan, interface, struct holding one: sync.Pool, sync.Once, caches ...) and that is reachable from an exported
   function: kind, how it is used (r read, e escape, w changed), one exported function reaching it *)
Definition c20_reachable_shared : list shared_var := [
  mkshared ("aac", "FrequencyTable") TMap "r" "aac.ADTSHeader.Frequency";
  mkshared ("aac", "ReverseFrequencies") TMap "r" "aac.AudioSpecificConfig.Encode";
  mkshared ("mp4", "AC3BitrateCodesKbps") TSlice "r" "mp4.AudioSampleEntryBox.Info";
  mkshared ("mp4", "AC3SampleRates") TSlice "r" "mp4.AudioSampleEntryBox.Info";
  mkshared ("mp4", "AC3acmodChannelTable") TSlice "r" "mp4.AudioSampleEntryBox.Info";
  mkshared ("mp4", "CustomChannelMapLocations") TMap "r" "mp4.AudioSampleEntryBox.Info";
  mkshared ("mp4", "EC3ChannelLocationBits") TSlice "r" "mp4.AudioSampleEntryBox.Info";
  mkshared ("mp4", "PrftFlagsInterpretation") TMap "r" "mp4.AudioSampleEntryBox.Info";
  mkshared ("mp4", "decoders") TMap "rw" "mp4.DecodeAudioSampleEntry";
  mkshared ("mp4", "decodersSR") TMap "rw" "mp4.DecodeAudioSampleEntry";
  mkshared ("mp4", "sgeDecoders") TMap "r" "mp4.DecodeAudioSampleEntry";
  mkshared ("mp4", "uuidPiffSenc") TSlice "e" "mp4.AlstSampleGroupEntry.Info";
  mkshared ("mp4", "uuidTfrf") TSlice "e" "mp4.AlstSampleGroupEntry.Info";
  mkshared ("mp4", "uuidTfxd") TSlice "e" "mp4.AlstSampleGroupEntry.Info"
].

(* size of the call graph *)
Definition c20_reach_stats : string := "nodes=1543 edges=22323 exported=1421".
