(* C20Model.v -- DEFINITIONS ONLY.

   Part 1: the footprint model.  Locations are package-level variables (Global), the caller's
   shared input byte slices (Input) and objects owned by one goroutine (Obj t o).  An operation
   is a deterministic heap function with a declared (reads, writes) footprint; `respects` is the
   obligation that the function really stays inside its footprint.  Threads are op lists,
   schedules are interleavings (lists of (thread, op) events).

   Part 2: the footprint table of the mp4ff API operations exercised by the C20 harness
   (harness/c20).  Which location holds the byte payload of a decoded object depends on HOW it
   was decoded: through an io.Reader the payload is copied into the object (readBoxBody allocates),
   through a bits.SliceReader it is a sub-slice of the caller's buffer
   (FixedSliceReader.ReadBytes / RemainingBytes return s.slice[pos:pos+n]; DecodeMdatSR stores
   that slice in MdatBox.Data).  Fragment.GetFullSamples returns sub-slices of mdat.Data, and the
   in-place operations (CryptSampleCenc / cryptSampleCbcs under EncryptFragment, DecryptSegment,
   avc.ConvertSampleToByteStream, the 4-byte-start-code branch of ConvertByteStreamToNaluSample)
   write through those slices.  The table tracks that aliasing (`pl`) and derives each
   operation's footprint from it.  The step functions are small arithmetic stand-ins (a data race
   is not a Gallina notion; only the footprints matter); en/decryption is an involutive xor so that
   the interference of two in-place decryptions of one shared buffer is visible in the values. *)
From V.lib Require Import Base.

(* ------------------------------------------------------------------ part 1: footprints *)
Definition thread := nat.
Bind Scope nat_scope with thread.

Inductive loc : Type :=
| Global (g : nat)            (* package-level variable g of the library *)
| Input (i : nat)             (* shared input byte slice i (owned by the caller, read-only by contract) *)
| Obj (t : thread) (o : nat). (* cell o of the structures owned by goroutine t *)

Definition loc_eqb (a b : loc) : bool :=
  match a, b with
  | Global x, Global y => Nat.eqb x y
  | Input x, Input y => Nat.eqb x y
  | Obj t o, Obj t' o' => Nat.eqb t t' && Nat.eqb o o'
  | _, _ => false
  end.

Definition heap := loc -> N.

Definition mem (l : loc) (ls : list loc) : bool := existsb (loc_eqb l) ls.

Record op : Type := mkop { reads : list loc; writes : list loc; step : heap -> heap }.

(* the function stays inside its declared footprint *)
Definition respects (o : op) : Prop :=
  (forall h l, mem l (writes o) = false -> step o h l = h l) /\
  (forall h1 h2, (forall l, mem l (reads o) = true -> h1 l = h2 l) ->
                 forall l, mem l (writes o) = true -> step o h1 l = step o h2 l).

Definition event := (thread * op)%type.

Fixpoint run (p : list op) (h : heap) : heap :=
  match p with [] => h | o :: r => run r (step o h) end.

Definition run_sched (s : list event) (h : heap) : heap := run (map snd s) h.

(* the ops of thread t in schedule order *)
Definition proj (t : thread) (s : list event) : list op :=
  map snd (filter (fun e => Nat.eqb (fst e) t) s).

Definition is_interleaving (s : list event) (progs : thread -> list op) : Prop :=
  forall t, proj t s = progs t.

Definition own (t : thread) (l : loc) : bool :=
  match l with Obj t' _ => Nat.eqb t' t | _ => false end.

Definition shared_ro (l : loc) : bool :=
  match l with Global _ | Input _ => true | Obj _ _ => false end.

(* writes only own t, reads only own t or shared read-only locations *)
Definition local (t : thread) (o : op) : bool :=
  forallb (own t) (writes o) && forallb (fun l => own t l || shared_ro l) (reads o).

(* two ops conflict: one writes a location the other reads or writes *)
Definition conflictb (a b : op) : bool :=
  existsb (fun l => mem l (reads b) || mem l (writes b)) (writes a) ||
  existsb (fun l => mem l (reads a)) (writes b).

(* no two ops of different threads conflict (there is no synchronisation in the model, so any
   conflicting pair of different threads is unordered: a data race) *)
Definition race_free (s : list event) : Prop :=
  forall i j e1 e2, (i < j)%nat -> nth_error s i = Some e1 -> nth_error s j = Some e2 ->
                    fst e1 <> fst e2 -> conflictb (snd e1) (snd e2) = false.

Fixpoint race_freeb (s : list event) : bool :=
  match s with
  | [] => true
  | e :: r => forallb (fun e' => Nat.eqb (fst e) (fst e') || negb (conflictb (snd e) (snd e'))) r
              && race_freeb r
  end.

(* ops given by simultaneous assignments computed from the values of the read locations *)
Definition assign := (loc * (list N -> N))%type.

Fixpoint find_assign (l : loc) (ws : list assign) : option (list N -> N) :=
  match ws with
  | [] => None
  | (l', f) :: r => if loc_eqb l l' then Some f else find_assign l r
  end.

Definition assign_step (rs : list loc) (ws : list assign) (h : heap) : heap :=
  fun l => match find_assign l ws with Some f => f (map h rs) | None => h l end.

Definition aop (rs : list loc) (ws : list assign) : op :=
  mkop rs (map fst ws) (assign_step rs ws).

(* ------------------------------------------------------------------ part 2: API footprint table *)
(* package-level variables read by the API (C20PkgVars.v lists all of them with their writers) *)
Definition gDecoders : loc := Global 0.    (* mp4/box.go:18 *)
Definition gDecodersSR : loc := Global 1.  (* mp4/boxsr.go:9 *)
Definition gSge : loc := Global 2.         (* mp4/samplegroupentries.go:26 *)
Definition gTables : loc := Global 3.      (* lookup tables, uuid constants, error values *)

(* where a decode call takes its bytes from *)
Inductive src : Type :=
| SIn (i : nat)    (* a shared input slice *)
| SObj (o : nat).  (* an output buffer this goroutine produced itself *)

Inductive api : Type :=
| ADecode (s : src) (d : nat)     (* mp4.DecodeFile(bytes.NewReader(buf)) -> object d *)
| ADecodeSR (s : src) (d : nat)   (* mp4.DecodeFileSR(bits.NewFixedSliceReader(buf)) -> object d *)
| AInfo (o d : nat)               (* File.Info into buffer d *)
| AEncode (o d : nat)             (* File.Encode into buffer d (updates data offsets / LargeSize in o) *)
| AEncodeSW (o d : nat)           (* File.EncodeSW into buffer d *)
| ASamples (o d : nat)            (* Fragment.GetFullSamples of every fragment -> sample list d (views) *)
| AEncrypt (o : nat)              (* InitProtect + EncryptFragment on every fragment of o, in place *)
| ADecrypt (o : nat)              (* DecryptInit + DecryptSegment on every segment of o, in place *)
| ADecryptInit (o d : nat)        (* mp4.DecryptInit(init of o) -> DecryptInfo d; d points into o (sinf/tenc/trex) *)
| AInitProtect (o d : nat)        (* mp4.InitProtect(init of o) -> InitProtectData d; ProtFunc closes over o's avcC/hvcC *)
| ADecryptWith (m : nat) (k : src) (* DecryptSegment on every segment of m with a DecryptInfo: an own object (SObj) or one
                                     shared read-only between the goroutines (SIn j); in place on m ONLY *)
| AEncryptWith (m k : nat)        (* EncryptFragment on every fragment of m with protect data k; in place on m ONLY *)
| AToByteStream (o : nat)         (* avc.ConvertSampleToByteStream on the samples of o, in place *)
| AToNaluSample (o : nat)         (* avc.ConvertByteStreamToNaluSample (4-byte start codes), in place *)
| ATouch (o : nat)                (* FtypBox / StypBox.AddCompatibleBrands, MdatBox.AddSampleData on the boxes of o: a byte field
                                     that may be a view of the input grows by append.  FixedSliceReader.ReadBytes clips the
                                     capacity of its result (repo fix c5165a3), so append REPLACES the field by a fresh
                                     array: the structure changes, no payload byte is written *)
| ASetBoxDecoder                  (* mp4.SetBoxDecoder: excluded by the property, modelled to show why *)
| ARemoveBoxDecoder
| ADecodeLazy (s : src) (d : nat) (* mp4.DecodeFile(bytes.NewReader(buf), WithDecodeMode(DecModeLazyMdat)) -> object d: the other
                                     boxes' byte fields are copied as by ADecode, DecodeMdatLazily keeps only the payload SIZE
                                     (MdatBox.Data stays nil): the object holds no view of buf *)
| AReadData (o : nat) (s : src) (d : nat).
                                  (* MdatBox.ReadData(start, size, bytes.NewReader(buf of s)) on every mdat of o -> byte ranges d.
                                     Two branches (mp4/mdat.go): lazy mdat -> Seek + ReadFull of rs into a FRESH buffer;
                                     otherwise rs is ignored and the result is m.Data[a:b:b], a view of the payload of o *)

(* object o of thread t: structure cell and own payload cell *)
Definition sloc (t : thread) (o : nat) : loc := Obj t (2 * o)%nat.
Definition ownp (t : thread) (o : nat) : loc := Obj t (2 * o + 1)%nat.

(* aliasing state of one goroutine: where the payload bytes of object o live *)
Definition astate := list (nat * loc).

Fixpoint assoc (o : nat) (st : astate) : option loc :=
  match st with
  | [] => None
  | (o', l) :: r => if Nat.eqb o o' then Some l else assoc o r
  end.

Definition pl (t : thread) (st : astate) (o : nat) : loc :=
  match assoc o st with Some l => l | None => ownp t o end.

Definition src_loc (t : thread) (st : astate) (s : src) : loc :=
  match s with SIn i => Input i | SObj o => pl t st o end.

(* stand-in value functions *)
Definition mixl (vs : list N) : N := fold_left (fun a v => 3 * a + v + 1) vs 7.
Definition crypt_key : N := 23130.  (* 0x5a5a *)
Definition f_struct (vs : list N) : N := mixl vs.
Definition f_payload (vs : list N) : N := nth 0 vs 0.                 (* the copied bytes *)
Definition f_out (vs : list N) : N := mixl vs + 1.
Definition f_touch (vs : list N) : N := nth 0 vs 0 + 1.
Definition f_crypt (vs : list N) : N := N.lxor (nth 1 vs 0) crypt_key. (* second read = payload *)
Definition f_conv (vs : list N) : N := N.lxor (nth 0 vs 0) 1.

(* what a decrypt / encrypt operation reads of its key material *)
Definition key_locs (t : thread) (st : astate) (k : src) : list loc :=
  match k with SIn j => [Input j] | SObj o => [sloc t o; pl t st o] end.

Definition api_fp (t : thread) (st : astate) (a : api) : list loc * list assign :=
  match a with
  | ADecryptInit o d | AInitProtect o d =>
      ([sloc t o; pl t st o; gTables], [(sloc t o, f_touch); (sloc t d, f_struct)])
  | ADecryptWith m k =>
      (sloc t m :: pl t st m :: gTables :: key_locs t st k, [(sloc t m, f_touch); (pl t st m, f_crypt)])
  | AEncryptWith m k =>
      (sloc t m :: pl t st m :: gTables :: key_locs t st (SObj k), [(sloc t m, f_touch); (pl t st m, f_crypt)])
  | ADecode s d =>
      (* some Reader-path box decoders read the body and hand it to the SliceReader decoders: both registries *)
      ([src_loc t st s; gDecoders; gDecodersSR; gSge; gTables],
       [(sloc t d, f_struct); (ownp t d, f_payload)])
  | ADecodeSR s d =>
      ([src_loc t st s; gDecodersSR; gSge; gTables],
       [(sloc t d, f_struct)])
  | AInfo o d =>   (* Info is not read-only on its own object: SencBox.Info sets s.Flags *)
      ([sloc t o; pl t st o; gTables], [(sloc t o, f_touch); (sloc t d, f_struct); (ownp t d, f_out)])
  | AEncode o d | AEncodeSW o d =>
      (* encoders read the uuid constants and the writers' error values *)
      ([sloc t o; pl t st o; gTables], [(sloc t o, f_touch); (sloc t d, f_struct); (ownp t d, f_out)])
  | ASamples o d =>   (* GetFullSamples calls trun.AddSampleDefaultValues: it updates the fragment it reads *)
      ([sloc t o; gTables], [(sloc t o, f_touch); (sloc t d, f_struct)])
  | AEncrypt o | ADecrypt o =>
      ([sloc t o; pl t st o; gTables], [(sloc t o, f_touch); (pl t st o, f_crypt)])
  | AToByteStream o | AToNaluSample o =>
      ([pl t st o], [(pl t st o, f_conv)])
  | ATouch o =>
      ([sloc t o; pl t st o; gTables], [(sloc t o, f_touch)])
  | ADecodeLazy s d =>   (* same cells as ADecode: the payload cell of d holds the copied non-mdat byte fields *)
      ([src_loc t st s; gDecoders; gDecodersSR; gSge; gTables],
       [(sloc t d, f_struct); (ownp t d, f_payload)])
  | AReadData o s d =>   (* reads the source through its own ReadSeeker (lazy branch) or the payload of o (in-memory branch) *)
      ([src_loc t st s; sloc t o; pl t st o; gTables], [(sloc t d, f_struct); (ownp t d, f_payload)])
  | ASetBoxDecoder | ARemoveBoxDecoder =>
      ([gDecoders; gDecodersSR], [(gDecoders, f_touch); (gDecodersSR, f_touch)])
  end.

Definition api_op (t : thread) (st : astate) (a : api) : op :=
  aop (fst (api_fp t st a)) (snd (api_fp t st a)).

Definition api_next (t : thread) (st : astate) (a : api) : astate :=
  match a with
  | ADecode _ d | AInfo _ d | AEncode _ d | AEncodeSW _ d | ADecodeLazy _ d => (d, ownp t d) :: st
  | AReadData o _ d => (d, pl t st o) :: st   (* lazy o: pl = ownp t o (own); SliceReader-decoded o: the input *)
  | ADecodeSR s d => (d, src_loc t st s) :: st
  | ASamples o d | ADecryptInit o d | AInitProtect o d => (d, pl t st o) :: st
  | _ => st
  end.

Fixpoint compile (t : thread) (st : astate) (p : list api) : list op :=
  match p with
  | [] => []
  | a :: r => api_op t st a :: compile t (api_next t st a) r
  end.

Fixpoint final_state (t : thread) (st : astate) (p : list api) : astate :=
  match p with [] => st | a :: r => final_state t (api_next t st a) r end.

(* syntactic guards *)
Definition registry_free (a : api) : bool :=
  match a with ASetBoxDecoder | ARemoveBoxDecoder => false | _ => true end.

(* an in-place operation must not be applied to an object whose payload is a shared input *)
Definition inplace_ok (t : thread) (st : astate) (a : api) : bool :=
  match a with
  | AEncrypt o | ADecrypt o | AToByteStream o | AToNaluSample o => own t (pl t st o)
  | ADecryptWith m _ | AEncryptWith m _ => own t (pl t st m)
  | _ => true
  end.

Fixpoint prog_safe (t : thread) (st : astate) (p : list api) : bool :=
  match p with
  | [] => true
  | a :: r => registry_free a && inplace_ok t st a && prog_safe t (api_next t st a) r
  end.

(* Reader-path programs: no SliceReader decoding of a SHARED input, no registry modification *)
Definition reader_only_op (a : api) : bool :=
  match a with
  | ADecodeSR (SIn _) _ | ASetBoxDecoder | ARemoveBoxDecoder => false
  | _ => true
  end.
Definition reader_only (p : list api) : bool := forallb reader_only_op p.

(* observables for the correspondence check *)
Definition input_ids (ls : list loc) : list nat :=
  flat_map (fun l => match l with Input i => [i] | _ => [] end) ls.

(* per op: (payload location of the destination/operand object after the op, inputs written) *)
Definition api_target (a : api) : nat :=
  match a with
  | ADecode _ d | ADecodeSR _ d | AInfo _ d | AEncode _ d | AEncodeSW _ d | ASamples _ d => d
  | ADecryptInit _ d | AInitProtect _ d | ADecodeLazy _ d | AReadData _ _ d => d
  | ADecryptWith m _ | AEncryptWith m _ => m
  | AEncrypt o | ADecrypt o | AToByteStream o | AToNaluSample o | ATouch o => o
  | _ => 0%nat
  end.

Fixpoint observe (t : thread) (st : astate) (p : list api) : list (loc * list nat) :=
  match p with
  | [] => []
  | a :: r =>
      let st' := api_next t st a in
      (pl t st' (api_target a), input_ids (writes (api_op t st a))) :: observe t st' r
  end.
