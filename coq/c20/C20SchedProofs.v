(* C20SchedProofs.v -- schedule independence from footprints (generic part). *)
From V.lib Require Import Base.
From V.c20 Require Import C20Model.

Lemma loc_eqb_eq a b : loc_eqb a b = true <-> a = b.
Proof.
  destruct a, b; cbn [loc_eqb]; split; intro H; try discriminate; try congruence.
  - apply Nat.eqb_eq in H. congruence.
  - inversion H. apply Nat.eqb_refl.
  - apply Nat.eqb_eq in H. congruence.
  - inversion H. apply Nat.eqb_refl.
  - apply andb_true_iff in H. destruct H as [H1 H2].
    apply Nat.eqb_eq in H1. apply Nat.eqb_eq in H2. congruence.
  - inversion H. rewrite !Nat.eqb_refl. reflexivity.
Qed.

Lemma loc_eqb_refl a : loc_eqb a a = true.
Proof. apply loc_eqb_eq. reflexivity. Qed.

Lemma mem_In l ls : mem l ls = true <-> In l ls.
Proof.
  unfold mem. rewrite existsb_exists. split.
  - intros [x [Hin Heq]]. apply loc_eqb_eq in Heq. subst. exact Hin.
  - intros Hin. exists l. split; [exact Hin | apply loc_eqb_refl].
Qed.

(* the region a thread may look at *)
Definition visible (t : thread) (l : loc) : bool := own t l || shared_ro l.

Lemma local_writes t o l : local t o = true -> mem l (writes o) = true -> own t l = true.
Proof.
  unfold local. intros H Hm. apply andb_true_iff in H. destruct H as [Hw _].
  rewrite forallb_forall in Hw. apply Hw. apply mem_In. exact Hm.
Qed.

Lemma local_reads t o l : local t o = true -> mem l (reads o) = true -> visible t l = true.
Proof.
  unfold local. intros H Hm. apply andb_true_iff in H. destruct H as [_ Hr].
  rewrite forallb_forall in Hr. apply (Hr l). apply mem_In. exact Hm.
Qed.

Lemma own_two t1 t2 l : own t1 l = true -> own t2 l = true -> t1 = t2.
Proof.
  destruct l; cbn [own]; try discriminate. intros H1 H2.
  apply Nat.eqb_eq in H1. apply Nat.eqb_eq in H2. congruence.
Qed.

Lemma own_not_shared t l : own t l = true -> shared_ro l = false.
Proof. destruct l; cbn [own shared_ro]; intro H; try discriminate; reflexivity. Qed.

(* an op of another thread does not touch what t can see *)
Lemma other_step t1 t o h l :
  respects o -> local t1 o = true -> t1 <> t -> visible t l = true -> step o h l = h l.
Proof.
  intros [Hframe _] Hloc Hne Hvis. apply Hframe.
  destruct (mem l (writes o)) eqn:Hm; [|reflexivity]. exfalso.
  pose proof (local_writes _ _ _ Hloc Hm) as Hown1.
  unfold visible in Hvis. apply orb_true_iff in Hvis. destruct Hvis as [Hown | Hsh].
  - apply Hne. eapply own_two; eassumption.
  - rewrite (own_not_shared _ _ Hown1) in Hsh. discriminate.
Qed.

(* a local op maps heaps that agree on the visible region to heaps that agree on it *)
Lemma agree_step t o h1 h2 :
  respects o -> local t o = true ->
  (forall l, visible t l = true -> h1 l = h2 l) ->
  forall l, visible t l = true -> step o h1 l = step o h2 l.
Proof.
  intros [Hframe Hdet] Hloc Hag l Hvis.
  destruct (mem l (writes o)) eqn:Hm.
  - apply Hdet; [|exact Hm]. intros l' Hr. apply Hag. eapply local_reads; eassumption.
  - rewrite !Hframe by exact Hm. apply Hag. exact Hvis.
Qed.

Lemma agree_run t p : forall h1 h2,
  (forall o, In o p -> respects o /\ local t o = true) ->
  (forall l, visible t l = true -> h1 l = h2 l) ->
  forall l, visible t l = true -> run p h1 l = run p h2 l.
Proof.
  induction p as [|o r IH]; intros h1 h2 Hall Hag l Hvis; cbn [run].
  - apply Hag. exact Hvis.
  - apply IH; [intros o' Hin; apply Hall; right; exact Hin | | exact Hvis].
    destruct (Hall o (or_introl eq_refl)) as [Hres Hloc].
    apply agree_step; assumption.
Qed.

Definition all_local (s : list event) : Prop :=
  forall e, In e s -> respects (snd e) /\ local (fst e) (snd e) = true.

Lemma proj_In t s o : In o (proj t s) -> In (t, o) s.
Proof.
  unfold proj. intros H. apply in_map_iff in H. destruct H as [[t' o'] [Heq Hin]].
  cbn [snd] in Heq. subst o'. apply filter_In in Hin. destruct Hin as [Hin Ht].
  cbn [fst] in Ht. apply Nat.eqb_eq in Ht. subst t'. exact Hin.
Qed.

(* every thread sees, at every point of every schedule, exactly what it would see running alone *)
Lemma sched_proj s : forall h t l,
  all_local s -> visible t l = true -> run_sched s h l = run (proj t s) h l.
Proof.
  induction s as [|[t1 o] r IH]; intros h t l Hall Hvis.
  - reflexivity.
  - assert (Hall' : all_local r) by (intros e Hin; apply Hall; right; exact Hin).
    destruct (Hall (t1, o) (or_introl eq_refl)) as [Hres Hloc]. cbn [fst snd] in Hres, Hloc.
    unfold run_sched. cbn [map snd run]. fold (run_sched r (step o h)).
    rewrite (IH (step o h) t l Hall' Hvis).
    unfold proj. cbn [filter fst]. destruct (Nat.eqb t1 t) eqn:Ht.
    + reflexivity.
    + fold (proj t r). apply Nat.eqb_neq in Ht.
      apply agree_run with (t := t); [ | | exact Hvis].
      * intros o' Hin. apply proj_In in Hin. apply (Hall' (t, o') Hin).
      * intros l' Hv'. eapply other_step; eassumption.
Qed.

Lemma sched_shared_unchanged s : forall h l,
  all_local s -> shared_ro l = true -> run_sched s h l = h l.
Proof.
  induction s as [|[t1 o] r IH]; intros h l Hall Hsh.
  - reflexivity.
  - assert (Hall' : all_local r) by (intros e Hin; apply Hall; right; exact Hin).
    destruct (Hall (t1, o) (or_introl eq_refl)) as [[Hframe _] Hloc]. cbn [fst snd] in Hframe, Hloc.
    unfold run_sched. cbn [map snd run]. fold (run_sched r (step o h)).
    rewrite (IH _ _ Hall' Hsh). apply Hframe.
    destruct (mem l (writes o)) eqn:Hm; [|reflexivity].
    pose proof (local_writes _ _ _ Hloc Hm) as Hown.
    rewrite (own_not_shared _ _ Hown) in Hsh. discriminate.
Qed.

Lemma local_no_conflict t1 t2 o1 o2 :
  local t1 o1 = true -> local t2 o2 = true -> t1 <> t2 -> conflictb o1 o2 = false.
Proof.
  intros H1 H2 Hne. unfold conflictb. apply orb_false_iff. split.
  - apply not_true_is_false. intro H. apply existsb_exists in H. destruct H as [l [Hin Hc]].
    apply mem_In in Hin. pose proof (local_writes _ _ _ H1 Hin) as Ho1.
    apply orb_true_iff in Hc. destruct Hc as [Hr | Hw].
    + pose proof (local_reads _ _ _ H2 Hr) as Hv. unfold visible in Hv.
      apply orb_true_iff in Hv. destruct Hv as [Ho2 | Hs].
      * apply Hne. eapply own_two; eassumption.
      * rewrite (own_not_shared _ _ Ho1) in Hs. discriminate.
    + pose proof (local_writes _ _ _ H2 Hw) as Ho2. apply Hne. eapply own_two; eassumption.
  - apply not_true_is_false. intro H. apply existsb_exists in H. destruct H as [l [Hin Hr]].
    apply mem_In in Hin. pose proof (local_writes _ _ _ H2 Hin) as Ho2.
    pose proof (local_reads _ _ _ H1 Hr) as Hv. unfold visible in Hv.
    apply orb_true_iff in Hv. destruct Hv as [Ho1 | Hs].
    + apply Hne. eapply own_two; eassumption.
    + rewrite (own_not_shared _ _ Ho2) in Hs. discriminate.
Qed.

Lemma sched_race_free s : all_local s -> race_free s.
Proof.
  intros Hall i j e1 e2 _ H1 H2 Hne.
  apply nth_error_In in H1. apply nth_error_In in H2.
  destruct (Hall _ H1) as [_ L1]. destruct (Hall _ H2) as [_ L2].
  eapply local_no_conflict; eassumption.
Qed.

Lemma interleaving_all_local s progs :
  (forall t o, In o (progs t) -> respects o /\ local t o = true) ->
  is_interleaving s progs -> all_local s.
Proof.
  intros Hp Hi [t o] Hin. cbn [fst snd]. apply (Hp t). rewrite <- (Hi t).
  unfold proj. apply in_map_iff. exists (t, o). split; [reflexivity|].
  apply filter_In. split; [exact Hin|]. cbn [fst]. apply Nat.eqb_refl.
Qed.

Lemma own_visible t l : own t l = true -> visible t l = true.
Proof. unfold visible. intros ->. reflexivity. Qed.

(* the property theorem *)
Lemma schedule_independence :
  forall (progs : thread -> list op) (s : list event) (h0 : heap),
    (forall t o, In o (progs t) -> respects o /\ local t o = true) ->
    is_interleaving s progs ->
    race_free s /\
    (forall t l, own t l = true -> run_sched s h0 l = run (progs t) h0 l) /\
    (forall l, shared_ro l = true -> run_sched s h0 l = h0 l).
Proof.
  intros progs s h0 Hp Hi. pose proof (interleaving_all_local _ _ Hp Hi) as Hall.
  split; [apply sched_race_free; exact Hall|]. split.
  - intros t l Ho. rewrite <- (Hi t). apply sched_proj; [exact Hall | apply own_visible; exact Ho].
  - intros l Hs. apply sched_shared_unchanged; assumption.
Qed.

(* the same at every point of the schedule (every prefix): each op reads, in the interleaved run,
   exactly the values it reads in the run of its thread alone *)
Lemma prefix_independence :
  forall (s1 s2 : list event) (h0 : heap),
    all_local (s1 ++ s2) ->
    forall t l, own t l = true \/ shared_ro l = true ->
                run_sched s1 h0 l = run (proj t s1) h0 l.
Proof.
  intros s1 s2 h0 Hall t l Hl. apply sched_proj.
  - intros e Hin. apply Hall. apply in_or_app. left. exact Hin.
  - unfold visible. destruct Hl as [-> | ->]; [reflexivity | apply orb_true_r].
Qed.

(* ops built from simultaneous assignments respect their footprint *)
Lemma find_assign_none l ws : mem l (map fst ws) = false -> find_assign l ws = None.
Proof.
  induction ws as [|[l' f] r IH]; cbn [map fst mem existsb find_assign]; intro H; [reflexivity|].
  apply orb_false_iff in H. destruct H as [H1 H2]. rewrite H1. apply IH. exact H2.
Qed.

Lemma find_assign_some l ws : mem l (map fst ws) = true -> find_assign l ws <> None.
Proof.
  induction ws as [|[l' f] r IH]; cbn [map fst mem existsb find_assign]; intro H; [discriminate|].
  destruct (loc_eqb l l'); [discriminate|]. cbn [orb] in H. apply IH. exact H.
Qed.

Lemma aop_respects rs ws : respects (aop rs ws).
Proof.
  split.
  - intros h l Hm. cbn [aop step writes] in *. unfold assign_step.
    rewrite (find_assign_none _ _ Hm). reflexivity.
  - intros h1 h2 Hag l Hm. cbn [aop step reads writes] in *. unfold assign_step.
    assert (Hmap : map h1 rs = map h2 rs).
    { apply map_ext_in. intros a Hin. apply Hag. apply mem_In. exact Hin. }
    rewrite Hmap. pose proof (find_assign_some _ _ Hm) as Hs.
    destruct (find_assign l ws) as [f|]; [reflexivity | contradiction].
Qed.

Lemma race_freeb_sound s : race_free s -> race_freeb s = true.
Proof.
  induction s as [|e r IH]; intro H; [reflexivity|]. cbn [race_freeb]. apply andb_true_iff. split.
  - apply forallb_forall. intros e' Hin. cbv beta. apply In_nth_error in Hin. destruct Hin as [n Hn].
    destruct (Nat.eq_dec (fst e) (fst e')) as [He|He].
    + apply Nat.eqb_eq in He. rewrite He. reflexivity.
    + assert (Hc : conflictb (snd e) (snd e') = false) by (apply (H 0%nat (S n) e e'); [lia | reflexivity | exact Hn | exact He]).
      rewrite Hc. apply orb_true_r.
  - apply IH. intros i j e1 e2 Hij H1 H2 Hne. apply (H (S i) (S j) e1 e2); [lia | exact H1 | exact H2 | exact Hne].
Qed.
