(* C20LazyProofs.v -- the lazy-mdat path of mp4/mdat.go in the footprint table (ADecodeLazy / AReadData).
   DecodeFile(rs, WithDecodeMode(DecModeLazyMdat)) keeps no view of the caller's bytes and MdatBox.ReadData on a lazy
   mdat fills a fresh buffer from the goroutine's own ReadSeeker: for ALL sources, goroutines and aliasing states both
   operations are local without any guard, write no shared input, and every in-place operation of the table may follow
   on the result.  The other branch of ReadData (mdat in memory) returns m.Data[a:b:b]: after a SliceReader decode of a
   shared input that is a view of the input, and the in-place operations on it are exactly the guarded ones. *)
From V.lib Require Import Base.
From Coq Require Import String.
From V.c20 Require Import C20Model C20Facts C20SchedProofs C20ApiProofs C20ReachProofs C20AliasProofs.

Lemma assoc_hd o l st : assoc o ((o, l) :: st) = Some l.
Proof. cbn [assoc]. rewrite Nat.eqb_refl. reflexivity. Qed.

Lemma pl_hd t o l st : pl t ((o, l) :: st) o = l.
Proof. unfold pl. rewrite assoc_hd. reflexivity. Qed.

(* state after lazy decode of s into o followed by ReadData into d *)
Definition lazy_st (t : thread) (st : astate) (s : src) (o d : nat) : astate :=
  api_next t (api_next t st (ADecodeLazy s o)) (AReadData o s d).

Lemma lazy_decode_pl t st s o : pl t (api_next t st (ADecodeLazy s o)) o = ownp t o.
Proof. cbn [api_next]. apply pl_hd. Qed.

Lemma lazy_read_pl t st s o d : pl t (lazy_st t st s o d) d = ownp t o.
Proof. unfold lazy_st. cbn [api_next]. rewrite pl_hd. apply pl_hd. Qed.

(* both operations are local in every state whose payload locations are own cells or inputs: no guard *)
Lemma lazy_ops_local t st a :
  st_ok t st -> (kind_of a = KDecodeLazy \/ kind_of a = KReadData) -> local t (api_op t st a) = true.
Proof.
  intros Hst Hk. apply api_op_local; [exact Hst | | ];
    destruct a; destruct Hk as [Hk | Hk]; try discriminate Hk; reflexivity.
Qed.

Lemma input_ids_own t (ls : list loc) : forallb (own t) ls = true -> input_ids ls = [].
Proof.
  induction ls as [|l r IH]; [reflexivity|]. cbn [forallb]. intro H. apply andb_true_iff in H. destruct H as [Hl Hr].
  destruct l as [g|i|t' o]; cbn [own] in Hl; try discriminate Hl. cbn [input_ids flat_map app]. apply IH. exact Hr.
Qed.

Lemma lazy_ops_write_no_input t st a :
  (kind_of a = KDecodeLazy \/ kind_of a = KReadData) -> input_ids (writes (api_op t st a)) = [].
Proof.
  intro Hk. apply (input_ids_own t).
  destruct a; destruct Hk as [Hk | Hk]; try discriminate Hk;
    unfold api_op; cbn [api_fp fst snd aop writes map forallb]; rewrite own_sloc, own_ownp; reflexivity.
Qed.

(* the full statement *)
Lemma lazy_path_private :
  forall (t : thread) (st : astate) (s : src) (o d : nat),
    st_ok t st ->
    let st1 := api_next t st (ADecodeLazy s o) in
    let st2 := lazy_st t st s o d in
    local t (api_op t st (ADecodeLazy s o)) = true /\
    local t (api_op t st1 (AReadData o s d)) = true /\
    input_ids (writes (api_op t st (ADecodeLazy s o))) = [] /\
    input_ids (writes (api_op t st1 (AReadData o s d))) = [] /\
    own t (pl t st2 d) = true /\
    (forall a, kind_inplace (kind_of a) = true -> api_target a = d ->
               inplace_ok t st2 a = true /\ local t (api_op t st2 a) = true /\
               input_ids (writes (api_op t st2 a)) = []).
Proof.
  intros t st s o d Hst st1 st2.
  assert (H1 : st_ok t st1) by (apply next_ok; exact Hst).
  assert (H2 : st_ok t st2) by (apply next_ok; exact H1).
  assert (Hd : pl t st2 d = ownp t o) by apply lazy_read_pl.
  split; [apply lazy_ops_local; [exact Hst | left; reflexivity]|].
  split; [apply lazy_ops_local; [exact H1 | right; reflexivity]|].
  split; [apply lazy_ops_write_no_input; left; reflexivity|].
  split; [apply lazy_ops_write_no_input; right; reflexivity|].
  split; [rewrite Hd; apply own_ownp|].
  intros a Hk Ht.
  assert (Hin : inplace_ok t st2 a = true).
  { destruct a; try discriminate Hk; cbn [api_target] in Ht; subst; cbn [inplace_ok]; rewrite Hd; apply own_ownp. }
  assert (Hloc : local t (api_op t st2 a) = true).
  { apply api_op_local; [exact H2 | destruct a; try discriminate Hk; reflexivity | exact Hin]. }
  split; [exact Hin|]. split; [exact Hloc|].
  apply (input_ids_own t). unfold local in Hloc. apply andb_true_iff in Hloc. apply Hloc.
Qed.

(* st_ok is an invariant of the table: it holds after every program prefix, so the statement needs no hypothesis *)
Lemma final_state_ok t p : forall st, st_ok t st -> st_ok t (final_state t st p).
Proof.
  induction p as [|a r IH]; intros st H; cbn [final_state]; [exact H | apply IH, next_ok, H].
Qed.

Lemma st_ok_nil t : st_ok t [].
Proof. apply st_own_ok, st_own_nil. Qed.

Lemma lazy_path_private_reachable :
  forall (t : thread) (p : list api) (s : src) (o d : nat),
    let st := final_state t [] p in
    let st1 := api_next t st (ADecodeLazy s o) in
    let st2 := lazy_st t st s o d in
    local t (api_op t st (ADecodeLazy s o)) = true /\
    local t (api_op t st1 (AReadData o s d)) = true /\
    input_ids (writes (api_op t st (ADecodeLazy s o))) = [] /\
    input_ids (writes (api_op t st1 (AReadData o s d))) = [] /\
    own t (pl t st2 d) = true /\
    (forall a, kind_inplace (kind_of a) = true -> api_target a = d ->
               inplace_ok t st2 a = true /\ local t (api_op t st2 a) = true /\
               input_ids (writes (api_op t st2 a)) = []).
Proof.
  intros t p s o d. apply lazy_path_private. apply final_state_ok, st_ok_nil.
Qed.

(* the in-memory branch of ReadData: after a SliceReader decode of a shared input the result is a view of that input,
   every in-place operation on it fails the guard and writes the input (same class as F1-F9) *)
Lemma read_data_in_memory_view :
  forall (t : thread) (st : astate) (i : nat) (s : src) (o d : nat),
    let st2 := api_next t (api_next t st (ADecodeSR (SIn i) o)) (AReadData o s d) in
    pl t st2 d = Input i /\
    input_ids (writes (api_op t (api_next t st (ADecodeSR (SIn i) o)) (AReadData o s d))) = [] /\
    (forall a, kind_inplace (kind_of a) = true -> api_target a = d ->
               inplace_ok t st2 a = false /\ mem (Input i) (writes (api_op t st2 a)) = true).
Proof.
  intros t st i s o d st2.
  assert (Hd : pl t st2 d = Input i).
  { unfold st2. cbn [api_next]. rewrite pl_hd. cbn [src_loc]. apply pl_hd. }
  split; [exact Hd|]. split; [apply lazy_ops_write_no_input; right; reflexivity|].
  intros a Hk Ht.
  destruct a; try discriminate Hk; cbn [api_target] in Ht; subst;
    (split; [cbn [inplace_ok]; rewrite Hd; reflexivity|]);
    unfold mem, api_op; cbn [api_fp fst snd aop writes map existsb]; rewrite Hd; unfold sloc;
    cbn [loc_eqb]; rewrite Nat.eqb_refl, ?orb_true_r; reflexivity.
Qed.

(* a concrete instance: goroutine 2 already holds a SliceReader view of input 3 (object 5), lazily decodes the SAME input
   into object 0, reads its payload into 1 and converts it in place; the same with DecodeFileSR instead is refused *)
Definition lazy_ex_prefix : list api := [ADecodeSR (SIn 3) 5; ASamples 5 6].

Lemma lazy_instance :
  pl 2 (final_state 2 [] lazy_ex_prefix) 6 = Input 3 /\
  pl 2 (lazy_st 2 (final_state 2 [] lazy_ex_prefix) (SIn 3) 0 1) 1 = ownp 2 0 /\
  kind_inplace (kind_of (AToByteStream 1)) = true /\ api_target (AToByteStream 1) = 1%nat /\
  prog_safe 2 [] (lazy_ex_prefix ++ [ADecodeLazy (SIn 3) 0; AReadData 0 (SIn 3) 1; AToByteStream 1; ADecryptWith 1 (SIn 7)]) = true /\
  prog_safe 2 [] (lazy_ex_prefix ++ [ADecodeSR (SIn 3) 0; AReadData 0 (SIn 3) 1; AToByteStream 1]) = false /\
  reader_only [ADecodeLazy (SIn 3) 0; AReadData 0 (SIn 3) 1; AToByteStream 1] = true.
Proof. repeat split. Qed.
