(* C20ApiProofs.v -- the API footprint table satisfies the hypothesis of schedule independence
   for guarded programs, and violates it for in-place operations on SliceReader-decoded data. *)
From V.lib Require Import Base.
From V.c20 Require Import C20Model C20SchedProofs.

(* payload locations are own cells or shared inputs, never somebody else's cells or globals *)
Definition loc_ok (t : thread) (l : loc) : Prop := own t l = true \/ exists i, l = Input i.
Definition st_ok (t : thread) (st : astate) : Prop := forall o l, assoc o st = Some l -> loc_ok t l.
Definition st_own (t : thread) (st : astate) : Prop := forall o l, assoc o st = Some l -> own t l = true.

Lemma own_sloc t o : own t (sloc t o) = true.
Proof. unfold sloc. cbn [own]. apply Nat.eqb_refl. Qed.
Lemma own_ownp t o : own t (ownp t o) = true.
Proof. unfold ownp. cbn [own]. apply Nat.eqb_refl. Qed.

Lemma loc_ok_visible t l : loc_ok t l -> own t l || shared_ro l = true.
Proof. intros [H | [i ->]]; [rewrite H; reflexivity | reflexivity]. Qed.

Lemma pl_ok t st o : st_ok t st -> loc_ok t (pl t st o).
Proof.
  intro H. unfold pl. destruct (assoc o st) as [l|] eqn:E.
  - eapply H. exact E.
  - left. apply own_ownp.
Qed.

Lemma pl_own t st o : st_own t st -> own t (pl t st o) = true.
Proof.
  intro H. unfold pl. destruct (assoc o st) as [l|] eqn:E; [eapply H; exact E | apply own_ownp].
Qed.

Lemma src_loc_ok t st s : st_ok t st -> loc_ok t (src_loc t st s).
Proof. intro H. destruct s as [i|o]; cbn [src_loc]; [right; eexists; reflexivity | apply pl_ok; exact H]. Qed.

Lemma st_ok_cons t st d l : st_ok t st -> loc_ok t l -> st_ok t ((d, l) :: st).
Proof.
  intros H Hl o l'. cbn [assoc]. destruct (Nat.eqb o d); [intro E; inversion E; subst; exact Hl | apply H].
Qed.

Lemma st_own_cons t st d l : st_own t st -> own t l = true -> st_own t ((d, l) :: st).
Proof.
  intros H Hl o l'. cbn [assoc]. destruct (Nat.eqb o d); [intro E; inversion E; subst; exact Hl | apply H].
Qed.

Lemma st_own_ok t st : st_own t st -> st_ok t st.
Proof. intros H o l E. left. eapply H. exact E. Qed.

Lemma next_ok t st a : st_ok t st -> st_ok t (api_next t st a).
Proof.
  intro H. destruct a; cbn [api_next]; try exact H; apply st_ok_cons; try exact H;
    try (left; apply own_ownp); try (apply src_loc_ok; exact H); try (apply pl_ok; exact H).
Qed.

Lemma next_own t st a : st_own t st -> reader_only_op a = true -> st_own t (api_next t st a).
Proof.
  intros H Hr. destruct a; cbn [api_next]; try exact H; apply st_own_cons; try exact H;
    try apply own_ownp; try (apply pl_own; exact H).
  destruct s as [i|o]; [discriminate Hr | cbn [src_loc]; apply pl_own; exact H].
Qed.

(* one op of the table is local when the guards hold *)
Lemma api_op_local t st a :
  st_ok t st -> registry_free a = true -> inplace_ok t st a = true -> local t (api_op t st a) = true.
Proof.
  intros Hst Hreg Hin.
  pose proof (fun o => loc_ok_visible _ _ (pl_ok t st o Hst)) as Hpl.
  pose proof (fun s => loc_ok_visible _ _ (src_loc_ok t st s Hst)) as Hsrc.
  destruct a; try discriminate Hreg; cbn [inplace_ok] in Hin;
    try match goal with k : src |- _ => destruct k end;
    unfold local, api_op; cbn [api_fp key_locs src_loc fst snd aop reads writes map forallb];
    rewrite ?own_sloc, ?own_ownp, ?Hpl, ?Hin; reflexivity.
Qed.

Lemma api_op_respects t st a : respects (api_op t st a).
Proof. unfold api_op. apply aop_respects. Qed.

Lemma compile_local t p : forall st,
  st_ok t st -> prog_safe t st p = true ->
  forall o, In o (compile t st p) -> respects o /\ local t o = true.
Proof.
  induction p as [|a r IH]; intros st Hst Hs o Hin; cbn [compile] in Hin; [contradiction|].
  cbn [prog_safe] in Hs. apply andb_true_iff in Hs. destruct Hs as [Hs Hr].
  apply andb_true_iff in Hs. destruct Hs as [Hreg Hip].
  destruct Hin as [<- | Hin].
  - split; [apply api_op_respects | apply api_op_local; assumption].
  - apply (IH (api_next t st a)); [apply next_ok; exact Hst | exact Hr | exact Hin].
Qed.

Lemma reader_only_safe t p : forall st, st_own t st -> reader_only p = true -> prog_safe t st p = true.
Proof.
  induction p as [|a r IH]; intros st Hst Hr; [reflexivity|].
  unfold reader_only in Hr. cbn [forallb] in Hr. apply andb_true_iff in Hr. destruct Hr as [Ha Hr].
  cbn [prog_safe]. rewrite (IH (api_next t st a)); [ | apply next_own; assumption | exact Hr].
  rewrite andb_true_r. apply andb_true_iff. split.
  - destruct a; try reflexivity; discriminate Ha.
  - destruct a; cbn [inplace_ok]; try reflexivity; apply pl_own; exact Hst.
Qed.

Lemma st_own_nil t : st_own t [].
Proof. intros o l E. discriminate E. Qed.

Lemma api_footprints :
  forall (t : thread) (p : list api),
    reader_only p = true \/ prog_safe t [] p = true ->
    forall o, In o (compile t [] p) -> respects o /\ local t o = true.
Proof.
  intros t p H. apply compile_local.
  - apply st_own_ok, st_own_nil.
  - destruct H as [H | H]; [apply reader_only_safe; [apply st_own_nil | exact H] | exact H].
Qed.

Lemma api_schedule_independence :
  forall (progs : thread -> list api) (s : list event) (h0 : heap),
    (forall t, reader_only (progs t) = true \/ prog_safe t [] (progs t) = true) ->
    is_interleaving s (fun t => compile t [] (progs t)) ->
    race_free s /\
    (forall t l, own t l = true -> run_sched s h0 l = run (compile t [] (progs t)) h0 l) /\
    (forall l, shared_ro l = true -> run_sched s h0 l = h0 l).
Proof.
  intros progs s h0 H Hi.
  apply (schedule_independence (fun t => compile t [] (progs t)) s h0); [|exact Hi].
  intros t o Hin. eapply api_footprints; [apply H | exact Hin].
Qed.

(* ---------------------------------------------------------------- the refutation *)
Fixpoint alternate (t1 t2 : thread) (p1 p2 : list op) : list event :=
  match p1, p2 with
  | a :: r1, b :: r2 => (t1, a) :: (t2, b) :: alternate t1 t2 r1 r2
  | _, [] => map (fun o => (t1, o)) p1
  | [], _ => map (fun o => (t2, o)) p2
  end.

Definition two_threads (p : list api) (t : thread) : list op :=
  match t with
  | 1%nat => compile 1 [] p
  | 2%nat => compile 2 [] p
  | _ => []
  end.

Definition bad_prog : list api := [ADecodeSR (SIn 0) 0; ADecrypt 0; AEncode 0 1].
Definition bad_sched : list event := alternate 1 2 (compile 1 [] bad_prog) (compile 2 [] bad_prog).
Definition bad_heap : heap := fun l => match l with Input 0 => 1000 | _ => 0 end.

Lemma bad_interleaving : is_interleaving bad_sched (two_threads bad_prog).
Proof. intros [|[|[|t]]]; reflexivity. Qed.

Lemma not_race_free s : race_freeb s = false -> ~ race_free s.
Proof. intros H R. rewrite (race_freeb_sound _ R) in H. discriminate. Qed.

Lemma sr_inplace_refuted :
  exists (p : list api) (s : list event) (h0 : heap),
    forallb registry_free p = true /\
    is_interleaving s (two_threads p) /\
    (exists o, In o (compile 1 [] p) /\ mem (Input 0) (writes o) = true) /\
    ~ race_free s /\
    (exists l, own 1 l = true /\ run_sched s h0 l <> run (compile 1 [] p) h0 l) /\
    run (compile 1 [] p) h0 (Input 0) <> h0 (Input 0).
Proof.
  exists bad_prog, bad_sched, bad_heap.
  split; [reflexivity|]. split; [exact bad_interleaving|]. split.
  { exists (api_op 1 [(0%nat, Input 0)] (ADecrypt 0)). split; [right; left; reflexivity | reflexivity]. }
  split; [apply not_race_free; vm_compute; reflexivity|]. split.
  - exists (ownp 1 1). split; [reflexivity|]. vm_compute. discriminate.
  - vm_compute. discriminate.
Qed.

(* every in-place operation, applied directly or through the sample views, writes the input *)
Definition mutators : list (nat -> api) := [AEncrypt; ADecrypt; AToByteStream; AToNaluSample].

Definition writes_input (i : nat) (ops : list op) : bool :=
  existsb (fun o => mem (Input i) (writes o)) ops.

Lemma sr_inplace_all_mutators :
  forallb (fun m => writes_input 0 (compile 1 [] [ADecodeSR (SIn 0) 0; m 0%nat]) &&
                    writes_input 0 (compile 1 [] [ADecodeSR (SIn 0) 0; ASamples 0 1; m 1%nat]) &&
                    negb (prog_safe 1 [] [ADecodeSR (SIn 0) 0; m 0%nat]) &&
                    (* the same operations after Reader-path decoding stay inside the goroutine *)
                    negb (writes_input 0 (compile 1 [] [ADecode (SIn 0) 0; ASamples 0 1; m 1%nat])))
          mutators = true.
Proof. vm_compute. reflexivity. Qed.

(* an init segment decoded through a SliceReader from a SHARED input may serve for decryption and encryption of
   media the goroutine owns: the table gives such programs no write to any input (so an implementation that
   writes the shared init, e.g. by using tenc.DefaultConstantIV as a scratch IV, contradicts the table) *)
Definition init_sr_prog : list api :=
  [ADecodeSR (SIn 0) 0; ADecryptInit 0 1; ADecode (SIn 1) 2; ADecryptWith 2 (SObj 1); ADecode (SIn 2) 3;
   ADecryptWith 3 (SIn 7); ADecodeSR (SIn 3) 4; AInitProtect 4 5; ADecode (SIn 4) 6; AEncryptWith 6 5].

Lemma init_sr_decrypt_safe :
  prog_safe 1 [] init_sr_prog = true /\
  input_ids (flat_map writes (compile 1 [] init_sr_prog)) = [] /\
  pl 1 (final_state 1 [] init_sr_prog) 1 = Input 0 /\
  (* whereas media decoded through a SliceReader from a shared input is written by the same operations *)
  input_ids (flat_map writes (compile 1 [] [ADecode (SIn 0) 0; ADecryptInit 0 1; ADecodeSR (SIn 1) 2; ADecryptWith 2 (SObj 1)])) = [1%nat].
Proof. vm_compute. repeat split. Qed.

(* the side condition of the property: modifying the registry while another goroutine decodes races *)
Definition reg_progs (t : thread) : list op :=
  match t with
  | 1%nat => compile 1 [] [ASetBoxDecoder]
  | 2%nat => compile 2 [] [ADecode (SIn 0) 0]
  | _ => []
  end.
Definition reg_sched : list event :=
  alternate 1 2 (compile 1 [] [ASetBoxDecoder]) (compile 2 [] [ADecode (SIn 0) 0]).

Lemma registry_write_races : is_interleaving reg_sched reg_progs /\ ~ race_free reg_sched.
Proof.
  split; [intros [|[|[|t]]]; reflexivity | apply not_race_free; vm_compute; reflexivity].
Qed.

(* ---------------------------------------------------------------- a concrete positive instance *)
(* three goroutines on two shared inputs: Reader decode + in-place decrypt + encode; SR decode +
   info + encode (no in-place op); SR decode of an own buffer + in-place conversion *)
Definition ex_progs (t : thread) : list api :=
  match t with
  | 1%nat => [ADecode (SIn 0) 0; ADecrypt 0; ASamples 0 1; AToByteStream 1; AEncode 0 2]
  | 2%nat => [ADecodeSR (SIn 0) 0; AInfo 0 1; AEncodeSW 0 2; ASamples 0 3]
  | 3%nat => [ADecode (SIn 1) 0; AEncode 0 1; ADecodeSR (SObj 1) 2; AEncrypt 2; ASamples 2 3; AToNaluSample 3]
  | _ => []
  end.

Fixpoint round_robin (fuel : nat) (ps : list (thread * list op)) : list event :=
  match fuel with
  | O => []
  | S f =>
      let heads := flat_map (fun tp => match snd tp with [] => [] | o :: _ => [(fst tp, o)] end) ps in
      match heads with
      | [] => []
      | _ => heads ++ round_robin f (map (fun tp => (fst tp, tl (snd tp))) ps)
      end
  end.

Definition ex_sched : list event :=
  round_robin 10 [(3%nat, compile 3 [] (ex_progs 3)); (1%nat, compile 1 [] (ex_progs 1));
                  (2%nat, compile 2 [] (ex_progs 2))].

Lemma ex_safe : forall t, reader_only (ex_progs t) = true \/ prog_safe t [] (ex_progs t) = true.
Proof. intros [|[|[|[|t]]]]; right; reflexivity. Qed.

Lemma ex_interleaving : is_interleaving ex_sched (fun t => compile t [] (ex_progs t)).
Proof. intros [|[|[|[|t]]]]; reflexivity. Qed.

Lemma ex_nontrivial :
  length ex_sched = 15%nat /\ race_freeb ex_sched = true /\
  run_sched ex_sched bad_heap (ownp 1 2) <> bad_heap (ownp 1 2) /\
  (* thread 2 really holds a view of the shared input, thread 3 of its own buffer *)
  pl 2 (final_state 2 [] (ex_progs 2)) 3 = Input 0 /\ pl 3 (final_state 3 [] (ex_progs 3)) 3 = ownp 3 1.
Proof. repeat split; try (vm_compute; reflexivity). vm_compute. discriminate. Qed.
