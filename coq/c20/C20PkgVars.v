(* C20PkgVars.v -- GENERATED on every run of ./check C20 by `harness/c20 facts` from the library
   sources in /repo (packages bits avc hevc sei aac av1 mp4; non-test files of the default build).
   One entry per package-level variable: package, name, type kind, whether its contents can be
   changed through a copy of the value, and every NON-READ use (function, kind of use).
   Do not edit: the file is overwritten whenever the sources give a different table. *)
From Coq Require Import List String.
From V.c20 Require Import C20Facts.
Import ListNotations.
Open Scope string_scope.

Definition c20_pkg_vars : list pkgvar := [
  mkvar "bits" "ErrExpGolombRange" TError false [];
  mkvar "bits" "ErrNotReadSeeker" TError false [];
  mkvar "bits" "ErrSliceRead" TError false [];
  mkvar "bits" "ErrSliceWrite" TError false [];
  mkvar "avc" "ErrCannotParseAVCExtension" TError false [];
  mkvar "avc" "ErrInvalidSliceType" TError false [];
  mkvar "avc" "ErrLengthSize" TError false [];
  mkvar "avc" "ErrNoSliceHeader" TError false [];
  mkvar "avc" "ErrNotPPS" TError false [];
  mkvar "avc" "ErrNotSEINalu" TError false [];
  mkvar "avc" "ErrNotSPS" TError false [];
  mkvar "avc" "ErrTooFewBytesToParse" TError false [];
  mkvar "hevc" "ErrLengthSize" TError false [];
  mkvar "hevc" "ErrNotPPS" TError false [];
  mkvar "hevc" "ErrNotSEINalu" TError false [];
  mkvar "sei" "ErrRbspTrailingBitsMissing" TError false [];
  mkvar "aac" "FrequencyTable" TMap true [];
  mkvar "aac" "ReverseFrequencies" TMap true [];
  mkvar "av1" "ErrInvalidMarker" TError false [];
  mkvar "av1" "ErrInvalidVersion" TError false [];
  mkvar "av1" "ErrNonZeroReservedBits" TError false [];
  mkvar "mp4" "AC3BitrateCodesKbps" TSlice true [];
  mkvar "mp4" "AC3SampleRates" TSlice true [];
  mkvar "mp4" "AC3acmodChannelTable" TSlice true [];
  mkvar "mp4" "CustomChannelMapLocations" TMap true [];
  mkvar "mp4" "EC3ChannelLocationBits" TSlice true [];
  mkvar "mp4" "PrftFlagsInterpretation" TMap true [];
  mkvar "mp4" "decoders" TMap true [mkuse "RemoveBoxDecoder" UDelete; mkuse "SetBoxDecoder" UIndexAssign; mkuse "init" UAssign];
  mkvar "mp4" "decodersSR" TMap true [mkuse "RemoveBoxDecoder" UDelete; mkuse "SetBoxDecoder" UIndexAssign; mkuse "init" UAssign];
  mkvar "mp4" "sgeDecoders" TMap true [mkuse "init" UAssign];
  mkvar "mp4" "uuidPiffSenc" TSlice true [mkuse "UUIDBox.EncodeSW" UEscape; mkuse "UUIDBox.Size" UEscape; mkuse "UUIDBox.SubType" UEscape];
  mkvar "mp4" "uuidTfrf" TSlice true [mkuse "UUIDBox.EncodeSW" UEscape; mkuse "UUIDBox.Size" UEscape; mkuse "UUIDBox.SubType" UEscape];
  mkvar "mp4" "uuidTfxd" TSlice true [mkuse "UUIDBox.EncodeSW" UEscape; mkuse "UUIDBox.Size" UEscape; mkuse "UUIDBox.SubType" UEscape]
].

(* import paths of the library packages (non-test files) *)
Definition c20_imports : list (string * list string) := [
  ("bits", ["encoding/binary"; "errors"; "fmt"; "io"]);
  ("avc", ["bytes"; "encoding/binary"; "errors"; "fmt"; "github.com/Eyevinn/mp4ff/bits"; "github.com/Eyevinn/mp4ff/sei"; "io"; "math/bits"; "unsafe"]);
  ("hevc", ["bytes"; "encoding/binary"; "errors"; "fmt"; "github.com/Eyevinn/mp4ff/avc"; "github.com/Eyevinn/mp4ff/bits"; "github.com/Eyevinn/mp4ff/sei"; "io"; "math/bits"]);
  ("sei", ["bytes"; "encoding/binary"; "encoding/hex"; "encoding/json"; "errors"; "fmt"; "github.com/Eyevinn/mp4ff/bits"; "io"]);
  ("aac", ["bytes"; "fmt"; "github.com/Eyevinn/mp4ff/bits"; "io"]);
  ("av1", ["errors"; "fmt"; "github.com/Eyevinn/mp4ff/bits"; "io"]);
  ("mp4", ["bytes"; "crypto/aes"; "crypto/cipher"; "encoding/base64"; "encoding/binary"; "encoding/hex"; "errors"; "fmt"; "github.com/Eyevinn/mp4ff/aac"; "github.com/Eyevinn/mp4ff/av1"; "github.com/Eyevinn/mp4ff/avc"; "github.com/Eyevinn/mp4ff/bits"; "github.com/Eyevinn/mp4ff/hevc"; "io"; "os"; "sort"; "strconv"; "strings"; "time"])
].
