(* Base.v — shared definitions: Go result classes, bytes as N, fixed-width arithmetic,
   shift/mask <-> arithmetic lemmas.  No axioms. *)
From Coq Require Export List NArith ZArith Bool Lia.
From Coq Require Export ZifyBool ZifyNat ZifyN.
Export ListNotations.
Open Scope N_scope.

Ltac Zify.zify_post_hook ::= Z.div_mod_to_equations.

(* ---------- result of running a modelled Go function ---------- *)
Inductive res (A : Type) : Type :=
| Ok (a : A)
| Err            (* Go returned an error value *)
| Panic          (* Go would panic (index/slice out of range, nil dereference) *)
| OutOfFuel.     (* model fuel exhausted: Go would not terminate within the stated bound *)
Arguments Ok {A} a.
Arguments Err {A}.
Arguments Panic {A}.
Arguments OutOfFuel {A}.

Definition rbind {A B} (r : res A) (f : A -> res B) : res B :=
  match r with Ok a => f a | Err => Err | Panic => Panic | OutOfFuel => OutOfFuel end.
Notation "'do' x <- r ; k" := (rbind r (fun x => k)) (at level 200, x pattern, r at level 100, k at level 200).

(* ---------- bytes ---------- *)
Definition byte_ok (b : N) : bool := b <? 256.
Definition bytes_ok (l : list N) : bool := forallb byte_ok l.

Lemma bytes_ok_app l1 l2 : bytes_ok (l1 ++ l2) = bytes_ok l1 && bytes_ok l2.
Proof. unfold bytes_ok. apply forallb_app. Qed.

Lemma bytes_ok_cons b l : bytes_ok (b :: l) = byte_ok b && bytes_ok l.
Proof. reflexivity. Qed.

(* ---------- fixed width ---------- *)
Definition u8  (x : N) : N := x mod 256.
Definition u16 (x : N) : N := x mod 65536.
Definition u32 (x : N) : N := x mod 4294967296.
Definition u64 (x : N) : N := x mod 18446744073709551616.
Definition mask (n : N) : N := N.ones n.

Lemma pow2_pos n : 0 < 2 ^ n.
Proof. apply N.neq_0_lt_0, N.pow_nonzero. discriminate. Qed.

Lemma mask_mod x n : N.land x (mask n) = x mod 2 ^ n.
Proof. unfold mask. apply N.land_ones. Qed.

Lemma land_255 x : N.land x 255 = x mod 256.
Proof. change 255 with (N.ones 8). rewrite N.land_ones. reflexivity. Qed.

Lemma shiftl_mul x n : N.shiftl x n = x * 2 ^ n.
Proof. apply N.shiftl_mul_pow2. Qed.

Lemma shiftr_div x n : N.shiftr x n = x / 2 ^ n.
Proof. apply N.shiftr_div_pow2. Qed.

(* disjoint or is addition *)
Lemma lor_shifted_add a b n : b < 2 ^ n -> N.lor (a * 2 ^ n) b = a * 2 ^ n + b.
Proof.
  intros Hb.
  assert (Hl : N.land (a * 2 ^ n) b = 0).
  { apply N.bits_inj. intros m. rewrite N.land_spec, N.bits_0.
    destruct (N.lt_ge_cases m n) as [Hm|Hm].
    - rewrite <- N.shiftl_mul_pow2, N.shiftl_spec_low by exact Hm. reflexivity.
    - destruct (N.eq_dec b 0) as [->|Hb0]; [rewrite N.bits_0; apply andb_false_r|].
      rewrite (N.bits_above_log2 b m); [apply andb_false_r|].
      apply N.log2_lt_pow2 in Hb; [|lia]. lia. }
  rewrite <- N.lxor_lor by exact Hl. symmetry. apply N.add_nocarry_lxor. exact Hl.
Qed.

(* ---------- small list helpers ---------- *)
Fixpoint sumN (l : list N) : N := match l with [] => 0 | x :: t => x + sumN t end.

Lemma sumN_app l1 l2 : sumN (l1 ++ l2) = sumN l1 + sumN l2.
Proof. induction l1 as [|x t IH]; cbn [sumN app]; lia. Qed.

Definition lenN {A} (l : list A) : N := N.of_nat (length l).

Lemma lenN_app {A} (l1 l2 : list A) : lenN (l1 ++ l2) = lenN l1 + lenN l2.
Proof. unfold lenN. rewrite app_length. lia. Qed.

Lemma lenN_cons {A} (x : A) l : lenN (x :: l) = 1 + lenN l.
Proof. unfold lenN. cbn [length]. lia. Qed.

Lemma lenN_nil {A} : lenN (@nil A) = 0.
Proof. reflexivity. Qed.
