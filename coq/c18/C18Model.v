(* C18Model.v — executable Gallina models of
     aac.AudioSpecificConfig.Encode / aac.DecodeAudioSpecificConfig / getFrequency   (aac/aac.go)
     aac.ADTSHeader.Encode / aac.DecodeADTSHeader / aac.NewADTSHeader                (aac/adts.go)
   Definitions only: this file must keep running when a proof breaks.

   Bit packing.  The Go code goes through bits.Writer / bits.Reader (no emulation prevention).
   They are modelled directly on bit lists (most significant bit first):
     Writer.Write(v, n)  appends the n low bits of v;   bytes leave the writer 8 bits at a time (pack);
     Writer.Flush()      pads the last partial byte with zero bits (flush);
     Reader.Read(n)      takes n bits; if fewer than n remain (the input is whole bytes, so this is
                         exactly "the byte source hits EOF") the accumulated error is set and this and
                         every later Read returns 0 (rd).
   The correspondence check ties this reading to the real bits package on every run.
   Go `int` values (frequencies, offset) are Z; byte/uint16/uint fields are N with the wraps of the
   Go conversions written explicitly. *)
From V.lib Require Import Base.

(* ------------------------------------------------------------------ bits *)
(* the w low bits of v, most significant first:  bits & Mask(w) as written by Writer.Write *)
Fixpoint to_bits (w : nat) (v : N) : list bool :=
  match w with
  | O => []
  | S w' => N.testbit v (N.of_nat w') :: to_bits w' v
  end.

Definition bit_step (a : N) (b : bool) : N := 2 * a + N.b2n b.
Definition from_bits (l : list bool) : N := fold_left bit_step l 0.

Fixpoint take_bits (w : nat) (acc : N) (l : list bool) : option (N * list bool) :=
  match w with
  | O => Some (acc, l)
  | S w' => match l with
            | [] => None
            | b :: t => take_bits w' (bit_step acc b) t
            end
  end.

(* bytes that have left a bits.Writer after the given bits were written (a trailing group of
   fewer than 8 bits stays in the writer until Flush) *)
Fixpoint pack (l : list bool) : list N :=
  match l with
  | b7 :: b6 :: b5 :: b4 :: b3 :: b2 :: b1 :: b0 :: t =>
      from_bits [b7; b6; b5; b4; b3; b2; b1; b0] :: pack t
  | _ => []
  end.

(* Writer.Flush: zeros to the right up to the byte boundary *)
Definition pad_len (n : nat) : nat := ((8 - n mod 8) mod 8)%nat.
Definition flush (l : list bool) : list bool := l ++ repeat false (pad_len (length l)).

(* the bit stream a bits.Reader sees over a byte slice (byte(x) conversion: mod 256) *)
Definition unpack (bs : list N) : list bool := flat_map (to_bits 8) bs.

Record rstate := mkR { rbits : list bool; rerr : bool }.
Definition rinit (data : list N) : rstate := mkR (unpack data) false.

(* func (r *Reader) Read(n int) uint *)
Definition rd (n : nat) (s : rstate) : N * rstate :=
  if rerr s then (0, s)
  else match take_bits n 0 (rbits s) with
       | Some (v, t) => (v, mkR t false)
       | None => (0, mkR (rbits s) true)
       end.

(* ------------------------------------------------------------------ frequency tables *)
(* var FrequencyTable = map[byte]int{...} *)
Definition frequency_table : list (N * Z) :=
  [ (0, 96000%Z); (1, 88200%Z); (2, 64000%Z); (3, 48000%Z); (4, 44100%Z); (5, 32000%Z); (6, 24000%Z); (7, 22050%Z); (8, 16000%Z); (9, 12000%Z); (10, 11025%Z); (11, 8000%Z); (12, 7350%Z) ].

(* var ReverseFrequencies = map[int]byte{...} (written out separately in the Go source) *)
Definition reverse_frequencies : list (Z * N) :=
  [ (96000%Z, 0); (88200%Z, 1); (64000%Z, 2); (48000%Z, 3); (44100%Z, 4); (32000%Z, 5); (24000%Z, 6); (22050%Z, 7); (16000%Z, 8); (12000%Z, 9); (11025%Z, 10); (8000%Z, 11); (7350%Z, 12) ].

Fixpoint lookup_idx (t : list (N * Z)) (i : N) : option Z :=
  match t with
  | [] => None
  | (k, v) :: r => if k =? i then Some v else lookup_idx r i
  end.

Fixpoint lookup_freq (t : list (Z * N)) (f : Z) : option N :=
  match t with
  | [] => None
  | (k, v) :: r => if (k =? f)%Z then Some v else lookup_freq r f
  end.

Definition freq_of_index (i : N) : option Z := lookup_idx frequency_table i.
Definition index_of_freq (f : Z) : option N := lookup_freq reverse_frequencies f.

(* uint(x) for a Go int x *)
Definition uint_of_int (x : Z) : N := Z.to_N (x mod 18446744073709551616)%Z.

(* ------------------------------------------------------------------ AudioSpecificConfig *)
Record asc := mkAsc {
  a_ot : N;          (* ObjectType           byte *)
  a_chan : N;        (* ChannelConfiguration byte *)
  a_freq : Z;        (* SamplingFrequency    int  *)
  a_ext : Z;         (* ExtensionFrequency   int  *)
  a_sbr : bool;      (* SBRPresentFlag *)
  a_ps : bool        (* PSPresentFlag *)
}.

Definition AAClc : N := 2.
Definition HEAACv1 : N := 5.
Definition HEAACv2 : N := 29.

(* the index-or-escape frequency field written by Encode *)
Definition freq_field (f : Z) : list bool :=
  match index_of_freq f with
  | Some i => to_bits 4 i
  | None => to_bits 4 15 ++ to_bits 24 (uint_of_int f)
  end.

(* func (a *AudioSpecificConfig) Encode(w io.Writer) error    (the io.Writer never fails) *)
Definition asc_bits (a : asc) : list bool :=
  let w := to_bits 5 (a_ot a) in
  let w := w ++ freq_field (a_freq a) in
  let w := w ++ to_bits 4 (a_chan a) in
  let w := if (a_ot a =? HEAACv1) || (a_ot a =? HEAACv2)
           then (w ++ freq_field (a_ext a)) ++ to_bits 5 AAClc
           else w in
  w ++ to_bits 3 0.

Definition encode_asc (a : asc) : res (list N) :=
  if (a_ot a =? AAClc) || (a_ot a =? HEAACv1) || (a_ot a =? HEAACv2)
  then Ok (pack (flush (asc_bits a)))
  else Err.

(* The decoders are written once, over an abstract bit reader (state type St, Read, AccError() != nil),
   and instantiated (a) with the bit-list reader above: the definitions every theorem is about and the
   extracted model runs; (b) in C18TieProofs.v with the Go-level reader machine of C13Model
   (read_plain: value/n/pos accumulator over the byte slice), proved to compute the same results. *)
Section GenericReader.
Variable St : Type.
Variable rdf : nat -> St -> N * St.      (* br.Read(n) *)
Variable errf : St -> bool.              (* br.AccError() != nil *)

(* func getFrequency(br *bits.Reader) (frequency int, ok bool) *)
Definition get_frequency_g (s : St) : option Z * St :=
  let '(idx, s1) := rdf 4 s in
  if idx =? 15 then
    let '(f, s2) := rdf 24 s1 in
    if errf s2 then (None, s2) else (Some (Z.of_N f), s2)
  else if errf s1 then (None, s1)
  else (freq_of_index idx, s1).

(* func DecodeAudioSpecificConfig(r io.Reader) returns (asc, error)
   Err = a non-nil error (the partially filled struct Go returns beside some errors is not
   observed).  Note: the accumulated reader error is NOT consulted after the channel / final
   3-bit reads, exactly as in the Go text. *)
Definition decode_asc_g (s0 : St) : res asc :=
  let '(aot, s1) := rdf 5 s0 in
  let flags := if aot =? AAClc then Some (false, false)
               else if aot =? HEAACv1 then Some (true, false)
               else if aot =? HEAACv2 then Some (true, true)
               else None in
  match flags with
  | None => Err
  | Some (sbr, ps) =>
      let '(fo, s2) := get_frequency_g s1 in
      match fo with
      | None => Err
      | Some f =>
          let '(ch, s3) := rdf 4 s2 in
          if (aot =? HEAACv1) || (aot =? HEAACv2) then
            let '(eo, s4) := get_frequency_g s3 in
            match eo with
            | None => Err
            | Some e =>
                let '(aot2, s5) := rdf 5 s4 in
                if negb (aot2 =? AAClc) then Err
                else let '(_, _) := rdf 3 s5 in Ok (mkAsc aot ch f e sbr ps)
            end
          else
            (* audioObjectType is AAClc here: the `!= AAClc` test cannot fire *)
            let '(_, _) := rdf 3 s3 in Ok (mkAsc aot ch f 0%Z sbr ps)
      end
  end.
End GenericReader.

(* notations, not definitions: the instantiated loop must stay syntactically the generic one applied
   to the bit-list reader (a wrapper constant around a fixpoint on concrete fuel derails conversion) *)
Notation get_frequency := (get_frequency_g rstate rd rerr).
Definition decode_asc (data : list N) : res asc := decode_asc_g rstate rd rerr (rinit data).

(* the supported domain: object type 2/5/29, 4-bit channel configuration, frequencies that fit the
   24-bit escape (table values included), extension frequency only with SBR, flags implied by the
   object type *)
Definition freq_ok (f : Z) : bool := (0 <=? f)%Z && (f <? 16777216)%Z.
Definition canonical (a : asc) : bool :=
  ((a_ot a =? AAClc) || (a_ot a =? HEAACv1) || (a_ot a =? HEAACv2))
  && (a_chan a <? 16)
  && freq_ok (a_freq a)
  && (if a_ot a =? AAClc then (a_ext a =? 0)%Z else freq_ok (a_ext a))
  && Bool.eqb (a_sbr a) (negb (a_ot a =? AAClc))
  && Bool.eqb (a_ps a) (a_ot a =? HEAACv2).

Definition asc_eqb (a b : asc) : bool :=
  (a_ot a =? a_ot b) && (a_chan a =? a_chan b) && (a_freq a =? a_freq b)%Z
  && (a_ext a =? a_ext b)%Z && Bool.eqb (a_sbr a) (a_sbr b) && Bool.eqb (a_ps a) (a_ps b).

Definition asc_roundtrip_ok (a : asc) : bool :=
  match encode_asc a with
  | Ok bs => match decode_asc bs with Ok b => asc_eqb a b | _ => false end
  | _ => false
  end.

(* ------------------------------------------------------------------ ADTS header *)
Record adts := mkAdts {
  h_id : N;       (* ID                     byte *)
  h_ot : N;       (* ObjectType             byte *)
  h_sfi : N;      (* SamplingFrequencyIndex byte *)
  h_chan : N;     (* ChannelConfig          byte *)
  h_hlen : N;     (* HeaderLength           byte *)
  h_plen : N;     (* PayloadLength          uint16 *)
  h_bf : N        (* BufferFullness         uint16 *)
}.

(* func NewADTSHeader(samplingFrequency int, channelConfig byte, objectType byte, plLen uint16) *)
Definition new_adts (freq : Z) (chan ot plen : N) : res adts :=
  if negb (ot =? AAClc) then Err
  else match index_of_freq freq with
       | None => Err
       | Some sfi => Ok (mkAdts 0 ot sfi chan 7 plen 2047)
       end.

(* func (a ADTSHeader) Frequency() uint16 { return uint16(FrequencyTable[a.SamplingFrequencyIndex]) }
   (a missing map key yields 0) *)
Definition adts_frequency (h : adts) : N :=
  match freq_of_index (h_sfi h) with
  | Some f => Z.to_N (f mod 65536)
  | None => 0
  end.

(* func (a ADTSHeader) Encode() []byte *)
Definition adts_bits (h : adts) : list bool :=
  to_bits 12 4095 ++ to_bits 4 1
  ++ to_bits 2 (u64 (h_ot h + 18446744073709551615))   (* uint(a.ObjectType)-1 *)
  ++ to_bits 4 (h_sfi h) ++ to_bits 1 0 ++ to_bits 3 (h_chan h) ++ to_bits 4 0
  ++ to_bits 13 (u16 (h_plen h + 7))                    (* uint(a.PayloadLength+7), uint16 sum *)
  ++ to_bits 11 (h_bf h) ++ to_bits 2 0.

Definition encode_adts (h : adts) : list N := pack (adts_bits h).

(* startPattern == 0xf && layer == 0 on the second sync byte *)
Definition is_sync2 (b : N) : bool := (N.shiftr b 4 =? 15) && (N.land (N.shiftr b 1) 3 =? 0).

Definition ts_packet_size : nat := 188.

Section GenericReaderAdts.
Variable St : Type.
Variable rdf : nat -> St -> N * St.
Variable errf : St -> bool.

(* the `for i := 0; i < tsPacketSize; i++` loop; fuel = iterations left.
   Result: (syncFound, sync2, offset, reader).  mpegID/layer/protectionAbsent are functions of the
   last sync2 and are only used when syncFound, so they are recomputed from it afterwards. *)
Fixpoint sync_loop_g (fuel : nat) (s : St) (sync2 : N) (offset : Z) : bool * N * Z * St :=
  match fuel with
  | O => (false, sync2, offset, s)
  | S f =>
      let '(sync1, s1, off1) :=
        if negb (sync2 =? 255) then let '(v, s1) := rdf 8 s in (v mod 256, s1, offset)
        else (sync2, s, (offset - 1)%Z) in
      if sync1 =? 255 then
        let '(v, s2) := rdf 8 s1 in
        let sync2' := v mod 256 in
        if is_sync2 sync2' then (true, sync2', off1, s2)
        else sync_loop_g f s2 sync2' (off1 + 2)%Z
      else sync_loop_g f s1 sync2 (off1 + 1)%Z
  end.

(* the part of DecodeADTSHeader after the sync search (syncFound, no accumulated error) *)
Definition decode_after_sync_g (sync2 : N) (offset : Z) (s : St) : res (adts * Z) :=
  let mpeg_id := N.land (N.shiftr sync2 3) 1 in
  let layer := N.land (N.shiftr sync2 1) 3 in
  let protection_absent := N.land sync2 1 in
  if negb (layer =? 0) then Err
  else
    let hlen := if negb (protection_absent =? 1) then 9 else 7 in
    let '(profile, s) := rdf 2 s in
    let ot := u8 (profile + 1) in
    let '(sfi, s) := rdf 4 s in
    let '(_, s) := rdf 1 s in
    let '(chan, s) := rdf 3 s in
    let '(_, s) := rdf 4 s in
    let '(flen, s) := rdf 13 s in
    let plen := u16 (u16 flen + 65536 - hlen) in
    let '(bf, s) := rdf 11 s in
    let '(nrb, s) := rdf 2 s in
    if negb (nrb =? 0) then Err
    else
      let s := if negb (protection_absent =? 1) then snd (rdf 16 s) else s in
      if errf s then Err
      else Ok (mkAdts mpeg_id ot (u8 sfi) (u8 chan) hlen plen (u16 bf), offset).

(* func DecodeADTSHeader(r io.Reader) (header, offset int, err error) *)
Definition decode_adts_g (s0 : St) : res (adts * Z) :=
  let '(found, sync2, offset, s) := sync_loop_g ts_packet_size s0 0 0%Z in
  if errf s then Err
  else if negb found then Err
  else decode_after_sync_g sync2 offset s.
End GenericReaderAdts.

Notation sync_loop := (sync_loop_g rstate rd).
Notation decode_after_sync := (decode_after_sync_g rstate rd rerr).
Definition decode_adts (data : list N) : res (adts * Z) := decode_adts_g rstate rd rerr (rinit data).

(* headers Encode can express: MPEG-4 id, no CRC, 2-bit profile, 4/3/13/11-bit fields *)
Definition adts_canonical (h : adts) : bool :=
  (h_id h =? 0) && (h_hlen h =? 7) && (1 <=? h_ot h) && (h_ot h <=? 4)
  && (h_sfi h <? 16) && (h_chan h <? 8) && (h_plen h <=? 8184) && (h_bf h <? 2048).

Definition adts_eqb (a b : adts) : bool :=
  (h_id a =? h_id b) && (h_ot a =? h_ot b) && (h_sfi a =? h_sfi b) && (h_chan a =? h_chan b)
  && (h_hlen a =? h_hlen b) && (h_plen a =? h_plen b) && (h_bf a =? h_bf b).

(* no byte pair inside the junk is a sync word.  A trailing ff is harmless: the next byte is the
   header's own ff, and ff ff is not a sync word (layer = 3). *)
Fixpoint no_sync_in (l : list N) : bool :=
  match l with
  | [] => true
  | b :: t => negb ((b =? 255) && match t with x :: _ => is_sync2 x | [] => false end)
              && no_sync_in t
  end.

(* position of the first sync word by the naive position-by-position scan (specification of
   "the offset at which the sync word was found") *)
Fixpoint first_sync (l : list N) : option nat :=
  match l with
  | [] => None
  | b :: t =>
      if (b =? 255) && match t with x :: _ => is_sync2 x | [] => false end then Some O
      else option_map S (first_sync t)
  end.

Definition adts_roundtrip_ok (junk : list N) (h : adts) (rest : list N) : bool :=
  match decode_adts (junk ++ encode_adts h ++ rest) with
  | Ok (h', off) => adts_eqb h h' && (off =? Z.of_nat (length junk))%Z
  | _ => false
  end.
