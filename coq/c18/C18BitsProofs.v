(* C18BitsProofs.v — bit-list lemmas: Read inverts Write field by field, unpack inverts pack. *)
From V.lib Require Import Base.
From V.c18 Require Import C18Model.

Lemma to_bits_length w v : length (to_bits w v) = w.
Proof. induction w as [|w IH]; cbn [to_bits length]; [reflexivity|now rewrite IH]. Qed.

Lemma fold_to_bits w : forall v acc,
  fold_left bit_step (to_bits w v) acc = acc * 2 ^ N.of_nat w + v mod 2 ^ N.of_nat w.
Proof.
  induction w as [|w IH]; intros v acc.
  - cbn [to_bits fold_left]. change (N.of_nat 0) with 0. rewrite N.pow_0_r, N.mod_1_r. lia.
  - cbn [to_bits fold_left]. rewrite IH. unfold bit_step.
    rewrite N.testbit_spec'.
    rewrite Nat2N.inj_succ, N.pow_succ_r'.
    rewrite (N.mul_comm 2 (2 ^ N.of_nat w)).
    rewrite (N.mod_mul_r v (2 ^ N.of_nat w) 2) by (try apply N.pow_nonzero; discriminate).
    ring.
Qed.

Lemma take_bits_app w : forall l acc rest,
  length l = w -> take_bits w acc (l ++ rest) = Some (fold_left bit_step l acc, rest).
Proof.
  induction w as [|w IH]; intros l acc rest Hl.
  - destruct l; [reflexivity|discriminate].
  - destruct l as [|b t]; [discriminate|]. cbn [take_bits app fold_left].
    apply IH. now injection Hl.
Qed.

Lemma take_to_bits w v rest :
  take_bits w 0 (to_bits w v ++ rest) = Some (v mod 2 ^ N.of_nat w, rest).
Proof.
  rewrite take_bits_app by apply to_bits_length. rewrite fold_to_bits, N.mul_0_l, N.add_0_l. reflexivity.
Qed.

Lemma rd_to_bits w v rest :
  rd w (mkR (to_bits w v ++ rest) false) = (v mod 2 ^ N.of_nat w, mkR rest false).
Proof. unfold rd. cbn [rerr rbits]. rewrite take_to_bits. reflexivity. Qed.

Lemma rd_to_bits_small w v rest :
  v < 2 ^ N.of_nat w -> rd w (mkR (to_bits w v ++ rest) false) = (v, mkR rest false).
Proof. intros H. rewrite rd_to_bits. now rewrite N.mod_small. Qed.

Lemma rd_err w l : rd w (mkR l true) = (0, mkR l true).
Proof. reflexivity. Qed.

(* one byte: to_bits 8 inverts from_bits on 8 bits *)
Lemma to_bits_from_bits8 b7 b6 b5 b4 b3 b2 b1 b0 :
  to_bits 8 (from_bits [b7; b6; b5; b4; b3; b2; b1; b0]) = [b7; b6; b5; b4; b3; b2; b1; b0].
Proof. destruct b7, b6, b5, b4, b3, b2, b1, b0; reflexivity. Qed.

Lemma unpack_app a b : unpack (a ++ b) = unpack a ++ unpack b.
Proof. unfold unpack. apply flat_map_app. Qed.

Lemma unpack_cons x l : unpack (x :: l) = to_bits 8 x ++ unpack l.
Proof. reflexivity. Qed.

Lemma unpack_pack_n : forall n l, length l = (8 * n)%nat -> unpack (pack l) = l.
Proof.
  induction n as [|n IH]; intros l Hl.
  - destruct l; [reflexivity|discriminate].
  - do 8 (destruct l as [|? l]; [cbn [length] in Hl; lia|]).
    cbn [pack]. rewrite unpack_cons, to_bits_from_bits8. cbn [app]. do 8 f_equal.
    apply IH. cbn [length] in Hl. lia.
Qed.

Lemma unpack_pack l : (length l mod 8 = 0)%nat -> unpack (pack l) = l.
Proof. intros H. apply (unpack_pack_n (length l / 8)). lia. Qed.

Lemma flush_aligned l : (length (flush l) mod 8 = 0)%nat.
Proof. unfold flush, pad_len. rewrite app_length, repeat_length. lia. Qed.

Lemma unpack_pack_flush l : unpack (pack (flush l)) = l ++ repeat false (pad_len (length l)).
Proof. rewrite unpack_pack by apply flush_aligned. reflexivity. Qed.

(* packed bytes are bytes *)
Lemma from_bits8_lt b7 b6 b5 b4 b3 b2 b1 b0 : from_bits [b7; b6; b5; b4; b3; b2; b1; b0] < 256.
Proof. destruct b7, b6, b5, b4, b3, b2, b1, b0; reflexivity. Qed.

Lemma pack_bytes_ok_n : forall n l, (length l <= n)%nat -> bytes_ok (pack l) = true.
Proof.
  induction n as [|n IH]; intros l Hl.
  - destruct l; [reflexivity|cbn [length] in Hl; lia].
  - do 8 (destruct l as [|? l]; [reflexivity|]).
    cbn [pack]. rewrite bytes_ok_cons. unfold byte_ok.
    pose proof (from_bits8_lt b b0 b1 b2 b3 b4 b5 b6) as Hb. apply N.ltb_lt in Hb. rewrite Hb.
    cbn [andb]. apply IH. cbn [length] in Hl. lia.
Qed.

Lemma pack_bytes_ok l : bytes_ok (pack l) = true.
Proof. apply (pack_bytes_ok_n (length l)). lia. Qed.

(* reading one byte of an unpacked byte string *)
Lemma rd8_unpack b l rest :
  rd 8 (mkR (unpack (b :: l) ++ rest) false) = (b mod 256, mkR (unpack l ++ rest) false).
Proof. rewrite unpack_cons, <- app_assoc. apply (rd_to_bits 8). Qed.
