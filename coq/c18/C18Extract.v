(* Extraction of the C18 models for the correspondence check. ExtrOcamlBasic only. *)
From V.lib Require Import Base.
From V.c18 Require Import C18Model C18EntryModel C18HistModel C18DescModel.
Require Import ExtrOcamlBasic.
Separate Extraction
  asc adts encode_asc decode_asc canonical asc_roundtrip_ok
  new_adts adts_frequency encode_adts decode_adts adts_canonical no_sync_in first_sync adts_roundtrip_ok
  set_aac_descriptor set_aac_asc decode_entry entry_asc decode_entry_sr entry_asc_sr
  hrun decode_asc_stream encode_asc_stream decode_adts_stream encode_adts_stream
  decode_descriptor decode_es_descriptor decode_esds_body encode_desc encode_es encode_esds es_dec_config
  decode_box_header decode_box_header_sr list_eqb fourcc_esds.
