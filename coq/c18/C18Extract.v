(* Extraction of the C18 models for the correspondence check. ExtrOcamlBasic only. *)
From V.lib Require Import Base.
From V.c18 Require Import C18Model C18EntryModel.
Require Import ExtrOcamlBasic.
Separate Extraction
  asc adts encode_asc decode_asc canonical asc_roundtrip_ok
  new_adts adts_frequency encode_adts decode_adts adts_canonical no_sync_in first_sync adts_roundtrip_ok
  set_aac_descriptor decode_entry entry_asc decode_entry_sr entry_asc_sr.
