(* C18DescModel.v — executable model of the complete esds descriptor layer, mp4/descriptors.go:
     DecodeDescriptor, DecodeESDescriptor, DecodeDecoderConfigDescriptor, DecodeDecSpecificInfoDescriptor,
     DecodeSLConfigDescriptor, DecodeRawDescriptor, readSizeSize, exceedsMaxNrBytes,
     the Size / SizeSize / EncodeSW methods, writeDescriptorSize,
   over a model of bits.FixedSliceReader WITH its accumulated error (a read beyond the slice sets the
   error, returns 0 / nothing and leaves the position; every later read returns 0 / nothing) and
   SetPos back to a saved position (the UnknownData recovery).  Definitions only.

   Unlike C18EntryModel.decode_es (one fixed shape, everything else EUnmodelled) nothing is left out here:
   size fields of any length (sizeFieldSizeMinus1 is a byte and wraps, the size accumulates in a uint64
   and wraps), optional ES fields, any number of further descriptors of any tag (kept as RawDescriptor),
   DecoderConfigDescriptors nested in DecoderConfigDescriptors, UnknownData, reads beyond the slice.
   Recursion (a DecoderConfigDescriptor holds descriptors) runs on explicit fuel; the out-of-fuel result is
   a separate outcome, excluded in the theorems. *)
From V.lib Require Import Base.
From V.c18 Require Import C18Model C18EntryModel.

(* ------------------------------------------------------------------ bits.FixedSliceReader *)
Record sl := mkSl { s_rem : list N; s_pos : N; s_err : bool }.
Definition sl_init (data : list N) : sl := mkSl data 0 false.
Definition sl_fail (s : sl) : sl := mkSl (s_rem s) (s_pos s) true.

(* ReadUint8 *)
Definition sr_u8 (s : sl) : N * sl :=
  if s_err s then (0, s)
  else match s_rem s with
       | [] => (0, sl_fail s)
       | b :: t => (b, mkSl t (s_pos s + 1) false)
       end.

(* ReadBytes(n) / ReadFixedLengthString(n) for n >= 0: `if s.pos > s.len-n` is "fewer than n bytes remain" *)
Definition sr_take (n : N) (s : sl) : list N * sl :=
  if s_err s then ([], s)
  else if lenN (s_rem s) <? n then ([], sl_fail s)
  else (firstn (N.to_nat n) (s_rem s), mkSl (skipn (N.to_nat n) (s_rem s)) (s_pos s + n) false).

(* ReadBytes(n int): a negative n sets the error whatever the state *)
Definition sr_bytes (n : Z) (s : sl) : list N * sl :=
  if (n <? 0)%Z then ([], sl_fail s) else sr_take (Z.to_N n) s.

Definition be_val (l : list N) : N := fold_left (fun a b => a * 256 + b) l 0.
Definition sr_u16 (s : sl) : N * sl := let '(l, s') := sr_take 2 s in (be_val l, s').
Definition sr_u32 (s : sl) : N * sl := let '(l, s') := sr_take 4 s in (be_val l, s').

(* sr.SetPos(currPos) for a position saved earlier (never beyond the slice): the position goes back,
   the accumulated error stays *)
Definition sl_restore (saved now : sl) : sl := mkSl (s_rem saved) (s_pos saved) (s_err now).

(* ------------------------------------------------------------------ readSizeSize *)
(* the loop runs while the last byte has its top bit set; a failing read returns 0 and ends it, so
   (bytes remaining + 1) iterations always suffice *)
Fixpoint sz_loop (fuel : nat) (tmp n acc : N) (s : sl) : res (N * N * sl) :=
  if 128 <=? tmp then
    match fuel with
    | O => OutOfFuel
    | S f =>
        let '(t, s) := sr_u8 s in
        sz_loop f t (u8 (n + 1)) (u64 (acc * 128 + t mod 128)) s
    end
  else Ok (n, acc, s).

(* returns (sizeFieldSizeMinus1, size) or Err when sr.AccError() != nil *)
Definition read_size (s : sl) : res (N * N) * sl :=
  let '(tmp, s1) := sr_u8 s in
  match sz_loop (S (length (s_rem s1))) tmp 0 (tmp mod 128) s1 with
  | Ok (n, acc, s2) => if s_err s2 then (Err, s2) else (Ok (n, acc), s2)
  | _ => (OutOfFuel, s1)
  end.

(* ------------------------------------------------------------------ descriptor values *)
(* DecoderConfigDescriptor: the first contained descriptor is held in DecSpecificInfo when it is a
   DecSpecificInfoDescriptor and in OtherDescriptors otherwise, all later ones in OtherDescriptors; EncodeSW
   writes DecSpecificInfo, then OtherDescriptors: the same order, so the value keeps ONE list.
   ESDescriptor likewise (SLConfigDescriptor = the second descriptor when it is an SLConfigDescriptor). *)
Inductive desc : Type :=
| DDcd (sfs ot st buf maxbr avgbr : N) (children : list desc) (unknown : list N)
| DDsi (sfs : N) (dc : list N)
| DSlc (sfs cv : N) (more : list N)
| DRaw (tag sfs : N) (data : list N).

Record esd := mkEsd {
  es_sfs : N; es_id : N; es_flags : N; es_dep : N; es_url : list N; es_ocr : N;
  es_dcd : desc; es_children : list desc; es_unknown : list N
}.

Definition desc_sfs (d : desc) : N :=
  match d with
  | DDcd sfs _ _ _ _ _ _ _ => sfs
  | DDsi sfs _ => sfs
  | DSlc sfs _ _ => sfs
  | DRaw _ sfs _ => sfs
  end.

Definition desc_tag (d : desc) : N :=
  match d with DDcd _ _ _ _ _ _ _ _ => 4 | DDsi _ _ => 5 | DSlc _ _ _ => 6 | DRaw t _ _ => t end.

(* Size(): payload after tag and size field *)
Fixpoint desc_size_of (d : desc) : N :=
  match d with
  | DDcd _ _ _ _ _ _ cs u =>
      13 + (fix sum (l : list desc) : N :=
              match l with [] => 0 | c :: r => (1 + desc_sfs c + 1 + desc_size_of c) + sum r end) cs
      + lenN u
  | DDsi _ dc => lenN dc
  | DSlc _ _ more => 1 + lenN more
  | DRaw _ _ data => lenN data
  end.

(* SizeSize() *)
Definition desc_sizesize (d : desc) : N := 1 + desc_sfs d + 1 + desc_size_of d.

Fixpoint sizes_sum (l : list desc) : N :=
  match l with [] => 0 | c :: r => desc_sizesize c + sizes_sum r end.

(* EncodeSW *)
Fixpoint encode_desc (d : desc) : list N :=
  match d with
  | DDcd sfs ot st buf maxbr avgbr cs u =>
      [4] ++ desc_size (desc_size_of d) (N.to_nat sfs) ++ [ot]
      ++ be32 (N.lor ((st * 16777216) mod 4294967296) buf) ++ be32 maxbr ++ be32 avgbr
      ++ (fix enc (l : list desc) : list N :=
            match l with [] => [] | c :: r => encode_desc c ++ enc r end) cs
      ++ u
  | DDsi sfs dc => [5] ++ desc_size (lenN dc) (N.to_nat sfs) ++ dc
  | DSlc sfs cv more => [6] ++ desc_size (1 + lenN more) (N.to_nat sfs) ++ [cv] ++ more
  | DRaw tag sfs data => [tag] ++ desc_size (lenN data) (N.to_nat sfs) ++ data
  end.

Fixpoint encode_descs (l : list desc) : list N :=
  match l with [] => [] | c :: r => encode_desc c ++ encode_descs r end.

Definition es_opt_size (e : esd) : N :=
  (if es_flags e / 128 =? 1 then 2 else 0)
  + (if (es_flags e / 64) mod 2 =? 1 then 1 + lenN (es_url e) else 0)
  + (if (es_flags e / 32) mod 2 =? 1 then 2 else 0).

Definition es_size_of (e : esd) : N :=
  3 + es_opt_size e + desc_sizesize (es_dcd e) + sizes_sum (es_children e) + lenN (es_unknown e).

Definition es_sizesize (e : esd) : N := 1 + es_sfs e + 1 + es_size_of e.

Definition encode_es (e : esd) : list N :=
  [3] ++ desc_size (es_size_of e) (N.to_nat (es_sfs e)) ++ be16 (es_id e) ++ [es_flags e]
  ++ (if es_flags e / 128 =? 1 then be16 (es_dep e) else [])
  ++ (if (es_flags e / 64) mod 2 =? 1 then [lenN (es_url e) mod 256] ++ es_url e else [])
  ++ (if (es_flags e / 32) mod 2 =? 1 then be16 (es_ocr e) else [])
  ++ encode_desc (es_dcd e) ++ encode_descs (es_children e) ++ es_unknown e.

(* e.DecConfigDescriptor.DecSpecificInfo.DecConfig (None: a nil pointer on the way) *)
Definition es_dec_config (e : esd) : option (list N) :=
  match es_dcd e with
  | DDcd _ _ _ _ _ _ (DDsi _ dc :: _) _ => Some dc
  | _ => None
  end.

(* ------------------------------------------------------------------ decoders *)
Inductive lres : Type :=
| LDone (ds : list desc) (s : sl)                      (* nrBytesLeft == 0: break *)
| LUnknown (ds : list desc) (u : list N) (s : sl)      (* a descriptor failed: UnknownData, early return *)
| LTooFar (s : sl)                                     (* nrBytesLeft < 0 *)
| LFuel.

(* the `for { ... }` loop shared by DecodeESDescriptor and DecodeDecoderConfigDescriptor;
   dd = DecodeDescriptor, acc = descriptors so far (reversed) *)
Fixpoint desc_loop (dd : Z -> sl -> res desc * sl) (k : nat) (size : Z) (start : N) (s : sl)
         (acc : list desc) : lres :=
  match k with
  | O => LFuel
  | S k' =>
      let left := (size - Z.of_N (s_pos s - start))%Z in
      if (left =? 0)%Z then LDone (rev acc) s
      else if (left <? 0)%Z then LTooFar s
      else match dd left s with
           | (Ok d, s') => desc_loop dd k' size start s' (d :: acc)
           | (OutOfFuel, _) => LFuel
           | (_, s') =>
               let '(u, s'') := sr_bytes left (sl_restore s s') in
               LUnknown (rev acc) u s''
           end
  end.

Definition decode_dsi (maxNr : Z) (s : sl) : res desc * sl :=
  match read_size s with
  | (Ok (sfs, size), s) =>
      if exceeds sfs size maxNr then (Err, s)
      else
        let start := s_pos s in
        let '(dc, s) := sr_bytes (int_of_u64 size) s in
        let left := (int_of_u64 size - Z.of_N (s_pos s - start))%Z in
        if (left >? 0)%Z then (Err, s)
        else if s_err s then (Err, s) else (Ok (DDsi sfs dc), s)
  | (OutOfFuel, s) => (OutOfFuel, s)
  | (_, s) => (Err, s)
  end.

Definition decode_slc (maxNr : Z) (s : sl) : res desc * sl :=
  match read_size s with
  | (Ok (sfs, size), s) =>
      if exceeds sfs size maxNr then (Err, s)
      else if size =? 0 then (Err, s)       (* "SLConfigDescriptor size 0 too small" (repo fix for C01-K77) *)
      else
        let '(cv, s) := sr_u8 s in
        let '(more, s) := if 1 <? size then sr_bytes (int_of_u64 (size - 1)) s else ([], s) in
        if s_err s then (Err, s) else (Ok (DSlc sfs cv more), s)
  | (OutOfFuel, s) => (OutOfFuel, s)
  | (_, s) => (Err, s)
  end.

Definition decode_raw (tag : N) (maxNr : Z) (s : sl) : res desc * sl :=
  match read_size s with
  | (Ok (sfs, size), s) =>
      if exceeds sfs size maxNr then (Err, s)
      else
        let '(data, s) := sr_bytes (int_of_u64 size) s in
        if s_err s then (Err, s) else (Ok (DRaw tag sfs data), s)
  | (OutOfFuel, s) => (OutOfFuel, s)
  | (_, s) => (Err, s)
  end.

(* DecodeDecoderConfigDescriptor after the tag; dd decodes the contained descriptors *)
Definition decode_dcd_with (dd : Z -> sl -> res desc * sl) (maxNr : Z) (s : sl) : res desc * sl :=
  match read_size s with
  | (Ok (sfs, size), s) =>
      if exceeds sfs size maxNr then (Err, s)
      else
        let start := s_pos s in
        let '(ot, s) := sr_u8 s in
        let '(x, s) := sr_u32 s in
        let '(maxbr, s) := sr_u32 s in
        let '(avgbr, s) := sr_u32 s in
        let st := x / 16777216 in
        let buf := x mod 16777216 in
        let left := (int_of_u64 size - Z.of_N (s_pos s - start))%Z in
        if (left =? 0)%Z then (Ok (DDcd sfs ot st buf maxbr avgbr [] []), s)
        else
          match dd left s with
          | (Ok d, s) =>
              match desc_loop dd (S (length (s_rem s))) (int_of_u64 size) start s [d] with
              | LDone ds s => (Ok (DDcd sfs ot st buf maxbr avgbr ds []), s)
              | LUnknown ds u s => (Ok (DDcd sfs ot st buf maxbr avgbr ds u), s)
              | LTooFar s => (Err, s)
              | LFuel => (OutOfFuel, s)
              end
          | (OutOfFuel, s) => (OutOfFuel, s)
          | (_, s) => (Err, s)
          end
  | (OutOfFuel, s) => (OutOfFuel, s)
  | (_, s) => (Err, s)
  end.

(* func DecodeDescriptor(sr, maxNrBytes) *)
Fixpoint decode_desc (fuel : nat) (maxNr : Z) (s : sl) : res desc * sl :=
  match fuel with
  | O => (OutOfFuel, s)
  | S fu =>
      if (maxNr <? 2)%Z then (Err, s)
      else
        let '(tag, s) := sr_u8 s in
        if s_err s then (Err, s)
        else if tag =? 3 then (Err, s)
        else if tag =? 4 then decode_dcd_with (decode_desc fu) maxNr s
        else if tag =? 5 then decode_dsi maxNr s
        else if tag =? 6 then decode_slc maxNr s
        else decode_raw tag maxNr s
  end.

(* func DecodeESDescriptor(sr, descSize) (ESDescriptor, error): descSize is not used by the Go code *)
Definition decode_es_f (fuel : nat) (s : sl) : res esd * sl :=
  let dd := decode_desc fuel in
  let '(tag, s) := sr_u8 s in
  if negb (tag =? 3) then (Err, s)
  else
    match read_size s with
    | (Ok (sfs, size), s) =>
        let start := s_pos s in
        let '(esid, s) := sr_u16 s in
        let '(flags, s) := sr_u8 s in
        let '(dep, s) := if flags / 128 =? 1 then sr_u16 s else (0, s) in
        let '(url, s) := if (flags / 64) mod 2 =? 1
                         then let '(n, s) := sr_u8 s in sr_take n s else ([], s) in
        let '(ocr, s) := if (flags / 32) mod 2 =? 1 then sr_u16 s else (0, s) in
        let left := (int_of_u64 size - Z.of_N (s_pos s - start))%Z in
        match dd left s with
        | (Ok (DDcd a b c d0 e0 f0 g h), s) =>
            let dcd := DDcd a b c d0 e0 f0 g h in
            let left := (int_of_u64 size - Z.of_N (s_pos s - start))%Z in
            match dd left s with
            | (Ok d2, s2) =>
                match desc_loop dd (S (length (s_rem s2))) (int_of_u64 size) start s2 [d2] with
                | LDone ds s3 =>
                    let e := mkEsd sfs esid flags dep url ocr dcd ds [] in
                    if negb (size =? es_size_of e) then (Err, s3)
                    else if s_err s3 then (Err, s3) else (Ok e, s3)
                | LUnknown ds u s3 => (Ok (mkEsd sfs esid flags dep url ocr dcd ds u), s3)
                | LTooFar s3 => (Err, s3)
                | LFuel => (OutOfFuel, s2)
                end
            | (OutOfFuel, s2) => (OutOfFuel, s2)
            | (_, s2) =>
                let '(u, s3) := sr_bytes left (sl_restore s s2) in
                (Ok (mkEsd sfs esid flags dep url ocr dcd [] u), s3)
            end
        | (Ok _, s) => (Err, s)                (* expected DecoderConfigDescriptor *)
        | (OutOfFuel, s) => (OutOfFuel, s)
        | (_, s) => (Err, s)
        end
    | (OutOfFuel, s) => (OutOfFuel, s)
    | (_, s) => (Err, s)
    end.

(* the entry points on a fresh FixedSliceReader over data; nesting depth <= bytes / 2, so this fuel never
   runs out on a descriptor that fits the data *)
Definition decode_descriptor (maxNr : Z) (data : list N) : res desc * sl :=
  decode_desc (S (length data)) maxNr (sl_init data).
Definition decode_es_descriptor (data : list N) : res esd * sl :=
  decode_es_f (S (length data)) (sl_init data).

(* DecodeEsds on the body of an esds box (readBoxBody, then DecodeEsdsSR on a FixedSliceReader over it):
   version and flags, the ES descriptor, `return e, sr.AccError()` *)
Definition decode_esds_body (body : list N) : res (N * esd) :=
  let '(vf, s) := sr_u32 (sl_init body) in
  match decode_es_f (S (length body)) s with
  | (Ok e, s) => if s_err s then Err else Ok (vf, e)
  | (OutOfFuel, _) => OutOfFuel
  | _ => Err
  end.

(* EsdsBox.Encode: header, version and flags, descriptor *)
Definition encode_esds (vf : N) (e : esd) : list N :=
  be32 (8 + 4 + es_sizesize e) ++ fourcc_esds ++ be32 vf ++ encode_es e.
