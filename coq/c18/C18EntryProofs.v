(* C18EntryProofs.v — the AAC sample-entry path: decoding the mp4a entry that SetAACDescriptor
   builds returns the entry fields and the DecSpecificInfo bytes, and DecodeAudioSpecificConfig on
   them returns the configuration SetAACDescriptor built.  The entry's sample-rate field is exact
   below 65536 and refuted above (88200 / 96000). *)
From V.lib Require Import Base.
From V.c18 Require Import C18Model C18BitsProofs C18AscProofs C18EntryModel.

Ltac estep := cbv beta iota delta [ebind].

(* ---------- reads invert writes ---------- *)
Lemma r_u8_cons b l p : r_u8 (b :: l, p) = EOk (b, (l, p + 1)).
Proof. reflexivity. Qed.

Lemma r_u16_be16 v l p : v < 65536 -> r_u16 (be16 v ++ l, p) = EOk (v, (l, p + 2)).
Proof.
  intros H. unfold r_u16, be16. cbn [app]. rewrite !r_u8_cons. estep. rewrite r_u8_cons. estep.
  f_equal. f_equal; [lia|f_equal; lia].
Qed.

Lemma r_u32_be32 v l p : v < 4294967296 -> r_u32 (be32 v ++ l, p) = EOk (v, (l, p + 4)).
Proof.
  intros H. unfold r_u32, r_u16, be32. cbn [app].
  rewrite r_u8_cons. estep. rewrite r_u8_cons. estep. rewrite r_u8_cons. estep. rewrite r_u8_cons. estep.
  f_equal. f_equal; [lia|f_equal; lia].
Qed.

Lemma firstn_lenN_app {A} (x l : list A) : firstn (N.to_nat (lenN x)) (x ++ l) = x.
Proof.
  unfold lenN. rewrite Nat2N.id. rewrite firstn_app, Nat.sub_diag, firstn_all. cbn [firstn]. apply app_nil_r.
Qed.

Lemma skipn_lenN_app {A} (x l : list A) : skipn (N.to_nat (lenN x)) (x ++ l) = l.
Proof.
  unfold lenN. rewrite Nat2N.id. rewrite skipn_app, Nat.sub_diag, skipn_all. reflexivity.
Qed.

Lemma r_take_app x l p k : lenN x = k -> r_take k (x ++ l, p) = EOk (x, (l, p + k)).
Proof.
  intros <-. unfold r_take. rewrite lenN_app.
  replace (lenN x <=? lenN x + lenN l) with true by (symmetry; apply N.leb_le; lia).
  rewrite firstn_lenN_app, skipn_lenN_app. reflexivity.
Qed.

Lemma desc_size_0 x : desc_size x 0 = [x mod 128].
Proof.
  unfold desc_size. change (7 * N.of_nat 0) with 0. rewrite N.pow_0_r, N.div_1_r. reflexivity.
Qed.

Lemma size_loop_small fuel tmp n acc s : tmp < 128 -> size_loop fuel tmp n acc s = EOk (n, acc, s).
Proof.
  intros H. destruct fuel; cbn [size_loop];
    replace (128 <=? tmp) with false by (symmetry; apply N.leb_gt; exact H); reflexivity.
Qed.

Lemma read_size_size_small x l p : x < 128 -> read_size_size (x :: l, p) = EOk ((0, x), (l, p + 1)).
Proof.
  intros H. unfold read_size_size. rewrite r_u8_cons. estep.
  rewrite size_loop_small by exact H. estep. rewrite N.mod_small by exact H. reflexivity.
Qed.

Lemma int_of_u64_small x : x < 9223372036854775808 -> int_of_u64 x = Z.of_N x.
Proof. intros H. unfold int_of_u64. apply N.ltb_lt in H. now rewrite H. Qed.

Lemma zeros_len n : lenN (zeros n) = N.of_nat n.
Proof. unfold zeros, lenN. now rewrite repeat_length. Qed.

(* ---------- descriptor decoders on the encoder's output ---------- *)
Lemma decode_dcd_ok dc rest p maxNr :
  lenN dc <= 100 -> (Z.of_N (dcd_size dc) + 2 <= maxNr)%Z ->
  decode_dcd maxNr (desc_size (dcd_size dc) 0 ++ 64 :: be32 (21 * 16777216) ++ be32 0 ++ be32 0
                    ++ dsi_bytes dc ++ rest, p)
  = EOk ((2 + dcd_size dc, dc), (rest, p + 1 + dcd_size dc)).
Proof.
  intros Hn Hm. unfold decode_dcd, dsi_bytes, dcd_size in *.
  rewrite !desc_size_0.
  rewrite (N.mod_small (13 + (2 + lenN dc))) by lia.
  rewrite (N.mod_small (lenN dc)) by lia.
  cbn [app]. rewrite read_size_size_small by lia. estep.
  unfold exceeds, u64.
  replace (Z.of_N ((1 + 0 + 1 + (13 + (2 + lenN dc))) mod 18446744073709551616) >? maxNr)%Z with false
    by (symmetry; rewrite Z.gtb_ltb; apply Z.ltb_ge; lia).
  estep. cbn [snd]. rewrite r_u8_cons. estep.
  rewrite r_u32_be32 by lia. estep.
  rewrite r_u32_be32 by lia. estep.
  rewrite r_u32_be32 by lia. estep. cbn [snd].
  rewrite int_of_u64_small by lia.
  replace (Z.of_N (13 + (2 + lenN dc)) - Z.of_N (p + 1 + 1 + 4 + 4 + 4 - (p + 1)) =? 0)%Z with false
    by (symmetry; apply Z.eqb_neq; lia).
  replace (Z.of_N (13 + (2 + lenN dc)) - Z.of_N (p + 1 + 1 + 4 + 4 + 4 - (p + 1)) <? 2)%Z with false
    by (symmetry; apply Z.ltb_ge; lia).
  estep. rewrite r_u8_cons. estep. change (negb (5 =? 5)) with false. estep.
  rewrite read_size_size_small by lia. estep.
  replace (Z.of_N ((1 + 0 + 1 + lenN dc) mod 18446744073709551616) >?
           Z.of_N (13 + (2 + lenN dc)) - Z.of_N (p + 1 + 1 + 4 + 4 + 4 - (p + 1)))%Z with false
    by (symmetry; rewrite Z.gtb_ltb; apply Z.ltb_ge; lia).
  estep. rewrite r_take_app by reflexivity. estep. cbn [snd].
  replace (Z.of_N (13 + (2 + lenN dc)) - Z.of_N (p + 1 + 1 + 4 + 4 + 4 + 1 + 1 + lenN dc - (p + 1)) =? 0)%Z
    with true by (symmetry; apply Z.eqb_eq; lia).
  estep. apply f_equal. apply f_equal2; apply f_equal2; (reflexivity || lia).
Qed.

Lemma decode_es_ok dc rest p :
  lenN dc <= 100 ->
  decode_es (es_bytes dc ++ rest, p) = EOk ((2 + es_size dc, dc), (rest, p + 2 + es_size dc)).
Proof.
  intros Hn. unfold decode_es, es_bytes, dcd_bytes, slc_bytes.
  rewrite <- !app_assoc. cbn [app]. rewrite r_u8_cons. estep. change (negb (3 =? 3)) with false. estep.
  rewrite (desc_size_0 (es_size dc)).
  assert (Hes : es_size dc = 23 + lenN dc) by (unfold es_size, dcd_size; lia).
  rewrite (N.mod_small (es_size dc)) by lia.
  cbn [app]. rewrite read_size_size_small by lia. estep. cbn [snd].
  rewrite r_u16_be16 by lia. estep. rewrite r_u8_cons. estep.
  change (0 / 128 =? 1) with false. change ((0 / 64) mod 2 =? 1) with false. change ((0 / 32) mod 2 =? 1) with false.
  estep. cbn [snd].
  rewrite int_of_u64_small by lia.
  replace (Z.of_N (es_size dc) - Z.of_N (p + 1 + 1 + 2 + 1 - (p + 1 + 1)) <? 2)%Z with false
    by (symmetry; apply Z.ltb_ge; lia).
  estep. rewrite r_u8_cons. estep. change (4 =? 3) with false. change (negb (4 =? 4)) with false. estep.
  rewrite decode_dcd_ok by (try exact Hn; unfold dcd_size; lia). estep. cbn [snd].
  replace (Z.of_N (es_size dc) - Z.of_N (p + 1 + 1 + 2 + 1 + 1 + 1 + dcd_size dc - (p + 1 + 1)) <? 2)%Z with false
    by (symmetry; apply Z.ltb_ge; unfold dcd_size; lia).
  estep. rewrite r_u8_cons. estep. change (negb (6 =? 6)) with false. estep.
  rewrite desc_size_0. change (1 mod 128) with 1. cbn [app].
  rewrite read_size_size_small by lia. estep.
  unfold exceeds, u64.
  replace (Z.of_N ((1 + 0 + 1 + 1) mod 18446744073709551616) >?
           Z.of_N (es_size dc) - Z.of_N (p + 1 + 1 + 2 + 1 + 1 + 1 + dcd_size dc - (p + 1 + 1)))%Z with false
    by (symmetry; rewrite Z.gtb_ltb; apply Z.ltb_ge; unfold dcd_size; lia).
  estep. rewrite r_u8_cons. estep. change (1 <? 1) with false. estep. cbn [snd].
  change (lenN (@nil N)) with 0.
  replace (Z.of_N (es_size dc) - Z.of_N (p + 1 + 1 + 2 + 1 + 1 + 1 + dcd_size dc + 1 + 1 + 1 - (p + 1 + 1)) =? 0)%Z
    with true by (symmetry; apply Z.eqb_eq; unfold dcd_size; lia).
  estep.
  replace (es_size dc =? 3 + 0 + 0 + 0 + (2 + dcd_size dc) + (1 + 0 + 1 + (1 + 0))) with true
    by (symmetry; apply N.eqb_eq; unfold es_size; lia).
  cbn [negb]. estep. unfold dcd_size. apply f_equal. apply f_equal2; apply f_equal2; (reflexivity || lia).
Qed.

Lemma list_eqb_refl l : list_eqb l l = true.
Proof.
  unfold list_eqb. rewrite N.eqb_refl. cbn [andb].
  induction l as [|x t IH]; [reflexivity|]. cbn [combine forallb]. now rewrite N.eqb_refl, IH.
Qed.

Lemma decode_box_header_ok size name body rest :
  8 < size -> size < 4294967296 -> lenN name = 4 -> lenN body = size - 8 ->
  decode_box_header (be32 size ++ name ++ body ++ rest) = EOk (name, size, body, rest).
Proof.
  intros H8 H32 Hname Hbody. unfold decode_box_header.
  replace (lenN (be32 size ++ name ++ body ++ rest) <? 8) with false
    by (symmetry; apply N.ltb_ge; rewrite !lenN_app; unfold be32; rewrite !lenN_cons, lenN_nil; lia).
  rewrite r_u32_be32 by exact H32. estep. rewrite r_take_app by exact Hname. estep.
  replace (size =? 1) with false by (symmetry; apply N.eqb_neq; lia).
  replace (size =? 0) with false by (symmetry; apply N.eqb_neq; lia).
  replace (size <? 8) with false by (symmetry; apply N.ltb_ge; lia).
  replace (size =? 8) with false by (symmetry; apply N.eqb_neq; lia).
  cbn [fst].
  replace (lenN (body ++ rest) <? size - 8) with false
    by (symmetry; apply N.ltb_ge; rewrite lenN_app; lia).
  rewrite <- Hbody. rewrite firstn_lenN_app, skipn_lenN_app. reflexivity.
Qed.

Lemma es_bytes_len dc : lenN (es_bytes dc) = 2 + es_size dc.
Proof.
  unfold es_bytes, dcd_bytes, dsi_bytes, slc_bytes, es_size, dcd_size.
  rewrite !desc_size_0. unfold be16, be32.
  rewrite !lenN_app, !lenN_cons, !lenN_nil. lia.
Qed.

Lemma esds_box_len dc : lenN (esds_box dc) = esds_size dc.
Proof.
  unfold esds_box. rewrite !lenN_app, es_bytes_len. unfold esds_size, be32, fourcc_esds.
  rewrite !lenN_cons, !lenN_nil. lia.
Qed.

(* ---------- the entry ---------- *)
Lemma entry_roundtrip cc ss rate dc :
  cc < 65536 -> ss < 65536 -> rate < 65536 -> lenN dc <= 100 ->
  decode_entry (mp4a_box cc ss rate dc) = EOk (mkEntry 1 cc ss rate dc).
Proof.
  intros Hc Hs Hr Hn. unfold decode_entry, mp4a_box.
  assert (Hes : es_size dc = 23 + lenN dc) by (unfold es_size, dcd_size; lia).
  assert (Hq : esds_size dc = 37 + lenN dc) by (unfold esds_size; lia).
  pose proof (decode_box_header_ok (mp4a_size dc) fourcc_mp4a
    (zeros 6 ++ be16 1 ++ zeros 8 ++ be16 cc ++ be16 ss ++ zeros 4 ++ be32 (rate * 65536) ++ esds_box dc) []) as Hh.
  rewrite app_nil_r in Hh. rewrite Hh; clear Hh.
  2: unfold mp4a_size; lia.
  2: unfold mp4a_size; lia.
  2: reflexivity.
  2: { rewrite !lenN_app, !zeros_len, esds_box_len. unfold be16, be32, mp4a_size.
       rewrite !lenN_cons, !lenN_nil. lia. }
  estep. rewrite list_eqb_refl. cbn [negb]. estep.
  rewrite r_take_app by apply zeros_len. estep.
  rewrite r_u16_be16 by lia. estep.
  rewrite r_take_app by apply zeros_len. estep.
  rewrite r_u16_be16 by exact Hc. estep.
  rewrite r_u16_be16 by exact Hs. estep.
  rewrite r_take_app by apply zeros_len. estep.
  rewrite r_u32_be32 by lia. estep. cbn [fst].
  replace (lenN (esds_box dc) =? 0) with false by (symmetry; apply N.eqb_neq; rewrite esds_box_len; lia).
  unfold esds_box at 1.
  pose proof (decode_box_header_ok (esds_size dc) fourcc_esds (be32 0 ++ es_bytes dc) []) as Hh.
  rewrite app_nil_r in Hh. rewrite <- ?app_assoc in Hh. rewrite <- ?app_assoc. rewrite Hh; clear Hh.
  2: lia.
  2: lia.
  2: reflexivity.
  2: { rewrite lenN_app, es_bytes_len. unfold be32, esds_size. rewrite !lenN_cons, !lenN_nil. lia. }
  estep. rewrite list_eqb_refl. cbn [negb]. estep.
  rewrite r_u32_be32 by lia. estep.
  rewrite <- (app_nil_r (es_bytes dc)). rewrite decode_es_ok by exact Hn. estep.
  replace (36 + (8 + 4 + (2 + es_size dc)) =? mp4a_size dc) with true
    by (symmetry; apply N.eqb_eq; unfold mp4a_size, esds_size; lia).
  estep. f_equal. f_equal. rewrite N.div_mul by discriminate. reflexivity.
Qed.

(* ---------- SetAACDescriptor ---------- *)
Lemma pack_length_le : forall n l, (length l <= n)%nat -> (length (pack l) <= length l)%nat.
Proof.
  induction n as [|n IH]; intros l Hl.
  - destruct l; [cbn; lia|cbn [length] in Hl; lia].
  - do 8 (destruct l as [|? l]; [cbn [pack length]; lia|]).
    cbn [pack length]. cbn [length] in Hl. specialize (IH l ltac:(lia)). lia.
Qed.

Lemma freq_field_length f : (length (freq_field f) <= 28)%nat.
Proof.
  unfold freq_field. destruct (index_of_freq f); rewrite ?app_length, !to_bits_length; lia.
Qed.

Lemma asc_bytes_short a : lenN (pack (flush (asc_bits a))) <= 100.
Proof.
  unfold lenN.
  pose proof (pack_length_le _ (flush (asc_bits a)) (le_n _)) as H.
  assert (length (flush (asc_bits a)) <= 80)%nat.
  { unfold flush, pad_len. rewrite app_length, repeat_length.
    assert (length (asc_bits a) <= 73)%nat.
    { unfold asc_bits. pose proof (freq_field_length (a_freq a)). pose proof (freq_field_length (a_ext a)).
      destruct (_ || _); rewrite !app_length, !to_bits_length; lia. }
    lia. }
  lia.
Qed.

Definition entry_freq_ok (ot : N) (f : Z) : bool :=
  ((ot =? AAClc) || (ot =? HEAACv1) || (ot =? HEAACv2))
  && (0 <=? f)%Z && (if ot =? AAClc then (f <? 16777216)%Z else (f <? 8388608)%Z).

Lemma set_aac_asc_canonical ot f : entry_freq_ok ot f = true -> canonical (set_aac_asc ot f) = true.
Proof.
  unfold entry_freq_ok. intros H.
  apply andb_prop in H. destruct H as [H H3]. apply andb_prop in H. destruct H as [H1 H2].
  apply orb_prop in H1. destruct H1 as [H1|H1]; [apply orb_prop in H1; destruct H1 as [H1|H1]|];
    apply N.eqb_eq in H1; subst ot; unfold set_aac_asc, canonical, freq_ok;
    cbn [a_ot a_chan a_freq a_ext a_sbr a_ps].
  - change (AAClc =? HEAACv1) with false. change (AAClc =? HEAACv2) with false. cbv beta iota.
    cbn [a_ot a_chan a_freq a_ext a_sbr a_ps].
    change (AAClc =? AAClc) with true in *. cbn [orb andb negb Bool.eqb].
    rewrite H2, H3. reflexivity.
  - change (HEAACv1 =? HEAACv1) with true. cbv beta iota.
    cbn [a_ot a_chan a_freq a_ext a_sbr a_ps].
    change (HEAACv1 =? AAClc) with false in *. change (HEAACv1 =? HEAACv2) with false.
    change (HEAACv1 =? HEAACv1) with true. cbn [orb andb negb Bool.eqb]. cbv beta iota in H3.
    rewrite H2. cbn [andb].
    replace (f <? 16777216)%Z with true by lia.
    replace (0 <=? 2 * f)%Z with true by lia.
    replace (2 * f <? 16777216)%Z with true by lia. reflexivity.
  - change (HEAACv2 =? HEAACv1) with false. change (HEAACv2 =? HEAACv2) with true. cbv beta iota.
    cbn [a_ot a_chan a_freq a_ext a_sbr a_ps].
    change (HEAACv2 =? AAClc) with false in *. change (HEAACv2 =? HEAACv1) with false.
    change (HEAACv2 =? HEAACv2) with true. cbn [orb andb negb Bool.eqb]. cbv beta iota in H3.
    rewrite H2. cbn [andb].
    replace (f <? 16777216)%Z with true by lia.
    replace (0 <=? 2 * f)%Z with true by lia.
    replace (2 * f <? 16777216)%Z with true by lia. reflexivity.
Qed.

Lemma set_aac_chan_small ot f : a_chan (set_aac_asc ot f) < 65536.
Proof. unfold set_aac_asc. destruct (ot =? HEAACv1); [reflexivity|]. destruct (ot =? HEAACv2); reflexivity. Qed.

(* the full path: SetAACDescriptor -> encoded mp4a entry -> DecodeBox -> esds -> DecSpecificInfo ->
   DecodeAudioSpecificConfig returns the configuration that was built; the entry's own fields
   come back as written (sample rate: the uint16 conversion of the frequency) *)
Lemma sample_entry ot f :
  entry_freq_ok ot f = true ->
  exists bs dc,
    set_aac_descriptor ot f = Ok bs
    /\ decode_entry bs = EOk (mkEntry 1 (a_chan (set_aac_asc ot f)) 16 (uint16_of_int f) dc)
    /\ entry_asc bs = EOk (set_aac_asc ot f).
Proof.
  intros H. pose proof (set_aac_asc_canonical ot f H) as Hc.
  pose proof (asc_roundtrip _ Hc) as Hrt.
  unfold set_aac_descriptor. unfold encode_asc in *.
  destruct ((a_ot (set_aac_asc ot f) =? AAClc) || (a_ot (set_aac_asc ot f) =? HEAACv1)
            || (a_ot (set_aac_asc ot f) =? HEAACv2)) eqn:E; [|discriminate].
  cbn [rbind] in *.
  set (dc := pack (flush (asc_bits (set_aac_asc ot f)))) in *.
  exists (mp4a_box (a_chan (set_aac_asc ot f)) 16 (uint16_of_int f) dc), dc.
  assert (Hd : decode_entry (mp4a_box (a_chan (set_aac_asc ot f)) 16 (uint16_of_int f) dc)
               = EOk (mkEntry 1 (a_chan (set_aac_asc ot f)) 16 (uint16_of_int f) dc)).
  { apply entry_roundtrip.
    - apply set_aac_chan_small.
    - reflexivity.
    - unfold uint16_of_int. lia.
    - apply asc_bytes_short. }
  split; [reflexivity|]. split; [exact Hd|].
  unfold entry_asc. rewrite Hd. cbn [ebind e_dc]. now rewrite Hrt.
Qed.

(* the rate field: exact below 65536 ... *)
Lemma entry_rate_exact f : (0 <= f < 65536)%Z -> Z.of_N (uint16_of_int f) = f.
Proof. intros H. unfold uint16_of_int. rewrite Z.mod_small by lia. lia. Qed.

(* ... refuted above: the table frequencies 88200 and 96000 do not survive *)
Lemma entry_rate_refuted :
  exists f bs e, In f table_freqs /\ set_aac_descriptor AAClc f = Ok bs /\ decode_entry bs = EOk e
                 /\ Z.of_N (e_rate e) <> f.
Proof.
  exists 88200%Z.
  eexists. eexists. split; [|split; [vm_compute; reflexivity|split; [vm_compute; reflexivity|]]].
  - unfold table_freqs, frequency_table. cbn [map snd In]. tauto.
  - cbn [e_rate]. discriminate.
Qed.

(* ---------- the slice-reader decoders (DecodeBoxSR path) ---------- *)
Lemma decode_box_header_sr_ok size name rest p :
  8 <= size -> size < 4294967296 -> lenN name = 4 ->
  decode_box_header_sr (be32 size ++ name ++ rest, p) = EOk (name, size, (rest, p + 4 + 4)).
Proof.
  intros H8 H32 Hname. unfold decode_box_header_sr.
  rewrite r_u32_be32 by exact H32. estep. rewrite r_take_app by exact Hname. estep.
  replace (size =? 1) with false by (symmetry; apply N.eqb_neq; lia).
  replace (size =? 0) with false by (symmetry; apply N.eqb_neq; lia).
  replace (size <? 8) with false by (symmetry; apply N.ltb_ge; lia).
  reflexivity.
Qed.

Lemma entry_roundtrip_sr cc ss rate dc :
  cc < 65536 -> ss < 65536 -> rate < 65536 -> lenN dc <= 100 ->
  decode_entry_sr (mp4a_box cc ss rate dc) = EOk (mkEntry 1 cc ss rate dc).
Proof.
  intros Hc Hs Hr Hn. unfold decode_entry_sr, mp4a_box.
  assert (Hes : es_size dc = 23 + lenN dc) by (unfold es_size, dcd_size; lia).
  assert (Hq : esds_size dc = 37 + lenN dc) by (unfold esds_size; lia).
  rewrite decode_box_header_sr_ok by (try reflexivity; unfold mp4a_size; lia).
  estep. rewrite list_eqb_refl. cbn [negb fst].
  replace (lenN (zeros 6 ++ be16 1 ++ zeros 8 ++ be16 cc ++ be16 ss ++ zeros 4 ++ be32 (rate * 65536) ++ esds_box dc)
           + 8 <? mp4a_size dc) with false.
  2:{ symmetry. apply N.ltb_ge. rewrite !lenN_app, !zeros_len, esds_box_len. unfold be16, be32, mp4a_size.
      rewrite !lenN_cons, !lenN_nil. lia. }
  rewrite r_take_app by apply zeros_len. estep.
  rewrite r_u16_be16 by lia. estep.
  rewrite r_take_app by apply zeros_len. estep.
  rewrite r_u16_be16 by exact Hc. estep.
  rewrite r_u16_be16 by exact Hs. estep.
  rewrite r_take_app by apply zeros_len. estep.
  rewrite r_u32_be32 by lia. estep.
  replace (mp4a_size dc <=? 36) with false by (symmetry; apply N.leb_gt; unfold mp4a_size; lia).
  unfold esds_box.
  rewrite decode_box_header_sr_ok by (try reflexivity; lia).
  estep. rewrite list_eqb_refl. cbn [negb fst].
  replace (lenN (be32 0 ++ es_bytes dc) + 8 <? esds_size dc) with false.
  2:{ symmetry. apply N.ltb_ge. rewrite lenN_app, es_bytes_len. unfold be32, esds_size.
      rewrite !lenN_cons, !lenN_nil. lia. }
  cbv zeta.
  replace (firstn (N.to_nat (esds_size dc - 8)) (be32 0 ++ es_bytes dc)) with (be32 0 ++ es_bytes dc).
  2:{ symmetry. apply firstn_all2. pose proof (es_bytes_len dc) as L. unfold lenN in L.
      rewrite app_length. unfold be32. cbn [length]. lia. }
  rewrite r_u32_be32 by lia. estep.
  rewrite <- (app_nil_r (es_bytes dc)). rewrite decode_es_ok by exact Hn. estep.
  replace (36 + (8 + 4 + (2 + es_size dc)) <? mp4a_size dc) with false
    by (symmetry; apply N.ltb_ge; unfold mp4a_size, esds_size; lia).
  f_equal. f_equal. rewrite N.div_mul by discriminate. reflexivity.
Qed.

Lemma sample_entry_sr ot f :
  entry_freq_ok ot f = true ->
  exists bs dc,
    set_aac_descriptor ot f = Ok bs
    /\ decode_entry_sr bs = EOk (mkEntry 1 (a_chan (set_aac_asc ot f)) 16 (uint16_of_int f) dc)
    /\ entry_asc_sr bs = EOk (set_aac_asc ot f).
Proof.
  intros H. pose proof (set_aac_asc_canonical ot f H) as Hc.
  pose proof (asc_roundtrip _ Hc) as Hrt.
  unfold set_aac_descriptor. unfold encode_asc in *.
  destruct ((a_ot (set_aac_asc ot f) =? AAClc) || (a_ot (set_aac_asc ot f) =? HEAACv1)
            || (a_ot (set_aac_asc ot f) =? HEAACv2)) eqn:E; [|discriminate].
  cbn [rbind] in *.
  set (dc := pack (flush (asc_bits (set_aac_asc ot f)))) in *.
  exists (mp4a_box (a_chan (set_aac_asc ot f)) 16 (uint16_of_int f) dc), dc.
  assert (Hd : decode_entry_sr (mp4a_box (a_chan (set_aac_asc ot f)) 16 (uint16_of_int f) dc)
               = EOk (mkEntry 1 (a_chan (set_aac_asc ot f)) 16 (uint16_of_int f) dc)).
  { apply entry_roundtrip_sr.
    - apply set_aac_chan_small.
    - reflexivity.
    - unfold uint16_of_int. lia.
    - apply asc_bytes_short. }
  split; [reflexivity|]. split; [exact Hd|].
  unfold entry_asc_sr. rewrite Hd. cbn [ebind e_dc]. now rewrite Hrt.
Qed.
