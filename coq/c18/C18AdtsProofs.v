(* C18AdtsProofs.v — ADTS header: the sync search skips junk without a sync word and reports its
   length (induction over the iterations, incl. ff runs and the sync2 re-use path); the field reads
   invert the field writes for every canonical header (general in all fields, in particular in the
   payload length); complete enumerations of the grid, of the payload lengths and of junk lengths. *)
From V.lib Require Import Base.
From V.c18 Require Import C18Model C18BitsProofs.

Ltac pow_consts :=
  repeat match goal with
         | |- context [2 ^ N.of_nat ?w] =>
             let c := eval vm_compute in (2 ^ N.of_nat w) in change (2 ^ N.of_nat w) with c
         end.

Lemma rd8_byte b rest : b < 256 -> rd 8 (mkR (to_bits 8 b ++ rest) false) = (b, mkR rest false).
Proof. intros H. apply (rd_to_bits_small 8). exact H. Qed.

(* ---------- one iteration of the sync search ---------- *)
Lemma sync_loop_S f s sync2 offset :
  sync_loop (S f) s sync2 offset =
  (let '(sync1, s1, off1) :=
     if negb (sync2 =? 255) then let '(v, s1) := rd 8 s in (v mod 256, s1, offset)
     else (sync2, s, (offset - 1)%Z) in
   if sync1 =? 255 then
     let '(v, s2) := rd 8 s1 in
     let sync2' := v mod 256 in
     if is_sync2 sync2' then (true, sync2', off1, s2)
     else sync_loop f s2 sync2' (off1 + 2)%Z
   else sync_loop f s1 sync2 (off1 + 1)%Z).
Proof. reflexivity. Qed.

Lemma step_other f b l sync2 off :
  sync2 <> 255 -> b < 256 -> b <> 255 ->
  sync_loop (S f) (mkR (to_bits 8 b ++ l) false) sync2 off = sync_loop f (mkR l false) sync2 (off + 1)%Z.
Proof.
  intros H2 Hb Hn. rewrite sync_loop_S.
  replace (sync2 =? 255) with false by (symmetry; now apply N.eqb_neq).
  cbn [negb]. rewrite rd8_byte by exact Hb. cbv beta iota.
  rewrite N.mod_small by exact Hb.
  replace (b =? 255) with false by (symmetry; now apply N.eqb_neq).
  reflexivity.
Qed.

Lemma step_ff_found f x l sync2 off :
  sync2 <> 255 -> x < 256 -> is_sync2 x = true ->
  sync_loop (S f) (mkR (to_bits 8 255 ++ to_bits 8 x ++ l) false) sync2 off = (true, x, off, mkR l false).
Proof.
  intros H2 Hx Hs. rewrite sync_loop_S.
  replace (sync2 =? 255) with false by (symmetry; now apply N.eqb_neq).
  cbn [negb]. rewrite rd8_byte by reflexivity. cbv beta iota.
  change (255 mod 256 =? 255) with true. cbv beta iota.
  rewrite rd8_byte by exact Hx. cbv beta iota zeta.
  rewrite N.mod_small by exact Hx. rewrite Hs. reflexivity.
Qed.

Lemma step_ff_miss f x l sync2 off :
  sync2 <> 255 -> x < 256 -> is_sync2 x = false ->
  sync_loop (S f) (mkR (to_bits 8 255 ++ to_bits 8 x ++ l) false) sync2 off
  = sync_loop f (mkR l false) x (off + 2)%Z.
Proof.
  intros H2 Hx Hs. rewrite sync_loop_S.
  replace (sync2 =? 255) with false by (symmetry; now apply N.eqb_neq).
  cbn [negb]. rewrite rd8_byte by reflexivity. cbv beta iota.
  change (255 mod 256 =? 255) with true. cbv beta iota.
  rewrite rd8_byte by exact Hx. cbv beta iota zeta.
  rewrite N.mod_small by exact Hx. rewrite Hs. reflexivity.
Qed.

(* the sync2 re-use path: an iteration entered with sync2 = ff behaves exactly like an ordinary
   iteration that reads that ff again, one position earlier *)
Lemma step_reuse f l off :
  sync_loop (S f) (mkR l false) 255 off
  = sync_loop (S f) (mkR (to_bits 8 255 ++ l) false) 0 (off - 1)%Z.
Proof.
  rewrite !sync_loop_S.
  change (negb (255 =? 255)) with false. change (negb (0 =? 255)) with true. cbv beta iota.
  rewrite rd8_byte by reflexivity. cbv beta iota.
  change (255 mod 256) with 255. reflexivity.
Qed.

(* ---------- the search over junk ---------- *)
Lemma sync_loop_junk : forall fuel junk sync2 off x T,
  sync2 <> 255 -> (length junk < fuel)%nat ->
  bytes_ok junk = true -> no_sync_in junk = true ->
  x < 256 -> is_sync2 x = true ->
  sync_loop fuel (mkR (unpack junk ++ to_bits 8 255 ++ to_bits 8 x ++ T) false) sync2 off
  = (true, x, (off + Z.of_nat (length junk))%Z, mkR T false).
Proof.
  induction fuel as [|f IH]; intros junk sync2 off x T H2 Hlen Hb Hns Hx Hsx.
  - lia.
  - destruct junk as [|b j].
    + cbn [unpack flat_map app length]. rewrite step_ff_found by assumption.
      f_equal. f_equal. cbn [Z.of_nat]. lia.
    + rewrite bytes_ok_cons in Hb. apply andb_prop in Hb. destruct Hb as [Hb Hbj].
      unfold byte_ok in Hb. apply N.ltb_lt in Hb.
      cbn [no_sync_in] in Hns. apply andb_prop in Hns. destruct Hns as [Hns1 Hnsj].
      cbn [length] in Hlen.
      rewrite unpack_cons, <- app_assoc.
      destruct (N.eq_dec b 255) as [-> | Hnb].
      * (* the junk byte is ff: the next byte is read as sync2 *)
        destruct j as [|y j'].
        -- (* ... and it is the header's own ff *)
           cbn [unpack flat_map app].
           rewrite step_ff_miss by (try assumption; reflexivity).
           destruct f as [|f']; [cbn [length] in Hlen; lia|].
           rewrite step_reuse.
           specialize (IH [] 0 (off + 2 - 1)%Z x T).
           cbn [unpack flat_map app length] in IH. rewrite IH by (try assumption; try reflexivity; try lia; discriminate).
           f_equal. f_equal. cbn [length Z.of_nat]. lia.
        -- rewrite bytes_ok_cons in Hbj. apply andb_prop in Hbj. destruct Hbj as [Hy Hbj'].
           unfold byte_ok in Hy. apply N.ltb_lt in Hy.
           change (255 =? 255) with true in Hns1. cbn [andb] in Hns1.
           apply negb_true_iff in Hns1.
           rewrite unpack_cons, <- app_assoc.
           rewrite step_ff_miss by assumption.
           cbn [length] in Hlen.
           destruct (N.eq_dec y 255) as [-> | Hny].
           ++ (* ff ff: the second ff is re-used as sync1 *)
              destruct f as [|f']; [lia|].
              rewrite step_reuse.
              specialize (IH (255 :: j') 0 (off + 2 - 1)%Z x T).
              rewrite unpack_cons, <- app_assoc in IH.
              rewrite IH; try assumption; try discriminate.
              ** f_equal. f_equal. cbn [length]. lia.
              ** cbn [length]. lia.
           ++ cbn [no_sync_in] in Hnsj. apply andb_prop in Hnsj. destruct Hnsj as [_ Hnsj'].
              rewrite IH; try assumption.
              ** f_equal. f_equal. cbn [length]. lia.
              ** lia.
      * rewrite step_other by assumption.
        rewrite IH; try assumption.
        -- f_equal. f_equal. cbn [length]. lia.
        -- lia.
Qed.

(* ---------- the fields after the sync word ---------- *)
Definition adts_tail_bits (h : adts) : list bool :=
  to_bits 2 (u64 (h_ot h + 18446744073709551615))
  ++ to_bits 4 (h_sfi h) ++ to_bits 1 0 ++ to_bits 3 (h_chan h) ++ to_bits 4 0
  ++ to_bits 13 (u16 (h_plen h + 7)) ++ to_bits 11 (h_bf h) ++ to_bits 2 0.

Lemma adts_bits_split h :
  adts_bits h = to_bits 8 255 ++ to_bits 8 241 ++ adts_tail_bits h.
Proof. reflexivity. Qed.

Lemma adts_bits_length h : length (adts_bits h) = 56%nat.
Proof. unfold adts_bits. rewrite !app_length, !to_bits_length. reflexivity. Qed.

Lemma unpack_encode_adts h : unpack (encode_adts h) = adts_bits h.
Proof. unfold encode_adts. apply unpack_pack. rewrite adts_bits_length. reflexivity. Qed.

Lemma encode_adts_length h : length (encode_adts h) = 7%nat.
Proof.
  unfold encode_adts.
  pose proof (adts_bits_length h) as H.
  destruct (adts_bits h) as [|? l]; [discriminate|].
  do 55 (destruct l as [|? l]; [discriminate|]).
  destruct l; [reflexivity|discriminate].
Qed.

(* the instantiated decoder, unfolded once (proved by conversion here so that later proofs rewrite
   with it instead of unfolding through the generic definition) *)
Lemma decode_after_sync_eq sync2 offset s :
  decode_after_sync sync2 offset s =
  (let mpeg_id := N.land (N.shiftr sync2 3) 1 in
   let layer := N.land (N.shiftr sync2 1) 3 in
   let protection_absent := N.land sync2 1 in
   if negb (layer =? 0) then Err
   else
     let hlen := if negb (protection_absent =? 1) then 9 else 7 in
     let '(profile, s) := rd 2 s in
     let ot := u8 (profile + 1) in
     let '(sfi, s) := rd 4 s in
     let '(_, s) := rd 1 s in
     let '(chan, s) := rd 3 s in
     let '(_, s) := rd 4 s in
     let '(flen, s) := rd 13 s in
     let plen := u16 (u16 flen + 65536 - hlen) in
     let '(bf, s) := rd 11 s in
     let '(nrb, s) := rd 2 s in
     if negb (nrb =? 0) then Err
     else
       let s := if negb (protection_absent =? 1) then snd (rd 16 s) else s in
       if rerr s then Err
       else Ok (mkAdts mpeg_id ot (u8 sfi) (u8 chan) hlen plen (u16 bf), offset)).
Proof. reflexivity. Qed.

Lemma decode_after_sync_tail h off T :
  adts_canonical h = true ->
  decode_after_sync 241 off (mkR (adts_tail_bits h ++ T) false) = Ok (h, off).
Proof.
  destruct h as [hid ot sfi ch hl pl bf]. unfold adts_canonical. cbn [h_id h_ot h_sfi h_chan h_hlen h_plen h_bf].
  intros H.
  repeat (apply andb_prop in H; let H' := fresh "C" in destruct H as [H H']).
  apply N.eqb_eq in H. subst hid. apply N.eqb_eq in C5. subst hl.
  rewrite decode_after_sync_eq. unfold adts_tail_bits. cbn [h_id h_ot h_sfi h_chan h_hlen h_plen h_bf].
  change (N.land (N.shiftr 241 3) 1) with 0.
  change (N.land (N.shiftr 241 1) 3) with 0.
  change (N.land 241 1) with 1.
  change (negb (0 =? 0)) with false. change (negb (1 =? 1)) with false. cbv beta iota zeta.
  rewrite <- !app_assoc.
  rewrite rd_to_bits. cbv beta iota zeta.
  rewrite rd_to_bits. cbv beta iota zeta.
  rewrite rd_to_bits. cbv beta iota zeta.
  rewrite rd_to_bits. cbv beta iota zeta.
  rewrite rd_to_bits. cbv beta iota zeta.
  rewrite rd_to_bits. cbv beta iota zeta.
  rewrite rd_to_bits. cbv beta iota zeta.
  rewrite rd_to_bits. cbv beta iota zeta.
  pow_consts.
  change (0 mod 4 =? 0) with true. cbn [negb rerr].
  unfold u8, u16, u64.
  f_equal. f_equal. f_equal; lia.
Qed.

(* ---------- the property ---------- *)
Lemma adts_sync_offset junk h rest :
  (length junk <= 187)%nat -> bytes_ok junk = true -> no_sync_in junk = true ->
  adts_canonical h = true ->
  decode_adts (junk ++ encode_adts h ++ rest) = Ok (h, Z.of_nat (length junk)).
Proof.
  intros Hl Hb Hn Hc. unfold decode_adts, decode_adts_g, rinit.
  rewrite !unpack_app, unpack_encode_adts, adts_bits_split, <- !app_assoc.
  rewrite (sync_loop_junk ts_packet_size junk 0 0%Z 241); try assumption; try reflexivity; try discriminate.
  - cbn [rerr negb]. rewrite Z.add_0_l. now apply decode_after_sync_tail.
  - unfold ts_packet_size. lia.
Qed.

Lemma adts_roundtrip h rest :
  adts_canonical h = true -> decode_adts (encode_adts h ++ rest) = Ok (h, 0%Z).
Proof. intros Hc. apply (adts_sync_offset [] h rest); try reflexivity; [cbn [length]; lia|exact Hc]. Qed.

(* ---------- the search finds the FIRST sync word of any input (naive scan) ---------- *)
Lemma first_sync_split : forall l p,
  first_sync l = Some p ->
  exists junk x T, l = junk ++ 255 :: x :: T /\ length junk = p /\ is_sync2 x = true
                   /\ no_sync_in junk = true.
Proof.
  induction l as [|b t IH]; intros p H; [discriminate|].
  cbn [first_sync] in H.
  destruct ((b =? 255) && match t with x :: _ => is_sync2 x | [] => false end) eqn:E.
  - injection H as <-. apply andb_prop in E. destruct E as [Eb Ex]. apply N.eqb_eq in Eb. subst b.
    destruct t as [|x T]; [discriminate|].
    exists [], x, T. repeat split; assumption.
  - destruct (first_sync t) as [q|] eqn:Eq; [|discriminate]. injection H as <-.
    destruct (IH q eq_refl) as (junk & x & T & -> & Hlen & Hx & Hns).
    exists (b :: junk), x, T. repeat split; try assumption.
    + cbn [length]. now rewrite Hlen.
    + cbn [no_sync_in]. rewrite Hns, andb_true_r.
      destruct junk as [|y j'].
      * cbn [app] in E. change (is_sync2 255) with false in E. now rewrite andb_false_r.
      * cbn [app] in E. now rewrite E.
Qed.

Lemma sync_first data p :
  bytes_ok data = true -> first_sync data = Some p -> (p <= 187)%nat ->
  exists x T,
    data = firstn p data ++ 255 :: x :: T /\ is_sync2 x = true /\
    sync_loop ts_packet_size (rinit data) 0 0%Z = (true, x, Z.of_nat p, mkR (unpack T) false).
Proof.
  intros Hb Hf Hp.
  destruct (first_sync_split data p Hf) as (junk & x & T & -> & Hlen & Hx & Hns).
  exists x, T.
  rewrite bytes_ok_app in Hb. apply andb_prop in Hb. destruct Hb as [Hbj Hb].
  rewrite !bytes_ok_cons in Hb. apply andb_prop in Hb. destruct Hb as [_ Hb].
  apply andb_prop in Hb. destruct Hb as [Hbx _]. unfold byte_ok in Hbx. apply N.ltb_lt in Hbx.
  split; [|split; [exact Hx|]].
  - rewrite <- Hlen. rewrite firstn_app, Nat.sub_diag, firstn_all. cbn [firstn]. now rewrite app_nil_r.
  - unfold rinit. rewrite unpack_app, !unpack_cons.
    rewrite (sync_loop_junk ts_packet_size junk 0 0%Z x (unpack T)); try assumption; try discriminate.
    + now rewrite Z.add_0_l, Hlen.
    + unfold ts_packet_size. lia.
Qed.

(* NewADTSHeader produces canonical headers for every table frequency, 3-bit channel configuration
   and 13-bit payload length *)
Lemma new_adts_canonical f ch pl h :
  new_adts f ch AAClc pl = Ok h -> ch < 8 -> pl <= 8184 ->
  adts_canonical h = true /\ freq_of_index (h_sfi h) = Some f.
Proof.
  unfold new_adts. change (negb (AAClc =? AAClc)) with false. cbv beta iota.
  destruct (index_of_freq f) as [i|] eqn:E; [|discriminate].
  intros [= <-] Hc Hp.
  unfold index_of_freq, reverse_frequencies in E. cbn [lookup_freq] in E.
  repeat (match type of E with context [(?k =? f)%Z] => destruct (Z.eqb_spec k f) as [<- | _] end;
          [injection E as <-; unfold adts_canonical; cbn [h_id h_ot h_sfi h_chan h_hlen h_plen h_bf];
           split; [|reflexivity];
           apply N.ltb_lt in Hc; apply N.leb_le in Hp; rewrite Hc, Hp; reflexivity|]).
  discriminate.
Qed.

(* ---------- complete enumerations ---------- *)
(* lo, lo+1, ..., lo+n-1 built with N.succ (no nat -> N conversion per element) *)
Fixpoint nrange_from (fuel : nat) (lo : N) : list N :=
  match fuel with O => [] | S f => lo :: nrange_from f (N.succ lo) end.
Definition nrange (lo n : N) : list N := nrange_from (N.to_nat n) lo.

Lemma in_nrange_from : forall fuel lo x, lo <= x < lo + N.of_nat fuel -> In x (nrange_from fuel lo).
Proof.
  induction fuel as [|f IH]; intros lo x H; [lia|].
  cbn [nrange_from]. destruct (N.eq_dec lo x) as [->|Hne]; [now left|].
  right. apply IH. lia.
Qed.

Lemma in_nrange lo n x : lo <= x < lo + n -> In x (nrange lo n).
Proof. intros H. unfold nrange. apply in_nrange_from. lia. Qed.

Definition grid_plens : list N := [0; 8184].
Definition grid_bfs : list N := [0; 2047].

Definition adts_grid : list adts :=
  flat_map (fun ot => flat_map (fun sfi => flat_map (fun ch => flat_map (fun pl =>
    map (fun bf => mkAdts 0 ot sfi ch 7 pl bf) grid_bfs) grid_plens) (nrange 0 8)) (nrange 0 16)) (nrange 1 4).

Lemma adts_grid_enum_true :
  forallb (fun h => adts_canonical h && adts_roundtrip_ok [] h []) adts_grid = true.
Proof. vm_compute. reflexivity. Qed.

Lemma adts_grid_enum ot sfi ch pl bf :
  1 <= ot <= 4 -> sfi < 16 -> ch < 8 -> In pl grid_plens -> In bf grid_bfs ->
  adts_roundtrip_ok [] (mkAdts 0 ot sfi ch 7 pl bf) [] = true.
Proof.
  intros Hot Hs Hc Hp Hb.
  pose proof adts_grid_enum_true as H. rewrite forallb_forall in H.
  assert (Hin : In (mkAdts 0 ot sfi ch 7 pl bf) adts_grid).
  { unfold adts_grid. apply in_flat_map. exists ot. split; [apply in_nrange; lia|].
    apply in_flat_map. exists sfi. split; [apply in_nrange; lia|].
    apply in_flat_map. exists ch. split; [apply in_nrange; lia|].
    apply in_flat_map. exists pl. split; [exact Hp|].
    apply in_map_iff. exists bf. split; [reflexivity|exact Hb]. }
  specialize (H _ Hin). apply andb_prop in H. tauto.
Qed.

(* every payload length representable with the 7-byte header in 13 bits *)
Definition len_header (pl : N) : adts := mkAdts 0 2 3 2 7 pl 2047.

Lemma adts_length_enum_true :
  forallb (fun pl => adts_canonical (len_header pl) && adts_roundtrip_ok [] (len_header pl) [])
          (nrange 0 8185) = true.
Proof. vm_compute. reflexivity. Qed.

Lemma adts_length_enum pl : pl <= 8184 -> adts_roundtrip_ok [] (len_header pl) [] = true.
Proof.
  intros Hp. pose proof adts_length_enum_true as H. rewrite forallb_forall in H.
  specialize (H pl (in_nrange 0 8185 pl ltac:(lia))). apply andb_prop in H. tauto.
Qed.

(* every junk length 0..187, three junk shapes: zeros, a run of ff, zeros ending in ff *)
Definition junk_zero (n : nat) : list N := repeat 0 n.
Definition junk_ff (n : nat) : list N := repeat 255 n.
Definition junk_zero_ff (n : nat) : list N := match n with O => [] | S m => repeat 0 m ++ [255] end.

Definition junk_ok (j : list N) : bool :=
  no_sync_in j && adts_roundtrip_ok j (len_header 371) [18; 52].

Lemma adts_junk_enum_true :
  forallb (fun n => junk_ok (junk_zero n) && junk_ok (junk_ff n) && junk_ok (junk_zero_ff n)) (seq 0 188) = true.
Proof. vm_compute. reflexivity. Qed.

Lemma adts_junk_enum n :
  (n <= 187)%nat ->
  junk_ok (junk_zero n) = true /\ junk_ok (junk_ff n) = true /\ junk_ok (junk_zero_ff n) = true.
Proof.
  intros Hn. pose proof adts_junk_enum_true as H. rewrite forallb_forall in H.
  specialize (H n). rewrite in_seq in H. specialize (H ltac:(lia)).
  apply andb_prop in H. destruct H as [H H3]. apply andb_prop in H. tauto.
Qed.

(* the 188-iteration window is sharp for the all-zero junk: 188 junk bytes are not searched through *)
Lemma adts_junk_188_refused :
  decode_adts (junk_zero 188 ++ encode_adts (len_header 371)) = Err.
Proof. vm_compute. reflexivity. Qed.

(* ---------- ADTSHeader.Frequency ---------- *)
(* the accessor returns uint16: exact for the table frequencies below 65536 ... *)
Lemma adts_frequency_exact f ch pl h :
  new_adts f ch AAClc pl = Ok h -> (f < 65536)%Z -> Z.of_N (adts_frequency h) = f.
Proof.
  unfold new_adts. change (negb (AAClc =? AAClc)) with false. cbv beta iota.
  destruct (index_of_freq f) as [i|] eqn:E; [|discriminate].
  intros [= <-] Hf. unfold adts_frequency. cbn [h_sfi].
  unfold index_of_freq, reverse_frequencies in E. cbn [lookup_freq] in E.
  repeat (match type of E with context [(?k =? f)%Z] => destruct (Z.eqb_spec k f) as [<- | _] end;
          [injection E as <-; first [reflexivity | lia]|]).
  discriminate.
Qed.

(* ... and wrong for 88200 and 96000 Hz (indices 1 and 0): the faithful model refutes exactness *)
Lemma adts_frequency_refuted :
  exists f h, new_adts f 2 AAClc 0 = Ok h /\ Z.of_N (adts_frequency h) <> f.
Proof.
  exists 88200%Z, (mkAdts 0 2 1 2 7 0 2047). split; [reflexivity|]. vm_compute. discriminate.
Qed.

Lemma encode_adts_injective a b :
  adts_canonical a = true -> adts_canonical b = true -> encode_adts a = encode_adts b -> a = b.
Proof.
  intros Ha Hb E. pose proof (adts_roundtrip a [] Ha) as Ra. pose proof (adts_roundtrip b [] Hb) as Rb.
  rewrite E in Ra. rewrite Ra in Rb. now injection Rb.
Qed.
