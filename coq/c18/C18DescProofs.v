(* C18DescProofs.v — the descriptor decoders of C18DescModel invert the encoders on every well-formed
   descriptor value: size fields of 1..4 bytes on every level, optional ES fields, any number of further
   descriptors of any tag, DecoderConfigDescriptors nested to any depth, one trailing unknown byte. *)
From V.lib Require Import Base.
From V.c18 Require Import C18Model C18AscProofs C18EntryModel C18EntryProofs C18DescModel.

(* ------------------------------------------------------------------ the slice reader on known data *)
Lemma sr_u8_cons b l p : sr_u8 (mkSl (b :: l) p false) = (b, mkSl l (p + 1) false).
Proof. reflexivity. Qed.

Lemma sr_take_app x l p k :
  lenN x = k -> sr_take k (mkSl (x ++ l) p false) = (x, mkSl l (p + k) false).
Proof.
  intros <-. unfold sr_take. cbn [s_err s_rem s_pos]. rewrite lenN_app.
  replace (lenN x + lenN l <? lenN x) with false by (symmetry; apply N.ltb_ge; lia).
  rewrite firstn_lenN_app, skipn_lenN_app. reflexivity.
Qed.

Lemma sr_bytes_app x l p :
  sr_bytes (Z.of_N (lenN x)) (mkSl (x ++ l) p false) = (x, mkSl l (p + lenN x) false).
Proof.
  unfold sr_bytes. replace (Z.of_N (lenN x) <? 0)%Z with false by (symmetry; apply Z.ltb_ge; lia).
  rewrite N2Z.id. now apply sr_take_app.
Qed.

Lemma be_val_be16 v : v < 65536 -> be_val (be16 v) = v.
Proof. intros H. unfold be_val, be16. cbn [fold_left]. lia. Qed.

Lemma be_val_be32 v : v < 4294967296 -> be_val (be32 v) = v.
Proof. intros H. unfold be_val, be32. cbn [fold_left]. lia. Qed.

Lemma sr_u16_be16 v l p : v < 65536 -> sr_u16 (mkSl (be16 v ++ l) p false) = (v, mkSl l (p + 2) false).
Proof. intros H. unfold sr_u16. rewrite sr_take_app by reflexivity. now rewrite be_val_be16. Qed.

Lemma sr_u32_be32 v l p : v < 4294967296 -> sr_u32 (mkSl (be32 v ++ l) p false) = (v, mkSl l (p + 4) false).
Proof. intros H. unfold sr_u32. rewrite sr_take_app by reflexivity. now rewrite be_val_be32. Qed.

(* ------------------------------------------------------------------ readSizeSize inverts writeDescriptorSize *)
Lemma desc_size_len size sfs : lenN (desc_size size sfs) = N.of_nat sfs + 1.
Proof.
  induction sfs as [|n IH].
  - reflexivity.
  - cbn [desc_size]. rewrite lenN_cons. cbv zeta. rewrite IH. lia.
Qed.

(* a size field of sfs+1 bytes (any width up to 255 bytes) that is wide enough for the size *)
Definition fits (size sfs : N) : bool :=
  (sfs <=? 254) && (size <? 2 ^ (7 * (sfs + 1))) && (size <? 4294967296).

Lemma sz_step f tmp n acc b l p :
  128 <= tmp ->
  sz_loop (S f) tmp n acc (mkSl (b :: l) p false)
  = sz_loop f b (u8 (n + 1)) (u64 (acc * 128 + b mod 128)) (mkSl l (p + 1) false).
Proof.
  intros H. cbn [sz_loop]. replace (128 <=? tmp) with true by (symmetry; apply N.leb_le; exact H).
  rewrite sr_u8_cons. reflexivity.
Qed.

Lemma sz_done f tmp n acc s : tmp < 128 -> sz_loop f tmp n acc s = Ok (n, acc, s).
Proof.
  intros H. destruct f; cbn [sz_loop];
    replace (128 <=? tmp) with false by (symmetry; apply N.leb_gt; exact H); reflexivity.
Qed.

Lemma add128_mod x : x < 128 -> (x + 128) mod 128 = x.
Proof. intros H. lia. Qed.

Lemma pow7_succ k : 2 ^ (7 * N.of_nat (S k)) = 2 ^ (7 * N.of_nat k) * 128.
Proof. rewrite Nat2N.inj_succ, N.mul_succ_r, N.pow_add_r. reflexivity. Qed.

Lemma pow7_nz k : 2 ^ (7 * N.of_nat k) <> 0.
Proof. apply N.pow_nonzero. discriminate. Qed.

(* Q(k+1) * 128 + Q(k) mod 128 = Q(k)  for  Q(k) = size / 128^k *)
Lemma q_step size k :
  size / 2 ^ (7 * N.of_nat (S k)) * 128 + (size / 2 ^ (7 * N.of_nat k)) mod 128 = size / 2 ^ (7 * N.of_nat k).
Proof.
  rewrite pow7_succ. rewrite <- N.div_div by (try apply pow7_nz; discriminate).
  set (Q := size / 2 ^ (7 * N.of_nat k)). pose proof (N.div_mod' Q 128). lia.
Qed.

Lemma q_le size k : size / 2 ^ (7 * N.of_nat k) <= size.
Proof.
  pose proof (pow7_nz k) as Hz. pose proof (N.mul_div_le size _ Hz) as H.
  set (Q := size / 2 ^ (7 * N.of_nat k)) in *. nia.
Qed.

(* the loop of readSizeSize over the remaining bytes of writeDescriptorSize: positions pos .. 0 *)
Lemma sz_loop_run size rest : forall pos f tmp n p,
  (pos < f)%nat -> 128 <= tmp -> size < 4294967296 -> n + N.of_nat pos + 1 < 256 ->
  sz_loop f tmp n (size / 2 ^ (7 * N.of_nat (S pos))) (mkSl (desc_size size pos ++ rest) p false)
  = Ok (n + N.of_nat pos + 1, size, mkSl rest (p + N.of_nat pos + 1) false).
Proof.
  induction pos as [|q IH]; intros f tmp n p Hf Ht Hs Hn.
  - destruct f as [|f]; [lia|]. cbn [desc_size app]. rewrite sz_step by exact Ht.
    rewrite sz_done by (apply N.mod_lt; discriminate).
    rewrite N.mod_mod by discriminate. rewrite q_step.
    change (2 ^ (7 * N.of_nat 0)) with 1. rewrite N.div_1_r.
    unfold u8, u64. rewrite !N.mod_small by lia. apply f_equal; apply f_equal2; [apply f_equal2; lia | f_equal; lia].
  - destruct f as [|f]; [lia|]. cbn [desc_size app]. cbv zeta. rewrite sz_step by exact Ht.
    rewrite add128_mod by (apply N.mod_lt; discriminate).
    rewrite q_step.
    pose proof (q_le size (S q)) as Hle.
    unfold u8, u64. rewrite (N.mod_small (n + 1)) by lia.
    remember (size / 2 ^ (7 * N.of_nat (S q))) as Q eqn:EQ.
    rewrite (N.mod_small Q 18446744073709551616) by (clear EQ IH; lia). subst Q.
    rewrite IH; [|lia|apply N.le_add_l|exact Hs|lia].
    apply f_equal; apply f_equal2; [apply f_equal2; lia | f_equal; lia].
Qed.

Lemma read_size_ok size sfs rest p :
  fits size sfs = true ->
  read_size (mkSl (desc_size size (N.to_nat sfs) ++ rest) p false)
  = (Ok (sfs, size), mkSl rest (p + sfs + 1) false).
Proof.
  unfold fits. intros H. apply andb_prop in H. destruct H as [H Hz].
  apply andb_prop in H. destruct H as [Hs Hf].
  apply N.leb_le in Hs. apply N.ltb_lt in Hf. apply N.ltb_lt in Hz.
  unfold read_size.
  destruct (N.to_nat sfs) as [|q] eqn:Eq.
  - assert (sfs = 0) by lia. subst sfs. change (2 ^ (7 * (0 + 1))) with 128 in Hf.
    cbn [desc_size app]. change (2 ^ (7 * N.of_nat 0)) with 1. rewrite N.div_1_r.
    rewrite sr_u8_cons. rewrite sz_done by (apply N.mod_lt; discriminate).
    cbn [s_err]. rewrite N.mod_mod by discriminate. rewrite (N.mod_small size) by lia.
    apply f_equal2; [reflexivity | f_equal; lia].
  - assert (Hq : sfs = N.of_nat q + 1) by lia.
    assert (Hsmall : size / 2 ^ (7 * N.of_nat (S q)) < 128).
    { apply N.div_lt_upper_bound; [apply pow7_nz|].
      rewrite <- pow7_succ.
      replace (N.of_nat (S (S q))) with (sfs + 1) by lia. exact Hf. }
    cbn [desc_size app]. cbv zeta. rewrite sr_u8_cons. cbn [s_rem].
    rewrite (N.mod_small _ 128 Hsmall). rewrite add128_mod by exact Hsmall.
    rewrite sz_loop_run; [|clear Hsmall; rewrite app_length; pose proof (desc_size_len size q) as Hl; unfold lenN in Hl; lia
                          |apply N.le_add_l|exact Hz|clear Hsmall; lia].
    cbn [s_err]. clear Hsmall. apply f_equal2; [apply f_equal; apply f_equal2; lia | f_equal; lia].
Qed.

Lemma fits_small size sfs : fits size sfs = true -> sfs <= 254 /\ size < 4294967296.
Proof.
  unfold fits. intros H. apply andb_prop in H. destruct H as [H Hz].
  apply andb_prop in H. destruct H as [Hs Hf].
  apply N.leb_le in Hs. apply N.ltb_lt in Hz. now split.
Qed.

Lemma exceeds_false sfs size maxNr :
  sfs <= 254 -> size < 4294967296 -> (Z.of_N (1 + sfs + 1 + size) <= maxNr)%Z -> exceeds sfs size maxNr = false.
Proof.
  intros Hs Hz Hm. unfold exceeds, u64. rewrite N.mod_small by lia.
  rewrite Z.gtb_ltb. apply Z.ltb_ge. exact Hm.
Qed.

(* ------------------------------------------------------------------ well-formed values *)
Fixpoint desc_depth (d : desc) : nat :=
  match d with
  | DDcd _ _ _ _ _ _ cs _ =>
      S ((fix mx (l : list desc) : nat :=
            match l with [] => O | c :: r => Nat.max (desc_depth c) (mx r) end) cs)
  | _ => 1%nat
  end.

Fixpoint depths_max (l : list desc) : nat :=
  match l with [] => O | c :: r => Nat.max (desc_depth c) (depths_max r) end.

(* size fields 1..4 bytes wide and wide enough for the payload; the DecoderConfigDescriptor's 8/24/32-bit
   fields in range; a descriptor with a reserved tag (3..6) is not a RawDescriptor; trailing unknown data:
   at most one byte (two or more bytes may parse as a descriptor), none when nothing precedes it *)
Fixpoint desc_wf (d : desc) : bool :=
  match d with
  | DDcd sfs ot st buf maxbr avgbr cs u =>
      fits (desc_size_of d) sfs && (st <? 256) && (buf <? 16777216)
      && (maxbr <? 4294967296) && (avgbr <? 4294967296)
      && (fix all (l : list desc) : bool :=
            match l with [] => true | c :: r => desc_wf c && all r end) cs
      && (match cs with [] => lenN u =? 0 | _ => lenN u <=? 1 end)
  | DDsi sfs dc => fits (lenN dc) sfs
  | DSlc sfs cv more => fits (1 + lenN more) sfs
  | DRaw tag sfs data =>
      fits (lenN data) sfs && negb ((tag =? 3) || (tag =? 4) || (tag =? 5) || (tag =? 6))
  end.

Fixpoint descs_wf (l : list desc) : bool :=
  match l with [] => true | c :: r => desc_wf c && descs_wf r end.

Lemma dcd_depth_eq a b c d e f cs u : desc_depth (DDcd a b c d e f cs u) = S (depths_max cs).
Proof. reflexivity. Qed.

Lemma dcd_size_eq a b c d e f cs u : desc_size_of (DDcd a b c d e f cs u) = 13 + sizes_sum cs + lenN u.
Proof. reflexivity. Qed.

Lemma dcd_wf_eq sfs ot st buf maxbr avgbr cs u :
  desc_wf (DDcd sfs ot st buf maxbr avgbr cs u)
  = fits (13 + sizes_sum cs + lenN u) sfs && (st <? 256) && (buf <? 16777216)
    && (maxbr <? 4294967296) && (avgbr <? 4294967296) && descs_wf cs
    && (match cs with [] => lenN u =? 0 | _ => lenN u <=? 1 end).
Proof. reflexivity. Qed.

Lemma dcd_encode_eq sfs ot st buf maxbr avgbr cs u :
  encode_desc (DDcd sfs ot st buf maxbr avgbr cs u)
  = [4] ++ desc_size (13 + sizes_sum cs + lenN u) (N.to_nat sfs) ++ [ot]
    ++ be32 (N.lor ((st * 16777216) mod 4294967296) buf) ++ be32 maxbr ++ be32 avgbr
    ++ encode_descs cs ++ u.
Proof. reflexivity. Qed.

Lemma desc_depth_pos d : (1 <= desc_depth d)%nat.
Proof. destruct d; cbn [desc_depth]; lia. Qed.

Lemma desc_sizesize_ge2 d : 2 <= desc_sizesize d.
Proof. unfold desc_sizesize. lia. Qed.

Lemma encode_desc_nonempty d : (1 <= length (encode_desc d))%nat.
Proof. destruct d; try rewrite dcd_encode_eq; cbn [encode_desc app length]; lia. Qed.

Lemma encode_descs_length cs : (length cs <= length (encode_descs cs))%nat.
Proof.
  induction cs as [|c r IH]; [cbn; lia|]. cbn [encode_descs length]. rewrite app_length.
  pose proof (encode_desc_nonempty c). lia.
Qed.

Lemma lor_st_buf st buf :
  st < 256 -> buf < 16777216 -> N.lor ((st * 16777216) mod 4294967296) buf = st * 16777216 + buf.
Proof.
  intros Hs Hb. rewrite N.mod_small by lia.
  assert (Hl : N.land (st * 16777216) buf = 0).
  { apply N.bits_inj_0. intros n. rewrite N.land_spec.
    change 16777216 with (2 ^ 24). rewrite <- N.shiftl_mul_pow2.
    destruct (N.lt_ge_cases n 24) as [Hn | Hn].
    - rewrite N.shiftl_spec_low by exact Hn. reflexivity.
    - replace (N.testbit buf n) with false; [apply andb_false_r|].
      symmetry. rewrite <- (N.mod_small buf (2 ^ 24)) by exact Hb.
      apply N.mod_pow2_bits_high. exact Hn. }
  rewrite <- N.lxor_lor by exact Hl. symmetry. apply N.add_nocarry_lxor. exact Hl.
Qed.

(* ------------------------------------------------------------------ the leaf descriptors *)
Ltac tagtest :=
  repeat match goal with
         | |- context [?a =? ?b] =>
             let v := eval vm_compute in (a =? b) in
             match v with true => change (a =? b) with true | false => change (a =? b) with false end
         end.

Lemma decode_desc_dsi fu sfs dc rest p maxNr :
  fits (lenN dc) sfs = true -> (Z.of_N (desc_sizesize (DDsi sfs dc)) <= maxNr)%Z ->
  decode_desc (S fu) maxNr (mkSl (encode_desc (DDsi sfs dc) ++ rest) p false)
  = (Ok (DDsi sfs dc), mkSl rest (p + desc_sizesize (DDsi sfs dc)) false).
Proof.
  intros Hf Hm. unfold desc_sizesize in *. cbn [desc_sfs desc_size_of] in *.
  destruct (fits_small _ _ Hf) as [Hs Hz].
  cbn [decode_desc encode_desc]. replace (maxNr <? 2)%Z with false by lia.
  rewrite <- !app_assoc. cbn [app]. rewrite sr_u8_cons. cbn [s_err].
  change (5 =? 3) with false. change (5 =? 4) with false. change (5 =? 5) with true. cbv beta iota.
  unfold decode_dsi. rewrite read_size_ok by exact Hf.
  rewrite exceeds_false by (try exact Hs; try exact Hz; lia).
  cbn [s_pos]. rewrite int_of_u64_small by lia. rewrite sr_bytes_app. cbn [s_pos s_err].
  replace (Z.of_N (lenN dc) - Z.of_N (p + 1 + sfs + 1 + lenN dc - (p + 1 + sfs + 1)) >? 0)%Z with false by lia.
  f_equal. f_equal. lia.
Qed.

Lemma decode_desc_slc fu sfs cv more rest p maxNr :
  fits (1 + lenN more) sfs = true -> (Z.of_N (desc_sizesize (DSlc sfs cv more)) <= maxNr)%Z ->
  decode_desc (S fu) maxNr (mkSl (encode_desc (DSlc sfs cv more) ++ rest) p false)
  = (Ok (DSlc sfs cv more), mkSl rest (p + desc_sizesize (DSlc sfs cv more)) false).
Proof.
  intros Hf Hm. unfold desc_sizesize in *. cbn [desc_sfs desc_size_of] in *.
  destruct (fits_small _ _ Hf) as [Hs Hz].
  cbn [decode_desc encode_desc]. replace (maxNr <? 2)%Z with false by lia.
  rewrite <- !app_assoc. cbn [app]. rewrite sr_u8_cons. cbn [s_err].
  change (6 =? 3) with false. change (6 =? 4) with false. change (6 =? 5) with false.
  change (6 =? 6) with true. cbv beta iota.
  unfold decode_slc. rewrite read_size_ok by exact Hf.
  rewrite exceeds_false by (try exact Hs; try exact Hz; lia).
  replace (1 + lenN more =? 0) with false by (symmetry; apply N.eqb_neq; lia). cbv beta iota.
  rewrite sr_u8_cons.
  destruct more as [|m0 mt].
  - change (lenN (@nil N)) with 0. change (1 <? 1 + 0) with false. cbv beta iota. cbn [s_err app].
    f_equal. f_equal. lia.
  - replace (1 <? 1 + lenN (m0 :: mt)) with true by (symmetry; apply N.ltb_lt; rewrite lenN_cons; lia).
    replace (1 + lenN (m0 :: mt) - 1) with (lenN (m0 :: mt)) by lia.
    rewrite int_of_u64_small by lia. rewrite sr_bytes_app. cbn [s_err].
    f_equal. f_equal. lia.
Qed.

Lemma decode_desc_raw fu tag sfs data rest p maxNr :
  fits (lenN data) sfs = true -> negb ((tag =? 3) || (tag =? 4) || (tag =? 5) || (tag =? 6)) = true ->
  (Z.of_N (desc_sizesize (DRaw tag sfs data)) <= maxNr)%Z ->
  decode_desc (S fu) maxNr (mkSl (encode_desc (DRaw tag sfs data) ++ rest) p false)
  = (Ok (DRaw tag sfs data), mkSl rest (p + desc_sizesize (DRaw tag sfs data)) false).
Proof.
  intros Hf Ht Hm. unfold desc_sizesize in *. cbn [desc_sfs desc_size_of] in *.
  destruct (fits_small _ _ Hf) as [Hs Hz].
  apply negb_true_iff in Ht. apply orb_false_elim in Ht. destruct Ht as [Ht H6].
  apply orb_false_elim in Ht. destruct Ht as [Ht H5]. apply orb_false_elim in Ht. destruct Ht as [H3 H4].
  cbn [decode_desc encode_desc]. replace (maxNr <? 2)%Z with false by lia.
  rewrite <- !app_assoc. cbn [app]. rewrite sr_u8_cons. cbn [s_err].
  rewrite H3, H4, H5, H6.
  unfold decode_raw. rewrite read_size_ok by exact Hf.
  rewrite exceeds_false by (try exact Hs; try exact Hz; lia).
  rewrite int_of_u64_small by lia. rewrite sr_bytes_app. cbn [s_err].
  f_equal. f_equal. lia.
Qed.

(* ------------------------------------------------------------------ the descriptor loop *)
Definition dd_ok (dd : Z -> sl -> res desc * sl) (d : desc) : Prop :=
  forall rest p maxNr, (Z.of_N (desc_sizesize d) <= maxNr)%Z ->
    dd maxNr (mkSl (encode_desc d ++ rest) p false) = (Ok d, mkSl rest (p + desc_sizesize d) false).

Definition dd_small (dd : Z -> sl -> res desc * sl) : Prop :=
  forall maxNr s, (maxNr < 2)%Z -> dd maxNr s = (Err, s).

Lemma desc_loop_ok dd : dd_small dd -> forall cs, Forall (dd_ok dd) cs ->
  forall k size start p acc u rest,
    (length cs < k)%nat -> lenN u <= 1 -> start <= p ->
    (size - Z.of_N (p - start) = Z.of_N (sizes_sum cs + lenN u))%Z ->
    desc_loop dd k size start (mkSl (encode_descs cs ++ u ++ rest) p false) acc
    = if lenN u =? 0 then LDone (rev acc ++ cs) (mkSl rest (p + sizes_sum cs) false)
      else LUnknown (rev acc ++ cs) u (mkSl rest (p + sizes_sum cs + lenN u) false).
Proof.
  intros Hsmall cs Hcs. induction Hcs as [|c cs Hc Hcs IH]; intros k size start p acc u rest Hk Hu Hp Hsz.
  - destruct k as [|k]; [cbn [length] in Hk; lia|]. cbn [desc_loop encode_descs app sizes_sum s_pos].
    rewrite Hsz. cbn [sizes_sum]. rewrite app_nil_r.
    destruct u as [|x [|y t]].
    + change (lenN (@nil N)) with 0. change (Z.of_N (0 + 0) =? 0)%Z with true. cbv beta iota.
      cbn [app]. change (0 =? 0) with true. cbv beta iota. f_equal. f_equal. lia.
    + change (lenN [x]) with 1. change (Z.of_N (0 + 1) =? 0)%Z with false.
      change (Z.of_N (0 + 1) <? 0)%Z with false. cbv beta iota.
      rewrite Hsmall by (cbn; lia). unfold sl_restore. cbn [s_rem s_pos s_err app].
      change (Z.of_N (0 + 1)) with (Z.of_N (lenN [x])).
      change (x :: rest) with ([x] ++ rest).
      rewrite (sr_bytes_app [x] rest p). change (lenN [x]) with 1. change (1 =? 0) with false.
      cbv beta iota. f_equal. f_equal. lia.
    + rewrite !lenN_cons in Hu. lia.
  - destruct k as [|k]; [cbn [length] in Hk; lia|]. cbn [desc_loop encode_descs sizes_sum s_pos].
    cbn [sizes_sum] in Hsz. rewrite Hsz.
    pose proof (desc_sizesize_ge2 c) as H2.
    replace (Z.of_N (desc_sizesize c + sizes_sum cs + lenN u) =? 0)%Z with false by lia.
    replace (Z.of_N (desc_sizesize c + sizes_sum cs + lenN u) <? 0)%Z with false by lia.
    rewrite <- app_assoc. rewrite (Hc _ p) by lia.
    rewrite IH; [|cbn [length] in Hk; lia|exact Hu|lia|lia].
    cbn [rev]. rewrite <- !app_assoc. cbn [app].
    destruct (lenN u =? 0); f_equal; f_equal; lia.
Qed.

Lemma decode_desc_small fu : dd_small (decode_desc (S fu)).
Proof.
  intros maxNr s H. cbn [decode_desc]. replace (maxNr <? 2)%Z with true by lia. reflexivity.
Qed.

Lemma depths_max_le cs c : In c cs -> (desc_depth c <= depths_max cs)%nat.
Proof.
  induction cs as [|x r IH]; [intros []|]. cbn [depths_max]. intros [-> | H]; [lia|].
  specialize (IH H). lia.
Qed.

Lemma descs_wf_in cs c : descs_wf cs = true -> In c cs -> desc_wf c = true.
Proof.
  induction cs as [|x r IH]; [intros _ []|]. cbn [descs_wf]. intros H [-> | Hin];
    apply andb_prop in H; destruct H as [Hx Hr]; [exact Hx|now apply IH].
Qed.

(* ------------------------------------------------------------------ DecodeDescriptor inverts EncodeSW *)
Lemma decode_desc_ok : forall fuel d rest p maxNr,
  (desc_depth d <= fuel)%nat -> desc_wf d = true -> (Z.of_N (desc_sizesize d) <= maxNr)%Z ->
  decode_desc fuel maxNr (mkSl (encode_desc d ++ rest) p false)
  = (Ok d, mkSl rest (p + desc_sizesize d) false).
Proof.
  induction fuel as [|fu IH]; intros d rest p maxNr Hd Hw Hm.
  - pose proof (desc_depth_pos d). lia.
  - destruct d as [sfs ot st buf maxbr avgbr cs u | sfs dc | sfs cv more | tag sfs data].
    2:{ apply decode_desc_dsi; assumption. }
    2:{ apply decode_desc_slc; assumption. }
    2:{ cbn [desc_wf] in Hw. apply andb_prop in Hw. destruct Hw as [Hf Ht]. apply decode_desc_raw; assumption. }
    rewrite dcd_depth_eq in Hd. rewrite dcd_wf_eq in Hw.
    apply andb_prop in Hw. destruct Hw as [Hw Hu].
    apply andb_prop in Hw. destruct Hw as [Hw Hcs].
    apply andb_prop in Hw. destruct Hw as [Hw Havg].
    apply andb_prop in Hw. destruct Hw as [Hw Hmax].
    apply andb_prop in Hw. destruct Hw as [Hw Hbuf].
    apply andb_prop in Hw. destruct Hw as [Hf Hst].
    apply N.ltb_lt in Havg, Hmax, Hbuf, Hst.
    destruct (fits_small _ _ Hf) as [Hs Hz].
    unfold desc_sizesize in *. cbn [desc_sfs] in *. rewrite dcd_size_eq in *.
    rewrite dcd_encode_eq. rewrite lor_st_buf by assumption.
    cbn [decode_desc]. replace (maxNr <? 2)%Z with false by lia.
    rewrite <- !app_assoc. cbn [app]. rewrite sr_u8_cons. cbn [s_err].
    change (4 =? 3) with false. change (4 =? 4) with true. cbv beta iota.
    unfold decode_dcd_with. rewrite read_size_ok by exact Hf.
    rewrite exceeds_false by (try exact Hs; try exact Hz; lia).
    cbn [s_pos]. rewrite sr_u8_cons.
    rewrite sr_u32_be32 by lia. rewrite sr_u32_be32 by exact Hmax. rewrite sr_u32_be32 by exact Havg.
    replace ((st * 16777216 + buf) / 16777216) with st by (apply N.div_unique with buf; lia).
    replace ((st * 16777216 + buf) mod 16777216) with buf by (apply N.mod_unique with st; lia).
    cbn [s_pos]. rewrite int_of_u64_small by lia.
    destruct cs as [|c cs].
    + apply N.eqb_eq in Hu. destruct u as [|x t]; [|rewrite lenN_cons in Hu; lia].
      cbn [sizes_sum encode_descs app] in *. change (lenN (@nil N)) with 0 in *.
      replace (Z.of_N (13 + 0 + 0) - Z.of_N (p + 1 + sfs + 1 + 1 + 4 + 4 + 4 - (p + 1 + sfs + 1)) =? 0)%Z
        with true by lia.
      f_equal. f_equal. lia.
    + apply N.leb_le in Hu.
      cbn [descs_wf] in Hcs. apply andb_prop in Hcs. destruct Hcs as [Hc Hcs].
      cbn [depths_max] in Hd.
      pose proof (Nat.le_max_l (desc_depth c) (depths_max cs)) as Hmx1.
      pose proof (Nat.le_max_r (desc_depth c) (depths_max cs)) as Hmx2.
      remember (Nat.max (desc_depth c) (depths_max cs)) as mx eqn:Emx. clear Emx.
      destruct fu as [|fu']; [pose proof (desc_depth_pos c); lia|].
      cbn [sizes_sum encode_descs] in *.
      pose proof (desc_sizesize_ge2 c) as H2.
      remember (Z.of_N (13 + (desc_sizesize c + sizes_sum cs) + lenN u)
                - Z.of_N (p + 1 + sfs + 1 + 1 + 4 + 4 + 4 - (p + 1 + sfs + 1)))%Z as left eqn:El.
      assert (Hleft : left = Z.of_N (desc_sizesize c + sizes_sum cs + lenN u)) by lia.
      clear El.
      replace (left =? 0)%Z with false by lia.
      rewrite <- !app_assoc.
      assert (A1 : (desc_depth c <= S fu')%nat) by lia.
      assert (A2 : (Z.of_N (desc_sizesize c) <= left)%Z) by lia.
      rewrite (IH c _ _ _ A1 Hc A2).
      rewrite (desc_loop_ok (decode_desc (S fu')) (decode_desc_small fu') cs).
      * destruct (lenN u =? 0) eqn:Eu.
        -- apply N.eqb_eq in Eu. destruct u as [|x t]; [|rewrite lenN_cons in Eu; lia].
           cbn [rev app]. unfold desc_sizesize in *. f_equal. f_equal. change (lenN (@nil N)) with 0. lia.
        -- cbn [rev app]. unfold desc_sizesize in *. f_equal. f_equal. lia.
      * apply Forall_forall. intros x Hx rest' p' maxNr' Hm'.
        apply IH; [|now apply (descs_wf_in cs)|exact Hm'].
        pose proof (depths_max_le cs x Hx). lia.
      * cbn [s_rem]. rewrite app_length. pose proof (encode_descs_length cs). lia.
      * exact Hu.
      * unfold desc_sizesize in *; lia.
      * unfold desc_sizesize in *; lia.
Qed.

(* ------------------------------------------------------------------ DecodeESDescriptor inverts EncodeSW *)
Definition es_depth (e : esd) : nat := Nat.max (desc_depth (es_dcd e)) (depths_max (es_children e)).

(* optional fields present exactly when their flag is set (and zero / empty otherwise, as the decoder leaves
   them); the first descriptor is a DecoderConfigDescriptor; at most one trailing unknown byte *)
Definition es_wf (e : esd) : bool :=
  fits (es_size_of e) (es_sfs e) && (es_id e <? 65536)
  && (if es_flags e / 128 =? 1 then es_dep e <? 65536 else es_dep e =? 0)
  && (if (es_flags e / 64) mod 2 =? 1 then lenN (es_url e) <? 256 else lenN (es_url e) =? 0)
  && (if (es_flags e / 32) mod 2 =? 1 then es_ocr e <? 65536 else es_ocr e =? 0)
  && (match es_dcd e with DDcd _ _ _ _ _ _ _ _ => true | _ => false end)
  && desc_wf (es_dcd e) && descs_wf (es_children e) && (lenN (es_unknown e) <=? 1).

Ltac zbool :=
  repeat match goal with
         | |- context [(?a =? ?b)%Z] =>
             first [replace (a =? b)%Z with false by (unfold desc_sizesize in *; lia)
                   |replace (a =? b)%Z with true by (unfold desc_sizesize in *; lia)]
         | |- context [(?a <? ?b)%Z] =>
             first [replace (a <? b)%Z with false by (unfold desc_sizesize in *; lia)
                   |replace (a <? b)%Z with true by (unfold desc_sizesize in *; lia)]
         end.

Lemma decode_es_ok fuel e rest p :
  (es_depth e <= fuel)%nat -> es_wf e = true ->
  decode_es_f fuel (mkSl (encode_es e ++ rest) p false) = (Ok e, mkSl rest (p + es_sizesize e) false).
Proof.
  destruct e as [sfs id flags dep url ocr dcd cs u].
  unfold es_depth, es_wf, es_sizesize. cbn [es_sfs es_id es_flags es_dep es_url es_ocr es_dcd es_children es_unknown].
  intros Hd Hw.
  apply andb_prop in Hw. destruct Hw as [Hw Hu].
  apply andb_prop in Hw. destruct Hw as [Hw Hcs].
  apply andb_prop in Hw. destruct Hw as [Hw Hdw].
  apply andb_prop in Hw. destruct Hw as [Hw Hisd].
  apply andb_prop in Hw. destruct Hw as [Hw Hocr].
  apply andb_prop in Hw. destruct Hw as [Hw Hurl].
  apply andb_prop in Hw. destruct Hw as [Hw Hdep].
  apply andb_prop in Hw. destruct Hw as [Hf Hid].
  apply N.ltb_lt in Hid. apply N.leb_le in Hu.
  destruct (fits_small _ _ Hf) as [Hs Hz].
  pose proof (Nat.le_max_l (desc_depth dcd) (depths_max cs)) as Hmx1.
  pose proof (Nat.le_max_r (desc_depth dcd) (depths_max cs)) as Hmx2.
  pose proof (desc_depth_pos dcd) as Hpos.
  destruct fuel as [|fu]; [lia|].
  assert (Hdd : forall x, In x (dcd :: cs) -> dd_ok (decode_desc (S fu)) x).
  { intros x Hx rest' p' maxNr' Hm'. apply decode_desc_ok; [|..|exact Hm'].
    - destruct Hx as [<- | Hx]; [lia|]. pose proof (depths_max_le cs x Hx). lia.
    - destruct Hx as [<- | Hx]; [exact Hdw|]. now apply (descs_wf_in cs). }
  pose proof (desc_sizesize_ge2 dcd) as H2.
  unfold decode_es_f, encode_es, es_size_of, es_opt_size in *.
  cbn [es_sfs es_id es_flags es_dep es_url es_ocr es_dcd es_children es_unknown] in *.
  rewrite <- !app_assoc. cbn [app]. rewrite sr_u8_cons. change (negb (3 =? 3)) with false. cbv beta iota.
  rewrite read_size_ok by exact Hf. cbn [s_pos].
  rewrite sr_u16_be16 by exact Hid. rewrite sr_u8_cons.
  destruct (flags / 128 =? 1); destruct ((flags / 64) mod 2 =? 1); destruct ((flags / 32) mod 2 =? 1);
    try (apply N.ltb_lt in Hdep); try (apply N.eqb_eq in Hdep; subst dep);
    try (apply N.ltb_lt in Hurl); try (apply N.eqb_eq in Hurl; destruct url as [|? ?]; [|rewrite lenN_cons in Hurl; lia]);
    try (apply N.ltb_lt in Hocr); try (apply N.eqb_eq in Hocr; subst ocr);
    cbn [app]; change (lenN (@nil N)) with 0 in *;
    rewrite ?sr_u16_be16 by assumption;
    rewrite ?sr_u8_cons; rewrite ?(N.mod_small (lenN url) 256) by assumption;
    rewrite ?(sr_take_app url) by reflexivity;
    rewrite ?sr_u16_be16 by assumption;
    cbn [s_pos]; rewrite int_of_u64_small by lia;
    (rewrite (Hdd dcd (or_introl eq_refl)) by (unfold desc_sizesize in *; lia));
    destruct dcd as [a0 b0 c0 d0 e0 f0 g0 h0 | | | ]; try discriminate;
    cbv beta iota; cbn [s_pos];
    (destruct cs as [|c cs];
     [ (* no further descriptor: UnknownData *)
       cbn [encode_descs sizes_sum app] in *;
       rewrite (decode_desc_small fu) by (unfold desc_sizesize in *; lia);
       unfold sl_restore; cbn [s_rem s_pos s_err];
       match goal with |- context [sr_bytes ?n _] => replace n with (Z.of_N (lenN u)) by (unfold desc_sizesize in *; lia) end;
       rewrite sr_bytes_app; f_equal; f_equal; unfold desc_sizesize; lia
     | cbn [encode_descs sizes_sum] in *; rewrite <- !app_assoc;
       pose proof (desc_sizesize_ge2 c) as H2c;
       (rewrite (Hdd c (or_intror (or_introl eq_refl))) by (unfold desc_sizesize in *; lia));
       (rewrite (desc_loop_ok (decode_desc (S fu)) (decode_desc_small fu) cs);
        [ destruct (lenN u =? 0) eqn:Eu;
          [ apply N.eqb_eq in Eu; destruct u as [|? ?]; [|rewrite lenN_cons in Eu; lia];
            cbn [rev app es_sfs es_id es_flags es_dep es_url es_ocr es_dcd es_children es_unknown sizes_sum];
            change (lenN (@nil N)) with 0; rewrite N.eqb_refl; cbn [negb s_err];
            f_equal; f_equal; unfold desc_sizesize; lia
          | cbn [rev app]; f_equal; f_equal; unfold desc_sizesize; lia ]
        | apply Forall_forall; intros x Hx; apply Hdd; right; right; exact Hx
        | cbn [s_rem]; rewrite app_length; pose proof (encode_descs_length cs); lia
        | exact Hu
        | unfold desc_sizesize in *; lia
        | unfold desc_sizesize in *; lia ]) ]).
Qed.

(* ------------------------------------------------------------------ the self-fuelled entry points *)
Lemma depths_max_enc cs :
  (forall c, In c cs -> (desc_depth c <= length (encode_desc c))%nat) ->
  (depths_max cs <= length (encode_descs cs))%nat.
Proof.
  induction cs as [|c r IH]; intros H; [cbn; lia|].
  cbn [depths_max encode_descs]. rewrite app_length.
  pose proof (H c (or_introl eq_refl)). specialize (IH (fun x Hx => H x (or_intror Hx))). lia.
Qed.

Lemma desc_depth_le_length : forall n d, (desc_depth d <= n)%nat -> (desc_depth d <= length (encode_desc d))%nat.
Proof.
  induction n as [|n IH]; intros d Hd.
  - pose proof (desc_depth_pos d). lia.
  - destruct d as [sfs ot st buf maxbr avgbr cs u | sfs dc | sfs cv more | tag sfs data];
      try (cbn [desc_depth encode_desc app length]; lia).
    rewrite dcd_depth_eq in *. rewrite dcd_encode_eq.
    assert (H : (depths_max cs <= length (encode_descs cs))%nat).
    { apply depths_max_enc. intros c Hc. apply IH. pose proof (depths_max_le cs c Hc). lia. }
    cbn [app length]. rewrite !app_length. cbn [length]. rewrite !app_length. lia.
Qed.

Lemma es_depth_le_length e rest : (es_depth e <= S (length (encode_es e ++ rest)))%nat.
Proof.
  unfold es_depth, encode_es.
  pose proof (desc_depth_le_length _ (es_dcd e) (le_n _)) as H1.
  assert (H2 : (depths_max (es_children e) <= length (encode_descs (es_children e)))%nat).
  { apply depths_max_enc. intros c _. apply (desc_depth_le_length _ c (le_n _)). }
  rewrite !app_length. lia.
Qed.

(* mp4.DecodeESDescriptor on a reader holding the encoding of a well-formed value (and anything after it) *)
Lemma es_descriptor_roundtrip e rest :
  es_wf e = true ->
  decode_es_descriptor (encode_es e ++ rest) = (Ok e, mkSl rest (es_sizesize e) false).
Proof.
  intros Hw. unfold decode_es_descriptor, sl_init.
  rewrite decode_es_ok; [reflexivity|apply es_depth_le_length|exact Hw].
Qed.

Lemma descriptor_roundtrip d rest maxNr :
  desc_wf d = true -> (Z.of_N (desc_sizesize d) <= maxNr)%Z ->
  decode_descriptor maxNr (encode_desc d ++ rest) = (Ok d, mkSl rest (desc_sizesize d) false).
Proof.
  intros Hw Hm. unfold decode_descriptor, sl_init.
  rewrite decode_desc_ok; [reflexivity| |exact Hw|exact Hm].
  pose proof (desc_depth_le_length _ d (le_n _)). rewrite app_length. lia.
Qed.

(* DecodeEsds on the body of the box EsdsBox.Encode writes *)
Lemma esds_body_roundtrip vf e :
  vf < 4294967296 -> es_wf e = true -> decode_esds_body (be32 vf ++ encode_es e) = Ok (vf, e).
Proof.
  intros Hv Hw. unfold decode_esds_body, sl_init. rewrite sr_u32_be32 by exact Hv.
  rewrite <- (app_nil_r (encode_es e)).
  rewrite decode_es_ok; [reflexivity| |exact Hw].
  pose proof (es_depth_le_length e []). rewrite !app_length in *. cbn [length] in *. lia.
Qed.

(* whatever well-formed shape the esds has, the configuration it carries as DecoderSpecificInfo comes back *)
Definition es_carries (e : esd) (a : asc) : bool :=
  match es_dec_config e, encode_asc a with
  | Some dc, Ok bs => list_eqb dc bs
  | _, _ => false
  end.

Lemma list_eqb_eq : forall a b, list_eqb a b = true -> a = b.
Proof.
  unfold list_eqb. induction a as [|x a IH]; intros [|y b] H; try reflexivity.
  - apply andb_prop in H. destruct H as [H _]. apply N.eqb_eq in H. rewrite lenN_cons, lenN_nil in H. lia.
  - apply andb_prop in H. destruct H as [H _]. apply N.eqb_eq in H. rewrite lenN_cons, lenN_nil in H. lia.
  - apply andb_prop in H. destruct H as [Hl Hf]. cbn [combine forallb] in Hf.
    apply andb_prop in Hf. destruct Hf as [Hx Hf]. apply N.eqb_eq in Hx. subst y. f_equal.
    apply IH. apply N.eqb_eq in Hl. rewrite !lenN_cons in Hl.
    replace (lenN a =? lenN b) with true by (symmetry; apply N.eqb_eq; lia). exact Hf.
Qed.

Definition esds_asc (body : list N) : res asc :=
  match decode_esds_body body with
  | Ok (_, e) => match es_dec_config e with Some dc => decode_asc dc | None => Err end
  | Err => Err
  | Panic => Panic
  | OutOfFuel => OutOfFuel
  end.

Lemma esds_config_roundtrip vf e a :
  vf < 4294967296 -> es_wf e = true -> canonical a = true -> es_carries e a = true ->
  esds_asc (be32 vf ++ encode_es e) = Ok a.
Proof.
  intros Hv Hw Hc Hcar. unfold esds_asc. rewrite esds_body_roundtrip by assumption.
  unfold es_carries in Hcar. destruct (es_dec_config e) as [dc|]; [|discriminate].
  pose proof (asc_roundtrip a Hc) as Hrt.
  destruct (encode_asc a) as [bs| | |]; try discriminate.
  apply list_eqb_eq in Hcar. subst dc. exact Hrt.
Qed.

(* the esds SetAACDescriptor builds (C18EntryModel.es_bytes) is one of these shapes *)
Definition aac_esd (dc : list N) : esd :=
  mkEsd 0 1 0 0 [] 0 (DDcd 0 64 21 0 0 0 [DDsi 0 dc] []) [DSlc 0 2 []] [].

Lemma aac_esd_bytes dc : encode_es (aac_esd dc) = es_bytes dc.
Proof.
  unfold encode_es, aac_esd, es_bytes, dcd_bytes, dsi_bytes, slc_bytes, es_size_of, es_opt_size, es_size, dcd_size.
  cbn [es_sfs es_id es_flags es_dep es_url es_ocr es_dcd es_children es_unknown].
  change (0 / 128 =? 1) with false. change ((0 / 64) mod 2 =? 1) with false. change ((0 / 32) mod 2 =? 1) with false.
  cbv beta iota. rewrite dcd_encode_eq. cbn [encode_descs encode_desc sizes_sum app].
  unfold desc_sizesize. cbn [desc_sfs desc_size_of]. change (lenN (@nil N)) with 0.
  change (N.to_nat 0) with 0%nat.
  change (N.lor ((21 * 16777216) mod 4294967296) 0) with (21 * 16777216).
  rewrite <- !app_assoc. cbn [app].
  replace (3 + (0 + 0 + 0) + (1 + 0 + 1 + (13 + (1 + 0 + 1 + lenN dc + 0) + 0)) + (1 + 0 + 1 + (1 + 0) + 0) + 0)
    with (3 + (2 + (13 + (2 + lenN dc))) + 3) by lia.
  replace (13 + (1 + 0 + 1 + lenN dc + 0) + 0) with (13 + (2 + lenN dc)) by lia.
  replace (1 + 0) with 1 by lia.
  rewrite app_nil_r. reflexivity.
Qed.

Lemma aac_esd_wf dc : lenN dc <= 100 -> es_wf (aac_esd dc) = true.
Proof.
  intros H. unfold es_wf, aac_esd, es_size_of, es_opt_size.
  cbn [es_sfs es_id es_flags es_dep es_url es_ocr es_dcd es_children es_unknown].
  rewrite dcd_wf_eq. cbn [descs_wf desc_wf sizes_sum]. unfold desc_sizesize. cbn [desc_sfs desc_size_of].
  change (lenN (@nil N)) with 0.
  change (0 / 128 =? 1) with false. change ((0 / 64) mod 2 =? 1) with false. change ((0 / 32) mod 2 =? 1) with false.
  cbv beta iota.
  unfold fits. change (2 ^ (7 * (0 + 1))) with 128.
  repeat match goal with
         | |- context [?a <? ?b] => replace (a <? b) with true by (symmetry; apply N.ltb_lt; lia)
         | |- context [?a <=? ?b] => replace (a <=? b) with true by (symmetry; apply N.leb_le; lia)
         end.
  reflexivity.
Qed.

(* the esds of the entry SetAACDescriptor builds, read by the GENERAL descriptor decoder *)
Lemma set_aac_esds_general ot f :
  entry_freq_ok ot f = true ->
  exists dc, encode_asc (set_aac_asc ot f) = Ok dc
             /\ encode_es (aac_esd dc) = es_bytes dc
             /\ esds_asc (be32 0 ++ es_bytes dc) = Ok (set_aac_asc ot f).
Proof.
  intros H. pose proof (set_aac_asc_canonical ot f H) as Hc.
  assert (He : encode_asc (set_aac_asc ot f) = Ok (pack (flush (asc_bits (set_aac_asc ot f))))).
  { unfold canonical in Hc. unfold encode_asc.
    repeat (apply andb_prop in Hc; destruct Hc as [Hc _]). now rewrite Hc. }
  exists (pack (flush (asc_bits (set_aac_asc ot f)))).
  split; [exact He|]. split; [apply aac_esd_bytes|].
  rewrite <- aac_esd_bytes. apply esds_config_roundtrip.
  - reflexivity.
  - apply aac_esd_wf. apply asc_bytes_short.
  - exact Hc.
  - unfold es_carries, aac_esd, es_dec_config. cbn [es_dcd]. rewrite He. apply list_eqb_refl.
Qed.
