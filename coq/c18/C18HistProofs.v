(* C18HistProofs.v — histories: in the model an entry is a pure value, so
   - later operations never change an earlier entry (the state only grows at its end),
   - every entry of every history decodes to the configuration it was built from,
   - every encode observed in the middle of a history shows the bytes the entry has at the end;
   k configurations / headers written back to back into one writer and read back from one reader come
   back one by one, each as itself, whatever precedes or follows. *)
From V.lib Require Import Base.
From V.c18 Require Import C18Model C18BitsProofs C18AscProofs C18AdtsProofs C18EntryModel C18EntryProofs C18HistModel.

(* ------------------------------------------------------------------ entry histories *)
Fixpoint added (ops : list hop) : list hentry :=
  match ops with
  | [] => []
  | HBuild ini trk ot f :: r =>
      match set_aac_descriptor ot f with
      | Ok bs => mkH ini trk ot f bs :: added r
      | _ => added r
      end
  | _ :: r => added r
  end.

Lemma hrun_cons op r st :
  hrun (op :: r) st = (fst (hrun r (fst (hstep st op))), snd (hstep st op) :: snd (hrun r (fst (hstep st op)))).
Proof.
  cbn [hrun]. destruct (hstep st op) as [st1 o]. cbn [fst snd]. destruct (hrun r st1) as [st2 os]. reflexivity.
Qed.

Lemma hrun_state ops : forall st, fst (hrun ops st) = st ++ added ops.
Proof.
  induction ops as [|op r IH]; intros st.
  - cbn [hrun fst added]. now rewrite app_nil_r.
  - rewrite hrun_cons. cbn [fst]. rewrite IH. destruct op as [ini trk ot f|i|ini]; cbn [hstep added].
    + destruct (set_aac_descriptor ot f); cbn [fst]; try reflexivity. now rewrite <- app_assoc.
    + destruct (nth_error st i); reflexivity.
    + reflexivity.
Qed.

Lemma added_app a b : added (a ++ b) = added a ++ added b.
Proof.
  induction a as [|op r IH]; [reflexivity|]. cbn [app added].
  destruct op as [ini trk ot f|i|ini]; try exact IH.
  destruct (set_aac_descriptor ot f); try exact IH. cbn [app]. now rewrite IH.
Qed.

(* whatever follows, the i-th entry stays the value it is *)
Lemma history_entry_stable pre post st i e :
  nth_error (fst (hrun pre st)) i = Some e ->
  nth_error (fst (hrun (pre ++ post) st)) i = Some e.
Proof.
  rewrite !hrun_state, added_app. intros H.
  rewrite app_assoc. rewrite nth_error_app1; [exact H|].
  apply nth_error_Some. rewrite H. discriminate.
Qed.

Lemma added_built ops : map (fun e => (he_ot e, he_f e)) (added ops) = built ops.
Proof.
  induction ops as [|op r IH]; [reflexivity|]. cbn [added built].
  destruct op as [ini trk ot f|i|ini]; try exact IH.
  destruct (set_aac_descriptor ot f); try exact IH. cbn [map he_ot he_f]. now rewrite IH.
Qed.

Lemma added_sound ops e : In e (added ops) -> set_aac_descriptor (he_ot e) (he_f e) = Ok (he_bytes e).
Proof.
  induction ops as [|op r IH]; [intros []|]. cbn [added].
  destruct op as [ini trk ot f|i|ini]; try exact IH.
  destruct (set_aac_descriptor ot f) eqn:E; try exact IH.
  intros [<- | H]; [exact E|now apply IH].
Qed.

(* the i-th entry of the state reached by ANY history is the entry its own build made, and it decodes
   (both decoder paths) to the configuration of that build *)
Lemma entries_independent ops i e :
  nth_error (fst (hrun ops [])) i = Some e ->
  nth_error (built ops) i = Some (he_ot e, he_f e)
  /\ set_aac_descriptor (he_ot e) (he_f e) = Ok (he_bytes e)
  /\ (entry_freq_ok (he_ot e) (he_f e) = true ->
      entry_asc (he_bytes e) = EOk (set_aac_asc (he_ot e) (he_f e))
      /\ entry_asc_sr (he_bytes e) = EOk (set_aac_asc (he_ot e) (he_f e))).
Proof.
  rewrite hrun_state. cbn [app]. intros H.
  split; [|split].
  - rewrite <- added_built. now rewrite nth_error_map, H.
  - apply (added_sound ops). eapply nth_error_In; exact H.
  - intros Hok. pose proof (added_sound ops e (nth_error_In _ _ H)) as Hs.
    destruct (sample_entry _ _ Hok) as (bs & dc & Hb & _ & Ha).
    destruct (sample_entry_sr _ _ Hok) as (bs' & dc' & Hb' & _ & Ha').
    rewrite Hs in Hb, Hb'. injection Hb as <-. injection Hb' as <-. now split.
Qed.

Lemma hrun_app a b st :
  hrun (a ++ b) st = (fst (hrun b (fst (hrun a st))), snd (hrun a st) ++ snd (hrun b (fst (hrun a st)))).
Proof.
  revert st. induction a as [|op r IH]; intros st.
  - cbn [app hrun fst snd]. now destruct (hrun b st).
  - cbn [app]. rewrite !hrun_cons. rewrite IH. cbn [fst snd app]. reflexivity.
Qed.

Lemma hrun_obs_length ops : forall st, length (snd (hrun ops st)) = length ops.
Proof.
  induction ops as [|op r IH]; intros st; [reflexivity|]. rewrite hrun_cons. cbn [snd length]. now rewrite IH.
Qed.

(* an encode of entry i observed in the middle of a history shows the bytes entry i has at the end *)
Lemma history_encode_obs pre post i st b :
  nth_error (snd (hrun (pre ++ HEncEntry i :: post) st)) (length pre) = Some (OBytes [b]) ->
  exists e, nth_error (fst (hrun (pre ++ HEncEntry i :: post) st)) i = Some e /\ he_bytes e = b.
Proof.
  intros H. rewrite hrun_app in H. cbn [snd] in H.
  rewrite nth_error_app2 in H by (rewrite hrun_obs_length; lia).
  rewrite hrun_obs_length, Nat.sub_diag in H. rewrite hrun_cons in H. cbn [snd nth_error hstep] in H.
  destruct (nth_error (fst (hrun pre st)) i) as [e|] eqn:E; cbn [snd] in H; [|discriminate].
  exists e. split; [now apply history_entry_stable|]. now injection H.
Qed.

(* ------------------------------------------------------------------ AudioSpecificConfig streams *)
Lemma decode_asc_gs_fst s : fst (decode_asc_gs rstate rd rerr s) = decode_asc_g rstate rd rerr s.
Proof.
  unfold decode_asc_gs, decode_asc_g.
  destruct (rd 5 s) as [aot s1].
  destruct (if aot =? AAClc then _ else _) as [[sbr ps]|]; [|reflexivity].
  destruct (get_frequency s1) as [[f|] s2]; [|reflexivity].
  destruct (rd 4 s2) as [ch s3].
  destruct ((aot =? HEAACv1) || (aot =? HEAACv2)).
  - destruct (get_frequency s3) as [[e|] s4]; [|reflexivity].
    destruct (rd 5 s4) as [aot2 s5]. destruct (negb (aot2 =? AAClc)); [reflexivity|].
    destruct (rd 3 s5). reflexivity.
  - destruct (rd 3 s3). reflexivity.
Qed.

Lemma asc_gs_lc ch f tail :
  ch < 16 -> freq_ok f = true ->
  decode_asc_gs rstate rd rerr (mkR (asc_bits (mkAsc AAClc ch f 0%Z false false) ++ tail) false)
  = (Ok (mkAsc AAClc ch f 0%Z false false), mkR tail false).
Proof.
  intros Hc Hf. unfold decode_asc_gs.
  unfold asc_bits. cbn [a_ot a_chan a_freq a_ext].
  change ((AAClc =? HEAACv1) || (AAClc =? HEAACv2)) with false. cbv beta iota.
  rewrite <- !app_assoc.
  rewrite rd_to_bits_small by (pow_bound). cbv beta iota.
  change (AAClc =? AAClc) with true. cbv beta iota.
  rewrite get_frequency_field by exact Hf. cbv beta iota.
  rewrite rd_to_bits_small by (pow_bound). cbv beta iota.
  change ((AAClc =? HEAACv1) || (AAClc =? HEAACv2)) with false. cbv beta iota.
  rewrite rd_to_bits_small by (pow_bound). reflexivity.
Qed.

Lemma asc_gs_sbr ot ch f e ps tail :
  (ot = HEAACv1 /\ ps = false) \/ (ot = HEAACv2 /\ ps = true) ->
  ch < 16 -> freq_ok f = true -> freq_ok e = true ->
  decode_asc_gs rstate rd rerr (mkR (asc_bits (mkAsc ot ch f e true ps) ++ tail) false)
  = (Ok (mkAsc ot ch f e true ps), mkR tail false).
Proof.
  intros Hot Hc Hf He. unfold decode_asc_gs.
  unfold asc_bits. cbn [a_ot a_chan a_freq a_ext].
  destruct Hot as [[-> ->] | [-> ->]].
  - change ((HEAACv1 =? HEAACv1) || (HEAACv1 =? HEAACv2)) with true. cbv beta iota.
    rewrite <- !app_assoc.
    rewrite rd_to_bits_small by (pow_bound). cbv beta iota.
    change (HEAACv1 =? AAClc) with false. change (HEAACv1 =? HEAACv1) with true. cbv beta iota.
    rewrite get_frequency_field by exact Hf. cbv beta iota.
    rewrite rd_to_bits_small by (pow_bound). cbv beta iota.
    change (true || (HEAACv1 =? HEAACv2)) with true. cbv beta iota.
    rewrite get_frequency_field by exact He. cbv beta iota.
    rewrite rd_to_bits_small by (pow_bound). cbv beta iota.
    change (negb (AAClc =? AAClc)) with false. cbv beta iota.
    rewrite rd_to_bits_small by (pow_bound). reflexivity.
  - change ((HEAACv2 =? HEAACv1) || (HEAACv2 =? HEAACv2)) with true. cbv beta iota.
    rewrite <- !app_assoc.
    rewrite rd_to_bits_small by (pow_bound). cbv beta iota.
    change (HEAACv2 =? AAClc) with false. change (HEAACv2 =? HEAACv1) with false.
    change (HEAACv2 =? HEAACv2) with true. cbv beta iota.
    rewrite get_frequency_field by exact Hf. cbv beta iota.
    rewrite rd_to_bits_small by (pow_bound). cbv beta iota.
    change (false || true) with true. cbv beta iota.
    rewrite get_frequency_field by exact He. cbv beta iota.
    rewrite rd_to_bits_small by (pow_bound). cbv beta iota.
    change (negb (AAClc =? AAClc)) with false. cbv beta iota.
    rewrite rd_to_bits_small by (pow_bound). reflexivity.
Qed.

(* the decoder consumes exactly the bits Encode wrote *)
Lemma asc_gs_canonical a tail :
  canonical a = true ->
  decode_asc_gs rstate rd rerr (mkR (asc_bits a ++ tail) false) = (Ok a, mkR tail false).
Proof.
  destruct a as [ot ch f e sbr ps]. unfold canonical. cbn [a_ot a_chan a_freq a_ext a_sbr a_ps].
  intros H.
  apply andb_prop in H. destruct H as [H Hps].
  apply andb_prop in H. destruct H as [H Hsbr].
  apply andb_prop in H. destruct H as [H He].
  apply andb_prop in H. destruct H as [H Hf].
  apply andb_prop in H. destruct H as [Hot Hc].
  apply eqb_true_eq in Hps. apply eqb_true_eq in Hsbr. apply N.ltb_lt in Hc.
  apply orb_prop in Hot. destruct Hot as [Hot | Hot]; [apply orb_prop in Hot; destruct Hot as [Hot | Hot]|];
    apply N.eqb_eq in Hot; subst ot.
  - change (AAClc =? AAClc) with true in *. change (AAClc =? HEAACv2) with false in *.
    cbn [negb] in Hsbr. subst sbr ps. apply Z.eqb_eq in He. subst e.
    now apply asc_gs_lc.
  - change (HEAACv1 =? AAClc) with false in *. change (HEAACv1 =? HEAACv2) with false in *.
    cbn [negb] in Hsbr. subst sbr ps. apply asc_gs_sbr; auto.
  - change (HEAACv2 =? AAClc) with false in *. change (HEAACv2 =? HEAACv2) with true in *.
    cbn [negb] in Hsbr. subst sbr ps. apply asc_gs_sbr; auto.
Qed.

Lemma unpack_length l : length (unpack l) = (8 * length l)%nat.
Proof.
  induction l as [|x t IH]; [reflexivity|].
  rewrite unpack_cons, app_length, to_bits_length, IH. cbn [length]. lia.
Qed.

Lemma pad_len_lt n : (pad_len n < 8)%nat.
Proof. unfold pad_len. apply Nat.mod_upper_bound. discriminate. Qed.

Definition asc_bytes (a : asc) : list N := pack (flush (asc_bits a)).

Lemma canonical_encode a : canonical a = true -> encode_asc a = Ok (asc_bytes a).
Proof.
  unfold canonical, encode_asc. intros H.
  repeat (apply andb_prop in H; destruct H as [H _]). now rewrite H.
Qed.

(* one call on a reader holding the encoding followed by anything: the configuration comes back and
   exactly the encoding's bytes are gone *)
Lemma decode_asc_gs_bytes a tb :
  canonical a = true ->
  exists s, decode_asc_gs rstate rd rerr (rinit (asc_bytes a ++ tb)) = (Ok a, s)
            /\ bytes_left (asc_bytes a ++ tb) s = tb.
Proof.
  intros Hc. unfold rinit. rewrite unpack_app. unfold asc_bytes at 1. rewrite unpack_pack_flush.
  rewrite <- app_assoc. rewrite (asc_gs_canonical a _ Hc).
  eexists. split; [reflexivity|].
  unfold bytes_left. cbn [rbits]. rewrite !app_length, repeat_length, unpack_length.
  pose proof (pad_len_lt (length (asc_bits a))) as Hp.
  replace ((pad_len (length (asc_bits a)) + 8 * length tb) / 8)%nat with (length tb).
  2:{ symmetry. rewrite Nat.mul_comm, Nat.div_add by discriminate. rewrite Nat.div_small by exact Hp. reflexivity. }
  replace (length (asc_bytes a) + length tb - length tb)%nat with (length (asc_bytes a)) by lia.
  rewrite skipn_app, Nat.sub_diag, skipn_all. reflexivity.
Qed.

Fixpoint asc_stream_expect (l : list asc) (rest : list N) : list (res asc * N) :=
  match l with
  | [] => []
  | a :: r => (Ok a, lenN (encode_asc_stream r ++ rest)) :: asc_stream_expect r rest
  end.

Lemma asc_stream_independent l : forall rest,
  forallb canonical l = true ->
  decode_asc_stream (length l) (encode_asc_stream l ++ rest) = asc_stream_expect l rest.
Proof.
  induction l as [|a r IH]; intros rest H; [reflexivity|].
  cbn [forallb] in H. apply andb_prop in H. destruct H as [Ha Hr].
  cbn [length encode_asc_stream decode_asc_stream asc_stream_expect].
  rewrite (canonical_encode a Ha). rewrite <- app_assoc.
  destruct (decode_asc_gs_bytes a (encode_asc_stream r ++ rest) Ha) as (s & -> & ->).
  now rewrite IH.
Qed.

Lemma asc_stream_values l rest :
  forallb canonical l = true ->
  map fst (decode_asc_stream (length l) (encode_asc_stream l ++ rest)) = map Ok l.
Proof.
  intros H. rewrite asc_stream_independent by exact H.
  clear H. induction l as [|a r IH]; [reflexivity|]. cbn [asc_stream_expect map fst]. now rewrite IH.
Qed.

(* ------------------------------------------------------------------ ADTS streams *)
Definition adts_item_ok (it : list N * adts) : bool :=
  (length (fst it) <=? 187)%nat && bytes_ok (fst it) && no_sync_in (fst it) && adts_canonical (snd it).

Fixpoint adts_stream_expect (l : list (list N * adts)) (rest : list N) : list (res (adts * Z) * N) :=
  match l with
  | [] => []
  | (j, h) :: r => (Ok (h, Z.of_nat (length j)), lenN (encode_adts_stream r ++ rest)) :: adts_stream_expect r rest
  end.

Lemma adts_canonical_hlen h : adts_canonical h = true -> h_hlen h = 7.
Proof.
  unfold adts_canonical. intros H. repeat (apply andb_prop in H; destruct H as [H ?]).
  now apply N.eqb_eq.
Qed.

Lemma adts_stream_independent l : forall rest,
  forallb adts_item_ok l = true ->
  decode_adts_stream (length l) (encode_adts_stream l ++ rest) = adts_stream_expect l rest.
Proof.
  induction l as [|[j h] r IH]; intros rest H; [reflexivity|].
  cbn [forallb] in H. apply andb_prop in H. destruct H as [Hi Hr].
  unfold adts_item_ok in Hi. cbn [fst snd] in Hi.
  apply andb_prop in Hi. destruct Hi as [Hi Hc].
  apply andb_prop in Hi. destruct Hi as [Hi Hn].
  apply andb_prop in Hi. destruct Hi as [Hl Hb]. apply Nat.leb_le in Hl.
  cbn [length encode_adts_stream decode_adts_stream adts_stream_expect].
  rewrite <- !app_assoc.
  rewrite (adts_sync_offset j h (encode_adts_stream r ++ rest) Hl Hb Hn Hc).
  rewrite (adts_canonical_hlen h Hc). rewrite Nat2Z.id.
  replace (skipn (length j + N.to_nat 7) (j ++ encode_adts h ++ encode_adts_stream r ++ rest))
    with (encode_adts_stream r ++ rest).
  2:{ symmetry. rewrite skipn_app. rewrite skipn_all2 by lia. cbn [app].
      replace (length j + N.to_nat 7 - length j)%nat with (length (encode_adts h))
        by (rewrite encode_adts_length; lia).
      rewrite skipn_app, Nat.sub_diag, skipn_all. reflexivity. }
  now rewrite IH.
Qed.
