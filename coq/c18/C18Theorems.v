(* C18Theorems.v — the property theorems of C18 and nothing else.  Each is closed by
   `exact <lemma>` and followed by Print Assumptions (audited by ./check on every run). *)
From V.lib Require Import Base.
From V.c18 Require Import C18Model C18BitsProofs C18AscProofs.

(* DecodeAudioSpecificConfig inverts Encode on the whole supported domain: object types 2/5/29,
   all 16 channel configurations, every sampling / extension frequency in 0 .. 2^24-1 (the 13 table
   values go through the 4-bit index, all others through the 24-bit escape), flags as implied by
   the object type.  General proof at the bit level, no enumeration. *)
Theorem C18_asc_roundtrip :
  forall a : asc, canonical a = true -> rbind (encode_asc a) decode_asc = Ok a.
Proof. exact asc_roundtrip. Qed.
Print Assumptions C18_asc_roundtrip.

Example C18_asc_roundtrip_sat_he :
  canonical (mkAsc HEAACv1 2 24000%Z 48000%Z true false) = true.
Proof. reflexivity. Qed.
Example C18_asc_roundtrip_sat_explicit :
  canonical (mkAsc HEAACv2 1 12345%Z 16777215%Z true true) = true.
Proof. reflexivity. Qed.

(* FrequencyTable and ReverseFrequencies (two separately written Go maps) are mutually inverse *)
Theorem C18_tables_inverse :
  forall (i : N) (f : Z), freq_of_index i = Some f <-> index_of_freq f = Some i.
Proof. exact tables_inverse. Qed.
Print Assumptions C18_tables_inverse.

(* the table part of the domain, by complete enumeration inside Coq (3 x 16 x 13 x 13 configurations;
   the bound is the statement): vm_compute of forallb, lifted with forallb_forall *)
Theorem C18_asc_table_enum :
  forall (ot ch : N) (f e : Z),
    In ot [AAClc; HEAACv1; HEAACv2] -> ch < 16 -> In f table_freqs -> In e table_freqs ->
    asc_roundtrip_ok (asc_of ot ch f e) = true.
Proof. exact asc_table_enum. Qed.
Print Assumptions C18_asc_table_enum.
