(* C18Theorems.v — the property theorems of C18 and nothing else.  Each is closed by
   `exact <lemma>` and followed by Print Assumptions (audited by ./check on every run). *)
From V.lib Require Import Base.
From V.c18 Require Import C18Model C18BitsProofs C18AscProofs C18AdtsProofs C18EntryModel C18EntryProofs C18TieProofs C18HistModel C18HistProofs C18DescModel C18DescProofs C18RangeProofs.

(* DecodeAudioSpecificConfig inverts Encode on the whole supported domain: object types 2/5/29,
   all 16 channel configurations, every sampling / extension frequency in 0 .. 2^24-1 (the 13 table
   values go through the 4-bit index, all others through the 24-bit escape), flags as implied by
   the object type.  General proof at the bit level, no enumeration. *)
Theorem C18_asc_roundtrip :
  forall a : asc, canonical a = true -> rbind (encode_asc a) decode_asc = Ok a.
Proof. exact asc_roundtrip. Qed.
Print Assumptions C18_asc_roundtrip.

Example C18_asc_roundtrip_sat_he :
  canonical (mkAsc HEAACv1 2 24000%Z 48000%Z true false) = true.
Proof. reflexivity. Qed.
Example C18_asc_roundtrip_sat_explicit :
  canonical (mkAsc HEAACv2 1 12345%Z 16777215%Z true true) = true.
Proof. reflexivity. Qed.

(* FrequencyTable and ReverseFrequencies (two separately written Go maps) are mutually inverse *)
Theorem C18_tables_inverse :
  forall (i : N) (f : Z), freq_of_index i = Some f <-> index_of_freq f = Some i.
Proof. exact tables_inverse. Qed.
Print Assumptions C18_tables_inverse.

(* the table part of the domain, by complete enumeration inside Coq (3 x 16 x 13 x 13 configurations;
   the bound is the statement): vm_compute of forallb, lifted with forallb_forall *)
Theorem C18_asc_table_enum :
  forall (ot ch : N) (f e : Z),
    In ot [AAClc; HEAACv1; HEAACv2] -> ch < 16 -> In f table_freqs -> In e table_freqs ->
    asc_roundtrip_ok (asc_of ot ch f e) = true.
Proof. exact asc_table_enum. Qed.
Print Assumptions C18_asc_table_enum.

(* DecodeADTSHeader inverts ADTSHeader.Encode: every profile 1..4, all 16 frequency indices, all 8
   channel configurations, every payload length 0..8184 (13-bit frame length incl. the 7 header
   bytes), every 11-bit fullness value, whatever follows the header.  General proof (in particular
   general in the length), no enumeration. *)
Theorem C18_adts_roundtrip :
  forall (h : adts) (rest : list N),
    adts_canonical h = true -> decode_adts (encode_adts h ++ rest) = Ok (h, 0%Z).
Proof. exact adts_roundtrip. Qed.
Print Assumptions C18_adts_roundtrip.

Example C18_adts_roundtrip_sat : adts_canonical (mkAdts 0 2 3 2 7 8184 2047) = true.
Proof. reflexivity. Qed.

(* with up to 187 junk bytes in front that contain no earlier sync word (junk may contain ff bytes, runs
   of ff, and may end in ff: the sync2 re-use path), the decoder returns the header and reports the
   junk length as the offset of the sync word.  Induction over the search iterations. *)
Theorem C18_adts_sync_offset :
  forall (junk : list N) (h : adts) (rest : list N),
    (length junk <= 187)%nat -> bytes_ok junk = true -> no_sync_in junk = true ->
    adts_canonical h = true ->
    decode_adts (junk ++ encode_adts h ++ rest) = Ok (h, Z.of_nat (length junk)).
Proof. exact adts_sync_offset. Qed.
Print Assumptions C18_adts_sync_offset.

Example C18_adts_sync_offset_sat :
  let junk := [0; 255; 255; 255; 247; 71; 255; 254; 255] in
  (length junk <= 187)%nat /\ bytes_ok junk = true /\ no_sync_in junk = true.
Proof. cbv zeta. repeat split. cbn [length]. lia. Qed.

(* for ANY input whose first sync word (naive position-by-position scan) lies within the first 188
   bytes, the search stops exactly there: the reported offset is the position at which the sync word
   was found, whatever header follows *)
Theorem C18_adts_sync_first :
  forall (data : list N) (p : nat),
    bytes_ok data = true -> first_sync data = Some p -> (p <= 187)%nat ->
    exists x T,
      data = firstn p data ++ 255 :: x :: T /\ is_sync2 x = true /\
      sync_loop ts_packet_size (rinit data) 0 0%Z = (true, x, Z.of_nat p, mkR (unpack T) false).
Proof. exact sync_first. Qed.
Print Assumptions C18_adts_sync_first.

(* NewADTSHeader yields a canonical header carrying the index of the requested table frequency *)
Theorem C18_new_adts_canonical :
  forall (f : Z) (ch pl : N) (h : adts),
    new_adts f ch AAClc pl = Ok h -> ch < 8 -> pl <= 8184 ->
    adts_canonical h = true /\ freq_of_index (h_sfi h) = Some f.
Proof. exact new_adts_canonical. Qed.
Print Assumptions C18_new_adts_canonical.

(* complete enumerations inside Coq (vm_compute of forallb, lifted with forallb_forall; the bounds are
   in the statements): the profile x index x channel grid, every payload length, every junk length *)
Theorem C18_adts_grid_enum :
  forall ot sfi ch pl bf : N,
    1 <= ot <= 4 -> sfi < 16 -> ch < 8 -> In pl grid_plens -> In bf grid_bfs ->
    adts_roundtrip_ok [] (mkAdts 0 ot sfi ch 7 pl bf) [] = true.
Proof. exact adts_grid_enum. Qed.
Print Assumptions C18_adts_grid_enum.

Theorem C18_adts_length_enum :
  forall pl : N, pl <= 8184 -> adts_roundtrip_ok [] (len_header pl) [] = true.
Proof. exact adts_length_enum. Qed.
Print Assumptions C18_adts_length_enum.

Theorem C18_adts_junk_enum :
  forall n : nat, (n <= 187)%nat ->
    junk_ok (junk_zero n) = true /\ junk_ok (junk_ff n) = true /\ junk_ok (junk_zero_ff n) = true.
Proof. exact adts_junk_enum. Qed.
Print Assumptions C18_adts_junk_enum.

(* the window is sharp: 188 zero bytes of junk are not searched through (outside the property's domain) *)
Theorem C18_adts_junk_188_refused :
  decode_adts (junk_zero 188 ++ encode_adts (len_header 371)) = Err.
Proof. exact adts_junk_188_refused. Qed.
Print Assumptions C18_adts_junk_188_refused.

(* ADTSHeader.Frequency() returns uint16.  Exact under the guard f < 65536 ... *)
Theorem C18_adts_frequency_exact :
  forall (f : Z) (ch pl : N) (h : adts),
    new_adts f ch AAClc pl = Ok h -> (f < 65536)%Z -> Z.of_N (adts_frequency h) = f.
Proof. exact adts_frequency_exact. Qed.
Print Assumptions C18_adts_frequency_exact.

(* ... and refuted without it: the table frequencies 88200 / 96000 come back as 22664 / 30464
   (known finding C18-F2, replayed on the real code by the search) *)
Theorem C18_adts_frequency_refuted :
  exists f h, new_adts f 2 AAClc 0 = Ok h /\ Z.of_N (adts_frequency h) <> f.
Proof. exact adts_frequency_refuted. Qed.
Print Assumptions C18_adts_frequency_refuted.

(* consequences: distinct canonical configurations / headers never share an encoding *)
Theorem C18_encode_asc_injective :
  forall a b : asc, canonical a = true -> canonical b = true -> encode_asc a = encode_asc b -> a = b.
Proof. exact encode_asc_injective. Qed.
Print Assumptions C18_encode_asc_injective.

Theorem C18_encode_adts_injective :
  forall a b : adts, adts_canonical a = true -> adts_canonical b = true -> encode_adts a = encode_adts b -> a = b.
Proof. exact encode_adts_injective. Qed.
Print Assumptions C18_encode_adts_injective.

(* ------------------------------------------------------------------ AAC sample entry *)
(* the mp4a entry CreateAudioSampleEntryBox/CreateEsdsBox build around ANY decoder configuration of
   up to 100 bytes decodes (DecodeBox -> DecodeAudioSampleEntry -> DecodeEsds -> DecodeESDescriptor ->
   DecoderConfigDescriptor -> DecSpecificInfo) to the same fields and the same DecConfig bytes *)
Theorem C18_entry_roundtrip :
  forall (cc ss rate : N) (dc : list N),
    cc < 65536 -> ss < 65536 -> rate < 65536 -> lenN dc <= 100 ->
    decode_entry (mp4a_box cc ss rate dc) = EOk (mkEntry 1 cc ss rate dc).
Proof. exact entry_roundtrip. Qed.
Print Assumptions C18_entry_roundtrip.

(* SetAACDescriptor(ot, f) -> encoded entry -> decoded entry -> DecodeAudioSpecificConfig returns the
   configuration that was built, for object types 2/5/29 and every frequency whose (doubled, for the
   HE types) value fits the 24-bit escape; the entry's rate field holds uint16(f) *)
Theorem C18_sample_entry :
  forall (ot : N) (f : Z),
    entry_freq_ok ot f = true ->
    exists bs dc,
      set_aac_descriptor ot f = Ok bs
      /\ decode_entry bs = EOk (mkEntry 1 (a_chan (set_aac_asc ot f)) 16 (uint16_of_int f) dc)
      /\ entry_asc bs = EOk (set_aac_asc ot f).
Proof. exact sample_entry. Qed.
Print Assumptions C18_sample_entry.

Example C18_sample_entry_sat : entry_freq_ok HEAACv1 24000%Z = true /\ entry_freq_ok AAClc 96000%Z = true.
Proof. split; reflexivity. Qed.

(* the same through the slice-reader decoders (DecodeBoxSR / DecodeAudioSampleEntrySR / DecodeEsdsSR),
   the path DecodeFileSR takes *)
Theorem C18_entry_roundtrip_sr :
  forall (cc ss rate : N) (dc : list N),
    cc < 65536 -> ss < 65536 -> rate < 65536 -> lenN dc <= 100 ->
    decode_entry_sr (mp4a_box cc ss rate dc) = EOk (mkEntry 1 cc ss rate dc).
Proof. exact entry_roundtrip_sr. Qed.
Print Assumptions C18_entry_roundtrip_sr.

Theorem C18_sample_entry_sr :
  forall (ot : N) (f : Z),
    entry_freq_ok ot f = true ->
    exists bs dc,
      set_aac_descriptor ot f = Ok bs
      /\ decode_entry_sr bs = EOk (mkEntry 1 (a_chan (set_aac_asc ot f)) 16 (uint16_of_int f) dc)
      /\ entry_asc_sr bs = EOk (set_aac_asc ot f).
Proof. exact sample_entry_sr. Qed.
Print Assumptions C18_sample_entry_sr.

(* the entry's 16.16 sample-rate field: exact under the guard f < 65536 ... *)
Theorem C18_entry_rate_exact :
  forall f : Z, (0 <= f < 65536)%Z -> Z.of_N (uint16_of_int f) = f.
Proof. exact entry_rate_exact. Qed.
Print Assumptions C18_entry_rate_exact.

(* ... refuted without it for a table frequency (88200 -> 22664; known finding C18-F1, replayed on the
   real code by the search) *)
Theorem C18_entry_rate_refuted :
  exists f bs e, In f table_freqs /\ set_aac_descriptor AAClc f = Ok bs /\ decode_entry bs = EOk e
                 /\ Z.of_N (e_rate e) <> f.
Proof. exact entry_rate_refuted. Qed.
Print Assumptions C18_entry_rate_refuted.

(* ------------------------------------------------------------------ tie to the Go-level bit machine *)
(* The model reads bits.Reader / bits.Writer as operations on bit lists.  C13Model holds the Go-level
   machines (value/n accumulators with the 64-bit wrap, byte positions, accumulated error).  The generic
   decoders instantiated with the C13 reader machine compute exactly what the bit-list instantiation
   computes, for every byte string (success, EOF and accumulated-error paths) ... *)
Theorem C18_reader_tie_asc :
  forall data : list N, bytes_ok data = true -> decode_asc_go data = decode_asc data.
Proof. exact decode_asc_tie. Qed.
Print Assumptions C18_reader_tie_asc.

Theorem C18_reader_tie_adts :
  forall data : list N, bytes_ok data = true -> decode_adts_go data = decode_adts data.
Proof. exact decode_adts_tie. Qed.
Print Assumptions C18_reader_tie_adts.

(* ... and the C13 writer machine running the encoders' Write calls (+ Flush for the configuration)
   emits the model's bytes *)
Theorem C18_writer_tie_asc :
  forall (a : asc) (bs : list N), encode_asc a = Ok bs -> go_write (asc_fields a) true = bs.
Proof. exact encode_asc_tie. Qed.
Print Assumptions C18_writer_tie_asc.

Theorem C18_writer_tie_adts :
  forall h : adts, go_write (adts_fields h) false = encode_adts h.
Proof. exact encode_adts_tie. Qed.
Print Assumptions C18_writer_tie_adts.

(* hence the property at machine level *)
Theorem C18_asc_roundtrip_machine :
  forall (a : asc) (bs : list N),
    canonical a = true -> encode_asc a = Ok bs ->
    go_write (asc_fields a) true = bs /\ decode_asc_go bs = Ok a.
Proof. exact asc_roundtrip_machine. Qed.
Print Assumptions C18_asc_roundtrip_machine.

Theorem C18_adts_sync_offset_machine :
  forall (junk : list N) (h : adts) (rest : list N),
    (length junk <= 187)%nat -> bytes_ok junk = true -> no_sync_in junk = true -> bytes_ok rest = true ->
    adts_canonical h = true ->
    decode_adts_go (junk ++ go_write (adts_fields h) false ++ rest) = Ok (h, Z.of_nat (length junk)).
Proof. exact adts_sync_offset_machine. Qed.
Print Assumptions C18_adts_sync_offset_machine.

(* ------------------------------------------------------------------ histories *)
(* "An AAC sample entry built from a configuration decodes back to that configuration" - for every
   entry of every history, whenever it is read.  A history is any list of operations: SetAACDescriptor on
   some track of some init segment (HBuild), Encode of an entry built so far (HEncEntry), Encode of a whole
   init segment (HEncInit), in any interleaving, of any length.  In the model an entry is a pure value, so
   the statements are immediate by induction over the operations; the real code (where an entry holds a
   []byte that CreateEsdsBox keeps without copying) is tied to hrun by the correspondence check over
   generated histories, and checked against the property directly by the history search.

   The i-th entry of the state any history reaches is the one its own (i-th successful) build made, and it
   decodes - DecodeBox and DecodeBoxSR paths - to the configuration of THAT build, whatever the other
   operations are *)
Theorem C18_entries_independent :
  forall (ops : list hop) (i : nat) (e : hentry),
    nth_error (fst (hrun ops [])) i = Some e ->
    nth_error (built ops) i = Some (he_ot e, he_f e)
    /\ set_aac_descriptor (he_ot e) (he_f e) = Ok (he_bytes e)
    /\ (entry_freq_ok (he_ot e) (he_f e) = true ->
        entry_asc (he_bytes e) = EOk (set_aac_asc (he_ot e) (he_f e))
        /\ entry_asc_sr (he_bytes e) = EOk (set_aac_asc (he_ot e) (he_f e))).
Proof. exact entries_independent. Qed.
Print Assumptions C18_entries_independent.

Example C18_entries_independent_sat :
  let ops := [HBuild 0 0 HEAACv1 24000%Z; HEncEntry 0; HBuild 0 1 AAClc 12345%Z; HBuild 1 0 42 48000%Z;
              HEncInit 0; HBuild 1 0 HEAACv2 22050%Z; HEncEntry 0] in
  built ops = [(HEAACv1, 24000%Z); (AAClc, 12345%Z); (HEAACv2, 22050%Z)]
  /\ map (fun e => entry_asc (he_bytes e)) (fst (hrun ops []))
     = [EOk (set_aac_asc HEAACv1 24000%Z); EOk (set_aac_asc AAClc 12345%Z); EOk (set_aac_asc HEAACv2 22050%Z)].
Proof. split; vm_compute; reflexivity. Qed.

(* operations that follow never change an entry that exists *)
Theorem C18_history_entry_stable :
  forall (pre post : list hop) (st : list hentry) (i : nat) (e : hentry),
    nth_error (fst (hrun pre st)) i = Some e ->
    nth_error (fst (hrun (pre ++ post) st)) i = Some e.
Proof. exact history_entry_stable. Qed.
Print Assumptions C18_history_entry_stable.

(* an Encode of entry i observed anywhere inside a history shows the bytes entry i has at its end *)
Theorem C18_history_encode_obs :
  forall (pre post : list hop) (i : nat) (st : list hentry) (b : list N),
    nth_error (snd (hrun (pre ++ HEncEntry i :: post) st)) (length pre) = Some (OBytes [b]) ->
    exists e, nth_error (fst (hrun (pre ++ HEncEntry i :: post) st)) i = Some e /\ he_bytes e = b.
Proof. exact history_encode_obs. Qed.
Print Assumptions C18_history_encode_obs.

(* k canonical configurations encoded one after the other into ONE writer and decoded by k calls of
   DecodeAudioSpecificConfig on ONE reader (each call its own bits.Reader) come back one by one, each as
   itself, each call consuming exactly its own bytes - whatever was encoded before or after, for any k *)
Theorem C18_asc_stream_independent :
  forall (l : list asc) (rest : list N),
    forallb canonical l = true ->
    decode_asc_stream (length l) (encode_asc_stream l ++ rest) = asc_stream_expect l rest.
Proof. exact asc_stream_independent. Qed.
Print Assumptions C18_asc_stream_independent.

Theorem C18_asc_stream_values :
  forall (l : list asc) (rest : list N),
    forallb canonical l = true ->
    map fst (decode_asc_stream (length l) (encode_asc_stream l ++ rest)) = map Ok l.
Proof. exact asc_stream_values. Qed.
Print Assumptions C18_asc_stream_values.

Example C18_asc_stream_sat :
  forallb canonical [mkAsc HEAACv2 1 12345%Z 16777215%Z true true; mkAsc AAClc 7 48000%Z 0%Z false false;
                     mkAsc HEAACv1 2 24000%Z 48000%Z true false] = true.
Proof. reflexivity. Qed.

(* the DecodeAudioSpecificConfig of C18Model is the first component of the state-returning one *)
Theorem C18_asc_state_decoder_same :
  forall s : rstate, fst (decode_asc_gs rstate rd rerr s) = decode_asc_g rstate rd rerr s.
Proof. exact decode_asc_gs_fst. Qed.
Print Assumptions C18_asc_state_decoder_same.

(* k ADTS headers, each preceded by up to 187 junk bytes without a sync word, back to back: k calls of
   DecodeADTSHeader on one reader return each header with its own junk length as offset (a call is taken to
   consume offset + HeaderLength bytes: compared with the real reader on every run) *)
Theorem C18_adts_stream_independent :
  forall (l : list (list N * adts)) (rest : list N),
    forallb adts_item_ok l = true ->
    decode_adts_stream (length l) (encode_adts_stream l ++ rest) = adts_stream_expect l rest.
Proof. exact adts_stream_independent. Qed.
Print Assumptions C18_adts_stream_independent.

Example C18_adts_stream_sat :
  forallb adts_item_ok [([0; 255; 255; 247; 71; 255], mkAdts 0 2 3 2 7 8184 2047); ([], mkAdts 0 1 0 7 7 0 0);
                        ([255], mkAdts 0 4 15 1 7 371 1000)] = true.
Proof. reflexivity. Qed.

(* ------------------------------------------------------------------ the esds descriptor layer, complete *)
(* C18DescModel models mp4/descriptors.go completely (slice reader with accumulated error, size fields of
   any width, optional ES fields, further descriptors of any tag kept as RawDescriptor,
   DecoderConfigDescriptors nested to any depth, UnknownData recovery).  mp4.DecodeDescriptor inverts
   EncodeSW on EVERY well-formed descriptor value: any nesting depth, any number of contained descriptors,
   size fields of 1..255 bytes on every level, whatever follows in the reader *)
Theorem C18_descriptor_roundtrip :
  forall (d : desc) (rest : list N) (maxNr : Z),
    desc_wf d = true -> (Z.of_N (desc_sizesize d) <= maxNr)%Z ->
    decode_descriptor maxNr (encode_desc d ++ rest) = (Ok d, mkSl rest (desc_sizesize d) false).
Proof. exact descriptor_roundtrip. Qed.
Print Assumptions C18_descriptor_roundtrip.

Example C18_descriptor_roundtrip_sat :
  desc_wf (DDcd 3 64 21 6144 128000 96000
             [DDsi 2 [18; 16]; DRaw 254 1 [1; 2; 3]; DDcd 0 1 2 3 4 5 [DSlc 1 2 [9]] [7]] []) = true.
Proof. reflexivity. Qed.

(* mp4.DecodeESDescriptor inverts ESDescriptor.EncodeSW on every well-formed ES descriptor: optional
   dependsOn / URL / OCR fields, the DecoderConfigDescriptor, an SLConfigDescriptor or not, any further
   descriptors (unknown tags are kept), at most one trailing unknown byte *)
Theorem C18_es_descriptor_roundtrip :
  forall (e : esd) (rest : list N),
    es_wf e = true ->
    decode_es_descriptor (encode_es e ++ rest) = (Ok e, mkSl rest (es_sizesize e) false).
Proof. exact es_descriptor_roundtrip. Qed.
Print Assumptions C18_es_descriptor_roundtrip.

Example C18_es_descriptor_roundtrip_sat :
  es_wf (mkEsd 3 1 224 7 [104; 116; 116; 112] 9
           (DDcd 3 64 21 0 0 0 [DDsi 3 [43; 146; 8; 0]; DRaw 9 0 []] [])
           [DSlc 3 2 []; DRaw 127 2 [1; 2]] [0]) = true.
Proof. reflexivity. Qed.

(* DecodeEsds on the body EsdsBox.Encode writes *)
Theorem C18_esds_body_roundtrip :
  forall (vf : N) (e : esd),
    vf < 4294967296 -> es_wf e = true -> decode_esds_body (be32 vf ++ encode_es e) = Ok (vf, e).
Proof. exact esds_body_roundtrip. Qed.
Print Assumptions C18_esds_body_roundtrip.

(* whatever well-formed shape the esds has (e.g. the 4-byte size fields other muxers write, extra
   descriptors), the configuration it carries as DecoderSpecificInfo is read back:
   esds -> ESDescriptor -> DecoderConfigDescriptor -> DecSpecificInfo -> DecodeAudioSpecificConfig *)
Theorem C18_esds_config_roundtrip :
  forall (vf : N) (e : esd) (a : asc),
    vf < 4294967296 -> es_wf e = true -> canonical a = true -> es_carries e a = true ->
    esds_asc (be32 vf ++ encode_es e) = Ok a.
Proof. exact esds_config_roundtrip. Qed.
Print Assumptions C18_esds_config_roundtrip.

Example C18_esds_config_roundtrip_sat :
  let a := mkAsc HEAACv1 2 24000%Z 48000%Z true false in
  let e := mkEsd 3 1 0 0 [] 0 (DDcd 3 64 21 0 0 0 [DDsi 3 [43; 17; 136; 0]; DRaw 9 0 []] []) [DSlc 3 2 []] [] in
  canonical a = true /\ es_wf e = true /\ es_carries e a = true.
Proof. repeat split; vm_compute; reflexivity. Qed.

(* the esds of the entry SetAACDescriptor builds is the encoding of one such value, and the general decoder
   reads the configuration back from it (ties C18EntryModel's fixed-shape encoder to the general layer) *)
Theorem C18_set_aac_esds_general :
  forall (ot : N) (f : Z),
    entry_freq_ok ot f = true ->
    exists dc, encode_asc (set_aac_asc ot f) = Ok dc
               /\ encode_es (aac_esd dc) = es_bytes dc
               /\ esds_asc (be32 0 ++ es_bytes dc) = Ok (set_aac_asc ot f).
Proof. exact set_aac_esds_general. Qed.
Print Assumptions C18_set_aac_esds_general.

(* ------------------------------------------------------------------ the hypotheses are decoder invariants *)
(* "every ... configuration the library supports": the hypothesis `canonical` of C18_asc_roundtrip is not an
   assumption about the inputs the library meets - it holds of EVERY configuration DecodeAudioSpecificConfig
   returns, on any input whatsoever (arbitrary, malformed, foreign-encoder bytes) ... *)
Theorem C18_decode_asc_canonical :
  forall (data : list N) (a : asc), decode_asc data = Ok a -> canonical a = true.
Proof. exact decode_asc_canonical. Qed.
Print Assumptions C18_decode_asc_canonical.

(* ... so the round trip needs no hypothesis on decoder results: whatever the decoder accepted, the
   configuration it returned is encoded by Encode and read back as itself (decode ; encode ; decode = decode) *)
Theorem C18_decode_asc_reencode :
  forall (data : list N) (a : asc), decode_asc data = Ok a -> rbind (encode_asc a) decode_asc = Ok a.
Proof. exact decode_asc_reencode. Qed.
Print Assumptions C18_decode_asc_reencode.

Example C18_decode_asc_reencode_sat :
  (* a foreign encoding: 48000 Hz written through the 24-bit escape, trailing bits set *)
  decode_asc [23; 128; 93; 192; 23] = Ok (mkAsc AAClc 2 48000%Z 0%Z false false)
  /\ encode_asc (mkAsc AAClc 2 48000%Z 0%Z false false) = Ok [17; 144].
Proof. split; vm_compute; reflexivity. Qed.

(* and `canonical` is exactly the range of the decoder: the domain of C18_asc_roundtrip is neither smaller nor
   larger than the set of configurations the library can produce from bytes *)
Theorem C18_canonical_is_decoder_range :
  forall a : asc, canonical a = true <-> exists data, bytes_ok data = true /\ decode_asc data = Ok a.
Proof. exact canonical_is_decoder_range. Qed.
Print Assumptions C18_canonical_is_decoder_range.

(* every header DecodeADTSHeader returns (any input, any sync offset) that is MPEG-4, CRC-less and announces a
   frame of at least the 7 header bytes satisfies the hypothesis of C18_adts_roundtrip ... *)
Theorem C18_decode_adts_canonical :
  forall (data : list N) (h : adts) (off : Z),
    decode_adts data = Ok (h, off) -> h_id h = 0 -> h_hlen h = 7 -> h_plen h <= 8184 -> adts_canonical h = true.
Proof. exact decode_adts_canonical. Qed.
Print Assumptions C18_decode_adts_canonical.

(* ... hence re-encodes to bytes the decoder reads back as the same header at offset 0 *)
Theorem C18_decode_adts_reencode :
  forall (data : list N) (h : adts) (off : Z) (rest : list N),
    decode_adts data = Ok (h, off) -> h_id h = 0 -> h_hlen h = 7 -> h_plen h <= 8184 ->
    decode_adts (encode_adts h ++ rest) = Ok (h, 0%Z).
Proof. exact decode_adts_reencode. Qed.
Print Assumptions C18_decode_adts_reencode.

Example C18_decode_adts_reencode_sat :
  decode_adts [0; 255; 255; 241; 76; 128; 46; 127; 252; 33] = Ok (mkAdts 0 2 3 2 7 364 2047, 2%Z).
Proof. vm_compute; reflexivity. Qed.

(* the three guards are exactly what Encode cannot express; the payload guard is sharp: a frame length of 0 is
   accepted and reported as PayloadLength 65529 = uint16(0 - 7)  (malformed input, outside the property's domain) *)
Theorem C18_decode_adts_short_frame_wraps :
  exists data h off,
    bytes_ok data = true /\ decode_adts data = Ok (h, off) /\ h_id h = 0 /\ h_hlen h = 7 /\ h_plen h = 65529.
Proof. exact decode_adts_short_frame_wraps. Qed.
Print Assumptions C18_decode_adts_short_frame_wraps.
