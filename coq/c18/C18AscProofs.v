(* C18AscProofs.v — AudioSpecificConfig: the two frequency tables are mutually inverse, and
   DecodeAudioSpecificConfig inverts Encode on every canonical configuration (general proof),
   plus the complete enumeration of the table part of the domain. *)
From V.lib Require Import Base.
From V.c18 Require Import C18Model C18BitsProofs.

Ltac pow_bound :=
  match goal with
  | |- _ < 2 ^ N.of_nat ?w =>
      let c := eval vm_compute in (2 ^ N.of_nat w) in change (2 ^ N.of_nat w) with c
  end; try lia; try reflexivity.

(* ---------- tables ---------- *)
Lemma index_of_freq_sound f i :
  index_of_freq f = Some i -> freq_of_index i = Some f /\ i < 13.
Proof.
  unfold index_of_freq, reverse_frequencies. cbn [lookup_freq].
  repeat (match goal with |- context [(?k =? f)%Z] => destruct (Z.eqb_spec k f) as [<- | _] end;
          [intros [= <-]; split; reflexivity|]).
  discriminate.
Qed.

Lemma freq_of_index_sound i f :
  freq_of_index i = Some f -> index_of_freq f = Some i /\ i < 13.
Proof.
  unfold freq_of_index, frequency_table. cbn [lookup_idx].
  repeat (match goal with |- context [?k =? i] => destruct (N.eqb_spec k i) as [<- | _] end;
          [intros [= <-]; split; reflexivity|]).
  discriminate.
Qed.

Lemma tables_inverse i f : freq_of_index i = Some f <-> index_of_freq f = Some i.
Proof.
  split; intros H.
  - now apply freq_of_index_sound.
  - now apply index_of_freq_sound.
Qed.

(* ---------- getFrequency inverts the frequency field ---------- *)
Lemma uint_of_int_small f : freq_ok f = true -> uint_of_int f = Z.to_N f /\ Z.to_N f < 16777216.
Proof.
  unfold freq_ok, uint_of_int. intros H.
  assert (0 <= f < 16777216)%Z as Hr by lia.
  rewrite Z.mod_small by lia. lia.
Qed.

Lemma get_frequency_field f rest :
  freq_ok f = true ->
  get_frequency (mkR (freq_field f ++ rest) false) = (Some f, mkR rest false).
Proof.
  intros Hf. unfold freq_field, get_frequency_g.
  destruct (index_of_freq f) as [i|] eqn:E.
  - apply index_of_freq_sound in E. destruct E as [E Hi].
    rewrite rd_to_bits_small by (pow_bound). cbv beta iota.
    replace (i =? 15) with false by (symmetry; apply N.eqb_neq; lia).
    cbn [rerr]. now rewrite E.
  - rewrite <- app_assoc.
    rewrite rd_to_bits_small by (pow_bound). cbv beta iota.
    change (15 =? 15) with true. cbv beta iota.
    destruct (uint_of_int_small f Hf) as [-> Hlt].
    rewrite rd_to_bits_small by (pow_bound). cbv beta iota. cbn [rerr].
    rewrite Z2N.id; [reflexivity|]. unfold freq_ok in Hf. lia.
Qed.

(* ---------- the round trip ---------- *)
Lemma asc_rt_lc ch f :
  ch < 16 -> freq_ok f = true ->
  decode_asc (pack (flush (asc_bits (mkAsc AAClc ch f 0%Z false false))))
  = Ok (mkAsc AAClc ch f 0%Z false false).
Proof.
  intros Hc Hf. unfold decode_asc, decode_asc_g, rinit. rewrite unpack_pack_flush.
  unfold asc_bits. cbn [a_ot a_chan a_freq a_ext].
  change ((AAClc =? HEAACv1) || (AAClc =? HEAACv2)) with false. cbv beta iota.
  rewrite <- !app_assoc.
  rewrite rd_to_bits_small by (pow_bound). cbv beta iota.
  change (AAClc =? AAClc) with true. cbv beta iota.
  rewrite get_frequency_field by exact Hf. cbv beta iota.
  rewrite rd_to_bits_small by (pow_bound). cbv beta iota.
  change ((AAClc =? HEAACv1) || (AAClc =? HEAACv2)) with false. cbv beta iota.
  destruct (rd 3 _). reflexivity.
Qed.

Lemma asc_rt_sbr ot ch f e ps :
  (ot = HEAACv1 /\ ps = false) \/ (ot = HEAACv2 /\ ps = true) ->
  ch < 16 -> freq_ok f = true -> freq_ok e = true ->
  decode_asc (pack (flush (asc_bits (mkAsc ot ch f e true ps))))
  = Ok (mkAsc ot ch f e true ps).
Proof.
  intros Hot Hc Hf He. unfold decode_asc, decode_asc_g, rinit. rewrite unpack_pack_flush.
  unfold asc_bits. cbn [a_ot a_chan a_freq a_ext].
  destruct Hot as [[-> ->] | [-> ->]].
  - change ((HEAACv1 =? HEAACv1) || (HEAACv1 =? HEAACv2)) with true. cbv beta iota.
    rewrite <- !app_assoc.
    rewrite rd_to_bits_small by (pow_bound). cbv beta iota.
    change (HEAACv1 =? AAClc) with false. change (HEAACv1 =? HEAACv1) with true. cbv beta iota.
    rewrite get_frequency_field by exact Hf. cbv beta iota.
    rewrite rd_to_bits_small by (pow_bound). cbv beta iota.
    change (true || (HEAACv1 =? HEAACv2)) with true. cbv beta iota.
    rewrite get_frequency_field by exact He. cbv beta iota.
    rewrite rd_to_bits_small by (pow_bound). cbv beta iota.
    change (negb (AAClc =? AAClc)) with false. cbv beta iota.
    destruct (rd 3 _). reflexivity.
  - change ((HEAACv2 =? HEAACv1) || (HEAACv2 =? HEAACv2)) with true. cbv beta iota.
    rewrite <- !app_assoc.
    rewrite rd_to_bits_small by (pow_bound). cbv beta iota.
    change (HEAACv2 =? AAClc) with false. change (HEAACv2 =? HEAACv1) with false.
    change (HEAACv2 =? HEAACv2) with true. cbv beta iota.
    rewrite get_frequency_field by exact Hf. cbv beta iota.
    rewrite rd_to_bits_small by (pow_bound). cbv beta iota.
    change (false || true) with true. cbv beta iota.
    rewrite get_frequency_field by exact He. cbv beta iota.
    rewrite rd_to_bits_small by (pow_bound). cbv beta iota.
    change (negb (AAClc =? AAClc)) with false. cbv beta iota.
    destruct (rd 3 _). reflexivity.
Qed.

Lemma eqb_true_eq (a b : bool) : Bool.eqb a b = true -> a = b.
Proof. destruct a, b; intros H; try reflexivity; discriminate. Qed.

Lemma asc_roundtrip a :
  canonical a = true -> rbind (encode_asc a) decode_asc = Ok a.
Proof.
  destruct a as [ot ch f e sbr ps]. unfold canonical, encode_asc. cbn [a_ot a_chan a_freq a_ext a_sbr a_ps].
  intros H.
  apply andb_prop in H. destruct H as [H Hps].
  apply andb_prop in H. destruct H as [H Hsbr].
  apply andb_prop in H. destruct H as [H He].
  apply andb_prop in H. destruct H as [H Hf].
  apply andb_prop in H. destruct H as [Hot Hc].
  apply eqb_true_eq in Hps. apply eqb_true_eq in Hsbr. apply N.ltb_lt in Hc.
  rewrite Hot. cbn [rbind].
  apply orb_prop in Hot. destruct Hot as [Hot | Hot]; [apply orb_prop in Hot; destruct Hot as [Hot | Hot]|];
    apply N.eqb_eq in Hot; subst ot.
  - change (AAClc =? AAClc) with true in *. change (AAClc =? HEAACv2) with false in *.
    cbn [negb] in Hsbr. subst sbr ps. apply Z.eqb_eq in He. subst e.
    now apply asc_rt_lc.
  - change (HEAACv1 =? AAClc) with false in *. change (HEAACv1 =? HEAACv2) with false in *.
    cbn [negb] in Hsbr. subst sbr ps. apply asc_rt_sbr; auto.
  - change (HEAACv2 =? AAClc) with false in *. change (HEAACv2 =? HEAACv2) with true in *.
    cbn [negb] in Hsbr. subst sbr ps. apply asc_rt_sbr; auto.
Qed.

(* encoding never fails on the domain, and only there *)
Lemma encode_asc_ok a :
  (exists bs, encode_asc a = Ok bs) <->
  ((a_ot a =? AAClc) || (a_ot a =? HEAACv1) || (a_ot a =? HEAACv2)) = true.
Proof.
  unfold encode_asc. destruct (_ || _ || _); split; intros H; try reflexivity.
  - eexists; reflexivity.
  - destruct H as [bs H]. discriminate.
  - discriminate.
Qed.

(* ---------- complete enumeration of the table part of the domain ---------- *)
Definition table_freqs : list Z := map snd frequency_table.
Definition chans16 : list N := map N.of_nat (seq 0 16).

Definition asc_of (ot ch : N) (f e : Z) : asc :=
  mkAsc ot ch f (if ot =? AAClc then 0%Z else e) (negb (ot =? AAClc)) (ot =? HEAACv2).

Definition asc_table_domain : list asc :=
  flat_map (fun ot => flat_map (fun ch => flat_map (fun f => map (fun e => asc_of ot ch f e)
     table_freqs) table_freqs) chans16) [AAClc; HEAACv1; HEAACv2].

Lemma asc_table_enum_true :
  forallb (fun a => canonical a && asc_roundtrip_ok a) asc_table_domain = true.
Proof. vm_compute. reflexivity. Qed.

Lemma in_chans16 ch : ch < 16 -> In ch chans16.
Proof.
  intros H. unfold chans16. apply in_map_iff. exists (N.to_nat ch). split; [lia|].
  apply in_seq. lia.
Qed.

Lemma asc_table_enum ot ch f e :
  In ot [AAClc; HEAACv1; HEAACv2] -> ch < 16 -> In f table_freqs -> In e table_freqs ->
  asc_roundtrip_ok (asc_of ot ch f e) = true.
Proof.
  intros Hot Hc Hf He.
  pose proof asc_table_enum_true as H. rewrite forallb_forall in H.
  specialize (H (asc_of ot ch f e)).
  assert (Hin : In (asc_of ot ch f e) asc_table_domain).
  { unfold asc_table_domain. apply in_flat_map. exists ot. split; [exact Hot|].
    apply in_flat_map. exists ch. split; [now apply in_chans16|].
    apply in_flat_map. exists f. split; [exact Hf|].
    apply in_map_iff. exists e. split; [reflexivity|exact He]. }
  specialize (H Hin). apply andb_prop in H. tauto.
Qed.

(* a decoder that inverts the encoder makes the encoder injective on the domain *)
Lemma encode_asc_injective a b :
  canonical a = true -> canonical b = true -> encode_asc a = encode_asc b -> a = b.
Proof.
  intros Ha Hb E. pose proof (asc_roundtrip a Ha) as Ra. pose proof (asc_roundtrip b Hb) as Rb.
  rewrite E in Ra. rewrite Ra in Rb. now injection Rb.
Qed.
