(* C18EntryModel.v — executable model of the AAC sample-entry path
     mp4.TrakBox.SetAACDescriptor                         (mp4/initsegment.go)
     mp4.CreateEsdsBox / EsdsBox.Encode / DecodeEsds      (mp4/esds.go)
     mp4.CreateESDescriptor, the descriptor encoders and decoders, readSizeSize,
     writeDescriptorSize                                  (mp4/descriptors.go)
     mp4.CreateAudioSampleEntryBox / AudioSampleEntryBox.Encode / DecodeAudioSampleEntry
                                                          (mp4/audiosamplentry.go)
     box header                                           (mp4/box.go EncodeHeader / DecodeHeader / readBoxBody)
   Definitions only.

   Scope of the decoder model: the path taken for entries with exactly one child box `esds` whose
   ES descriptor holds a DecoderConfigDescriptor (tag 4) with one DecSpecificInfo (tag 5), followed
   by an SLConfigDescriptor (tag 6) — the shape CreateEsdsBox produces — with every check the Go code
   makes on that path (tags, size fields, maxNrBytes, "read too far", box sizes).  Anything that leaves
   this path (other boxes or descriptors, UnknownData recovery, reads beyond the slice, 64-bit sizes)
   is reported as EUnmodelled, never as a value: the correspondence run skips (and counts) such cases. *)
From V.lib Require Import Base.
From V.c18 Require Import C18Model.

Inductive eres (A : Type) : Type :=
| EOk (a : A)
| EErr            (* Go returns a non-nil error *)
| EUnmodelled.    (* outside the modelled path *)
Arguments EOk {A} a.
Arguments EErr {A}.
Arguments EUnmodelled {A}.

Definition ebind {A B} (r : eres A) (f : A -> eres B) : eres B :=
  match r with EOk a => f a | EErr => EErr | EUnmodelled => EUnmodelled end.
Notation "'edo' x <- r ; k" := (ebind r (fun x => k)) (at level 200, x pattern, r at level 100, k at level 200).

(* ------------------------------------------------------------------ big-endian fields *)
Definition be16 (v : N) : list N := [(v / 256) mod 256; v mod 256].
Definition be32 (v : N) : list N := [(v / 16777216) mod 256; (v / 65536) mod 256; (v / 256) mod 256; v mod 256].

Definition fourcc_mp4a : list N := [109; 112; 52; 97].
Definition fourcc_esds : list N := [101; 115; 100; 115].

(* func writeDescriptorSize(sw, size, sizeFieldSizeMinus1): pos = sizeFieldSizeMinus1 .. 0 *)
Fixpoint desc_size (size : N) (pos : nat) : list N :=
  let v := (size / 2 ^ (7 * N.of_nat pos)) mod 128 in
  match pos with
  | O => [v]
  | S p => (v + 128) :: desc_size size p
  end.

(* ------------------------------------------------------------------ encoder *)
(* CreateESDescriptor(decConfig).EncodeSW; every sizeFieldSizeMinus1 is 0 *)
Definition dsi_bytes (dc : list N) : list N := [5] ++ desc_size (lenN dc) 0 ++ dc.
Definition dcd_size (dc : list N) : N := 13 + (2 + lenN dc).
Definition dcd_bytes (dc : list N) : list N :=
  [4] ++ desc_size (dcd_size dc) 0 ++ [64] ++ be32 (21 * 16777216) ++ be32 0 ++ be32 0 ++ dsi_bytes dc.
Definition slc_bytes : list N := [6] ++ desc_size 1 0 ++ [2].
Definition es_size (dc : list N) : N := 3 + (2 + dcd_size dc) + 3.
Definition es_bytes (dc : list N) : list N :=
  [3] ++ desc_size (es_size dc) 0 ++ be16 1 ++ [0] ++ dcd_bytes dc ++ slc_bytes.

(* EsdsBox.Size() / Encode *)
Definition esds_size (dc : list N) : N := 8 + 4 + (2 + es_size dc).
Definition esds_box (dc : list N) : list N :=
  be32 (esds_size dc) ++ fourcc_esds ++ be32 0 ++ es_bytes dc.

(* AudioSampleEntryBox.Encode with the single child esds *)
Definition zeros (n : nat) : list N := repeat 0 n.
Definition mp4a_size (dc : list N) : N := 36 + esds_size dc.
Definition mp4a_box (cc ss rate : N) (dc : list N) : list N :=
  be32 (mp4a_size dc) ++ fourcc_mp4a ++ zeros 6 ++ be16 1 ++ zeros 8 ++ be16 cc ++ be16 ss ++ zeros 4
  ++ be32 (rate * 65536) ++ esds_box dc.

(* func (t *TrakBox) SetAACDescriptor(objType byte, samplingFrequency int) error:
   the configuration it builds, and the encoded mp4a entry it adds to stsd *)
Definition set_aac_asc (ot : N) (f : Z) : asc :=
  if ot =? HEAACv1 then mkAsc ot 2 f (2 * f)%Z true false
  else if ot =? HEAACv2 then mkAsc ot 1 f (2 * f)%Z true true
  else mkAsc ot 2 f 0%Z false false.

Definition uint16_of_int (x : Z) : N := Z.to_N (x mod 65536)%Z.

Definition set_aac_descriptor (ot : N) (f : Z) : res (list N) :=
  let a := set_aac_asc ot f in
  do dc <- encode_asc a;
  Ok (mp4a_box (a_chan a) 16 (uint16_of_int f) dc).

(* ------------------------------------------------------------------ decoder *)
(* a slice reader: remaining bytes and the number of bytes consumed (GetPos) *)
Definition sr := (list N * N)%type.
Definition R (A : Type) := sr -> eres (A * sr).

Definition r_u8 : R N := fun '(l, p) =>
  match l with b :: t => EOk (b, (t, p + 1)) | [] => EUnmodelled end.
Definition r_u16 : R N := fun s =>
  edo (a, s) <- r_u8 s; edo (b, s) <- r_u8 s; EOk (a * 256 + b, s).
Definition r_u32 : R N := fun s =>
  edo (a, s) <- r_u16 s; edo (b, s) <- r_u16 s; EOk (a * 65536 + b, s).
Definition r_take (k : N) : R (list N) := fun '(l, p) =>
  if k <=? lenN l then EOk (firstn (N.to_nat k) l, (skipn (N.to_nat k) l, p + k)) else EUnmodelled.

(* func readSizeSize(sr) (sizeFieldSizeMinus1 byte, size uint64, err error); tmp&0x80 != 0 on a byte
   is 128 <= tmp; fuel = bytes available (a continuation byte beyond them is a read beyond the slice) *)
Fixpoint size_loop (fuel : nat) (tmp n acc : N) (s : sr) : eres (N * N * sr) :=
  if 128 <=? tmp then
    match fuel with
    | O => EUnmodelled
    | S f =>
        edo (t, s) <- r_u8 s;
        size_loop f t (u8 (n + 1)) (u64 (acc * 128 + t mod 128)) s
    end
  else EOk (n, acc, s).

Definition read_size_size : R (N * N) := fun s =>
  edo (tmp, s) <- r_u8 s;
  edo (n, acc, s) <- size_loop (length (fst s)) tmp 0 (tmp mod 128) s;
  EOk ((n, acc), s).

(* exceedsMaxNrBytes(sizeFieldSizeMinus1, size, maxNrBytes); maxNrBytes >= 2 here; uint64 sum *)
Definition exceeds (sfsm1 size : N) (maxNr : Z) : bool :=
  (Z.of_N (u64 (1 + sfsm1 + 1 + size)) >? maxNr)%Z.

(* int(size) for a uint64 size (two's complement) *)
Definition int_of_u64 (x : N) : Z :=
  if x <? 9223372036854775808 then Z.of_N x else (Z.of_N x - 18446744073709551616)%Z.

Record entry := mkEntry {
  e_dri : N; e_cc : N; e_ss : N; e_rate : N; e_dc : list N
}.

(* DecodeDecoderConfigDescriptor after its tag was read; result: (total bytes the descriptor
   occupies as computed by SizeSize(), DecConfig) *)
Definition decode_dcd (maxNr : Z) : R (N * list N) := fun s =>
  edo ((sfsm1, size), s) <- read_size_size s;
  if exceeds sfsm1 size maxNr then EErr
  else
    let start := snd s in
    edo (_, s) <- r_u8 s;                 (* ObjectType *)
    edo (_, s) <- r_u32 s;                (* StreamType / BufferSizeDB *)
    edo (_, s) <- r_u32 s;
    edo (_, s) <- r_u32 s;
    let left := (int_of_u64 size - Z.of_N (snd s - start))%Z in
    if (left =? 0)%Z then EUnmodelled      (* no DecSpecificInfo *)
    else if (left <? 2)%Z then EErr        (* DecodeDescriptor: descriptor size too small *)
    else
      edo (tag, s) <- r_u8 s;
      if negb (tag =? 5) then EUnmodelled
      else
        edo ((sfsm1', size'), s) <- read_size_size s;
        if exceeds sfsm1' size' left then EErr
        else
          edo (dc, s) <- r_take size' s;
          let left := (int_of_u64 size - Z.of_N (snd s - start))%Z in
          if (left =? 0)%Z then
            EOk ((1 + sfsm1 + 1 + (13 + (1 + sfsm1' + 1 + lenN dc)), dc), s)
          else if (left <? 0)%Z then EErr  (* read too far in DecoderConfigDescriptor *)
          else EUnmodelled.

(* DecodeESDescriptor; result: (SizeSize(), DecConfig) *)
Definition decode_es : R (N * list N) := fun s =>
  edo (tag, s) <- r_u8 s;
  if negb (tag =? 3) then EErr
  else
    edo ((sfsm1, size), s) <- read_size_size s;
    let start := snd s in
    edo (_, s) <- r_u16 s;                (* EsID *)
    edo (flags, s) <- r_u8 s;
    edo (opt1, s) <- (if flags / 128 =? 1 then edo (_, s) <- r_u16 s; EOk (2, s) else EOk (0, s));
    edo (opt2, s) <- (if (flags / 64) mod 2 =? 1
                       then edo (n, s) <- r_u8 s; edo (_, s) <- r_take n s; EOk (1 + n, s)
                       else EOk (0, s));
    edo (opt3, s) <- (if (flags / 32) mod 2 =? 1 then edo (_, s) <- r_u16 s; EOk (2, s) else EOk (0, s));
    let left := (int_of_u64 size - Z.of_N (snd s - start))%Z in
    if (left <? 2)%Z then EErr
    else
      edo (tag, s) <- r_u8 s;
      if tag =? 3 then EErr
      else if negb (tag =? 4) then EUnmodelled
      else
        edo ((dcd_ss, dc), s) <- decode_dcd left s;
        let left := (int_of_u64 size - Z.of_N (snd s - start))%Z in
        if (left <? 2)%Z then EUnmodelled  (* second DecodeDescriptor fails: UnknownData path *)
        else
          edo (tag, s) <- r_u8 s;
          if negb (tag =? 6) then EUnmodelled
          else
            edo ((sfsm1', size'), s) <- read_size_size s;
            if exceeds sfsm1' size' left then EUnmodelled
            else
              edo (_, s) <- r_u8 s;       (* ConfigValue *)
              edo (more, s) <- (if 1 <? size' then r_take (size' - 1) s else EOk ([], s));
              let slc_ss := 1 + sfsm1' + 1 + (1 + lenN more) in
              let left := (int_of_u64 size - Z.of_N (snd s - start))%Z in
              if (left =? 0)%Z then
                let ed_size := 3 + opt1 + opt2 + opt3 + dcd_ss + slc_ss in
                if negb (size =? ed_size) then EErr
                else EOk ((1 + sfsm1 + 1 + ed_size, dc), s)
              else if (left <? 0)%Z then EErr   (* read too far in ESDescriptor *)
              else EUnmodelled.

(* DecodeHeader + readBoxBody on a byte string: (name, size, body, rest) *)
Definition decode_box_header (data : list N) : eres (list N * N * list N * list N) :=
  if lenN data <? 8 then EErr
  else
    edo (size, s) <- r_u32 (data, 0);
    edo (name, s) <- r_take 4 s;
    if size =? 1 then EUnmodelled
    else if size =? 0 then EErr
    else if size <? 8 then EErr
    else if size =? 8 then EUnmodelled     (* empty body *)
    else
      let l := fst s in
      if lenN l <? size - 8 then EErr
      else EOk (name, size, firstn (N.to_nat (size - 8)) l, skipn (N.to_nat (size - 8)) l).

Definition list_eqb (a b : list N) : bool :=
  (lenN a =? lenN b) && forallb (fun '(x, y) => x =? y) (combine a b).

(* mp4.DecodeBox(0, r) on the bytes of an mp4a entry *)
Definition decode_entry (data : list N) : eres entry :=
  edo (name, size, body, _) <- decode_box_header data;
  if negb (list_eqb name fourcc_mp4a) then EUnmodelled
  else
    edo (_, s) <- r_take 6 (body, 0);
    edo (dri, s) <- r_u16 s;
    edo (_, s) <- r_take 8 s;
    edo (cc, s) <- r_u16 s;
    edo (ss, s) <- r_u16 s;
    edo (_, s) <- r_take 4 s;
    edo (rate32, s) <- r_u32 s;
    let rate := rate32 / 65536 in
    let remaining := fst s in
    if lenN remaining =? 0 then EUnmodelled          (* no child *)
    else
      edo (cname, csize, cbody, crest) <- decode_box_header remaining;
      if negb (list_eqb cname fourcc_esds) then EUnmodelled
      else
        edo (_, cs) <- r_u32 (cbody, 0);            (* version and flags *)
        edo ((es_ss, dc), cs) <- decode_es cs;
        let pos := 36 + (8 + 4 + es_ss) in           (* pos += box.Size() *)
        if pos =? size then EOk (mkEntry dri cc ss rate dc)
        else if size <? pos then EErr
        else if lenN crest =? 0 then EOk (mkEntry dri cc ss rate dc)   (* next DecodeBox: io.EOF *)
        else EUnmodelled.

(* the configuration a decoded entry carries *)
Definition entry_asc (data : list N) : eres asc :=
  edo e <- decode_entry data;
  match decode_asc (e_dc e) with Ok a => EOk a | _ => EErr end.

(* ------------------------------------------------------------------ the slice-reader decoders *)
(* mp4.DecodeBoxSR / DecodeHeaderSR / DecodeAudioSampleEntrySR / DecodeEsdsSR: one FixedSliceReader
   runs over the whole input; no per-box body slices except for the payload of the esds box (repo fix
   27ea537).  Same modelled path as decode_entry. *)
Definition decode_box_header_sr (s : sr) : eres (list N * N * sr) :=
  edo (size, s) <- r_u32 s;
  edo (name, s) <- r_take 4 s;
  if size =? 1 then EUnmodelled
  else if size =? 0 then EErr
  else if size <? 8 then EErr
  else EOk (name, size, s).

Definition decode_entry_sr (data : list N) : eres entry :=
  edo (name, size, s) <- decode_box_header_sr (data, 0);
  if negb (list_eqb name fourcc_mp4a) then EUnmodelled
  else if lenN (fst s) + 8 <? size then EErr         (* DecodeBoxSR: size too big *)
  else
    edo (_, s) <- r_take 6 s;
    edo (dri, s) <- r_u16 s;
    edo (_, s) <- r_take 8 s;
    edo (cc, s) <- r_u16 s;
    edo (ss, s) <- r_u16 s;
    edo (_, s) <- r_take 4 s;
    edo (rate32, s) <- r_u32 s;
    let rate := rate32 / 65536 in
    if size <=? 36 then EUnmodelled                   (* no child: the loop `for pos < lastPos` does not run *)
    else
      edo (cname, csize, s) <- decode_box_header_sr s;
      if negb (list_eqb cname fourcc_esds) then EUnmodelled
      else if lenN (fst s) + 8 <? csize then EErr
      else
        (* DecodeEsdsSR after repo fix 27ea537: payload := sr.ReadBytes(hdr.payloadLen()); the version/flags
           word and the descriptors are read from a FixedSliceReader of their own over the payload of the
           esds box (as DecodeEsds does), never from the bytes that follow the box *)
        let payload := firstn (N.to_nat (csize - 8)) (fst s) in
        edo (_, ps) <- r_u32 (payload, 0);            (* version and flags *)
        edo ((es_ss, dc), ps) <- decode_es ps;
        let pos := 36 + (8 + 4 + es_ss) in            (* pos += box.Size() *)
        if pos <? size then EUnmodelled               (* another DecodeBoxSR *)
        else EOk (mkEntry dri cc ss rate dc).         (* pos >= lastPos ends the loop, no size check *)

Definition entry_asc_sr (data : list N) : eres asc :=
  edo e <- decode_entry_sr data;
  match decode_asc (e_dc e) with Ok a => EOk a | _ => EErr end.
