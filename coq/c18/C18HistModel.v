(* C18HistModel.v — HISTORIES of the C18 codecs.  Definitions only.

   The property text says "an AAC sample entry built from a configuration decodes back to that
   configuration": for every entry, whenever it is read, whatever was built or encoded before or
   after it.  In the Go code an entry is a heap object holding a []byte (DecSpecificInfo.DecConfig)
   that CreateEsdsBox keeps without copying, so whether a LATER SetAACDescriptor / Encode call can
   change an EARLIER entry is a real question about the code.  In the model an entry is a pure value;
   this file defines the history semantics the correspondence check runs against the real code:

     hop / hstep / hrun        builds (SetAACDescriptor on track trk of init segment ini), encodes of one
                               entry, encodes of a whole init segment (the mp4a boxes found in it, in
                               track order), in any interleaving
     decode_asc_gs             DecodeAudioSpecificConfig with the reader state after the call
     decode_asc_stream         k configurations decoded one after the other from ONE io.Reader (each
                               call makes its own bits.Reader: bits pulled but not used are dropped,
                               bytes not pulled stay)
     decode_adts_stream        the same for DecodeADTSHeader *)
From V.lib Require Import Base.
From V.c18 Require Import C18Model C18EntryModel.

(* ------------------------------------------------------------------ sample-entry histories *)
Inductive hop : Type :=
| HBuild (ini trk ot : N) (f : Z)     (* inits[ini].Moov.Traks[trk].SetAACDescriptor(ot, f) *)
| HEncEntry (idx : nat)               (* entries[idx].Encode(w): the idx-th entry built so far *)
| HEncInit (ini : N).                 (* inits[ini].Encode(w): the mp4a boxes inside, in file order *)

Record hentry := mkH { he_ini : N; he_trk : N; he_ot : N; he_f : Z; he_bytes : list N }.

Inductive hobs : Type :=
| OBuilt
| OBuildErr                            (* SetAACDescriptor returned an error: nothing was added *)
| ONoEntry
| OBytes (l : list (list N)).

Definition track_ids : list N := [0; 1; 2; 3].

(* the entries of one init segment in file order: track by track, within a track in build order
   (stsd.AddChild appends) *)
Definition init_entries (st : list hentry) (ini : N) : list hentry :=
  flat_map (fun t => filter (fun e => (he_ini e =? ini) && (he_trk e =? t)) st) track_ids.

Definition hstep (st : list hentry) (op : hop) : list hentry * hobs :=
  match op with
  | HBuild ini trk ot f =>
      match set_aac_descriptor ot f with
      | Ok bs => (st ++ [mkH ini trk ot f bs], OBuilt)
      | _ => (st, OBuildErr)
      end
  | HEncEntry i =>
      match nth_error st i with
      | Some e => (st, OBytes [he_bytes e])
      | None => (st, ONoEntry)
      end
  | HEncInit ini => (st, OBytes (map he_bytes (init_entries st ini)))
  end.

Fixpoint hrun (ops : list hop) (st : list hentry) : list hentry * list hobs :=
  match ops with
  | [] => (st, [])
  | op :: r =>
      let '(st1, o) := hstep st op in
      let '(st2, os) := hrun r st1 in
      (st2, o :: os)
  end.

(* the (ot, f) of the builds that succeed, in order *)
Fixpoint built (ops : list hop) : list (N * Z) :=
  match ops with
  | [] => []
  | HBuild _ _ ot f :: r =>
      match set_aac_descriptor ot f with
      | Ok _ => (ot, f) :: built r
      | _ => built r
      end
  | _ :: r => built r
  end.

(* ------------------------------------------------------------------ AudioSpecificConfig streams *)
Section GenericReaderS.
Variable St : Type.
Variable rdf : nat -> St -> N * St.
Variable errf : St -> bool.

(* DecodeAudioSpecificConfig as in C18Model.decode_asc_g, returning the reader state as well *)
Definition decode_asc_gs (s0 : St) : res asc * St :=
  let '(aot, s1) := rdf 5 s0 in
  let flags := if aot =? AAClc then Some (false, false)
               else if aot =? HEAACv1 then Some (true, false)
               else if aot =? HEAACv2 then Some (true, true)
               else None in
  match flags with
  | None => (Err, s1)
  | Some (sbr, ps) =>
      let '(fo, s2) := get_frequency_g St rdf errf s1 in
      match fo with
      | None => (Err, s2)
      | Some f =>
          let '(ch, s3) := rdf 4 s2 in
          if (aot =? HEAACv1) || (aot =? HEAACv2) then
            let '(eo, s4) := get_frequency_g St rdf errf s3 in
            match eo with
            | None => (Err, s4)
            | Some e =>
                let '(aot2, s5) := rdf 5 s4 in
                if negb (aot2 =? AAClc) then (Err, s5)
                else let '(_, s6) := rdf 3 s5 in (Ok (mkAsc aot ch f e sbr ps), s6)
            end
          else
            let '(_, s4) := rdf 3 s3 in (Ok (mkAsc aot ch f 0%Z sbr ps), s4)
      end
  end.
End GenericReaderS.

(* the bytes the io.Reader still holds: the bits.Reader pulled whole bytes, so everything but the
   last (unread bits / 8) bytes is gone *)
Definition bytes_left (data : list N) (s : rstate) : list N :=
  skipn (length data - length (rbits s) / 8) data.

(* k calls of DecodeAudioSpecificConfig on one bytes.Reader; per call: result and reader.Len() after it
   (not observed after an error: the sequence stops there) *)
Fixpoint decode_asc_stream (k : nat) (data : list N) : list (res asc * N) :=
  match k with
  | O => []
  | S k' =>
      let '(r, s) := decode_asc_gs rstate rd rerr (rinit data) in
      match r with
      | Ok _ => let rest := bytes_left data s in (r, lenN rest) :: decode_asc_stream k' rest
      | _ => [(r, 0)]
      end
  end.

(* k calls of AudioSpecificConfig.Encode on one writer: failing calls write nothing *)
Fixpoint encode_asc_stream (l : list asc) : list N :=
  match l with
  | [] => []
  | a :: r => match encode_asc a with Ok bs => bs ++ encode_asc_stream r | _ => encode_asc_stream r end
  end.

(* ------------------------------------------------------------------ ADTS header streams *)
(* k calls of DecodeADTSHeader on one bytes.Reader.  A successful call has pulled the junk, the two
   sync bytes and the rest of the header (7 bytes, 9 with a CRC): offset + HeaderLength bytes; the
   correspondence check compares this with reader.Len() of the real reader after every call *)
Fixpoint decode_adts_stream (k : nat) (data : list N) : list (res (adts * Z) * N) :=
  match k with
  | O => []
  | S k' =>
      match decode_adts data with
      | Ok (h, off) =>
          let rest := skipn (Z.to_nat off + N.to_nat (h_hlen h)) data in
          (Ok (h, off), lenN rest) :: decode_adts_stream k' rest
      | r => [(r, 0)]
      end
  end.

(* junk_i ++ header_i back to back *)
Fixpoint encode_adts_stream (l : list (list N * adts)) : list N :=
  match l with
  | [] => []
  | (j, h) :: r => j ++ encode_adts h ++ encode_adts_stream r
  end.
