(* C18TieProofs.v — the bit-list reading of bits.Reader used by the C18 model is tied, by proof, to
   the Go-level reader machine of C13Model (read_plain: the value/n/pos accumulator of bits.Reader
   over a byte slice, 64-bit wrap included):
     - one Read step of the machine and one rd step of the bit-list reader return the same value and
       stay related, on the success path and on the EOF / accumulated-error path;
     - hence the generic decoders (DecodeAudioSpecificConfig, DecodeADTSHeader incl. the sync search)
       instantiated with the machine compute exactly what the bit-list instantiation computes;
     - hence the C18 round-trip theorems hold for the machine-level decoders. *)
From V.lib Require Import Base.
From V.c13 Require C13Model C13Bits C13WriterProofs C13ReaderProofs C13RoundTrip C13PlainProofs.
From V.c18 Require Import C18Model C18BitsProofs.
From V.c18 Require C18AscProofs C18AdtsProofs.

Module G := C13Model.
Module GB := C13Bits.
Module GR := C13ReaderProofs.
Module GP := C13PlainProofs.

(* ---------- vocabulary ---------- *)
Lemma bits_of_to_bits w v : GB.bits_of w v = to_bits w v.
Proof. induction w as [|w IH]; cbn [GB.bits_of to_bits]; [reflexivity|now rewrite IH]. Qed.

Lemma bytes_to_bits_unpack l : GB.bytes_to_bits l = unpack l.
Proof. unfold GB.bytes_to_bits, unpack. apply flat_map_ext. intros a. apply bits_of_to_bits. Qed.

Lemma fold_bit_step l : forall acc,
  fold_left bit_step l acc = acc * 2 ^ N.of_nat (length l) + GB.val_of l.
Proof.
  induction l as [|b t IH]; intros acc.
  - cbn [fold_left length GB.val_of]. change (N.of_nat 0) with 0. rewrite N.pow_0_r. lia.
  - cbn [fold_left length GB.val_of]. rewrite IH. unfold bit_step.
    rewrite Nat2N.inj_succ, N.pow_succ_r'. ring.
Qed.

Lemma val_of_from_bits l : GB.val_of l = from_bits l.
Proof. unfold from_bits. rewrite fold_bit_step. lia. Qed.

Lemma take_bits_short : forall n acc l, (length l < n)%nat -> take_bits n acc l = None.
Proof.
  induction n as [|n IH]; intros acc l H; [lia|].
  destruct l as [|b t]; [reflexivity|]. cbn [take_bits]. apply IH. cbn [length] in H. lia.
Qed.

(* ---------- the machine runs out of data exactly when the bit list is too short ---------- *)
Lemma fill_plain_fail fuel : forall s n,
  GR.RInv s -> n <= 56 -> N.of_nat (length (GP.pbits s)) < n -> n <= G.rn s + 8 * N.of_nat fuel ->
  G.rerr (G.fill false fuel s n) = true.
Proof.
  induction fuel as [|f IH]; intros s n HI Hn Hlen Hfuel.
  - exfalso. unfold GP.pbits in Hlen. rewrite app_length, GB.bits_of_length in Hlen. lia.
  - cbn [G.fill].
    assert (Hrn : G.rn s < n).
    { unfold GP.pbits in Hlen. rewrite app_length, GB.bits_of_length in Hlen. lia. }
    destruct (N.ltb_spec (G.rn s) n) as [_|Hge]; [|lia].
    destruct HI as [He [Hv Hd]]. unfold G.byte_at. cbn [andb].
    destruct (nth_error (G.rdata s) (N.to_nat (G.rpos s))) as [b|] eqn:Eb; [|reflexivity].
    pose proof (GR.nth_error_skipn _ _ _ Eb) as Hsk.
    pose proof (GR.nth_error_Forall _ _ _ _ Hd Eb) as Hb256.
    set (s2 := G.mkR (G.rn s + 8) (N.lor (u64 (N.shiftl (G.rv s) 8)) b) (G.rpos s + 1)
                     (if b =? 0 then G.rzc s + 1 else 0) false (G.rdata s)).
    assert (Hb2 : GP.pbits s2 = GP.pbits s).
    { unfold GP.pbits, s2. cbn [G.rn G.rv G.rpos G.rdata]. rewrite Hsk.
      replace (N.to_nat (G.rpos s + 1)) with (S (N.to_nat (G.rpos s))) by lia.
      replace (N.to_nat (G.rn s + 8)) with (N.to_nat (G.rn s) + 8)%nat by lia.
      rewrite GR.acc_shift_bits by (try exact Hb256; lia).
      unfold GB.bytes_to_bits. cbn [flat_map]. rewrite <- app_assoc. reflexivity. }
    apply IH; [|exact Hn|rewrite Hb2; exact Hlen|unfold s2; cbn [G.rn]; lia].
    unfold GR.RInv, s2. cbn [G.rerr G.rv G.rn G.rdata]. repeat split; [|exact Hd].
    apply GR.acc_shift_lt; [lia|exact Hv|exact Hb256].
Qed.

Lemma read_plain_fail s n :
  GR.RGood s -> n <= 56 -> N.of_nat (length (GP.pbits s)) < n ->
  fst (G.read_plain s n) = 0 /\ G.rerr (snd (G.read_plain s n)) = true.
Proof.
  intros [HI Hn8] Hn Hlen. unfold G.read_plain, G.read_gen. destruct HI as [He [Hv Hd]]. rewrite He.
  assert (Hf : G.rerr (G.fill false (S (N.to_nat (n / 8) + 1)) s n) = true).
  { apply fill_plain_fail; [exact (conj He (conj Hv Hd))|exact Hn|exact Hlen|].
    pose proof (N.div_mod n 8 ltac:(lia)). pose proof (N.mod_lt n 8 ltac:(lia)). lia. }
  rewrite Hf. split; [reflexivity|exact Hf].
Qed.

(* ---------- one Read step ---------- *)
Definition go_rd (n : nat) (s : G.rstate) : N * G.rstate := G.read_plain s (N.of_nat n).

Definition Sim (sg : G.rstate) (sm : rstate) : Prop :=
  G.rerr sg = rerr sm /\ (rerr sm = false -> GR.RGood sg /\ GP.pbits sg = rbits sm).

Lemma sim_step n sg sm :
  (n <= 56)%nat -> Sim sg sm ->
  fst (go_rd n sg) = fst (rd n sm) /\ Sim (snd (go_rd n sg)) (snd (rd n sm)).
Proof.
  intros Hn [He Hg]. unfold go_rd, rd.
  destruct (rerr sm) eqn:Em.
  - (* accumulated error on both sides *)
    unfold G.read_plain, G.read_gen. rewrite He. cbn [fst snd].
    split; [reflexivity|]. split; [now rewrite He, Em|]. intros H. congruence.
  - destruct (Hg eq_refl) as [HG Hb].
    destruct (le_lt_dec n (length (rbits sm))) as [Hle|Hlt].
    + (* enough bits *)
      assert (Hsplit : rbits sm = firstn n (rbits sm) ++ skipn n (rbits sm)) by (symmetry; apply firstn_skipn).
      assert (Hl : length (firstn n (rbits sm)) = N.to_nat (N.of_nat n)).
      { rewrite firstn_length, Nat2N.id. lia. }
      destruct (GP.read_plain_prefix sg (N.of_nat n) (firstn n (rbits sm)) (skipn n (rbits sm)) HG
                  ltac:(lia) ltac:(rewrite Hb; exact Hsplit) Hl) as [s' [Hr [Hb' [HG' _]]]].
      assert (Ht : take_bits n 0 (rbits sm)
                   = Some (fold_left bit_step (firstn n (rbits sm)) 0, skipn n (rbits sm))).
      { rewrite <- (firstn_skipn n (rbits sm)) at 1. apply take_bits_app. rewrite firstn_length. lia. }
      rewrite Hr, Ht.
      cbn [fst snd]. split.
      * rewrite val_of_from_bits. reflexivity.
      * split; [cbn [rerr]; apply HG'|]. intros _. cbn [rbits]. split; assumption.
    + (* EOF *)
      rewrite take_bits_short by exact Hlt. cbn [fst snd].
      destruct (read_plain_fail sg (N.of_nat n) HG ltac:(lia) ltac:(rewrite Hb; lia)) as [H0 H1].
      split; [exact H0|]. split; [cbn [rerr]; exact H1|]. cbn [rerr]. discriminate.
Qed.

Lemma sim_err sg sm : Sim sg sm -> G.rerr sg = rerr sm.
Proof. intros [H _]. exact H. Qed.

Lemma sim_init data : bytes_ok data = true -> Sim (G.rinit data) (rinit data).
Proof.
  intros Hb. split; [reflexivity|]. intros _. split.
  - split; [|cbn [G.rinit G.rn]; lia]. unfold GR.RInv, G.rinit. cbn [G.rerr G.rv G.rn G.rdata].
    split; [reflexivity|]. split; [reflexivity|].
    unfold bytes_ok in Hb. rewrite forallb_forall in Hb. apply Forall_forall. intros x Hx.
    specialize (Hb x Hx). unfold byte_ok in Hb. unfold GR.lt256. lia.
  - unfold GP.pbits, G.rinit, rinit. cbn [G.rn G.rv G.rpos G.rdata rbits N.to_nat GB.bits_of skipn app].
    apply bytes_to_bits_unpack.
Qed.

(* ---------- the generic decoders agree on related readers ---------- *)
Section Simulation.
Variables (St1 St2 : Type).
Variable rd1 : nat -> St1 -> N * St1.
Variable rd2 : nat -> St2 -> N * St2.
Variable err1 : St1 -> bool.
Variable err2 : St2 -> bool.
Variable R : St1 -> St2 -> Prop.
Hypothesis step : forall n s1 s2, (n <= 56)%nat -> R s1 s2 ->
  fst (rd1 n s1) = fst (rd2 n s2) /\ R (snd (rd1 n s1)) (snd (rd2 n s2)).
Hypothesis errs : forall s1 s2, R s1 s2 -> err1 s1 = err2 s2.

Ltac rstep n v a' b' H' :=
  match goal with
  | H : R ?a ?b |- _ =>
      pose proof (step n a b ltac:(lia) H) as H';
      destruct (rd1 n a) as [v a']; destruct (rd2 n b) as [? b'];
      cbn [fst snd] in H'; destruct H' as [<- H']; clear H
  end.

Lemma get_frequency_sim s1 s2 :
  R s1 s2 ->
  fst (get_frequency_g St1 rd1 err1 s1) = fst (get_frequency_g St2 rd2 err2 s2) /\
  R (snd (get_frequency_g St1 rd1 err1 s1)) (snd (get_frequency_g St2 rd2 err2 s2)).
Proof.
  intros H. unfold get_frequency_g. rstep 4%nat idx a1 b1 H1.
  destruct (idx =? 15).
  - rstep 24%nat f a2 b2 H2. rewrite (errs _ _ H2). destruct (err2 b2); cbn [fst snd]; split; auto.
  - rewrite (errs _ _ H1). destruct (err2 b1); cbn [fst snd]; split; auto.
Qed.

Lemma decode_asc_sim s1 s2 :
  R s1 s2 -> decode_asc_g St1 rd1 err1 s1 = decode_asc_g St2 rd2 err2 s2.
Proof.
  intros H. unfold decode_asc_g. rstep 5%nat aot a1 b1 H1.
  destruct (if aot =? AAClc then Some (false, false)
            else if aot =? HEAACv1 then Some (true, false)
            else if aot =? HEAACv2 then Some (true, true) else None) as [[sbr ps]|]; [|reflexivity].
  pose proof (get_frequency_sim _ _ H1) as [Hf H2].
  destruct (get_frequency_g St1 rd1 err1 a1) as [fo1 a2]. destruct (get_frequency_g St2 rd2 err2 b1) as [fo2 b2].
  cbn [fst snd] in Hf, H2. subst fo2. destruct fo1 as [f|]; [|reflexivity].
  clear H1. rstep 4%nat ch a3 b3 H3.
  destruct ((aot =? HEAACv1) || (aot =? HEAACv2)).
  - pose proof (get_frequency_sim _ _ H3) as [Hf H4].
    destruct (get_frequency_g St1 rd1 err1 a3) as [eo1 a4]. destruct (get_frequency_g St2 rd2 err2 b3) as [eo2 b4].
    cbn [fst snd] in Hf, H4. subst eo2. destruct eo1 as [e|]; [|reflexivity].
    clear H3. rstep 5%nat aot2 a5 b5 H5. destruct (negb (aot2 =? AAClc)); [reflexivity|].
    rstep 3%nat ga a6 b6 H6. reflexivity.
  - rstep 3%nat ga a4 b4 H4. reflexivity.
Qed.

Lemma sync_loop_sim : forall fuel s1 s2 sync2 off,
  R s1 s2 ->
  let r1 := sync_loop_g St1 rd1 fuel s1 sync2 off in
  let r2 := sync_loop_g St2 rd2 fuel s2 sync2 off in
  fst r1 = fst r2 /\ R (snd r1) (snd r2).
Proof.
  induction fuel as [|f IH]; intros s1 s2 sync2 off H; cbn [sync_loop_g]; cbv zeta.
  - cbn [fst snd]. split; [reflexivity|exact H].
  - destruct (negb (sync2 =? 255)).
    + rstep 8%nat v a1 b1 H1. destruct (v mod 256 =? 255).
      * rstep 8%nat w a2 b2 H2. destruct (is_sync2 (w mod 256)).
        -- cbn [fst snd]. split; [reflexivity|exact H2].
        -- apply IH. exact H2.
      * apply IH. exact H1.
    + destruct (sync2 =? 255).
      * rstep 8%nat w a2 b2 H2. destruct (is_sync2 (w mod 256)).
        -- cbn [fst snd]. split; [reflexivity|exact H2].
        -- apply IH. exact H2.
      * apply IH. exact H.
Qed.

Lemma decode_after_sync_sim sync2 off s1 s2 :
  R s1 s2 ->
  decode_after_sync_g St1 rd1 err1 sync2 off s1 = decode_after_sync_g St2 rd2 err2 sync2 off s2.
Proof.
  intros H. unfold decode_after_sync_g. cbv zeta.
  destruct (negb (N.land (N.shiftr sync2 1) 3 =? 0)); [reflexivity|].
  rstep 2%nat v1 a1 b1 H1. rstep 4%nat v2 a2 b2 H2. rstep 1%nat v3 a3 b3 H3. rstep 3%nat v4 a4 b4 H4.
  rstep 4%nat v5 a5 b5 H5. rstep 13%nat v6 a6 b6 H6. rstep 11%nat v7 a7 b7 H7. rstep 2%nat v8 a8 b8 H8.
  destruct (negb (v8 =? 0)); [reflexivity|].
  destruct (negb (N.land sync2 1 =? 1)).
  - pose proof (step 16%nat _ _ ltac:(lia) H8) as [_ H9]. rewrite (errs _ _ H9). reflexivity.
  - rewrite (errs _ _ H8). reflexivity.
Qed.

Lemma decode_adts_sim s1 s2 :
  R s1 s2 -> decode_adts_g St1 rd1 err1 s1 = decode_adts_g St2 rd2 err2 s2.
Proof.
  intros H. unfold decode_adts_g.
  pose proof (sync_loop_sim ts_packet_size s1 s2 0 0%Z H) as Hl. cbv zeta in Hl.
  destruct (sync_loop_g St1 rd1 ts_packet_size s1 0 0%Z) as [[[found1 x1] o1] t1].
  destruct (sync_loop_g St2 rd2 ts_packet_size s2 0 0%Z) as [[[found2 x2] o2] t2].
  cbn [fst snd] in Hl. destruct Hl as [Heq Hr]. injection Heq as -> -> ->.
  rewrite (errs _ _ Hr). destruct (err2 t2); [reflexivity|].
  destruct (negb found2); [reflexivity|]. now apply decode_after_sync_sim.
Qed.
End Simulation.

(* ---------- the Go-level decoders ---------- *)
Definition decode_asc_go (data : list N) : res asc :=
  decode_asc_g G.rstate go_rd G.rerr (G.rinit data).
Definition decode_adts_go (data : list N) : res (adts * Z) :=
  decode_adts_g G.rstate go_rd G.rerr (G.rinit data).

Lemma decode_asc_tie data : bytes_ok data = true -> decode_asc_go data = decode_asc data.
Proof.
  intros Hb. unfold decode_asc_go, decode_asc.
  apply (decode_asc_sim _ _ go_rd rd G.rerr rerr Sim).
  - intros n s1 s2 Hn Hs. now apply sim_step.
  - apply sim_err.
  - now apply sim_init.
Qed.

Lemma decode_adts_tie data : bytes_ok data = true -> decode_adts_go data = decode_adts data.
Proof.
  intros Hb. unfold decode_adts_go, decode_adts.
  apply (decode_adts_sim _ _ go_rd rd G.rerr rerr Sim).
  - intros n s1 s2 Hn Hs. now apply sim_step.
  - apply sim_err.
  - now apply sim_init.
Qed.

(* ================================================================== writer side *)
Module GW := C13WriterProofs.

(* the Go-level writer machine (bits.Writer over a byte sink) running a list of Write(v, w) calls *)
Definition go_write_state (fs : list (N * N)) (s : G.wstate) : G.wstate :=
  fold_left (fun s '(v, w) => G.write_plain s v w) fs s.
Definition go_write (fs : list (N * N)) (do_flush : bool) : list N :=
  let s := go_write_state fs G.winit in
  G.wout (if do_flush then G.flush_plain s else s).

Definition field_bits (fs : list (N * N)) : list bool :=
  concat (map (fun '(v, w) => to_bits (N.to_nat w) v) fs).
Definition widths_ok (fs : list (N * N)) : bool := forallb (fun '(_, w) => w <=? 56) fs.

Lemma pending_length s : length (GW.pending s) = N.to_nat (G.wn s).
Proof. unfold GW.pending. apply GB.bits_of_length. Qed.

Lemma go_writer_stream : forall fs s raw,
  widths_ok fs = true -> GW.WInv false s raw ->
  exists raw', GW.WInv false (go_write_state fs s) raw' /\
    unpack raw' ++ GW.pending (go_write_state fs s) = (unpack raw ++ GW.pending s) ++ field_bits fs.
Proof.
  induction fs as [|[v w] t IH]; intros s raw Hw HI.
  - exists raw. split; [exact HI|]. unfold field_bits. cbn [map concat go_write_state fold_left].
    now rewrite app_nil_r.
  - cbn [widths_ok forallb] in Hw. apply andb_prop in Hw. destruct Hw as [Hw Ht]. apply N.leb_le in Hw.
    destruct (C13RoundTrip.plain_writer_stream s raw v w HI Hw) as [raw1 [HI1 Hs1]].
    destruct (IH (G.write_plain s v w) raw1 Ht HI1) as [raw2 [HI2 Hs2]].
    exists raw2. split; [exact HI2|].
    cbn [go_write_state fold_left]. fold (go_write_state t (G.write_plain s v w)).
    rewrite Hs2. rewrite !bytes_to_bits_unpack in Hs1. rewrite Hs1.
    unfold field_bits. cbn [map concat]. rewrite bits_of_to_bits, <- !app_assoc. reflexivity.
Qed.

Lemma from_to_bits8 b : b < 256 -> from_bits (to_bits 8 b) = b.
Proof.
  intros H. unfold from_bits. rewrite fold_to_bits. change (2 ^ N.of_nat 8) with 256.
  rewrite N.mod_small by exact H. lia.
Qed.

Lemma pack_short p : (length p < 8)%nat -> pack p = [].
Proof. intros H. do 8 (destruct p as [|? p]; [reflexivity|]). cbn [length] in H. lia. Qed.

Lemma pack_unpack_app : forall raw p,
  bytes_ok raw = true -> (length p < 8)%nat -> pack (unpack raw ++ p) = raw.
Proof.
  induction raw as [|b raw IH]; intros p Hb Hp.
  - cbn [unpack flat_map app]. now apply pack_short.
  - rewrite bytes_ok_cons in Hb. apply andb_prop in Hb. destruct Hb as [Hb Hr].
    unfold byte_ok in Hb. apply N.ltb_lt in Hb.
    rewrite unpack_cons, <- app_assoc. cbn [to_bits app pack].
    change (from_bits _) with (from_bits (to_bits 8 b)). rewrite from_to_bits8 by exact Hb.
    f_equal. now apply IH.
Qed.

Lemma Forall_lt256_bytes_ok l : Forall (fun b => b < 256) l -> bytes_ok l = true.
Proof.
  intros H. unfold bytes_ok. apply forallb_forall. intros x Hx.
  rewrite Forall_forall in H. specialize (H x Hx). unfold byte_ok. lia.
Qed.

Lemma wout_raw s raw : GW.WInv false s raw -> G.wout s = raw.
Proof. intros [_ [_ H]]. unfold G.wout. rewrite H. apply rev_involutive. Qed.

Lemma zeros_to_bits k : to_bits k 0 = repeat false k.
Proof. induction k as [|k IH]; [reflexivity|]. cbn [to_bits repeat]. now rewrite N.bits_0, IH. Qed.

(* without Flush: the bytes that have left the writer are the packed complete bytes *)
Lemma go_write_noflush fs :
  widths_ok fs = true -> go_write fs false = pack (field_bits fs).
Proof.
  intros Hw. unfold go_write. cbv zeta.
  destruct (go_writer_stream fs G.winit [] Hw (GW.WInv_init false)) as [raw [HI Hs]].
  cbn [unpack flat_map app] in Hs. change (GW.pending G.winit) with (@nil bool) in Hs. cbn [app] in Hs.
  rewrite <- Hs. rewrite (wout_raw _ _ HI). symmetry. apply pack_unpack_app.
  - apply Forall_lt256_bytes_ok. apply HI.
  - rewrite pending_length. destruct HI as [Hn _]. lia.
Qed.

(* with Flush: the last partial byte is padded with zeros *)
Lemma go_write_flush fs :
  widths_ok fs = true -> go_write fs true = pack (flush (field_bits fs)).
Proof.
  intros Hw. unfold go_write. cbv zeta.
  destruct (go_writer_stream fs G.winit [] Hw (GW.WInv_init false)) as [raw [HI Hs]].
  cbn [unpack flat_map app] in Hs. change (GW.pending G.winit) with (@nil bool) in Hs. cbn [app] in Hs.
  set (s := go_write_state fs G.winit) in *.
  pose proof (wout_raw _ _ HI) as Hout.
  assert (Hraw : bytes_ok raw = true) by (apply Forall_lt256_bytes_ok; apply HI).
  assert (Hlen : length (field_bits fs) = (8 * length raw + N.to_nat (G.wn s))%nat).
  { rewrite <- Hs, app_length, pending_length. f_equal.
    rewrite <- bytes_to_bits_unpack. apply GB.bytes_to_bits_length. }
  destruct HI as [Hn8 [Hlt Hrev]].
  unfold G.flush_plain. destruct (N.eqb_spec (G.wn s) 0) as [E|E].
  - rewrite Hout. unfold flush, pad_len. rewrite Hlen, E.
    replace ((8 - (8 * length raw + N.to_nat 0) mod 8) mod 8)%nat with 0%nat by lia.
    cbn [repeat]. rewrite app_nil_r, <- Hs.
    symmetry. apply pack_unpack_app; [exact Hraw|]. rewrite pending_length. lia.
  - unfold G.wout. cbn [G.wrev]. rewrite Hrev. cbn [rev]. rewrite rev_involutive.
    set (B := N.land (N.shiftl (G.wv s) (8 - G.wn s)) 255).
    assert (HB : to_bits 8 B = GW.pending s ++ repeat false (8 - N.to_nat (G.wn s))).
    { rewrite <- zeros_to_bits, <- !bits_of_to_bits. unfold GW.pending.
      replace 8%nat with (N.to_nat (G.wn s) + (8 - N.to_nat (G.wn s)))%nat at 1 by lia.
      apply GB.bits_of_app_ext.
      * intros i Hi. unfold B. rewrite N.land_spec. change 255 with (N.ones 8).
        rewrite N.ones_spec_low by lia. rewrite andb_true_r.
        rewrite N.shiftl_spec_low by lia. rewrite N.bits_0. reflexivity.
      * intros i Hi. unfold B. rewrite N.land_spec. change 255 with (N.ones 8).
        rewrite N.ones_spec_low by lia. rewrite andb_true_r.
        rewrite N.shiftl_spec_high' by lia. f_equal. lia. }
    unfold flush, pad_len. rewrite Hlen.
    replace ((8 - (8 * length raw + N.to_nat (G.wn s)) mod 8) mod 8)%nat with (8 - N.to_nat (G.wn s))%nat by lia.
    rewrite <- Hs, <- app_assoc, <- HB.
    replace (unpack raw ++ to_bits 8 B) with (unpack (raw ++ [B]) ++ []).
    2:{ rewrite unpack_app, app_nil_r. cbn [unpack flat_map]. now rewrite app_nil_r. }
    symmetry. apply pack_unpack_app; [|cbn [length]; lia].
    rewrite bytes_ok_app, Hraw. cbn [andb bytes_ok forallb]. unfold byte_ok, B.
    rewrite land_255. rewrite andb_true_r. apply N.ltb_lt. apply N.mod_lt. lia.
Qed.

(* ---------- the Write calls of the two encoders ---------- *)
Definition freq_fields (f : Z) : list (N * N) :=
  match index_of_freq f with
  | Some i => [(i, 4)]
  | None => [(15, 4); (uint_of_int f, 24)]
  end.

(* func (a *AudioSpecificConfig) Encode: the sequence of bw.Write calls *)
Definition asc_fields (a : asc) : list (N * N) :=
  [(a_ot a, 5)] ++ freq_fields (a_freq a) ++ [(a_chan a, 4)]
  ++ (if (a_ot a =? HEAACv1) || (a_ot a =? HEAACv2) then freq_fields (a_ext a) ++ [(AAClc, 5)] else [])
  ++ [(0, 3)].

(* func (a ADTSHeader) Encode: the sequence of bw.Write calls *)
Definition adts_fields (h : adts) : list (N * N) :=
  [(4095, 12); (1, 4); (u64 (h_ot h + 18446744073709551615), 2); (h_sfi h, 4); (0, 1); (h_chan h, 3); (0, 4);
   (u16 (h_plen h + 7), 13); (h_bf h, 11); (0, 2)].

Lemma freq_fields_bits f : field_bits (freq_fields f) = freq_field f.
Proof.
  unfold freq_fields, freq_field, field_bits. destruct (index_of_freq f); cbn [map concat N.to_nat Pos.to_nat Pos.iter_op Nat.add];
    now rewrite ?app_nil_r.
Qed.

Lemma field_bits_app a b : field_bits (a ++ b) = field_bits a ++ field_bits b.
Proof. unfold field_bits. now rewrite map_app, concat_app. Qed.

Lemma field_bits_one v w : field_bits [(v, w)] = to_bits (N.to_nat w) v.
Proof. unfold field_bits. cbn [map concat]. apply app_nil_r. Qed.

Lemma asc_fields_bits a : field_bits (asc_fields a) = asc_bits a.
Proof.
  unfold asc_fields, asc_bits. rewrite !field_bits_app, !field_bits_one, freq_fields_bits.
  destruct ((a_ot a =? HEAACv1) || (a_ot a =? HEAACv2)).
  - rewrite field_bits_app, field_bits_one, freq_fields_bits. rewrite <- !app_assoc. reflexivity.
  - change (field_bits []) with (@nil bool). cbn [app]. rewrite <- !app_assoc. reflexivity.
Qed.

Lemma adts_fields_bits h : field_bits (adts_fields h) = adts_bits h.
Proof. unfold adts_fields, adts_bits, field_bits. cbn [map concat]. now rewrite app_nil_r. Qed.

Lemma freq_fields_widths f : widths_ok (freq_fields f) = true.
Proof. unfold freq_fields. destruct (index_of_freq f); reflexivity. Qed.

Lemma asc_fields_widths a : widths_ok (asc_fields a) = true.
Proof.
  unfold asc_fields, widths_ok. rewrite !forallb_app. fold (widths_ok (freq_fields (a_freq a))).
  rewrite freq_fields_widths. destruct (_ || _).
  - rewrite forallb_app. fold (widths_ok (freq_fields (a_ext a))). rewrite freq_fields_widths. reflexivity.
  - reflexivity.
Qed.

(* the bytes the machine-level bits.Writer emits for the two encoders are the model's bytes *)
Lemma encode_asc_tie a bs : encode_asc a = Ok bs -> go_write (asc_fields a) true = bs.
Proof.
  unfold encode_asc. destruct (_ || _ || _); [|discriminate]. intros [= <-].
  rewrite go_write_flush by apply asc_fields_widths. now rewrite asc_fields_bits.
Qed.

Lemma encode_adts_tie h : go_write (adts_fields h) false = encode_adts h.
Proof. rewrite go_write_noflush by reflexivity. now rewrite adts_fields_bits. Qed.

(* ================================================================== the property at machine level *)
Lemma asc_roundtrip_machine a bs :
  canonical a = true -> encode_asc a = Ok bs ->
  go_write (asc_fields a) true = bs /\ decode_asc_go bs = Ok a.
Proof.
  intros Hc He. split; [now apply encode_asc_tie|].
  pose proof (C18AscProofs.asc_roundtrip a Hc) as H. rewrite He in H. cbn [rbind] in H.
  rewrite decode_asc_tie; [exact H|].
  unfold encode_asc in He. destruct (_ || _ || _); [|discriminate]. injection He as <-. apply pack_bytes_ok.
Qed.

Lemma adts_sync_offset_machine junk h rest :
  (length junk <= 187)%nat -> bytes_ok junk = true -> no_sync_in junk = true -> bytes_ok rest = true ->
  adts_canonical h = true ->
  decode_adts_go (junk ++ go_write (adts_fields h) false ++ rest) = Ok (h, Z.of_nat (length junk)).
Proof.
  intros Hl Hb Hn Hr Hc. rewrite encode_adts_tie.
  rewrite decode_adts_tie.
  - now apply C18AdtsProofs.adts_sync_offset.
  - rewrite !bytes_ok_app, Hb, Hr. unfold encode_adts. now rewrite pack_bytes_ok.
Qed.
