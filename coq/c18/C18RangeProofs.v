(* C18RangeProofs.v — the well-formedness hypotheses of the round-trip theorems are invariants of the
   decoders: every configuration DecodeAudioSpecificConfig can return, on ANY input, is canonical (so the
   round-trip theorem applies to it: it re-encodes and decodes to itself), and canonical is exactly the range
   of the decoder.  Every header DecodeADTSHeader can return that is MPEG-4 / CRC-less with a frame length
   of at least the header length is canonical; the last guard is sharp (a frame length below 7 wraps the
   uint16 payload length). *)
From V.lib Require Import Base.
From V.c18 Require Import C18Model C18BitsProofs C18AscProofs C18AdtsProofs.

(* ---------- Read(n) returns an n-bit value, whatever the reader state ---------- *)
Lemma take_bits_bound : forall w acc l v t,
  take_bits w acc l = Some (v, t) -> v < (acc + 1) * 2 ^ N.of_nat w.
Proof.
  induction w as [|w IH]; intros acc l v t H.
  - cbn [take_bits] in H. inversion H; subst. change (N.of_nat 0) with 0. rewrite N.pow_0_r. lia.
  - cbn [take_bits] in H. destruct l as [|b l]; [discriminate|].
    apply IH in H. rewrite Nnat.Nat2N.inj_succ, N.pow_succ_r'.
    unfold bit_step in H. destruct b; cbn [N.b2n] in H; nia.
Qed.

Lemma rd_bound n s : fst (rd n s) < 2 ^ N.of_nat n.
Proof.
  unfold rd. destruct (rerr s).
  - cbn [fst]. apply N.neq_0_lt_0. apply N.pow_nonzero. discriminate.
  - destruct (take_bits n 0 (rbits s)) as [[v t]|] eqn:E; cbn [fst].
    + apply take_bits_bound in E. lia.
    + apply N.neq_0_lt_0. apply N.pow_nonzero. discriminate.
Qed.

Lemma rd_bound_eq n s v s' : rd n s = (v, s') -> v < 2 ^ N.of_nat n.
Proof. intros H. pose proof (rd_bound n s) as B. rewrite H in B. exact B. Qed.

(* ---------- AudioSpecificConfig ---------- *)
Lemma freq_of_index_ok i f : freq_of_index i = Some f -> freq_ok f = true.
Proof.
  unfold freq_of_index, frequency_table. cbn [lookup_idx].
  repeat (match goal with |- context [?k =? i] => destruct (k =? i) end;
          [intros [= <-]; reflexivity|]).
  discriminate.
Qed.

Lemma get_frequency_ok s f s' : get_frequency s = (Some f, s') -> freq_ok f = true.
Proof.
  unfold get_frequency_g. destruct (rd 4 s) as [idx s1].
  destruct (idx =? 15).
  - destruct (rd 24 s1) as [v s2] eqn:E. destruct (rerr s2); [discriminate|].
    intros [= <- _]. apply rd_bound_eq in E.
    change (2 ^ N.of_nat 24) with 16777216 in E. unfold freq_ok. lia.
  - destruct (rerr s1); [discriminate|]. intros [= H _]. now apply freq_of_index_ok in H.
Qed.

(* the decoder's results are inside the domain of the round-trip theorem, for every input *)
Lemma decode_asc_canonical data a : decode_asc data = Ok a -> canonical a = true.
Proof.
  unfold decode_asc, decode_asc_g.
  destruct (rd 5 (rinit data)) as [aot s1].
  destruct (aot =? AAClc) eqn:EL.
  - apply N.eqb_eq in EL. subst aot.
    destruct (get_frequency s1) as [[f|] s2] eqn:EF; [|discriminate].
    destruct (rd 4 s2) as [ch s3] eqn:EC.
    change ((AAClc =? HEAACv1) || (AAClc =? HEAACv2)) with false. cbv beta iota.
    destruct (rd 3 s3). intros [= <-].
    apply get_frequency_ok in EF. apply rd_bound_eq in EC. change (2 ^ N.of_nat 4) with 16 in EC.
    unfold canonical. cbn [a_ot a_chan a_freq a_ext a_sbr a_ps]. rewrite EF.
    change (AAClc =? AAClc) with true. change (AAClc =? HEAACv2) with false.
    replace (ch <? 16) with true by (symmetry; apply N.ltb_lt; lia). reflexivity.
  - destruct (aot =? HEAACv1) eqn:E1.
    + apply N.eqb_eq in E1. subst aot.
      destruct (get_frequency s1) as [[f|] s2] eqn:EF; [|discriminate].
      destruct (rd 4 s2) as [ch s3] eqn:EC.
      change ((HEAACv1 =? HEAACv1) || (HEAACv1 =? HEAACv2)) with true. cbv beta iota.
      destruct (get_frequency s3) as [[e|] s4] eqn:EE; [|discriminate].
      destruct (rd 5 s4) as [aot2 s5]. destruct (negb (aot2 =? AAClc)); [discriminate|].
      destruct (rd 3 s5). intros [= <-].
      apply get_frequency_ok in EF. apply get_frequency_ok in EE.
      apply rd_bound_eq in EC. change (2 ^ N.of_nat 4) with 16 in EC.
      unfold canonical. cbn [a_ot a_chan a_freq a_ext a_sbr a_ps]. rewrite EF, EE.
      change (HEAACv1 =? AAClc) with false. change (HEAACv1 =? HEAACv1) with true.
      change (HEAACv1 =? HEAACv2) with false.
      replace (ch <? 16) with true by (symmetry; apply N.ltb_lt; lia). reflexivity.
    + destruct (aot =? HEAACv2) eqn:E2; [|discriminate].
      apply N.eqb_eq in E2. subst aot.
      destruct (get_frequency s1) as [[f|] s2] eqn:EF; [|discriminate].
      destruct (rd 4 s2) as [ch s3] eqn:EC.
      change ((HEAACv2 =? HEAACv1) || (HEAACv2 =? HEAACv2)) with true. cbv beta iota.
      destruct (get_frequency s3) as [[e|] s4] eqn:EE; [|discriminate].
      destruct (rd 5 s4) as [aot2 s5]. destruct (negb (aot2 =? AAClc)); [discriminate|].
      destruct (rd 3 s5). intros [= <-].
      apply get_frequency_ok in EF. apply get_frequency_ok in EE.
      apply rd_bound_eq in EC. change (2 ^ N.of_nat 4) with 16 in EC.
      unfold canonical. cbn [a_ot a_chan a_freq a_ext a_sbr a_ps]. rewrite EF, EE.
      change (HEAACv2 =? AAClc) with false. change (HEAACv2 =? HEAACv1) with false.
      change (HEAACv2 =? HEAACv2) with true.
      replace (ch <? 16) with true by (symmetry; apply N.ltb_lt; lia). reflexivity.
Qed.

(* decode ; encode ; decode = decode: whatever bytes the decoder accepted, the configuration it returned
   is one Encode writes and the decoder reads back as itself *)
Lemma decode_asc_reencode data a :
  decode_asc data = Ok a -> rbind (encode_asc a) decode_asc = Ok a.
Proof. intros H. apply asc_roundtrip. now apply decode_asc_canonical in H. Qed.

(* canonical is not a modelling choice: it is exactly the set of configurations the decoder can return *)
Lemma canonical_is_decoder_range a :
  canonical a = true <-> exists data, bytes_ok data = true /\ decode_asc data = Ok a.
Proof.
  split.
  - intros Hc. pose proof (asc_roundtrip a Hc) as R.
    unfold encode_asc in *. destruct (_ || _ || _); [|discriminate].
    cbn [rbind] in R. eexists. split; [apply pack_bytes_ok|exact R].
  - intros [data [_ H]]. now apply decode_asc_canonical in H.
Qed.

(* ---------- ADTS header ---------- *)
Lemma decode_adts_canonical data h off :
  decode_adts data = Ok (h, off) ->
  h_id h = 0 -> h_hlen h = 7 -> h_plen h <= 8184 -> adts_canonical h = true.
Proof.
  unfold decode_adts, decode_adts_g.
  destruct (sync_loop ts_packet_size (rinit data) 0 0%Z) as [[[found sync2] offset] s].
  destruct (rerr s); [discriminate|]. destruct (negb found); [discriminate|].
  rewrite decode_after_sync_eq. cbv zeta.
  destruct (negb (N.land (N.shiftr sync2 1) 3 =? 0)); [discriminate|].
  destruct (rd 2 s) as [profile s1] eqn:R1.
  destruct (rd 4 s1) as [sfi s2] eqn:R2.
  destruct (rd 1 s2) as [x3 s3].
  destruct (rd 3 s3) as [chan s4] eqn:R4.
  destruct (rd 4 s4) as [x5 s5].
  destruct (rd 13 s5) as [flen s6].
  destruct (rd 11 s6) as [bf s7] eqn:R7.
  destruct (rd 2 s7) as [nrb s8].
  destruct (negb (nrb =? 0)); [discriminate|].
  match goal with |- (if rerr ?S then _ else _) = _ -> _ => destruct (rerr S); [discriminate|] end.
  intros [= <- _]. cbn [h_id h_ot h_sfi h_chan h_hlen h_plen h_bf]. intros Hid Hhl Hpl.
  apply rd_bound_eq in R1, R2, R4, R7.
  change (2 ^ N.of_nat 2) with 4 in R1. change (2 ^ N.of_nat 4) with 16 in R2.
  change (2 ^ N.of_nat 3) with 8 in R4. change (2 ^ N.of_nat 11) with 2048 in R7.
  unfold adts_canonical. cbn [h_id h_ot h_sfi h_chan h_hlen h_plen h_bf].
  rewrite Hid, Hhl. change (0 =? 0) with true. change (7 =? 7) with true. cbn [andb].
  unfold u8, u16 in *.
  repeat (apply andb_true_intro; split);
    try (apply N.leb_le); try (apply N.ltb_lt); try lia.
Qed.

(* any such header the decoder returned, from whatever bytes and at whatever offset, re-encodes to 7 bytes
   the decoder reads back as the same header at offset 0 *)
Lemma decode_adts_reencode data h off rest :
  decode_adts data = Ok (h, off) ->
  h_id h = 0 -> h_hlen h = 7 -> h_plen h <= 8184 ->
  decode_adts (encode_adts h ++ rest) = Ok (h, 0%Z).
Proof. intros H Hi Hh Hp. apply adts_roundtrip. exact (decode_adts_canonical data h off H Hi Hh Hp). Qed.

(* the payload-length guard is needed: an MPEG-4, CRC-less header announcing a frame length of 0 (< 7 header
   bytes) is accepted and reported with PayloadLength 65529 = uint16(0 - 7) (malformed input: outside the
   domain the property quantifies over) *)
Lemma decode_adts_short_frame_wraps :
  exists data h off,
    bytes_ok data = true /\ decode_adts data = Ok (h, off) /\ h_id h = 0 /\ h_hlen h = 7 /\ h_plen h = 65529.
Proof.
  exists [255; 241; 76; 128; 0; 31; 252]. eexists. eexists.
  split; [reflexivity|]. split; [vm_compute; reflexivity|]. repeat split.
Qed.
