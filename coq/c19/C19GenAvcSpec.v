(* SNAPSHOT: verbatim copy of coq/c15/C15Spec.v at /verif commit aed99b9 (only this banner and the import lines differ).
   Used by C19 only for the extracted parameter-set serialisers of the driver's GEN mode; frozen so that concurrent
   work on C15 (slice headers, guards) cannot break C19's build.  To follow C15 again: delete the four C19Gen*.v files and
   import V.c15 C15Model C15Spec C15HevcModel C15HevcSpec in C19Extract.v (and open them in ocaml/c19_driver.ml). *)
(* C15Spec.v — INDEPENDENT serialisers written from the syntax tables of ISO/IEC 14496-10
   (7.3.2.1.1 seq_parameter_set_data, E.1.1 vui_parameters, E.1.2 hrd_parameters, 7.3.2.1.1.1
   scaling_list), the descriptors u(n)/ue(v)/se(v) of clause 9.1, the derived quantities
   (cropping formula 7.4.2.1.1, Table E-1) and the expected parse results.  Definitions only.
   These are the reading of the standard and belong to the trusted base. *)
From V.lib Require Import Base.
From V.c13 Require Import C13Spec.
From V.c19 Require Import C19GenAvcModel.

(* ------------------------------------------------------------------ descriptors (9.1) *)
(* u(n): n bits, most significant first *)
Fixpoint ubits (n : nat) (v : N) : list bool :=
  match n with O => [] | S k => N.testbit v (N.of_nat k) :: ubits k v end.
Definition u (n : N) (v : N) : list bool := ubits (N.to_nat n) v.

(* ue(v): leadingZeroBits zeros, a one, then leadingZeroBits info bits;
   codeNum = 2^lz - 1 + info *)
Definition ue_bits (v : N) : list bool :=
  let k := N.log2 (v + 1) in
  repeat false (N.to_nat k) ++ [true] ++ u k (v + 1 - 2 ^ k).

(* se(v): Table 9-3, codeNum k -> (-1)^(k+1) Ceil(k/2) *)
Definition se_code (k : Z) : N :=
  match k with Z0 => 0 | Zpos p => 2 * Npos p - 1 | Zneg p => 2 * Npos p end.
Definition se_bits (k : Z) : list bool := ue_bits (se_code k).

Definition fl (b : bool) : list bool := [b].
Definition opt_bits (c : bool) (l : list bool) : list bool := if c then l else [].

(* ------------------------------------------------------------------ bits <-> bytes, NAL unit *)
Fixpoint bytes_of_bits (l : list bool) : list N :=
  match l with
  | b7 :: b6 :: b5 :: b4 :: b3 :: b2 :: b1 :: b0 :: t =>
      (128 * b2n b7 + 64 * b2n b6 + 32 * b2n b5 + 16 * b2n b4
       + 8 * b2n b3 + 4 * b2n b2 + 2 * b2n b1 + b2n b0) :: bytes_of_bits t
  | _ => []
  end.

(* rbsp_trailing_bits (7.3.2.11) after n bits *)
Definition trailing_bits (n : N) : list bool :=
  true :: repeat false (N.to_nat ((8 - (n + 1) mod 8) mod 8)).

(* nal_unit header (7.3.1): forbidden_zero_bit, nal_ref_idc u(2), nal_unit_type u(5) *)
Definition nal_header (ref_idc typ : N) : list bool := [false] ++ u 2 ref_idc ++ u 5 typ.

(* the unescaped bytes and the NAL unit carrying `payload` *)
Definition raw_nalu (ref_idc typ : N) (payload : list bool) : list N :=
  let b := nal_header ref_idc typ ++ payload in
  bytes_of_bits (b ++ trailing_bits (lenN b)).
Definition nalu_of (ref_idc typ : N) (payload : list bool) : list N :=
  escape (raw_nalu ref_idc typ payload).

(* ------------------------------------------------------------------ scaling_list (7.3.2.1.1.1) *)
(* the coded values are the delta_scale elements; the list is derived from them.  None if the
   number of deltas does not fit the derivation. *)
Fixpoint scaling_derive (n : nat) (last next : Z) (ds : list Z) : option (list Z) :=
  match n with
  | O => match ds with [] => Some [] | _ => None end
  | S k =>
      if (next =? 0)%Z
      then option_map (cons last) (scaling_derive k last 0 ds)
      else match ds with
           | [] => None
           | d :: ds' =>
               let next' := ((last + d + 256) mod 256)%Z in
               let x := if (next' =? 0)%Z then last else next' in
               option_map (cons x) (scaling_derive k x next' ds')
           end
  end.

Definition delta_ok (d : Z) : bool := (-128 <=? d)%Z && (d <=? 127)%Z.

Definition scaling_size (i : N) : nat := if i <? 6 then 16%nat else 64%nat.

(* one entry of the list loop: present flag + deltas *)
Definition ser_scaling_entry (o : option (list Z)) : list bool :=
  match o with None => [false] | Some ds => true :: flat_map se_bits ds end.
Definition ser_scaling_lists (l : list (option (list Z))) : list bool :=
  flat_map ser_scaling_entry l.

Fixpoint scaling_lists_valid (i : N) (l : list (option (list Z))) : bool :=
  match l with
  | [] => true
  | None :: t => scaling_lists_valid (i + 1) t
  | Some ds :: t =>
      forallb delta_ok ds
      && (match scaling_derive (scaling_size i) 8 8 ds with Some _ => true | None => false end)
      && scaling_lists_valid (i + 1) t
  end.

Fixpoint expected_scaling_lists (i : N) (l : list (option (list Z))) : list (option (list Z)) :=
  match l with
  | [] => []
  | None :: t => None :: expected_scaling_lists (i + 1) t
  | Some ds :: t => scaling_derive (scaling_size i) 8 8 ds :: expected_scaling_lists (i + 1) t
  end.

(* ------------------------------------------------------------------ hrd_parameters (E.1.2) *)
Record hrd_syntax := mkHrdSyn {
  cpb_cnt_minus1 : N; bit_rate_scale : N; cpb_size_scale : N;
  cpb_list : list (N * N * bool);      (* bit_rate_value_minus1, cpb_size_value_minus1, cbr_flag *)
  initial_cpb_removal_delay_length_minus1 : N; cpb_removal_delay_length_minus1 : N;
  dpb_output_delay_length_minus1 : N; time_offset_length : N }.

Definition ser_cpb (e : N * N * bool) : list bool :=
  let '(a, b, c) := e in ue_bits a ++ ue_bits b ++ fl c.

Definition ser_hrd (h : hrd_syntax) : list bool :=
  ue_bits (cpb_cnt_minus1 h) ++ u 4 (bit_rate_scale h) ++ u 4 (cpb_size_scale h)
  ++ flat_map ser_cpb (cpb_list h)
  ++ u 5 (initial_cpb_removal_delay_length_minus1 h) ++ u 5 (cpb_removal_delay_length_minus1 h)
  ++ u 5 (dpb_output_delay_length_minus1 h) ++ u 5 (time_offset_length h).

Definition ue_ok (v : N) : bool := v <? 4294967295.            (* 0 .. 2^32 - 2 *)

Definition hrd_valid (h : hrd_syntax) : bool :=
  (cpb_cnt_minus1 h <=? 31) && (lenN (cpb_list h) =? cpb_cnt_minus1 h + 1)
  && (bit_rate_scale h <? 16) && (cpb_size_scale h <? 16)
  && forallb (fun e => let '(a, b, _) := e in ue_ok a && ue_ok b) (cpb_list h)
  && (initial_cpb_removal_delay_length_minus1 h <? 32) && (cpb_removal_delay_length_minus1 h <? 32)
  && (dpb_output_delay_length_minus1 h <? 32) && (time_offset_length h <? 32).

Definition expected_hrd (h : hrd_syntax) : hrd :=
  mkHrd (cpb_cnt_minus1 h) (bit_rate_scale h) (cpb_size_scale h)
        (map (fun e => let '(a, b, c) := e in mkCpb a b c) (cpb_list h))
        (initial_cpb_removal_delay_length_minus1 h) (cpb_removal_delay_length_minus1 h)
        (dpb_output_delay_length_minus1 h) (time_offset_length h).

(* ------------------------------------------------------------------ vui_parameters (E.1.1) *)
Record vui_syntax := mkVuiSyn {
  aspect_ratio_info_present_flag : bool; aspect_ratio_idc : N; sar_width : N; sar_height : N;
  overscan_info_present_flag : bool; overscan_appropriate_flag : bool;
  video_signal_type_present_flag : bool; video_format : N; video_full_range_flag : bool;
  colour_description_present_flag : bool; colour_primaries : N; transfer_characteristics : N;
  matrix_coefficients : N;
  chroma_loc_info_present_flag : bool; chroma_sample_loc_type_top_field : N;
  chroma_sample_loc_type_bottom_field : N;
  timing_info_present_flag : bool; num_units_in_tick : N; time_scale : N; fixed_frame_rate_flag : bool;
  nal_hrd_parameters_present_flag : bool; nal_hrd : hrd_syntax;
  vcl_hrd_parameters_present_flag : bool; vcl_hrd : hrd_syntax;
  low_delay_hrd_flag : bool; pic_struct_present_flag : bool;
  bitstream_restriction_flag : bool; motion_vectors_over_pic_boundaries_flag : bool;
  max_bytes_per_pic_denom : N; max_bits_per_mb_denom : N;
  log2_max_mv_length_horizontal : N; log2_max_mv_length_vertical : N;
  max_num_reorder_frames : N; max_dec_frame_buffering : N }.

(* the part of the VUI that ParseSPSNALUnit(…, false) reads *)
Definition ser_vui_sar (x : vui_syntax) : list bool :=
  fl (aspect_ratio_info_present_flag x)
  ++ opt_bits (aspect_ratio_info_present_flag x)
       (u 8 (aspect_ratio_idc x)
        ++ opt_bits (aspect_ratio_idc x =? 255) (u 16 (sar_width x) ++ u 16 (sar_height x))).

Definition ser_vui_rest (x : vui_syntax) : list bool :=
  fl (overscan_info_present_flag x)
  ++ opt_bits (overscan_info_present_flag x) (fl (overscan_appropriate_flag x))
  ++ fl (video_signal_type_present_flag x)
  ++ opt_bits (video_signal_type_present_flag x)
       (u 3 (video_format x) ++ fl (video_full_range_flag x)
        ++ fl (colour_description_present_flag x)
        ++ opt_bits (colour_description_present_flag x)
             (u 8 (colour_primaries x) ++ u 8 (transfer_characteristics x)
              ++ u 8 (matrix_coefficients x)))
  ++ fl (chroma_loc_info_present_flag x)
  ++ opt_bits (chroma_loc_info_present_flag x)
       (ue_bits (chroma_sample_loc_type_top_field x) ++ ue_bits (chroma_sample_loc_type_bottom_field x))
  ++ fl (timing_info_present_flag x)
  ++ opt_bits (timing_info_present_flag x)
       (u 32 (num_units_in_tick x) ++ u 32 (time_scale x) ++ fl (fixed_frame_rate_flag x))
  ++ fl (nal_hrd_parameters_present_flag x)
  ++ opt_bits (nal_hrd_parameters_present_flag x) (ser_hrd (nal_hrd x))
  ++ fl (vcl_hrd_parameters_present_flag x)
  ++ opt_bits (vcl_hrd_parameters_present_flag x) (ser_hrd (vcl_hrd x))
  ++ opt_bits (nal_hrd_parameters_present_flag x || vcl_hrd_parameters_present_flag x)
       (fl (low_delay_hrd_flag x))
  ++ fl (pic_struct_present_flag x)
  ++ fl (bitstream_restriction_flag x)
  ++ opt_bits (bitstream_restriction_flag x)
       (fl (motion_vectors_over_pic_boundaries_flag x)
        ++ ue_bits (max_bytes_per_pic_denom x) ++ ue_bits (max_bits_per_mb_denom x)
        ++ ue_bits (log2_max_mv_length_horizontal x) ++ ue_bits (log2_max_mv_length_vertical x)
        ++ ue_bits (max_num_reorder_frames x) ++ ue_bits (max_dec_frame_buffering x)).

Definition ser_vui (x : vui_syntax) : list bool := ser_vui_sar x ++ ser_vui_rest x.

(* Table E-1; 0 = unspecified; 17..254 reserved (not generated) *)
Definition sar_of_idc (idc : N) : N * N :=
  nth (N.to_nat idc)
      [(0,0); (1,1); (12,11); (10,11); (16,11); (40,33); (24,11); (20,11); (32,11);
       (80,33); (18,11); (15,11); (64,33); (160,99); (4,3); (3,2); (2,1)] (0, 0).

Definition vui_valid (x : vui_syntax) : bool :=
  ((aspect_ratio_idc x <=? 16) || (aspect_ratio_idc x =? 255))
  && (sar_width x <? 65536) && (sar_height x <? 65536)
  && (video_format x <? 8) && (colour_primaries x <? 256) && (transfer_characteristics x <? 256)
  && (matrix_coefficients x <? 256)
  && (chroma_sample_loc_type_top_field x <=? 5) && (chroma_sample_loc_type_bottom_field x <=? 5)
  && (num_units_in_tick x <? 4294967296) && (time_scale x <? 4294967296)
  && (if nal_hrd_parameters_present_flag x then hrd_valid (nal_hrd x) else true)
  && (if vcl_hrd_parameters_present_flag x then hrd_valid (vcl_hrd x) else true)
  && ue_ok (max_bytes_per_pic_denom x) && ue_ok (max_bits_per_mb_denom x)
  && ue_ok (log2_max_mv_length_horizontal x) && ue_ok (log2_max_mv_length_vertical x)
  && ue_ok (max_num_reorder_frames x) && ue_ok (max_dec_frame_buffering x).

Definition expected_sar (x : vui_syntax) : N * N :=
  if aspect_ratio_info_present_flag x
  then (if aspect_ratio_idc x =? 255 then (sar_width x, sar_height x) else sar_of_idc (aspect_ratio_idc x))
  else (0, 0).

Definition expected_vui (beyond : bool) (x : vui_syntax) : vui :=
  let sar := expected_sar x in
  if negb beyond then
    mkVui (fst sar) (snd sar) false false false 0 false false 0 0 0 false 0 0 false 0 0 false
          false None false None false false false false 0 0 0 0 0 0
  else
    let vs := video_signal_type_present_flag x in
    let cd := vs && colour_description_present_flag x in
    let cl := chroma_loc_info_present_flag x in
    let ti := timing_info_present_flag x in
    let nh := nal_hrd_parameters_present_flag x in
    let vh := vcl_hrd_parameters_present_flag x in
    let br := bitstream_restriction_flag x in
    let n (c : bool) (v : N) := if c then v else 0 in
    mkVui (fst sar) (snd sar)
          (overscan_info_present_flag x) (overscan_info_present_flag x && overscan_appropriate_flag x)
          vs (n vs (video_format x)) (vs && video_full_range_flag x) cd
          (n cd (colour_primaries x)) (n cd (transfer_characteristics x)) (n cd (matrix_coefficients x))
          cl (n cl (chroma_sample_loc_type_top_field x)) (n cl (chroma_sample_loc_type_bottom_field x))
          ti (n ti (num_units_in_tick x)) (n ti (time_scale x)) (ti && fixed_frame_rate_flag x)
          nh (if nh then Some (expected_hrd (nal_hrd x)) else None)
          vh (if vh then Some (expected_hrd (vcl_hrd x)) else None)
          ((nh || vh) && low_delay_hrd_flag x) (pic_struct_present_flag x)
          br (br && motion_vectors_over_pic_boundaries_flag x)
          (n br (max_bytes_per_pic_denom x)) (n br (max_bits_per_mb_denom x))
          (n br (log2_max_mv_length_horizontal x)) (n br (log2_max_mv_length_vertical x))
          (n br (max_num_reorder_frames x)) (n br (max_dec_frame_buffering x)).

(* ------------------------------------------------------------------ seq_parameter_set_data (7.3.2.1.1) *)
Record sps_syntax := mkSpsSyn {
  sps_nal_ref_idc : N;
  profile_idc : N;
  constraint_set0_flag : bool; constraint_set1_flag : bool; constraint_set2_flag : bool;
  constraint_set3_flag : bool; constraint_set4_flag : bool; constraint_set5_flag : bool;
  level_idc : N;
  seq_parameter_set_id : N;
  chroma_format_idc : N; separate_colour_plane_flag : bool;
  bit_depth_luma_minus8 : N; bit_depth_chroma_minus8 : N;
  qpprime_y_zero_transform_bypass_flag : bool;
  seq_scaling_matrix_present_flag : bool;
  seq_scaling_lists : list (option (list Z));           (* per list: None = not present, Some deltas *)
  log2_max_frame_num_minus4 : N;
  pic_order_cnt_type : N;
  log2_max_pic_order_cnt_lsb_minus4 : N;
  delta_pic_order_always_zero_flag : bool;
  offset_for_non_ref_pic : Z; offset_for_top_to_bottom_field : Z;
  offset_for_ref_frame : list Z;                         (* num_ref_frames_in_pic_order_cnt_cycle = length *)
  max_num_ref_frames : N;
  gaps_in_frame_num_value_allowed_flag : bool;
  pic_width_in_mbs_minus1 : N; pic_height_in_map_units_minus1 : N;
  frame_mbs_only_flag : bool; mb_adaptive_frame_field_flag : bool;
  direct_8x8_inference_flag : bool;
  frame_cropping_flag : bool;
  frame_crop_left_offset : N; frame_crop_right_offset : N;
  frame_crop_top_offset : N; frame_crop_bottom_offset : N;
  vui_parameters_present_flag : bool;
  vui_params : vui_syntax }.

(* profiles that carry the chroma / bit depth / scaling block (14496-10:2020) *)
Definition high_profile_idcs : list N := [100; 110; 122; 244; 44; 83; 86; 118; 128; 138; 139; 134; 135].
Definition has_chroma_block (p : N) : bool := existsb (N.eqb p) high_profile_idcs.

Definition ser_sps_high (v : sps_syntax) : list bool :=
  opt_bits (has_chroma_block (profile_idc v))
    (ue_bits (chroma_format_idc v)
     ++ opt_bits (chroma_format_idc v =? 3) (fl (separate_colour_plane_flag v))
     ++ ue_bits (bit_depth_luma_minus8 v) ++ ue_bits (bit_depth_chroma_minus8 v)
     ++ fl (qpprime_y_zero_transform_bypass_flag v)
     ++ fl (seq_scaling_matrix_present_flag v)
     ++ opt_bits (seq_scaling_matrix_present_flag v) (ser_scaling_lists (seq_scaling_lists v))).

Definition ser_sps_poc (v : sps_syntax) : list bool :=
  if pic_order_cnt_type v =? 0 then ue_bits (log2_max_pic_order_cnt_lsb_minus4 v)
  else if pic_order_cnt_type v =? 1 then
    fl (delta_pic_order_always_zero_flag v)
    ++ se_bits (offset_for_non_ref_pic v) ++ se_bits (offset_for_top_to_bottom_field v)
    ++ ue_bits (lenN (offset_for_ref_frame v))
    ++ flat_map se_bits (offset_for_ref_frame v)
  else [].

Definition ser_sps_crop (v : sps_syntax) : list bool :=
  opt_bits (frame_cropping_flag v)
    (ue_bits (frame_crop_left_offset v) ++ ue_bits (frame_crop_right_offset v)
     ++ ue_bits (frame_crop_top_offset v) ++ ue_bits (frame_crop_bottom_offset v)).

(* everything up to and including vui_parameters_present_flag *)
Definition ser_sps_pre (v : sps_syntax) : list bool :=
  u 8 (profile_idc v)
  ++ (fl (constraint_set0_flag v) ++ fl (constraint_set1_flag v) ++ fl (constraint_set2_flag v)
      ++ fl (constraint_set3_flag v) ++ fl (constraint_set4_flag v) ++ fl (constraint_set5_flag v)
      ++ u 2 0)                                          (* reserved_zero_2bits *)
  ++ u 8 (level_idc v)
  ++ ue_bits (seq_parameter_set_id v)
  ++ ser_sps_high v
  ++ ue_bits (log2_max_frame_num_minus4 v)
  ++ ue_bits (pic_order_cnt_type v)
  ++ ser_sps_poc v
  ++ ue_bits (max_num_ref_frames v)
  ++ fl (gaps_in_frame_num_value_allowed_flag v)
  ++ ue_bits (pic_width_in_mbs_minus1 v)
  ++ ue_bits (pic_height_in_map_units_minus1 v)
  ++ fl (frame_mbs_only_flag v)
  ++ opt_bits (negb (frame_mbs_only_flag v)) (fl (mb_adaptive_frame_field_flag v))
  ++ fl (direct_8x8_inference_flag v)
  ++ fl (frame_cropping_flag v)
  ++ ser_sps_crop v
  ++ fl (vui_parameters_present_flag v).

Definition ser_sps (v : sps_syntax) : list bool :=
  ser_sps_pre v ++ opt_bits (vui_parameters_present_flag v) (ser_vui (vui_params v)).

Definition raw_sps (v : sps_syntax) : list N := raw_nalu (sps_nal_ref_idc v) 7 (ser_sps v).
Definition nalu_sps (v : sps_syntax) : list N := nalu_of (sps_nal_ref_idc v) 7 (ser_sps v).

(* ---- derived quantities (7.4.2.1.1) *)
Definition eff_chroma_format_idc (v : sps_syntax) : N :=
  if has_chroma_block (profile_idc v) then chroma_format_idc v else 1.
Definition eff_separate_colour_plane (v : sps_syntax) : bool :=
  has_chroma_block (profile_idc v) && (chroma_format_idc v =? 3) && separate_colour_plane_flag v.
Definition chroma_array_type (v : sps_syntax) : N :=
  if eff_separate_colour_plane v then 0 else eff_chroma_format_idc v.
Definition sub_width_c (v : sps_syntax) : N := if eff_chroma_format_idc v =? 3 then 1 else 2.
Definition sub_height_c (v : sps_syntax) : N := if eff_chroma_format_idc v =? 1 then 2 else 1.
Definition fmo_n (v : sps_syntax) : N := if frame_mbs_only_flag v then 1 else 0.
Definition crop_unit_x (v : sps_syntax) : N :=
  if chroma_array_type v =? 0 then 1 else sub_width_c v.
Definition crop_unit_y (v : sps_syntax) : N :=
  if chroma_array_type v =? 0 then 2 - fmo_n v else sub_height_c v * (2 - fmo_n v).
Definition pic_width_in_samples (v : sps_syntax) : N := (pic_width_in_mbs_minus1 v + 1) * 16.
Definition frame_height_in_samples (v : sps_syntax) : N :=
  (2 - fmo_n v) * (pic_height_in_map_units_minus1 v + 1) * 16.
Definition crop_w (v : sps_syntax) : N :=
  if frame_cropping_flag v then crop_unit_x v * (frame_crop_left_offset v + frame_crop_right_offset v) else 0.
Definition crop_h (v : sps_syntax) : N :=
  if frame_cropping_flag v then crop_unit_y v * (frame_crop_top_offset v + frame_crop_bottom_offset v) else 0.
Definition display_width (v : sps_syntax) : N := pic_width_in_samples v - crop_w v.
Definition display_height (v : sps_syntax) : N := frame_height_in_samples v - crop_h v.

Definition int32_ok (k : Z) : bool := (-2147483647 <=? k)%Z && (k <=? 2147483647)%Z.

Definition sps_valid (v : sps_syntax) : bool :=
  (sps_nal_ref_idc v <? 4) && (profile_idc v <? 256) && (level_idc v <? 256)
  && (seq_parameter_set_id v <=? 31)
  && (if has_chroma_block (profile_idc v)
      then (chroma_format_idc v <=? 3) && (bit_depth_luma_minus8 v <=? 6)
           && (bit_depth_chroma_minus8 v <=? 6)
           && (if seq_scaling_matrix_present_flag v
               then (lenN (seq_scaling_lists v) =? (if chroma_format_idc v =? 3 then 12 else 8))
                    && scaling_lists_valid 0 (seq_scaling_lists v)
               else true)
      else true)
  && (log2_max_frame_num_minus4 v <=? 12) && (pic_order_cnt_type v <=? 2)
  && (log2_max_pic_order_cnt_lsb_minus4 v <=? 12)
  && int32_ok (offset_for_non_ref_pic v) && int32_ok (offset_for_top_to_bottom_field v)
  && (lenN (offset_for_ref_frame v) <=? 255) && forallb int32_ok (offset_for_ref_frame v)
  && ue_ok (max_num_ref_frames v)
  && (pic_width_in_mbs_minus1 v <? 65536) && (pic_height_in_map_units_minus1 v <? 65536)
  && ue_ok (frame_crop_left_offset v) && ue_ok (frame_crop_right_offset v)
  && ue_ok (frame_crop_top_offset v) && ue_ok (frame_crop_bottom_offset v)
  && (crop_w v <? pic_width_in_samples v) && (crop_h v <? frame_height_in_samples v)
  && (if vui_parameters_present_flag v then vui_valid (vui_params v) else true).

(* The Go struct stores offset_for_non_ref_pic, offset_for_top_to_bottom_field and
   offset_for_ref_frame[] (all se(v)) in uint fields and reads them with ReadExpGolomb:
   only the value 0 survives.  This guard excludes exactly that defect. *)
Definition sps_offsets_zero (v : sps_syntax) : bool :=
  if pic_order_cnt_type v =? 1
  then (offset_for_non_ref_pic v =? 0)%Z && (offset_for_top_to_bottom_field v =? 0)%Z
       && forallb (Z.eqb 0) (offset_for_ref_frame v)
  else true.

Definition compat_byte (v : sps_syntax) : N :=
  128 * b2n (constraint_set0_flag v) + 64 * b2n (constraint_set1_flag v)
  + 32 * b2n (constraint_set2_flag v) + 16 * b2n (constraint_set3_flag v)
  + 8 * b2n (constraint_set4_flag v) + 4 * b2n (constraint_set5_flag v).

(* what an int-valued se(v) element becomes in a Go uint field if stored by conversion *)
Definition z_as_uint (k : Z) : N := Z.to_N (k mod 18446744073709551616)%Z.

(* offmap: how an se(v) value shows up in the parser's uint field; nb0/nb1: byte counters *)
Definition expected_sps_gen (offmap : Z -> N) (nb0 nb1 : N) (beyond : bool) (v : sps_syntax) : sps :=
  let hp := has_chroma_block (profile_idc v) in
  let smp := hp && seq_scaling_matrix_present_flag v in
  let p0 := pic_order_cnt_type v =? 0 in
  let p1 := pic_order_cnt_type v =? 1 in
  let cr := frame_cropping_flag v in
  let n (c : bool) (x : N) := if c then x else 0 in
  let vp := vui_parameters_present_flag v in
  mkSps (profile_idc v) (compat_byte v) (level_idc v) (seq_parameter_set_id v)
        (eff_chroma_format_idc v) (eff_separate_colour_plane v)
        (n hp (bit_depth_luma_minus8 v)) (n hp (bit_depth_chroma_minus8 v))
        (hp && qpprime_y_zero_transform_bypass_flag v) smp
        (if smp then expected_scaling_lists 0 (seq_scaling_lists v) else [])
        (log2_max_frame_num_minus4 v) (pic_order_cnt_type v)
        (n p0 (log2_max_pic_order_cnt_lsb_minus4 v))
        (p1 && delta_pic_order_always_zero_flag v)
        (n p1 (offmap (offset_for_non_ref_pic v)))
        (n p1 (offmap (offset_for_top_to_bottom_field v)))
        (if p1 then map offmap (offset_for_ref_frame v) else [])
        (max_num_ref_frames v) (gaps_in_frame_num_value_allowed_flag v)
        (frame_mbs_only_flag v) (negb (frame_mbs_only_flag v) && mb_adaptive_frame_field_flag v)
        (direct_8x8_inference_flag v) cr
        (n cr (frame_crop_left_offset v)) (n cr (frame_crop_right_offset v))
        (n cr (frame_crop_top_offset v)) (n cr (frame_crop_bottom_offset v))
        (display_width v) (display_height v)
        nb0 nb1
        (if vp then Some (expected_vui beyond (vui_params v)) else None).

(* number of bits of the NAL unit (header included) up to and including vui_parameters_present_flag,
   and up to the last bit the parser reads *)
Definition sps_bits_before_vui (v : sps_syntax) : N := 8 + lenN (ser_sps_pre v).
Definition sps_bits_read (beyond : bool) (v : sps_syntax) : N :=
  sps_bits_before_vui v
  + (if vui_parameters_present_flag v
     then lenN (ser_vui_sar (vui_params v)) + (if beyond then lenN (ser_vui_rest (vui_params v)) else 0)
     else 0).

Definition expected_sps (beyond : bool) (v : sps_syntax) : sps :=
  expected_sps_gen z_as_uint
    (nbytes_at (raw_sps v) (sps_bits_before_vui v)) (nbytes_at (raw_sps v) (sps_bits_read beyond v))
    beyond v.

(* ------------------------------------------------------------------ pic_parameter_set_rbsp (7.3.2.2) *)
Record pps_syntax := mkPpsSyn {
  pps_nal_ref_idc : N;
  pic_parameter_set_id : N; pps_seq_parameter_set_id : N;
  entropy_coding_mode_flag : bool; bottom_field_pic_order_in_frame_present_flag : bool;
  num_slice_groups_minus1 : N; slice_group_map_type : N;
  run_length_minus1 : list N;                           (* type 0: num_slice_groups_minus1 + 1 entries *)
  top_left_bottom_right : list (N * N);                 (* type 2: num_slice_groups_minus1 entries *)
  slice_group_change_direction_flag : bool; slice_group_change_rate_minus1 : N;   (* types 3..5 *)
  slice_group_id : list N;                              (* type 6: pic_size_in_map_units_minus1 + 1 entries *)
  num_ref_idx_l0_default_active_minus1 : N; num_ref_idx_l1_default_active_minus1 : N;
  weighted_pred_flag : bool; weighted_bipred_idc : N;
  pic_init_qp_minus26 : Z; pic_init_qs_minus26 : Z; chroma_qp_index_offset : Z;
  deblocking_filter_control_present_flag : bool; constrained_intra_pred_flag : bool;
  redundant_pic_cnt_present_flag : bool;
  pps_has_tail : bool;                                  (* the part guarded by more_rbsp_data() is present *)
  transform_8x8_mode_flag : bool; pic_scaling_matrix_present_flag : bool;
  pic_scaling_lists : list (option (list Z));
  second_chroma_qp_index_offset : Z }.

(* u(v) width of slice_group_id: Ceil(Log2(num_slice_groups_minus1 + 1)) *)
Definition slice_group_id_bits (v : pps_syntax) : N := N.log2_up (num_slice_groups_minus1 v + 1).

Definition ser_pps_slice_groups (v : pps_syntax) : list bool :=
  opt_bits (0 <? num_slice_groups_minus1 v)
    (ue_bits (slice_group_map_type v)
     ++ (if slice_group_map_type v =? 0 then flat_map ue_bits (run_length_minus1 v)
         else if slice_group_map_type v =? 2
         then flat_map (fun p => ue_bits (fst p) ++ ue_bits (snd p)) (top_left_bottom_right v)
         else if (slice_group_map_type v =? 3) || (slice_group_map_type v =? 4) || (slice_group_map_type v =? 5)
         then fl (slice_group_change_direction_flag v) ++ ue_bits (slice_group_change_rate_minus1 v)
         else if slice_group_map_type v =? 6
         then ue_bits (lenN (slice_group_id v) - 1)      (* pic_size_in_map_units_minus1 *)
              ++ flat_map (u (slice_group_id_bits v)) (slice_group_id v)
         else [])).

(* everything before more_rbsp_data() *)
Definition ser_pps_pre (v : pps_syntax) : list bool :=
  ue_bits (pic_parameter_set_id v) ++ ue_bits (pps_seq_parameter_set_id v)
  ++ fl (entropy_coding_mode_flag v) ++ fl (bottom_field_pic_order_in_frame_present_flag v)
  ++ ue_bits (num_slice_groups_minus1 v)
  ++ ser_pps_slice_groups v
  ++ ue_bits (num_ref_idx_l0_default_active_minus1 v) ++ ue_bits (num_ref_idx_l1_default_active_minus1 v)
  ++ fl (weighted_pred_flag v) ++ u 2 (weighted_bipred_idc v)
  ++ se_bits (pic_init_qp_minus26 v) ++ se_bits (pic_init_qs_minus26 v) ++ se_bits (chroma_qp_index_offset v)
  ++ fl (deblocking_filter_control_present_flag v) ++ fl (constrained_intra_pred_flag v)
  ++ fl (redundant_pic_cnt_present_flag v).

Definition ser_pps_tail (v : pps_syntax) : list bool :=
  fl (transform_8x8_mode_flag v) ++ fl (pic_scaling_matrix_present_flag v)
  ++ opt_bits (pic_scaling_matrix_present_flag v) (ser_scaling_lists (pic_scaling_lists v))
  ++ se_bits (second_chroma_qp_index_offset v).

Definition ser_pps (v : pps_syntax) : list bool :=
  ser_pps_pre v ++ opt_bits (pps_has_tail v) (ser_pps_tail v).

Definition raw_pps (v : pps_syntax) : list N := raw_nalu (pps_nal_ref_idc v) 8 (ser_pps v).
Definition nalu_pps (v : pps_syntax) : list N := nalu_of (pps_nal_ref_idc v) 8 (ser_pps v).

(* number of pic scaling lists: 6 + ((chroma_format_idc != 3) ? 2 : 6) * transform_8x8_mode_flag *)
Definition pps_nr_scaling_lists (chroma : N) (v : pps_syntax) : N :=
  6 + (if transform_8x8_mode_flag v then (if chroma =? 3 then 6 else 2) else 0).

Definition se_ok (k : Z) : bool := int32_ok k.

(* chroma = chroma_format_idc of the SPS the PPS refers to *)
Definition pps_valid (chroma : N) (v : pps_syntax) : bool :=
  (pps_nal_ref_idc v <? 4) && (pic_parameter_set_id v <=? 255) && (pps_seq_parameter_set_id v <=? 31)
  && (num_slice_groups_minus1 v <=? 7)
  && (if 0 <? num_slice_groups_minus1 v
      then (slice_group_map_type v <=? 6)
           && (if slice_group_map_type v =? 0
               then (lenN (run_length_minus1 v) =? num_slice_groups_minus1 v + 1)
                    && forallb ue_ok (run_length_minus1 v) else true)
           && (if slice_group_map_type v =? 2
               then (lenN (top_left_bottom_right v) =? num_slice_groups_minus1 v)
                    && forallb (fun p => ue_ok (fst p) && ue_ok (snd p)) (top_left_bottom_right v) else true)
           && ue_ok (slice_group_change_rate_minus1 v)
           && (if slice_group_map_type v =? 6
               then (1 <=? lenN (slice_group_id v)) && (lenN (slice_group_id v) <=? 65536)
                    && forallb (fun x => x <=? num_slice_groups_minus1 v) (slice_group_id v) else true)
      else true)
  && (num_ref_idx_l0_default_active_minus1 v <=? 31) && (num_ref_idx_l1_default_active_minus1 v <=? 31)
  && (weighted_bipred_idc v <? 4)
  && se_ok (pic_init_qp_minus26 v) && se_ok (pic_init_qs_minus26 v) && se_ok (chroma_qp_index_offset v)
  && (if pps_has_tail v
      then (if pic_scaling_matrix_present_flag v
            then (lenN (pic_scaling_lists v) =? pps_nr_scaling_lists chroma v)
                 && scaling_lists_valid 0 (pic_scaling_lists v)
            else true)
           && se_ok (second_chroma_qp_index_offset v)
      else true).

Definition expected_pps (v : pps_syntax) : pps :=
  let sg := 0 <? num_slice_groups_minus1 v in
  let mt := if sg then slice_group_map_type v else 0 in
  let t0 := sg && (mt =? 0) in
  let t2 := sg && (mt =? 2) in
  let t345 := sg && ((mt =? 3) || (mt =? 4) || (mt =? 5)) in
  let t6 := sg && (mt =? 6) in
  let tl := pps_has_tail v in
  let spf := tl && pic_scaling_matrix_present_flag v in
  mkPps (pic_parameter_set_id v) (pps_seq_parameter_set_id v)
        (entropy_coding_mode_flag v) (bottom_field_pic_order_in_frame_present_flag v)
        (num_slice_groups_minus1 v) mt
        (if t0 then run_length_minus1 v else [])
        (if t2 then map fst (top_left_bottom_right v) else [])
        (if t2 then map snd (top_left_bottom_right v) else [])
        (t345 && slice_group_change_direction_flag v)
        (if t345 then slice_group_change_rate_minus1 v else 0)
        (if t6 then lenN (slice_group_id v) - 1 else 0)
        (if t6 then slice_group_id v else [])
        (num_ref_idx_l0_default_active_minus1 v) (num_ref_idx_l1_default_active_minus1 v)
        (weighted_pred_flag v) (weighted_bipred_idc v)
        (pic_init_qp_minus26 v) (pic_init_qs_minus26 v) (chroma_qp_index_offset v)
        (deblocking_filter_control_present_flag v) (constrained_intra_pred_flag v)
        (redundant_pic_cnt_present_flag v)
        (tl && transform_8x8_mode_flag v) spf
        (if spf then expected_scaling_lists 0 (pic_scaling_lists v) else [])
        (if tl then second_chroma_qp_index_offset v else 0%Z).

(* ------------------------------------------------------------------ slice_header (7.3.3) *)
Record pwt_entry_syntax := mkPwt {
  pwt_luma : option (Z * Z);                     (* luma_weight_flag: weight, offset *)
  pwt_chroma : option (Z * Z * Z * Z) }.         (* chroma_weight_flag: weight/offset for j = 0, 1 *)

Record slice_syntax := mkSliceSyn {
  sl_nal_ref_idc : N; sl_nal_unit_type : N;      (* 1 = non-IDR slice, 5 = IDR slice *)
  first_mb_in_slice : N; slice_type : N; sl_pic_parameter_set_id : N;
  colour_plane_id : N; frame_num : N; field_pic_flag : bool; bottom_field_flag : bool;
  idr_pic_id : N; pic_order_cnt_lsb : N; delta_pic_order_cnt_bottom : Z;
  delta_pic_order_cnt0 : Z; delta_pic_order_cnt1 : Z; redundant_pic_cnt : N;
  direct_spatial_mv_pred_flag : bool; num_ref_idx_active_override_flag : bool;
  num_ref_idx_l0_active_minus1 : N; num_ref_idx_l1_active_minus1 : N;
  ref_pic_list_modification_flag_l0 : bool; rplm_l0 : list (N * N);   (* (modification_of_pic_nums_idc in 0..2, value); the closing 3 is implicit *)
  ref_pic_list_modification_flag_l1 : bool; rplm_l1 : list (N * N);
  luma_log2_weight_denom : N; chroma_log2_weight_denom : N;
  pwt_l0 : list pwt_entry_syntax; pwt_l1 : list pwt_entry_syntax;
  no_output_of_prior_pics_flag : bool; long_term_reference_flag : bool;
  adaptive_ref_pic_marking_mode_flag : bool;
  mmco : list (N * N * N);                       (* (memory_management_control_operation in 1..6, arg, arg2); the closing 0 is implicit *)
  cabac_init_idc : N; slice_qp_delta : Z; sp_for_switch_flag : bool; slice_qs_delta : Z;
  disable_deblocking_filter_idc : N; slice_alpha_c0_offset_div2 : Z; slice_beta_offset_div2 : Z;
  slice_group_change_cycle : N;
  slice_data : list bool }.                      (* what follows the header in the NAL unit *)

Section SliceSyntax.
  Variable sp : sps_syntax.                      (* the active SPS: the one the PPS refers to *)
  Variable pp : pps_syntax.                      (* the PPS selected by pic_parameter_set_id *)
  Variable v : slice_syntax.

  Definition sl_type5 : N := slice_type v mod 5.
  Definition is_P : bool := sl_type5 =? 0.
  Definition is_B : bool := sl_type5 =? 1.
  Definition is_I : bool := sl_type5 =? 2.
  Definition is_SP : bool := sl_type5 =? 3.
  Definition is_SI : bool := sl_type5 =? 4.
  Definition idr_pic : bool := sl_nal_unit_type v =? 5.

  Definition sl_separate_colour_plane : bool := eff_separate_colour_plane sp.
  Definition sl_field_pic : bool := negb (frame_mbs_only_flag sp) && field_pic_flag v.
  Definition sl_poc0 : bool := pic_order_cnt_type sp =? 0.
  Definition sl_poc1 : bool := (pic_order_cnt_type sp =? 1) && negb (delta_pic_order_always_zero_flag sp).
  Definition sl_bottom_delta : bool := bottom_field_pic_order_in_frame_present_flag pp && negb sl_field_pic.
  Definition sl_has_ref_idx : bool := is_P || is_SP || is_B.
  Definition sl_override : bool := sl_has_ref_idx && num_ref_idx_active_override_flag v.
  (* num_ref_idx_lX_active_minus1 in force: coded, or inferred from the PPS *)
  Definition eff_l0 : N :=
    if sl_override then num_ref_idx_l0_active_minus1 v else num_ref_idx_l0_default_active_minus1 pp.
  Definition eff_l1 : N :=
    if sl_override then (if is_B then num_ref_idx_l1_active_minus1 v else 0)
    else num_ref_idx_l1_default_active_minus1 pp.
  Definition sl_has_pwt : bool :=
    (weighted_pred_flag pp && (is_P || is_SP)) || ((weighted_bipred_idc pp =? 1) && is_B).
  Definition sl_cat_nonzero : bool := negb (chroma_array_type sp =? 0).
  Definition sl_has_fmo_cycle : bool :=
    (0 <? num_slice_groups_minus1 pp) && (3 <=? slice_group_map_type pp) && (slice_group_map_type pp <=? 5).
  (* Ceil(Log2(PicSizeInMapUnits / SliceGroupChangeRate + 1)), exact division *)
  Definition slice_group_change_cycle_bits : N :=
    let size := (pic_width_in_mbs_minus1 sp + 1) * (pic_height_in_map_units_minus1 sp + 1) in
    let rate := slice_group_change_rate_minus1 pp + 1 in
    N.log2_up ((size + rate - 1) / rate + 1).

  Definition ser_rplm_entry (e : N * N) : list bool := ue_bits (fst e) ++ ue_bits (snd e).
  Definition ser_rplm (flag : bool) (l : list (N * N)) : list bool :=
    fl flag ++ opt_bits flag (flat_map ser_rplm_entry l ++ ue_bits 3).

  Definition ser_pwt_entry (e : pwt_entry_syntax) : list bool :=
    (match pwt_luma e with
     | None => fl false
     | Some (w, o) => fl true ++ se_bits w ++ se_bits o
     end)
    ++ opt_bits sl_cat_nonzero
         (match pwt_chroma e with
          | None => fl false
          | Some (w0, o0, w1, o1) => fl true ++ se_bits w0 ++ se_bits o0 ++ se_bits w1 ++ se_bits o1
          end).

  Definition ser_mmco (e : N * N * N) : list bool :=
    let '(op, a, b) := e in
    ue_bits op
    ++ opt_bits ((op =? 1) || (op =? 3)) (ue_bits a)          (* difference_of_pic_nums_minus1 *)
    ++ opt_bits (op =? 2) (ue_bits a)                         (* long_term_pic_num *)
    ++ opt_bits (op =? 3) (ue_bits b)                         (* long_term_frame_idx *)
    ++ opt_bits (op =? 6) (ue_bits a)                         (* long_term_frame_idx *)
    ++ opt_bits (op =? 4) (ue_bits a).                        (* max_long_term_frame_idx_plus1 *)

  Definition ser_slice_header : list bool :=
    ue_bits (first_mb_in_slice v) ++ ue_bits (slice_type v) ++ ue_bits (sl_pic_parameter_set_id v)
    ++ opt_bits sl_separate_colour_plane (u 2 (colour_plane_id v))
    ++ u (log2_max_frame_num_minus4 sp + 4) (frame_num v)
    ++ opt_bits (negb (frame_mbs_only_flag sp))
         (fl (field_pic_flag v) ++ opt_bits (field_pic_flag v) (fl (bottom_field_flag v)))
    ++ opt_bits idr_pic (ue_bits (idr_pic_id v))
    ++ opt_bits sl_poc0
         (u (log2_max_pic_order_cnt_lsb_minus4 sp + 4) (pic_order_cnt_lsb v)
          ++ opt_bits sl_bottom_delta (se_bits (delta_pic_order_cnt_bottom v)))
    ++ opt_bits sl_poc1
         (se_bits (delta_pic_order_cnt0 v) ++ opt_bits sl_bottom_delta (se_bits (delta_pic_order_cnt1 v)))
    ++ opt_bits (redundant_pic_cnt_present_flag pp) (ue_bits (redundant_pic_cnt v))
    ++ opt_bits is_B (fl (direct_spatial_mv_pred_flag v))
    ++ opt_bits sl_has_ref_idx
         (fl (num_ref_idx_active_override_flag v)
          ++ opt_bits (num_ref_idx_active_override_flag v)
               (ue_bits (num_ref_idx_l0_active_minus1 v)
                ++ opt_bits is_B (ue_bits (num_ref_idx_l1_active_minus1 v))))
    ++ opt_bits (negb is_I && negb is_SI) (ser_rplm (ref_pic_list_modification_flag_l0 v) (rplm_l0 v))
    ++ opt_bits is_B (ser_rplm (ref_pic_list_modification_flag_l1 v) (rplm_l1 v))
    ++ opt_bits sl_has_pwt
         (ue_bits (luma_log2_weight_denom v)
          ++ opt_bits sl_cat_nonzero (ue_bits (chroma_log2_weight_denom v))
          ++ flat_map ser_pwt_entry (pwt_l0 v)
          ++ opt_bits is_B (flat_map ser_pwt_entry (pwt_l1 v)))
    ++ opt_bits (negb (sl_nal_ref_idc v =? 0))
         (if idr_pic
          then fl (no_output_of_prior_pics_flag v) ++ fl (long_term_reference_flag v)
          else fl (adaptive_ref_pic_marking_mode_flag v)
               ++ opt_bits (adaptive_ref_pic_marking_mode_flag v) (flat_map ser_mmco (mmco v) ++ ue_bits 0))
    ++ opt_bits (entropy_coding_mode_flag pp && negb is_I && negb is_SI) (ue_bits (cabac_init_idc v))
    ++ se_bits (slice_qp_delta v)
    ++ opt_bits (is_SP || is_SI)
         (opt_bits is_SP (fl (sp_for_switch_flag v)) ++ se_bits (slice_qs_delta v))
    ++ opt_bits (deblocking_filter_control_present_flag pp)
         (ue_bits (disable_deblocking_filter_idc v)
          ++ opt_bits (negb (disable_deblocking_filter_idc v =? 1))
               (se_bits (slice_alpha_c0_offset_div2 v) ++ se_bits (slice_beta_offset_div2 v)))
    ++ opt_bits sl_has_fmo_cycle (u slice_group_change_cycle_bits (slice_group_change_cycle v)).

  Definition raw_slice : list N :=
    raw_nalu (sl_nal_ref_idc v) (sl_nal_unit_type v) (ser_slice_header ++ slice_data v).
  Definition nalu_slice : list N :=
    nalu_of (sl_nal_ref_idc v) (sl_nal_unit_type v) (ser_slice_header ++ slice_data v).

  Definition rplm_entry_ok (e : N * N) : bool := (fst e <=? 2) && ue_ok (snd e).
  Definition pwt_entry_ok (e : pwt_entry_syntax) : bool :=
    (match pwt_luma e with None => true | Some (w, o) => se_ok w && se_ok o end)
    && (match pwt_chroma e with
        | None => true
        | Some (a, b, c, d) => se_ok a && se_ok b && se_ok c && se_ok d
        end).
  Definition mmco_ok (e : N * N * N) : bool :=
    let '(op, a, b) := e in (1 <=? op) && (op <=? 6) && ue_ok a && ue_ok b.

  Definition slice_valid : bool :=
    (sl_nal_ref_idc v <? 4) && ((sl_nal_unit_type v =? 1) || (sl_nal_unit_type v =? 5))
    && ue_ok (first_mb_in_slice v) && (slice_type v <=? 9)
    && (sl_pic_parameter_set_id v =? pic_parameter_set_id pp)
    && (colour_plane_id v <? 3)
    && (frame_num v <? 2 ^ (log2_max_frame_num_minus4 sp + 4))
    && (idr_pic_id v <? 65536)
    && (pic_order_cnt_lsb v <? 2 ^ (log2_max_pic_order_cnt_lsb_minus4 sp + 4))
    && se_ok (delta_pic_order_cnt_bottom v) && se_ok (delta_pic_order_cnt0 v) && se_ok (delta_pic_order_cnt1 v)
    && (redundant_pic_cnt v <=? 127)
    && (num_ref_idx_l0_active_minus1 v <=? 31) && (num_ref_idx_l1_active_minus1 v <=? 31)
    && forallb rplm_entry_ok (rplm_l0 v) && (lenN (rplm_l0 v) <=? 1000)
    && forallb rplm_entry_ok (rplm_l1 v) && (lenN (rplm_l1 v) <=? 1000)
    && ue_ok (luma_log2_weight_denom v) && ue_ok (chroma_log2_weight_denom v)
    && (if sl_has_pwt then (lenN (pwt_l0 v) =? eff_l0 + 1) && (if is_B then lenN (pwt_l1 v) =? eff_l1 + 1 else true)
        else true)
    && forallb pwt_entry_ok (pwt_l0 v) && forallb pwt_entry_ok (pwt_l1 v)
    && forallb mmco_ok (mmco v) && (lenN (mmco v) <=? 1000)
    && (cabac_init_idc v <=? 2) && se_ok (slice_qp_delta v) && se_ok (slice_qs_delta v)
    && (disable_deblocking_filter_idc v <=? 2)
    && se_ok (slice_alpha_c0_offset_div2 v) && se_ok (slice_beta_offset_div2 v)
    && (slice_group_change_cycle v <? 2 ^ slice_group_change_cycle_bits).

  (* the Go struct keeps ONE value of the repeated elements: the last one coded *)
  Definition last_rplm (sel : N -> bool) (l : list (N * N)) (d : N) : N :=
    fold_left (fun acc e => if sel (fst e) then snd e else acc) l d.
  Definition rplm_all : list (N * N) :=
    (if negb is_I && negb is_SI && ref_pic_list_modification_flag_l0 v then rplm_l0 v else [])
    ++ (if is_B && ref_pic_list_modification_flag_l1 v then rplm_l1 v else []).
  Definition mmco_run : list (N * N * N) :=
    if negb (sl_nal_ref_idc v =? 0) && negb idr_pic && adaptive_ref_pic_marking_mode_flag v then mmco v else [].
  Definition last_mmco (sel : N -> bool) (proj : N * N * N -> N) (d : N) : N :=
    fold_left (fun acc e => if sel (fst (fst e)) then proj e else acc) mmco_run d.

  Definition expected_slice : slice_hdr :=
    let n (c : bool) (x : N) := if c then x else 0 in
    let zz (c : bool) (x : Z) := if c then x else 0%Z in
    let marking := negb (sl_nal_ref_idc v =? 0) in
    let rp0 := negb is_I && negb is_SI && ref_pic_list_modification_flag_l0 v in
    let rp1 := is_B && ref_pic_list_modification_flag_l1 v in
    let dbf := deblocking_filter_control_present_flag pp in
    let hdr_bits := 8 + lenN ser_slice_header in
    mkSh (slice_type v) (first_mb_in_slice v) (sl_pic_parameter_set_id v) (pps_seq_parameter_set_id pp)
         (n sl_separate_colour_plane (colour_plane_id v)) (frame_num v) (n idr_pic (idr_pic_id v))
         (n sl_poc0 (pic_order_cnt_lsb v))
         (zz (sl_poc0 && sl_bottom_delta) (delta_pic_order_cnt_bottom v))
         (zz sl_poc1 (delta_pic_order_cnt0 v)) (zz (sl_poc1 && sl_bottom_delta) (delta_pic_order_cnt1 v))
         (n (redundant_pic_cnt_present_flag pp) (redundant_pic_cnt v))
         (n sl_has_ref_idx eff_l0) (n sl_has_ref_idx eff_l1)
         (n (rp0 || rp1) 3)
         (last_rplm (fun i => (i =? 0) || (i =? 1)) rplm_all 0)
         (last_mmco (fun op => op =? 2) (fun e => snd (fst e)) (last_rplm (fun i => i =? 2) rplm_all 0))
         0
         (n sl_has_pwt (luma_log2_weight_denom v)) (n (sl_has_pwt && sl_cat_nonzero) (chroma_log2_weight_denom v))
         (last_mmco (fun op => (op =? 1) || (op =? 3)) (fun e => snd (fst e)) 0)
         (last_mmco (fun op => (op =? 3) || (op =? 6)) (fun e => if fst (fst e) =? 3 then snd e else snd (fst e)) 0)
         (last_mmco (fun op => op =? 4) (fun e => snd (fst e)) 0)
         (n (entropy_coding_mode_flag pp && negb is_I && negb is_SI) (cabac_init_idc v))
         (slice_qp_delta v) (zz (is_SP || is_SI) (slice_qs_delta v))
         (n dbf (disable_deblocking_filter_idc v))
         (zz (dbf && negb (disable_deblocking_filter_idc v =? 1)) (slice_alpha_c0_offset_div2 v))
         (zz (dbf && negb (disable_deblocking_filter_idc v =? 1)) (slice_beta_offset_div2 v))
         (n sl_has_fmo_cycle (slice_group_change_cycle v))
         (nbytes_at raw_slice hdr_bits)
         sl_field_pic (sl_field_pic && bottom_field_flag v)
         (is_B && direct_spatial_mv_pred_flag v) sl_override
         rp0 rp1
         (marking && idr_pic && no_output_of_prior_pics_flag v)
         (marking && idr_pic && long_term_reference_flag v)
         (is_SP && sp_for_switch_flag v)
         (marking && negb idr_pic && adaptive_ref_pic_marking_mode_flag v).
End SliceSyntax.
